import Props.C09
import Props.C01
import Props.C02
import Props.C12
import Props.C08
import Props.C07
import Props.C11
import Props.C06
