import Props.C09
