import PyctrModel
import Driver.Files
namespace Pyctr
open Save

inductive SaveOp
  | read (pi : Nat) (n : Int)
  | seek (pi : Nat) (off : Int) (wh : Nat)
  | write (pi : Nat) (d : Bytes)
  | blk (pi level block : Nat) (verify deep : Bool)
  | dp (pi off : Nat) (n : Int)
  | dpw (pi off : Nat) (d : Bytes)
  | reopen (writable : Bool)
  | fault (pos : Nat) (b : Nat)

def SaveOp.ofSExp : SExp → Option SaveOp
  | .list [.atom "read", a, b] => do some (.read (← a.nat?) (← b.int?))
  | .list [.atom "seek", a, b, c] => do some (.seek (← a.nat?) (← b.int?) (← c.nat?))
  | .list [.atom "write", a, b] => do some (.write (← a.nat?) (← b.bytes?))
  | .list [.atom "blk", a, b, c, d, e] => do some (.blk (← a.nat?) (← b.nat?) (← c.nat?) ((← d.nat?) == 1) ((← e.nat?) == 1))
  | .list [.atom "dp", a, b, c] => do some (.dp (← a.nat?) (← b.nat?) (← c.int?))
  | .list [.atom "dpw", a, b, c] => do some (.dpw (← a.nat?) (← b.nat?) (← c.bytes?))
  | .list [.atom "reopen", a] => do some (.reopen ((← a.nat?) == 1))
  | .list [.atom "fault", a, b] => do some (.fault (← a.nat?) (← b.nat?))
  | _ => none

def cmacOf : SExp → Option (Option CmacScheme)
  | .atom "-" => some none
  | .list [m, p, s, k] => do some (some ⟨← m.bytes?, ← p.bytes?, (← s.nat?) == 1, ← k.bytes?⟩)
  | _ => none

def benign (e : Err) : Bool := e == .valueError || e == .other "IVFCReadOnlyError" || e == .other "DPFSReadOnlyError"

def renderValid : Option Bool → String
  | none => "N" | some true => "T" | some false => "F"

/-- the abstraction tie of C18: when the geometry is regular, the levels and master hashes after the model's `lv4Write` are what
    `absWrite` (the function the hash-path theorem is about) computes from the levels before; a difference is appended to the token -/
def absCheck (H : Bytes → Bytes) (c c' : Cont) (pi : Nat) (d : Bytes) : String :=
  match c.parts[pi]?, c'.parts[pi]? with
  | some p, some p' =>
    let data := if p.seek + d.length > p.ivfc.lv4.size then d.take (p.ivfc.lv4.size - p.seek) else d
    if data.isEmpty || !geomOK (p.P c.F) p.tree p.master then ""
    else
      -- `levelBytes P t i = levelFrom (dpfsView P t.dp) P t i` by definition; the view is computed once per state
      let V := dpfsView (p.P c.F) p.tree.dp
      let l0 := levelFrom V (p.P c.F) p.tree 0
      let l1 := levelFrom V (p.P c.F) p.tree 1
      let l2 := levelFrom V (p.P c.F) p.tree 2
      let l3 := levelFrom V (p.P c.F) p.tree 3
      let L : Nat → Bytes := fun j => if j = 0 then l0 else if j = 1 then l1 else if j = 2 then l2 else if j = 3 then l3
        else levelFrom V (p.P c.F) p.tree j
      match absWrite H p.bsOf 3 p.seek data (L, p.master) with
      | .error _ => "!abs-error"
      | .ok (L', m') =>
        let V' := dpfsView (p'.P c'.F) p'.tree.dp
        if (List.range 4).all (fun j => L' j == levelFrom V' (p'.P c'.F) p'.tree j) && m' == p'.master then "" else "!abs-differs"
  | _, _ => ""

/-- run the ops; stops after an error that may leave the real objects half-updated -/
def saveRun (kind : Kind) (cm : Option CmacScheme) : Cont → List SaveOp → List String → List String × Bytes
  | c, [], acc => (acc.reverse, c.F)
  | c, op :: ops, acc =>
    let H := Prim.sha256
    let continue' (r : Except Err (String × Cont)) : List String × Bytes :=
      match r with
      | .ok (s, c') => saveRun kind cm c' ops (s :: acc)
      | .error e => if benign e then saveRun kind cm c ops (("e:" ++ e.name) :: acc) else ((("e:" ++ e.name) :: acc).reverse, c.F)
    match op with
    | .read pi n => continue' ((contRead H c pi n).map fun (d, c') => ("b:" ++ toHexW d, c'))
    | .seek pi off wh => continue' ((contSeek c pi off wh).map fun (n, c') => ("n:" ++ toString n, c'))
    | .write pi d => continue' ((lv4Write H Prim.cmac cm c pi d).map fun (n, c') => ("n:" ++ toString n ++ absCheck H c c' pi d, c'))
    | .blk pi l b v dv => continue' ((contBlock H c pi l b v dv).map fun ((d, val), c') => ("k:" ++ toHexW d ++ "/" ++ renderValid val, c'))
    | .dp pi off n => continue' ((contDpRead c pi off n).map fun d => ("b:" ++ toHexW d, c))
    | .dpw pi off d => continue' ((contDpWrite c pi off d).map fun (n, c') => ("n:" ++ toString n, c'))
    | .reopen w => continue' ((openCont H kind c.F w).map fun c' => ("ok", c'))
    | .fault pos b => continue' (.ok ("ok", { c with F := if pos < c.F.length then c.F.set pos (UInt8.ofNat b) else c.F }))

def renderPart (p : PartSt) : String :=
  "p" ++ toString p.index ++ ":" ++ toString p.pOff ++ ":" ++ toString p.pSize ++ ":" ++ toString p.ivfc.lv4.size ++ ":" ++
    toString p.master.length ++ ":" ++ toString p.dp.lv2bits.length

def handleSave (cmd : String) (args : List SExp) : String :=
  match cmd, args with
  | "save-run", [k, f, w, cm, .list ops] =>
    match k.sym?, f.bytes?, w.nat?, cmacOf cm, ops.mapM SaveOp.ofSExp with
    | some ks, some file, some wr, some cmac, some ops =>
      let kind := if ks == "disa" then Kind.disa else Kind.diff
      match openCont Prim.sha256 kind file (wr == 1) with
      | .error e => "e:" ++ e.name
      | .ok c =>
        let (outs, F) := saveRun kind cmac c ops []
        "ok " ++ ",".intercalate (c.parts.map renderPart) ++ " " ++ " ".intercalate outs ++ " | " ++ toHexW F
    | _, _, _, _, _ => "bad-args"
  | "save-hyp", [k, f] =>
    -- are the hypotheses of the hash-path theorem (C18_write_hash_path, with Bd = the partition offset) met by this image?
    match k.sym?, f.bytes? with
    | some ks, some file =>
      let kind := if ks == "disa" then Kind.disa else Kind.diff
      match openCont Prim.sha256 kind file true with
      | .error e => "e:" ++ e.name
      | .ok c =>
        "ok " ++ " ".intercalate (c.parts.map fun p =>
          let g := geomOK (p.P c.F) p.tree p.master
          let lay := decide (0x200 ≤ p.pOff) && decide (p.pOff ≤ c.F.length) && decide (c.header.length = 0x100)
          let d := match partdescToBytes ⟨p.difi, p.ivfc, p.dpfs, p.master⟩ p.descSize with
            | some pd => decide (c.tableOff + p.descOff + pd.length ≤ p.pOff)
            | none => false
          -- ... and those of the re-open theorems (C18_reopen_diff / C18_reopen_disa)
          let t := tablesApartB p.dpfs p.tree
          let w := descWFB ⟨p.difi, p.ivfc, p.dpfs, p.master⟩ p.descSize
          let r := reopenLayoutB c p.index p && regularB c
          "p" ++ toString p.index ++ ":" ++ (if g then "g" else "-") ++ (if lay then "l" else "-") ++ (if d then "d" else "-") ++
            (if t then "t" else "-") ++ (if w then "w" else "-") ++ (if r then "r" else "-") ++
            -- fully verifying tree (hypothesis of the same-session theorems C18_session*): many generated images have
            -- uninitialised blocks on purpose, so this one is reported separately
            (if allValidB Prim.sha256 p.tree p.master (p.P c.F) then "+v" else "+-"))
    | _, _ => "bad-args"
  | "cmac", [k, m] =>
    match k.bytes?, m.bytes? with
    | some key, some msg => toHexW (Prim.cmac key msg)
    | _, _ => "bad-args"
  | _, _ => "bad-args"

end Pyctr
