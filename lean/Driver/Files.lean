/-
  Dynamic construction of file-object stacks for the line protocol.
  `Node` ties the recursive knot over the *generic* view models (`Sub.ops F`, `Merger.ops F`, …), which are the
  definitions the theorems are about; only the knot itself (`nodeOps`, partial) lives here.
-/
import PyctrModel
namespace Pyctr

inductive Node
  | bio (f : PyFile)
  | sub (s : Sub Node)
  | merger (m : Merger Node)
  | cw (n : Node)
  | opf (f : OpenFile)
  | ctr (key : Bytes) (c : CtrIO Node)
  | twl (key : Bytes) (c : TwlIO Node)
  | cbc (key : Bytes) (c : CbcIO Node)

instance : Inhabited Node := ⟨.bio ⟨[], 0⟩⟩

instance : Inhabited (FileOps Node) :=
  ⟨{ read := fun _ _ => .error (.other "uninhabited"), write := fun _ _ => .error (.other "uninhabited"),
     seek := fun _ _ _ => .error (.other "uninhabited"), tell := fun _ => .error (.other "uninhabited") }⟩

def liftOps {α : Type} (F : FileOps α) (wrap : α → Node) (a : α) : FileOps Node where
  read _ n := (F.read a n).map fun (b, s) => (b, wrap s)
  write _ w := (F.write a w).map fun (b, s) => (b, wrap s)
  seek _ o w := (F.seek a o w).map fun (b, s) => (b, wrap s)
  tell _ := (F.tell a).map fun (b, s) => (b, wrap s)

partial def nodeOpsU (u : Unit) : FileOps Node where
  read n k := match n with
    | .bio f => (PyFile.ops.read f k).map fun (b, s) => (b, .bio s)
    | .sub s => ((Sub.ops (nodeOpsU u)).read s k).map fun (b, s) => (b, .sub s)
    | .merger m => ((Merger.ops (nodeOpsU u)).read m k).map fun (b, s) => (b, .merger s)
    | .cw i => ((closeWrapperOps (nodeOpsU u)).read i k).map fun (b, s) => (b, .cw s)
    | .opf f => (OpenFile.ops.read f k).map fun (b, s) => (b, .opf s)
    | .ctr key c => ((CtrIO.ops (nodeOpsU u) (Prim.aesEnc key)).read c k).map fun (b, s) => (b, .ctr key s)
    | .twl key c => ((TwlIO.ops (nodeOpsU u) (Prim.aesEnc key)).read c k).map fun (b, s) => (b, .twl key s)
    | .cbc key c => ((CbcIO.ops (nodeOpsU u) (Prim.aesDec key)).read c k).map fun (b, s) => (b, .cbc key s)
  write n w := match n with
    | .bio f => (PyFile.ops.write f w).map fun (b, s) => (b, .bio s)
    | .sub s => ((Sub.ops (nodeOpsU u)).write s w).map fun (b, s) => (b, .sub s)
    | .merger m => ((Merger.ops (nodeOpsU u)).write m w).map fun (b, s) => (b, .merger s)
    | .cw i => ((closeWrapperOps (nodeOpsU u)).write i w).map fun (b, s) => (b, .cw s)
    | .opf f => (OpenFile.ops.write f w).map fun (b, s) => (b, .opf s)
    | .ctr key c => ((CtrIO.ops (nodeOpsU u) (Prim.aesEnc key)).write c w).map fun (b, s) => (b, .ctr key s)
    | .twl key c => ((TwlIO.ops (nodeOpsU u) (Prim.aesEnc key)).write c w).map fun (b, s) => (b, .twl key s)
    | .cbc key c => ((CbcIO.ops (nodeOpsU u) (Prim.aesDec key)).write c w).map fun (b, s) => (b, .cbc key s)
  seek n o w := match n with
    | .bio f => (PyFile.ops.seek f o w).map fun (b, s) => (b, .bio s)
    | .sub s => ((Sub.ops (nodeOpsU u)).seek s o w).map fun (b, s) => (b, .sub s)
    | .merger m => ((Merger.ops (nodeOpsU u)).seek m o w).map fun (b, s) => (b, .merger s)
    | .cw i => ((closeWrapperOps (nodeOpsU u)).seek i o w).map fun (b, s) => (b, .cw s)
    | .opf f => (OpenFile.ops.seek f o w).map fun (b, s) => (b, .opf s)
    | .ctr key c => ((CtrIO.ops (nodeOpsU u) (Prim.aesEnc key)).seek c o w).map fun (b, s) => (b, .ctr key s)
    | .twl key c => ((TwlIO.ops (nodeOpsU u) (Prim.aesEnc key)).seek c o w).map fun (b, s) => (b, .twl key s)
    | .cbc key c => ((CbcIO.ops (nodeOpsU u) (Prim.aesDec key)).seek c o w).map fun (b, s) => (b, .cbc key s)
  tell n := match n with
    | .bio f => (PyFile.ops.tell f).map fun (b, s) => (b, .bio s)
    | .sub s => ((Sub.ops (nodeOpsU u)).tell s).map fun (b, s) => (b, .sub s)
    | .merger m => ((Merger.ops (nodeOpsU u)).tell m).map fun (b, s) => (b, .merger s)
    | .cw i => ((closeWrapperOps (nodeOpsU u)).tell i).map fun (b, s) => (b, .cw s)
    | .opf f => (OpenFile.ops.tell f).map fun (b, s) => (b, .opf s)
    | .ctr key c => ((CtrIO.ops (nodeOpsU u) (Prim.aesEnc key)).tell c).map fun (b, s) => (b, .ctr key s)
    | .twl key c => ((TwlIO.ops (nodeOpsU u) (Prim.aesEnc key)).tell c).map fun (b, s) => (b, .twl key s)
    | .cbc key c => ((CbcIO.ops (nodeOpsU u) (Prim.aesDec key)).tell c).map fun (b, s) => (b, .cbc key s)

def nodeOps : FileOps Node := nodeOpsU ()

/-- bottom buffers, left to right -/
partial def Node.bases : Node → List Bytes
  | .bio f => [f.buf]
  | .sub s => s.inner.bases
  | .merger m => m.files.flatMap fun sg => sg.fh.bases
  | .cw n => n.bases
  | .opf f => [f.data]
  | .ctr _ c => c.reader.bases
  | .twl _ c => c.reader.bases
  | .cbc _ c => c.reader.bases

/-- `(bio HEX)`, `(sub OFF SIZE node)`, `(merge (node SIZE) …)`, `(cw node)`, `(opf HEX)` -/
partial def Node.ofSExp : SExp → Option Node
  | .list [.atom "bio", b] => do let b ← b.bytes?; pure (.bio ⟨b, 0⟩)
  | .list [.atom "sub", o, s, n] => do
      let o ← o.nat?; let s ← s.nat?; let n ← Node.ofSExp n
      pure (.sub ⟨n, o, s, 0⟩)
  | .list (.atom "merge" :: items) => do
      let files ← items.mapM fun
        | .list [n, sz] => do let n ← Node.ofSExp n; let sz ← sz.nat?; pure (n, sz)
        | _ => none
      pure (.merger (Merger.create files))
  | .list [.atom "cw", n] => do let n ← Node.ofSExp n; pure (.cw n)
  | .list [.atom "opf", b] => do let b ← b.bytes?; pure (.opf ⟨b, 0⟩)
  | .list [.atom "ctr", k, c, n] => do
      let k ← k.bytes?; let c ← c.nat?; let n ← Node.ofSExp n
      pure (.ctr k ⟨n, c, none, false⟩)
  | .list [.atom "twl", k, c, n] => do
      let k ← k.bytes?; let c ← c.nat?; let n ← Node.ofSExp n
      pure (.twl k ⟨n, c⟩)
  | .list [.atom "cbc", k, iv, n] => do
      let k ← k.bytes?; let iv ← iv.bytes?; let n ← Node.ofSExp n
      pure (.cbc k ⟨n, iv⟩)
  | _ => none

def Op.ofSExp : SExp → Option Op
  | .list [.atom "r", n] => do pure (.read (← n.int?))
  | .list [.atom "w", b] => do pure (.write (← b.bytes?))
  | .list [.atom "s", o, w] => do pure (.seek (← o.int?) (← w.int?))
  | .list [.atom "t"] => some .tell
  | _ => none

end Pyctr
