import Driver.Files
open Pyctr

/-- `(fileops NODE (OP …))` → one rendered output per op, then the bottom buffers -/
def handleFileOps (args : List SExp) : String :=
  match args with
  | [node, .list ops] =>
    match Node.ofSExp node, ops.mapM Op.ofSExp with
    | some n, some ops =>
      let (outs, n') := nodeOps.run n ops
      " ".intercalate (outs.map Out.render) ++ " | " ++ " ".intercalate (n'.bases.map toHexW)
    | _, _ => "bad-args"
  | _ => "bad-args"

def handle (line : String) : String :=
  match SExp.parse line with
  | some (.list (.atom cmd :: args)) =>
    match cmd with
    | "fileops" => handleFileOps args
    | "ping" => "pong"
    | _ => "bad-cmd"
  | _ => "bad-line"

partial def loop (h : IO.FS.Stream) (out : IO.FS.Stream) : IO Unit := do
  let line ← h.getLine
  if line.isEmpty then return ()
  out.putStrLn (handle line)
  out.flush
  loop h out

def main : IO Unit := do loop (← IO.getStdin) (← IO.getStdout)
