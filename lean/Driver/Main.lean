import Driver.Files
import Driver.EngineCmd
import Driver.FmtCmd
import Driver.NcchCmd
import Driver.CiaCmd
import Driver.SaveCmd
import Driver.NandCmd
import Driver.CloseCmd
import Driver.CodecCmd
import Driver.SchedCmd
open Pyctr

/-- `(fileops NODE (OP …))` → one rendered output per op, then the bottom buffers -/
def handleFileOps (args : List SExp) : String :=
  match args with
  | [node, .list ops] =>
    match Node.ofSExp node, ops.mapM Op.ofSExp with
    | some n, some ops =>
      let (outs, n') := nodeOps.run n ops
      " ".intercalate (outs.map Out.render) ++ " | " ++ " ".intercalate (n'.bases.map toHexW)
    | _, _ => "bad-args"
  | _ => "bad-args"

def handlePrim (cmd : String) (args : List SExp) : String :=
  match cmd, args.mapM SExp.bytes? with
  | "aesenc", some [k, b] => toHexW (Prim.aesEnc k b)
  | "aesdec", some [k, b] => toHexW (Prim.aesDec k b)
  | "sha256", some [d] => toHexW (Prim.sha256 d)
  | "sha1", some [d] => toHexW (Prim.sha1 d)
  | _, _ => "bad-args"

def handle (line : String) : String :=
  match SExp.parse line with
  | some (.list (.atom cmd :: args)) =>
    match cmd with
    | "fileops" => handleFileOps args
    | "aesenc" | "aesdec" | "sha256" | "sha1" => handlePrim cmd args
    | "engine" => handleEngine args
    | "cia-open" | "cia-ops" | "ticket-walk" | "cdn-key" => handleCia cmd args
    | "ncch-open" | "ncch-geom" | "ncch-ops" => handleNcch cmd args
    | "sd-iv" | "sd-key" | "sd-root" => handleSd cmd args
    | "cci-parse" | "cdn-select" | "sdtitle-select" => handleCci cmd args
    | "romfs-parse" | "romfs-lookup" | "romfs-rep" => handleRomfs cmd args
    | "tmd-load" | "tmd-roundtrip" | "tmd-ser" => handleTmd cmd args
    | "exefs-parse" | "exefs-build" | "exefs-norm" | "exefs-lookup" => handleExefs cmd args
    | "save-run" | "save-hyp" | "cmac" => handleSave cmd args
    | "nand-open" | "nand-ops" | "nand-hdr" => handleNand cmd args
    | "close-run" => handleClose args
    | "close-geom" => handleCloseGeom args
    | "sched-check" => handleSched args
    | "apptitle" | "smdh-bits" | "tiled" | "seeddb" | "cfg-load" | "cfg-build" | "cfg-ops" | "lzss" | "lzss-enc" | "lzss-compress" | "desc-rt" | "bits16" => handleCodec cmd args
    | "ping" => "pong"
    | _ => "bad-cmd"
  | _ => "bad-line"

partial def loop (h : IO.FS.Stream) (out : IO.FS.Stream) : IO Unit := do
  let line ← h.getLine
  if line.isEmpty then return ()
  out.putStrLn (handle line)
  out.flush
  loop h out

def main : IO Unit := do loop (← IO.getStdin) (← IO.getStdout)
