import PyctrModel
import Driver.Files
import Driver.EngineCmd
namespace Pyctr
open Nand

def optBytes : SExp → Option (Option Bytes)
  | .atom "none" => some none
  | x => x.bytes?.map some

def renderOptInt : Option Int → String
  | none => "none" | some v => toString v

def renderParts (l : List (Nat × Nat)) : String := ",".intercalate (l.map fun (o, n) => toString o ++ ":" ++ toString n)

def renderNand (s : Nand.State) : String :=
  "ok hdr=" ++ toHexW s.header.toBytes ++
  " table=" ++ ",".intercalate (s.header.table.map fun (k, p) =>
      toString k ++ ":" ++ toString p.fsType ++ ":" ++ toString p.crypt ++ ":" ++ toString p.offset ++ ":" ++ toString p.size ++ ":" ++
      (match p.base with | some b => b.name | none => "None")) ++
  " img=" ++ toString s.header.imageSize ++ ":" ++ toString s.header.actualSize ++
  " ess=" ++ (match s.essential with | some es => toString es.length | none => "none") ++
  " idx=" ++ renderOptInt s.twlIndex ++ "," ++ renderOptInt s.ctrIndex ++
  " ctr=" ++ renderOptInt s.counter ++ " twlctr=" ++ renderOptInt s.counterTwl ++
  " ctrparts=" ++ renderParts s.ctrParts ++ " twlparts=" ++ renderParts s.twlParts ++
  " keys=" ++ ",".intercalate ([3, 4, 5, 6, 7].map fun sl => match s.engine.normal sl with | some k => toHexW k | none => "none")

def nandOpen (img : Bytes) (otp cid : Option Bytes) (dev : Bool) (blob okey oiv : Bytes) (ar : Bool) : Except Err Nand.State :=
  Nand.open' Prim.aesEnc Prim.aesDec Prim.sha256 Prim.sha1 (Engine.create dev (some blob)) okey oiv (slice blob 0 0x200) img otp cid ar

def nandViewNode (s : Nand.State) (img : Bytes) (v : Nand.View) : Except Err Node :=
  let window : Node := .sub ⟨.bio ⟨img, 0⟩, 0, img.length, 0⟩
  match v.base with
  | none => .ok (.sub ⟨window, v.offset, v.size, 0⟩)
  | some b =>
    match s.engine.cipherKey b.slot with
    | .error e => .error e
    | .ok key =>
      if b = .twl then .ok (.sub ⟨.twl key ⟨window, (s.counterTwl.getD 0).toNat⟩, v.offset, v.size, 0⟩)
      else .ok (.sub ⟨.ctr key ⟨window, (s.counter.getD 0).toNat, none, false⟩, v.offset, v.size, 0⟩)

def nandViewOf (s : Nand.State) : SExp → Option (Except Err Nand.View)
  | .list [.atom "raw", n] => n.int?.map fun k => Nand.openRaw s k
  | .list [.atom "ctr", n] => n.nat?.map fun k => Nand.openSub s false k
  | .list [.atom "twl", n] => n.nat?.map fun k => Nand.openSub s true k
  | _ => none

def handleNand (cmd : String) (args : List SExp) : String :=
  match cmd, args with
  | "nand-open", [f, o, c, dv, bl, ok, oi, ar] =>
    match f.bytes?, optBytes o, optBytes c, dv.nat?, bl.bytes?, ok.bytes?, oi.bytes?, ar.nat? with
    | some img, some otp, some cid, some d, some blob, some okey, some oiv, some a =>
      match nandOpen img otp cid (d == 1) blob okey oiv (a == 1) with
      | .ok s => renderNand s
      | .error e => "e:" ++ e.name
    | _, _, _, _, _, _, _, _ => "bad-args"
  | "nand-ops", [f, o, c, dv, bl, ok, oi, ar, vw, .list ops] =>
    match f.bytes?, optBytes o, optBytes c, dv.nat?, bl.bytes?, ok.bytes?, oi.bytes?, ar.nat?, ops.mapM Op.ofSExp with
    | some img, some otp, some cid, some d, some blob, some okey, some oiv, some a, some ops =>
      match nandOpen img otp cid (d == 1) blob okey oiv (a == 1) with
      | .error e => "e:" ++ e.name
      | .ok s =>
        match nandViewOf s vw with
        | none => "bad-view"
        | some (.error e) => "v:" ++ e.name
        | some (.ok v) =>
          match nandViewNode s img v with
          | .error e => "v:" ++ e.name
          | .ok n =>
            let (outs, n') := nodeOps.run n ops
            "ok " ++ toString v.offset ++ ":" ++ toString v.size ++ " " ++ " ".intercalate (outs.map Out.render) ++ " | " ++
              " ".intercalate (n'.bases.map toHexW)
    | _, _, _, _, _, _, _, _, _ => "bad-args"
  | "nand-hdr", [d] =>
    match d.bytes? with
    | some data =>
      match Nand.Header.fromBytes data with
      | .ok h => "ok " ++ toHexW h.toBytes
      | .error e => "e:" ++ e.name
    | none => "bad-args"
  | _, _ => "bad-args"

end Pyctr
