import PyctrModel
import Driver.Files
namespace Pyctr
open Ncch

def aesE (key blk : Bytes) : Bytes := Prim.aesEnc key blk

/-- open an NCCH: `init` then the ExeFS part of `load_sections` -/
def ncchOpen (file : Bytes) (start : Nat) (seed : Option Bytes) (assume : Bool) (dev : Bool) (blob : Bytes) :
    Except Err State :=
  match Ncch.init Prim.sha256 (Engine.create dev (some blob)) file start seed assume with
  | .error e => .error e
  | .ok s => Ncch.loadExefs aesE s file start

def renderRegion (r : Region) : String :=
  toString r.sec ++ ":" ++ toString r.offset ++ ":" ++ toString r.size ++ ":" ++ toString r.iv

def optKey (s : State) (slot : Nat) : String :=
  match s.engine.normal slot with | some k => toHexW k | none => "none"

def renderState (s : State) : String :=
  "ok cs=" ++ toString s.contentSize ++ " pid=" ++ toString s.partitionId ++ " prog=" ++ toString s.programId ++
  " flags=" ++ toString s.flags.cryptoMethod ++ "," ++ toString s.flags.executable ++ "," ++ toString s.flags.fixedKey ++ "," ++
    toString s.flags.noRomfs ++ "," ++ toString s.flags.noCrypto ++ "," ++ toString s.flags.usesSeed ++
  " slots=" ++ toString s.mainSlot ++ "," ++ toString s.extraSlot ++
  " kmain=" ++ optKey s s.mainSlot ++ " kextra=" ++ optKey s 0x44 ++
  " special=" ++ toString s.special ++
  " sections=" ++ ",".intercalate ((s.all.filter (·.size != 0)).map renderRegion) ++
  " ranges=" ++ ",".intercalate (s.ranges.map fun g => toString g.lo ++ "-" ++ toString g.hi ++ "-" ++ toString g.extra) ++
  " exefs=" ++ (match s.exefsEntries with
    | some es => ",".intercalate (es.map fun e => toHexW e.name ++ ":" ++ toString e.offset ++ ":" ++ toString e.size)
    | none => "none")

/-- the Node a section view corresponds to -/
def viewNode (file : Bytes) : View → Option Node
  | .window off size => some (.sub ⟨.bio ⟨file, 0⟩, off, size, 0⟩)
  | .ctr key iv off size => some (.ctr key ⟨.sub ⟨.bio ⟨file, 0⟩, off, size, 0⟩, iv, none, false⟩)
  | .merged off size iv segs =>
    some (.merger (Merger.create (segs.map fun (k, lo, hi) =>
      (Node.sub ⟨.ctr k ⟨.sub ⟨.bio ⟨file, 0⟩, off, size, 0⟩, iv, none, false⟩, lo, hi - lo, 0⟩, hi - lo))))
  | .full => none

/-- `_NCCHSectionFile` for FullDecrypted: `_ReaderOpenFileBase` over `fullRead` -/
structure FullFile where
  st : State
  file : Bytes
  start : Nat
  size : Nat
  seek : Nat

def FullFile.step (f : FullFile) : Op → Out × FullFile
  | .read n =>
    let n : Int := if n < 0 then max ((f.size : Int) - f.seek) 0 else n
    match fullRead aesE f.st f.file f.start f.seek n with
    | .ok d => (.bytes d, { f with seek := f.seek + d.length })
    | .error e => (.err e, f)
  | .write _ => (.err .notImplemented, f)
  | .seek off wh =>
    if wh = 0 then
      if off < 0 then (.err .valueError, f) else (.nat (min off.toNat f.size), { f with seek := min off.toNat f.size })
    else if wh = 1 then
      let p := ((f.seek : Int) + off).toNat; (.nat p, { f with seek := p })
    else if wh = 2 then
      let p := ((f.size : Int) + off).toNat; (.nat p, { f with seek := p })
    else (.nat f.seek, f)
  | .tell => (.nat f.seek, f)

def opsOfSExp (l : List SExp) : Option (List Op) := l.mapM Op.ofSExp

def seedOf : SExp → Option (Option Bytes)
  | .atom "none" => some none
  | x => x.bytes?.map some

def handleNcch (cmd : String) (args : List SExp) : String :=
  match cmd, args with
  | "ncch-geom", [f, st, sd, asm, dv, bl] =>
    -- the decidable hypothesis of the one-image theorem (C04_one_image): do the six classified regions stay apart?
    match f.bytes?, st.nat?, seedOf sd, asm.nat?, dv.nat?, bl.bytes? with
    | some file, some start, some seed, some a, some d, some blob =>
      match ncchOpen file start seed (a == 1) (d == 1) blob with
      | .ok s =>
        -- all hypotheses of C04_one_image_checked for the whole content
        let n := match s.region? secFull with | some r => r.size / 0x200 | none => 0
        if readGeomB aesE s file start n then "regular" else if regionsApart s then "apart-only" else "overlap"
      | .error e => "e:" ++ e.name
    | _, _, _, _, _, _ => "bad-args"
  | "ncch-open", [f, st, sd, asm, dv, bl] =>
    match f.bytes?, st.nat?, seedOf sd, asm.nat?, dv.nat?, bl.bytes? with
    | some file, some start, some seed, some a, some d, some blob =>
      match ncchOpen file start seed (a == 1) (d == 1) blob with
      | .ok s => renderState s
      | .error e => "e:" ++ e.name
    | _, _, _, _, _, _ => "bad-args"
  | "ncch-ops", [f, st, sd, asm, dv, bl, sec, .list ops] =>
    match f.bytes?, st.nat?, seedOf sd, asm.nat?, dv.nat?, bl.bytes?, sec.nat?, opsOfSExp ops with
    | some file, some start, some seed, some a, some d, some blob, some sc, some ops =>
      match ncchOpen file start seed (a == 1) (d == 1) blob with
      | .error e => "e:" ++ e.name
      | .ok s =>
        match openRaw s start sc with
        | .error e => "e:" ++ e.name
        | .ok .full =>
          let size := (s.section? secFull).map (·.size) |>.getD 0
          let (outs, _) := ops.foldl (fun (acc : List Out × FullFile) op =>
            let (o, f') := acc.2.step op; (acc.1 ++ [o], f')) ([], ⟨s, file, start, size, 0⟩)
          " ".intercalate (outs.map Out.render)
        | .ok v =>
          match viewNode file v with
          | some n => let (outs, _) := nodeOps.run n ops; " ".intercalate (outs.map Out.render)
          | none => "bad-view"
    | _, _, _, _, _, _, _, _ => "bad-args"
  | _, _ => "bad-args"

end Pyctr
