import PyctrModel
import Driver.Files
namespace Pyctr
open Close

def closeFuel : Nat := 12

def optBool : SExp → Option (Option Bool)
  | .atom "none" => some none
  | .atom "true" => some (some true)
  | .atom "false" => some (some false)
  | _ => none

/-- one scripted operation; returns the new world and the rendered outcome -/
def closeStep (w : World) : SExp → World × String
  | .list [.atom "file", .atom n] => ((w.alloc n rawFile).1, "ok")
  | .list [.atom "reader", .atom kind, .atom n, src, cfd] =>
    let s : Src := match src with | .atom "path" => .path | .atom f => .obj f | _ => .path
    match optBool cfd with
    | none => (w, "bad-op")
    | some c => match w.mkReader kind n s c with
      | some w' => (w', "ok")
      | none => (w, "bad-reader")
  | .list [.atom "wrap", .atom _flavour, .atom n, .atom inner, cfd] =>
    -- engine.create_ctr_io / create_cbc_io(keyslot, inner, …, closefd=cfd): default False for every flavour
    match optBool cfd, w.id? inner with
    | some c, some i => ((w.alloc n (cryptoWrap i (c.getD false))).1, "ok")
    | _, _ => (w, "bad-op")
  | .list [.atom "open", .atom r, .atom hk, .atom hn] =>
    match w.openHandle r hk hn with
    | some w' => (w', "ok")
    | none => (w, "bad-handle")
  | .list [.atom "close", .atom n] =>
    match w.id? n with
    | some i => ({ w with heap := closeObj closeFuel w.heap i }, if closeRaises closeFuel w.heap i then "V" else "ok")
    | none => (w, "bad-name")
  | .list [.atom "io", .atom n, .atom op] =>
    match w.id? n with
    | some i =>
      let (raised, H) := ioObj closeFuel w.heap i (if op == "read" then .read else .tell)
      ({ w with heap := H }, if raised then "V" else "ok")
    | none => (w, "bad-name")
  | .list [.atom "closed?", .atom n] =>
    match w.id? n with
    | some i => (w, if (w.heap[i]?.map (·.closed)).getD false then "T" else "F")
    | none => (w, "bad-name")
  | _ => (w, "bad-op")

/-- the side conditions of the every-level completeness theorem on the world the script builds: acyclic close graph (ranked by
    depth), no flushing wrappers; evaluated after every operation, reported for the whole script -/
def handleCloseGeom (args : List SExp) : String :=
  let (ok, _) := args.foldl (fun (acc : Bool × World) op =>
    let (w', _) := closeStep acc.2 op
    let fine := rankedB (depthRank closeFuel w'.heap) w'.heap && (List.range w'.heap.length).all fun i => decide (depthRank closeFuel w'.heap i < closeFuel)
    (acc.1 && fine, w')) (true, ({} : World))
  let (_, wf) := args.foldl (fun (acc : Unit × World) op => ((), (closeStep acc.2 op).1)) ((), ({} : World))
  (if ok then "acyclic" else "CYCLIC-OR-TOO-DEEP") ++ (if noFlushB wf.heap then " noflush" else " flushing-wrapper")

def handleClose (args : List SExp) : String :=
  let (_, outs) := args.foldl (fun (acc : World × List String) op =>
    let (w', o) := closeStep acc.1 op; (w', acc.2 ++ [o])) (({} : World), [])
  " ".intercalate outs

end Pyctr
