import PyctrModel
import Driver.Files
namespace Pyctr
open Sched

def evOf : SExp → Option Ev
  | .list [.atom "a", l] => l.nat?.map .acq
  | .list [.atom "r", l] => l.nat?.map .rel
  | .list [.atom "s", x, p] => do some (.seek (← x.nat?) (← p.nat?))
  | .list [.atom "u", x] => x.nat?.map .use
  | _ => none

/-- `(sched-check ((x l) …) ((ev …) …))`: is every program disciplined under the guard map?  Objects without an entry are
    guarded by a lock nobody holds (so any access to them is a violation). -/
def handleSched (args : List SExp) : String :=
  match args with
  | [.list gs, .list progs, .list rs] =>
    -- with a ranking of the locks: also the ordered-acquisition check of the no-deadlock theorem
    let gmap : List (Nat × Nat) := gs.filterMap fun
      | .list [x, l] => do some (← x.nat?, ← l.nat?)
      | _ => none
    let rmap : List (Nat × Nat) := rs.filterMap fun
      | .list [l, r] => do some (← l.nat?, ← r.nat?)
      | _ => none
    let guard (x : Nat) : Nat := ((gmap.find? (·.1 == x)).map (·.2)).getD 1000000
    let rank (l : Nat) : Nat := ((rmap.find? (·.1 == l)).map (·.2)).getD 0
    let ps : List (Option (List Ev)) := progs.map fun
      | .list evs => evs.mapM evOf
      | _ => none
    match ps.mapM id with
    | none => "bad-args"
    | some ps =>
      let bad := ps.zipIdx.filterMap fun (p, i) => if disciplined guard p.length ⟨[], [], p⟩ then none else some (toString i)
      let unord := ps.zipIdx.filterMap fun (p, i) => if ordered guard rank p.length ⟨[], [], p⟩ then none else some (toString i)
      if !bad.isEmpty then "undisciplined " ++ ",".intercalate bad
      else if !unord.isEmpty then "unordered " ++ ",".intercalate unord
      else "ok"
  | [.list gs, .list progs] =>
    let gmap : List (Nat × Nat) := gs.filterMap fun
      | .list [x, l] => do some (← x.nat?, ← l.nat?)
      | _ => none
    let guard (x : Nat) : Nat := ((gmap.find? (·.1 == x)).map (·.2)).getD 1000000
    let ps : List (Option (List Ev)) := progs.map fun
      | .list evs => evs.mapM evOf
      | _ => none
    match ps.mapM id with
    | none => "bad-args"
    | some ps =>
      let bad := ps.zipIdx.filterMap fun (p, i) => if disciplined guard p.length ⟨[], [], p⟩ then none else some (toString i)
      if bad.isEmpty then "ok" else "undisciplined " ++ ",".intercalate bad
  | _ => "bad-args"

end Pyctr
