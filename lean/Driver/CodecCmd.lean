import PyctrModel
import Driver.Files
namespace Pyctr

def renderUnits (u : Smdh.U16s) : String := toHexW (Smdh.bytesOfUnits u)

def b01 (b : Bool) : String := if b then "1" else "0"

def handleCodec (cmd : String) (args : List SExp) : String :=
  match cmd, args with
  | "apptitle", [r] =>
    match r.bytes? with
    | some raw =>
      match Smdh.AppTitle.fromBytes raw with
      | .ok t => "ok " ++ renderUnits t.short ++ " " ++ renderUnits t.long ++ " " ++ renderUnits t.publisher ++ " " ++ toHexW t.toBytes
      | .error e => "e:" ++ e.name
    | none => "bad-args"
  | "smdh-bits", [f, r] =>
    match f.nat?, r.nat? with
    | some fw, some rw =>
      let fl := Smdh.Flags.ofWord fw
      let rg := Smdh.Region.ofWord rw
      "ok " ++ "".intercalate ([fl.visible, fl.autoBoot, fl.allow3D, fl.requireEULA, fl.autoSave, fl.extendedBanner, fl.ratingRequired,
        fl.saveData, fl.recordUsage, fl.noSaveBackups, fl.new3DS].map b01) ++ " " ++
        "".intercalate ([rg.japan, rg.northAmerica, rg.europe, rg.australia, rg.china, rg.korea, rg.taiwan, rg.regionFree].map b01)
    | _, _ => "bad-args"
  | "tiled", [d, w, h] =>
    match d.bytes?, w.nat?, h.nat? with
    | some data, some wd, some ht =>
      "ok " ++ toHexW ((Smdh.loadTiled data wd ht).flatMap fun row => row.flatMap fun (r, g, b) => [UInt8.ofNat r, UInt8.ofNat g, UInt8.ofNat b])
    | _, _, _ => "bad-args"
  | "seeddb", [f] =>
    match f.bytes? with
    | some file =>
      match SeedDb.load [] file with
      | .error e => "e:" ++ e.name
      | .ok db =>
      "ok " ++ ",".intercalate (db.map fun (k, v) => toString k ++ ":" ++ toHexW v) ++ " " ++
        (match SeedDb.save db with | some b => toHexW b | none => "overflow")
    | none => "bad-args"
  | "cfg-load", [f] =>
    match f.bytes? with
    | some raw =>
      match ConfigSave.load raw with
      | .error e => "e:" ++ e.name
      | .ok bl => "ok " ++ ",".intercalate (bl.map fun b => toString b.id ++ ":" ++ toString b.flags ++ ":" ++ toHexW b.data) ++ " " ++
          (match ConfigSave.toBytes bl with | .ok b => toHexW (Prim.sha256 b) | .error e => "e:" ++ e.name)
    | none => "bad-args"
  | "cfg-build", [.list bs] =>
    let blocks := bs.filterMap fun
      | .list [i, f, d] => match i.nat?, f.nat?, d.bytes? with
        | some id, some fl, some data => some (⟨id, fl, data⟩ : ConfigSave.Block)
        | _, _, _ => none
      | _ => none
    match ConfigSave.toBytes blocks with
    | .ok b => "ok " ++ toHexW b
    | .error e => "e:" ++ e.name
  | "cfg-ops", [.list ops] =>
    -- typed accessors and set_block on one save, starting empty; one token per op, then the image digest and its re-load
    let render (bl : List ConfigSave.Block) : String :=
      ",".intercalate (bl.map fun b => toString b.id ++ ":" ++ toString b.flags ++ ":" ++ toHexW b.data)
    let step (acc : List ConfigSave.Block × List String) (op : SExp) : List ConfigSave.Block × List String :=
      let (bl, out) := acc
      let upd (r : Except Err (List ConfigSave.Block)) : List ConfigSave.Block × List String :=
        match r with
        | .ok bl' => (bl', out ++ ["ok"])
        | .error e => (bl, out ++ ["e:" ++ e.name])
      match op with
      | .list [c, a] =>
        match c.sym?, a.bytes?, a.int? with
        | some "user-set", some raw, _ => upd (ConfigSave.usernameSet bl (Smdh.unitsOfBytes raw))
        | some "time-set", _, some v => upd (ConfigSave.timeSet bl v)
        | some "model-set", _, some v => upd (ConfigSave.modelSet bl v)
        | _, _, _ => (bl, out ++ ["bad-op"])
      | .list [c, i, d, f] =>
        match c.sym?, i.nat?, d.bytes? with
        | some "set", some id, some data => upd (ConfigSave.setBlock bl id data f.nat?)
        | _, _, _ => (bl, out ++ ["bad-op"])
      | .list [c] =>
        match c.sym? with
        | some "user-get" => (bl, out ++ [match ConfigSave.usernameGet bl with | .ok u => "ok:" ++ renderUnits u | .error e => "e:" ++ e.name])
        | some "time-get" => (bl, out ++ [match ConfigSave.timeGet bl with | .ok v => "ok:" ++ toString v | .error e => "e:" ++ e.name])
        | some "model-get" => (bl, out ++ [match ConfigSave.modelGet bl with | .ok v => "ok:" ++ toString v | .error e => "e:" ++ e.name])
        | some "roundtrip" =>
          (bl, out ++ [match ConfigSave.toBytes bl with
            | .error e => "e:" ++ e.name
            | .ok img => match ConfigSave.load img with
              | .error e => "load-e:" ++ e.name
              | .ok bl' => if bl' == bl then "same" else "differs:" ++ render bl'])
        | _ => (bl, out ++ ["bad-op"])
      | _ => (bl, out ++ ["bad-op"])
    let (bl, out) := ops.foldl step ([], [])
    "ok " ++ ";".intercalate out ++ " " ++ render bl
  | "desc-rt", [k, r] =>
    match k.sym?, r.bytes? with
    | some kind, some raw =>
      let res : Except Err (Option Bytes) :=
        if kind == "difi" then (Save.Difi.fromBytes raw).map (·.toBytes)
        else if kind == "ivfc" then (Save.Ivfc.fromBytes raw).map (·.toBytes)
        else (Save.Dpfs.fromBytes raw).map (·.toBytes)
      match res with
      | .ok (some b) => "ok " ++ toHexW b
      | .ok none => "e:OverflowError"
      | .error e => "e:" ++ e.name
    | _, _ => "bad-args"
  | "bits16", [w] =>
    match w.nat? with
    | some v =>
      let ver := Tmd.Version.ofInt v
      let fl := Tmd.TypeFlags.ofInt v
      "ok " ++ toString ver.major ++ "." ++ toString ver.minor ++ "." ++ toString ver.micro ++ " " ++ toString ver.toInt ++ " " ++
        toString fl.toInt
    | none => "bad-args"
  | "lzss", [c] =>
    match c.bytes? with
    | some code =>
      match Lzss.decompress code with
      | .ok d => "ok " ++ toHexW d
      | .error e => "e:" ++ e.name
    | none => "bad-args"
  -- the reference encoder: head, token groups ((l BYTE) | (r OFF LEN)), padding -> "valid=0|1 IMAGE"
  | "lzss-enc", [p, .list groups, pd] =>
    let tok? : SExp → Option Lzss.Tok := fun
      | .list [.atom "l", b] => do let b ← b.nat?; pure (.lit (UInt8.ofNat b))
      | .list [.atom "r", o, l] => do pure (.ref (← o.nat?) (← l.nat?))
      | _ => none
    let group? : SExp → Option (List Lzss.Tok) := fun
      | .list ts => ts.mapM tok?
      | _ => none
    match p.bytes?, groups.mapM group?, pd.nat? with
    | some head, some gs, some pad =>
      "valid=" ++ (if Lzss.validB head gs pad then "1" else "0") ++ " " ++ toHexW (Lzss.encodeFile head gs pad) ++
        " " ++ toHexW (head ++ Lzss.expand gs [])
    | _, _, _ => "bad-args"
  | "lzss-compress", [x, pd] =>
    match x.bytes?, pd.nat? with
    | some data, some pad =>
      match Lzss.compress data pad with
      | some img => "ok " ++ toHexW img
      | none => "none"
    | _, _ => "bad-args"
  | _, _ => "bad-args"

end Pyctr
