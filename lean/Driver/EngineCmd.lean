import PyctrModel
namespace Pyctr
open Engine

def blockD (key blk : Bytes) : Bytes := Prim.aesDec key blk

def errTok (e : Err) : String := "e:" ++ e.name

/-- one engine-heap operation; returns the token printed for it -/
def engineOp (heap : EngineHeap) : SExp → EngineHeap × String
  | .list [.atom "new", dev, blob] =>
    let d := dev.nat? == some 1
    let b := match blob with | .atom "none" => none | x => x.bytes?
    (heap ++ [Engine.create d b], "ok")
  | .list [.atom "sn", id, slot, key] =>
    match id.nat?, slot.nat?, key.bytes? with
    | some i, some s, some k =>
      match heap[i]? with
      | some e => (heap.set i (e.setNormal s k), "ok")
      | none => (heap, "bad-id")
    | _, _, _ => (heap, "bad-op")
  | .list [.atom "ref", id] =>
    match id.nat? >>= fun i => heap[i]?.map fun e => (i, e) with
    | some (i, e) => (heap.set i e.updateNormalKeys, "ok")
    | none => (heap, "bad-id")
  | .list [.atom "clone", id] =>
    match id.nat? >>= fun i => heap[i]? with
    | some e => (heap ++ [e], "ok")
    | none => (heap, "bad-id")
  | .list [.atom "tik", id, t] =>
    match id.nat?, t.bytes? with
    | some i, some tk =>
      match heap[i]? with
      | some e => match e.loadFromTicket blockD tk with
        | (e', none) => (heap.set i e', "ok")
        | (e', some err) => (heap.set i e', errTok err)
      | none => (heap, "bad-id")
    | _, _ => (heap, "bad-op")
  -- `setup_sd_key(data)`: the movable.sed KeyY goes into the three SD slots, nothing else changes
  | .list [.atom "sdk", id, d] =>
    match id.nat?, d.bytes? with
    | some i, some data =>
      match heap[i]? with
      | some e => match Sd.setupSdKey Prim.sha256 e data with
        | .ok (e', _) => (heap.set i e', "ok")
        | .error err => (heap, errTok err)
      | none => (heap, "bad-id")
    | _, _ => (heap, "bad-op")
  | .list [.atom "etk", id, t, idx, tid] =>
    match id.nat?, t.bytes?, idx.nat?, tid.bytes? with
    | some i, some tk, some ix, some ti =>
      match heap[i]? with
      | some e => match e.loadEncryptedTitlekey blockD tk ix ti with
        | (e', none) => (heap.set i e', "ok")
        | (e', some err) => (heap.set i e', errTok err)
      | none => (heap, "bad-id")
    | _, _, _, _ => (heap, "bad-op")
  | .list [.atom "get", id, slot] =>
    match id.nat?, slot.nat? with
    | some i, some s =>
      match heap[i]? with
      | some e => match e.cipherKey s with
        | .ok k => (heap, toHexW k)
        | .error err => (heap, errTok err)
      | none => (heap, "bad-id")
    | _, _ => (heap, "bad-op")
  | .list [.atom k, id, slot, key, upd] =>
    match id.nat?, slot.nat?, upd.nat? with
    | some i, some s, some u =>
      match heap[i]? with
      | none => (heap, "bad-id")
      | some e =>
        let r : Option Engine :=
          if k == "sx" then key.nat?.map fun v => e.setKeyslot true s v (u == 1)
          else if k == "sy" then key.nat?.map fun v => e.setKeyslot false s v (u == 1)
          else if k == "sxb" then key.bytes?.map fun v => e.setKeyslotBytes true s v (u == 1)
          else if k == "syb" then key.bytes?.map fun v => e.setKeyslotBytes false s v (u == 1)
          else none
        match r with
        | some e' => (heap.set i e', "ok")
        | none => (heap, "bad-op")
    | _, _, _ => (heap, "bad-op")
  | _ => (heap, "bad-op")

def handleEngine (args : List SExp) : String :=
  let (_, outs) := args.foldl (fun (acc : EngineHeap × List String) op =>
    let (h, t) := engineOp acc.1 op; (h, t :: acc.2)) ([], [])
  " ".intercalate outs.reverse

end Pyctr
