import PyctrModel
import Driver.Files
import Driver.EngineCmd
namespace Pyctr
open Cia

def renderCiaRegion (r : Cia.Region) : String :=
  toString r.sec ++ ":" ++ toString r.offset ++ ":" ++ toString r.size ++ ":" ++
    (match r.iv with | some iv => toHexW iv | none => "none")

def renderCia (s : Cia.State) : String :=
  "ok total=" ++ toString s.totalSize ++ " tk=" ++ (match s.engine.normal 0x40 with | some k => toHexW k | none => "none") ++
  " tid=" ++ toHexW s.tmd.titleId ++
  " sections=" ++ ",".intercalate (s.sections.map renderCiaRegion) ++
  " info=" ++ ",".intercalate (s.contentInfo.map fun r => toHexW r.id ++ ":" ++ toString r.cindex ++ ":" ++ toString r.type.toInt ++ ":" ++ toString r.size)

def handleCia (cmd : String) (args : List SExp) : String :=
  match cmd, args with
  | "cia-open", [f, st, dv, bl] =>
    match f.bytes?, st.nat?, dv.nat?, bl.bytes? with
    | some file, some start, some d, some blob =>
      match Cia.parse Prim.sha256 blockD (Engine.create (d == 1) (some blob)) file start with
      | .ok s => renderCia s
      | .error e => "e:" ++ e.name
    | _, _, _, _ => "bad-args"
  -- the engine has loaded other tickets before (any common-key index, dev index 0 included)
  | "cia-open", [f, st, dv, bl, .list prior] =>
    match f.bytes?, st.nat?, dv.nat?, bl.bytes?, prior.mapM SExp.bytes? with
    | some file, some start, some d, some blob, some tickets =>
      let eng := tickets.foldl (fun g t => (Engine.loadFromTicket blockD g t).1) (Engine.create (d == 1) (some blob))
      match Cia.parse Prim.sha256 blockD eng file start with
      | .ok s => renderCia s
      | .error e => "e:" ++ e.name
    | _, _, _, _, _ => "bad-args"
  -- one engine going through a list of tickets: the title key slot after each load
  | "ticket-walk", [dv, bl, .list tickets] =>
    match dv.nat?, bl.bytes?, tickets.mapM SExp.bytes? with
    | some d, some blob, some ts =>
      let step := fun (acc : Engine × List String) (t : Bytes) =>
        match Engine.loadFromTicket blockD acc.1 t with
        | (g, some e) => (g, acc.2 ++ ["e:" ++ e.name])
        | (g, none) => (g, acc.2 ++ [match g.normal 0x40 with | some k => toHexW k | none => "none"])
      " ".intercalate (ts.foldl step (Engine.create (d == 1) (some blob), [])).2
    | _, _, _ => "bad-args"
  -- CDNReader's title-key setup: (cdn-key DEV BLOB TITLEID DEC ENC IDX CETK|none) -> title key slot or error
  | "cdn-key", [dv, bl, tid, dec, enc, idx, cetk] =>
    match dv.nat?, bl.bytes?, tid.bytes?, dec.bytes?, enc.bytes?, idx.nat? with
    | some d, some blob, some t, some dk, some ek, some i =>
      let ck : Option Bytes := if cetk.sym? == some "none" then none else cetk.bytes?
      match Cdn.setupKey blockD (Engine.create (d == 1) (some blob)) t dk ek i ck with
      | (_, some e) => "e:" ++ e.name
      | (g, none) => match g.normal 0x40 with | some k => toHexW k | none => "none"
    | _, _, _, _, _, _ => "bad-args"
  | "cia-ops", [f, st, dv, bl, sec, .list ops] =>
    match f.bytes?, st.nat?, dv.nat?, bl.bytes?, sec.int?, ops.mapM Op.ofSExp with
    | some file, some start, some d, some blob, some sc, some ops =>
      match Cia.parse Prim.sha256 blockD (Engine.create (d == 1) (some blob)) file start with
      | .error e => "e:" ++ e.name
      | .ok s =>
        match Cia.openRaw s start sc with
        | .error e => "e:" ++ e.name
        | .ok (off, size, none) =>
          let (outs, _) := nodeOps.run (.sub ⟨.bio ⟨file, 0⟩, off, size, 0⟩) ops
          " ".intercalate (outs.map Out.render)
        | .ok (off, size, some (k, iv)) =>
          let (outs, _) := nodeOps.run (.cbc k ⟨.sub ⟨.bio ⟨file, 0⟩, off, size, 0⟩, iv⟩) ops
          " ".intercalate (outs.map Out.render)
    | _, _, _, _, _, _ => "bad-args"
  | _, _ => "bad-args"

end Pyctr
