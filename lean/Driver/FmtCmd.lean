import PyctrModel
namespace Pyctr

def renderEntry (e : Exefs.Entry) : String :=
  toHexW e.name ++ ":" ++ toString e.offset ++ ":" ++ toString e.size ++ ":" ++ toHexW e.hash

def entryOfSExp : SExp → Option (Option Exefs.Entry)
  | .atom "none" => some none
  | .list [n, o, s, h] => do
      let n ← n.bytes?; let o ← o.nat?; let s ← s.nat?; let h ← h.bytes?
      pure (some ⟨n, o, s, h⟩)
  | _ => none

def handleExefs (cmd : String) (args : List SExp) : String :=
  match cmd, args with
  | "exefs-parse", [h] =>
    match h.bytes? with
    | some hdr => match Exefs.parse hdr with
      | .ok es => "ok " ++ " ".intercalate (es.map renderEntry)
      | .error e => "e:" ++ e.name
    | none => "bad-args"
  | "exefs-build", [.list slots] =>
    match slots.mapM entryOfSExp with
    | some t => toHexW (Exefs.build t)
    | none => "bad-args"
  | "exefs-norm", [p] =>
    match p.bytes? with
    | some p => toHexW (Exefs.normalize p)
    | none => "bad-args"
  | "exefs-lookup", [h, p, nrm] =>
    match h.bytes?, p.bytes?, nrm.nat? with
    | some hdr, some p, some nr =>
      match Exefs.parse hdr with
      | .error e => "e:" ++ e.name
      | .ok es => match Exefs.lookup es p (nr == 1) with
        | .ok e => "ok " ++ renderEntry e
        | .error e => "e:" ++ e.name
    | _, _, _ => "bad-args"
  | _, _ => "bad-args"

end Pyctr
