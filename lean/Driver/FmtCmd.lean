import PyctrModel
namespace Pyctr

def renderEntry (e : Exefs.Entry) : String :=
  toHexW e.name ++ ":" ++ toString e.offset ++ ":" ++ toString e.size ++ ":" ++ toHexW e.hash

def entryOfSExp : SExp → Option (Option Exefs.Entry)
  | .atom "none" => some none
  | .list [n, o, s, h] => do
      let n ← n.bytes?; let o ← o.nat?; let s ← s.nat?; let h ← h.bytes?
      pure (some ⟨n, o, s, h⟩)
  | _ => none

def handleExefs (cmd : String) (args : List SExp) : String :=
  match cmd, args with
  | "exefs-parse", [h] =>
    match h.bytes? with
    | some hdr => match Exefs.parse hdr with
      | .ok es => "ok " ++ " ".intercalate (es.map renderEntry)
      | .error e => "e:" ++ e.name
    | none => "bad-args"
  | "exefs-build", [.list slots] =>
    match slots.mapM entryOfSExp with
    | some t => toHexW (Exefs.build t)
    | none => "bad-args"
  | "exefs-norm", [p] =>
    match p.bytes? with
    | some p => toHexW (Exefs.normalize p)
    | none => "bad-args"
  | "exefs-lookup", [h, p, nrm] =>
    match h.bytes?, p.bytes?, nrm.nat? with
    | some hdr, some p, some nr =>
      match Exefs.parse hdr with
      | .error e => "e:" ++ e.name
      | .ok es => match Exefs.lookup es p (nr == 1) with
        | .ok e => "ok " ++ renderEntry e
        | .error e => "e:" ++ e.name
    | _, _, _ => "bad-args"
  | "sdtitle-select", [.list present, .list recs] =>
    -- present: existing file names; recs: the `<id>.app` name of every TMD record, in order -> indices of the listed records
    match present.mapM SExp.bytes?, recs.mapM SExp.bytes? with
    | some pres, some names =>
      let records : List Tmd.ChunkRecord := (List.range names.length).map fun i =>
        { id := [], cindex := i, type := Tmd.TypeFlags.ofInt 0, size := 0, hash := [] }
      let sel := SdTitle.select (fun n => pres.contains n) (fun r => names.getD r.cindex []) records
      "ok " ++ " ".intercalate (sel.map fun r => toString r.cindex)
    | _, _ => "bad-args"
  | _, _ => "bad-args"

end Pyctr

namespace Pyctr
open Tmd

def renderTmd (t : Tmd.T) : String :=
  "(t " ++ toString t.sigType ++ " " ++ toHexW t.signature ++ " " ++ toHexW t.issuer ++ " " ++
  toString t.version ++ " " ++ toString t.caCrl ++ " " ++ toString t.signerCrl ++ " " ++ toString t.reserved1 ++ " " ++
  toHexW t.systemVersion ++ " " ++ toHexW t.titleId ++ " " ++ toHexW t.titleType ++ " " ++ toHexW t.groupId ++ " " ++
  toString t.saveSize ++ " " ++ toString t.srlSaveSize ++ " " ++ toHexW t.reserved2 ++ " " ++ toString t.srlFlag ++ " " ++
  toHexW t.reserved3 ++ " " ++ toHexW t.accessRights ++ " (" ++ toString t.titleVersion.major ++ " " ++
  toString t.titleVersion.minor ++ " " ++ toString t.titleVersion.micro ++ ") " ++ toHexW t.bootCount ++ " " ++
  toHexW t.padding ++ " (" ++
  " ".intercalate (t.infoRecords.map fun r => "(" ++ toString r.indexOffset ++ " " ++ toString r.commandCount ++ " " ++ toHexW r.hash ++ ")") ++
  ") (" ++
  " ".intercalate (t.chunkRecords.map fun r => "(" ++ toHexW r.id ++ " " ++ toString r.cindex ++ " " ++ toString r.type.toInt ++ " " ++ toString r.size ++ " " ++ toHexW r.hash ++ ")") ++
  "))"

def tmdOfSExp : SExp → Option Tmd.T
  | .list [.atom "t", st, sg, iss, v, ca, sc, r1, sv, tid, tt, gid, ss, srl, r2, sf, r3, ar,
           .list [ma, mi, mc], bc, pd, .list irs, .list crs] => do
    let irs ← irs.mapM fun
      | .list [a, b, h] => do pure (⟨← a.nat?, ← b.nat?, ← h.bytes?⟩ : InfoRecord)
      | _ => none
    let crs ← crs.mapM fun
      | .list [i, c, f, s, h] => do
          pure (⟨← i.bytes?, ← c.nat?, TypeFlags.ofInt (← f.nat?), ← s.nat?, ← h.bytes?⟩ : ChunkRecord)
      | _ => none
    pure { sigType := ← st.nat?, signature := ← sg.bytes?, issuer := ← iss.bytes?, version := ← v.nat?,
           caCrl := ← ca.nat?, signerCrl := ← sc.nat?, reserved1 := ← r1.nat?, systemVersion := ← sv.bytes?,
           titleId := ← tid.bytes?, titleType := ← tt.bytes?, groupId := ← gid.bytes?, saveSize := ← ss.nat?,
           srlSaveSize := ← srl.nat?, reserved2 := ← r2.bytes?, srlFlag := ← sf.nat?, reserved3 := ← r3.bytes?,
           accessRights := ← ar.bytes?, titleVersion := ⟨← ma.nat?, ← mi.nat?, ← mc.nat?⟩,
           bootCount := ← bc.bytes?, padding := ← pd.bytes?, infoRecords := irs, chunkRecords := crs }
  | _ => none

def handleTmd (cmd : String) (args : List SExp) : String :=
  match cmd, args with
  | "tmd-load", [b, v] =>
    match b.bytes?, v.nat? with
    | some b, some v => match Tmd.load Prim.sha256 (v == 1) b with
      | .ok t => renderTmd t
      | .error e => "e:" ++ e.name
    | _, _ => "bad-args"
  | "tmd-roundtrip", [b, v] =>
    match b.bytes?, v.nat? with
    | some b, some v => match Tmd.load Prim.sha256 (v == 1) b with
      | .ok t => match Tmd.serialize Prim.sha256 t with
        | some o => toHexW o
        | none => "e:struct.error"
      | .error e => "e:" ++ e.name
    | _, _ => "bad-args"
  | "tmd-ser", [t] =>
    match tmdOfSExp t with
    | some t => match Tmd.serialize Prim.sha256 t with
      | some o => toHexW o
      | none => "e:struct.error"
    | none => "bad-args"
  | "sdtitle-select", [.list present, .list recs] =>
    -- present: existing file names; recs: the `<id>.app` name of every TMD record, in order -> indices of the listed records
    match present.mapM SExp.bytes?, recs.mapM SExp.bytes? with
    | some pres, some names =>
      let records : List Tmd.ChunkRecord := (List.range names.length).map fun i =>
        { id := [], cindex := i, type := Tmd.TypeFlags.ofInt 0, size := 0, hash := [] }
      let sel := SdTitle.select (fun n => pres.contains n) (fun r => names.getD r.cindex []) records
      "ok " ++ " ".intercalate (sel.map fun r => toString r.cindex)
    | _, _ => "bad-args"
  | _, _ => "bad-args"

end Pyctr

namespace Pyctr
open Romfs

def lowerAsciiUnits (s : Str) : Str := s.map fun u => if 0x41 ≤ u ∧ u ≤ 0x5A then u + 0x20 else u

def strHex (s : Str) : String := toHexW (encodeUtf16 s)

partial def renderPNode : PNode → String
  | .dir n cs => "(d " ++ strHex n ++ " (" ++ " ".intercalate (cs.map fun (_, v) => renderPNode v) ++ "))"
  | .file n o s => "(f " ++ strHex n ++ " " ++ toString o ++ " " ++ toString s ++ ")"

def strOfSExp (x : SExp) : Option Str := do
  let b ← x.bytes?
  decodeUnits b

partial def treeOfSExp : SExp → Option Tree
  | .list [.atom "d", n, .list ds, .list fs] => do
    let n ← strOfSExp n
    let ds ← ds.mapM treeOfSExp
    let fs ← fs.mapM fun
      | .list [fn, o, s] => do pure ((← strOfSExp fn), (← o.nat?), (← s.nat?))
      | _ => none
    pure (.dir n ds fs)
  | _ => none

def romfsEnv (ci : Bool) (file : Bytes) (start : Nat) (p : Parsed) : Env :=
  -- recompute the tables exactly as `parse` does
  let h := slice file (start + p.lv3Offset) 0x28
  let dmo := u32 h 12; let dms := u32 h 16; let fmo := u32 h 28; let fms := u32 h 32
  ⟨lowerAsciiUnits, ci, slice file (start + p.lv3Offset + dmo) dms, slice file (start + p.lv3Offset + fmo) fms,
   dms / 0x18, fms / 0x20⟩

def handleRomfs (cmd : String) (args : List SExp) : String :=
  match cmd, args with
  | "romfs-parse", [f, st, ci] =>
    match f.bytes?, st.nat?, ci.nat? with
    | some file, some start, some c =>
      match Romfs.parse lowerAsciiUnits (c == 1) file start with
      | .ok p => "ok " ++ toString p.lv3Offset ++ " " ++ toString p.dataOffset ++ " " ++ renderPNode p.root
      | .error e => "e:" ++ e.name
    | _, _, _ => "bad-args"
  | "romfs-lookup", [f, st, ci, path] =>
    match f.bytes?, st.nat?, ci.nat?, strOfSExp path with
    | some file, some start, some c, some pth =>
      match Romfs.parse lowerAsciiUnits (c == 1) file start with
      | .error e => "e:" ++ e.name
      | .ok p =>
        match getRawInfo lowerAsciiUnits (c == 1) p.root pth with
        | .error e => "e:" ++ e.name
        | .ok (.dir n cs) => "dir " ++ strHex n ++ " " ++ " ".intercalate (cs.map fun (_, v) =>
            match v with | .dir n' _ => strHex n' | .file n' _ _ => strHex n')
        | .ok (.file n o s) => "file " ++ strHex n ++ " " ++ toString (start + p.dataOffset + o) ++ " " ++ toString s
    | _, _, _, _ => "bad-args"
  | "romfs-rep", [f, st, ci, t] =>
    match f.bytes?, st.nat?, ci.nat?, treeOfSExp t with
    | some file, some start, some c, some tree =>
      match Romfs.parse lowerAsciiUnits (c == 1) file start with
      | .error e => "e:" ++ e.name
      | .ok p =>
        let e := romfsEnv (c == 1) file start p
        toString (repDir e (slice e.dm 0 0x18) tree && decide (tree.numDirs ≤ e.maxDirs) && decide (tree.numFiles ≤ e.maxFiles))
    | _, _, _, _ => "bad-args"
  | "sdtitle-select", [.list present, .list recs] =>
    -- present: existing file names; recs: the `<id>.app` name of every TMD record, in order -> indices of the listed records
    match present.mapM SExp.bytes?, recs.mapM SExp.bytes? with
    | some pres, some names =>
      let records : List Tmd.ChunkRecord := (List.range names.length).map fun i =>
        { id := [], cindex := i, type := Tmd.TypeFlags.ofInt 0, size := 0, hash := [] }
      let sel := SdTitle.select (fun n => pres.contains n) (fun r => names.getD r.cindex []) records
      "ok " ++ " ".intercalate (sel.map fun r => toString r.cindex)
    | _, _ => "bad-args"
  | _, _ => "bad-args"

end Pyctr

namespace Pyctr

def handleSd (cmd : String) (args : List SExp) : String :=
  match cmd, args with
  | "sd-iv", [p] =>
    -- the path as UTF-32LE bytes: one code point per four bytes (Python's `str` is a sequence of code points)
    match p.bytes? with
    | some b =>
      if b.length % 4 != 0 then "bad-args" else
      let path : Sd.Str := (List.range (b.length / 4)).map fun i => readLE (slice b (4 * i) 4)
      let lowerAsciiCp (s : Sd.Str) : Sd.Str := s.map fun u => if 0x41 ≤ u ∧ u ≤ 0x5A then u + 0x20 else u
      toString (Sd.sdIv lowerAsciiCp Prim.sha256 path)
    | none => "bad-args"
  | "sd-key", [d, dv, bl] =>
    match d.bytes?, dv.nat?, bl.bytes? with
    | some data, some dev, some blob =>
      match Sd.setupSdKey Prim.sha256 (Engine.create (dev == 1) (some blob)) data with
      | .ok (e, id0) =>
        "ok " ++ (match e.normal 0x34 with | some k => toHexW k | none => "none") ++ " " ++
          (match e.normal 0x30 with | some k => toHexW k | none => "none") ++ " " ++
          (match e.normal 0x3A with | some k => toHexW k | none => "none") ++ " " ++ toHexW id0
      | .error e => "e:" ++ e.name
    | _, _, _ => "bad-args"
  | "sd-root", [prior, k, f, dv, bl] =>
    -- prior: movable.sed data the engine loaded before ('' = none); k: the sd_key argument ('' = not given); f: list of 0/1 file contents
    match prior.bytes?, k.bytes?, dv.nat?, bl.bytes? with
    | some pr, some sdKey, some dev, some blob =>
      let file : Option (Option Bytes) := match f with
        | .list [] => some none
        | .list [x] => x.bytes?.map some
        | _ => none
      match file with
      | none => "bad-args"
      | some file =>
        let e0 := Engine.create (dev == 1) (some blob)
        let start : Except Err (Engine × Option Bytes) :=
          if pr.isEmpty then .ok (e0, none) else (Sd.setupSdKey Prim.sha256 e0 pr).map fun r => (r.1, some r.2)
        match start with
        | .error e => "e0:" ++ e.name
        | .ok (e1, held) =>
          match Sd.rootKey Prim.sha256 e1 held sdKey file with
          | .ok (e, id0) =>
            "ok " ++ (match e.normal 0x34 with | some k => toHexW k | none => "none") ++ " " ++
              (match e.normal 0x30 with | some k => toHexW k | none => "none") ++ " " ++
              (match e.normal 0x3A with | some k => toHexW k | none => "none") ++ " " ++ toHexW id0
          | .error e => "e:" ++ e.name
    | _, _, _, _ => "bad-args"
  | "sdtitle-select", [.list present, .list recs] =>
    -- present: existing file names; recs: the `<id>.app` name of every TMD record, in order -> indices of the listed records
    match present.mapM SExp.bytes?, recs.mapM SExp.bytes? with
    | some pres, some names =>
      let records : List Tmd.ChunkRecord := (List.range names.length).map fun i =>
        { id := [], cindex := i, type := Tmd.TypeFlags.ofInt 0, size := 0, hash := [] }
      let sel := SdTitle.select (fun n => pres.contains n) (fun r => names.getD r.cindex []) records
      "ok " ++ " ".intercalate (sel.map fun r => toString r.cindex)
    | _, _ => "bad-args"
  | _, _ => "bad-args"

end Pyctr

namespace Pyctr

def handleCci (cmd : String) (args : List SExp) : String :=
  match cmd, args with
  | "cci-parse", [f, st] =>
    match f.bytes?, st.nat? with
    | some file, some start =>
      match Cci.parse file start with
      | .ok s => "ok media=" ++ toHexW s.mediaId ++ " size=" ++ toString s.imageSize ++ " parts=" ++
          ",".intercalate (s.parts.map fun p => toString p.index ++ ":" ++ toString p.offset ++ ":" ++ toString p.size)
      | .error e => "e:" ++ e.name
    | _, _ => "bad-args"
  | "cdn-select", [.list present, .list recs] =>
    -- present: list of existing file names (hex); recs: list of (lower upper) name pairs
    match present.mapM SExp.bytes?, recs.mapM (fun r => match r with
        | .list [a, b] => do pure ((← a.bytes?), (← b.bytes?))
        | _ => none) with
    | some pres, some rs =>
      let chosen := rs.map fun (lo, up) => Cdn.chooseFile (fun n => pres.contains n) lo up
      " ".intercalate (chosen.map fun c => match c with | some n => toHexW n | none => "skip")
    | _, _ => "bad-args"
  | "sdtitle-select", [.list present, .list recs] =>
    -- present: existing file names; recs: the `<id>.app` name of every TMD record, in order -> indices of the listed records
    match present.mapM SExp.bytes?, recs.mapM SExp.bytes? with
    | some pres, some names =>
      let records : List Tmd.ChunkRecord := (List.range names.length).map fun i =>
        { id := [], cindex := i, type := Tmd.TypeFlags.ofInt 0, size := 0, hash := [] }
      let sel := SdTitle.select (fun n => pres.contains n) (fun r => names.getD r.cindex []) records
      "ok " ++ " ".intercalate (sel.map fun r => toString r.cindex)
    | _, _ => "bad-args"
  | _, _ => "bad-args"

end Pyctr
