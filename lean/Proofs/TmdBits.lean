import PyctrModel.Fmt.Tmd
namespace Pyctr
namespace Tmd

theorem typeFlags_roundtrip (f : TypeFlags) : TypeFlags.ofInt f.toInt = f := by
  obtain ⟨a, b, c, d, e⟩ := f
  cases a <;> cases b <;> cases c <;> cases d <;> cases e <;> rfl

theorem typeFlags_lt (f : TypeFlags) : f.toInt < 2 ^ 16 := by
  obtain ⟨a, b, c, d, e⟩ := f
  cases a <;> cases b <;> cases c <;> cases d <;> cases e <;> decide

theorem version_roundtrip_all :
    ∀ ma < 64, ∀ mi < 64, ∀ mc < 16, Version.ofInt (Version.toInt ⟨ma, mi, mc⟩) = ⟨ma, mi, mc⟩ ∧
      Version.toInt ⟨ma, mi, mc⟩ < 2 ^ 16 := by decide +kernel

theorem version_word_split : ∀ a < 256, ∀ b < 256, Version.toInt (Version.ofInt (256 * a + b)) = 256 * a + b := by
  decide +kernel

theorem version_word_all (w : Nat) (h : w < 65536) : Version.toInt (Version.ofInt w) = w := by
  have := version_word_split (w / 256) (by omega) (w % 256) (by omega)
  rwa [Nat.div_add_mod] at this

theorem flags_word_split : ∀ a < 256, ∀ b < 256, (256 * a + b) &&& 0x3FF8 = 0 →
    (TypeFlags.ofInt (256 * a + b)).toInt = 256 * a + b := by decide +kernel

/-- content-type flag words that use only the five defined bits survive `from_int` / `__int__` -/
theorem flags_word_canonical (w : Nat) (h : w < 65536) (hc : w &&& 0x3FF8 = 0) : (TypeFlags.ofInt w).toInt = w := by
  have := flags_word_split (w / 256) (by omega) (w % 256) (by omega)
  rw [Nat.div_add_mod] at this; exact this hc

end Tmd
end Pyctr
