import Proofs.NcchRanges
import Proofs.BytesLemmas
import Proofs.ExefsProofs
namespace Pyctr
namespace Ncch

/-- ranges that tile `[from, to)` without gaps or overlaps -/
def Tiles : List KRange → Nat → Nat → Prop
  | [], a, b => a = b
  | g :: rest, a, b => g.lo = a ∧ g.lo < g.hi ∧ Tiles rest g.hi b

theorem rangesFrom_tiles (size : Nat) (ex : List (Nat × Nat)) (prev : Nat) (hs : SortedFrom prev ex)
    (hin : ∀ iv ∈ ex, iv.2 ≤ size) (hprev : prev ≤ size) :
    Tiles (rangesFrom size prev ex) prev size := by
  induction ex generalizing prev with
  | nil =>
    simp only [rangesFrom]
    by_cases h : size > prev
    · simp [h, Tiles]
    · simp only [h, if_false, Tiles]; omega
  | cons iv rest ih =>
    obtain ⟨h1, h2, h3⟩ := hs
    have hmax : max iv.1 prev = iv.1 := by omega
    have hiv := hin iv (by simp)
    have hrest : ∀ iv' ∈ rest, iv'.2 ≤ size := fun iv' h => hin iv' (List.mem_cons_of_mem _ h)
    have tail : Tiles (if iv.2 > iv.1 then (⟨iv.1, iv.2, true⟩ : KRange) :: rangesFrom size iv.2 rest
                        else rangesFrom size iv.1 rest) iv.1 size := by
      by_cases hne : iv.2 > iv.1
      · rw [if_pos hne]; exact ⟨rfl, hne, ih iv.2 h3 hrest hiv⟩
      · rw [if_neg hne]
        have hz : iv.2 = iv.1 := by omega
        exact ih iv.1 (by rw [← hz]; exact h3) hrest (by omega)
    simp only [rangesFrom, hmax]
    by_cases hgap : iv.1 > prev
    · rw [if_pos hgap, List.singleton_append]; exact ⟨rfl, hgap, tail⟩
    · rw [if_neg hgap, List.nil_append]
      have : iv.1 = prev := by omega
      rw [← this]; exact tail

/-- concatenating, range by range, the corresponding pieces of per-range transforms of one buffer gives, byte by
    byte, the transform chosen by the range that contains the byte -/
theorem tiled_getElem? (x : Bytes) (f : Bool → Bytes) (hf : ∀ c, (f c).length = x.length)
    (l : List KRange) (a b : Nat) (ht : Tiles l a b) (hb : b ≤ x.length) (p : Nat) (hp : a ≤ p) (hpb : p < b) :
    (l.flatMap fun g => slice (f g.extra) g.lo (g.hi - g.lo))[p - a]? =
      (f ((colourAt l p).getD false))[p]? := by
  induction l generalizing a with
  | nil => simp only [Tiles] at ht; omega
  | cons g rest ih =>
    obtain ⟨hlo, hlt, hrest⟩ := ht
    have hghi : g.hi ≤ b := by
      have : ∀ (l : List KRange) (a b : Nat), Tiles l a b → a ≤ b := by
        intro l; induction l with
        | nil => intro a b h; simp only [Tiles] at h; omega
        | cons g' r' ih' => intro a b h; have := ih' g'.hi b h.2.2; have := h.2.1; have := h.1; omega
      exact this rest g.hi b hrest
    have hlen : (slice (f g.extra) g.lo (g.hi - g.lo)).length = g.hi - g.lo := by
      rw [slice_length, hf]; omega
    simp only [List.flatMap_cons, colourAt_cons]
    by_cases hin : p < g.hi
    · rw [if_pos ⟨by omega, hin⟩, List.getElem?_append_left (by rw [hlen]; omega), slice_getElem?,
        if_pos (by omega)]
      simp only [Option.getD_some]
      congr 1; omega
    · rw [if_neg (by omega), List.getElem?_append_right (by rw [hlen]; omega), hlen]
      have := ih g.hi hrest (by omega)
      rw [← this]; congr 1; omega


theorem ctrAt_eq_xorWith (E : Bytes → Bytes → Bytes) (k : Bytes) (iv pos : Nat) (d : Bytes) :
    ctrAt E k iv pos d = d.mapIdx (fun i b => b ^^^ ksByte (E k) iv (pos + i)) := rfl

/-- decrypting the whole region with one key -/
def wholeWith (E : Bytes → Bytes → Bytes) (k : Bytes) (iv : Nat) (region : Bytes) : Bytes := ctrAt E k iv 0 region

theorem ctrAt_slice (E : Bytes → Bytes → Bytes) (k : Bytes) (iv : Nat) (region : Bytes) (lo n : Nat) :
    ctrAt E k iv lo (slice region lo n) = slice (wholeWith E k iv region) lo n := by
  apply List.ext_getElem?; intro i
  simp only [ctrAt, wholeWith, slice_getElem?, List.getElem?_mapIdx, Nat.zero_add]
  by_cases h : i < n <;> simp [h]

/-- **C03 (ExeFS view, byte by byte).**  With the range list tiling the ExeFS region, byte `p` of the merged ExeFS
    view is the ciphertext byte XOR the AES-CTR keystream byte at position `p` of the region — the counter running
    continuously over the region — under the extra-keyslot key when `p` lies in an extra range and under the main
    key otherwise. -/
theorem mergedBytes_byte (E : Bytes → Bytes → Bytes) (file : Bytes) (off size iv : Nat) (km ke : Bytes)
    (l : List KRange) (ht : Tiles l 0 size) (hsz : (slice file off size).length = size) (p : Nat) (hp : p < size) :
    (mergedBytes E file off size iv (l.map fun g => (if g.extra then ke else km, g.lo, g.hi)) 0 size)[p]? =
      ((slice file off size)[p]?).map
        (· ^^^ ksByte (E (if (colourAt l p).getD false then ke else km)) iv p) := by
  simp only [mergedBytes, slice_getElem?, hp, if_true, Nat.zero_add, List.flatMap_map]
  have hfm : (l.flatMap fun g => ctrAt E (if g.extra then ke else km) iv g.lo (slice (slice file off size) g.lo (g.hi - g.lo)))
      = l.flatMap fun g => slice ((fun c => wholeWith E (if c then ke else km) iv (slice file off size)) g.extra) g.lo (g.hi - g.lo) := by
    congr 1; funext g; exact ctrAt_slice E _ iv _ g.lo _
  rw [hfm]
  have := tiled_getElem? (slice file off size) (fun c => wholeWith E (if c then ke else km) iv (slice file off size))
    (by intro c; simp [wholeWith, ctrAt]) l 0 size ht (by omega) p (by omega) hp
  rw [Nat.sub_zero] at this
  rw [this]
  simp only [wholeWith, ctrAt, List.getElem?_mapIdx, Nat.zero_add]
  rw [slice_getElem?, if_pos hp]

end Ncch
end Pyctr
