/-
  Same-session soundness of writes (C18): on a regular container whose hash tree verifies completely, a write through the
  verified level-4 view keeps the tree fully verifying AND keeps every verification cache sound (the entries that survive the
  write are for blocks whose verdict cannot have changed), so every later read in the session returns the slice of the current
  view, which is the old view with the data laid over it.  With SaveSession (re-open) this is the whole sentence
  "reading back - in the same session and after re-opening - returns the written data laid over the previous contents".
-/
import Proofs.SaveSession
namespace Pyctr
namespace Save

section

variable (H : Bytes → Bytes) (bsOf : Nat → Nat)

/-- the blocks a `write_data(idx, offset, data)` touches, on its own level and (through the hash updates) on the levels above -/
def touchedAt : (idx : Nat) → (offset len : Nat) → (lvl b : Nat) → Prop
  | 0, off, len, lvl, b => lvl = 0 ∧ touched off len (bsOf 0) b
  | up + 1, off, len, lvl, b =>
    (lvl = up + 1 ∧ touched off len (bsOf (up + 1)) b) ∨
    touchedAt up (off / bsOf (up + 1) * 0x20)
      ((max ((off + len + bsOf (up + 1) - 1) / bsOf (up + 1) - 1) (off / bsOf (up + 1)) + 1 - off / bsOf (up + 1)) * 0x20) lvl b

theorem touchedAt_level : ∀ (idx off len lvl b : Nat), touchedAt bsOf idx off len lvl b → lvl ≤ idx := by
  intro idx
  induction idx with
  | zero => intro off len lvl b h; exact Nat.le_of_eq h.1
  | succ up ih =>
    intro off len lvl b h
    rcases h with h | h
    · exact Nat.le_of_eq h.1
    · exact Nat.le_succ_of_le (ih _ _ _ _ h)

theorem touchedAt_top (idx off len b : Nat) : touchedAt bsOf idx off len idx b ↔ touched off len (bsOf idx) b := by
  cases idx with
  | zero => exact ⟨fun h => h.2, fun h => ⟨rfl, h⟩⟩
  | succ up =>
    constructor
    · intro h
      rcases h with h | h
      · exact h.2
      · have := touchedAt_level bsOf _ _ _ _ _ h; omega
    · intro h; exact Or.inl ⟨rfl, h⟩

/-- validity only looks at its own level and the levels above it -/
theorem spec_congr (master : List Bytes) (L L' : Nat → Bytes) : ∀ (idx : Nat) (deep : Bool) (b : Nat), (∀ j, j ≤ idx → L' j = L j) →
    specValid H (rdOf L') bsOf master deep idx b = specValid H (rdOf L) bsOf master deep idx b := by
  intro idx
  induction idx with
  | zero =>
    intro deep b hl
    simp only [specValid, rdOf, hl 0 (Nat.le_refl _)]
  | succ up ih =>
    intro deep b hl
    rw [specValid, specValid]
    simp only [rdOf, hl (up + 1) (Nat.le_refl _), hl up (by omega), ih true _ (fun j hj => hl j (by omega))]


end

section

variable (H : Bytes → Bytes) (bsOf : Nat → Nat)

theorem touched_inrange (offset len bs b size : Nat) (hbs : 0 < bs) (hlen : 0 < len) (hin : offset + len ≤ size)
    (h : touched offset len bs b) : b * bs < size := by
  obtain ⟨r1, r2, r3, r4⟩ := touched_range offset len bs hbs hlen
  have : b * bs ≤ max ((offset + len + bs - 1) / bs - 1) (offset / bs) * bs := Nat.mul_le_mul_right _ h.2
  omega

/-- **verdicts of untouched blocks do not change** when the hash levels above the written level verify completely -/
theorem absWrite_stable (hbs : ∀ i, 0 < bsOf i) (hH : ∀ x, (H x).length = 0x20) (hnz : ¬ ZeroHash H) :
    ∀ (idx offset : Nat) (data : Bytes) (L : Nat → Bytes) (master : List Bytes) (L' : Nat → Bytes) (master' : List Bytes),
      0 < data.length → offset + data.length ≤ (L idx).length →
      (∀ i, i < idx → nblocks (L (i + 1)).length (bsOf (i + 1)) * 0x20 ≤ (L i).length) →
      (∀ lvl, lvl < idx → ∀ b, b * bsOf lvl < (L lvl).length → chainOK H bsOf master L lvl b) →
      absWrite H bsOf idx offset data (L, master) = .ok (L', master') →
      ∀ (lvl : Nat) (deep : Bool) (b : Nat), lvl ≤ idx → ¬ touchedAt bsOf idx offset data.length lvl b →
        specValid H (rdOf L') bsOf master' deep lvl b = specValid H (rdOf L) bsOf master deep lvl b := by
  intro idx
  induction idx with
  | zero =>
    intro offset data L master L' master' hlen hin hgeo hval h lvl deep b hl hu
    have hl0 : lvl = 0 := by omega
    subst hl0
    have hu' : ¬ touched offset data.length (bsOf 0) b := fun hc => hu ⟨rfl, hc⟩
    obtain ⟨_, hL0, _, _, _⟩ := absWrite_chain H bsOf hbs hH hnz 0 offset data L master L' master' hlen hin hgeo h
    unfold absWrite at h
    simp only at h
    rw [absLevelWrite_in _ _ _ hin] at h
    split at h
    · cases h
    · rename_i herr
      simp only [Except.ok.injEq, Prod.mk.injEq] at h
      obtain ⟨_, hM'⟩ := h
      rw [blockHashes_length] at herr
      simp only [specValid, rdOf]
      rw [hL0, slice_overlay_disjoint' _ _ _ _ _ (untouched_disjoint _ _ _ _ (hbs 0) hlen hu') hin]
      rw [← hM', setMaster_getElem? _ _ _ _ (by rw [blockHashes_length]; omega), blockHashes_length]
      have hu'' : ¬ (offset / bsOf 0 ≤ b ∧ b ≤ max ((offset + data.length + bsOf 0 - 1) / bsOf 0 - 1) (offset / bsOf 0)) := hu'
      rw [if_neg (by omega)]
  | succ up ih =>
    intro offset data L master L' master' hlen hin hgeo hval h lvl deep b hl hu
    obtain ⟨c1, c2, c3, c4, c5⟩ := absWrite_chain H bsOf hbs hH hnz (up + 1) offset data L master L' master' hlen hin hgeo h
    unfold absWrite at h
    simp only at h
    rw [absLevelWrite_in _ _ _ hin] at h
    unfold touchedAt at hu
    generalize hsb : offset / bsOf (up + 1) = sb at h hu
    generalize heb : max ((offset + data.length + bsOf (up + 1) - 1) / bsOf (up + 1) - 1) sb = eb at h hu
    obtain ⟨r1, r2, r3, r4⟩ := touched_range offset data.length (bsOf (up + 1)) (hbs _) hlen
    rw [hsb] at r1 r2 r3 r4
    rw [heb] at r1 r3 r4
    have hhl : ∀ x, x ∈ blockHashes H (overlay (L (up + 1)) offset data) (bsOf (up + 1)) sb (eb + 1 - sb) → x.length = 0x20 := by
      intro x hx
      simp only [blockHashes, List.mem_map] at hx
      obtain ⟨i, _, hi⟩ := hx
      rw [← hi]; exact hH _
    have hHF := flatten_hash_length _ hhl
    rw [blockHashes_length] at hHF
    have hebn : eb < nblocks (L (up + 1)).length (bsOf (up + 1)) := lt_nblocks _ _ _ (hbs _) (by omega)
    have hgeo_up := hgeo up (by omega)
    have hfit : sb * 0x20 + (eb + 1 - sb) * 0x20 ≤ (L up).length := by
      have : sb * 0x20 + (eb + 1 - sb) * 0x20 = (eb + 1) * 0x20 := by rw [← Nat.add_mul]; congr 1; omega
      have : (eb + 1) * 0x20 ≤ nblocks (L (up + 1)).length (bsOf (up + 1)) * 0x20 := Nat.mul_le_mul_right _ (by omega)
      omega
    generalize hL1 : (fun j => if j = up + 1 then overlay (L (up + 1)) offset data else L j) = L1 at h
    have hL1lo : ∀ j, j ≤ up → L1 j = L j := by intro j hj; rw [← hL1]; simp only [show ¬ (j = up + 1) by omega, if_false]
    have hL1up : L1 up = L up := hL1lo up (Nat.le_refl _)
    have hlen1 : 0 < (blockHashes H (overlay (L (up + 1)) offset data) (bsOf (up + 1)) sb (eb + 1 - sb)).flatten.length := by
      rw [hHF]; omega
    have hin1 : sb * 0x20 + (blockHashes H (overlay (L (up + 1)) offset data) (bsOf (up + 1)) sb (eb + 1 - sb)).flatten.length ≤ (L1 up).length := by
      rw [hHF, hL1up]; exact hfit
    have hgeo1 : ∀ i, i < up → nblocks (L1 (i + 1)).length (bsOf (i + 1)) * 0x20 ≤ (L1 i).length := by
      intro i hi
      rw [hL1lo (i + 1) (by omega), hL1lo i (by omega)]
      exact hgeo i (by omega)
    have hval1 : ∀ lvl, lvl < up → ∀ b, b * bsOf lvl < (L1 lvl).length → chainOK H bsOf master L1 lvl b := by
      intro l hl' b' hb'
      rw [hL1lo l (by omega)] at hb'
      exact chain_congr H bsOf master L L1 l b' (fun j hj => hL1lo j (by omega)) (hval l (by omega) b' hb')
    obtain ⟨i1, i2, i3, i4, i5⟩ := absWrite_chain H bsOf hbs hH hnz up (sb * 0x20) _ L1 master L' master' hlen1 hin1 hgeo1 h
    have IH := ih (sb * 0x20) _ L1 master L' master' hlen1 hin1 hgeo1 hval1 h
    rw [hHF] at IH
    by_cases hlv : lvl = up + 1
    · subst hlv
      have hu1 : ¬ touched offset data.length (bsOf (up + 1)) b := fun hc => hu (Or.inl ⟨rfl, hc⟩)
      have ht' : ¬ (sb ≤ b ∧ b ≤ eb) := by unfold touched at hu1; rw [hsb, heb] at hu1; exact hu1
      rw [specValid, specValid]
      simp only [rdOf]
      -- the block itself and its hash slot are where they were
      rw [c2, slice_overlay_disjoint' _ _ _ _ _ (untouched_disjoint _ _ _ _ (hbs _) hlen hu1) hin]
      have hslot_eq : slice (L' up) (b * 0x20) 0x20 = slice (L up) (b * 0x20) 0x20 := by
        rw [i2, hL1up, slice_overlay_disjoint' _ _ _ _ _ (by
          rw [hHF]
          by_cases hlt : b < sb
          · left
            have : (b + 1) * 0x20 ≤ sb * 0x20 := Nat.mul_le_mul_right _ (by omega)
            omega
          · right
            have : sb * 0x20 + (eb + 1 - sb) * 0x20 = (eb + 1) * 0x20 := by rw [← Nat.add_mul]; congr 1; omega
            have : (eb + 1) * 0x20 ≤ b * 0x20 := Nat.mul_le_mul_right _ (by omega)
            omega) (by rw [hHF]; exact hfit)]
      rw [hslot_eq]
      -- the block above: touched (then it verified before and verifies now) or not (induction)
      have hup : specValid H (rdOf L') bsOf master' true up (b * 0x20 / bsOf up) =
          specValid H (rdOf L) bsOf master true up (b * 0x20 / bsOf up) := by
        by_cases htu : touchedAt bsOf up (sb * 0x20) ((eb + 1 - sb) * 0x20) up (b * 0x20 / bsOf up)
        · have htt := (touchedAt_top bsOf up _ _ _).mp htu
          have hjr : b * 0x20 / bsOf up * bsOf up < (L up).length :=
            touched_inrange _ _ _ _ _ (hbs up) (by omega) hfit htt
          have hnew := i5 (b * 0x20 / bsOf up) (by rw [hL1up]; exact hjr) (Or.inl (by rw [hHF]; exact htt))
          have hold := hval up (by omega) _ hjr
          unfold chainOK at hnew hold
          rw [hnew, hold]
        · rw [IH up true _ (Nat.le_refl _) htu]
          exact spec_congr H bsOf master L L1 up true _ (fun j hj => hL1lo j hj)
      rw [hup]
    · have hl' : lvl ≤ up := by omega
      have hu2 : ¬ touchedAt bsOf up (sb * 0x20) ((eb + 1 - sb) * 0x20) lvl b := fun hc => hu (Or.inr hc)
      rw [IH lvl deep b hl' hu2]
      exact spec_congr H bsOf master L L1 lvl deep b (fun j hj => hL1lo j (by omega))


end


theorem getD_modify_mem {α : Type} (l : List (List α)) (i j : Nat) (f : List α → List α) (hf : ∀ x y, y ∈ f x → y ∈ x) (y : α)
    (h : y ∈ (l.modify i f).getD j []) : y ∈ l.getD j [] ∧ (i = j → ∃ x, l[j]? = some x ∧ y ∈ f x) := by
  rw [List.getD_eq_getElem?_getD, List.getElem?_modify] at h
  rw [List.getD_eq_getElem?_getD]
  cases hl : l[j]? with
  | none => rw [hl] at h; simp at h
  | some x =>
    rw [hl] at h
    simp only [Option.map_eq_map, Option.map_some, Option.getD_some] at h ⊢
    by_cases hij : i = j
    · rw [if_pos hij] at h
      exact ⟨hf x y h, fun _ => ⟨x, rfl, h⟩⟩
    · rw [if_neg hij] at h
      exact ⟨h, fun hc => absurd hc hij⟩

/-- an entry that survives `drop idx blk` was there before, and is not the dropped one -/
theorem mem_get_drop (c : Caches) (idx blk : Nat) (deep : Bool) (lvl b : Nat) (v : Option Bool)
    (h : (b, v) ∈ (c.drop idx blk).get deep lvl) : (b, v) ∈ c.get deep lvl ∧ ¬ (lvl = idx ∧ b = blk) := by
  unfold Caches.drop at h
  unfold Caches.get at h ⊢
  have hfilter : ∀ (x : Cache) (y : Nat × Option Bool), y ∈ x.filter (·.1 != blk) → y ∈ x := fun x y hy => (List.mem_filter.mp hy).1
  by_cases hi : idx = 0
  · rw [if_pos hi] at h
    simp only at h
    by_cases hl : lvl = 0
    · rw [if_pos hl] at h ⊢
      have := List.mem_filter.mp h
      refine ⟨this.1, ?_⟩
      intro hc
      have h2 := this.2
      simp only [bne_iff_ne, ne_eq] at h2
      exact h2 hc.2
    · rw [if_neg hl] at h ⊢
      exact ⟨h, fun hc => by omega⟩
  · rw [if_neg hi] at h
    simp only at h
    by_cases hl : lvl = 0
    · rw [if_pos hl] at h ⊢
      exact ⟨h, fun hc => by omega⟩
    · rw [if_neg hl] at h ⊢
      cases deep with
      | true =>
        simp only [if_true] at h ⊢
        obtain ⟨m1, m2⟩ := getD_modify_mem c.deep (idx - 1) (lvl - 1) _ hfilter _ h
        refine ⟨m1, ?_⟩
        intro hc
        obtain ⟨x, _, hx⟩ := m2 (by omega)
        have := (List.mem_filter.mp hx).2
        simp only [bne_iff_ne, ne_eq] at this
        exact this hc.2
      | false =>
        simp only [Bool.false_eq_true, if_false] at h ⊢
        obtain ⟨m1, m2⟩ := getD_modify_mem c.valid (idx - 1) (lvl - 1) _ hfilter _ h
        refine ⟨m1, ?_⟩
        intro hc
        obtain ⟨x, _, hx⟩ := m2 (by omega)
        have := (List.mem_filter.mp hx).2
        simp only [bne_iff_ne, ne_eq] at this
        exact this hc.2

theorem mem_get_dropRange (idx sb : Nat) (deep : Bool) (lvl b : Nat) (v : Option Bool) : ∀ (n : Nat) (c : Caches),
    (b, v) ∈ ((List.range n).foldl (fun c i => c.drop idx (sb + i)) c).get deep lvl →
    (b, v) ∈ c.get deep lvl ∧ ¬ (lvl = idx ∧ sb ≤ b ∧ b < sb + n) := by
  intro n
  induction n with
  | zero => intro c h; exact ⟨h, fun hc => by omega⟩
  | succ n ih =>
    intro c h
    rw [List.range_succ, List.foldl_append] at h
    simp only [List.foldl_cons, List.foldl_nil] at h
    obtain ⟨m1, m2⟩ := mem_get_drop _ idx (sb + n) deep lvl b v h
    obtain ⟨k1, k2⟩ := ih c m1
    exact ⟨k1, fun hc => by
      by_cases hb : b = sb + n
      · exact m2 ⟨hc.1, hb⟩
      · exact k2 ⟨hc.1, hc.2.1, by omega⟩⟩



/-- the cache after `write_data` holds only entries it held before, none of them for a touched block -/
theorem writeData_caches (H : Bytes → Bytes) (t : Tree) (hH : ∀ x, (H x).length = 0x20) :
    ∀ (idx : Nat), idx < 4 → ∀ (offset : Nat) (data : Bytes) (s s' : WState),
      GeomP s.w.bytes t s.master → data ≠ [] → offset + data.length ≤ (t.level idx).size →
      writeData H t idx offset data s = .ok s' →
      ∀ (deep : Bool) (lvl b : Nat) (v : Option Bool), (b, v) ∈ s'.caches.get deep lvl →
        (b, v) ∈ s.caches.get deep lvl ∧ ¬ touchedAt (fun i => (t.level i).bs) idx offset data.length lvl b := by
  intro idx
  induction idx with
  | zero =>
    intro _ offset data s s' g hne hin h deep lvl b v hm
    have hdl : 0 < data.length := by cases data with | nil => exact absurd rfl hne | cons a r => simp
    unfold writeData at h
    simp only at h
    cases hlw : levelWrite s.w t 0 offset data with
    | error e => rw [hlw] at h; cases h
    | ok r =>
      obtain ⟨n, w'⟩ := r
      rw [hlw] at h
      simp only at h
      split at h
      · cases h
      · split at h
        · cases h
        · simp only [Except.ok.injEq] at h
          rw [← h] at hm
          simp only at hm
          obtain ⟨m1, m2⟩ := mem_get_dropRange 0 _ deep lvl b v _ _ hm
          refine ⟨m1, ?_⟩
          intro hc
          obtain ⟨hl0, ht⟩ := hc
          unfold touched at ht
          simp only at ht
          exact m2 ⟨hl0, ht.1, by omega⟩
  | succ up ih =>
    intro hidx offset data s s' g hne hin h deep lvl b v hm
    have hdl : 0 < data.length := by cases data with | nil => exact absurd rfl hne | cons a r => simp
    have htw := geomP_treeWF _ _ _ g
    rw [writeData] at h
    cases hlw : levelWrite s.w t (up + 1) offset data with
    | error e => rw [hlw] at h; cases h
    | ok r =>
      obtain ⟨n, w'⟩ := r
      rw [hlw] at h
      simp only at h
      obtain ⟨l1, l2, l3, l4, l5, l6, l7⟩ := levelWrite_spec s.w t s.master g (up + 1) hidx offset data hne hin n w' hlw
      have g' := l6 _ g
      have htw' := geomP_treeWF _ _ _ g'
      obtain ⟨r1, r2, r3, r4⟩ := touched_range offset data.length (t.level (up + 1)).bs (t.level (up + 1)).bs_pos hdl
      unfold touchedAt
      generalize hsb : offset / (t.level (up + 1)).bs = sb at *
      generalize heb : max ((offset + data.length + (t.level (up + 1)).bs - 1) / (t.level (up + 1)).bs - 1) sb = eb at *
      rw [reread_spec H w'.bytes t htw' (up + 1) _ _ (fun i hi => by
        have : (sb + i) * (t.level (up + 1)).bs ≤ eb * (t.level (up + 1)).bs := Nat.mul_le_mul_right _ (by omega)
        omega)] at h
      simp only at h
      have hhl : ∀ x, x ∈ blockHashes H (levelBytes w'.bytes t (up + 1)) (t.level (up + 1)).bs sb (eb + 1 - sb) → x.length = 0x20 := by
        intro x hx
        simp only [blockHashes, List.mem_map] at hx
        obtain ⟨i, _, hi⟩ := hx
        rw [← hi]; exact hH _
      have hHF := flatten_hash_length _ hhl
      rw [blockHashes_length] at hHF
      have hebn : eb < nblocks (t.level (up + 1)).size (t.level (up + 1)).bs := lt_nblocks _ _ _ (t.level (up + 1)).bs_pos (by omega)
      have hroom := g.room up (by omega)
      have hfit : sb * 0x20 + (eb + 1 - sb) * 0x20 ≤ (t.level up).size := by
        have : sb * 0x20 + (eb + 1 - sb) * 0x20 = (eb + 1) * 0x20 := by rw [← Nat.add_mul]; congr 1; omega
        have : (eb + 1) * 0x20 ≤ nblocks (t.level (up + 1)).size (t.level (up + 1)).bs * 0x20 := Nat.mul_le_mul_right _ (by omega)
        omega
      obtain ⟨i1, i2⟩ := ih (by omega) (sb * 0x20) _ _ s' g'
        (by intro hc; have := congrArg List.length hc; rw [hHF] at this; simp at this; omega)
        (by rw [hHF]; exact hfit) h deep lvl b v hm
      simp only at i1
      rw [hHF] at i2
      obtain ⟨m1, m2⟩ := mem_get_dropRange (up + 1) sb deep lvl b v _ _ i1
      refine ⟨m1, ?_⟩
      intro hc
      rcases hc with ⟨hl, ht⟩ | hc
      · unfold touched at ht
        rw [hsb, heb] at ht
        exact m2 ⟨hl, ht.1, by omega⟩
      · exact i2 hc



/-- the core of a successful `IVFCLevel4Reader.write`: either nothing to write, or one `write_data` on level 4 whose resulting
    window is the partition window of the new file -/
theorem lv4Write_core (H : Bytes → Bytes) (mac : Bytes → Bytes → Bytes) (cm : Option CmacScheme) (c : Cont) (pi : Nat)
    (p : PartSt) (hp : c.parts[pi]? = some p) (data : Bytes) (n : Nat) (c' : Cont)
    (hH : ∀ x, (H x).length = 0x20) (hmac : ∀ k x, (mac k x).length = 0x10) (hh : c.header.length = 0x100)
    (g : GeomP (p.P c.F) p.tree p.master)
    (hwf : DescWF ⟨p.difi, p.ivfc, p.dpfs, p.master⟩ p.descSize)
    (L : DisaLayout c pi p)
    (h : lv4Write H mac cm c pi data = .ok (n, c')) :
    (writeClamp p data = [] ∧ c' = c) ∨
    (writeClamp p data ≠ [] ∧ p.seek + (writeClamp p data).length ≤ (p.tree.level 3).size ∧
      ∃ s, writeData H p.tree 3 p.seek (writeClamp p data) ⟨⟨c.F, p.pOff, p.pSize⟩, p.master, p.caches, false⟩ = .ok s ∧
        slice c'.F p.pOff p.pSize = s.w.bytes ∧
        c'.parts = c.parts.set pi { p with master := s.master, caches := s.caches, seek := p.seek + (writeClamp p data).length }) := by
  have hLd := L.dIn
  have hLe := L.tEnd
  have hLo := L.tOff
  have hLp := L.pLo
  have hLi := L.pIn
  unfold lv4Write at h
  rw [hp] at h
  simp only at h
  unfold writeClamp
  generalize hd : (if p.seek + data.length > p.ivfc.lv4.size then data.take (p.ivfc.lv4.size - p.seek) else data) = d at h ⊢
  by_cases hde : d.isEmpty = true
  · rw [hde] at h
    simp only [if_true, Except.ok.injEq, Prod.mk.injEq] at h
    left
    exact ⟨List.isEmpty_iff.mp hde, h.2.symm⟩
  · have hne : d ≠ [] := by intro hc; rw [hc] at hde; exact hde rfl
    have hde' : d.isEmpty = false := by cases d with | nil => exact absurd rfl hne | cons _ _ => rfl
    rw [hde'] at h
    simp only [Bool.false_eq_true, if_false] at h
    by_cases hw : (!c.writable) = true
    · rw [if_pos hw] at h; cases h
    · rw [if_neg hw] at h
      have hlv4 : (p.tree.level 3).size = p.ivfc.lv4.size := rfl
      have hdin : p.seek + d.length ≤ (p.tree.level 3).size := by
        rw [hlv4, ← hd]
        by_cases hc : p.seek + data.length > p.ivfc.lv4.size
        · rw [if_pos hc, List.length_take]
          have : d.length ≠ 0 := by intro h0; exact hne (List.eq_nil_of_length_eq_zero h0)
          rw [← hd, if_pos hc, List.length_take] at this
          omega
        · rw [if_neg hc]; omega
      cases hwd : writeData H p.tree 3 p.seek d ⟨⟨c.F, p.pOff, p.pSize⟩, p.master, p.caches, false⟩ with
      | error e => rw [hwd] at h; cases h
      | ok s =>
        rw [hwd] at h
        simp only at h
        have hPeq : (⟨c.F, p.pOff, p.pSize⟩ : Win).bytes = p.P c.F := rfl
        obtain ⟨r1, r2, r3, r4, r5, r6⟩ := writeData_refines H p.tree hH 3 (by omega) p.seek d _ s (by rw [hPeq]; exact g) hne hdin hwd
        obtain ⟨f1, f2, f3, f4⟩ := writeData_frame H p.tree hH 3 (by omega) p.seek d _ s (by rw [hPeq]; exact g) hne hdin hwd
        simp only at r2 r3 r4 r5 r6 f1 f3 f4
        rw [if_pos f2] at h
        cases hpd : partdescToBytes ⟨p.difi, p.ivfc, p.dpfs, s.master⟩ p.descSize with
        | none => rw [hpd] at h; cases h
        | some pd =>
          rw [hpd] at h
          simp only at h
          obtain ⟨pdl, _⟩ := partdesc_roundtrip _ _ pd (descWF_master _ _ _ _ _ _ hwf f3 (f4 hwf.hashLen)) hpd
          cases hu : updateHashes H mac cm c s.w.F p pd with
          | error e => rw [hu] at h; cases h
          | ok r =>
            obtain ⟨F'', header'⟩ := r
            rw [hu] at h
            simp only [Except.ok.injEq, Prod.mk.injEq] at h
            obtain ⟨_, hc'⟩ := h
            obtain ⟨u1, u2⟩ := updateHashes_frame H mac cm c s.w.F p pd F'' header' (c.tableOff + c.tableSize) (by omega)
              (by rw [pdl]; omega) (by rw [r4]; omega) hh hH hmac hu
            have hwin : slice F'' p.pOff p.pSize = s.w.bytes := by
              unfold Win.bytes
              rw [r2, r3]
              apply slice_congr
              intro i hi1 _
              exact u2 i (by omega)
            right
            refine ⟨hne, hdin, s, rfl, ?_, ?_⟩
            · rw [← hc']; exact hwin
            · rw [← hc']



/-- every block of every level of the hash tree has an intact chain up to the master hashes -/
def AllValid (H : Bytes → Bytes) (t : Tree) (master : List Bytes) (P : Bytes) : Prop :=
  ∀ lvl, lvl < 4 → ∀ b, b * (t.level lvl).bs < (Lof P t lvl).length →
    chainOK H (fun i => (t.level i).bs) master (Lof P t) lvl b

theorem spec_levelRead (H : Bytes → Bytes) (P : Bytes) (t : Tree) (htw : TreeWF P t) (master : List Bytes) (deep : Bool)
    (idx : Nat) (hidx : idx < 4) (b : Nat) :
    specValid H (levelRead P t) (fun i => (t.level i).bs) master deep idx b =
      specValid H (rdOf (Lof P t)) (fun i => (t.level i).bs) master deep idx b := by
  rw [levelRead_eq P t htw]
  symm
  apply spec_congr
  intro j hj
  unfold Lof
  rw [if_pos (by omega)]

/-- a write through a fully verifying tree: the tree still verifies fully, the verification caches stay sound, and the verified
    view becomes the old view with the data laid over it -/
theorem writeData_sound (H : Bytes → Bytes) (t : Tree) (hH : ∀ x, (H x).length = 0x20) (hnz : ¬ ZeroHash H)
    (offset : Nat) (data : Bytes) (s s' : WState) (g : GeomP s.w.bytes t s.master) (hne : data ≠ [])
    (hin : offset + data.length ≤ (t.level 3).size)
    (hv : AllValid H t s.master s.w.bytes)
    (hc : CacheOK H (levelRead s.w.bytes t) (fun i => (t.level i).bs) s.master s.caches)
    (h : writeData H t 3 offset data s = .ok s') :
    AllValid H t s'.master s'.w.bytes ∧
    CacheOK H (levelRead s'.w.bytes t) (fun i => (t.level i).bs) s'.master s'.caches ∧
    verifiedView H (Lof s'.w.bytes t) (fun i => (t.level i).bs) s'.master =
      overlay (verifiedView H (Lof s.w.bytes t) (fun i => (t.level i).bs) s.master) offset data := by
  have htw := geomP_treeWF _ _ _ g
  obtain ⟨r1, r2, r3, r4, r5, r6⟩ := writeData_refines H t hH 3 (by omega) offset data s s' g hne hin h
  obtain ⟨_, _, f3, _⟩ := writeData_frame H t hH 3 (by omega) offset data s s' g hne hin h
  have g' : GeomP s'.w.bytes t s'.master := geomP_master _ _ _ _ (r6 _ g) f3
  have htw' := geomP_treeWF _ _ _ g'
  have hdl : 0 < data.length := by cases data with | nil => exact absurd rfl hne | cons a r => simp
  have hbs : ∀ i, 0 < (fun i => (t.level i).bs) i := fun i => (t.level i).bs_pos
  have hL3 : (Lof s.w.bytes t 3).length = (t.level 3).size := by
    unfold Lof; rw [if_pos (by omega)]; exact levelBytes_length _ _ htw 3
  have hgeo : ∀ i, i < 3 → nblocks (Lof s.w.bytes t (i + 1)).length ((fun i => (t.level i).bs) (i + 1)) * 0x20 ≤ (Lof s.w.bytes t i).length := by
    intro i hi
    unfold Lof
    rw [if_pos (by omega), if_pos (by omega), levelBytes_length _ _ htw, levelBytes_length _ _ htw]
    exact g.room i hi
  obtain ⟨c1, c2, c3, c4, c5⟩ := absWrite_chain H _ hbs hH hnz 3 offset data (Lof s.w.bytes t) s.master (Lof s'.w.bytes t) s'.master
    hdl (by rw [hL3]; exact hin) hgeo r1
  have hall := absWrite_chain_all H _ hbs hH hnz 3 offset data (Lof s.w.bytes t) s.master (Lof s'.w.bytes t) s'.master
    hdl (by rw [hL3]; exact hin) hgeo r1
  have hstab := absWrite_stable H _ hbs hH hnz 3 offset data (Lof s.w.bytes t) s.master (Lof s'.w.bytes t) s'.master
    hdl (by rw [hL3]; exact hin) hgeo (fun lvl hl b hb => hv lvl (by omega) b hb) r1
  refine ⟨?_, ?_, ?_⟩
  · intro lvl hl b hb
    rw [c3 lvl] at hb
    exact hall lvl (by omega) b hb (hv lvl hl b hb)
  · intro deep idx block v hidx hm
    obtain ⟨m1, m2⟩ := writeData_caches H t hH 3 (by omega) offset data s s' g hne hin h deep idx block v hm
    rw [spec_levelRead H _ t htw' _ deep idx hidx, hstab idx deep block (by omega) m2, ← spec_levelRead H _ t htw _ deep idx hidx]
    exact hc deep idx block v hidx m1
  · exact (absWrite_view H _ hbs hH hnz offset data (Lof s.w.bytes t) s.master (Lof s'.w.bytes t) s'.master hdl
      (by rw [hL3]; exact hin) hgeo (fun b hb => hv 3 (by omega) b hb) r1).2



/-- what the verified level-4 reader of partition `p` shows for the file `F` -/
def PartSt.view (H : Bytes → Bytes) (p : PartSt) (F : Bytes) : Bytes :=
  verifiedView H (Lof (p.P F) p.tree) p.bsOf p.master

/-- the session invariant with sound caches over a fully verifying tree -/
def Good3 (H : Bytes → Bytes) (c : Cont) : Prop :=
  Good H c ∧ ContOK H c ∧ ∀ (pi : Nat) (p : PartSt), c.parts[pi]? = some p → AllValid H p.tree p.master (p.P c.F)

theorem verifiedView_congr (H : Bytes → Bytes) (bsOf : Nat → Nat) (master : List Bytes) (L L' : Nat → Bytes)
    (h : ∀ j, j ≤ 3 → L' j = L j) : verifiedView H L' bsOf master = verifiedView H L bsOf master := by
  unfold verifiedView
  rw [h 3 (Nat.le_refl _)]
  congr 1
  funext b
  unfold verifiedBlock
  rw [h 3 (Nat.le_refl _), spec_congr H bsOf master L L' 3 true b h]

/-- **a write in a session**: the invariant survives, the written partition's view becomes the old view with the (clamped) data
    laid over it at the reader's position, the position advances by the number of bytes written, and the views of the other
    partitions do not change -/
theorem lv4Write_good3 (H : Bytes → Bytes) (mac : Bytes → Bytes → Bytes) (cm : Option CmacScheme) (c : Cont) (pi : Nat)
    (data : Bytes) (n : Nat) (c' : Cont)
    (hH : ∀ x, (H x).length = 0x20) (hmac : ∀ k x, (mac k x).length = 0x10) (hnz : ¬ ZeroHash H)
    (hG : Good3 H c) (h : lv4Write H mac cm c pi data = .ok (n, c')) :
    Good3 H c' ∧ ∃ p p', c.parts[pi]? = some p ∧ c'.parts[pi]? = some p' ∧
      n = (writeClamp p data).length ∧ p'.seek = p.seek + n ∧
      p'.view H c'.F = (if writeClamp p data = [] then p.view H c.F else overlay (p.view H c.F) p.seek (writeClamp p data)) ∧
      ∀ j q, j ≠ pi → c.parts[j]? = some q → c'.parts[j]? = some q ∧ q.view H c'.F = q.view H c.F := by
  obtain ⟨hgood, hcok, hval⟩ := hG
  have hgood' := lv4Write_good H mac cm c pi data n c' hH hmac hgood h
  obtain ⟨hs, hP⟩ := hgood
  cases hp : c.parts[pi]? with
  | none => unfold lv4Write at h; rw [hp] at h; cases h
  | some p =>
    obtain ⟨g, tabs, desc, L⟩ := hP pi p hp
    have hhl : c.header.length = 0x100 := by
      rw [synced_header H c hs, slice_length]
      have := L.tOff; have := L.tEnd; omega
    have hplt : pi < c.parts.length := by
      rcases Nat.lt_or_ge pi c.parts.length with hl | hl
      · exact hl
      · rw [List.getElem?_eq_none hl] at hp; cases hp
    have hn : n = (writeClamp p data).length := by
      exact (lv4Write_position H mac cm c pi p hp data n c' h).1
    rcases lv4Write_core H mac cm c pi p hp data n c' hH hmac hhl g desc L h with ⟨he, hc⟩ | ⟨hne, hdin, s, hwd, hwin, hparts⟩
    · rw [hc]
      refine ⟨⟨⟨hs, hP⟩, hcok, hval⟩, p, p, rfl, hp, hn, by rw [hn, he]; rfl, by rw [if_pos he], fun j q _ hq => ⟨hq, rfl⟩⟩
    · have hsh := lv4Write_shape H mac cm c pi p hp data n c' hH hmac hhl g desc L h
      have hpm : p ∈ c.parts := List.mem_of_getElem? hp
      have hPeq : (⟨c.F, p.pOff, p.pSize⟩ : Win).bytes = p.P c.F := rfl
      obtain ⟨v1, v2, v3⟩ := writeData_sound H p.tree hH hnz p.seek (writeClamp p data) _ s (by rw [hPeq]; exact g) hne hdin
        (by rw [hPeq]; exact hval pi p hp) (by rw [hPeq]; exact hcok p hpm) hwd
      simp only at v3
      rw [hPeq] at v3
      -- the other partitions' windows are untouched
      have hothers : ∀ j q, j ≠ pi → c.parts[j]? = some q → c'.parts[j]? = some q ∧ slice c'.F q.pOff q.pSize = slice c.F q.pOff q.pSize := by
        intro j q hj hq
        refine ⟨by rw [hparts, List.getElem?_set_ne (Ne.symm hj)]; exact hq, ?_⟩
        apply slice_congr
        intro z hz1 hz2
        have o := L.others j q hj hq
        exact hsh.frame z (by omega) (by omega)
      have hp' : c'.parts[pi]? = some { p with master := s.master, caches := s.caches, seek := p.seek + (writeClamp p data).length } := by
        rw [hparts, List.getElem?_set_self hplt]
      refine ⟨⟨hgood', ?_, ?_⟩, p, _, rfl, hp', hn, by simp only; rw [hn], ?_, ?_⟩
      · -- caches
        intro q hq
        obtain ⟨j, hj⟩ := List.mem_iff_getElem?.mp hq
        by_cases hjp : j = pi
        · subst hjp
          rw [hp'] at hj
          simp only [Option.some.injEq] at hj
          rw [← hj]
          show CacheOK H (levelRead (slice c'.F p.pOff p.pSize) p.tree) p.bsOf s.master s.caches
          rw [hwin]; exact v2
        · rw [hparts, List.getElem?_set_ne (Ne.symm hjp)] at hj
          have := hcok q (List.mem_of_getElem? hj)
          show CacheOK H (levelRead (slice c'.F q.pOff q.pSize) q.tree) q.bsOf q.master q.caches
          rw [(hothers j q hjp hj).2]; exact this
      · -- validity
        intro j q hq
        by_cases hjp : j = pi
        · subst hjp
          rw [hp'] at hq
          simp only [Option.some.injEq] at hq
          rw [← hq]
          show AllValid H p.tree s.master (slice c'.F p.pOff p.pSize)
          rw [hwin]; exact v1
        · rw [hparts, List.getElem?_set_ne (Ne.symm hjp)] at hq
          show AllValid H q.tree q.master (slice c'.F q.pOff q.pSize)
          rw [(hothers j q hjp hq).2]; exact hval j q hq
      · rw [if_neg hne]
        show verifiedView H (Lof (slice c'.F p.pOff p.pSize) p.tree) p.bsOf s.master = _
        rw [hwin]; exact v3
      · intro j q hj hq
        obtain ⟨a, b⟩ := hothers j q hj hq
        refine ⟨a, ?_⟩
        show verifiedView H (Lof (slice c'.F q.pOff q.pSize) q.tree) q.bsOf q.master = _
        rw [b]; rfl



theorem view_levelBytes (H : Bytes → Bytes) (p : PartSt) (F : Bytes) :
    verifiedView H (levelBytes (p.P F) p.tree) p.bsOf p.master = p.view H F := by
  unfold PartSt.view
  symm
  apply verifiedView_congr
  intro j hj
  unfold Lof
  rw [if_pos (by omega)]

/-- a state that differs only in caches / reader position of one partition, over the same file: same views, same validity -/
theorem good3_cache_only (H : Bytes → Bytes) (c : Cont) (pi : Nat) (p : PartSt) (hp : c.parts[pi]? = some p)
    (ca : Caches) (sk : Nat) (hG : Good3 H c)
    (hck : ContOK H { c with parts := c.parts.set pi { p with caches := ca, seek := sk } }) :
    Good3 H { c with parts := c.parts.set pi { p with caches := ca, seek := sk } } := by
  obtain ⟨hgood, _, hval⟩ := hG
  have hplt : pi < c.parts.length := by
    rcases Nat.lt_or_ge pi c.parts.length with hl | hl
    · exact hl
    · rw [List.getElem?_eq_none hl] at hp; cases hp
  refine ⟨good_cache_only H c pi p hp ca sk hgood, hck, ?_⟩
  intro j q hq
  simp only at hq
  by_cases hj : pi = j
  · subst hj
    rw [List.getElem?_set_self hplt] at hq
    simp only [Option.some.injEq] at hq
    rw [← hq]
    exact hval pi p hp
  · rw [List.getElem?_set_ne hj] at hq
    exact hval j q hq

/-- **a read in a session** returns the slice of the partition's view at the reader's position, and changes no view -/
theorem contRead_good3 (H : Bytes → Bytes) (c : Cont) (pi : Nat) (size : Int) (d : Bytes) (c' : Cont)
    (hG : Good3 H c) (h : contRead H c pi size = .ok (d, c')) :
    Good3 H c' ∧ c'.F = c.F ∧ ∃ p, c.parts[pi]? = some p ∧
      d = slice (p.view H c.F) p.seek (readCount p.ivfc.lv4.size p.seek size) ∧
      ∃ ca, c'.parts = c.parts.set pi { p with caches := ca, seek := p.seek + d.length } := by
  obtain ⟨hF, hck, p, hp, hd⟩ := contRead_spec H c hG.2.1 pi size d c' h
  have hPOK := hG.1.2 pi p hp
  have htw := geomP_treeWF _ _ _ hPOK.geom
  have hd' := hd htw
  rw [view_levelBytes] at hd'
  unfold contRead at h
  rw [hp] at h
  simp only at h
  cases hr : lv4Read H (slice c.F p.pOff p.pSize) p.tree p.master p.seek size p.caches with
  | error e => rw [hr] at h; cases h
  | ok r =>
    obtain ⟨d0, ca⟩ := r
    rw [hr] at h
    simp only [Except.ok.injEq, Prod.mk.injEq] at h
    obtain ⟨h1, h2⟩ := h
    subst h1
    refine ⟨?_, hF, p, hp, hd', ca, by rw [← h2]⟩
    rw [← h2] at hck ⊢
    exact good3_cache_only H c pi p hp ca _ hG hck

theorem contSeek_good3 (H : Bytes → Bytes) (c : Cont) (pi : Nat) (off : Int) (wh n : Nat) (c' : Cont)
    (hG : Good3 H c) (h : contSeek c pi off wh = .ok (n, c')) :
    Good3 H c' ∧ c'.F = c.F ∧ ∃ p, c.parts[pi]? = some p ∧ c'.parts = c.parts.set pi { p with seek := n } := by
  obtain ⟨hF, hck⟩ := contSeek_spec H c hG.2.1 pi off wh n c' h
  unfold contSeek at h
  cases hp : c.parts[pi]? with
  | none => rw [hp] at h; cases h
  | some p =>
    rw [hp] at h
    simp only at h
    split at h
    · cases h
    · simp only [Except.ok.injEq, Prod.mk.injEq] at h
      obtain ⟨h1, h2⟩ := h
      subst h1
      refine ⟨?_, hF, p, rfl, by rw [← h2]⟩
      rw [← h2] at hck ⊢
      exact good3_cache_only H c pi p hp p.caches _ hG hck

theorem lv4Step_good3 (H : Bytes → Bytes) (mac : Bytes → Bytes → Bytes) (cm : Option CmacScheme) (c c' : Cont) (op : Lv4Op)
    (hH : ∀ x, (H x).length = 0x20) (hmac : ∀ k x, (mac k x).length = 0x10) (hnz : ¬ ZeroHash H)
    (hG : Good3 H c) (h : lv4Step H mac cm c op = .ok c') : Good3 H c' := by
  cases op with
  | seek pi off wh =>
    simp only [lv4Step] at h
    cases hs : contSeek c pi off wh with
    | error e => rw [hs] at h; cases h
    | ok r =>
      obtain ⟨n, c2⟩ := r
      rw [hs] at h
      simp only [Except.map, Except.ok.injEq] at h
      rw [← h]
      exact (contSeek_good3 H c pi off wh n c2 hG hs).1
  | read pi size =>
    simp only [lv4Step] at h
    cases hs : contRead H c pi size with
    | error e => rw [hs] at h; cases h
    | ok r =>
      obtain ⟨d, c2⟩ := r
      rw [hs] at h
      simp only [Except.map, Except.ok.injEq] at h
      rw [← h]
      exact (contRead_good3 H c pi size d c2 hG hs).1
  | write pi data =>
    simp only [lv4Step] at h
    cases hw : lv4Write H mac cm c pi data with
    | error e => rw [hw] at h; cases h
    | ok r =>
      obtain ⟨n, c2⟩ := r
      rw [hw] at h
      simp only [Except.map, Except.ok.injEq] at h
      rw [← h]
      exact (lv4Write_good3 H mac cm c pi data n c2 hH hmac hnz hG hw).1

theorem lv4Run_good3 (H : Bytes → Bytes) (mac : Bytes → Bytes → Bytes) (cm : Option CmacScheme)
    (hH : ∀ x, (H x).length = 0x20) (hmac : ∀ k x, (mac k x).length = 0x10) (hnz : ¬ ZeroHash H) :
    ∀ (ops : List Lv4Op) (c c' : Cont), Good3 H c → lv4Run H mac cm c ops = .ok c' → Good3 H c' := by
  intro ops
  induction ops with
  | nil => intro c c' hG h; simp only [lv4Run, Except.ok.injEq] at h; rw [← h]; exact hG
  | cons op ops ih =>
    intro c c' hG h
    simp only [lv4Run] at h
    cases hs : lv4Step H mac cm c op with
    | error e => rw [hs] at h; cases h
    | ok c2 =>
      rw [hs] at h
      exact ih c2 c' (lv4Step_good3 H mac cm c c2 op hH hmac hnz hG hs) h



theorem levels_getD (P : Bytes) (t : Tree) : (fun j => ((List.range 4).map (levelBytes P t)).getD j []) = Lof P t := by
  funext j
  unfold Lof
  by_cases hj : j < 4
  · rw [if_pos hj, List.getD_eq_getElem?_getD, List.getElem?_map, List.getElem?_range hj]
    rfl
  · rw [if_neg hj, List.getD_eq_getElem?_getD, List.getElem?_eq_none (by simp; omega)]
    rfl

theorem allValid_of_b (H : Bytes → Bytes) (t : Tree) (master : List Bytes) (P : Bytes) (h : allValidB H t master P = true) :
    AllValid H t master P := by
  unfold allValidB at h
  simp only at h
  rw [levels_getD] at h
  simp only [List.all_eq_true, List.mem_range] at h
  intro lvl hl b hb
  have hbn := lt_nblocks _ _ _ (t.level lvl).bs_pos hb
  have hLl : ((List.range 4).map (levelBytes P t)).getD lvl [] = Lof P t lvl := congrFun (levels_getD P t) lvl
  have := h lvl hl b (by rw [hLl]; exact hbn)
  unfold chainOK
  split at this
  · rename_i heq; exact heq
  · cases this

/-- the session invariant at the start: a regular container all of whose partitions verify completely -/
theorem good3_of_open (H : Bytes → Bytes) (kind : Kind) (F : Bytes) (w : Bool) (c : Cont)
    (ho : openCont H kind F w = .ok c) (hr : regularB c = true)
    (hv : c.parts.all (fun p => allValidB H p.tree p.master (p.P c.F)) = true) : Good3 H c := by
  refine ⟨good_of_regular H kind F w c ho hr, ?_, ?_⟩
  · exact openCont_ok H kind F w c ho
  · intro pi p hp
    simp only [List.all_eq_true] at hv
    exact allValid_of_b H _ _ _ (hv p (List.mem_of_getElem? hp))


end Save
end Pyctr
