import PyctrModel.Fmt.Ncch
namespace Pyctr
namespace Ncch

/-- colour (uses the extra keyslot?) of byte `p` according to a range list: the first range containing it -/
def colourAt (l : List KRange) (p : Nat) : Option Bool :=
  (l.find? fun g => g.lo ≤ p ∧ p < g.hi).map (·.extra)

/-- byte `p` lies inside one of the extra-keyslot intervals -/
def inExtra (ex : List (Nat × Nat)) (p : Nat) : Bool := ex.any fun iv => iv.1 ≤ p && p < iv.2

/-- intervals sorted by start, each well-formed, pairwise non-overlapping (touching allowed), all after `prev` -/
def SortedFrom : Nat → List (Nat × Nat) → Prop
  | _, [] => True
  | prev, iv :: rest => prev ≤ iv.1 ∧ iv.1 ≤ iv.2 ∧ SortedFrom iv.2 rest

theorem inExtra_false_before (ex : List (Nat × Nat)) (prev p : Nat) (h : SortedFrom prev ex) (hp : p < prev) :
    inExtra ex p = false := by
  induction ex generalizing prev with
  | nil => rfl
  | cons iv rest ih =>
    obtain ⟨h1, h2, h3⟩ := h
    simp only [inExtra, List.any_cons, Bool.or_eq_false_iff, Bool.and_eq_false_iff, decide_eq_false_iff_not]
    refine ⟨Or.inl (by omega), ?_⟩
    have := ih iv.2 h3 (by omega)
    simpa [inExtra] using this

theorem colourAt_cons (g : KRange) (l : List KRange) (p : Nat) :
    colourAt (g :: l) p = if g.lo ≤ p ∧ p < g.hi then some g.extra else colourAt l p := by
  by_cases h : g.lo ≤ p ∧ p < g.hi
  · simp [colourAt, List.find?, h]
  · rw [if_neg h]
    have : (decide (g.lo ≤ p ∧ p < g.hi)) = false := by simpa using h
    simp only [colourAt, List.find?, this]

theorem inExtra_cons (iv : Nat × Nat) (rest : List (Nat × Nat)) (p : Nat) :
    inExtra (iv :: rest) p = (decide (iv.1 ≤ p ∧ p < iv.2) || inExtra rest p) := by
  simp [inExtra]

/-- **C03 (ranges).**  For sorted, non-overlapping extra-keyslot intervals inside the ExeFS, the range list built by
    the reader covers every byte from `prev` to the ExeFS size, and a byte gets the extra keyslot exactly when it
    lies inside one of the intervals — adjacent intervals and empty ones included. -/
theorem rangesFrom_colour (size : Nat) (ex : List (Nat × Nat)) (prev p : Nat) (hs : SortedFrom prev ex)
    (hlo : prev ≤ p) (hhi : p < size) (hin : ∀ iv ∈ ex, iv.2 ≤ size) :
    colourAt (rangesFrom size prev ex) p = some (inExtra ex p) := by
  induction ex generalizing prev with
  | nil =>
    simp only [rangesFrom, show size > prev by omega, if_true, colourAt_cons]
    rw [if_pos ⟨hlo, hhi⟩]; rfl
  | cons iv rest ih =>
    obtain ⟨h1, h2, h3⟩ := hs
    have hmax : max iv.1 prev = iv.1 := by omega
    have hrest : ∀ iv' ∈ rest, iv'.2 ≤ size := fun iv' h => hin iv' (List.mem_cons_of_mem _ h)
    -- the part of the list after the optional leading main-keyslot gap
    have tail : ∀ (hpge : iv.1 ≤ p),
        colourAt (if iv.2 > iv.1 then (⟨iv.1, iv.2, true⟩ : KRange) :: rangesFrom size iv.2 rest
                  else rangesFrom size iv.1 rest) p = some (inExtra (iv :: rest) p) := by
      intro hpge
      rw [inExtra_cons]
      by_cases hne : iv.2 > iv.1
      · rw [if_pos hne, colourAt_cons]
        by_cases hpi : p < iv.2
        · rw [if_pos ⟨hpge, hpi⟩]
          have : decide (iv.1 ≤ p ∧ p < iv.2) = true := by simpa using ⟨hpge, hpi⟩
          simp [this]
        · rw [if_neg (by simp only; omega), ih iv.2 h3 (by omega) hrest]
          have : decide (iv.1 ≤ p ∧ p < iv.2) = false := by simpa using fun _ => by omega
          simp [this]
      · rw [if_neg hne]
        have hz : iv.2 = iv.1 := by omega
        rw [ih iv.1 (by rw [← hz]; exact h3) hpge hrest]
        have : decide (iv.1 ≤ p ∧ p < iv.2) = false := by simpa using fun _ => by omega
        simp [this]
    simp only [rangesFrom, hmax]
    by_cases hgap : iv.1 > prev
    · rw [if_pos hgap, List.singleton_append, colourAt_cons]
      by_cases hpin : p < iv.1
      · rw [if_pos ⟨hlo, hpin⟩]
        have := inExtra_false_before (iv :: rest) iv.1 p ⟨Nat.le_refl _, h2, h3⟩ hpin
        rw [this]
      · rw [if_neg (by simp only; omega)]
        exact tail (by omega)
    · rw [if_neg hgap, List.nil_append]
      exact tail (by omega)

end Ncch
end Pyctr
