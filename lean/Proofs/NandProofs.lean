/-
  C13: partition typing, counter inference, NCSD header round trip.
-/
import Proofs.TmdLemmas
import Proofs.SdProofs
import PyctrModel.Fmt.Nand
namespace Pyctr
namespace Nand

theorem xorBytes_self (a : Bytes) : xorBytes a a = zeros a.length := by
  unfold xorBytes zeros
  induction a with
  | nil => rfl
  | cons x xs ih =>
    simp only [List.zipWith_cons_cons, List.length_cons, List.replicate_succ, UInt8.xor_self]
    rw [ih]

theorem xorBytes_zeros_right (a : Bytes) : xorBytes a (zeros a.length) = a := by
  unfold xorBytes zeros
  induction a with
  | nil => rfl
  | cons x xs ih => simp [List.zipWith, List.replicate_succ, ih]

/-- partition typing: which wrapper (hence which keyslot and which counter) a table entry gets -/
theorem typeOf_table :
    (∀ n, (typeOf 1 1 n).1 = some .twl) ∧ (∀ n, (typeOf 1 2 n).1 = some .ctrOld) ∧ (∀ n, (typeOf 1 3 n).1 = some .ctrNew) ∧
    (∀ c n, (typeOf 3 c n).1 = some .firm) ∧ (∀ c n, (typeOf 4 c n).1 = some .agb) ∧
    (∀ fs c n, fs ≠ 1 → fs ≠ 3 → fs ≠ 4 → (typeOf fs c n).1 = none) ∧
    (∀ c n, c ≠ 1 → c ≠ 2 → c ≠ 3 → (typeOf 1 c n).1 = none) := by
  refine ⟨fun _ => rfl, fun _ => rfl, fun _ => rfl, fun _ _ => rfl, fun _ _ => rfl, ?_, ?_⟩
  · intro fs c n h1 h3 h4; simp [typeOf, h1, h3, h4]
  · intro c n h1 h2 h3; simp [typeOf, h1, h2, h3]

/-- CTR counter inference: if the two MBR blocks at +0x1D0 are the CTR encryption of zero bytes under counter `c`
    (the counter the image was built with), the inferred counter is `c` -/
theorem inferCtr_correct (E D : Bytes → Bytes → Bytes) (key img : Bytes) (partOff c : Nat)
    (hE : ∀ b, (E key b).length = 16) (hD : ∀ b, b.length = 16 → D key (E key b) = b)
    (hpos : partOff + 0x1D0 + 32 ≤ img.length) (hc : c + (partOff + 0x1D0) / 16 + 1 < 2 ^ 128)
    (hb0 : slice img (partOff + 0x1D0) 16 = E key (toBE 16 (c + (partOff + 0x1D0) / 16)))
    (hb1 : slice img (partOff + 0x1D0 + 16) 16 = E key (toBE 16 (c + (partOff + 0x1D0) / 16 + 1))) :
    inferCtr E D key img partOff = some (c : Int) := by
  unfold inferCtr
  have hmin : min (partOff + 0x1D0) img.length = partOff + 0x1D0 := by omega
  simp only [hmin]
  have hl0 : (slice img (partOff + 0x1D0) 16).length = 16 := by rw [slice_length]; omega
  rw [hl0, hb0, hb1, hD _ (toBE_length _ _), readBE_toBE _ _ (by omega)]
  have hcc : ((c + (partOff + 0x1D0) / 16 : Nat) : Int) - ((partOff + 0x1D0) / 16 : Nat) = (c : Int) := by omega
  rw [hcc]
  have hmod : (((c : Int) + ((partOff + 0x1D0) / 16 : Nat) + 1) % (2 ^ 128 : Int)).toNat = c + (partOff + 0x1D0) / 16 + 1 := by
    have : ((c : Int) + ((partOff + 0x1D0) / 16 : Nat) + 1) = ((c + (partOff + 0x1D0) / 16 + 1 : Nat) : Int) := by omega
    rw [this, Int.emod_eq_of_lt (by omega) (by exact_mod_cast hc)]
    exact Int.toNat_natCast _
  rw [hmod]
  unfold ctrBlock
  rw [Nat.mod_eq_of_lt hc]
  have := xorBytes_self (E key (toBE 16 (c + (partOff + 0x1D0) / 16 + 1)))
  rw [hE] at this
  rw [this, if_pos rfl]


theorem xor_split (x y A B : Nat) (hx : x < 256) (hy : y < 256) :
    (x + 256 * A) ^^^ (y + 256 * B) = (x ^^^ y) + 256 * (A ^^^ B) := by
  have hm : ((x + 256 * A) ^^^ (y + 256 * B)) % 2 ^ 8 = x ^^^ y := by
    rw [Nat.xor_mod_two_pow]
    have h1 : (x + 256 * A) % 2 ^ 8 = x := by omega
    have h2 : (y + 256 * B) % 2 ^ 8 = y := by omega
    rw [h1, h2]
  have hd : ((x + 256 * A) ^^^ (y + 256 * B)) / 2 ^ 8 = A ^^^ B := by
    rw [Nat.xor_div_two_pow]
    have h1 : (x + 256 * A) / 2 ^ 8 = A := by omega
    have h2 : (y + 256 * B) / 2 ^ 8 = B := by omega
    rw [h1, h2]
  have := Nat.div_add_mod ((x + 256 * A) ^^^ (y + 256 * B)) (2 ^ 8)
  rw [hm, hd] at this
  omega

theorem readLE_xorBytes (a b : Bytes) (h : a.length = b.length) : readLE (xorBytes a b) = readLE a ^^^ readLE b := by
  induction a generalizing b with
  | nil => cases b with | nil => simp [xorBytes, readLE] | cons _ _ => simp at h
  | cons x xs ih =>
    cases b with
    | nil => simp at h
    | cons y ys =>
      simp only [List.length_cons, Nat.add_right_cancel_iff] at h
      have := ih ys h
      unfold xorBytes at this ⊢
      simp only [List.zipWith_cons_cons, readLE, this, UInt8.toNat_xor]
      rw [xor_split _ _ _ _ (UInt8.toNat_lt x) (UInt8.toNat_lt y)]

theorem reverse_xorBytes (a b : Bytes) (h : a.length = b.length) : (xorBytes a b).reverse = xorBytes a.reverse b.reverse := by
  unfold xorBytes
  rw [List.reverse_zipWith h]

theorem readBE_xorBytes (a b : Bytes) (h : a.length = b.length) : readBE (xorBytes a b) = readBE a ^^^ readBE b := by
  rw [readBE_eq_readLE_reverse, readBE_eq_readLE_reverse, readBE_eq_readLE_reverse, reverse_xorBytes a b h,
    readLE_xorBytes _ _ (by simp [h])]

theorem xorBytes_cancel (a b : Bytes) (h : a.length = b.length) : xorBytes (xorBytes a b) b = a := by
  unfold xorBytes
  induction a generalizing b with
  | nil => simp
  | cons x xs ih =>
    cases b with
    | nil => simp at h
    | cons y ys =>
      simp only [List.length_cons, Nat.add_right_cancel_iff] at h
      simp only [List.zipWith_cons_cons, ih ys h, List.cons.injEq, and_true]
      rw [UInt8.xor_assoc, UInt8.xor_self, UInt8.xor_zero]

theorem xorBytes_length (a b : Bytes) : (xorBytes a b).length = min a.length b.length := by simp [xorBytes]

/-- TWL counter inference: if the two MBR blocks at +0x1C0 are the DSi-mode (byte-reversed) CTR encryption of the two
    standard plaintext blocks under counter `c`, the inferred counter is `c` -/
theorem inferTwl_correct (E D : Bytes → Bytes → Bytes) (key img : Bytes) (partOff c : Nat)
    (hE : ∀ b, (E key b).length = 16) (hD : ∀ b, b.length = 16 → D key (E key b) = b)
    (hpos : partOff + 0x1C0 + 32 ≤ img.length) (hc : c + (partOff + 0x1C0) / 16 + 1 < 2 ^ 128)
    (hb0 : slice img (partOff + 0x1C0) 16 = xorBytes (toBE 16 twlKnown0) (E key (toBE 16 (c + (partOff + 0x1C0) / 16))).reverse)
    (hb1 : slice img (partOff + 0x1C0 + 16) 16 = xorBytes twlKnown1 (E key (toBE 16 (c + (partOff + 0x1C0) / 16 + 1))).reverse) :
    inferTwl E D key img partOff = some (c : Int) := by
  unfold inferTwl
  have hmin : min (partOff + 0x1C0) img.length = partOff + 0x1C0 := by omega
  simp only [hmin]
  have hl0 : (slice img (partOff + 0x1C0) 16).length = 16 := by rw [slice_length]; omega
  rw [hl0, hb0, hb1]
  generalize hK : E key (toBE 16 (c + (partOff + 0x1C0) / 16)) = K
  generalize hK1 : E key (toBE 16 (c + (partOff + 0x1C0) / 16 + 1)) = K1
  have hKl : K.length = 16 := by rw [← hK]; exact hE _
  have hK1l : K1.length = 16 := by rw [← hK1]; exact hE _
  have hx : readBE (xorBytes (toBE 16 twlKnown0) K.reverse) ^^^ twlKnown0 = readBE K.reverse := by
    rw [readBE_xorBytes _ _ (by rw [toBE_length, List.length_reverse, hKl]), readBE_toBE _ _ (by decide),
      Nat.xor_comm twlKnown0, Nat.xor_assoc, Nat.xor_self, Nat.xor_zero]
  rw [hx]
  have hle : toLE 16 (readBE K.reverse) = K := by
    rw [readBE_eq_readLE_reverse, List.reverse_reverse]
    have := Sd.toLE_readLE K
    rw [hKl] at this; exact this
  rw [hle, ← hK, hD _ (toBE_length _ _), readBE_toBE _ _ (by omega)]
  have hcc : ((c + (partOff + 0x1C0) / 16 : Nat) : Int) - ((partOff + 0x1C0) / 16 : Nat) = (c : Int) := by omega
  rw [hcc]
  have hmod : (((c : Int) + ((partOff + 0x1C0) / 16 : Nat) + 1) % (2 ^ 128 : Int)).toNat = c + (partOff + 0x1C0) / 16 + 1 := by
    have : ((c : Int) + ((partOff + 0x1C0) / 16 : Nat) + 1) = ((c + (partOff + 0x1C0) / 16 + 1 : Nat) : Int) := by omega
    rw [this, Int.emod_eq_of_lt (by omega) (by exact_mod_cast hc)]
    exact Int.toNat_natCast _
  rw [hmod]
  have hk1 : twlKnown1.length = 16 := rfl
  have hrev : (xorBytes twlKnown1 K1.reverse).reverse = xorBytes twlKnown1.reverse K1 := by
    rw [reverse_xorBytes _ _ (by rw [List.length_reverse, hK1l, hk1]), List.reverse_reverse]
  unfold twlBlock ctrBlock
  rw [Nat.mod_eq_of_lt hc, hK1, hrev, xorBytes_cancel _ _ (by rw [List.length_reverse, hK1l, hk1]), List.reverse_reverse,
    if_pos rfl]


/-- what the arrays must hold after the first `idx` table slots have been processed -/
structure ArrInv (fsB crB locB : Bytes) (a : Arrays) (idx : Nat) : Prop where
  lfs : a.fs.length = 8
  lcr : a.cr.length = 8
  llocs : a.locs.length = 64
  fs : ∀ j, j < 8 → a.fs[j]? = if j < idx then fsB[j]? else some 0
  cr : ∀ j, j < 8 → a.cr[j]? = if j < idx then crB[j]? else some 0
  locs : ∀ j, j < 8 → slice a.locs (8 * j) 8 = if j < idx then slice locB (8 * j) 8 else zeros 8

theorem arrInv_init (fsB crB locB : Bytes) : ArrInv fsB crB locB Arrays.init 0 := by
  refine ⟨rfl, rfl, rfl, ?_, ?_, ?_⟩
  · intro j hj; simp only [Nat.not_lt_zero, if_false, Arrays.init, zeros]; rw [List.getElem?_replicate, if_pos hj]
  · intro j hj; simp only [Nat.not_lt_zero, if_false, Arrays.init, zeros]; rw [List.getElem?_replicate, if_pos hj]
  · intro j hj
    simp only [Nat.not_lt_zero, if_false, Arrays.init]
    apply List.ext_getElem?; intro i
    simp only [slice_getElem?, zeros, List.getElem?_replicate]
    by_cases hi : i < 8
    · rw [if_pos hi, if_pos (by omega), if_pos hi]
    · rw [if_neg hi, if_neg hi]

theorem step_neg (a : Arrays) (k : Int) (p : PartInfo) (h : k < 0) : a.step (k, p) = a := by
  unfold Arrays.step; rw [if_pos h]

/-- a skipped slot (fs type 0, and — well-formed header — zero crypt type and location) -/
theorem arrInv_skip (fsB crB locB : Bytes) (a : Arrays) (idx : Nat) (h : ArrInv fsB crB locB a idx) (hidx : idx < 8)
    (hfs : fsB[idx]? = some 0) (hcr : crB[idx]? = some 0) (hloc : slice locB (8 * idx) 8 = zeros 8) :
    ArrInv fsB crB locB a (idx + 1) := by
  refine ⟨h.lfs, h.lcr, h.llocs, ?_, ?_, ?_⟩
  · intro j hj
    rw [h.fs j hj]
    by_cases h1 : j < idx
    · rw [if_pos h1, if_pos (by omega)]
    · by_cases h2 : j = idx
      · subst h2; rw [if_neg h1, if_pos (by omega), hfs]
      · rw [if_neg h1, if_neg (by omega)]
  · intro j hj
    rw [h.cr j hj]
    by_cases h1 : j < idx
    · rw [if_pos h1, if_pos (by omega)]
    · by_cases h2 : j = idx
      · subst h2; rw [if_neg h1, if_pos (by omega), hcr]
      · rw [if_neg h1, if_neg (by omega)]
  · intro j hj
    rw [h.locs j hj]
    by_cases h1 : j < idx
    · rw [if_pos h1, if_pos (by omega)]
    · by_cases h2 : j = idx
      · subst h2; rw [if_neg h1, if_pos (by omega), hloc]
      · rw [if_neg h1, if_neg (by omega)]

/-- a used slot: the entry written back is the entry that was read -/
theorem arrInv_step (fsB crB locB : Bytes) (a : Arrays) (idx : Nat) (h : ArrInv fsB crB locB a idx) (hidx : idx < 8)
    (hlfs : fsB.length = 8) (hlcr : crB.length = 8) (hlloc : locB.length = 64) (base : Option Base) :
    ArrInv fsB crB locB
      (a.step ((idx : Int), ⟨((fsB.getD idx 0).toNat : Int), ((crB.getD idx 0).toNat : Int),
        readLE (slice locB (8 * idx) 4) * 0x200, readLE (slice locB (8 * idx + 4) 4) * 0x200, base⟩)) (idx + 1) := by
  unfold Arrays.step
  rw [if_neg (by omega)]
  simp only [Int.toNat_natCast, UInt8.ofNat_toNat, Nat.mul_div_cancel _ (by decide : 0 < 0x200)]
  have e1 : toLE 4 (readLE (slice locB (8 * idx) 4)) = slice locB (8 * idx) 4 := by
    have := Sd.toLE_readLE (slice locB (8 * idx) 4)
    rw [slice_length, show min 4 (locB.length - 8 * idx) = 4 by omega] at this; exact this
  have e2 : toLE 4 (readLE (slice locB (8 * idx + 4) 4)) = slice locB (8 * idx + 4) 4 := by
    have := Sd.toLE_readLE (slice locB (8 * idx + 4) 4)
    rw [slice_length, show min 4 (locB.length - (8 * idx + 4)) = 4 by omega] at this; exact this
  rw [e1, e2]
  refine ⟨by simp [h.lfs], by simp [h.lcr], ?_, ?_, ?_, ?_⟩
  · simp [h.llocs, slice_length]; omega
  · intro j hj
    by_cases h2 : j = idx
    · subst h2
      rw [List.getElem?_set_self (by rw [h.lfs]; exact hj), if_pos (by omega), List.getD_eq_getElem?_getD,
        List.getElem?_eq_getElem (by omega)]
      rfl
    · rw [List.getElem?_set_ne (Ne.symm h2), h.fs j hj]
      by_cases h1 : j < idx
      · rw [if_pos h1, if_pos (by omega)]
      · rw [if_neg h1, if_neg (by omega)]
  · intro j hj
    by_cases h2 : j = idx
    · subst h2
      rw [List.getElem?_set_self (by rw [h.lcr]; exact hj), if_pos (by omega), List.getD_eq_getElem?_getD,
        List.getElem?_eq_getElem (by omega)]
      rfl
    · rw [List.getElem?_set_ne (Ne.symm h2), h.cr j hj]
      by_cases h1 : j < idx
      · rw [if_pos h1, if_pos (by omega)]
      · rw [if_neg h1, if_neg (by omega)]
  · intro j hj
    have hl := h.llocs
    by_cases h2 : j = idx
    · subst h2
      rw [if_pos (by omega)]
      apply List.ext_getElem?; intro i
      simp only [slice_getElem?]
      by_cases hi : i < 8
      · rw [if_pos hi, if_pos hi]
        rw [List.append_assoc, List.append_assoc, List.getElem?_append_right (by simp; omega)]
        simp only [List.length_take, show min (8 * j) a.locs.length = 8 * j by omega, Nat.add_sub_cancel_left]
        by_cases h4 : i < 4
        · rw [List.getElem?_append_left (by simp [slice_length]; omega), slice_getElem?, if_pos h4]
        · rw [List.getElem?_append_right (by simp [slice_length]; omega),
            List.getElem?_append_left (by simp [slice_length]; omega), slice_getElem?]
          simp only [slice_length, show min 4 (locB.length - 8 * j) = 4 by omega]
          rw [if_pos (by omega)]; congr 1; omega
      · rw [if_neg hi, if_neg hi]
    · have := h.locs j hj
      have key : slice (a.locs.take (8 * idx) ++ slice locB (8 * idx) 4 ++ slice locB (8 * idx + 4) 4 ++ a.locs.drop (8 * idx + 8))
          (8 * j) 8 = slice a.locs (8 * j) 8 := by
        apply List.ext_getElem?; intro i
        simp only [slice_getElem?]
        by_cases hi : i < 8
        · rw [if_pos hi, if_pos hi]
          rw [List.append_assoc, List.append_assoc]
          by_cases hlt : j < idx
          · rw [List.getElem?_append_left (by simp; omega), List.getElem?_take, if_pos (by omega)]
          · rw [List.getElem?_append_right (by simp; omega), List.getElem?_append_right (by simp [slice_length]; omega),
              List.getElem?_append_right (by simp [slice_length]; omega), List.getElem?_drop]
            congr 1
            simp [slice_length]; omega
        · rw [if_neg hi, if_neg hi]
      rw [key, this]
      by_cases h1 : j < idx
      · rw [if_pos h1, if_pos (by omega)]
      · rw [if_neg h1, if_neg (by omega)]
/-- the named-section ids are negative -/
theorem typeOf_extra_neg (fs cr fc : Nat) (x : Int) (h : (typeOf fs cr fc).2 = some x) : x < 0 := by
  unfold typeOf at h
  split at h
  · split at h
    · cases h; decide
    · split at h
      · cases h; decide
      · split at h
        · cases h; decide
        · cases h
  · split at h
    · simp only at h
      split at h
      · cases h; decide
      · split at h
        · cases h; decide
        · cases h
    · split at h
      · cases h; decide
      · cases h

/-- unused table slots of a well-formed header are all-zero -/
def UnusedZero (fsB crB locB : Bytes) : Prop :=
  ∀ i, i < 8 → fsB[i]? = some 0 → crB[i]? = some 0 ∧ slice locB (8 * i) 8 = zeros 8

theorem parse_inv (fsB crB locB : Bytes) (hlfs : fsB.length = 8) (hlcr : crB.length = 8) (hlloc : locB.length = 64)
    (hwf : UnusedZero fsB crB locB) (n : Nat) :
    ∀ idx fc acc t, idx + n = 8 → parseEntries fsB crB locB n idx fc acc = .ok t →
      ArrInv fsB crB locB (acc.foldl Arrays.step Arrays.init) idx →
      ArrInv fsB crB locB (t.foldl Arrays.step Arrays.init) 8 := by
  induction n with
  | zero =>
    intro idx fc acc t hi hp hinv
    simp only [parseEntries, Except.ok.injEq] at hp
    have : idx = 8 := by omega
    subst this; subst hp; exact hinv
  | succ n ih =>
    intro idx fc acc t hi hp hinv
    have hidx : idx < 8 := by omega
    rw [parseEntries] at hp
    simp only at hp
    by_cases hz : (fsB.getD idx 0).toNat = 0
    · rw [if_pos hz] at hp
      have hfs0 : fsB[idx]? = some 0 := by
        rw [List.getD_eq_getElem?_getD, List.getElem?_eq_getElem (by omega)] at hz
        rw [List.getElem?_eq_getElem (by omega)]
        simp only [Option.getD_some] at hz
        congr 1
        exact UInt8.toNat_inj.mp hz
      obtain ⟨hc, hl⟩ := hwf idx hidx hfs0
      exact ih (idx + 1) fc acc t (by omega) hp (arrInv_skip fsB crB locB _ idx hinv hidx hfs0 hc hl)
    · rw [if_neg hz] at hp
      have hstep := arrInv_step fsB crB locB _ idx hinv hidx hlfs hlcr hlloc
        (typeOf (fsB.getD idx 0).toNat (crB.getD idx 0).toNat fc).1
      cases hx : (typeOf (fsB.getD idx 0).toNat (crB.getD idx 0).toNat fc).2 with
      | none =>
        rw [hx] at hp
        simp only at hp
        apply ih (idx + 1) _ _ t (by omega) hp
        rw [List.foldl_append]
        exact hstep
      | some x =>
        rw [hx] at hp
        simp only at hp
        split at hp
        · cases hp
        · apply ih (idx + 1) _ _ t (by omega) hp
          rw [List.foldl_append, List.foldl_append]
          simp only [List.foldl_cons, List.foldl_nil]
          rw [step_neg _ x _ (typeOf_extra_neg _ _ _ x hx)]
          exact hstep
theorem eq_of_getElem?_lt (a b : Bytes) (n : Nat) (ha : a.length = n) (hb : b.length = n)
    (h : ∀ j, j < n → a[j]? = b[j]?) : a = b := by
  apply List.ext_getElem?; intro j
  by_cases hj : j < n
  · exact h j hj
  · rw [List.getElem?_eq_none (by omega), List.getElem?_eq_none (by omega)]

theorem eq_of_slices8 (a b : Bytes) (ha : a.length = 64) (hb : b.length = 64)
    (h : ∀ j, j < 8 → slice a (8 * j) 8 = slice b (8 * j) 8) : a = b := by
  apply eq_of_getElem?_lt a b 64 ha hb
  intro i hi
  have := congrArg (fun l => l[i % 8]?) (h (i / 8) (by omega))
  simp only [slice_getElem?] at this
  rw [if_pos (Nat.mod_lt _ (by decide)), if_pos (Nat.mod_lt _ (by decide)), Nat.div_add_mod] at this
  exact this

theorem zeros_of_readLE_zero (d : Bytes) (h : readLE d = 0) : d = zeros d.length := by
  have := Sd.toLE_readLE d
  rw [h] at this
  rw [← this]
  clear this h
  generalize d.length = n
  induction n with
  | zero => rfl
  | succ n ih => simp [toLE, zeros, List.replicate_succ] at ih ⊢; exact ih

/-- **header round trip**: a header that parses, and whose unused table slots are all-zero, serialises back to the
    original 512 bytes -/
theorem header_roundtrip (b : Bytes) (hd : Header) (h : Header.fromBytes b = .ok hd)
    (hwf : UnusedZero (slice b 0x110 8) (slice b 0x118 8) (slice b 0x120 0x40)) : hd.toBytes = b := by
  unfold Header.fromBytes at h
  by_cases hl : b.length ≠ 0x200
  · rw [if_pos hl] at h; cases h
  · rw [if_neg hl] at h
    have hlen : b.length = 0x200 := by omega
    simp only at h
    cases hn : nandSize (readLE (slice b 0x104 4)) with
    | none => rw [hn] at h; cases h
    | some actual =>
      rw [hn] at h
      simp only at h
      by_cases hm : slice b 0x100 4 ≠ ncsdMagic
      · rw [if_pos hm] at h; cases h
      · rw [if_neg hm] at h
        by_cases hid : readLE (slice b 0x108 8) ≠ 0
        · rw [if_pos hid] at h; cases h
        · rw [if_neg hid] at h
          cases hp : parseEntries (slice b 0x110 8) (slice b 0x118 8) (slice b 0x120 0x40) 8 0 0 [] with
          | error e => rw [hp] at h; cases h
          | ok t =>
            rw [hp] at h
            simp only [Except.ok.injEq] at h
            have hinv := parse_inv _ _ _ (by rw [slice_length]; omega) (by rw [slice_length]; omega)
              (by rw [slice_length]; omega) hwf 8 0 0 [] t rfl hp (arrInv_init _ _ _)
            rw [← h]
            unfold Header.toBytes
            simp only
            rw [List.foldl_append]
            simp only [List.foldl_cons, List.foldl_nil]
            rw [step_neg _ _ _ (by decide), step_neg _ _ _ (by decide), step_neg _ _ _ (by decide)]
            generalize t.foldl Arrays.step Arrays.init = a at hinv
            have efs : a.fs = slice b 0x110 8 :=
              eq_of_getElem?_lt _ _ 8 hinv.lfs (by rw [slice_length]; omega) (fun j hj => by rw [hinv.fs j hj, if_pos hj])
            have ecr : a.cr = slice b 0x118 8 :=
              eq_of_getElem?_lt _ _ 8 hinv.lcr (by rw [slice_length]; omega) (fun j hj => by rw [hinv.cr j hj, if_pos hj])
            have eloc : a.locs = slice b 0x120 0x40 :=
              eq_of_slices8 _ _ hinv.llocs (by rw [slice_length]; omega) (fun j hj => by rw [hinv.locs j hj, if_pos hj])
            have emagic : ncsdMagic = slice b 0x100 4 := by
              by_cases hh : slice b 0x100 4 = ncsdMagic
              · exact hh.symm
              · exact absurd hh hm
            have emu : toLE 4 (readLE (slice b 0x104 4) * 0x200 / 0x200) = slice b 0x104 4 := by
              rw [Nat.mul_div_cancel _ (by decide : 0 < 0x200)]
              have := Sd.toLE_readLE (slice b 0x104 4)
              rw [slice_length, show min 4 (b.length - 0x104) = 4 by omega] at this; exact this
            have eid : zeros 8 = slice b 0x108 8 := by
              have h0 : readLE (slice b 0x108 8) = 0 := by omega
              have := zeros_of_readLE_zero _ h0
              rw [slice_length, show min 8 (b.length - 0x108) = 8 by omega] at this
              exact this.symm
            rw [efs, ecr, eloc, emagic, emu, eid]
            rw [slice_append_slice, slice_append_slice, slice_append_slice, slice_append_slice, slice_append_slice,
              slice_append_slice, slice_append_slice, slice_append_slice]
            exact slice_all b _ (by omega)

/-- what a successfully opened NAND carries: keys from `stageKeys`, counters from `stageCounters` on the CID of `stageCid`,
    MBR partition lists read through the wrappers -/
theorem open_ok (E D : Bytes → Bytes → Bytes) (H256 H1 : Bytes → Bytes) (e0 : Engine)
    (okey oiv keygen img : Bytes) (otp cid : Option Bytes) (ar : Bool) (s : State)
    (h : open' E D H256 H1 e0 okey oiv keygen img otp cid ar = .ok s) :
    Header.fromBytes (slice img 0 0x200) = .ok s.header ∧
    stageKeys E D H256 e0 okey oiv keygen img s.essential otp = .ok s.engine ∧
    stageCounters E D H256 H1 s.engine img s.header s.twlIndex s.ctrIndex (stageCid img s.essential cid)
      = .ok (s.counter, s.counterTwl) ∧
    s.twlIndex = findIndex s.header.table (· == .twl) ∧
    s.ctrIndex = findIndex s.header.table (fun b => b == .ctrOld || b == .ctrNew) ∧
    (ar = true → s.ctrParts ≠ [] ∧ s.twlParts ≠ []) := by
  unfold open' at h
  simp only at h
  split at h
  · cases h
  · split at h
    · cases h
    · rename_i header hh
      split at h
      · cases h
      · rename_i eng hk
        split at h
        · cases h
        · rename_i counter counterTwl hc
          split at h
          · cases h
          · rename_i cp hcp
            split at h
            · cases h
            · rename_i tp htp
              split at h
              · cases h
              · split at h
                · cases h
                · rename_i h1 h2
                  simp only [Except.ok.injEq] at h
                  subst h
                  refine ⟨hh, hk, hc, rfl, rfl, ?_⟩
                  intro har
                  subst har
                  simp only [true_and, List.isEmpty_iff] at h1 h2
                  exact ⟨h1, h2⟩

/-- with a CID — given as an argument or stored in essential.exefs — the counters are the CID-derived ones -/
theorem counters_from_cid (E D : Bytes → Bytes → Bytes) (H256 H1 : Bytes → Bytes) (eng : Engine) (img : Bytes)
    (header : Header) (ti ci : Option Int) (c : Bytes) :
    stageCounters E D H256 H1 eng img header ti ci (some c) =
      .ok (some (readBE (slice (H256 c) 0 0x10) : Int), some (readLE (slice (H1 c) 0 0x10) : Int)) := rfl

theorem cid_argument_first (img : Bytes) (ess : Option (List Exefs.Entry)) (c : Bytes) (h : c ≠ []) :
    stageCid img ess (some c) = some c := by
  unfold stageCid
  have : c.isEmpty = false := by cases c with | nil => exact absurd rfl h | cons _ _ => rfl
  simp [this]
end Nand
end Pyctr
