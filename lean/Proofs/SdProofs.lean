import PyctrModel.Fmt.Sd
import Proofs.ExefsProofs
import Proofs.TmdLemmas
namespace Pyctr
namespace Sd

theorem toLE_readLE (b : Bytes) : toLE b.length (readLE b) = b := by
  induction b with
  | nil => rfl
  | cons x xs ih =>
    simp only [List.length_cons, toLE, readLE]
    have h1 : (x.toNat + 256 * readLE xs) % 256 = x.toNat := by have := x.toNat_lt; omega
    have h2 : (x.toNat + 256 * readLE xs) / 256 = readLE xs := by have := x.toNat_lt; omega
    rw [h1, h2, ih]
    simp

theorem toBE_readLE_rev (b : Bytes) : toBE b.length (readLE b) = b.reverse := by
  rw [toBE, toLE_readLE]

/-- paths outside the backup-alias guard: the counter is the hash of the lower-cased, forward-slashed path -/
theorem sdIv_plain (lower : Str → Str) (H : Bytes → Bytes) (p : Str)
    (h : (startsWith (fwd (lower p)) strBackup && (fwd (lower p)).length > 28) = false) :
    sdIv lower H p = ivOfNormalised H (fwd (lower p)) := by
  simp [sdIv, remap, h]

theorem sdIv_case (lower : Str → Str) (H : Bytes → Bytes) (p q : Str) (h : lower p = lower q) :
    sdIv lower H p = sdIv lower H q := by
  simp [sdIv, h]

theorem sdIv_sep (lower : Str → Str) (H : Bytes → Bytes) (p : Str) (hl : ∀ s, fwd (lower (fwd s)) = fwd (lower s)) :
    sdIv lower H (fwd p) = sdIv lower H p := by
  simp [sdIv, hl]

theorem id0_words (H : Bytes → Bytes) (key : Bytes) (hH : 16 ≤ (H key).length) :
    id0Of H key = (List.range 4).flatMap fun w => (slice (slice (H key) 0 16) (4 * w) 4).reverse := by
  unfold id0Of
  have hl : ∀ w, w < 4 → (slice (slice (H key) 0 16) (4 * w) 4).length = 4 := by
    intro w hw; simp only [slice_length]; omega
  have e : ∀ w, w < 4 → toBE 4 (readLE (slice (slice (H key) 0 16) (4 * w) 4)) =
      (slice (slice (H key) 0 16) (4 * w) 4).reverse := by
    intro w hw
    have := toBE_readLE_rev (slice (slice (H key) 0 16) (4 * w) 4)
    rw [hl w hw] at this
    exact this
  simp only [show List.range 4 = [0, 1, 2, 3] by rfl, List.flatMap_cons, List.flatMap_nil, e 0 (by omega), e 1 (by omega),
    e 2 (by omega), e 3 (by omega)]

theorem sdKey_lengths (data : Bytes) :
    (data.length = 0x10 → sdKeyOf data = .ok data) ∧
    (data.length = 0x120 ∨ data.length = 0x140 → sdKeyOf data = .ok (slice data 0x110 0x10)) ∧
    (data.length ≠ 0x10 → data.length ≠ 0x120 → data.length ≠ 0x140 →
      sdKeyOf data = .error (.other "BadMovableSedError")) := by
  refine ⟨fun h => by simp [sdKeyOf, h], fun h => ?_, fun h1 h2 h3 => by simp [sdKeyOf, h1, h2, h3]⟩
  rcases h with h | h <;> simp [sdKeyOf, h]

/-- inside the alias guard: the counter is that of the rewritten path `/title/<p[12:20]>/<p[20:28]>/data<p[28:]>` -/
theorem sdIv_alias (lower : Str → Str) (H : Bytes → Bytes) (p : Str)
    (h : (startsWith (fwd (lower p)) strBackup && (fwd (lower p)).length > 28) = true) :
    sdIv lower H p = ivOfNormalised H (strTitle ++ ((fwd (lower p)).drop 12).take 8 ++ [0x2F] ++ ((fwd (lower p)).drop 20).take 8 ++
      strData ++ (fwd (lower p)).drop 28) := by
  simp [sdIv, remap, h]

/-- the rewritten path is a different string (it starts with "/t", the original with "/b") -/
theorem remap_ne (q : Str) (h : (startsWith q strBackup && q.length > 28) = true) : remap q ≠ q := by
  simp only [Bool.and_eq_true, decide_eq_true_eq] at h
  obtain ⟨h1, h2⟩ := h
  unfold remap
  rw [if_pos (by simp [h1, h2])]
  intro hc
  have := congrArg (fun l => l[1]?) hc
  unfold startsWith at h1
  have hq : q[1]? = some 0x62 := by
    have := congrArg (fun l => l[1]?) (beq_iff_eq.mp h1)
    simp [strBackup, List.getElem?_take] at this
    exact this
  simp [strTitle, hq] at this

end Sd
end Pyctr
