/-
  The session invariant: `Good` = the state is what re-opening the file gives (`Synced`) and every partition is regular.
  It is established by opening a regular container and preserved by every seek, read and write through the verified
  level-4 views - so it holds after every session, for either container kind.
-/
import Proofs.SaveReopenDisa
namespace Pyctr
namespace Save


theorem geomP_master (P : Bytes) (t : Tree) (m m' : List Bytes) (g : GeomP P t m) (hl : m'.length = m.length) : GeomP P t m' :=
  ⟨g.dpwf, g.inside, g.ext, g.apart, g.room, by rw [hl]; exact g.master⟩

theorem set_self {α : Type} (l : List α) (i : Nat) (x : α) (h : l[i]? = some x) : l.set i x = l := by
  apply List.ext_getElem?
  intro j
  by_cases hj : i = j
  · subst hj
    have hlt : i < l.length := by
      rcases Nat.lt_or_ge i l.length with hl | hl
      · exact hl
      · rw [List.getElem?_eq_none hl] at h; cases h
    rw [List.getElem?_set_self hlt, h]
  · rw [List.getElem?_set_ne hj]

/-- what a write through the verified level-4 view changes in the container state -/
structure WriteShape (c : Cont) (pi : Nat) (p : PartSt) (c' : Cont) : Prop where
  kind : c'.kind = c.kind
  tOff : c'.tableOff = c.tableOff
  tSize : c'.tableSize = c.tableSize
  wr : c'.writable = c.writable
  flen : c'.F.length = c.F.length
  parts : ∃ m' ca sk, c'.parts = c.parts.set pi { p with master := m', caches := ca, seek := sk } ∧
    m'.length = p.master.length ∧ (∀ x ∈ m', x.length = 0x20) ∧ GeomP (slice c'.F p.pOff p.pSize) p.tree m'
  frame : ∀ z, c.tableOff + c.tableSize ≤ z → (z < p.pOff ∨ p.pOff + p.pSize ≤ z) → c'.F[z]? = c.F[z]?

theorem lv4Write_shape (H : Bytes → Bytes) (mac : Bytes → Bytes → Bytes) (cm : Option CmacScheme) (c : Cont) (pi : Nat)
    (p : PartSt) (hp : c.parts[pi]? = some p) (data : Bytes) (n : Nat) (c' : Cont)
    (hH : ∀ x, (H x).length = 0x20) (hmac : ∀ k x, (mac k x).length = 0x10) (hh : c.header.length = 0x100)
    (g : GeomP (p.P c.F) p.tree p.master)
    (hwf : DescWF ⟨p.difi, p.ivfc, p.dpfs, p.master⟩ p.descSize)
    (L : DisaLayout c pi p)
    (h : lv4Write H mac cm c pi data = .ok (n, c')) : WriteShape c pi p c' := by
  have hLd := L.dIn
  have hLe := L.tEnd
  have hLo := L.tOff
  have hLp := L.pLo
  have hLi := L.pIn
  unfold lv4Write at h
  rw [hp] at h
  simp only at h
  generalize hd : (if p.seek + data.length > p.ivfc.lv4.size then data.take (p.ivfc.lv4.size - p.seek) else data) = d at h
  by_cases hde : d.isEmpty = true
  · rw [hde] at h
    simp only [if_true, Except.ok.injEq, Prod.mk.injEq] at h
    rw [← h.2]
    exact ⟨rfl, rfl, rfl, rfl, rfl, ⟨p.master, p.caches, p.seek, (set_self _ _ _ hp).symm, rfl, hwf.hashLen, g⟩, fun _ _ _ => rfl⟩
  · have hne : d ≠ [] := by intro hc; rw [hc] at hde; exact hde rfl
    have hde' : d.isEmpty = false := by cases d with | nil => exact absurd rfl hne | cons _ _ => rfl
    rw [hde'] at h
    simp only [Bool.false_eq_true, if_false] at h
    by_cases hw : (!c.writable) = true
    · rw [if_pos hw] at h; cases h
    · rw [if_neg hw] at h
      have hlv4 : (p.tree.level 3).size = p.ivfc.lv4.size := rfl
      have hdin : p.seek + d.length ≤ (p.tree.level 3).size := by
        rw [hlv4, ← hd]
        by_cases hc : p.seek + data.length > p.ivfc.lv4.size
        · rw [if_pos hc, List.length_take]
          have : d.length ≠ 0 := by intro h0; exact hne (List.eq_nil_of_length_eq_zero h0)
          rw [← hd, if_pos hc, List.length_take] at this
          omega
        · rw [if_neg hc]; omega
      cases hwd : writeData H p.tree 3 p.seek d ⟨⟨c.F, p.pOff, p.pSize⟩, p.master, p.caches, false⟩ with
      | error e => rw [hwd] at h; cases h
      | ok s =>
        rw [hwd] at h
        simp only at h
        have hPeq : (⟨c.F, p.pOff, p.pSize⟩ : Win).bytes = p.P c.F := rfl
        obtain ⟨r1, r2, r3, r4, r5, r6⟩ := writeData_refines H p.tree hH 3 (by omega) p.seek d _ s (by rw [hPeq]; exact g) hne hdin hwd
        obtain ⟨f1, f2, f3, f4⟩ := writeData_frame H p.tree hH 3 (by omega) p.seek d _ s (by rw [hPeq]; exact g) hne hdin hwd
        simp only at r2 r3 r4 r5 r6 f1 f3 f4
        rw [if_pos f2] at h
        have gs : GeomP s.w.bytes p.tree s.master := geomP_master _ _ _ _ (r6 _ (by rw [hPeq]; exact g)) f3
        cases hpd : partdescToBytes ⟨p.difi, p.ivfc, p.dpfs, s.master⟩ p.descSize with
        | none => rw [hpd] at h; cases h
        | some pd =>
          rw [hpd] at h
          simp only at h
          obtain ⟨pdl, _⟩ := partdesc_roundtrip _ _ pd (descWF_master _ _ _ _ _ _ hwf f3 (f4 hwf.hashLen)) hpd
          cases hu : updateHashes H mac cm c s.w.F p pd with
          | error e => rw [hu] at h; cases h
          | ok r =>
            obtain ⟨F'', header'⟩ := r
            rw [hu] at h
            simp only [Except.ok.injEq, Prod.mk.injEq] at h
            obtain ⟨_, hc'⟩ := h
            obtain ⟨u1, u2⟩ := updateHashes_frame H mac cm c s.w.F p pd F'' header' (c.tableOff + c.tableSize) (by omega)
              (by rw [pdl]; omega) (by rw [r4]; omega) hh hH hmac hu
            have hwin : slice F'' p.pOff p.pSize = s.w.bytes := by
              unfold Win.bytes
              rw [r2, r3]
              apply slice_congr
              intro i hi1 _
              exact u2 i (by omega)
            rw [← hc']
            refine ⟨rfl, rfl, rfl, rfl, by rw [u1, r4], ⟨s.master, s.caches, p.seek + d.length, rfl, f3, f4 hwf.hashLen, ?_⟩, ?_⟩
            · show GeomP (slice F'' p.pOff p.pSize) p.tree s.master
              rw [hwin]; exact gs
            · intro z hz1 hz2
              show F''[z]? = c.F[z]?
              rw [u2 z hz1, r5 z hz2]



structure PartOK (c : Cont) (pi : Nat) (p : PartSt) : Prop where
  geom : GeomP (p.P c.F) p.tree p.master
  tabs : TablesApart p.dpfs p.tree
  desc : DescWF ⟨p.difi, p.ivfc, p.dpfs, p.master⟩ p.descSize
  lay : DisaLayout c pi p

/-- the invariant of a session: the state is what re-opening the file gives, and every partition is regular -/
def Good (H : Bytes → Bytes) (c : Cont) : Prop :=
  Synced H c ∧ ∀ pi p, c.parts[pi]? = some p → PartOK c pi p

theorem synced_header (H : Bytes → Bytes) (c : Cont) (hs : Synced H c) : c.header = slice c.F 0x100 0x100 := by
  obtain ⟨c0, ho, hst⟩ := hs
  simp only [Cont.static, Prod.mk.injEq] at hst
  obtain ⟨_, s1, _⟩ := hst
  rw [← s1]
  cases hk : c.kind with
  | diff =>
    rw [hk] at ho
    simp only [openCont] at ho
    obtain ⟨_, _, p0, _, e⟩ := openDiff_inv H c.F c.writable c0 ho
    rw [e]
  | disa =>
    rw [hk] at ho
    simp only [openCont] at ho
    obtain ⟨_, _, pa, _, oc⟩ := openDisa_inv H c.F c.writable c0 ho
    rcases oc with ⟨_, pb, _, e⟩ | ⟨_, e⟩ <;> rw [e]

theorem lv4Write_good (H : Bytes → Bytes) (mac : Bytes → Bytes → Bytes) (cm : Option CmacScheme) (c : Cont) (pi : Nat)
    (data : Bytes) (n : Nat) (c' : Cont)
    (hH : ∀ x, (H x).length = 0x20) (hmac : ∀ k x, (mac k x).length = 0x10)
    (hG : Good H c) (h : lv4Write H mac cm c pi data = .ok (n, c')) : Good H c' := by
  obtain ⟨hs, hP⟩ := hG
  cases hp : c.parts[pi]? with
  | none => unfold lv4Write at h; rw [hp] at h; cases h
  | some p =>
    obtain ⟨g, tabs, desc, L⟩ := hP pi p hp
    have hhl : c.header.length = 0x100 := by
      rw [synced_header H c hs, slice_length]
      have := L.tOff; have := L.tEnd; omega
    have hsh := lv4Write_shape H mac cm c pi p hp data n c' hH hmac hhl g desc L h
    have hsy : Synced H c' := by
      cases hk : c.kind with
      | diff =>
        -- a DIFF container has one partition, at position 0
        have hpi : pi = 0 := by
          obtain ⟨c0, ho, hst⟩ := hs
          rw [hk] at ho
          simp only [openCont] at ho
          obtain ⟨_, _, p0, _, e⟩ := openDiff_inv H c.F c.writable c0 ho
          rw [e] at hst
          simp only [Cont.static, Prod.mk.injEq, List.map_cons, List.map_nil] at hst
          have hl := congrArg List.length hst.2.2.2.2
          simp only [List.length_cons, List.length_nil, List.length_map] at hl
          rcases Nat.lt_or_ge pi c.parts.length with hlt | hge
          · omega
          · rw [List.getElem?_eq_none hge] at hp; cases hp
        subst hpi
        exact lv4Write_synced_diff H mac cm c p hk hp data n c' hH hmac hs g tabs desc L.tOff L.pLo L.pIn h
      | disa => exact lv4Write_synced_disa H mac cm c pi p hk hp data n c' hH hmac hs g tabs desc L h
    refine ⟨hsy, ?_⟩
    obtain ⟨m', ca, sk, hparts, hml, hmh, hgeo⟩ := hsh.parts
    have hplt : pi < c.parts.length := by
      rcases Nat.lt_or_ge pi c.parts.length with hl | hl
      · exact hl
      · rw [List.getElem?_eq_none hl] at hp; cases hp
    -- layout facts carry over: nothing they mention changes
    have hlay : ∀ j (q q' : PartSt), c.parts[j]? = some q → q'.descOff = q.descOff → q'.descSize = q.descSize →
        q'.pOff = q.pOff → q'.pSize = q.pSize → DisaLayout c j q → DisaLayout c' j q' := by
      intro j q q' hq e1 e2 e3 e4 Lq
      refine ⟨by rw [hsh.tOff]; exact Lq.tOff, by rw [hsh.tOff, hsh.tSize, hsh.flen]; exact Lq.tEnd,
        by rw [e1, e2, hsh.tSize]; exact Lq.dIn, by rw [hsh.tOff, hsh.tSize, e3]; exact Lq.pLo,
        by rw [e3, hsh.flen]; exact Lq.pIn, ?_⟩
      intro i r hij hr
      rw [hparts] at hr
      rw [e1, e2, e3, e4, hsh.tOff, hsh.tSize]
      by_cases hi : pi = i
      · subst hi
        rw [List.getElem?_set_self hplt] at hr
        simp only [Option.some.injEq] at hr
        rw [← hr]
        exact Lq.others pi p hij hp
      · rw [List.getElem?_set_ne hi] at hr
        exact Lq.others i r hij hr
    intro j q hq
    rw [hparts] at hq
    by_cases hj : pi = j
    · subst hj
      rw [List.getElem?_set_self hplt] at hq
      simp only [Option.some.injEq] at hq
      rw [← hq]
      exact ⟨hgeo, tabs, descWF_master _ _ _ _ _ _ desc hml hmh, hlay pi p _ hp rfl rfl rfl rfl L⟩
    · rw [List.getElem?_set_ne hj] at hq
      obtain ⟨gq, tq, dq, Lq⟩ := hP j q hq
      refine ⟨?_, tq, dq, hlay j q q hq rfl rfl rfl rfl Lq⟩
      have hwq : slice c'.F q.pOff q.pSize = slice c.F q.pOff q.pSize := by
        apply slice_congr
        intro z hz1 hz2
        have o := L.others j q (Ne.symm hj) hq
        exact hsh.frame z (by omega) (by omega)
      show GeomP (slice c'.F q.pOff q.pSize) q.tree q.master
      rw [hwq]; exact gq



/-- replacing a partition state by one that differs only in caches / reader position keeps the invariant -/
theorem good_cache_only (H : Bytes → Bytes) (c : Cont) (pi : Nat) (p : PartSt) (hp : c.parts[pi]? = some p)
    (ca : Caches) (sk : Nat) (hG : Good H c) :
    Good H { c with parts := c.parts.set pi { p with caches := ca, seek := sk } } := by
  obtain ⟨hs, hP⟩ := hG
  have hplt : pi < c.parts.length := by
    rcases Nat.lt_or_ge pi c.parts.length with hl | hl
    · exact hl
    · rw [List.getElem?_eq_none hl] at hp; cases hp
  have hmap : (c.parts.set pi { p with caches := ca, seek := sk }).map PartSt.static = c.parts.map PartSt.static := by
    apply List.ext_getElem?
    intro j
    rw [List.getElem?_map, List.getElem?_map]
    by_cases hj : pi = j
    · subst hj; rw [List.getElem?_set_self hplt, hp]; rfl
    · rw [List.getElem?_set_ne hj]
  constructor
  · obtain ⟨c0, ho, hst⟩ := hs
    refine ⟨c0, ho, ?_⟩
    rw [hst]
    simp only [Cont.static, hmap]
  · have hlay : ∀ j (q q' : PartSt), q'.descOff = q.descOff → q'.descSize = q.descSize →
        q'.pOff = q.pOff → q'.pSize = q.pSize → DisaLayout c j q →
        DisaLayout { c with parts := c.parts.set pi { p with caches := ca, seek := sk } } j q' := by
      intro j q q' e1 e2 e3 e4 Lq
      refine ⟨Lq.tOff, Lq.tEnd, by rw [e1, e2]; exact Lq.dIn, by rw [e3]; exact Lq.pLo, by rw [e3]; exact Lq.pIn, ?_⟩
      intro i r hij hr
      simp only at hr
      rw [e1, e2, e3, e4]
      by_cases hi : pi = i
      · subst hi
        rw [List.getElem?_set_self hplt] at hr
        simp only [Option.some.injEq] at hr
        rw [← hr]
        exact Lq.others pi p hij hp
      · rw [List.getElem?_set_ne hi] at hr
        exact Lq.others i r hij hr
    intro j q hq
    simp only at hq
    by_cases hj : pi = j
    · subst hj
      rw [List.getElem?_set_self hplt] at hq
      simp only [Option.some.injEq] at hq
      rw [← hq]
      obtain ⟨gq, tq, dq, Lq⟩ := hP pi p hp
      exact ⟨gq, tq, dq, hlay pi p _ rfl rfl rfl rfl Lq⟩
    · rw [List.getElem?_set_ne hj] at hq
      obtain ⟨gq, tq, dq, Lq⟩ := hP j q hq
      exact ⟨gq, tq, dq, hlay j q q rfl rfl rfl rfl Lq⟩

/-- the operations of a session on the verified level-4 views of a container -/
inductive Lv4Op
  | seek (pi : Nat) (off : Int) (whence : Nat)
  | read (pi : Nat) (size : Int)
  | write (pi : Nat) (data : Bytes)

def lv4Step (H : Bytes → Bytes) (mac : Bytes → Bytes → Bytes) (cm : Option CmacScheme) (c : Cont) : Lv4Op → Except Err Cont
  | .seek pi off wh => (contSeek c pi off wh).map (·.2)
  | .read pi size => (contRead H c pi size).map (·.2)
  | .write pi data => (lv4Write H mac cm c pi data).map (·.2)

/-- a session: the operations in order, stopping at the first error (exception) -/
def lv4Run (H : Bytes → Bytes) (mac : Bytes → Bytes → Bytes) (cm : Option CmacScheme) : Cont → List Lv4Op → Except Err Cont
  | c, [] => .ok c
  | c, op :: ops => match lv4Step H mac cm c op with
    | .error e => .error e
    | .ok c' => lv4Run H mac cm c' ops

theorem lv4Step_good (H : Bytes → Bytes) (mac : Bytes → Bytes → Bytes) (cm : Option CmacScheme) (c c' : Cont) (op : Lv4Op)
    (hH : ∀ x, (H x).length = 0x20) (hmac : ∀ k x, (mac k x).length = 0x10)
    (hG : Good H c) (h : lv4Step H mac cm c op = .ok c') : Good H c' := by
  cases op with
  | seek pi off wh =>
    simp only [lv4Step] at h
    unfold contSeek at h
    cases hp : c.parts[pi]? with
    | none => rw [hp] at h; cases h
    | some p =>
      rw [hp] at h
      simp only at h
      split at h
      · cases h
      · simp only [Except.map, Except.ok.injEq] at h
        rw [← h]
        exact good_cache_only H c pi p hp p.caches _ hG
  | read pi size =>
    simp only [lv4Step] at h
    unfold contRead at h
    cases hp : c.parts[pi]? with
    | none => rw [hp] at h; cases h
    | some p =>
      rw [hp] at h
      simp only at h
      split at h
      · cases h
      · simp only [Except.map, Except.ok.injEq] at h
        rw [← h]
        exact good_cache_only H c pi p hp _ _ hG
  | write pi data =>
    simp only [lv4Step] at h
    cases hw : lv4Write H mac cm c pi data with
    | error e => rw [hw] at h; cases h
    | ok r =>
      obtain ⟨n, c2⟩ := r
      rw [hw] at h
      simp only [Except.map, Except.ok.injEq] at h
      rw [← h]
      exact lv4Write_good H mac cm c pi data n c2 hH hmac hG hw

/-- **every session**: whatever seeks, reads and writes are made through the verified views of a regular container, at the end
    (and at every point in between) re-opening the file gives the state the session holds -/
theorem lv4Run_good (H : Bytes → Bytes) (mac : Bytes → Bytes → Bytes) (cm : Option CmacScheme)
    (hH : ∀ x, (H x).length = 0x20) (hmac : ∀ k x, (mac k x).length = 0x10) :
    ∀ (ops : List Lv4Op) (c c' : Cont), Good H c → lv4Run H mac cm c ops = .ok c' → Good H c' := by
  intro ops
  induction ops with
  | nil => intro c c' hG h; simp only [lv4Run, Except.ok.injEq] at h; rw [← h]; exact hG
  | cons op ops ih =>
    intro c c' hG h
    simp only [lv4Run] at h
    cases hs : lv4Step H mac cm c op with
    | error e => rw [hs] at h; cases h
    | ok c2 =>
      rw [hs] at h
      exact ih c2 c' (lv4Step_good H mac cm c c2 op hH hmac hG hs) h


/-! ### the invariant at the start: from the decidable checks -/

theorem disaLayout_of_b (c : Cont) (pi : Nat) (p : PartSt) (h : reopenLayoutB c pi p = true) : DisaLayout c pi p := by
  unfold reopenLayoutB at h
  simp only [Bool.and_eq_true, decide_eq_true_eq, List.all_eq_true, List.mem_range, Bool.or_eq_true, beq_iff_eq] at h
  obtain ⟨⟨⟨⟨⟨h1, h2⟩, h3⟩, h4⟩, h5⟩, h6⟩ := h
  refine ⟨h1, h2, h3, h4, h5, ?_⟩
  intro j q hj hq
  have hlt : j < c.parts.length := by
    rcases Nat.lt_or_ge j c.parts.length with hl | hl
    · exact hl
    · rw [List.getElem?_eq_none hl] at hq; cases hq
  rcases h6 j hlt with h | h
  · exact absurd h hj
  · rw [hq] at h
    simp only [Bool.and_eq_true, decide_eq_true_eq] at h
    exact ⟨h.1.1, h.1.2, h.2⟩

theorem good_of_regular (H : Bytes → Bytes) (kind : Kind) (F : Bytes) (w : Bool) (c : Cont)
    (ho : openCont H kind F w = .ok c) (hr : regularB c = true) : Good H c := by
  refine ⟨open_synced H kind F w c ho, ?_⟩
  intro pi p hp
  have hlt : pi < c.parts.length := by
    rcases Nat.lt_or_ge pi c.parts.length with hl | hl
    · exact hl
    · rw [List.getElem?_eq_none hl] at hp; cases hp
  unfold regularB at hr
  simp only [List.all_eq_true, List.mem_range] at hr
  have := hr pi hlt
  rw [hp] at this
  simp only [Bool.and_eq_true] at this
  obtain ⟨⟨⟨a, b⟩, c1⟩, d⟩ := this
  exact ⟨geomOK_spec _ _ _ a, tablesApart_of_b _ _ b, descWF_of_b _ _ c1, disaLayout_of_b _ _ _ d⟩

end Save
end Pyctr
