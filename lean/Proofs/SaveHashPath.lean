/-
  C18 (hash path): after a write through the hash tree every touched block, and every block that verified before, has an
  intact chain up to the (updated) master hashes — stated on the levels as byte arrays (`absWrite`), then transferred to the
  model's `writeData` by the refinement lemma of Proofs/SaveWriteRefines.lean.
-/
import Proofs.SaveTamper
namespace Pyctr
namespace Save
variable (H : Bytes → Bytes) (bsOf : Nat → Nat)

theorem chain_zero_intro (master : List Bytes) (L : Nat → Bytes) (b : Nat) (h : master[b]? = some (H (padBlock bsOf L 0 b))) :
    chainOK H bsOf master L 0 b := by
  unfold chainOK
  simp only [specValid, rdOf, h]
  simp [padBlock]

theorem chain_intro (master : List Bytes) (L : Nat → Bytes) (up b : Nat)
    (hu : chainOK H bsOf master L up (b * 0x20 / bsOf up))
    (hs : slice (L up) (b * 0x20) 0x20 = H (padBlock bsOf L (up + 1) b)) (hz : slice (L up) (b * 0x20) 0x20 ≠ zeros 0x20) :
    chainOK H bsOf master L (up + 1) b := by
  unfold chainOK at hu ⊢
  rw [specValid]
  simp only [rdOf, if_true, hu, beq_self_eq_true]
  have hz' : (slice (L up) (b * 0x20) 0x20 == zeros 0x20) = false := by simpa using hz
  rw [hz']
  simp only [Bool.false_eq_true, if_false, Except.ok.injEq, Option.some.injEq, beq_iff_eq]
  exact hs

theorem chain_slot_ne (master : List Bytes) (L : Nat → Bytes) (up b : Nat) (h : chainOK H bsOf master L (up + 1) b) :
    slice (L up) (b * 0x20) 0x20 ≠ zeros 0x20 := by
  obtain ⟨hu, _⟩ := chain_step H bsOf master L up b h
  unfold chainOK at h hu
  rw [specValid] at h
  simp only [rdOf, if_true, hu, beq_self_eq_true] at h
  intro hc
  rw [hc] at h
  simp at h

/-- a chain only looks at its own level and the levels above it -/
theorem chain_congr (master : List Bytes) (L L' : Nat → Bytes) : ∀ (idx b : Nat), (∀ j, j ≤ idx → L' j = L j) →
    chainOK H bsOf master L idx b → chainOK H bsOf master L' idx b := by
  intro idx
  induction idx with
  | zero =>
    intro b hl h
    apply chain_zero_intro
    have := chain_zero H bsOf master L b h
    rw [this]
    simp only [padBlock, hl 0 (Nat.le_refl _)]
  | succ up ih =>
    intro b hl h
    obtain ⟨hu, hs⟩ := chain_step H bsOf master L up b h
    have hz := chain_slot_ne H bsOf master L up b h
    apply chain_intro
    · exact ih _ (fun j hj => hl j (by omega)) hu
    · rw [hl up (by omega)]; simp only [padBlock, hl (up + 1) (Nat.le_refl _)]; exact hs
    · rw [hl up (by omega)]; exact hz

/-! ### the write, on levels as arrays -/

/-! ### arithmetic of the touched block range -/

/-- block `b` lies in the range `write_data` re-hashes for a write of `len` bytes at `offset` -/
def touched (offset len bs b : Nat) : Prop := offset / bs ≤ b ∧ b ≤ max ((offset + len + bs - 1) / bs - 1) (offset / bs)

theorem touched_range (offset len bs : Nat) (hbs : 0 < bs) (hlen : 0 < len) :
    offset / bs ≤ max ((offset + len + bs - 1) / bs - 1) (offset / bs) ∧ offset / bs * bs ≤ offset ∧
      max ((offset + len + bs - 1) / bs - 1) (offset / bs) * bs < offset + len ∧
      offset + len ≤ (max ((offset + len + bs - 1) / bs - 1) (offset / bs) + 1) * bs := by
  obtain ⟨e, k, hk0, hkb, hT, hceil⟩ := ceil_div_spec (offset + len) bs hbs (by omega)
  have h1 := Nat.div_mul_le_self offset bs
  have hsb : offset / bs ≤ e := by
    have : offset / bs * bs < (e + 1) * bs := by rw [Nat.succ_mul]; omega
    have := Nat.lt_of_mul_lt_mul_right this
    omega
  rw [hceil, Nat.add_sub_cancel, Nat.max_eq_left hsb]
  refine ⟨hsb, h1, by omega, by rw [Nat.succ_mul]; omega⟩

theorem untouched_disjoint (offset len bs b : Nat) (hbs : 0 < bs) (hlen : 0 < len) (h : ¬ touched offset len bs b) :
    b * bs + bs ≤ offset ∨ offset + len ≤ b * bs := by
  obtain ⟨_, h2, _, h4⟩ := touched_range offset len bs hbs hlen
  unfold touched at h
  by_cases hb : b < offset / bs
  · left
    have : (b + 1) * bs ≤ offset / bs * bs := Nat.mul_le_mul_right _ (by omega)
    rw [Nat.succ_mul] at this
    omega
  · right
    have hb2 : max ((offset + len + bs - 1) / bs - 1) (offset / bs) + 1 ≤ b := by omega
    have : (max ((offset + len + bs - 1) / bs - 1) (offset / bs) + 1) * bs ≤ b * bs := Nat.mul_le_mul_right _ hb2
    omega

theorem slice_overlay_disjoint' (d : Bytes) (a : Nat) (w : Bytes) (a' n : Nat)
    (h : a' + n ≤ a ∨ a + w.length ≤ a') (hin : a + w.length ≤ d.length) :
    slice (overlay d a w) a' n = slice d a' n := by
  apply List.ext_getElem?; intro i
  rw [slice_getElem?, slice_getElem?, overlay_getElem?]
  by_cases hi : i < n
  · rw [if_pos hi, if_pos hi]
    rcases h with h | h
    · rw [if_pos (by omega), if_pos (by omega)]
    · rw [if_neg (by omega), if_neg (by omega)]
  · rw [if_neg hi, if_neg hi]

theorem absLevelWrite_in (A : Bytes) (off : Nat) (data : Bytes) (h : off + data.length ≤ A.length) :
    absLevelWrite A off data = overlay A off data := by
  unfold absLevelWrite
  simp only
  rw [Nat.min_eq_left (by omega), List.take_of_length_le (by omega)]

theorem blockHashes_length (A : Bytes) (bs sb n : Nat) : (blockHashes H A bs sb n).length = n := by
  simp [blockHashes]

theorem blockHashes_getElem? (A : Bytes) (bs sb n i : Nat) (hi : i < n) :
    (blockHashes H A bs sb n)[i]? = some (H (ljustZero (slice A ((sb + i) * bs) bs) bs)) := by
  simp [blockHashes, hi]

theorem flatten_hash_slice (hs : List Bytes) (hl : ∀ x, x ∈ hs → x.length = 0x20) : ∀ (i : Nat) (h : Bytes), hs[i]? = some h →
    slice hs.flatten (i * 0x20) 0x20 = h := by
  induction hs with
  | nil => intro i h hh; simp at hh
  | cons x r ih =>
    intro i h hh
    have hx := hl x (by simp)
    cases i with
    | zero =>
      simp only [List.getElem?_cons_zero, Option.some.injEq] at hh
      subst hh
      simp only [List.flatten_cons, Nat.zero_mul]
      rw [Pyctr.slice_append_left _ _ 0 _ (by omega)]
      exact slice_all _ _ (by omega)
    | succ i =>
      simp only [List.getElem?_cons_succ] at hh
      simp only [List.flatten_cons]
      rw [Pyctr.slice_append_right' _ _ ((i + 1) * 0x20) (i * 0x20) _ (by omega)]
      exact ih (fun y hy => hl y (by simp [hy])) i h hh

theorem flatten_hash_length (hs : List Bytes) (hl : ∀ x, x ∈ hs → x.length = 0x20) : hs.flatten.length = hs.length * 0x20 := by
  induction hs with
  | nil => rfl
  | cons x r ih =>
    simp only [List.flatten_cons, List.length_append, List.length_cons, hl x (by simp), ih (fun y hy => hl y (by simp [hy]))]
    omega

theorem setMaster_length (master : List Bytes) (sb : Nat) (hashes : List Bytes) : (setMaster master sb hashes).length = master.length := by
  unfold setMaster
  generalize List.range hashes.length = l
  induction l generalizing master with
  | nil => rfl
  | cons i r ih => simp only [List.foldl_cons]; rw [ih]; simp

theorem setMaster_getElem? (sb : Nat) (hashes : List Bytes) : ∀ (master : List Bytes) (b : Nat), sb + hashes.length ≤ master.length →
    (setMaster master sb hashes)[b]? = if sb ≤ b ∧ b < sb + hashes.length then hashes[b - sb]? else master[b]? := by
  unfold setMaster
  -- generalise the range to a prefix
  have key : ∀ (n : Nat), n ≤ hashes.length → ∀ (master : List Bytes) (b : Nat), sb + hashes.length ≤ master.length →
      ((List.range n).foldl (fun (m : List Bytes) i => m.set (sb + i) (hashes.getD i [])) master)[b]? =
        if sb ≤ b ∧ b < sb + n then hashes[b - sb]? else master[b]? := by
    intro n
    induction n with
    | zero => intro _ master b _; rw [if_neg (by omega)]; rfl
    | succ n ih =>
      intro hn master b hm
      rw [List.range_succ, List.foldl_append]
      simp only [List.foldl_cons, List.foldl_nil]
      rw [List.getElem?_set]
      by_cases hb : sb + n = b
      · subst hb
        rw [if_pos rfl]
        have hlen : ((List.range n).foldl (fun (m : List Bytes) i => m.set (sb + i) (hashes.getD i [])) master).length = master.length := by
          generalize List.range n = l
          induction l generalizing master with
          | nil => rfl
          | cons i r ihr => simp only [List.foldl_cons]; rw [ihr]; simp; simpa using hm
        rw [if_pos (by omega), if_pos (by omega)]
        rw [show sb + n - sb = n by omega, List.getD_eq_getElem?_getD, List.getElem?_eq_getElem (by omega)]
        simp
      · rw [if_neg hb, ih (by omega) master b hm]
        by_cases hc : sb ≤ b ∧ b < sb + n
        · rw [if_pos hc, if_pos (by omega)]
        · rw [if_neg hc, if_neg (by omega)]
  intro master b hm
  exact key hashes.length (Nat.le_refl _) master b hm

theorem lt_nblocks (size bs b : Nat) (hbs : 0 < bs) (h : b * bs < size) : b < nblocks size bs := by
  obtain ⟨e, k, hk0, hkb, hT, hceil⟩ := ceil_div_spec size bs hbs (by omega)
  unfold nblocks
  rw [hceil]
  have : b * bs < (e + 1) * bs := by rw [Nat.succ_mul]; omega
  exact Nat.lt_of_mul_lt_mul_right this

theorem parent_touched (sb eb b bsu : Nat) (hbsu : 0 < bsu) (h1 : sb ≤ b) (h2 : b ≤ eb) :
    touched (sb * 0x20) ((eb + 1 - sb) * 0x20) bsu (b * 0x20 / bsu) := by
  unfold touched
  refine ⟨Nat.div_le_div_right (by omega), ?_⟩
  apply Nat.le_trans _ (Nat.le_max_left _ _)
  obtain ⟨e, k, hk0, hkb, hT, hceil⟩ := ceil_div_spec (sb * 0x20 + (eb + 1 - sb) * 0x20) bsu hbsu (by omega)
  rw [hceil, Nat.add_sub_cancel]
  have hlt : b * 0x20 < (e + 1) * bsu := by
    rw [Nat.succ_mul]
    have : sb * 0x20 + (eb + 1 - sb) * 0x20 = (eb + 1) * 0x20 := by
      rw [← Nat.add_mul]; congr 1; omega
    omega
  have := (Nat.div_lt_iff_lt_mul hbsu).mpr hlt
  omega

theorem slice_overlay_inside (d : Bytes) (a : Nat) (w : Bytes) (a' n : Nat) (h1 : a ≤ a') (h2 : a' + n ≤ a + w.length) :
    slice (overlay d a w) a' n = slice w (a' - a) n := by
  apply List.ext_getElem?; intro i
  rw [slice_getElem?, slice_getElem?, overlay_getElem?]
  by_cases hi : i < n
  · rw [if_pos hi, if_pos hi, if_neg (by omega), if_pos (by omega)]
    congr 1; omega
  · rw [if_neg hi, if_neg hi]

theorem padBlock_untouched (L L' : Nat → Bytes) (idx offset : Nat) (data : Bytes) (b : Nat) (hbs : 0 < bsOf idx) (hlen : 0 < data.length)
    (hL : L' idx = overlay (L idx) offset data) (hin : offset + data.length ≤ (L idx).length)
    (hu : ¬ touched offset data.length (bsOf idx) b) : padBlock bsOf L' idx b = padBlock bsOf L idx b := by
  unfold padBlock
  rw [hL, slice_overlay_disjoint' _ _ _ _ _ (untouched_disjoint _ _ _ _ hbs hlen hu) hin]

/-- **hash path.**  After `write_data` every touched block, and every block whose chain was intact before, has an intact chain
    up to the updated master hashes; the written level is the old level with the data laid over it, the levels below it and
    all lengths are unchanged. -/
theorem absWrite_chain (hbs : ∀ i, 0 < bsOf i) (hH : ∀ x, (H x).length = 0x20) (hnz : ¬ ZeroHash H) :
    ∀ (idx offset : Nat) (data : Bytes) (L : Nat → Bytes) (master : List Bytes) (L' : Nat → Bytes) (master' : List Bytes),
      0 < data.length → offset + data.length ≤ (L idx).length →
      (∀ i, i < idx → nblocks (L (i + 1)).length (bsOf (i + 1)) * 0x20 ≤ (L i).length) →
      absWrite H bsOf idx offset data (L, master) = .ok (L', master') →
      (∀ j, idx < j → L' j = L j) ∧ L' idx = overlay (L idx) offset data ∧ (∀ j, (L' j).length = (L j).length) ∧
        master'.length = master.length ∧
        ∀ b, b * bsOf idx < (L idx).length → (touched offset data.length (bsOf idx) b ∨ chainOK H bsOf master L idx b) →
          chainOK H bsOf master' L' idx b := by
  intro idx
  induction idx with
  | zero =>
    intro offset data L master L' master' hlen hin _ h
    unfold absWrite at h
    simp only at h
    rw [absLevelWrite_in _ _ _ hin] at h
    by_cases herr : offset / bsOf 0 +
        (blockHashes H (overlay (L 0) offset data) (bsOf 0) (offset / bsOf 0)
          (max ((offset + data.length + bsOf 0 - 1) / bsOf 0 - 1) (offset / bsOf 0) + 1 - offset / bsOf 0)).length > master.length
    · rw [if_pos herr] at h; cases h
    · rw [if_neg herr] at h
      simp only [Except.ok.injEq, Prod.mk.injEq] at h
      obtain ⟨hL', hM'⟩ := h
      have hL0 : L' 0 = overlay (L 0) offset data := by rw [← hL']; simp
      rw [blockHashes_length] at herr
      refine ⟨fun j hj => by rw [← hL']; simp only; rw [if_neg (by omega)], hL0, ?_, by rw [← hM', setMaster_length], ?_⟩
      · intro j
        rw [← hL']
        by_cases hj : j = 0
        · subst hj; simp only [if_true]; exact overlay_length_inside _ _ _ hin
        · simp only [if_neg hj]
      · intro b _ hb
        apply chain_zero_intro
        rw [← hM', setMaster_getElem? _ _ _ _ (by rw [blockHashes_length]; omega), blockHashes_length]
        by_cases ht : touched offset data.length (bsOf 0) b
        · obtain ⟨t1, t2⟩ := ht
          rw [if_pos (by omega), blockHashes_getElem? _ _ _ _ _ _ (by omega)]
          simp only [padBlock, hL0]
          rw [show offset / bsOf 0 + (b - offset / bsOf 0) = b by omega]
        · have ht' : ¬ (offset / bsOf 0 ≤ b ∧ b ≤ max ((offset + data.length + bsOf 0 - 1) / bsOf 0 - 1) (offset / bsOf 0)) := ht
          rw [if_neg (by omega)]
          rcases hb with hb | hb
          · exact absurd hb ht
          · rw [chain_zero H bsOf master L b hb, padBlock_untouched bsOf L L' 0 offset data b (hbs 0) hlen hL0 hin ht]
  | succ up ih =>
    intro offset data L master L' master' hlen hin hgeo h
    unfold absWrite at h
    simp only at h
    rw [absLevelWrite_in _ _ _ hin] at h
    -- names
    generalize hsb : offset / bsOf (up + 1) = sb at h
    generalize heb : max ((offset + data.length + bsOf (up + 1) - 1) / bsOf (up + 1) - 1) sb = eb at h
    obtain ⟨r1, r2, r3, r4⟩ := touched_range offset data.length (bsOf (up + 1)) (hbs _) hlen
    rw [hsb] at r1 r2 r3 r4
    rw [heb] at r1 r3 r4
    have hA : (overlay (L (up + 1)) offset data).length = (L (up + 1)).length := overlay_length_inside _ _ _ hin
    have hhl : ∀ x, x ∈ blockHashes H (overlay (L (up + 1)) offset data) (bsOf (up + 1)) sb (eb + 1 - sb) → x.length = 0x20 := by
      intro x hx
      simp only [blockHashes, List.mem_map] at hx
      obtain ⟨i, _, hi⟩ := hx
      rw [← hi]; exact hH _
    have hHF := flatten_hash_length _ hhl
    rw [blockHashes_length] at hHF
    have hebn : eb < nblocks (L (up + 1)).length (bsOf (up + 1)) := lt_nblocks _ _ _ (hbs _) (by omega)
    have hgeo_up := hgeo up (by omega)
    have hfit : sb * 0x20 + (eb + 1 - sb) * 0x20 ≤ (L up).length := by
      have : sb * 0x20 + (eb + 1 - sb) * 0x20 = (eb + 1) * 0x20 := by rw [← Nat.add_mul]; congr 1; omega
      have : (eb + 1) * 0x20 ≤ nblocks (L (up + 1)).length (bsOf (up + 1)) * 0x20 := Nat.mul_le_mul_right _ (by omega)
      omega
    obtain ⟨i1, i2, i3, i4, i5⟩ := ih (sb * 0x20) _ _ master L' master' (by rw [hHF]; omega)
      (by simp only [show ¬ (up = up + 1) by omega, if_false]; rw [hHF]; exact hfit)
      (by
        intro i hi
        simp only [show ¬ (i + 1 = up + 1) by omega, show ¬ (i = up + 1) by omega, if_false]
        exact hgeo i (by omega)) h
    simp only [show ¬ (up = up + 1) by omega, if_false] at i2
    have hLup1 : L' (up + 1) = overlay (L (up + 1)) offset data := by rw [i1 (up + 1) (by omega)]; simp
    refine ⟨fun j hj => by rw [i1 j (by omega)]; simp only [show ¬ (j = up + 1) by omega, if_false], hLup1, ?_, i4, ?_⟩
    · intro j
      rw [i3 j]
      by_cases hj : j = up + 1
      · subst hj; simp only [if_true]; exact hA
      · simp only [if_neg hj]
    · intro b hbv hb
      have hbn : b < nblocks (L (up + 1)).length (bsOf (up + 1)) := lt_nblocks _ _ _ (hbs _) hbv
      have hpv : b * 0x20 / bsOf up * bsOf up < (L up).length := by
        have := Nat.div_mul_le_self (b * 0x20) (bsOf up)
        have : (b + 1) * 0x20 ≤ nblocks (L (up + 1)).length (bsOf (up + 1)) * 0x20 := Nat.mul_le_mul_right _ (by omega)
        omega
      by_cases ht : touched offset data.length (bsOf (up + 1)) b
      · have ht' : sb ≤ b ∧ b ≤ eb := by unfold touched at ht; rw [hsb, heb] at ht; exact ht
        have hp := i5 (b * 0x20 / bsOf up) (by simp only [show ¬ (up = up + 1) by omega, if_false]; exact hpv)
          (Or.inl (by rw [hHF]; exact parent_touched sb eb b (bsOf up) (hbs up) ht'.1 ht'.2))
        have hslot : slice (L' up) (b * 0x20) 0x20 = H (padBlock bsOf L' (up + 1) b) := by
          rw [i2, slice_overlay_inside _ _ _ _ _ (Nat.mul_le_mul_right _ ht'.1) (by rw [hHF]; omega)]
          rw [show b * 0x20 - sb * 0x20 = (b - sb) * 0x20 by rw [Nat.sub_mul]]
          rw [flatten_hash_slice _ hhl (b - sb) _ (blockHashes_getElem? _ _ _ _ _ _ (by omega))]
          simp only [padBlock, hLup1]
          rw [show sb + (b - sb) = b by omega]
        apply chain_intro H bsOf master' L' up b hp hslot
        rw [hslot]
        intro hc; exact hnz ⟨_, hc⟩
      · rcases hb with hb | hb
        · exact absurd hb ht
        · obtain ⟨hu, hs⟩ := chain_step H bsOf master L up b hb
          have hz := chain_slot_ne H bsOf master L up b hb
          have hu1 : chainOK H bsOf master (fun j => if j = up + 1 then overlay (L (up + 1)) offset data else L j) up (b * 0x20 / bsOf up) :=
            chain_congr H bsOf master L _ up _ (fun j hj => by simp only [show ¬ (j = up + 1) by omega, if_false]) hu
          have hp := i5 (b * 0x20 / bsOf up) (by simp only [show ¬ (up = up + 1) by omega, if_false]; exact hpv) (Or.inr hu1)
          have ht' : ¬ (sb ≤ b ∧ b ≤ eb) := by unfold touched at ht; rw [hsb, heb] at ht; exact ht
          have hslot_eq : slice (L' up) (b * 0x20) 0x20 = slice (L up) (b * 0x20) 0x20 := by
            rw [i2, slice_overlay_disjoint' _ _ _ _ _ (by
              rw [hHF]
              by_cases hlt : b < sb
              · left
                have : (b + 1) * 0x20 ≤ sb * 0x20 := Nat.mul_le_mul_right _ (by omega)
                omega
              · right
                have : sb * 0x20 + (eb + 1 - sb) * 0x20 = (eb + 1) * 0x20 := by rw [← Nat.add_mul]; congr 1; omega
                have : (eb + 1) * 0x20 ≤ b * 0x20 := Nat.mul_le_mul_right _ (by omega)
                omega) (by rw [hHF]; exact hfit)]
          have hpad := padBlock_untouched bsOf L L' (up + 1) offset data b (hbs _) hlen hLup1 hin ht
          apply chain_intro H bsOf master' L' up b hp
          · rw [hslot_eq, hpad]; exact hs
          · rw [hslot_eq]; exact hz

/-- … and at every level at or above the written one, a chain that was intact stays intact -/
theorem absWrite_chain_all (hbs : ∀ i, 0 < bsOf i) (hH : ∀ x, (H x).length = 0x20) (hnz : ¬ ZeroHash H) :
    ∀ (idx offset : Nat) (data : Bytes) (L : Nat → Bytes) (master : List Bytes) (L' : Nat → Bytes) (master' : List Bytes),
      0 < data.length → offset + data.length ≤ (L idx).length →
      (∀ i, i < idx → nblocks (L (i + 1)).length (bsOf (i + 1)) * 0x20 ≤ (L i).length) →
      absWrite H bsOf idx offset data (L, master) = .ok (L', master') →
      ∀ lvl, lvl ≤ idx → ∀ b, b * bsOf lvl < (L lvl).length → chainOK H bsOf master L lvl b → chainOK H bsOf master' L' lvl b := by
  intro idx
  induction idx with
  | zero =>
    intro offset data L master L' master' hlen hin hgeo h lvl hl b hb hc
    have : lvl = 0 := by omega
    subst this
    exact (absWrite_chain H bsOf hbs hH hnz 0 offset data L master L' master' hlen hin hgeo h).2.2.2.2 b hb (Or.inr hc)
  | succ up ih =>
    intro offset data L master L' master' hlen hin hgeo h lvl hl b hb hc
    by_cases htop : lvl = up + 1
    · subst htop
      exact (absWrite_chain H bsOf hbs hH hnz (up + 1) offset data L master L' master' hlen hin hgeo h).2.2.2.2 b hb (Or.inr hc)
    · have hlu : lvl ≤ up := by omega
      unfold absWrite at h
      simp only at h
      rw [absLevelWrite_in _ _ _ hin] at h
      generalize hsb : offset / bsOf (up + 1) = sb at h
      generalize heb : max ((offset + data.length + bsOf (up + 1) - 1) / bsOf (up + 1) - 1) sb = eb at h
      obtain ⟨r1, r2, r3, r4⟩ := touched_range offset data.length (bsOf (up + 1)) (hbs _) hlen
      rw [hsb] at r1 r2 r3 r4
      rw [heb] at r1 r3 r4
      have hhl : ∀ x, x ∈ blockHashes H (overlay (L (up + 1)) offset data) (bsOf (up + 1)) sb (eb + 1 - sb) → x.length = 0x20 := by
        intro x hx
        simp only [blockHashes, List.mem_map] at hx
        obtain ⟨i, _, hi⟩ := hx
        rw [← hi]; exact hH _
      have hHF := flatten_hash_length _ hhl
      rw [blockHashes_length] at hHF
      have hebn : eb < nblocks (L (up + 1)).length (bsOf (up + 1)) := lt_nblocks _ _ _ (hbs _) (by omega)
      have hgeo_up := hgeo up (by omega)
      have hfit : sb * 0x20 + (eb + 1 - sb) * 0x20 ≤ (L up).length := by
        have : sb * 0x20 + (eb + 1 - sb) * 0x20 = (eb + 1) * 0x20 := by rw [← Nat.add_mul]; congr 1; omega
        have : (eb + 1) * 0x20 ≤ nblocks (L (up + 1)).length (bsOf (up + 1)) * 0x20 := Nat.mul_le_mul_right _ (by omega)
        omega
      have hc1 : chainOK H bsOf master (fun j => if j = up + 1 then overlay (L (up + 1)) offset data else L j) lvl b :=
        chain_congr H bsOf master L _ lvl b (fun j hj => by simp only [show ¬ (j = up + 1) by omega, if_false]) hc
      exact ih (sb * 0x20) _ _ master L' master' (by rw [hHF]; omega)
        (by simp only [show ¬ (up = up + 1) by omega, if_false]; rw [hHF]; exact hfit)
        (by
          intro i hi
          simp only [show ¬ (i + 1 = up + 1) by omega, show ¬ (i = up + 1) by omega, if_false]
          exact hgeo i (by omega)) h lvl hlu b
        (by simp only [show ¬ (lvl = up + 1) by omega, if_false]; exact hb) hc1

theorem nblocks_valid (size bs b : Nat) (hbs : 0 < bs) (h : b < nblocks size bs) : b * bs < size := by
  by_cases hs : size = 0
  · unfold nblocks at h; rw [hs, Nat.zero_add, Nat.div_eq_of_lt (by omega)] at h; omega
  obtain ⟨e, k, hk0, hkb, hT, hceil⟩ := ceil_div_spec size bs hbs (by omega)
  unfold nblocks at h; rw [hceil] at h
  have : b * bs ≤ e * bs := Nat.mul_le_mul_right _ (by omega)
  omega

/-- when every block's chain is intact the verified view is the level itself -/
theorem verifiedView_all_ok (master : List Bytes) (L : Nat → Bytes) (hbs : 0 < bsOf 3)
    (h : ∀ b, b * bsOf 3 < (L 3).length → chainOK H bsOf master L 3 b) : verifiedView H L bsOf master = L 3 := by
  unfold verifiedView
  have hmap : (List.range (nblocks (L 3).length (bsOf 3))).flatMap (verifiedBlock H L bsOf master) =
      ((List.range (nblocks (L 3).length (bsOf 3))).map fun i => slice (L 3) ((0 + i) * bsOf 3) (bsOf 3)).flatten := by
    rw [List.flatMap_def]
    congr 1
    apply List.map_congr_left
    intro b hb
    rw [List.mem_range] at hb
    have hv := h b (nblocks_valid _ _ _ hbs hb)
    unfold chainOK at hv
    unfold verifiedBlock
    simp only [hv, Nat.zero_add]
  rw [hmap, flatten_slices, Nat.zero_mul]
  apply slice_all
  by_cases hs : (L 3).length = 0
  · omega
  obtain ⟨e, k, hk0, hkb, hT, hceil⟩ := ceil_div_spec (L 3).length (bsOf 3) hbs (by omega)
  unfold nblocks; rw [hceil, Nat.succ_mul]; omega

/-- a fully verifying tree stays fully verifying, and its verified view is the old view with the data laid over it -/
theorem absWrite_view (hbs : ∀ i, 0 < bsOf i) (hH : ∀ x, (H x).length = 0x20) (hnz : ¬ ZeroHash H)
    (offset : Nat) (data : Bytes) (L : Nat → Bytes) (master : List Bytes) (L' : Nat → Bytes) (master' : List Bytes)
    (hlen : 0 < data.length) (hin : offset + data.length ≤ (L 3).length)
    (hgeo : ∀ i, i < 3 → nblocks (L (i + 1)).length (bsOf (i + 1)) * 0x20 ≤ (L i).length)
    (hall : ∀ b, b * bsOf 3 < (L 3).length → chainOK H bsOf master L 3 b)
    (h : absWrite H bsOf 3 offset data (L, master) = .ok (L', master')) :
    (∀ b, b * bsOf 3 < (L' 3).length → chainOK H bsOf master' L' 3 b) ∧
      verifiedView H L' bsOf master' = overlay (verifiedView H L bsOf master) offset data := by
  obtain ⟨_, h2, h3, _, h5⟩ := absWrite_chain H bsOf hbs hH hnz 3 offset data L master L' master' hlen hin hgeo h
  have hall' : ∀ b, b * bsOf 3 < (L' 3).length → chainOK H bsOf master' L' 3 b := by
    intro b hb
    rw [h3 3] at hb
    exact h5 b hb (Or.inr (hall b hb))
  refine ⟨hall', ?_⟩
  rw [verifiedView_all_ok H bsOf master' L' (hbs 3) hall', verifiedView_all_ok H bsOf master L (hbs 3) hall, h2]

end Save
end Pyctr
