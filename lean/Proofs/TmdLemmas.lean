import PyctrModel.Fmt.Tmd
import Proofs.BytesLemmas
import Proofs.AFileLemmas
import Proofs.ExefsProofs
namespace Pyctr

theorem slice_flatten_at (segs : List Bytes) (k : Nat) (hk : k < segs.length) :
    slice segs.flatten ((segs.take k).flatten.length) segs[k].length = segs[k] := by
  have : segs = segs.take k ++ segs[k] :: segs.drop (k + 1) := by
    rw [List.getElem_cons_drop, List.take_append_drop]
  conv => lhs; arg 1; rw [this]
  rw [List.flatten_append, List.flatten_cons]
  rw [slice_append_right' _ _ _ 0 _ (by omega), slice_append_left _ _ 0 _ (by omega)]
  exact slice_all _ _ (Nat.le_refl _)

theorem toLE_length' (n v : Nat) : (toLE n v).length = n := Exefs.toLE_length n v
theorem toBE_length (n v : Nat) : (toBE n v).length = n := by simp [toBE, toLE_length']

theorem readBE_eq_readLE_reverse (d : Bytes) : readBE d = readLE d.reverse := by
  unfold readBE
  have h : ∀ (l : Bytes) (acc : Nat), l.foldl (fun acc b => acc * 256 + b.toNat) acc = acc * 256 ^ l.length + readLE l.reverse := by
    intro l
    induction l with
    | nil => intro acc; simp [readLE]
    | cons a t ih =>
      intro acc
      simp only [List.foldl_cons, List.reverse_cons, List.length_cons]
      rw [ih]
      have hr : ∀ (r : Bytes) (x : UInt8), readLE (r ++ [x]) = readLE r + 256 ^ r.length * x.toNat := by
        intro r x
        induction r with
        | nil => simp [readLE]
        | cons b r' ihr => simp only [List.cons_append, readLE, ihr, List.length_cons, Nat.pow_succ]; rw [Nat.mul_add]; ac_rfl
      rw [hr, List.length_reverse, Nat.pow_succ]
      rw [Nat.add_mul]; ac_rfl
  rw [h d 0]; simp

theorem readBE_toBE (n v : Nat) (h : v < 256 ^ n) : readBE (toBE n v) = v := by
  rw [readBE_eq_readLE_reverse, toBE, List.reverse_reverse, Exefs.readLE_toLE n v h]

namespace Tmd

theorem packS_length (n : Nat) (b : Bytes) : (packS n b).length = n := by
  simp [packS]; omega

theorem packS_full (n : Nat) (b : Bytes) (h : b.length = n) : packS n b = b := by
  simp [packS, h, zeros, List.take_of_length_le (Nat.le_of_eq h)]

theorem packS_short (n : Nat) (b : Bytes) (h : b.length ≤ n) : packS n b = b ++ zeros (n - b.length) := by
  simp [packS, List.take_of_length_le h]

theorem rstripNul_eq (b : Bytes) : rstripNul b = Exefs.rstripNul b := rfl

end Tmd
end Pyctr
