import Proofs.Sim
import PyctrModel.Crypto.Wrappers
import Proofs.BytesLemmas
import Proofs.AFileLemmas
namespace Pyctr
variable (D : Bytes → Bytes)

theorem getD_eq (l : Bytes) (i : Nat) : l.getD i 0 = (l[i]?).getD 0 := by
  simp [List.getD_eq_getElem?_getD]

theorem plainCbc_length (iv ct : Bytes) : (plainCbc D iv ct).length = ct.length := by simp [plainCbc]

/-- decrypting an aligned window of the ciphertext, chained from the block before it (or the IV at the start),
    gives exactly that window of the whole-stream plaintext -/
theorem cbc_window (IV c : Bytes) (p0 m : Nat) (hp0 : p0 % 16 = 0) (hm : m % 16 = 0)
    (hle : p0 + m ≤ c.length) (hIV : IV.length = 16) :
    cbcDecrypt D (if p0 = 0 then IV else slice c (p0 - 16) 16) (slice c p0 m) =
      .ok (slice (plainCbc D IV c) p0 m) := by
  have hivl : (if p0 = 0 then IV else slice c (p0 - 16) 16).length = 16 := by
    split
    · exact hIV
    · rw [slice_length]; omega
  have hdl : (slice c p0 m).length = m := by rw [slice_length]; omega
  simp only [cbcDecrypt, hivl, hdl, hm, ne_eq, not_true_eq_false, if_false]
  congr 1
  apply List.ext_getElem?; intro j
  simp only [slice_getElem?, plainCbc]
  by_cases hj : j < m
  · have hjl : p0 + j < c.length := by omega
    rw [List.getElem?_map, List.getElem?_range hj, List.getElem?_map, List.getElem?_range hjl]
    simp only [hj, if_true, Option.map_some, Option.some.injEq]
    have e1 : (p0 + j) / 16 * 16 = p0 + j / 16 * 16 := by omega
    have e2 : (p0 + j) % 16 = j % 16 := by omega
    rw [e1, e2, slice_slice _ _ _ _ _ (by omega)]
    congr 1
    by_cases h16 : j < 16
    · by_cases hz : p0 = 0
      · subst hz; simp [h16]
      · have : ¬ (p0 + j < 16) := by omega
        simp only [h16, if_true, hz, if_false, this, getD_eq, slice_getElem?]
        congr 2; omega
    · have : ¬ (p0 + j < 16) := by omega
      simp only [h16, this, if_false, getD_eq, slice_getElem?, show j - 16 < m by omega, if_true]
      congr 2; omega
  · rw [List.getElem?_eq_none (by simp; omega)]; simp [hj]

end Pyctr

namespace Pyctr
variable (D : Bytes → Bytes)

theorem ops_tell (a : AFile) : AFile.ops.tell a = .ok (a.pos, a) := rfl
theorem ops_read (a : AFile) (n : Int) :
    AFile.ops.read a n = .ok (slice a.content a.pos (a.readLen n), { a with pos := a.pos + a.readLen n }) := rfl
theorem ops_seek_rel (a : AFile) (off : Int) :
    AFile.ops.seek a off 1 = .ok (((a.pos : Int) + off).toNat, { a with pos := ((a.pos : Int) + off).toNat }) := by
  simp [AFile.ops, AFile.seek]
theorem ops_seek_zero (a : AFile) : AFile.ops.seek a 0 0 = .ok (0, { a with pos := 0 }) := by
  simp [AFile.ops, AFile.seek]

theorem readLen_nat (a : AFile) (k : Nat) : a.readLen (k : Int) = min k (a.content.length - a.pos) := by
  rw [AFile.readLen_eq]
  have : ¬ ((k : Int) < 0) := by omega
  simp only [this, if_false, Int.toNat_natCast]


theorem AFile.readLen_le'' (f : AFile) (n : Int) : f.readLen n ≤ f.content.length - f.pos := by
  rw [AFile.readLen_eq]; split <;> omega

theorem pySlice_nat (l : Bytes) (b k : Nat) (h : b + k ≤ l.length) :
    pySlice l (b : Int) ((k : Int) + b) = slice l b k := by
  simp only [pySlice, pyIdx]
  have h1 : ¬ ((b : Int) < 0) := by omega
  have h2 : ¬ ((k : Int) + b < 0) := by omega
  simp only [h1, h2, if_false, Int.toNat_natCast]
  have e1 : min b l.length = b := by omega
  have e2 : min ((k : Int) + b).toNat l.length = k + b := by omega
  rw [e1, e2]; congr 1; omega

theorem cbcDecrypt_nil (iv : Bytes) (h : iv.length = 16) : cbcDecrypt D iv [] = .ok [] := by
  simp [cbcDecrypt, h]

/-- the common tail of `CBCFileIO.read`, positioned at the aligned offset `p0` with the chaining block in hand -/
theorem body_pure (s : CbcIO AFile) (IV : Bytes) (n : Int) (a0 : AFile) (offset : Nat)
    (hp : a0.pos = offset - offset % 16) (hL : a0.content.length % 16 = 0) (hIV : IV.length = 16)
    (hp0 : offset - offset % 16 ≤ a0.content.length) :
    CbcIO.read.body AFile.ops D s n a0 offset (offset % 16)
        (if offset - offset % 16 = 0 then IV else slice a0.content (offset - offset % 16 - 16) 16) =
      .ok (slice (plainCbc D IV a0.content) offset (({ a0 with pos := offset } : AFile).readLen n),
           { s with reader := { a0 with pos := offset + ({ a0 with pos := offset } : AFile).readLen n } }) := by
  generalize hp0' : offset - offset % 16 = q at *
  generalize hbdef : offset % 16 = b at *
  have hb : b < 16 := by rw [← hbdef]; exact Nat.mod_lt _ (by omega)
  have hp016 : q % 16 = 0 := by omega
  have hoff : offset = q + b := by omega
  generalize hk : ({ a0 with pos := offset } : AFile).readLen n = k
  have hkle : k ≤ a0.content.length - offset := by
    rw [← hk]; rw [AFile.readLen_eq]; simp only; split <;> omega
  obtain ⟨c, p0, fx, cl⟩ := a0
  simp only at hp hL hp0 hkle hk
  subst hp
  by_cases hin : offset ≤ c.length
  · -- the position is inside the data
    have step1 : AFile.ops.read ⟨c, p0, fx, cl⟩ (b : Int) = .ok (slice c p0 b, ⟨c, p0 + b, fx, cl⟩) := by
      rw [ops_read, readLen_nat]; simp only
      have : min b (c.length - p0) = b := by omega
      rw [this]
    have step2 : AFile.ops.read ⟨c, p0 + b, fx, cl⟩ n = .ok (slice c offset k, ⟨c, offset + k, fx, cl⟩) := by
      rw [ops_read]; simp only; rw [← hoff, hk]
    have hl1 : (slice c p0 b).length = b := by rw [slice_length]; omega
    have hl2 : (slice c offset k).length = k := by rw [slice_length]; omega
    generalize hka : (16 - (b + k) % 16) % 16 = ka
    have step3 : (if (b + k) % 16 ≠ 0 then AFile.ops.read ⟨c, offset + k, fx, cl⟩ (16 - (((b + k) % 16 : Nat) : Int))
          else .ok ([], ⟨c, offset + k, fx, cl⟩)) = .ok (slice c (offset + k) ka, ⟨c, offset + k + ka, fx, cl⟩) := by
      by_cases hz : (b + k) % 16 = 0
      · have : ka = 0 := by omega
        subst this; simp [hz, slice]
      · simp only [ne_eq, hz, not_false_eq_true, if_true]
        have e : (16 : Int) - (((b + k) % 16 : Nat) : Int) = ((16 - (b + k) % 16 : Nat) : Int) := by omega
        rw [e, ops_read, readLen_nat]; simp only
        have : min (16 - (b + k) % 16) (c.length - (offset + k)) = ka := by omega
        rw [this]
    have hm : (b + k + ka) % 16 = 0 := by omega
    have hmle : p0 + (b + k + ka) ≤ c.length := by omega
    have hdata : slice c p0 b ++ slice c offset k ++ slice c (offset + k) ka = slice c p0 (b + k + ka) := by
      rw [hoff, slice_append_slice, Nat.add_assoc p0 b k, slice_append_slice]
    have hdec := cbc_window D IV c p0 (b + k + ka) hp016 hm hmle hIV
    unfold CbcIO.read.body
    simp only [step1, step2, bind, Except.bind, hl1, hl2, step3, ops_tell, ops_seek_rel, hdata, hdec]
    congr 2
    · rw [pySlice_nat _ _ _ (by rw [slice_length, plainCbc_length]; omega),
        slice_slice _ _ _ _ _ (by omega), ← hoff]
    · congr 2; omega
  · -- past the end: the aligned offset is the end of the data, nothing is read
    have hp0L : p0 = c.length := by omega
    have hk0 : k = 0 := by omega
    subst hk0
    have step1 : AFile.ops.read ⟨c, p0, fx, cl⟩ (b : Int) = .ok ([], ⟨c, p0, fx, cl⟩) := by
      rw [ops_read, readLen_nat]; simp only
      have : min b (c.length - p0) = 0 := by omega
      rw [this]; simp [slice]
    have step2 : AFile.ops.read ⟨c, p0, fx, cl⟩ n = .ok ([], ⟨c, p0, fx, cl⟩) := by
      rw [ops_read]; simp only
      have : (⟨c, p0, fx, cl⟩ : AFile).readLen n = 0 := by
        have := AFile.readLen_le'' (⟨c, p0, fx, cl⟩ : AFile) n; simp only at this; omega
      rw [this]; simp [slice]
    have hivl : (if p0 = 0 then IV else slice c (p0 - 16) 16).length = 16 := by
      split
      · exact hIV
      · rw [slice_length]; omega
    unfold CbcIO.read.body
    simp only [step1, step2, bind, Except.bind, List.length_nil, Nat.add_zero, Nat.zero_mod, ne_eq,
      not_true_eq_false, if_false, ops_tell, ops_seek_rel, List.append_nil, cbcDecrypt_nil D _ hivl]
    congr 2
    · simp [pySlice, slice]
    · congr 2; omega


/-- **C02 on the specification level**: `CBCFileIO.read` over an ordinary file returns the slice of the whole-stream
    CBC plaintext at the current position and advances by the number of bytes returned — for every position
    (inside a block, at the end, past the end) and every size. -/
theorem cbc_read_pure (s : CbcIO AFile) (n : Int) (hL : s.reader.content.length % 16 = 0) (hIV : s.iv.length = 16) :
    CbcIO.read AFile.ops D s n =
      .ok (slice (plainCbc D s.iv s.reader.content) s.reader.pos (s.reader.readLen n),
           { s with reader := { s.reader with pos := s.reader.pos + s.reader.readLen n } }) := by
  obtain ⟨⟨c, pos, fx, cl⟩, iv⟩ := s
  simp only at hL hIV ⊢
  have hb : pos % 16 < 16 := Nat.mod_lt _ (by omega)
  unfold CbcIO.read
  simp only [ops_tell, bind, Except.bind]
  by_cases h0 : pos - pos % 16 = 0
  · simp only [h0, if_true, ops_seek_zero]
    have := body_pure D ⟨⟨c, pos, fx, cl⟩, iv⟩ iv n ⟨c, 0, fx, cl⟩ pos (by simp only; omega) hL hIV (by simp only; omega)
    rw [if_pos h0] at this
    exact this
  · simp only [h0, if_false, ops_seek_rel]
    have hq : ((pos : Int) + (-16 - ((pos % 16 : Nat) : Int))).toNat = pos - pos % 16 - 16 := by omega
    have hr16 : ∀ a : AFile, a.readLen 16 = min 16 (a.content.length - a.pos) := fun a => by
      have := readLen_nat a 16; simpa using this
    simp only [hq, ops_read, hr16]
    by_cases hfull : pos - pos % 16 - 16 + 16 ≤ c.length
    · have hm : min 16 (c.length - (pos - pos % 16 - 16)) = 16 := by omega
      simp only [hm, slice_length, ne_eq, not_true_eq_false, if_false]
      have hpp : pos - pos % 16 - 16 + 16 = pos - pos % 16 := by omega
      have := body_pure D ⟨⟨c, pos, fx, cl⟩, iv⟩ iv n ⟨c, pos - pos % 16, fx, cl⟩ pos rfl hL hIV (by simp only; omega)
      rw [if_neg h0] at this
      simp only [hpp]
      exact this
    · have hm : min 16 (c.length - (pos - pos % 16 - 16)) = 0 := by omega
      have hz : ¬ ((0 : Nat) = 16) := by omega
      simp only [hm, slice_length, Nat.zero_min, ne_eq, hz, not_false_eq_true, if_true, ops_tell, ops_seek_rel,
        Nat.add_zero]
      have hr : (⟨c, pos, fx, cl⟩ : AFile).readLen n = 0 := by
        have := AFile.readLen_le'' (⟨c, pos, fx, cl⟩ : AFile) n; simp only at this; omega
      rw [hr]
      simp only [slice, List.take_zero, Nat.add_zero]
      congr 4
      omega

end Pyctr

namespace Pyctr
namespace CbcIO
variable {σ : Type} {F : FileOps σ} {inv : σ → Prop} {abs : σ → AFile} (D : Bytes → Bytes)

def CbcRel (inv : σ → Prop) (abs : σ → AFile) (v : Bytes × CbcIO σ) (v' : Bytes × CbcIO AFile) : Prop :=
  v.1 = v'.1 ∧ inv v.2.reader ∧ abs v.2.reader = v'.2.reader ∧ v.2.iv = v'.2.iv

theorem body_sim (hF : IsReadable F inv abs) (s : CbcIO σ) (s2 : CbcIO AFile) (hiv : s.iv = s2.iv) (n : Int)
    (r : σ) (a : AFile) (hr : inv r) (ha : abs r = a) (offset before : Nat) (iv : Bytes) :
    SimG (CbcRel inv abs) (CbcIO.read.body F D s n r offset before iv)
      (CbcIO.read.body AFile.ops D s2 n a offset before iv) := by
  unfold CbcIO.read.body
  apply simG_bind (sim_read hF r a hr ha _)
  rintro ⟨db, r3⟩ ⟨db', a3⟩ ⟨h1, h2, h3⟩
  simp only at h1 h2 h3; subst h1
  dsimp only
  apply simG_bind (sim_read hF r3 a3 h2 h3 _)
  rintro ⟨dr, r4⟩ ⟨dr', a4⟩ ⟨h1, h2, h3⟩
  simp only at h1 h2 h3; subst h1
  dsimp only
  apply simG_bind (Q1 := OpRel inv abs)
  · by_cases hc : (db.length + dr.length) % 16 ≠ 0
    · rw [if_pos hc, if_pos hc]; exact sim_read hF r4 a4 h2 h3 _
    · rw [if_neg hc, if_neg hc]; exact simG_pure ⟨rfl, h2, h3⟩
  rintro ⟨da, r5⟩ ⟨da', a5⟩ ⟨h1, h2, h3⟩
  simp only at h1 h2 h3; subst h1
  dsimp only
  apply simG_bind (sim_tell hF r5 a5 h2 h3)
  rintro ⟨cur, r6⟩ ⟨cur', a6⟩ ⟨h1, h2, h3⟩
  simp only at h1 h2 h3; subst h1
  dsimp only
  apply simG_bind (sim_seek hF r6 a6 h2 h3 _ _)
  rintro ⟨p, r7⟩ ⟨p', a7⟩ ⟨h1, h2, h3⟩
  simp only at h1 h2 h3; subst h1
  dsimp only
  cases hd : cbcDecrypt D iv (db ++ dr ++ da) with
  | error e => simp only [bind, Except.bind]; exact simG_error e
  | ok plain => simp only [bind, Except.bind]; exact simG_pure ⟨rfl, h2, h3, hiv⟩

theorem read_sim (hF : IsReadable F inv abs) (s : CbcIO σ) (n : Int) (hr : inv s.reader) :
    SimG (CbcRel inv abs) (CbcIO.read F D s n) (CbcIO.read AFile.ops D ⟨abs s.reader, s.iv⟩ n) := by
  unfold CbcIO.read
  apply simG_bind (sim_tell hF s.reader _ hr rfl)
  rintro ⟨offset, r0⟩ ⟨offset', a0⟩ ⟨h1, h2, h3⟩
  simp only at h1 h2 h3; subst h1
  dsimp only
  by_cases h0 : offset - offset % 16 = 0
  · rw [if_pos h0, if_pos h0]
    apply simG_bind (sim_seek hF r0 a0 h2 h3 _ _)
    rintro ⟨p, r1⟩ ⟨p', a1⟩ ⟨h1, h2, h3⟩
    simp only at h1 h2 h3
    dsimp only
    exact body_sim D hF s _ rfl n r1 a1 h2 h3 _ _ _
  · rw [if_neg h0, if_neg h0]
    apply simG_bind (sim_seek hF r0 a0 h2 h3 _ _)
    rintro ⟨p, r1⟩ ⟨p', a1⟩ ⟨h1, h2, h3⟩
    simp only at h1 h2 h3
    dsimp only
    apply simG_bind (sim_read hF r1 a1 h2 h3 _)
    rintro ⟨iv, r2⟩ ⟨iv', a2⟩ ⟨h1, h2, h3⟩
    simp only at h1 h2 h3; subst h1
    dsimp only
    by_cases hl : iv.length ≠ 16
    · rw [if_pos hl, if_pos hl]
      apply simG_bind (sim_tell hF r2 a2 h2 h3)
      rintro ⟨cur, r3⟩ ⟨cur', a3⟩ ⟨h1, h2, h3⟩
      simp only at h1 h2 h3; subst h1
      dsimp only
      apply simG_bind (sim_seek hF r3 a3 h2 h3 _ _)
      rintro ⟨p2, r4⟩ ⟨p2', a4⟩ ⟨h1, h2, h3⟩
      simp only at h1 h2 h3
      exact simG_pure ⟨rfl, h2, h3, rfl⟩
    · rw [if_neg hl, if_neg hl]
      exact body_sim D hF s _ rfl n r2 a2 h2 h3 _ _ _

end CbcIO
end Pyctr


namespace Pyctr
namespace CbcIO
variable {σ : Type} {F : FileOps σ} {inv : σ → Prop} {abs : σ → AFile} (D : Bytes → Bytes)

def invCbc (inv : σ → Prop) (abs : σ → AFile) (s : CbcIO σ) : Prop :=
  inv s.reader ∧ (abs s.reader).content.length % 16 = 0 ∧ s.iv.length = 16

def absCbc (abs : σ → AFile) (s : CbcIO σ) : AFile :=
  { abs s.reader with content := plainCbc D s.iv (abs s.reader).content }

theorem absCbc_readLen (s : CbcIO σ) (n : Int) : (absCbc D abs s).readLen n = (abs s.reader).readLen n := by
  rw [AFile.readLen_eq, AFile.readLen_eq]; simp [absCbc, plainCbc_length]

/-- a read returns the slice of the whole-stream plaintext, advances by what it returned,
    and leaves the underlying file's content untouched -/
theorem read_refines (hF : IsReadable F inv abs) (s : CbcIO σ) (n : Int) (h : invCbc inv abs s) :
    ∃ s', CbcIO.read F D s n = .ok (((absCbc D abs s).read n).1, s') ∧
      absCbc D abs s' = ((absCbc D abs s).read n).2 ∧ invCbc inv abs s' ∧
      (abs s'.reader).content = (abs s.reader).content := by
  have hsim := read_sim D hF s n h.1
  rw [cbc_read_pure D ⟨abs s.reader, s.iv⟩ n h.2.1 h.2.2] at hsim
  obtain ⟨⟨b, s'⟩, e, h1, h2, h3, h4⟩ := hsim
  simp only at h1 h2 h3 h4
  refine ⟨s', ?_, ?_, ⟨h2, by rw [h3]; exact h.2.1, by rw [h4]; exact h.2.2⟩, by rw [h3]⟩
  · rw [e, h1, AFile.read_fst, absCbc_readLen]; rfl
  · apply AFile.ext'
    · simp only [absCbc, h3, h4, AFile.read_snd_content]
    · rw [AFile.read_snd_pos, absCbc_readLen]; simp only [absCbc, h3]
    · simp only [absCbc, h3, AFile.read_snd_fixed]
    · simp only [absCbc, h3, AFile.read_snd_clamp]

theorem absCbc_seek (s : CbcIO σ) (off wh : Int) :
    (absCbc D abs s).seek off wh =
      ((abs s.reader).seek off wh).map fun (p, a) => (p, { a with content := plainCbc D s.iv a.content }) := by
  simp only [AFile.seek, absCbc, AFile.size, plainCbc_length]
  by_cases h0 : wh = 0
  · subst h0
    by_cases ho : off < 0 <;> simp [ho, Except.map]
  · by_cases h1 : wh = 1
    · subst h1; simp [Except.map]
    · by_cases h2 : wh = 2
      · subst h2; simp [Except.map]
      · simp [h0, h1, h2, Except.map]

theorem seek_content (a : AFile) (off wh : Int) (p : Nat) (a' : AFile) (h : a.seek off wh = .ok (p, a')) :
    a'.content = a.content := by
  simp only [AFile.seek] at h
  split at h
  · split at h
    · cases h
    · cases h; rfl
  · split at h
    · cases h; rfl
    · split at h
      · cases h; rfl
      · cases h

theorem cbc_isReadable (hF : IsReadable F inv abs) :
    IsReadable (CbcIO.ops F D) (invCbc inv abs) (absCbc D abs) where
  read s n h := by
    obtain ⟨s', a, b, c, _⟩ := read_refines D hF s n h; exact ⟨s', a, b, c⟩
  seek_err s off wh e h he := by
    rw [absCbc_seek] at he
    cases hs : (abs s.reader).seek off wh with
    | error e' =>
      rw [hs] at he; simp only [Except.map] at he; cases he
      simp only [CbcIO.ops, CbcIO.seek, hF.seek_err _ _ _ _ h.1 hs, bind, Except.bind]
    | ok v => rw [hs] at he; simp [Except.map] at he
  seek_ok s off wh p a' h he := by
    rw [absCbc_seek] at he
    cases hs : (abs s.reader).seek off wh with
    | error e' => rw [hs] at he; simp [Except.map] at he
    | ok v =>
      obtain ⟨p', a⟩ := v
      rw [hs] at he; simp only [Except.map, Except.ok.injEq, Prod.mk.injEq] at he
      obtain ⟨rfl, rfl⟩ := he
      obtain ⟨r, er, ar, vr⟩ := hF.seek_ok _ _ _ _ _ h.1 hs
      have hc := seek_content _ _ _ _ _ hs
      refine ⟨{ s with reader := r }, ?_, ?_, vr, ?_, h.2.2⟩
      · simp only [CbcIO.ops, CbcIO.seek, er, bind, Except.bind]
      · simp only [absCbc, ar]
      · rw [ar, hc]; exact h.2.1
  tell s h := by
    obtain ⟨r, er, ar, vr⟩ := hF.tell s.reader h.1
    refine ⟨{ s with reader := r }, ?_, ?_, vr, ?_, h.2.2⟩
    · simp only [CbcIO.ops, CbcIO.tell, er, bind, Except.bind, absCbc]
    · simp only [absCbc, ar]
    · rw [ar]; exact h.2.1

/-- **C02.** `CBCFileIO` over anything that reads like a file whose length is a multiple of 16 reads like the
    whole-stream CBC plaintext, and never writes. -/
theorem cbc_isReadOnly (hF : IsReadable F inv abs) :
    IsReadOnly (CbcIO.ops F D) (invCbc inv abs) (absCbc D abs) where
  toIsReadable := cbc_isReadable D hF
  write _ _ _ := Or.inl ⟨_, rfl⟩

end CbcIO
end Pyctr
