import PyctrModel.IO.Merger
import Proofs.BytesLemmas
import Proofs.AFileLemmas
namespace Pyctr
variable {σ : Type} {F : FileOps σ} {inv : σ → Prop} {abs : σ → AFile}

theorem seek01 (a : AFile) : a.seek 0 1 = .ok (a.pos, a) := by
  simp [AFile.seek]

/-- **C09 (CloseWrapper).**  Pure delegation: whatever the wrapped object refines, the wrapper refines too
    (`tell` is `RawIOBase.tell`, i.e. `seek(0, 1)` on the wrapped object). -/
theorem closeWrapper_isReadable (hF : IsReadable F inv abs) : IsReadable (closeWrapperOps F) inv abs where
  read := hF.read
  seek_err := hF.seek_err
  seek_ok := hF.seek_ok
  tell s h := by
    obtain ⟨s', e, a, v⟩ := hF.seek_ok s 0 1 _ _ h (seek01 (abs s))
    exact ⟨s', e, a, v⟩

theorem closeWrapper_isFile (hF : IsFile F inv abs) : IsFile (closeWrapperOps F) inv abs where
  toIsReadable := closeWrapper_isReadable hF.toIsReadable
  write := hF.write

namespace OpenFile

def absO (f : OpenFile) : AFile := ⟨f.data, f.seek, true, true⟩

theorem pySlice_range (d : Bytes) (a : Nat) (b : Int) (hb : 0 ≤ b) :
    pySlice d (a : Int) b = slice d (min a d.length) (min b.toNat d.length - min a d.length) := by
  simp only [pySlice, pyIdx]
  have h1 : ¬ ((a : Int) < 0) := by omega
  have h2 : ¬ (b < 0) := by omega
  simp only [h1, h2, if_false, Int.toNat_natCast]

/-- `get_data` + `_ReaderOpenFileBase.read`: the slice of the data at the current position -/
theorem read_eq (f : OpenFile) (n : Int) :
    f.read n = (slice f.data f.seek ((absO f).readLen n), { f with seek := f.seek + (absO f).readLen n }) := by
  have hk : (absO f).readLen n = if n < 0 then f.data.length - f.seek else min n.toNat (f.data.length - f.seek) := rfl
  generalize hkk : (absO f).readLen n = k at *
  -- the size passed to get_data, then clamped by it
  generalize hs1 : (if n < 0 then max ((f.data.length : Int) - f.seek) 0 else n) = s1
  have hs1nn : 0 ≤ s1 := by rw [← hs1]; split <;> omega
  generalize hs2 : (if (f.seek : Int) + s1 > f.data.length then (f.data.length : Int) - f.seek else s1) = s2
  have hd : getData f.data f.seek s1 = slice f.data f.seek k := by
    simp only [getData, hs2]
    by_cases hpast : f.seek ≤ f.data.length
    · have hs2nn : 0 ≤ (f.seek : Int) + s2 := by rw [← hs2]; split <;> omega
      rw [pySlice_range _ _ _ hs2nn]
      have e1 : min f.seek f.data.length = f.seek := by omega
      have e2 : min ((f.seek : Int) + s2).toNat f.data.length - f.seek = k := by
        rw [hk, ← hs2, ← hs1]; split <;> split <;> omega
      rw [e1, e2]
    · -- positioned past the end: nothing
      have hk0 : k = 0 := by rw [hk]; split <;> omega
      subst hk0
      have : (f.seek : Int) + s2 = f.data.length := by rw [← hs2]; split <;> omega
      rw [this, pySlice_range _ _ _ (by omega)]
      simp [slice]; omega
  simp only [OpenFile.read, hs1, hd]
  have hl : (slice f.data f.seek k).length = k := by
    rw [slice_length, hk]; split <;> omega
  rw [hl]

/-- **C09 (reader open files).**  Every read (any integer size) returns the slice of the data at the current
    position, clipped at the end, and advances by the number of bytes returned … -/
theorem openFile_read (f : OpenFile) (n : Int) :
    OpenFile.ops.read f n = .ok (((absO f).read n).1, (f.read n).2) ∧ absO (f.read n).2 = ((absO f).read n).2 := by
  constructor
  · simp only [OpenFile.ops]; rw [read_eq]; rfl
  · rw [read_eq]; exact AFile.ext' rfl rfl rfl rfl

/-- … and seeks with whence 0/1/2 are those of a fixed-size file (other whence values are silently ignored by the
    code, where an ordinary file raises; they are outside the property's quantifier) -/
theorem openFile_seek (f : OpenFile) (off wh : Int) (hwh : wh = 0 ∨ wh = 1 ∨ wh = 2) :
    (match OpenFile.seekOp f off wh with
     | .error e => (absO f).seek off wh = .error e
     | .ok (p, f') => (absO f).seek off wh = .ok (p, absO f')) := by
  simp only [absO, AFile.seek, OpenFile.seekOp, AFile.size]
  rcases hwh with rfl | rfl | rfl
  · by_cases ho : off < 0 <;> simp [ho]
  · simp
  · simp

end OpenFile
end Pyctr
