/-
  C17 (B): the verification caches never change an answer (`getBlockG_sound`), and the verified level-4 reader returns
  slices of the verified view after any history (`lv4ReadG_spec`).
-/
import Proofs.SaveDpfs
namespace Pyctr
namespace Save
variable (H : Bytes → Bytes) (rd : Nat → Nat → Nat → Except Err Bytes) (bsOf : Nat → Nat) (master : List Bytes)

theorem specValid_zero (d d' : Bool) (block : Nat) :
    specValid H rd bsOf master d 0 block = specValid H rd bsOf master d' 0 block := by
  simp only [specValid]

theorem lookup_mem (c : Caches) (deepV : Bool) (idx block : Nat) (v : Option Bool)
    (h : c.lookup deepV idx block = some v) : (block, v) ∈ c.get deepV idx := by
  unfold Caches.lookup at h
  cases hf : (c.get deepV idx).find? (·.1 == block) with
  | none => rw [hf] at h; cases h
  | some p =>
    rw [hf] at h
    have hm := List.mem_of_find?_eq_some hf
    have hp := List.find?_some hf
    simp only [Option.map_some, Option.some.injEq] at h
    simp only [beq_iff_eq] at hp
    obtain ⟨b, w⟩ := p
    simp only at h hp
    subst h; subst hp
    exact hm

/-- the update used by `put` only adds the new entry -/
theorem mem_upd (l : Cache) (block : Nat) (v : Option Bool) (x : Nat × Option Bool)
    (h : x ∈ (if l.any (·.1 == block) then l.map (fun p => if p.1 == block then (block, v) else p) else l ++ [(block, v)])) :
    x ∈ l ∨ x = (block, v) := by
  split at h
  · rw [List.mem_map] at h
    obtain ⟨p, hp, hx⟩ := h
    split at hx
    · right; exact hx.symm
    · left; rw [← hx]; exact hp
  · rw [List.mem_append] at h
    rcases h with h | h
    · left; exact h
    · right; simpa using h

theorem mem_modify_getD (l : List Cache) (i j : Nat) (f : Cache → Cache) (x : Nat × Option Bool)
    (h : x ∈ (l.modify i f).getD j []) : x ∈ l.getD j [] ∨ (i = j ∧ x ∈ f (l.getD j [])) := by
  rw [List.getD_eq_getElem?_getD, List.getElem?_modify] at h
  rw [List.getD_eq_getElem?_getD]
  by_cases hij : i = j
  · subst hij
    cases hl : l[i]? with
    | none => rw [hl] at h; simp at h
    | some old => rw [hl] at h; right; exact ⟨rfl, by simpa using h⟩
  · cases hl : l[j]? with
    | none => rw [hl] at h; simp at h
    | some old => rw [hl] at h; left; simpa [hij] using h

theorem put_get_mem (c : Caches) (deepV : Bool) (idx block : Nat) (v : Option Bool) (d' : Bool) (i' : Nat)
    (x : Nat × Option Bool) (h : x ∈ (c.put deepV idx block v).get d' i') :
    x ∈ c.get d' i' ∨ (x = (block, v) ∧ i' = idx ∧ (idx = 0 ∨ d' = deepV)) := by
  unfold Caches.put at h
  simp only at h
  by_cases h0 : idx = 0
  · rw [if_pos h0] at h
    unfold Caches.get at h ⊢
    by_cases hi : i' = 0
    · rw [if_pos hi] at h ⊢
      simp only at h
      rcases mem_upd _ _ _ _ h with h | h
      · left; exact h
      · right; exact ⟨h, by omega, Or.inl h0⟩
    · rw [if_neg hi] at h ⊢; left; exact h
  · rw [if_neg h0] at h
    cases deepV with
    | true =>
      rw [if_pos rfl] at h
      unfold Caches.get at h ⊢
      by_cases hi : i' = 0
      · rw [if_pos hi] at h ⊢; left; exact h
      · rw [if_neg hi] at h ⊢
        cases d' with
        | true =>
          simp only [if_true] at h ⊢
          rcases mem_modify_getD _ _ _ _ _ h with h | ⟨hij, h⟩
          · left; exact h
          · rcases mem_upd _ _ _ _ h with h | h
            · left; exact h
            · right; exact ⟨h, by omega, Or.inr (by simp)⟩
        | false => left; simpa using h
    | false =>
      rw [if_neg (by simp)] at h
      unfold Caches.get at h ⊢
      by_cases hi : i' = 0
      · rw [if_pos hi] at h ⊢; left; exact h
      · rw [if_neg hi] at h ⊢
        cases d' with
        | false =>
          simp only [Bool.false_eq_true, if_false] at h ⊢
          rcases mem_modify_getD _ _ _ _ _ h with h | ⟨hij, h⟩
          · left; exact h
          · rcases mem_upd _ _ _ _ h with h | h
            · left; exact h
            · right; exact ⟨h, by omega, Or.inr (by simp)⟩
        | true => left; simpa using h

theorem cacheOK_put (c : Caches) (hc : CacheOK H rd bsOf master c) (deepV : Bool) (idx block : Nat) (v : Option Bool)
    (hv : specValid H rd bsOf master deepV idx block = .ok v) :
    CacheOK H rd bsOf master (c.put deepV idx block v) := by
  intro d' i' b' v' hi hm
  rcases put_get_mem c deepV idx block v d' i' _ hm with h | ⟨hx, hi', hd⟩
  · exact hc d' i' b' v' hi h
  · cases hx
    subst hi'
    rcases hd with h0 | hd
    · subst h0; rw [specValid_zero H rd bsOf master d' deepV]; exact hv
    · subst hd; exact hv
/-- the cache never changes an answer: whatever was read before, `get_block` returns the stored block and the
    validity a fresh computation gives for that level and block, and leaves a sound cache -/
theorem getBlockG_sound (idx : Nat) : idx < 4 → ∀ (block : Nat) (deep : Bool) (c : Caches),
    CacheOK H rd bsOf master c → ∀ d v c', getBlockG H rd bsOf master idx block true deep c = .ok (d, v, c') →
    rd idx (block * bsOf idx) (bsOf idx) = .ok d ∧ specValid H rd bsOf master deep idx block = .ok v ∧
      CacheOK H rd bsOf master c' := by
  induction idx with
  | zero =>
    intro _ block deep c hc d v c' h
    rw [getBlockG] at h
    cases hr : rd 0 (block * bsOf 0) (bsOf 0) with
    | error e => rw [hr] at h; cases h
    | ok data =>
      rw [hr] at h
      simp only [Bool.not_true, Bool.false_eq_true, if_false] at h
      cases hl : c.lookup deep 0 block with
      | some w =>
        rw [hl] at h
        simp only [Except.ok.injEq, Prod.mk.injEq] at h
        obtain ⟨h1, h2, h3⟩ := h
        subst h1; subst h2; subst h3
        exact ⟨rfl, hc deep 0 block w (by omega) (lookup_mem c deep 0 block w hl), hc⟩
      | none =>
        rw [hl] at h
        cases hm : master[block]? with
        | none => rw [hm] at h; cases h
        | some mh =>
          rw [hm] at h
          simp only [Except.ok.injEq, Prod.mk.injEq] at h
          obtain ⟨h1, h2, h3⟩ := h
          subst h1; subst h2; subst h3
          have hs : specValid H rd bsOf master deep 0 block = .ok (some (mh == H (ljustZero data (bsOf 0)))) := by
            simp only [specValid, hr, hm]
          exact ⟨rfl, hs, cacheOK_put H rd bsOf master c hc deep 0 block _ hs⟩
  | succ up ih =>
    intro hlt block deep c hc d v c' h
    rw [getBlockG] at h
    cases hr : rd (up + 1) (block * bsOf (up + 1)) (bsOf (up + 1)) with
    | error e => rw [hr] at h; cases h
    | ok data =>
      rw [hr] at h
      simp only [Bool.not_true, Bool.false_eq_true, if_false] at h
      cases hl : c.lookup deep (up + 1) block with
      | some w =>
        rw [hl] at h
        simp only [Except.ok.injEq, Prod.mk.injEq] at h
        obtain ⟨h1, h2, h3⟩ := h
        subst h1; subst h2; subst h3
        exact ⟨rfl, hc deep (up + 1) block w hlt (lookup_mem c deep (up + 1) block w hl), hc⟩
      | none =>
        rw [hl] at h
        simp only at h
        -- the continuation shared by the deep and the shallow path
        have hcont : ∀ (c0 : Caches), CacheOK H rd bsOf master c0 →
            (deep = true → specValid H rd bsOf master true up (block * 0x20 / bsOf up) = .ok (some true)) →
            (match rd up (block * 0x20) 0x20 with
              | .error e => (.error e : Except Err (Bytes × Option Bool × Caches))
              | .ok expected =>
                .ok (data, (if expected == zeros 0x20 then none else some (expected == H (ljustZero data (bsOf (up + 1))))),
                  c0.put deep (up + 1) block
                    (if expected == zeros 0x20 then none else some (expected == H (ljustZero data (bsOf (up + 1))))))) =
              .ok (d, v, c') →
            data = d ∧ specValid H rd bsOf master deep (up + 1) block = .ok v ∧ CacheOK H rd bsOf master c' := by
          intro c0 hc0 hup hm
          cases hx : rd up (block * 0x20) 0x20 with
          | error e => rw [hx] at hm; cases hm
          | ok expected =>
            rw [hx] at hm
            simp only [Except.ok.injEq, Prod.mk.injEq] at hm
            obtain ⟨h1, h2, h3⟩ := hm
            have hs : specValid H rd bsOf master deep (up + 1) block = .ok v := by
              rw [specValid]
              simp only [hr, hx]
              cases deep with
              | true => rw [if_pos rfl, hup rfl]; simp only [beq_self_eq_true, if_true]; rw [h2]
              | false => simp only [Bool.false_eq_true, if_false]; rw [h2]
            refine ⟨h1, hs, ?_⟩
            rw [← h3]
            apply cacheOK_put H rd bsOf master c0 hc0
            rw [h2]; exact hs
        cases deep with
        | false =>
          simp only [Bool.false_eq_true, if_false] at h
          obtain ⟨h1, h2, h3⟩ := hcont c hc (by intro hh; cases hh) h
          subst h1
          exact ⟨rfl, h2, h3⟩
        | true =>
          simp only [if_true] at h
          cases hg : getBlockG H rd bsOf master up (block * 0x20 / bsOf up) true true c with
          | error e => rw [hg] at h; cases h
          | ok r =>
            obtain ⟨ud, uv, c1⟩ := r
            rw [hg] at h
            simp only at h
            obtain ⟨_, hsu, hc1⟩ := ih (by omega) _ true c hc ud uv c1 hg
            by_cases huv : uv = some true
            · subst huv
              simp only [beq_self_eq_true, if_true] at h
              obtain ⟨h1, h2, h3⟩ := hcont c1 hc1 (fun _ => hsu) h
              subst h1
              exact ⟨rfl, h2, h3⟩
            · have hb : (uv == some true) = false := by simpa using huv
              rw [hb] at h
              simp only [Bool.false_eq_true, if_false, Except.ok.injEq, Prod.mk.injEq] at h
              obtain ⟨h1, h2, h3⟩ := h
              subst h1; subst h2
              have hs : specValid H rd bsOf master true (up + 1) block = .ok uv := by
                rw [specValid]
                simp only [hr, hsu, if_true, hb, Bool.false_eq_true, if_false]
              refine ⟨rfl, hs, ?_⟩
              rw [← h3]
              exact cacheOK_put H rd bsOf master c1 hc1 true (up + 1) block uv hs
theorem block_full (size bs b : Nat) (hbs : 0 < bs) (hb : b + 1 < nblocks size bs) : b * bs + bs ≤ size := by
  by_cases hs : size = 0
  · unfold nblocks at hb; rw [hs, Nat.zero_add, Nat.div_eq_of_lt (by omega)] at hb; omega
  obtain ⟨e', k', hk0', hkb', hT', hceil'⟩ := ceil_div_spec size bs hbs (by omega)
  unfold nblocks at hb; rw [hceil'] at hb
  have h1 : (b + 1) * bs ≤ e' * bs := Nat.mul_le_mul_right _ (by omega)
  rw [Nat.succ_mul] at h1
  omega

theorem verifiedBlock_length (L : Nat → Bytes) (b : Nat) :
    (verifiedBlock H L bsOf master b).length = (slice (L 3) (b * bsOf 3) (bsOf 3)).length := by
  unfold verifiedBlock
  simp only
  split <;> simp

theorem lv4Blocks_sound (L : Nat → Bytes) (n : Nat) : ∀ (sb : Nat) (c : Caches), CacheOK H (rdOf L) bsOf master c →
    ∀ bl c', lv4Blocks H (rdOf L) bsOf master sb n c = .ok (bl, c') →
    bl = (List.range n).map (fun i => verifiedBlock H L bsOf master (sb + i)) ∧ CacheOK H (rdOf L) bsOf master c' := by
  induction n with
  | zero =>
    intro sb c hc bl c' h
    simp only [lv4Blocks, Except.ok.injEq, Prod.mk.injEq] at h
    obtain ⟨h1, h2⟩ := h
    subst h1; subst h2
    exact ⟨rfl, hc⟩
  | succ n ih =>
    intro sb c hc bl c' h
    rw [lv4Blocks] at h
    cases hg : getBlockG H (rdOf L) bsOf master 3 sb true true c with
    | error e => rw [hg] at h; cases h
    | ok r =>
      obtain ⟨d, v, c1⟩ := r
      rw [hg] at h
      simp only at h
      obtain ⟨hd, hv, hc1⟩ := getBlockG_sound H (rdOf L) bsOf master 3 (by omega) sb true c hc d v c1 hg
      cases hrest : lv4Blocks H (rdOf L) bsOf master (sb + 1) n c1 with
      | error e => rw [hrest] at h; cases h
      | ok r2 =>
        obtain ⟨bl2, c2⟩ := r2
        rw [hrest] at h
        simp only [Except.ok.injEq, Prod.mk.injEq] at h
        obtain ⟨h1, h2⟩ := h
        obtain ⟨hb, hc2⟩ := ih (sb + 1) c1 hc1 bl2 c2 hrest
        subst h2
        refine ⟨?_, hc2⟩
        rw [← h1, List.range_succ_eq_map, List.map_cons, List.map_map, hb]
        congr 1
        · simp only [rdOf, Except.ok.injEq] at hd
          unfold verifiedBlock
          simp only [Nat.add_zero, hv, hd]
          cases v with
          | none => simp
          | some b => cases b <;> simp
        · apply List.map_congr_left; intro i _
          simp only [Function.comp, Nat.succ_eq_add_one]
          congr 1; omega

/-- the verified reader, after any history that left a sound cache, returns the slice of the verified view -/
theorem lv4ReadG_spec (L : Nat → Bytes) (hbs : 0 < bsOf 3) (seek : Nat) (size : Int) (c : Caches)
    (hc : CacheOK H (rdOf L) bsOf master c) (out : Bytes) (c' : Caches)
    (h : lv4ReadG H (rdOf L) bsOf master (L 3).length seek size c = .ok (out, c')) :
    out = slice (verifiedView H L bsOf master) seek (readCount (L 3).length seek size) ∧
      CacheOK H (rdOf L) bsOf master c' := by
  unfold lv4ReadG at h
  simp only at h
  by_cases hz : (if size < 0 ∨ (seek : Int) + size > ((L 3).length : Int) then ((L 3).length : Int) - seek else size) ≤ 0
  · rw [if_pos hz] at h
    simp only [Except.ok.injEq, Prod.mk.injEq] at h
    obtain ⟨h1, h2⟩ := h
    subst h1; subst h2
    refine ⟨?_, hc⟩
    have : readCount (L 3).length seek size = 0 := by
      unfold readCount
      split at hz
      · rw [if_pos (by assumption)]; omega
      · rw [if_neg (by assumption)]; omega
    rw [this]; simp [slice]
  · rw [if_neg hz] at h
    have hcnt : (if size < 0 ∨ (seek : Int) + size > ((L 3).length : Int) then ((L 3).length : Int) - seek else size).toNat
        = readCount (L 3).length seek size := by
      unfold readCount
      split
      · omega
      · rfl
    rw [hcnt] at h
    have hpos : 0 < readCount (L 3).length seek size := by rw [← hcnt]; omega
    have hin : seek + readCount (L 3).length seek size ≤ (L 3).length := by
      unfold readCount at hpos ⊢
      split
      · rename_i hh; rw [if_pos hh] at hpos; omega
      · rename_i hh; rw [if_neg hh] at hpos; omega
    generalize readCount (L 3).length seek size = n at *
    cases hb : lv4Blocks H (rdOf L) bsOf master (blockRange seek n (bsOf 3)).1
        ((blockRange seek n (bsOf 3)).2 + 1 - (blockRange seek n (bsOf 3)).1) c with
    | error e => rw [hb] at h; cases h
    | ok r =>
      obtain ⟨bl, c1⟩ := r
      rw [hb] at h
      simp only [Except.ok.injEq, Prod.mk.injEq] at h
      obtain ⟨h1, h2⟩ := h
      obtain ⟨hbl, hc1⟩ := lv4Blocks_sound H bsOf master L _ _ c hc bl c1 hb
      subst h2
      refine ⟨?_, hc1⟩
      rw [← h1, hbl]
      have heb := block_lt_nblocks (L 3).length (bsOf 3) seek n hbs hpos hin
      have hblk : ∀ i, i ∈ List.range ((blockRange seek n (bsOf 3)).2 + 1 - (blockRange seek n (bsOf 3)).1) →
          verifiedBlock H L bsOf master ((blockRange seek n (bsOf 3)).1 + i) =
            slice (verifiedView H L bsOf master) (((blockRange seek n (bsOf 3)).1 + i) * bsOf 3) (bsOf 3) := by
        intro i hi
        rw [List.mem_range] at hi
        unfold verifiedView
        apply flatMap_block _ _ _ _ _ _ (by omega)
        · intro b hb
          rw [verifiedBlock_length, slice_length]
          have := block_full _ _ _ hbs hb
          omega
        · intro b _
          rw [verifiedBlock_length, slice_length]; exact Nat.min_le_left _ _
      rw [List.map_congr_left hblk, joinTrim_slices _ _ _ _ hbs hpos]
end Save
end Pyctr
