/-
  C14: which SD key a filesystem object ends up with (`SDFilesystem.__init__` / `SDRoot.__init__`).
-/
import Proofs.SdKeyFrame
namespace Pyctr
namespace Sd
open Engine

/-- one `set_keyslot('y', slot, key)` (normal key refreshed): the slot's KeyY is the new one whatever it was before, KeyX values
    are untouched, and the normal key is the scrambler output when the KeyX is there -/
theorem setY_spec (e : Engine) (s k : Nat) :
    (e.setKeyslot false s k true).keyY s = some k ∧ (∀ j, (e.setKeyslot false s k true).keyX j = e.keyX j) ∧
    (∀ x, e.keyX s = some x → (e.setKeyslot false s k true).normal s = some (keygenSlot s x k)) := by
  unfold Engine.setKeyslot
  simp only [Bool.false_eq_true, if_false, if_true]
  cases hx : e.keyX s with
  | none => simp [Engine.upd]
  | some x => simp [Engine.upd]

/-- the three SD slots -/
def sdSlot (s : Nat) : Prop := s = 0x34 ∨ s = 0x30 ∨ s = 0x3A

/-- `setup_sd_key(data)` on ANY engine: the three SD slots carry the key of `data` (whatever they carried before), with the
    scrambler output as normal key wherever the KeyX is present; the ID0 is that of the key -/
theorem setupSdKey_spec (H : Bytes → Bytes) (e : Engine) (data key : Bytes) (hk : sdKeyOf data = .ok key) :
    ∃ e', setupSdKey H e data = .ok (e', id0Of H key) ∧
      (∀ s, sdSlot s → e'.keyY s = some (readBE key)) ∧
      (∀ s, e'.keyX s = e.keyX s) ∧
      (∀ s, sdSlot s → ∀ x, e.keyX s = some x → e'.normal s = some (keygenSlot s x (readBE key))) := by
  unfold setupSdKey
  rw [hk]
  refine ⟨_, rfl, ?_, ?_, ?_⟩
  all_goals simp only [Engine.setKeyslotBytes, Engine.keyToInt, show (0x34 > 3) = True from by decide,
    show (0x30 > 3) = True from by decide, show (0x3A > 3) = True from by decide, if_true]
  all_goals generalize readBE key = k
  · intro s hs
    let e1 := e.setKeyslot false 0x34 k true
    let e2 := e1.setKeyslot false 0x30 k true
    rcases hs with h | h | h <;> subst h
    · rw [(setKeyslot_frame e2 false 0x3A k true 0x34 (by decide)).2.2.1, (setKeyslot_frame e1 false 0x30 k true 0x34 (by decide)).2.2.1]
      exact (setY_spec e 0x34 k).1
    · rw [(setKeyslot_frame e2 false 0x3A k true 0x30 (by decide)).2.2.1]
      exact (setY_spec e1 0x30 k).1
    · exact (setY_spec e2 0x3A k).1
  · intro s
    rw [(setY_spec _ 0x3A k).2.1, (setY_spec _ 0x30 k).2.1, (setY_spec _ 0x34 k).2.1]
  · intro s hs x hx
    let e1 := e.setKeyslot false 0x34 k true
    let e2 := e1.setKeyslot false 0x30 k true
    rcases hs with h | h | h <;> subst h
    · rw [(setKeyslot_frame e2 false 0x3A k true 0x34 (by decide)).1, (setKeyslot_frame e1 false 0x30 k true 0x34 (by decide)).1]
      exact (setY_spec e 0x34 k).2.2 x hx
    · rw [(setKeyslot_frame e2 false 0x3A k true 0x30 (by decide)).1]
      exact (setY_spec e1 0x30 k).2.2 x (by rw [(setY_spec e 0x34 k).2.1]; exact hx)
    · exact (setY_spec e2 0x3A k).2.2 x (by rw [(setY_spec e1 0x30 k).2.1, (setY_spec e 0x34 k).2.1]; exact hx)

/-- **key choice of `SDFilesystem.__init__` / `SDRoot.__init__`** -/
theorem rootKey_choice (H : Bytes → Bytes) (e : Engine) (held : Option Bytes) (sdKey : Bytes) (file : Option Bytes) :
    -- (1) a non-empty `sd_key` decides, whatever the engine held and whatever file is named
    (sdKey ≠ [] → rootKey H e held sdKey file = setupSdKey H e sdKey) ∧
    -- (2) otherwise the movable.sed file decides
    (sdKey = [] → ∀ d, file = some d → rootKey H e held sdKey file = setupSdKey H e d) ∧
    -- (3) otherwise the engine is used as it is, and must have a key
    (sdKey = [] → file = none → rootKey H e held sdKey file =
      match held with | some i => .ok (e, i) | none => .error (.other "MissingMovableSedError")) := by
  refine ⟨?_, ?_, ?_⟩
  · intro h; simp [rootKey, h]
  · intro h d hd; simp [rootKey, h, hd]
  · intro h hf; cases held <;> simp [rootKey, h, hf]

/-- hence: two engines that agree on the SD KeyX values end with the same SD keys and the same ID0 when given the same
    `sd_key` — what either of them held before (another console's movable.sed, nothing at all) does not matter -/
theorem rootKey_forgets (H : Bytes → Bytes) (e₁ e₂ : Engine) (h₁ h₂ : Option Bytes) (f₁ f₂ : Option Bytes) (sdKey key : Bytes)
    (hne : sdKey ≠ []) (hk : sdKeyOf sdKey = .ok key) (hx : ∀ s, sdSlot s → e₁.keyX s = e₂.keyX s) :
    ∃ a b, rootKey H e₁ h₁ sdKey f₁ = .ok (a, id0Of H key) ∧ rootKey H e₂ h₂ sdKey f₂ = .ok (b, id0Of H key) ∧
      (∀ s, sdSlot s → a.keyY s = b.keyY s) ∧
      (∀ s, sdSlot s → ∀ x, e₁.keyX s = some x → a.normal s = some (keygenSlot s x (readBE key)) ∧ b.normal s = a.normal s) := by
  obtain ⟨a, ha, hya, _, hna⟩ := setupSdKey_spec H e₁ sdKey key hk
  obtain ⟨b, hb, hyb, _, hnb⟩ := setupSdKey_spec H e₂ sdKey key hk
  refine ⟨a, b, ?_, ?_, ?_, ?_⟩
  · rw [(rootKey_choice H e₁ h₁ sdKey f₁).1 hne]; exact ha
  · rw [(rootKey_choice H e₂ h₂ sdKey f₂).1 hne]; exact hb
  · intro s hs; rw [hya s hs, hyb s hs]
  · intro s hs x hx1
    refine ⟨hna s hs x hx1, ?_⟩
    rw [hna s hs x hx1, hnb s hs x (by rw [← hx s hs]; exact hx1)]

end Sd
end Pyctr
