/-
  C04: the planning loop of the fully-decrypted view — every 0x200-byte chunk of the aligned request is read exactly once, in
  order, from the piece (section, or raw pass-through chunk) that contains it, at the right offset inside that piece.
-/
import Proofs.NcchViews
import Proofs.SaveBlocks
namespace Pyctr
namespace Ncch

abbrev Piece := (Nat × Nat) × Nat × Nat

/-- the chunks a list of planned pieces stands for: (key, offset inside the key's source), one per 0x200 bytes -/
def expand (l : List Piece) : List ((Nat × Nat) × Nat) :=
  l.flatMap fun p => (List.range (p.2.2 / 0x200)).map fun j => (p.1, p.2.1 + 0x200 * j)

/-- chunks with the same key are consecutive and their offsets inside the key's source advance with them (true when the
    sections are disjoint intervals; raw chunks have pairwise different keys) -/
def Contig (s : State) : Prop :=
  ∀ c d, (chunkKey s c).1 = (chunkKey s (c + 0x200 * d)).1 → ∀ e, e ≤ d →
    chunkKey s (c + 0x200 * e) = ((chunkKey s c).1, (chunkKey s c).2 + 0x200 * e)

theorem expand_append (a b : List Piece) : expand (a ++ b) = expand a ++ expand b := by
  simp [expand, List.flatMap_append]

theorem expand_single (p : Piece) : expand [p] = (List.range (p.2.2 / 0x200)).map fun j => (p.1, p.2.1 + 0x200 * j) := by
  simp [expand]

theorem expand_length_pos (l : List Piece) (h : ∀ p, p ∈ l → 0 < p.2.2 ∧ p.2.2 % 0x200 = 0) (p : Piece) (hp : p ∈ l) :
    ∃ x, x ∈ expand l ∧ x.1 = p.1 := by
  refine ⟨(p.1, p.2.1 + 0x200 * 0), ?_, rfl⟩
  unfold expand
  rw [List.mem_flatMap]
  refine ⟨p, hp, ?_⟩
  rw [List.mem_map]
  refine ⟨0, ?_, rfl⟩
  rw [List.mem_range]
  obtain ⟨h1, h2⟩ := h p hp
  omega

/-- updating the size of the (unique) piece with a given key, when that piece is the last one -/
theorem map_update_last (init : List Piece) (last : Piece) (key : Nat × Nat) (hk : last.1 = key)
    (hnd : ((init ++ [last]).map (·.1)).Nodup) :
    (init ++ [last]).map (fun x => if x.1 == key then (x.1, x.2.1, x.2.2 + 0x200) else x) =
      init ++ [(last.1, last.2.1, last.2.2 + 0x200)] := by
  rw [List.map_append]
  congr 1
  · conv => rhs; rw [← List.map_id init]
    apply List.map_congr_left
    intro x hx
    have hne : x.1 ≠ key := by
      intro hc
      rw [List.map_append, List.nodup_append] at hnd
      have := hnd.2.2 x.1 (List.mem_map.mpr ⟨x, hx, rfl⟩) last.1 (by simp)
      exact this (by rw [hc, hk])
    have : (x.1 == key) = false := by simpa using hne
    simp only [this, Bool.false_eq_true, if_false, id]
  · simp [hk]

structure PlanInv (s : State) (a n : Nat) (acc : List Piece) : Prop where
  chunks : expand acc = (List.range n).map fun i => chunkKey s (a + 0x200 * i)
  nodup : (acc.map (·.1)).Nodup
  sizes : ∀ p, p ∈ acc → 0 < p.2.2 ∧ p.2.2 % 0x200 = 0
  last : 0 < n → ∃ init last, acc = init ++ [last] ∧ last.1 = (chunkKey s (a + 0x200 * (n - 1))).1

theorem planInv_step (s : State) (hc : Contig s) (a n : Nat) (acc : List Piece) (h : PlanInv s a n acc) :
    PlanInv s a (n + 1) (addChunk acc (chunkKey s (a + 0x200 * n)).1 (chunkKey s (a + 0x200 * n)).2) := by
  generalize hkey : (chunkKey s (a + 0x200 * n)).1 = key
  generalize hoff : (chunkKey s (a + 0x200 * n)).2 = off
  have hck : chunkKey s (a + 0x200 * n) = (key, off) := by rw [← hkey, ← hoff]
  unfold addChunk
  by_cases hany : acc.any (·.1 == key) = true
  · rw [if_pos hany]
    -- the key was seen at some earlier chunk j
    rw [List.any_eq_true] at hany
    obtain ⟨p, hp, hpk⟩ := hany
    have hpk : p.1 = key := by simpa using hpk
    obtain ⟨x, hx, hxk⟩ := expand_length_pos acc h.sizes p hp
    rw [h.chunks, List.mem_map] at hx
    obtain ⟨j, hj, hjx⟩ := hx
    rw [List.mem_range] at hj
    have hkj : (chunkKey s (a + 0x200 * j)).1 = key := by rw [hjx, hxk, hpk]
    have hcont := hc (a + 0x200 * j) (n - j) (by
      rw [hkj, show a + 0x200 * j + 0x200 * (n - j) = a + 0x200 * n by rw [Nat.add_assoc, ← Nat.mul_add]; congr 2; omega, hkey])
    have hn0 : 0 < n := by omega
    obtain ⟨init, last, hacc, hlast⟩ := h.last hn0
    -- chunk n-1 has the key as well, so the piece is the last one
    have hprev := hcont (n - 1 - j) (by omega)
    rw [show a + 0x200 * j + 0x200 * (n - 1 - j) = a + 0x200 * (n - 1) by rw [Nat.add_assoc, ← Nat.mul_add]; congr 2; omega] at hprev
    have hlk : last.1 = key := by rw [hlast, hprev, hkj]
    have hnd := h.nodup
    rw [hacc] at hnd ⊢
    rw [map_update_last init last key hlk hnd]
    have hsz := h.sizes last (by rw [hacc]; simp)
    -- the last piece stands for the last m chunks
    generalize hm : last.2.2 / 0x200 = m at *
    have hszm : last.2.2 = 0x200 * m := by omega
    have hexp : expand init ++ (List.range m).map (fun i => (last.1, last.2.1 + 0x200 * i)) =
        (List.range n).map fun i => chunkKey s (a + 0x200 * i) := by
      rw [← h.chunks, hacc, expand_append, expand_single, hm]
    have hlen : (expand init).length + m = n := by
      have := congrArg List.length hexp
      simpa using this
    have hm0 : 0 < m := by omega
    -- the first chunk of the last piece
    have hfirst : chunkKey s (a + 0x200 * (n - m)) = (last.1, last.2.1) := by
      have := congrArg (fun l => l[n - m]?) hexp
      rw [List.getElem?_append_right (by omega), List.getElem?_map, List.getElem?_map,
        List.getElem?_range (by omega), List.getElem?_range (by omega)] at this
      simp only [Option.map_some, Option.some.injEq] at this
      rw [show n - m - (expand init).length = 0 by omega] at this
      simpa using this.symm
    have hadv := hc (a + 0x200 * (n - m)) m (by
      rw [hfirst, show a + 0x200 * (n - m) + 0x200 * m = a + 0x200 * n by rw [Nat.add_assoc, ← Nat.mul_add]; congr 2; omega, hkey, hlk]) m (Nat.le_refl _)
    rw [show a + 0x200 * (n - m) + 0x200 * m = a + 0x200 * n by rw [Nat.add_assoc, ← Nat.mul_add]; congr 2; omega, hfirst, hck] at hadv
    rw [Prod.mk.injEq] at hadv
    refine ⟨?_, ?_, ?_, fun _ => ⟨init, _, rfl, by simp [hck, hlk]⟩⟩
    · rw [expand_append, expand_single]
      simp only
      rw [show (last.2.2 + 0x200) / 0x200 = m + 1 by omega, List.range_succ, List.map_append, ← List.append_assoc, hexp,
        List.range_succ, List.map_append]
      congr 1
      simp only [List.map_cons, List.map_nil, hck]
      rw [hlk, hadv.2]
    · rw [List.map_append] at hnd ⊢
      simpa using hnd
    · intro q hq
      rw [List.mem_append] at hq
      rcases hq with hq | hq
      · exact h.sizes q (by rw [hacc]; simp [hq])
      · simp only [List.mem_singleton] at hq
        rw [hq]; simp only; omega
  · rw [if_neg hany]
    have hnone : ∀ q, q ∈ acc → q.1 ≠ key := by
      intro q hq hqc
      apply hany
      rw [List.any_eq_true]
      exact ⟨q, hq, by simpa using hqc⟩
    refine ⟨?_, ?_, ?_, fun _ => ⟨acc, _, rfl, by simp [hck]⟩⟩
    · rw [expand_append, expand_single, h.chunks, List.range_succ, List.map_append]
      simp [hck]
    · rw [List.map_append, List.nodup_append]
      refine ⟨h.nodup, by simp, ?_⟩
      intro x hx y hy
      simp only [List.map_cons, List.map_nil, List.mem_singleton] at hy
      rw [List.mem_map] at hx
      obtain ⟨q, hq, hqx⟩ := hx
      rw [hy, ← hqx]
      exact hnone q hq
    · intro q hq
      rw [List.mem_append] at hq
      rcases hq with hq | hq
      · exact h.sizes q hq
      · simp only [List.mem_singleton] at hq
        rw [hq]; simp

/-- **the plan**: for sections that are disjoint intervals, the planned pieces stand for exactly the chunks of the aligned
    request, in order, each with its key and its offset inside that key's source; no key occurs twice; every piece is a positive
    whole number of chunks; the last piece is the one of the last chunk -/
theorem plan_spec (s : State) (hc : Contig s) (a : Nat) : ∀ n, PlanInv s a n (plan s a n) := by
  intro n
  induction n with
  | zero => exact ⟨rfl, List.nodup_nil, fun _ h => (by cases h), fun h => absurd h (Nat.lt_irrefl 0)⟩
  | succ n ih =>
    have : plan s a (n + 1) = addChunk (plan s a n) (chunkKey s (a + 0x200 * n)).1 (chunkKey s (a + 0x200 * n)).2 := by
      unfold plan
      rw [List.range_succ, List.map_append, List.foldl_append]
      rfl
    rw [this]
    exact planInv_step s hc a n _ ih

/-! ### `Contig` from the geometry: sections that do not overlap -/

/-- the six sections the classifier knows -/
def six (a : Nat) : Prop := a = secRomFS ∨ a = secExeFS ∨ a = secHeader ∨ a = secExtHeader ∨ a = secLogo ∨ a = secPlain

theorem six_ne_raw (a : Nat) (h : six a) : a ≠ secRaw := by
  rcases h with h | h | h | h | h | h <;> rw [h] <;> decide

/-- no chunk lies in two of the six classified regions -/
def RegionsDisjoint (s : State) : Prop :=
  ∀ c a b ra rb, six a → six b → a ≠ b → inRegion s c a = some ra → inRegion s c b = some rb → False

theorem inRegion_some (s : State) (c sec : Nat) (r : Region) (h : inRegion s c sec = some r) :
    s.region? sec = some r ∧ r.offset ≤ c ∧ c < r.stop := by
  unfold inRegion at h
  cases hr : s.region? sec with
  | none => rw [hr] at h; cases h
  | some r' =>
    rw [hr] at h
    simp only at h
    by_cases hc : r'.offset ≤ c ∧ c < r'.stop
    · rw [if_pos hc] at h
      simp only [Option.some.injEq] at h
      subst h
      exact ⟨rfl, hc.1, hc.2⟩
    · rw [if_neg hc] at h; cases h

theorem inRegion_of (s : State) (c sec : Nat) (r : Region) (hr : s.region? sec = some r) (h1 : r.offset ≤ c) (h2 : c < r.stop) :
    inRegion s c sec = some r := by
  unfold inRegion
  rw [hr]
  simp only
  rw [if_pos ⟨h1, h2⟩]

/-- what `classify` answers: raw (then none of the six regions contains the chunk), or one of the six sections together with a
    region of it that contains the chunk -/
theorem classify_cases (s : State) (c : Nat) :
    (classify s c = (secRaw, 0) ∧ ∀ a, six a → inRegion s c a = none) ∨
      ∃ sec r, classify s c = (sec, r.offset) ∧ inRegion s c sec = some r ∧ six sec := by
  unfold classify
  cases h1 : inRegion s c secRomFS with
  | some r => right; exact ⟨secRomFS, r, rfl, h1, Or.inl rfl⟩
  | none =>
    cases h2 : inRegion s c secExeFS with
    | some r => right; exact ⟨secExeFS, r, rfl, h2, Or.inr (Or.inl rfl)⟩
    | none =>
      cases h3 : inRegion s c secHeader with
      | some r => right; exact ⟨secHeader, r, rfl, h3, Or.inr (Or.inr (Or.inl rfl))⟩
      | none =>
        cases h4 : inRegion s c secExtHeader with
        | some r => right; exact ⟨secExtHeader, r, rfl, h4, Or.inr (Or.inr (Or.inr (Or.inl rfl)))⟩
        | none =>
          cases h5 : inRegion s c secLogo with
          | some r => right; exact ⟨secLogo, r, rfl, h5, Or.inr (Or.inr (Or.inr (Or.inr (Or.inl rfl))))⟩
          | none =>
            cases h6 : inRegion s c secPlain with
            | some r => right; exact ⟨secPlain, r, rfl, h6, Or.inr (Or.inr (Or.inr (Or.inr (Or.inr rfl))))⟩
            | none =>
              left
              refine ⟨rfl, ?_⟩
              intro a ha
              rcases ha with h | h | h | h | h | h <;> rw [h] <;> assumption

/-- with non-overlapping sections, a chunk inside a region of one of the six sections is attributed to that section -/
theorem classify_in (s : State) (hd : RegionsDisjoint s) (c sec : Nat) (r : Region) (hin : inRegion s c sec = some r)
    (h6 : six sec) : classify s c = (sec, r.offset) := by
  rcases classify_cases s c with ⟨_, hnone⟩ | ⟨sec', r', h, hin', h6'⟩
  · rw [hnone sec h6] at hin; cases hin
  · by_cases hs : sec' = sec
    · subst hs
      rw [hin] at hin'
      simp only [Option.some.injEq] at hin'
      rw [h, hin']
    · exact absurd (hd c sec' sec r' r h6' h6 hs hin' hin) id

theorem six_mem (a : Nat) (h : six a) : a ∈ sixList := by
  rcases h with h | h | h | h | h | h <;> rw [h] <;> simp [sixList]

/-- the decidable criterion (evaluated by the driver on every image): pairwise non-overlapping regions -/
theorem regionsDisjoint_of_apart (s : State) (h : regionsApart s = true) : RegionsDisjoint s := by
  intro c a b ra rb ha hb hab hia hib
  unfold regionsApart at h
  rw [List.all_eq_true] at h
  have h1 := h a (six_mem a ha)
  rw [List.all_eq_true] at h1
  have h2 := h1 b (six_mem b hb)
  obtain ⟨ea, la, ua⟩ := inRegion_some s c a ra hia
  obtain ⟨eb, lb, ub⟩ := inRegion_some s c b rb hib
  rw [ea, eb] at h2
  have hne : (a == b) = false := by simpa using hab
  simp only [hne, Bool.false_or, decide_eq_true_eq] at h2
  omega

theorem contig_of_disjoint (s : State) (hd : RegionsDisjoint s) : Contig s := by
  intro c d hkey e he
  unfold chunkKey at hkey ⊢
  rcases classify_cases s c with ⟨h, _⟩ | ⟨sec, r, h, hin, h6⟩
  · -- a raw chunk: its key carries the chunk offset, so d = 0
    rw [h] at hkey ⊢
    simp only [beq_self_eq_true, if_true] at hkey ⊢
    have hd0 : d = 0 := by
      by_cases hr : ((classify s (c + 0x200 * d)).1 == secRaw) = true
      · rw [if_pos hr] at hkey
        simp only [Prod.mk.injEq, true_and] at hkey
        omega
      · rw [if_neg hr] at hkey
        simp only [Prod.mk.injEq] at hkey
        have : (classify s (c + 0x200 * d)).1 = secRaw := hkey.1.symm
        rw [this] at hr
        simp at hr
    have he0 : e = 0 := by omega
    subst he0
    simp only [Nat.mul_zero, Nat.add_zero, h, beq_self_eq_true, if_true]
  · rw [h] at hkey ⊢
    have hne := six_ne_raw sec h6
    have hb : (sec == secRaw) = false := by simpa using hne
    simp only [hb, Bool.false_eq_true, if_false] at hkey ⊢
    -- the far chunk lies in the same section, hence in the same region
    obtain ⟨hr, hlo, hhi⟩ := inRegion_some s c sec r hin
    have hfar : ∃ r', inRegion s (c + 0x200 * d) sec = some r' := by
      rcases classify_cases s (c + 0x200 * d) with ⟨h', _⟩ | ⟨sec', r', h', hin', h6'⟩
      · rw [h'] at hkey
        simp only [beq_self_eq_true, if_true, Prod.mk.injEq] at hkey
        exact absurd hkey.1 hne
      · rw [h'] at hkey
        have hb' : (sec' == secRaw) = false := by simpa using six_ne_raw sec' h6'
        simp only [hb', Bool.false_eq_true, if_false, Prod.mk.injEq] at hkey
        rw [hkey.1]; exact ⟨r', hin'⟩
    obtain ⟨r', hin'⟩ := hfar
    obtain ⟨hr', _, hhi'⟩ := inRegion_some s _ sec r' hin'
    rw [hr] at hr'
    simp only [Option.some.injEq] at hr'
    subst hr'
    have hmid : inRegion s (c + 0x200 * e) sec = some r :=
      inRegion_of s _ sec r hr (by omega) (by
        have : 0x200 * e ≤ 0x200 * d := Nat.mul_le_mul_left _ he
        omega)
    rw [classify_in s hd (c + 0x200 * e) sec r hmid h6]
    simp only [hb, Bool.false_eq_true, if_false, Prod.mk.injEq, true_and]
    omega

/-! ### the assembly: first piece loses `before` bytes at the front, last piece loses `k` bytes at the end -/

def trimLast (k : Nat) : List Bytes → List Bytes
  | [] => []
  | [b] => [b.take (b.length - k)]
  | b :: c :: r => b :: trimLast k (c :: r)

def trimBlocks (before k : Nat) : List Bytes → List Bytes
  | [] => []
  | [b] => [(b.drop before).take ((b.drop before).length - k)]
  | b :: c :: r => b.drop before :: trimLast k (c :: r)

theorem mem_length_le_flatten (bs : List Bytes) (l : Bytes) (h : l ∈ bs) : l.length ≤ bs.flatten.length := by
  induction bs with
  | nil => cases h
  | cons b r ih =>
    simp only [List.flatten_cons, List.length_append]
    rcases List.mem_cons.mp h with h | h
    · subst h; omega
    · have := ih h; omega

theorem flatten_trimLast (k : Nat) : ∀ (bs : List Bytes), bs ≠ [] → (∀ l, bs.getLast? = some l → k ≤ l.length) →
    (trimLast k bs).flatten = bs.flatten.take (bs.flatten.length - k) := by
  intro bs
  induction bs with
  | nil => intro h; exact absurd rfl h
  | cons b r ih =>
    intro _ hl
    cases r with
    | nil => simp [trimLast]
    | cons c r' =>
      have hl' : ∀ l, (c :: r').getLast? = some l → k ≤ l.length := by
        intro l hh; apply hl; rw [List.getLast?_cons_cons]; exact hh
      have := ih (by simp) hl'
      simp only [trimLast, List.flatten_cons] at this ⊢
      rw [this]
      have hk : k ≤ (c ++ r'.flatten).length := by
        -- the last block is inside the tail
        obtain ⟨l, hlast⟩ : ∃ l, (c :: r').getLast? = some l := by
          cases hx : (c :: r').getLast? with
          | none => simp at hx
          | some l => exact ⟨l, rfl⟩
        have hkl := hl' l hlast
        have hmem : l ∈ (c :: r') := List.mem_of_getLast? hlast
        have : l.length ≤ (c :: r').flatten.length := mem_length_le_flatten _ _ hmem
        simp only [List.flatten_cons] at this
        omega
      rw [List.take_append (l₁ := b), List.take_of_length_le (l := b) (by simp only [List.length_append] at hk ⊢; omega)]
      congr 2
      simp only [List.length_append] at hk ⊢
      omega

theorem flatten_trimBlocks (before k : Nat) : ∀ (bs : List Bytes), bs ≠ [] →
    (∀ h, bs.head? = some h → before ≤ h.length) → (∀ l, bs.getLast? = some l → k ≤ l.length) →
    (∀ b, bs = [b] → before + k ≤ b.length) →
    (trimBlocks before k bs).flatten = (bs.flatten.drop before).take (bs.flatten.length - before - k) := by
  intro bs hne hh hl hs
  cases bs with
  | nil => exact absurd rfl hne
  | cons b r =>
    cases r with
    | nil =>
      simp only [trimBlocks, List.flatten_cons, List.flatten_nil, List.append_nil, List.length_drop]
    | cons c r' =>
      have hb := hh b rfl
      have hl' : ∀ l, (c :: r').getLast? = some l → k ≤ l.length := by
        intro l hx; apply hl; rw [List.getLast?_cons_cons]; exact hx
      simp only [trimBlocks, List.flatten_cons]
      rw [flatten_trimLast k (c :: r') (by simp) hl']
      simp only [List.flatten_cons]
      rw [List.drop_append_of_le_length hb]
      have hk : k ≤ (c ++ r'.flatten).length := by
        obtain ⟨l, hlast⟩ : ∃ l, (c :: r').getLast? = some l := by
          cases hx : (c :: r').getLast? with
          | none => simp at hx
          | some l => exact ⟨l, rfl⟩
        have hkl := hl' l hlast
        have hmem : l ∈ (c :: r') := List.mem_of_getLast? hlast
        have : l.length ≤ (c :: r').flatten.length := mem_length_le_flatten _ _ hmem
        simp only [List.flatten_cons] at this
        omega
      rw [List.take_append (l₁ := b.drop before), List.take_of_length_le (l := b.drop before) (by
        simp only [List.length_append, List.length_drop] at hk ⊢; omega)]
      congr 2
      simp only [List.length_append, List.length_drop] at hk ⊢
      omega

/-- the crypto-flag rewrite of the header piece -/
def patchHdr (key : Nat × Nat) (d : Bytes) : Bytes := if key.1 == secHeader then setByte (setByte d 0x18B 0) 0x18F 4 else d

theorem pySlice_neg (d : Bytes) (k : Nat) (hk : 0 < k) : pySlice d 0 (-(k : Int)) = d.take (d.length - k) := by
  unfold pySlice pyIdx
  simp only [show ¬ ((0 : Int) < 0) by omega, if_false, show (-(k : Int)) < 0 by omega, if_true]
  have h1 : min (0 : Int).toNat d.length = 0 := by simp
  rw [h1]
  have h2 : ((d.length : Int) + -(k : Int)).toNat = d.length - k := by omega
  rw [h2]
  simp [slice]

theorem patchHdr_length (key : Nat × Nat) (d : Bytes) : (patchHdr key d).length = d.length := by
  unfold patchHdr setByte
  split
  · split <;> split <;> simp
  · rfl

/-- `pieceBytes` in terms of the three elementary steps, for a piece that has its planned length -/
theorem pieceBytes_eq (before cutEnd : Nat) (lastKey : Option (Nat × Nat)) (st : Bool) (key : Nat × Nat) (planned : Nat) (d : Bytes)
    (hc : 0 < cutEnd) (hd : d.length = planned) :
    pieceBytes before cutEnd lastKey st key planned d =
      (if some key == lastKey then
        (if st then (patchHdr key d).drop before else patchHdr key d).take
          ((if st then (patchHdr key d).drop before else patchHdr key d).length - (if cutEnd = 0x200 then 0 else cutEnd))
       else (if st then (patchHdr key d).drop before else patchHdr key d)) := by
  have hp := patchHdr_length key d
  unfold pieceBytes
  simp only
  rw [show (if (key.1 == secHeader) = true then setByte (setByte d 0x18B 0) 0x18F 4 else d) = patchHdr key d from rfl]
  generalize patchHdr key d = d2 at hp ⊢
  have hl2 : d2.length = planned := by rw [hp, hd]
  by_cases hl : (some key == lastKey) = true
  · rw [if_pos hl]
    by_cases h2 : cutEnd = 0x200
    · subst h2
      simp only [hl, bne_self_eq_false, Bool.and_false, Bool.false_eq_true, if_false, if_true, Nat.sub_zero]
      cases st
      · simp [← hl2]
      · simp only [if_true, List.length_drop]
        rw [List.take_of_length_le (by omega), List.take_of_length_le (by simp)]
    · have : (cutEnd != 0x200) = true := by simpa using h2
      simp only [hl, this, Bool.and_self, if_true, if_neg h2]
      cases st
      · simp [← hl2]
      · simp only [if_true, List.length_drop]
        rw [List.drop_take, hl2]
        congr 1; omega
  · rw [if_neg hl]
    have : (some key == lastKey) = false := by simpa using hl
    simp only [this, Bool.false_and, Bool.false_eq_true, if_false]
    rw [List.take_of_length_le (by omega)]
    cases st <;> simp

/-- the pieces after trimming, as the second loop produces them -/
def trimmed (dat : Piece → Bytes) (before cutEnd : Nat) (lastKey : Option (Nat × Nat)) : Bool → List Piece → List Bytes
  | _, [] => []
  | st, p :: r => pieceBytes before cutEnd lastKey st p.1 p.2.2 (dat p) :: trimmed dat before cutEnd lastKey false r

theorem assemble_fold (gd : Nat → Nat → Int → Except Err Bytes) (dat : Piece → Bytes) (before cutEnd : Nat)
    (lastKey : Option (Nat × Nat)) : ∀ (ps : List Piece) (out : List Bytes) (st : Bool),
    (∀ p, p ∈ ps → gd p.1.1 p.2.1 (p.2.2 : Int) = .ok (dat p)) →
    ∃ st', ps.foldl (assembleStep gd before cutEnd lastKey) (.ok (out, st)) = .ok (out ++ trimmed dat before cutEnd lastKey st ps, st') := by
  intro ps
  induction ps with
  | nil => intro out st _; exact ⟨st, by simp [trimmed]⟩
  | cons p r ih =>
    intro out st h
    simp only [List.foldl_cons]
    have hp := h p (by simp)
    have : assembleStep gd before cutEnd lastKey (.ok (out, st)) p =
        .ok (out ++ [pieceBytes before cutEnd lastKey st p.1 p.2.2 (dat p)], false) := by
      unfold assembleStep; simp only [hp]
    rw [this]
    obtain ⟨st', hst⟩ := ih (out ++ [pieceBytes before cutEnd lastKey st p.1 p.2.2 (dat p)]) false (fun q hq => h q (by simp [hq]))
    exact ⟨st', by rw [hst]; simp [trimmed]⟩

theorem trimmed_false (dat : Piece → Bytes) (before cutEnd : Nat) (hc : 0 < cutEnd) : ∀ (ps : List Piece) (last : Piece),
    ps.getLast? = some last → (ps.map (·.1)).Nodup → (∀ p, p ∈ ps → (dat p).length = p.2.2) →
    trimmed dat before cutEnd (some last.1) false ps =
      trimLast (if cutEnd = 0x200 then 0 else cutEnd) (ps.map fun p => patchHdr p.1 (dat p)) := by
  intro ps
  induction ps with
  | nil => intro last h; simp at h
  | cons p r ih =>
    intro last hl hnd hlen
    cases r with
    | nil =>
      simp only [List.getLast?_singleton, Option.some.injEq] at hl
      subst hl
      simp only [trimmed, List.map_cons, List.map_nil, trimLast]
      rw [pieceBytes_eq _ _ _ _ _ _ _ hc (hlen p (by simp))]
      simp
    | cons q r' =>
      rw [List.getLast?_cons_cons] at hl
      have hne : p.1 ≠ last.1 := by
        intro hc'
        simp only [List.map_cons, List.nodup_cons] at hnd
        apply hnd.1
        rw [hc']
        have : last ∈ q :: r' := List.mem_of_getLast? hl
        rw [← List.map_cons]
        exact List.mem_map.mpr ⟨last, this, rfl⟩
      have hnd' : ((q :: r').map (·.1)).Nodup := by
        simp only [List.map_cons, List.nodup_cons] at hnd ⊢
        exact hnd.2
      have := ih last hl hnd' (fun x hx => hlen x (by simp [hx]))
      simp only [trimmed, List.map_cons, trimLast] at this ⊢
      rw [pieceBytes_eq _ _ _ _ _ _ _ hc (hlen p (by simp))]
      have hb : (some p.1 == some last.1) = false := by simpa using hne
      simp only [hb, Bool.false_eq_true, if_false]
      rw [this]

theorem trimmed_true (dat : Piece → Bytes) (before cutEnd : Nat) (hc : 0 < cutEnd) (ps : List Piece) (last : Piece)
    (hl : ps.getLast? = some last) (hnd : (ps.map (·.1)).Nodup) (hlen : ∀ p, p ∈ ps → (dat p).length = p.2.2) :
    trimmed dat before cutEnd (some last.1) true ps =
      trimBlocks before (if cutEnd = 0x200 then 0 else cutEnd) (ps.map fun p => patchHdr p.1 (dat p)) := by
  cases ps with
  | nil => simp at hl
  | cons p r =>
    cases r with
    | nil =>
      simp only [List.getLast?_singleton, Option.some.injEq] at hl
      subst hl
      simp only [trimmed, List.map_cons, List.map_nil, trimBlocks]
      rw [pieceBytes_eq _ _ _ _ _ _ _ hc (hlen p (by simp))]
      simp
    | cons q r' =>
      rw [List.getLast?_cons_cons] at hl
      have hne : p.1 ≠ last.1 := by
        intro hc'
        simp only [List.map_cons, List.nodup_cons] at hnd
        apply hnd.1
        rw [hc']
        have : last ∈ q :: r' := List.mem_of_getLast? hl
        rw [← List.map_cons]
        exact List.mem_map.mpr ⟨last, this, rfl⟩
      have hnd' : ((q :: r').map (·.1)).Nodup := by
        simp only [List.map_cons, List.nodup_cons] at hnd ⊢
        exact hnd.2
      have := trimmed_false dat before cutEnd hc (q :: r') last hl hnd' (fun x hx => hlen x (by simp [hx]))
      simp only [trimmed, List.map_cons, trimBlocks] at this ⊢
      rw [pieceBytes_eq _ _ _ _ _ _ _ hc (hlen p (by simp))]
      have hb : (some p.1 == some last.1) = false := by simpa using hne
      simp only [hb, Bool.false_eq_true, if_false, if_true]
      rw [this]

theorem assemble_spec (gd : Nat → Nat → Int → Except Err Bytes) (dat : Piece → Bytes) (before cutEnd : Nat) (hc : 0 < cutEnd)
    (ps : List Piece) (last : Piece) (hl : ps.getLast? = some last) (hnd : (ps.map (·.1)).Nodup)
    (hgd : ∀ p, p ∈ ps → gd p.1.1 p.2.1 (p.2.2 : Int) = .ok (dat p))
    (hlen : ∀ p, p ∈ ps → 0x200 ≤ (patchHdr p.1 (dat p)).length) (hplanned : ∀ p, p ∈ ps → (dat p).length = p.2.2)
    (hb : before < 0x200) (hk : cutEnd ≤ 0x200)
    (hsingle : ∀ p, ps = [p] → before + (if cutEnd = 0x200 then 0 else cutEnd) ≤ (patchHdr p.1 (dat p)).length) :
    assemble gd before cutEnd (some last.1) ps =
      .ok (((ps.map fun p => patchHdr p.1 (dat p)).flatten.drop before).take
        ((ps.map fun p => patchHdr p.1 (dat p)).flatten.length - before - (if cutEnd = 0x200 then 0 else cutEnd))) := by
  unfold assemble
  obtain ⟨st', hf⟩ := assemble_fold gd dat before cutEnd (some last.1) ps [] true hgd
  rw [hf]
  simp only [List.nil_append]
  rw [trimmed_true dat before cutEnd hc ps last hl hnd hplanned]
  have hne : ps ≠ [] := by intro h; rw [h] at hl; simp at hl
  rw [flatten_trimBlocks before _ (ps.map fun p => patchHdr p.1 (dat p)) (by simpa using hne)]
  · intro h hh
    rw [List.head?_map] at hh
    cases hp : ps.head? with
    | none => rw [hp] at hh; simp at hh
    | some p =>
      rw [hp] at hh
      simp only [Option.map_some, Option.some.injEq] at hh
      rw [← hh]
      have := hlen p (List.mem_of_head? hp)
      omega
  · intro l hh
    rw [List.getLast?_map, hl] at hh
    simp only [Option.map_some, Option.some.injEq] at hh
    rw [← hh]
    have := hlen last (List.mem_of_getLast? hl)
    split <;> omega
  · intro b hb1
    cases ps with
    | nil => simp at hb1
    | cons p r =>
      cases r with
      | nil =>
        simp only [List.map_cons, List.map_nil, List.cons.injEq, and_true] at hb1
        rw [← hb1]
        exact hsingle p rfl
      | cons q r' => simp at hb1

theorem flatten_slices_off (W : Bytes) (off bs m : Nat) :
    ((List.range m).map fun j => slice W (off + bs * j) bs).flatten = slice W off (bs * m) := by
  induction m with
  | zero => simp [slice]
  | succ m ih =>
    rw [List.range_succ, List.map_append, List.flatten_append, ih]
    simp only [List.map_cons, List.map_nil, List.flatten_cons, List.flatten_nil, List.append_nil]
    rw [slice_append_slice, Nat.mul_succ]

/-- the source a chunk is served from, with the header's crypto flags already rewritten -/
def csrc (src : Nat → Bytes) (sec : Nat) : Bytes :=
  if sec == secHeader then setByte (setByte (src sec) 0x18B 0) 0x18F 4 else src sec

def chunkContent (s : State) (src : Nat → Bytes) (c : Nat) : Bytes :=
  slice (csrc src (chunkKey s c).1.1) (chunkKey s c).2 0x200

theorem setByte_length (d : Bytes) (i : Nat) (v : UInt8) : (setByte d i v).length = d.length := by
  unfold setByte; split <;> simp

theorem csrc_length (src : Nat → Bytes) (sec : Nat) : (csrc src sec).length = (src sec).length := by
  unfold csrc; split
  · rw [setByte_length, setByte_length]
  · rfl

/-- the pieces, expanded to chunks, carry the same bytes -/
theorem pieces_flatten (src : Nat → Bytes) : ∀ (ps : List Piece), (∀ p, p ∈ ps → p.2.2 % 0x200 = 0) →
    (ps.map fun p => slice (csrc src p.1.1) p.2.1 p.2.2).flatten =
      ((expand ps).map fun x => slice (csrc src x.1.1) x.2 0x200).flatten := by
  intro ps
  induction ps with
  | nil => intro _; rfl
  | cons p r ih =>
    intro h
    have hp := h p (by simp)
    rw [show p :: r = [p] ++ r by rfl, expand_append, List.map_append, List.map_append, List.flatten_append, List.flatten_append,
      ih (fun q hq => h q (by simp [hq]))]
    congr 1
    rw [expand_single]
    simp only [List.map_cons, List.map_nil, List.flatten_cons, List.flatten_nil, List.append_nil, List.map_map]
    have := flatten_slices_off (csrc src p.1.1) p.2.1 0x200 (p.2.2 / 0x200)
    rw [show 0x200 * (p.2.2 / 0x200) = p.2.2 by omega] at this
    rw [← this]
    rfl

/-- the regular situation: sections do not overlap; `get_data` of a section or of a raw chunk returns the slice of that
    source (what the C03 section theorems and the window theorems give); every chunk of the first `N` lies inside its source; the
    header is the single chunk at offset 0 -/
structure ReadGeom (E : Bytes → Bytes → Bytes) (s : State) (file : Bytes) (start : Nat) (src : Nat → Bytes) (N : Nat) : Prop where
  disjoint : RegionsDisjoint s
  gd : ∀ sec off sz, 0 < sz → off + sz ≤ (src sec).length → getData E s file start sec off (sz : Int) = .ok (slice (src sec) off sz)
  inside : ∀ i, i < N → (chunkKey s (0x200 * i)).2 + 0x200 ≤ (src (chunkKey s (0x200 * i)).1.1).length
  hdr : ∀ i, i < N → (chunkKey s (0x200 * i)).1.1 = secHeader →
    (chunkKey s (0x200 * i)).2 = 0 ∧ (src secHeader).length = 0x200

/-- the one image every read of the fully-decrypted view is a slice of -/
def fullImage (s : State) (src : Nat → Bytes) (N : Nat) : Bytes := (List.range N).flatMap fun i => chunkContent s src (0x200 * i)

theorem chunkContent_length (E : Bytes → Bytes → Bytes) (s : State) (file : Bytes) (start : Nat) (src : Nat → Bytes) (N : Nat)
    (g : ReadGeom E s file start src N) (i : Nat) (hi : i < N) : (chunkContent s src (0x200 * i)).length = 0x200 := by
  unfold chunkContent
  rw [slice_length, csrc_length]
  have := g.inside i hi
  omega

theorem fullImage_slice (E : Bytes → Bytes → Bytes) (s : State) (file : Bytes) (start : Nat) (src : Nat → Bytes) (N : Nat)
    (g : ReadGeom E s file start src N) (a n : Nat) (h : a + n ≤ N) :
    ((List.range n).map fun i => chunkContent s src (0x200 * a + 0x200 * i)).flatten = slice (fullImage s src N) (a * 0x200) (n * 0x200) := by
  rw [← Save.flatten_slices (fullImage s src N) 0x200 a n]
  congr 1
  apply List.map_congr_left
  intro i hi
  rw [List.mem_range] at hi
  have := Save.flatMap_block (fun i => chunkContent s src (0x200 * i)) 0x200 N
    (fun b hb => chunkContent_length E s file start src N g b (by omega))
    (fun b hb => by rw [chunkContent_length E s file start src N g b hb]; exact Nat.le_refl _) (a + i) (by omega)
  rw [show 0x200 * a + 0x200 * i = 0x200 * (a + i) by rw [Nat.mul_add]]
  exact this

/-- **C04: one consistent image.**  On a regular NCCH every read of the fully-decrypted view — any offset, any length, inside a
    chunk, across section boundaries, over gaps — returns the corresponding slice of `fullImage` -/
theorem fullRead_spec (E : Bytes → Bytes → Bytes) (s : State) (file : Bytes) (start : Nat) (src : Nat → Bytes) (N : Nat)
    (g : ReadGeom E s file start src N) (r : Region) (hr : s.region? secFull = some r) (offset size : Nat) (hs : 0 < size)
    (h1 : offset + size ≤ r.size) (h2 : start + offset + size ≤ file.length) (h3 : offset + size ≤ 0x200 * N) :
    fullRead E s file start offset (size : Int) = .ok (slice (fullImage s src N) offset size) := by
  have hc := contig_of_disjoint s g.disjoint
  unfold fullRead
  rw [hr]
  simp only
  rw [if_neg (by omega), if_neg (by omega), if_neg (by omega)]
  -- the aligned request
  generalize hbefore : offset % 0x200 = before
  have hbl : before < 0x200 := by rw [← hbefore]; exact Nat.mod_lt _ (by omega)
  generalize ha : offset / 0x200 = a
  have hoff : offset = 0x200 * a + before := by rw [← ha, ← hbefore]; exact (Nat.div_add_mod offset 0x200).symm
  have hal : offset - before = 0x200 * a := by omega
  rw [hal]
  have hals : ((size : Int) + (before : Int)) = ((size + before : Nat) : Int) := by omega
  rw [hals]
  rw [if_neg (by omega)]
  simp only [Int.toNat_natCast]
  generalize hn : (size + before + 0x1FF) / 0x200 = n
  have hnpos : 0 < n := by rw [← hn]; omega
  have hnlo : size + before ≤ 0x200 * n := by rw [← hn]; omega
  have hnhi : 0x200 * n < size + before + 0x200 := by rw [← hn]; omega
  have hmod : ((((size + before : Nat) : Int) % 0x200).toNat) = (size + before) % 0x200 := by omega
  rw [hmod]
  generalize hcut : 0x200 - (size + before) % 0x200 = cutEnd
  have hc0 : 0 < cutEnd := by rw [← hcut]; have := Nat.mod_lt (size + before) (by omega : 0 < 0x200); omega
  have hcle : cutEnd ≤ 0x200 := by omega
  generalize hk : (if cutEnd = 0x200 then 0 else cutEnd) = k
  have hksum : size + before + k = 0x200 * n := by
    rw [← hk, ← hcut]
    have hdm := Nat.div_add_mod (size + before) 0x200
    split <;> omega
  have haN : a + n ≤ N := by omega
  -- the plan
  have hplan := plan_spec s hc (0x200 * a) n
  obtain ⟨init, last, hps, hlastk⟩ := hplan.last hnpos
  have hlastget : (plan s (0x200 * a) n).getLast? = some last := by rw [hps]; simp
  have hlk : (((List.range n).map fun i => 0x200 * a + 0x200 * i).getLast?).map (fun c => (chunkKey s c).1) = some last.1 := by
    rw [List.getLast?_map, List.getLast?_range, if_neg (by omega)]
    simp only [Option.map_some]
    rw [hlastk]
  rw [hlk]
  -- chunks of the plan are chunks of the image
  have hmemchunk : ∀ x, x ∈ expand (plan s (0x200 * a) n) → ∃ i, i < N ∧ x = chunkKey s (0x200 * i) := by
    intro x hx
    rw [hplan.chunks, List.mem_map] at hx
    obtain ⟨i, hi, hxi⟩ := hx
    rw [List.mem_range] at hi
    exact ⟨a + i, by omega, by rw [← hxi, Nat.mul_add]⟩
  have hpiece_in : ∀ p, p ∈ plan s (0x200 * a) n → p.2.1 + p.2.2 ≤ (src p.1.1).length ∧
      (p.1.1 = secHeader → p.2.1 = 0 ∧ (src secHeader).length = 0x200) := by
    intro p hp
    obtain ⟨hsz1, hsz2⟩ := hplan.sizes p hp
    have hlastc : (p.1, p.2.1 + 0x200 * (p.2.2 / 0x200 - 1)) ∈ expand (plan s (0x200 * a) n) := by
      unfold expand
      rw [List.mem_flatMap]
      exact ⟨p, hp, List.mem_map.mpr ⟨p.2.2 / 0x200 - 1, List.mem_range.mpr (by omega), rfl⟩⟩
    have hfirstc : (p.1, p.2.1 + 0x200 * 0) ∈ expand (plan s (0x200 * a) n) := by
      unfold expand
      rw [List.mem_flatMap]
      exact ⟨p, hp, List.mem_map.mpr ⟨0, List.mem_range.mpr (by omega), rfl⟩⟩
    obtain ⟨i, hi, hxi⟩ := hmemchunk _ hlastc
    obtain ⟨j, hj, hxj⟩ := hmemchunk _ hfirstc
    have hin := g.inside i hi
    rw [← hxi] at hin
    simp only at hin
    refine ⟨by omega, fun hh => ?_⟩
    have := g.hdr j hj (by rw [← hxj]; exact hh)
    rw [← hxj] at this
    simpa using this
  -- the data of a piece, patched, is a slice of the (patched) source
  have hB : ∀ p, p ∈ plan s (0x200 * a) n →
      patchHdr p.1 (slice (src p.1.1) p.2.1 p.2.2) = slice (csrc src p.1.1) p.2.1 p.2.2 := by
    intro p hp
    obtain ⟨hin, hh⟩ := hpiece_in p hp
    obtain ⟨hsz1, hsz2⟩ := hplan.sizes p hp
    unfold patchHdr csrc
    by_cases hhd : (p.1.1 == secHeader) = true
    · rw [if_pos hhd, if_pos hhd]
      have heq : p.1.1 = secHeader := by simpa using hhd
      obtain ⟨ho, hl⟩ := hh heq
      rw [heq] at hin ⊢
      have hsz : p.2.2 = 0x200 := by omega
      rw [ho, hsz, slice_all _ _ (by omega), slice_all _ _ (by rw [setByte_length, setByte_length]; omega)]
    · rw [if_neg hhd, if_neg hhd]
  have hgd : ∀ p, p ∈ plan s (0x200 * a) n →
      getData E s file start p.1.1 p.2.1 (p.2.2 : Int) = .ok (slice (src p.1.1) p.2.1 p.2.2) :=
    fun p hp => g.gd _ _ _ (hplan.sizes p hp).1 (hpiece_in p hp).1
  have hBlen : ∀ p, p ∈ plan s (0x200 * a) n → (patchHdr p.1 (slice (src p.1.1) p.2.1 p.2.2)).length = p.2.2 := by
    intro p hp
    rw [hB p hp, slice_length, csrc_length]
    have := (hpiece_in p hp).1
    omega
  -- the concatenation of the pieces is the aligned window of the image
  have hflat : ((plan s (0x200 * a) n).map fun p => patchHdr p.1 (slice (src p.1.1) p.2.1 p.2.2)).flatten =
      slice (fullImage s src N) (a * 0x200) (n * 0x200) := by
    rw [List.map_congr_left (g := fun p => slice (csrc src p.1.1) p.2.1 p.2.2) hB,
      pieces_flatten src _ (fun p hp => (hplan.sizes p hp).2), hplan.chunks, List.map_map,
      ← fullImage_slice E s file start src N g a n haN]
    rfl
  have hWlen : (fullImage s src N).length = N * 0x200 := by
    unfold fullImage
    exact Save.flatMap_length_uniform _ 0x200 N (fun b hb => chunkContent_length E s file start src N g b hb)
  rw [assemble_spec (getData E s file start) (fun p => slice (src p.1.1) p.2.1 p.2.2) before cutEnd hc0 _ last hlastget hplan.nodup
    hgd (fun p hp => by rw [hBlen p hp]; have := hplan.sizes p hp; omega)
    (fun p hp => by rw [← patchHdr_length p.1, hBlen p hp]) hbl hcle
    (fun p hp1 => by
      have hp : p ∈ plan s (0x200 * a) n := by rw [hp1]; simp
      have htot := congrArg List.length hflat
      rw [hp1] at htot
      simp only [List.map_cons, List.map_nil, List.flatten_cons, List.flatten_nil, List.append_nil, slice_length, hWlen] at htot
      rw [hk, htot]
      have : a * 0x200 + n * 0x200 ≤ N * 0x200 := by rw [← Nat.add_mul]; exact Nat.mul_le_mul_right _ haN
      omega)]
  rw [hflat, hk, slice_length, hWlen]
  have hle : a * 0x200 + n * 0x200 ≤ N * 0x200 := by rw [← Nat.add_mul]; exact Nat.mul_le_mul_right _ haN
  rw [Nat.min_eq_left (Nat.le_sub_of_add_le (by rw [Nat.add_comm]; exact hle) : n * 0x200 ≤ N * 0x200 - a * 0x200), Save.slice_drop, Save.slice_take]
  have e1 : a * 0x200 + before = offset := by omega
  have e2 : min (n * 0x200 - before - k) (n * 0x200 - before) = size := by omega
  rw [e1, e2]

/-- the sources of a container without encryption (NoCrypto flag, or opened with `assume_decrypted`): the windows themselves -/
def plainSrc (s : State) (file : Bytes) (start : Nat) (sec : Nat) : Bytes :=
  match s.region? sec with
  | some r => slice file (start + r.offset) r.size
  | none => []

/-- … for which the `get_data` hypothesis of the one-image theorem holds outright -/
theorem gd_plain (E : Bytes → Bytes → Bytes) (s : State) (file : Bytes) (start : Nat)
    (hplain : (s.assumeDecrypted || s.flags.noCrypto) = true) (sec off sz : Nat) (hsz : 0 < sz)
    (h : off + sz ≤ (plainSrc s file start sec).length) :
    getData E s file start sec off (sz : Int) = .ok (slice (plainSrc s file start sec) off sz) := by
  unfold plainSrc at h ⊢
  unfold getData
  cases hr : s.region? sec with
  | none => rw [hr] at h; simp at h; omega
  | some r =>
    rw [hr] at h
    simp only at h ⊢
    rw [slice_length] at h
    have hin : off + sz ≤ r.size := by omega
    rw [if_neg (show ¬ ((off : Int) + (sz : Int) > (r.size : Int)) by omega)]
    rw [if_neg (show ¬ ((sz : Int) < 0) by omega)]
    simp only [Int.toNat_natCast]
    have : (s.assumeDecrypted || s.flags.noCrypto || sec == secHeader || sec == secLogo || sec == secPlain || sec == secRaw) = true := by
      simp only [Bool.or_eq_true] at hplain ⊢
      rcases hplain with h1 | h1
      · exact Or.inl (Or.inl (Or.inl (Or.inl (Or.inl h1))))
      · exact Or.inl (Or.inl (Or.inl (Or.inl (Or.inr h1))))
    rw [if_pos this, slice_slice _ _ _ _ _ hin, Nat.add_assoc]

theorem wholeWith_length (E : Bytes → Bytes → Bytes) (k : Bytes) (iv : Nat) (region : Bytes) :
    (wholeWith E k iv region).length = region.length := by simp [wholeWith, ctrAt]

theorem slice_take_of_le (d : Bytes) (m off n : Nat) (h : off + n ≤ m) : slice (d.take m) off n = slice d off n := by
  apply List.ext_getElem?; intro i
  simp only [slice_getElem?, List.getElem?_take]
  by_cases hi : i < n
  · rw [if_pos hi, if_pos hi, if_pos (by omega)]
  · rw [if_neg hi, if_neg hi]

/-- **`get_data` serves slices of `secSrc`** — for every section, encrypted or not -/
theorem gd_secSrc (E : Bytes → Bytes → Bytes) (s : State) (file : Bytes) (start : Nat) (sec off sz : Nat) (hsz : 0 < sz)
    (h : off + sz ≤ (secSrc E s file start sec).length) :
    getData E s file start sec off (sz : Int) = .ok (slice (secSrc E s file start sec) off sz) := by
  unfold secSrc at h ⊢
  unfold getData
  cases hr : s.region? sec with
  | none => rw [hr] at h; simp at h; omega
  | some r =>
    rw [hr] at h
    simp only at h ⊢
    -- in every branch the source is at most `r.size` long
    have hin : off + sz ≤ r.size := by
      by_cases hp : plainSec s sec = true
      · rw [if_pos hp, slice_length] at h; omega
      · rw [if_neg hp] at h
        by_cases he : (sec == secExeFS) = true
        · rw [if_pos he] at h
          split at h <;> first | (rw [List.length_take] at h; omega) | (simp at h; omega)
        · rw [if_neg he] at h
          split at h
          · rw [show ∀ k, ctrAt E k r.iv 0 (slice file (start + r.offset) r.size) = wholeWith E k r.iv (slice file (start + r.offset) r.size) from fun _ => rfl, wholeWith_length, slice_length] at h; omega
          · simp at h; omega
    rw [if_neg (show ¬ ((off : Int) + (sz : Int) > (r.size : Int)) by omega)]
    rw [if_neg (show ¬ ((sz : Int) < 0) by omega)]
    simp only [Int.toNat_natCast]
    by_cases hp : plainSec s sec = true
    · have hp' := hp
      unfold plainSec at hp'
      rw [if_pos hp', if_pos hp, slice_slice _ _ _ _ _ hin, Nat.add_assoc]
    · have hp' : ¬ ((s.assumeDecrypted || s.flags.noCrypto || sec == secHeader || sec == secLogo || sec == secPlain || sec == secRaw) = true) := hp
      rw [if_neg hp', if_neg hp]
      by_cases he : (sec == secExeFS) = true
      · rw [if_pos he, if_pos he]
        rw [if_neg hp, if_pos he] at h
        cases hv : openRaw s start secExeFS with
        | error e => rw [hv] at h; simp at h; omega
        | ok v =>
          rw [hv] at h
          cases v with
          | merged o z iv segs =>
            simp only at h ⊢
            unfold mergedBytes
            rw [slice_take_of_le _ _ _ _ hin]
          | ctr key iv o z =>
            simp only at h ⊢
            rw [slice_take_of_le _ _ _ _ hin, ctrAt_slice]; rfl
          | window o z =>
            simp only at h ⊢
            rw [slice_take_of_le _ _ _ _ hin]
          | full => simp at h; omega
      · rw [if_neg he, if_neg he]
        rw [if_neg hp, if_neg he] at h
        cases hk : normalKey s (if sec == secRomFS then 0x44 else s.mainSlot) with
        | error e => rw [hk] at h; simp at h; omega
        | ok k =>
          rw [hk] at h
          simp only at h ⊢
          have : slice file (start + r.offset + off) sz = slice (slice file (start + r.offset) r.size) off sz := by
            rw [slice_slice _ _ _ _ _ hin]
          rw [this, ctrAt_slice]; rfl


/-- the decidable geometry check (evaluated by the driver on every image) yields all hypotheses of the one-image theorem, with the
    section plaintexts `secSrc` as sources -/
theorem readGeom_of_b (E : Bytes → Bytes → Bytes) (s : State) (file : Bytes) (start : Nat) (N : Nat)
    (h : readGeomB E s file start N = true) : ReadGeom E s file start (secSrc E s file start) N := by
  unfold readGeomB at h
  simp only [Bool.and_eq_true, List.all_eq_true, List.mem_range, decide_eq_true_eq, Bool.or_eq_true, bne_iff_ne] at h
  obtain ⟨hap, hall⟩ := h
  have hget : ∀ sec, sec < 9 →
      ((List.range 9).map fun sec => (secSrc E s file start sec).length).getD sec 0 = (secSrc E s file start sec).length := by
    intro sec hs
    rw [List.getD_eq_getElem?_getD, List.getElem?_map, List.getElem?_range hs]
    rfl
  refine ⟨regionsDisjoint_of_apart s hap, fun sec off sz hsz hin => gd_secSrc E s file start sec off sz hsz hin, ?_, ?_⟩
  · intro i hi
    obtain ⟨⟨h1, h2⟩, _⟩ := hall i hi
    rw [hget _ h2] at h1
    exact h1
  · intro i hi hh
    obtain ⟨⟨_, _⟩, h3⟩ := hall i hi
    rcases h3 with h3 | h3
    · exact absurd hh h3
    · rw [hget secHeader (by decide)] at h3
      exact h3


/-- the byte count `get_data(FullDecrypted, offset, size)` settles on: not past the declared content, not past the file -/
def clampFull (r : Region) (file : Bytes) (start offset : Nat) (size : Int) : Int :=
  let s1 : Int := if (offset : Int) + size > r.size then (r.size : Int) - offset else size
  if (offset : Int) + s1 > (file.length : Int) - start then (file.length : Int) - start - offset else s1

theorem clampFull_idem (r : Region) (file : Bytes) (start offset : Nat) (size : Int) :
    clampFull r file start offset (clampFull r file start offset size) = clampFull r file start offset size := by
  unfold clampFull
  simp only
  repeat' split
  all_goals omega

/-- a read is the same as the read of its clamped size -/
theorem fullRead_clamp (E : Bytes → Bytes → Bytes) (s : State) (file : Bytes) (start : Nat) (r : Region)
    (hr : s.region? secFull = some r) (offset : Nat) (size : Int) :
    fullRead E s file start offset size = fullRead E s file start offset (clampFull r file start offset size) := by
  have hidem := clampFull_idem r file start offset size
  unfold fullRead
  rw [hr]
  simp only
  unfold clampFull at hidem ⊢
  simp only at hidem ⊢
  rw [hidem]


/-- **every read, clamped or not**: whatever offset and size are asked for (negative sizes, sizes past the declared content, past
    the end of the file), the fully-decrypted view returns the slice of the one image for the clamped byte count — nothing when
    that count is not positive -/
theorem fullRead_any (E : Bytes → Bytes → Bytes) (s : State) (file : Bytes) (start : Nat) (src : Nat → Bytes) (N : Nat)
    (g : ReadGeom E s file start src N) (r : Region) (hr : s.region? secFull = some r) (hN : r.size ≤ 0x200 * N)
    (offset : Nat) (size : Int) :
    fullRead E s file start offset size =
      .ok (if clampFull r file start offset size ≤ 0 then []
           else slice (fullImage s src N) offset (clampFull r file start offset size).toNat) := by
  rw [fullRead_clamp E s file start r hr offset size]
  have hidem := clampFull_idem r file start offset size
  generalize hc : clampFull r file start offset size = c at hidem ⊢
  have hb1 : c ≤ 0 ∨ ((offset : Int) + c ≤ r.size ∧ (offset : Int) + c ≤ (file.length : Int) - start) := by
    rw [← hc]
    unfold clampFull
    simp only
    repeat' split
    all_goals omega
  by_cases hle : c ≤ 0
  · rw [if_pos hle]
    unfold fullRead
    rw [hr]
    simp only
    unfold clampFull at hidem
    simp only at hidem
    rw [hidem, if_pos hle]
  · rw [if_neg hle]
    rcases hb1 with h | ⟨h1, h2⟩
    · exact absurd h hle
    · have hn : c = ((c.toNat : Nat) : Int) := by omega
      rw [hn]
      rw [Int.toNat_natCast]
      exact fullRead_spec E s file start src N g r hr offset c.toNat (by omega) (by omega) (by omega) (by omega)


/-! ### work bound of the fully-decrypted read (C19): chunks planned ≤ what the file holds -/

theorem addChunk_length (l : List ((Nat × Nat) × Nat × Nat)) (key : Nat × Nat) (off : Nat) :
    (addChunk l key off).length ≤ l.length + 1 := by
  unfold addChunk
  split
  · simp
  · simp

/-- the plan never has more pieces than chunks -/
theorem plan_length (s : State) (a : Nat) : ∀ n, (plan s a n).length ≤ n := by
  intro n
  induction n with
  | zero => simp [plan]
  | succ n ih =>
    have : plan s a (n + 1) = addChunk (plan s a n) (chunkKey s (a + 0x200 * n)).1 (chunkKey s (a + 0x200 * n)).2 := by
      unfold plan
      rw [List.range_succ, List.map_append, List.foldl_append]
      rfl
    rw [this]
    exact Nat.le_trans (addChunk_length _ _ _) (by omega)


/-- the chunk count is bounded by the file, whatever the header's content size and whatever size is asked for -/
theorem fullChunks_bound (rsize fileLen start offset : Nat) (size : Int) :
    fullChunks rsize fileLen start offset size * 0x200 ≤ fileLen + 0x1FF := by
  unfold fullChunks
  dsimp only
  generalize hm : offset % 0x200 = m
  have hml : m ≤ offset := by rw [← hm]; exact Nat.mod_le _ _
  generalize hs1 : (if (offset : Int) + size > rsize then (rsize : Int) - offset else size) = s1
  generalize hs2 : (if (offset : Int) + s1 > (fileLen : Int) - start then (fileLen : Int) - start - offset else s1) = s2
  have h2 : (offset : Int) + s2 ≤ fileLen := by rw [← hs2]; split <;> omega
  clear hs1 hs2 hm
  by_cases h : s2 ≤ 0
  · rw [if_pos h, Nat.zero_mul]; exact Nat.zero_le _
  · rw [if_neg h]
    by_cases h' : s2 + (m : Int) ≤ 0
    · rw [if_pos h', Nat.zero_mul]; exact Nat.zero_le _
    · rw [if_neg h']
      omega

theorem fullRead_plan_aux {α : Type} (f : Nat → Nat → Option (Nat × Nat) → Nat → α) (z : α) (m : Nat) (g : Nat → Option (Nat × Nat)) (s2 : Int) :
    ∃ before cutEnd lastKey,
      (if s2 ≤ 0 then z
        else f m (512 - ((s2 + (m : Int)) % 512).toNat)
               (g (if s2 + (m : Int) ≤ 0 then 0 else ((s2 + (m : Int)).toNat + 511) / 512))
               (if s2 + (m : Int) ≤ 0 then 0 else ((s2 + (m : Int)).toNat + 511) / 512)) =
        if (if s2 ≤ 0 then 0 else if s2 + (m : Int) ≤ 0 then 0 else ((s2 + (m : Int)).toNat + 511) / 512) = 0 then z
        else f before cutEnd lastKey
               (if s2 ≤ 0 then 0 else if s2 + (m : Int) ≤ 0 then 0 else ((s2 + (m : Int)).toNat + 511) / 512) := by
  by_cases h : s2 ≤ 0
  · exact ⟨0, 0, none, by rw [if_pos h, if_pos h]; rfl⟩
  · refine ⟨m, (512 - ((s2 + (m : Int)) % 512).toNat),
      (g (if s2 + (m : Int) ≤ 0 then 0 else ((s2 + (m : Int)).toNat + 511) / 512)), ?_⟩
    have h' : ¬ (s2 + (m : Int) ≤ 0) := by omega
    simp only [if_neg h, if_neg h']
    have h1 : 1 ≤ (s2 + (m : Int)).toNat := by omega
    have : ¬ ((s2 + (m : Int)).toNat + 511) / 512 = 0 := by omega
    rw [if_neg this]

/-- `fullRead` is the assembly of a plan of exactly `fullChunks` chunks (nothing when that is 0) -/
theorem fullRead_plan (E : Bytes → Bytes → Bytes) (s : State) (file : Bytes) (start offset : Nat) (size : Int) (r : Region)
    (hr : s.region? secFull = some r) :
    ∃ before cutEnd lastKey,
      fullRead E s file start offset size =
        if fullChunks r.size file.length start offset size = 0 then .ok []
        else assemble (getData E s file start) before cutEnd lastKey
               (plan s (offset - offset % 0x200) (fullChunks r.size file.length start offset size)) := by
  unfold fullRead fullChunks
  rw [hr]
  dsimp only
  exact fullRead_plan_aux (fun b c l n => assemble (getData E s file start) b c l (plan s (offset - offset % 512) n)) (.ok []) (offset % 512)
    (fun n => Option.map (fun c => (chunkKey s c).fst) (List.map (fun i => offset - offset % 512 + 512 * i) (List.range n)).getLast?) _

end Ncch
end Pyctr
