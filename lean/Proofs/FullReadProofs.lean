/-
  C04: the planning loop of the fully-decrypted view — every 0x200-byte chunk of the aligned request is read exactly once, in
  order, from the piece (section, or raw pass-through chunk) that contains it, at the right offset inside that piece.
-/
import Proofs.NcchViews
namespace Pyctr
namespace Ncch

abbrev Piece := (Nat × Nat) × Nat × Nat

/-- the chunks a list of planned pieces stands for: (key, offset inside the key's source), one per 0x200 bytes -/
def expand (l : List Piece) : List ((Nat × Nat) × Nat) :=
  l.flatMap fun p => (List.range (p.2.2 / 0x200)).map fun j => (p.1, p.2.1 + 0x200 * j)

/-- chunks with the same key are consecutive and their offsets inside the key's source advance with them (true when the
    sections are disjoint intervals; raw chunks have pairwise different keys) -/
def Contig (s : State) : Prop :=
  ∀ c d, (chunkKey s c).1 = (chunkKey s (c + 0x200 * d)).1 → ∀ e, e ≤ d →
    chunkKey s (c + 0x200 * e) = ((chunkKey s c).1, (chunkKey s c).2 + 0x200 * e)

theorem expand_append (a b : List Piece) : expand (a ++ b) = expand a ++ expand b := by
  simp [expand, List.flatMap_append]

theorem expand_single (p : Piece) : expand [p] = (List.range (p.2.2 / 0x200)).map fun j => (p.1, p.2.1 + 0x200 * j) := by
  simp [expand]

theorem expand_length_pos (l : List Piece) (h : ∀ p, p ∈ l → 0 < p.2.2 ∧ p.2.2 % 0x200 = 0) (p : Piece) (hp : p ∈ l) :
    ∃ x, x ∈ expand l ∧ x.1 = p.1 := by
  refine ⟨(p.1, p.2.1 + 0x200 * 0), ?_, rfl⟩
  unfold expand
  rw [List.mem_flatMap]
  refine ⟨p, hp, ?_⟩
  rw [List.mem_map]
  refine ⟨0, ?_, rfl⟩
  rw [List.mem_range]
  obtain ⟨h1, h2⟩ := h p hp
  omega

/-- updating the size of the (unique) piece with a given key, when that piece is the last one -/
theorem map_update_last (init : List Piece) (last : Piece) (key : Nat × Nat) (hk : last.1 = key)
    (hnd : ((init ++ [last]).map (·.1)).Nodup) :
    (init ++ [last]).map (fun x => if x.1 == key then (x.1, x.2.1, x.2.2 + 0x200) else x) =
      init ++ [(last.1, last.2.1, last.2.2 + 0x200)] := by
  rw [List.map_append]
  congr 1
  · conv => rhs; rw [← List.map_id init]
    apply List.map_congr_left
    intro x hx
    have hne : x.1 ≠ key := by
      intro hc
      rw [List.map_append, List.nodup_append] at hnd
      have := hnd.2.2 x.1 (List.mem_map.mpr ⟨x, hx, rfl⟩) last.1 (by simp)
      exact this (by rw [hc, hk])
    have : (x.1 == key) = false := by simpa using hne
    simp only [this, Bool.false_eq_true, if_false, id]
  · simp [hk]

structure PlanInv (s : State) (a n : Nat) (acc : List Piece) : Prop where
  chunks : expand acc = (List.range n).map fun i => chunkKey s (a + 0x200 * i)
  nodup : (acc.map (·.1)).Nodup
  sizes : ∀ p, p ∈ acc → 0 < p.2.2 ∧ p.2.2 % 0x200 = 0
  last : 0 < n → ∃ init last, acc = init ++ [last] ∧ last.1 = (chunkKey s (a + 0x200 * (n - 1))).1

theorem planInv_step (s : State) (hc : Contig s) (a n : Nat) (acc : List Piece) (h : PlanInv s a n acc) :
    PlanInv s a (n + 1) (addChunk acc (chunkKey s (a + 0x200 * n)).1 (chunkKey s (a + 0x200 * n)).2) := by
  generalize hkey : (chunkKey s (a + 0x200 * n)).1 = key
  generalize hoff : (chunkKey s (a + 0x200 * n)).2 = off
  have hck : chunkKey s (a + 0x200 * n) = (key, off) := by rw [← hkey, ← hoff]
  unfold addChunk
  by_cases hany : acc.any (·.1 == key) = true
  · rw [if_pos hany]
    -- the key was seen at some earlier chunk j
    rw [List.any_eq_true] at hany
    obtain ⟨p, hp, hpk⟩ := hany
    have hpk : p.1 = key := by simpa using hpk
    obtain ⟨x, hx, hxk⟩ := expand_length_pos acc h.sizes p hp
    rw [h.chunks, List.mem_map] at hx
    obtain ⟨j, hj, hjx⟩ := hx
    rw [List.mem_range] at hj
    have hkj : (chunkKey s (a + 0x200 * j)).1 = key := by rw [hjx, hxk, hpk]
    have hcont := hc (a + 0x200 * j) (n - j) (by
      rw [hkj, show a + 0x200 * j + 0x200 * (n - j) = a + 0x200 * n by rw [Nat.add_assoc, ← Nat.mul_add]; congr 2; omega, hkey])
    have hn0 : 0 < n := by omega
    obtain ⟨init, last, hacc, hlast⟩ := h.last hn0
    -- chunk n-1 has the key as well, so the piece is the last one
    have hprev := hcont (n - 1 - j) (by omega)
    rw [show a + 0x200 * j + 0x200 * (n - 1 - j) = a + 0x200 * (n - 1) by rw [Nat.add_assoc, ← Nat.mul_add]; congr 2; omega] at hprev
    have hlk : last.1 = key := by rw [hlast, hprev, hkj]
    have hnd := h.nodup
    rw [hacc] at hnd ⊢
    rw [map_update_last init last key hlk hnd]
    have hsz := h.sizes last (by rw [hacc]; simp)
    -- the last piece stands for the last m chunks
    generalize hm : last.2.2 / 0x200 = m at *
    have hszm : last.2.2 = 0x200 * m := by omega
    have hexp : expand init ++ (List.range m).map (fun i => (last.1, last.2.1 + 0x200 * i)) =
        (List.range n).map fun i => chunkKey s (a + 0x200 * i) := by
      rw [← h.chunks, hacc, expand_append, expand_single, hm]
    have hlen : (expand init).length + m = n := by
      have := congrArg List.length hexp
      simpa using this
    have hm0 : 0 < m := by omega
    -- the first chunk of the last piece
    have hfirst : chunkKey s (a + 0x200 * (n - m)) = (last.1, last.2.1) := by
      have := congrArg (fun l => l[n - m]?) hexp
      rw [List.getElem?_append_right (by omega), List.getElem?_map, List.getElem?_map,
        List.getElem?_range (by omega), List.getElem?_range (by omega)] at this
      simp only [Option.map_some, Option.some.injEq] at this
      rw [show n - m - (expand init).length = 0 by omega] at this
      simpa using this.symm
    have hadv := hc (a + 0x200 * (n - m)) m (by
      rw [hfirst, show a + 0x200 * (n - m) + 0x200 * m = a + 0x200 * n by rw [Nat.add_assoc, ← Nat.mul_add]; congr 2; omega, hkey, hlk]) m (Nat.le_refl _)
    rw [show a + 0x200 * (n - m) + 0x200 * m = a + 0x200 * n by rw [Nat.add_assoc, ← Nat.mul_add]; congr 2; omega, hfirst, hck] at hadv
    rw [Prod.mk.injEq] at hadv
    refine ⟨?_, ?_, ?_, fun _ => ⟨init, _, rfl, by simp [hck, hlk]⟩⟩
    · rw [expand_append, expand_single]
      simp only
      rw [show (last.2.2 + 0x200) / 0x200 = m + 1 by omega, List.range_succ, List.map_append, ← List.append_assoc, hexp,
        List.range_succ, List.map_append]
      congr 1
      simp only [List.map_cons, List.map_nil, hck]
      rw [hlk, hadv.2]
    · rw [List.map_append] at hnd ⊢
      simpa using hnd
    · intro q hq
      rw [List.mem_append] at hq
      rcases hq with hq | hq
      · exact h.sizes q (by rw [hacc]; simp [hq])
      · simp only [List.mem_singleton] at hq
        rw [hq]; simp only; omega
  · rw [if_neg hany]
    have hnone : ∀ q, q ∈ acc → q.1 ≠ key := by
      intro q hq hqc
      apply hany
      rw [List.any_eq_true]
      exact ⟨q, hq, by simpa using hqc⟩
    refine ⟨?_, ?_, ?_, fun _ => ⟨acc, _, rfl, by simp [hck]⟩⟩
    · rw [expand_append, expand_single, h.chunks, List.range_succ, List.map_append]
      simp [hck]
    · rw [List.map_append, List.nodup_append]
      refine ⟨h.nodup, by simp, ?_⟩
      intro x hx y hy
      simp only [List.map_cons, List.map_nil, List.mem_singleton] at hy
      rw [List.mem_map] at hx
      obtain ⟨q, hq, hqx⟩ := hx
      rw [hy, ← hqx]
      exact hnone q hq
    · intro q hq
      rw [List.mem_append] at hq
      rcases hq with hq | hq
      · exact h.sizes q hq
      · simp only [List.mem_singleton] at hq
        rw [hq]; simp

/-- **the plan**: for sections that are disjoint intervals, the planned pieces stand for exactly the chunks of the aligned
    request, in order, each with its key and its offset inside that key's source; no key occurs twice; every piece is a positive
    whole number of chunks; the last piece is the one of the last chunk -/
theorem plan_spec (s : State) (hc : Contig s) (a : Nat) : ∀ n, PlanInv s a n (plan s a n) := by
  intro n
  induction n with
  | zero => exact ⟨rfl, List.nodup_nil, fun _ h => by cases h, fun h => absurd h (Nat.lt_irrefl 0)⟩
  | succ n ih =>
    have : plan s a (n + 1) = addChunk (plan s a n) (chunkKey s (a + 0x200 * n)).1 (chunkKey s (a + 0x200 * n)).2 := by
      unfold plan
      rw [List.range_succ, List.map_append, List.foldl_append]
      rfl
    rw [this]
    exact planInv_step s hc a n _ ih

end Ncch
end Pyctr
