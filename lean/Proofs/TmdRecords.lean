import Proofs.TmdBits
import Proofs.TmdLemmas
namespace Pyctr
namespace Tmd

macro "lens" "[" ts:Lean.Parser.Tactic.simpLemma,* "]" : tactic =>
  `(tactic| first | omega | (simp only [toBE_length, List.length_append, $ts,*] <;> omega) | (simp [toBE_length, $ts,*]))

structure WfChunk (r : ChunkRecord) : Prop where
  id_len : r.id.length = 4
  cindex_lt : r.cindex < 2 ^ 16
  size_lt : r.size < 2 ^ 64
  hash_len : r.hash.length = 32

theorem chunk_bytes_length (r : ChunkRecord) (h : WfChunk r) : r.bytes.length = 0x30 := by
  simp [ChunkRecord.bytes, toBE_length, h.id_len, h.hash_len]

theorem chunk_bytes_segs (r : ChunkRecord) :
    r.bytes = [r.id, toBE 2 r.cindex, toBE 2 r.type.toInt, toBE 8 r.size, r.hash].flatten := by
  simp [ChunkRecord.bytes]

theorem chunk_roundtrip (r : ChunkRecord) (h : WfChunk r) : ChunkRecord.ofBytes r.bytes = r := by
  have hid := h.id_len
  have hh := h.hash_len
  have seg := fun k hk => slice_flatten_at [r.id, toBE 2 r.cindex, toBE 2 r.type.toInt, toBE 8 r.size, r.hash] k hk
  have h1 : slice r.bytes 0 4 = r.id := by
    have := seg 0 (by simp); simpa [chunk_bytes_segs, hid] using this
  have h2 : slice r.bytes 4 2 = toBE 2 r.cindex := by
    have := seg 1 (by simp); simpa [chunk_bytes_segs, hid, toBE_length] using this
  have h3 : slice r.bytes 6 2 = toBE 2 r.type.toInt := by
    have := seg 2 (by simp); simpa [chunk_bytes_segs, hid, toBE_length] using this
  have h4 : slice r.bytes 8 8 = toBE 8 r.size := by
    have := seg 3 (by simp); simpa [chunk_bytes_segs, hid, toBE_length] using this
  have h5 : slice r.bytes 16 32 = r.hash := by
    have := seg 4 (by simp); simpa [chunk_bytes_segs, hid, hh, toBE_length] using this
  simp only [ChunkRecord.ofBytes, h1, h2, h3, h4, h5,
    readBE_toBE 2 _ (by have := h.cindex_lt; omega), readBE_toBE 2 _ (by have := typeFlags_lt r.type; omega),
    readBE_toBE 8 _ (by have := h.size_lt; omega), typeFlags_roundtrip]

theorem chunkList_flatMap (cs : List ChunkRecord) (hwf : ∀ c ∈ cs, WfChunk c) (n i : Nat) (h : i + n = cs.length) :
    chunkList (cs.flatMap ChunkRecord.bytes) n i = cs.drop i := by
  induction n generalizing i with
  | zero => simp [chunkList, show i = cs.length by omega]
  | succ m ih =>
    have hi : i < cs.length := by omega
    simp only [chunkList]
    have := slice_flatMap_chunk ChunkRecord.bytes 0x30 cs [] (fun x hx => chunk_bytes_length x (hwf x hx)) i hi
    rw [List.append_nil] at this
    rw [this, chunk_roundtrip _ (hwf _ (List.getElem_mem hi)), ih (i + 1) (by omega)]
    exact (List.getElem_cons_drop hi)

structure WfInfo (r : InfoRecord) : Prop where
  io_lt : r.indexOffset < 2 ^ 16
  cc_lt : r.commandCount < 2 ^ 16
  hash_len : r.hash.length = 32
  nonzero : r.bytes ≠ zeros 0x24

theorem info_bytes_length (r : InfoRecord) (h : WfInfo r) : r.bytes.length = 0x24 := by
  simp [InfoRecord.bytes, toBE_length, h.hash_len]

theorem info_parse (r : InfoRecord) (h : WfInfo r) :
    (⟨readBE (slice r.bytes 0 2), readBE (slice r.bytes 2 2), slice r.bytes 4 32⟩ : InfoRecord) = r := by
  have hh := h.hash_len
  have hb : r.bytes = [toBE 2 r.indexOffset, toBE 2 r.commandCount, r.hash].flatten := by simp [InfoRecord.bytes]
  have seg := fun k hk => slice_flatten_at [toBE 2 r.indexOffset, toBE 2 r.commandCount, r.hash] k hk
  have h1 : slice r.bytes 0 2 = toBE 2 r.indexOffset := by
    have := seg 0 (by simp); simpa [hb, toBE_length] using this
  have h2 : slice r.bytes 2 2 = toBE 2 r.commandCount := by
    have := seg 1 (by simp); simpa [hb, toBE_length] using this
  have h3 : slice r.bytes 4 32 = r.hash := by
    have := seg 2 (by simp); simpa [hb, hh, toBE_length] using this
  rw [h1, h2, h3, readBE_toBE 2 _ (by have := h.io_lt; omega), readBE_toBE 2 _ (by have := h.cc_lt; omega)]

/-- the 0x900-byte info block seen as 64 chunks of 0x24 bytes: the records, then all-zero slots -/
theorem infoBlock_chunks (rs : List InfoRecord) (hwf : ∀ r ∈ rs, WfInfo r) (hlen : rs.length ≤ 64) :
    infoBlock rs = (rs.map InfoRecord.bytes ++ List.replicate (64 - rs.length) (zeros 0x24)).flatMap id := by
  have hl : ∀ (l : List InfoRecord), (∀ r ∈ l, WfInfo r) → (l.flatMap InfoRecord.bytes).length = 0x24 * l.length := by
    intro l; induction l with
    | nil => intro _; rfl
    | cons a t ih =>
      intro h
      simp only [List.flatMap_cons, List.length_append, List.length_cons]
      rw [ih (fun r hr => h r (by simp [hr])), info_bytes_length a (h a (by simp))]; omega
  have hz : ∀ k : Nat, (List.replicate k (zeros 0x24)).flatMap id = zeros (0x24 * k) := by
    intro k; induction k with
    | zero => rfl
    | succ m ih =>
      rw [List.replicate_succ, List.flatMap_cons, ih]
      simp only [id, zeros]
      rw [List.replicate_append_replicate]; congr 1; omega
  simp only [infoBlock, List.flatMap_append, hz, hl rs hwf]
  congr 1
  · simp [List.flatMap_map]
  · congr 1; omega

theorem infoList_block (rs : List InfoRecord) (hwf : ∀ r ∈ rs, WfInfo r) (hlen : rs.length ≤ 64)
    (n i : Nat) (h : i + n = 64) : infoList (infoBlock rs) n i = rs.drop i := by
  rw [infoBlock_chunks rs hwf hlen]
  induction n generalizing i with
  | zero => simp [infoList]; omega
  | succ m ih =>
    simp only [infoList]
    have hchunk := slice_flatMap_chunk id 0x24 (rs.map InfoRecord.bytes ++ List.replicate (64 - rs.length) (zeros 0x24)) []
      (by
        intro x hx
        simp only [List.mem_append, List.mem_map, List.mem_replicate] at hx
        rcases hx with ⟨r, hr, rfl⟩ | ⟨_, rfl⟩
        · exact info_bytes_length r (hwf r hr)
        · simp) i (by simp; omega)
    rw [List.append_nil] at hchunk
    rw [hchunk]
    by_cases hi : i < rs.length
    · have hget : (rs.map InfoRecord.bytes ++ List.replicate (64 - rs.length) (zeros 0x24))[i]'(by simp; omega) = rs[i].bytes := by
        rw [List.getElem_append_left (by simpa using hi)]; simp
      simp only [hget, id]
      have hnz : (rs[i].bytes == zeros 0x24) = false := by
        have := (hwf rs[i] (List.getElem_mem hi)).nonzero
        simpa using this
      simp only [hnz, Bool.false_eq_true, if_false, info_parse _ (hwf rs[i] (List.getElem_mem hi))]
      rw [ih (i + 1) (by omega)]
      exact List.getElem_cons_drop hi
    · have hget : (rs.map InfoRecord.bytes ++ List.replicate (64 - rs.length) (zeros 0x24))[i]'(by simp; omega) = zeros 0x24 := by
        rw [List.getElem_append_right (by simpa using hi)]; simp
      simp only [hget, id, beq_self_eq_true, if_true]
      rw [ih (i + 1) (by omega), List.drop_of_length_le (by omega), List.drop_of_length_le (by omega)]

end Tmd
end Pyctr
