/-
  C17: which copy of the partition descriptor / table is the active one.
-/
import Proofs.SaveCont
namespace Pyctr
namespace Save

theorem readLE_eq_zero : ∀ (d : Bytes), readLE d = 0 ↔ ∀ b ∈ d, b = 0
  | [] => by simp [readLE]
  | b :: bs => by
    have ih := readLE_eq_zero bs
    simp only [readLE, List.mem_cons, forall_eq_or_imp]
    constructor
    · intro h
      have h1 : b.toNat = 0 := by omega
      have h2 : readLE bs = 0 := by omega
      refine ⟨?_, ih.mp h2⟩
      exact UInt8.toNat_inj.mp (by simpa using h1)
    · rintro ⟨h1, h2⟩
      rw [ih.mpr h2, h1]; rfl

/-- which copy of the descriptor / table is the active one: zero selects the primary, ANY other value of the field selects the
    secondary — DIFF reads a 32-bit word (all four bytes count), DISA one byte -/
theorem active_choice (header : Bytes) :
    ((∀ b ∈ slice header 0x30 4, b = 0) → diffDescOff header = le header 0x10 8) ∧
    ((∃ b ∈ slice header 0x30 4, b ≠ 0) → diffDescOff header = le header 0x8 8) ∧
    (header.getD 0x68 0 = 0 → disaTableOff header = le header 0x18 8) ∧
    (header.getD 0x68 0 ≠ 0 → disaTableOff header = le header 0x10 8) := by
  refine ⟨?_, ?_, ?_, ?_⟩
  · intro h
    have : le header 0x30 4 = 0 := (readLE_eq_zero _).mpr h
    simp [diffDescOff, this]
  · rintro ⟨b, hb, hne⟩
    have : le header 0x30 4 ≠ 0 := fun h0 => hne ((readLE_eq_zero _).mp h0 b hb)
    simp [diffDescOff, this]
  · intro h
    have : (header.getD 0x68 0).toNat = 0 := by rw [h]; rfl
    unfold disaTableOff; rw [if_pos this]
  · intro h
    have : (header.getD 0x68 0).toNat ≠ 0 := fun h0 => h (UInt8.toNat_inj.mp (by simpa using h0))
    unfold disaTableOff; rw [if_neg this]
end Save
end Pyctr
