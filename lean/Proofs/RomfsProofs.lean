import PyctrModel.Fmt.Romfs
import Proofs.BytesLemmas
namespace Pyctr
namespace Romfs

theorem dictSet_fresh (l : List (Str × PNode)) (k : Str) (v : PNode) (h : ∀ p ∈ l, p.1 ≠ k) :
    dictSet l k v = l ++ [(k, v)] := by
  have : l.any (·.1 == k) = false := by
    rw [List.any_eq_false]; intro p hp; simpa using h p hp
  simp [dictSet, this]

mutual
def needIter : Tree → Nat
  | .dir _ dirs files => 1 + needDirs dirs + files.length
def needDirs : List Tree → Nat
  | [] => 0
  | d :: ds => 1 + needIter d + needDirs ds
end

/-- keys of the entries a directory holds, in the order the reader inserts them -/
def keysOf (e : Env) : Tree → List Str
  | .dir _ dirs files => dirs.map (fun d => e.key d.name) ++ files.map (fun f => e.key f.1)

mutual
/-- sibling keys are pairwise distinct, everywhere in the tree -/
def Distinct (e : Env) : Tree → Prop
  | .dir n dirs files => (keysOf e (.dir n dirs files)).Pairwise (· ≠ ·) ∧ DistinctL e dirs
def DistinctL (e : Env) : List Tree → Prop
  | [] => True
  | d :: ds => Distinct e d ∧ DistinctL e ds
end

def fileEntries (e : Env) (fs : List (Str × Nat × Nat)) : List (Str × PNode) :=
  fs.map fun g => (e.key g.1, PNode.file g.1 g.2.1 g.2.2)

theorem decode_of_match (b : Bytes) (n : Str)
    (h : (match decodeUtf16 b with | .ok m => m == n && !badName m | .error _ => false) = true) :
    decodeUtf16 b = .ok n ∧ badName n = false := by
  cases hd : decodeUtf16 b with
  | error _ => rw [hd] at h; simp at h
  | ok m =>
    rw [hd] at h
    simp only [Bool.and_eq_true, beq_iff_eq, Bool.not_eq_true'] at h
    obtain ⟨h1, h2⟩ := h
    subst h1
    exact ⟨rfl, h2⟩

theorem fileLoop_rep (e : Env) : ∀ (fs : List (Str × Nat × Nat)) (off fuel : Nat) (out : List (Str × PNode)) (c : Counters),
    repFiles e off fs = true → off ≠ NONE → fs.length ≤ fuel → c.files + fs.length ≤ e.maxFiles →
    (fs.map (fun g => e.key g.1)).Pairwise (· ≠ ·) →
    (∀ p ∈ out, ∀ g ∈ fs, p.1 ≠ e.key g.1) →
    fileLoop e fuel off out c = .ok (out ++ fileEntries e fs, ⟨c.dirs, c.files + fs.length⟩) := by
  intro fs
  induction fs with
  | nil =>
    intro off fuel out c hrep hoff
    simp only [repFiles, beq_iff_eq] at hrep
    exact absurd hrep hoff
  | cons f fs ih =>
    intro off fuel out c hrep hoff hfuel hcnt hpw hout
    simp only [List.length_cons] at hfuel hcnt
    cases fuel with
    | zero => omega
    | succ n =>
      simp only [repFiles, Bool.and_eq_true, beq_iff_eq] at hrep
      obtain ⟨⟨⟨⟨⟨_, hlen⟩, hname⟩, hfo⟩, hfs⟩, hrest⟩ := hrep
      obtain ⟨hname', hgood⟩ := decode_of_match _ _ hname
      unfold fileLoop
      have hc : ¬ (c.files + 1 > e.maxFiles) := by omega
      simp only [hc, if_false, hlen, hname', hfo, hfs, hgood, Bool.false_eq_true]
      have hfresh : ∀ p ∈ out, p.1 ≠ e.key f.1 := fun p hp => hout p hp f (by simp)
      rw [dictSet_fresh _ _ _ hfresh]
      simp only [List.map_cons, List.pairwise_cons] at hpw
      by_cases hnext : readLE (slice (slice e.fm off 0x20) 0x4 4) = NONE
      · -- last file of the chain
        rw [hnext] at hrest
        have : fs = [] := by
          cases fs with
          | nil => rfl
          | cons g gs => simp [repFiles, NONE] at hrest
        subst this
        simp [hnext, fileEntries]
      · simp only [hnext, if_false]
        rw [ih _ n _ _ hrest hnext (by omega) (by simp only; omega) hpw.2]
        · simp only [fileEntries, List.map_cons, List.append_assoc, List.singleton_append, List.length_cons]
          rw [show c.files + 1 + fs.length = c.files + (fs.length + 1) by omega]
        · intro p hp q hq
          simp only [List.mem_append, List.mem_singleton] at hp
          rcases hp with hp | rfl
          · exact hout p hp q (List.mem_cons_of_mem _ hq)
          · exact hpw.1 (e.key q.1) (List.mem_map.mpr ⟨q, hq, rfl⟩)


theorem shapeContents_dir (e : Env) (n : Str) (dirs : List Tree) (files : List (Str × Nat × Nat)) :
    shapeContents e (.dir n dirs files) = shapeDirs e dirs ++ fileEntries e files := by
  simp [shapeContents, fileEntries]

theorem shapeDirs_keys (e : Env) (ds : List Tree) : (shapeDirs e ds).map (·.1) = ds.map (fun d => e.key d.name) := by
  induction ds with
  | nil => simp [shapeDirs]
  | cons d ds ih => simp [shapeDirs, ih]

theorem repDirs_none (e : Env) (ds : List Tree) (h : repDirs e NONE ds = true) : ds = [] := by
  cases ds with
  | nil => rfl
  | cons d ds => simp [repDirs, NONE] at h

theorem repFiles_none (e : Env) (fs : List (Str × Nat × Nat)) (h : repFiles e NONE fs = true) : fs = [] := by
  cases fs with
  | nil => rfl
  | cons f fs => simp [repFiles, NONE] at h

/-- the statement proved by induction on the fuel: `iterDir` on a represented tree and `dirLoop` on a
    represented sibling chain produce exactly the tree's shape and count its entries -/
def WalkOK (e : Env) (fuel : Nat) : Prop :=
  (∀ (t : Tree) (raw : Bytes) (c : Counters), repDir e raw t = true → needIter t ≤ fuel →
      c.dirs + t.numDirs ≤ e.maxDirs → c.files + t.numFiles ≤ e.maxFiles → Distinct e t →
      iterDir e fuel raw c = .ok (shapeContents e t, ⟨c.dirs + t.numDirs, c.files + t.numFiles⟩)) ∧
  (∀ (ds : List Tree) (off : Nat) (out : List (Str × PNode)) (c : Counters), repDirs e off ds = true → off ≠ NONE →
      needDirs ds ≤ fuel → c.dirs + numDirsL ds ≤ e.maxDirs → c.files + numFilesL ds ≤ e.maxFiles →
      DistinctL e ds → (ds.map (fun d => e.key d.name)).Pairwise (· ≠ ·) →
      (∀ p ∈ out, ∀ d ∈ ds, p.1 ≠ e.key d.name) →
      dirLoop e fuel off out c = .ok (out ++ shapeDirs e ds, ⟨c.dirs + numDirsL ds, c.files + numFilesL ds⟩))

theorem walkOK (e : Env) : ∀ fuel, WalkOK e fuel := by
  intro fuel
  induction fuel with
  | zero =>
    constructor
    · intro t raw c _ h; cases t; simp [needIter] at h
    · intro ds off out c hrep hoff h
      cases ds with
      | nil => simp only [repDirs, beq_iff_eq] at hrep; exact absurd hrep hoff
      | cons d ds => simp [needDirs] at h
  | succ n ih =>
    obtain ⟨ihA, ihB⟩ := ih
    constructor
    · -- iterDir
      intro t raw c hrep hfuel hd hf hdist
      obtain ⟨name, dirs, files⟩ := t
      simp only [repDir, Bool.and_eq_true] at hrep
      obtain ⟨hrd, hrf⟩ := hrep
      simp only [needIter] at hfuel
      simp only [Tree.numDirs, Tree.numFiles] at hd hf ⊢
      simp only [Distinct, keysOf] at hdist
      obtain ⟨hpw, hdl⟩ := hdist
      rw [List.pairwise_append] at hpw
      obtain ⟨hpd, hpf, hcross⟩ := hpw
      unfold iterDir
      rw [shapeContents_dir]
      -- child directories
      have hdirs : (if readLE (slice raw 0x8 4) ≠ NONE then dirLoop e n (readLE (slice raw 0x8 4)) [] c else .ok ([], c)) =
          .ok (shapeDirs e dirs, ⟨c.dirs + numDirsL dirs, c.files + numFilesL dirs⟩) := by
        by_cases hc : readLE (slice raw 0x8 4) = NONE
        · rw [hc] at hrd
          have := repDirs_none e dirs hrd; subst this
          simp [hc, shapeDirs, numDirsL, numFilesL]
        · simp only [ne_eq, hc, not_false_eq_true, if_true]
          have := ihB dirs _ [] c hrd hc (by omega) (by omega) (by omega) hdl hpd (by intro p hp; cases hp)
          simpa using this
      simp only [hdirs]
      by_cases hc : readLE (slice raw 0xC 4) = NONE
      · rw [hc] at hrf
        have := repFiles_none e files hrf; subst this
        simp [hc, fileEntries]
      · simp only [ne_eq, hc, not_false_eq_true, if_true]
        rw [fileLoop_rep e files _ n _ _ hrf hc (by omega) (by simp only; omega) hpf]
        · simp only [Nat.add_assoc, Nat.add_comm files.length]
        · intro p hp g hg
          have hk : p.1 ∈ dirs.map (fun d => e.key d.name) := by
            rw [← shapeDirs_keys]; exact List.mem_map.mpr ⟨p, hp, rfl⟩
          exact hcross p.1 hk (e.key g.1) (List.mem_map.mpr ⟨g, hg, rfl⟩)
    · -- dirLoop
      intro ds off out c hrep hoff hfuel hd hf hdl hpw hout
      cases ds with
      | nil => simp only [repDirs, beq_iff_eq] at hrep; exact absurd hrep hoff
      | cons d ds =>
        simp only [repDirs, Bool.and_eq_true, beq_iff_eq] at hrep
        obtain ⟨⟨⟨⟨_, hlen⟩, hname⟩, hrd⟩, hrest⟩ := hrep
        obtain ⟨hname', hgood⟩ := decode_of_match _ _ hname
        simp only [needDirs] at hfuel
        simp only [numDirsL, numFilesL] at hd hf ⊢
        simp only [DistinctL] at hdl
        simp only [List.map_cons, List.pairwise_cons] at hpw
        unfold dirLoop
        have hc : ¬ (c.dirs + 1 > e.maxDirs) := by omega
        simp only [hc, if_false, hlen, hname', hgood, Bool.false_eq_true]
        rw [ihA d _ _ hrd (by omega) (by simp only; omega) (by simp only; omega) hdl.1]
        have hfresh : ∀ p ∈ out, p.1 ≠ e.key d.name := fun p hp => hout p hp d (by simp)
        simp only [dictSet_fresh _ _ _ hfresh]
        by_cases hnext : readLE (slice (slice e.dm off 0x18) 0x4 4) = NONE
        · rw [hnext] at hrest
          have := repDirs_none e ds hrest; subst this
          simp only [hnext, if_true, shapeDirs, numDirsL, numFilesL, Nat.add_zero]
          congr 3 <;> omega
        · simp only [hnext, if_false]
          rw [ihB ds _ _ _ hrest hnext (by omega) (by simp only; omega) (by simp only; omega) hdl.2 hpw.2]
          · simp only [shapeDirs, List.append_assoc, List.singleton_append]
            congr 3 <;> omega
          · intro p hp q hq
            simp only [List.mem_append, List.mem_singleton] at hp
            rcases hp with hp | rfl
            · exact hout p hp q (List.mem_cons_of_mem _ hq)
            · exact hpw.1 (e.key q.name) (List.mem_map.mpr ⟨q, hq, rfl⟩)

/-- **C06 (walk).**  Whenever the metadata tables represent a tree (any shape, any depth, any names) whose sibling
    keys are distinct and whose entry counts fit the tables, the reader's directory walk yields exactly that tree. -/
theorem walk_represented (e : Env) (t : Tree) (fuel : Nat) (hrep : repDir e (slice e.dm 0 0x18) t = true)
    (hfuel : needIter t ≤ fuel) (hd : t.numDirs ≤ e.maxDirs) (hf : t.numFiles ≤ e.maxFiles) (hdist : Distinct e t) :
    iterDir e fuel (slice e.dm 0 0x18) ⟨0, 0⟩ = .ok (shapeContents e t, ⟨t.numDirs, t.numFiles⟩) := by
  have := (walkOK e fuel).1 t _ ⟨0, 0⟩ hrep hfuel (by simpa using hd) (by simpa using hf) hdist
  simpa using this


theorem needIter_eq : ∀ (n : Nat) (t : Tree), sizeOf t ≤ n → needIter t = 1 + 2 * t.numDirs + t.numFiles := by
  intro n
  induction n with
  | zero => intro t h; cases t; simp at h
  | succ m ih =>
    intro t _
    obtain ⟨name, dirs, files⟩ := t
    have hl : ∀ (ds : List Tree), sizeOf ds ≤ sizeOf dirs → needDirs ds = 2 * numDirsL ds + numFilesL ds := by
      intro ds
      induction ds with
      | nil => intro _; simp [needDirs, numDirsL, numFilesL]
      | cons d ds ihd =>
        intro hs
        simp only [needDirs, numDirsL, numFilesL]
        have h1 : sizeOf d ≤ m := by
          simp only [Tree.dir.sizeOf_spec, List.cons.sizeOf_spec] at *; omega
        rw [ih d h1, ihd (by simp only [List.cons.sizeOf_spec] at hs ⊢; omega)]
        omega
    simp only [needIter, Tree.numDirs, Tree.numFiles, hl dirs (Nat.le_refl _)]
    omega

theorem needIter_le (t : Tree) (maxD maxF : Nat) (hd : t.numDirs ≤ maxD) (hf : t.numFiles ≤ maxF) :
    needIter t ≤ 2 * maxD + maxF + 3 := by
  rw [needIter_eq (sizeOf t) t (Nat.le_refl _)]; omega

/-- case-insensitive mode: every spelling with the same lower-casing resolves to the same entry -/
theorem getRawInfo_ci (lower : Str → Str) (root : PNode) (p q : Str) (hp : p ≠ [0x2E]) (hq : q ≠ [0x2E])
    (h : lower p = lower q) : getRawInfo lower true root p = getRawInfo lower true root q := by
  have h1 : (p == [0x2E]) = false := by simpa using hp
  have h2 : (q == [0x2E]) = false := by simpa using hq
  simp only [getRawInfo, h1, h2, Bool.false_eq_true, if_false, if_true, h]

/-- case-sensitive mode never consults `lower`: only the exact spelling of each component is looked up -/
theorem getRawInfo_cs (l1 l2 : Str → Str) (root : PNode) (p : Str) :
    getRawInfo l1 false root p = getRawInfo l2 false root p := by
  simp [getRawInfo]

theorem walkParts_missing (n : Str) (cs : List (Str × PNode)) (part : Str) (rest : List Str) (hne : part ≠ [])
    (h : ∀ kv ∈ cs, kv.1 ≠ part) : walkParts (.dir n cs) (part :: rest) = .error (.other "RomFSFileNotFoundError") := by
  have h1 : (part == []) = false := by simpa using hne
  have h2 : cs.find? (·.1 == part) = none := by
    rw [List.find?_eq_none]; intro kv hkv; simpa using h kv hkv
  simp [walkParts, h1, h2]

theorem walkParts_found (n : Str) (cs : List (Str × PNode)) (part : Str) (rest : List Str) (hne : part ≠ [])
    (k : Str) (v : PNode) (h : cs.find? (·.1 == part) = some (k, v)) :
    walkParts (.dir n cs) (part :: rest) = walkParts v rest := by
  have h1 : (part == []) = false := by simpa using hne
  simp [walkParts, h1, h]


/-- the environment `parse` builds from a level-3 header `h` located at `start + lv3off` -/
def envOf (lower : Str → Str) (ci : Bool) (file : Bytes) (start lv3off : Nat) (h : Bytes) : Env :=
  mkEnv lower ci file (start + lv3off) (u32 h 12) (u32 h 16) (u32 h 28) (u32 h 32)

/-- the level-3 header checks of the constructor -/
def headerOK (h : Bytes) : Prop :=
  h.length = 0x28 ∧ u32 h 0 = 0x28 ∧ ¬ (u32 h 4 < u32 h 0) ∧ ¬ (u32 h 12 < u32 h 4 + u32 h 8) ∧
  ¬ (u32 h 20 < u32 h 12 + u32 h 16) ∧ ¬ (u32 h 28 < u32 h 20 + u32 h 24) ∧ ¬ (u32 h 36 < u32 h 28 + u32 h 32)

/-- **C06 (bare level 3, any start offset).**  A file whose level-3 header at `start` passes the header checks and
    whose metadata tables represent the tree `t` is parsed to exactly `t`, with file data located at
    `start + filedata_offset + entry offset`. -/
theorem parse_bare (lower : Str → Str) (ci : Bool) (file : Bytes) (start : Nat) (t : Tree)
    (hmagic : (slice (slice file start 0x5C) 0 4 == [0x49, 0x56, 0x46, 0x43]) = false)
    (hok : headerOK (slice (slice file start 0x5C) 0 0x28))
    (hrep : repDir (envOf lower ci file start 0 (slice (slice file start 0x5C) 0 0x28))
              (slice (envOf lower ci file start 0 (slice (slice file start 0x5C) 0 0x28)).dm 0 0x18) t = true)
    (hd : t.numDirs ≤ (envOf lower ci file start 0 (slice (slice file start 0x5C) 0 0x28)).maxDirs)
    (hf : t.numFiles ≤ (envOf lower ci file start 0 (slice (slice file start 0x5C) 0 0x28)).maxFiles)
    (hdist : Distinct (envOf lower ci file start 0 (slice (slice file start 0x5C) 0 0x28)) t) :
    parse lower ci file start =
      .ok ⟨.dir [0x52, 0x4F, 0x4F, 0x54] (shapeContents (envOf lower ci file start 0 (slice (slice file start 0x5C) 0 0x28)) t),
           0, 0 + u32 (slice (slice file start 0x5C) 0 0x28) 36⟩ := by
  generalize hh : slice (slice file start 0x5C) 0 0x28 = h at *
  obtain ⟨h1, h2, h3, h4, h5, h6, h7⟩ := hok
  have hw := walk_represented (envOf lower ci file start 0 h) t
    (2 * (envOf lower ci file start 0 h).maxDirs + (envOf lower ci file start 0 h).maxFiles + 3) hrep
    (needIter_le t _ _ hd hf) hd hf hdist
  unfold parse
  simp only [hmagic, Bool.false_eq_true, if_false, hh, h1, ne_eq, not_true_eq_false, h2, h3, h4, h5, h6, h7, or_self,
    Nat.add_zero]
  simp only [envOf, Nat.add_zero] at hw
  have h3' : ¬ (u32 h 4 < 40) := by rw [h2] at h3; exact h3
  simp only [h3', or_self, if_false]
  rw [hw]
  simp only [envOf, Nat.add_zero]

/-- **C06 (IVFC-wrapped).**  Behind an IVFC header the level-3 image starts at `roundup(0x60 + master hash size, 2^exponent)`;
    a file whose level-3 header there passes the header checks and whose tables represent `t` is parsed to exactly `t`, with the
    file data located relative to that offset. -/
theorem parse_ivfc (lower : Str → Str) (ci : Bool) (file : Bytes) (start : Nat) (t : Tree)
    (hmagic : (slice (slice file start 0x5C) 0 4 == [0x49, 0x56, 0x46, 0x43]) = true)
    (hnum : u32 (slice file start 0x5C) 4 = 0x10000) (hbs : ¬ u32 (slice file start 0x5C) 0x4C > 0x3F)
    (hok : headerOK (slice file (start + roundupNat (0x60 + u32 (slice file start 0x5C) 8) (2 ^ u32 (slice file start 0x5C) 0x4C)) 0x28))
    (hrep : repDir (envOf lower ci file start (roundupNat (0x60 + u32 (slice file start 0x5C) 8) (2 ^ u32 (slice file start 0x5C) 0x4C))
                (slice file (start + roundupNat (0x60 + u32 (slice file start 0x5C) 8) (2 ^ u32 (slice file start 0x5C) 0x4C)) 0x28))
              (slice (envOf lower ci file start (roundupNat (0x60 + u32 (slice file start 0x5C) 8) (2 ^ u32 (slice file start 0x5C) 0x4C))
                (slice file (start + roundupNat (0x60 + u32 (slice file start 0x5C) 8) (2 ^ u32 (slice file start 0x5C) 0x4C)) 0x28)).dm 0 0x18) t = true)
    (hd : t.numDirs ≤ (envOf lower ci file start (roundupNat (0x60 + u32 (slice file start 0x5C) 8) (2 ^ u32 (slice file start 0x5C) 0x4C))
                (slice file (start + roundupNat (0x60 + u32 (slice file start 0x5C) 8) (2 ^ u32 (slice file start 0x5C) 0x4C)) 0x28)).maxDirs)
    (hf : t.numFiles ≤ (envOf lower ci file start (roundupNat (0x60 + u32 (slice file start 0x5C) 8) (2 ^ u32 (slice file start 0x5C) 0x4C))
                (slice file (start + roundupNat (0x60 + u32 (slice file start 0x5C) 8) (2 ^ u32 (slice file start 0x5C) 0x4C)) 0x28)).maxFiles)
    (hdist : Distinct (envOf lower ci file start (roundupNat (0x60 + u32 (slice file start 0x5C) 8) (2 ^ u32 (slice file start 0x5C) 0x4C))
                (slice file (start + roundupNat (0x60 + u32 (slice file start 0x5C) 8) (2 ^ u32 (slice file start 0x5C) 0x4C)) 0x28)) t) :
    parse lower ci file start =
      .ok ⟨.dir [0x52, 0x4F, 0x4F, 0x54]
            (shapeContents (envOf lower ci file start (roundupNat (0x60 + u32 (slice file start 0x5C) 8) (2 ^ u32 (slice file start 0x5C) 0x4C))
                (slice file (start + roundupNat (0x60 + u32 (slice file start 0x5C) 8) (2 ^ u32 (slice file start 0x5C) 0x4C)) 0x28)) t),
           roundupNat (0x60 + u32 (slice file start 0x5C) 8) (2 ^ u32 (slice file start 0x5C) 0x4C),
           roundupNat (0x60 + u32 (slice file start 0x5C) 8) (2 ^ u32 (slice file start 0x5C) 0x4C) +
             u32 (slice file (start + roundupNat (0x60 + u32 (slice file start 0x5C) 8) (2 ^ u32 (slice file start 0x5C) 0x4C)) 0x28) 36⟩ := by
  generalize hoff : roundupNat (0x60 + u32 (slice file start 0x5C) 8) (2 ^ u32 (slice file start 0x5C) 0x4C) = off at *
  generalize hh : slice file (start + off) 0x28 = h at *
  obtain ⟨h1, h2, h3, h4, h5, h6, h7⟩ := hok
  have hw := walk_represented (envOf lower ci file start off h) t
    (2 * (envOf lower ci file start off h).maxDirs + (envOf lower ci file start off h).maxFiles + 3) hrep
    (needIter_le t _ _ hd hf) hd hf hdist
  unfold parse
  simp only [hmagic, if_true, hnum, ne_eq, not_true_eq_false, if_false, hbs, hoff, hh, h1, h2, h3, h4, h5, h6, h7, or_self]
  simp only [envOf] at hw
  have h3' : ¬ (u32 h 4 < 40) := by rw [h2] at h3; exact h3
  simp only [h3', or_self, if_false]
  rw [hw]
  simp only [envOf]

end Romfs
end Pyctr
