/-
  C20: config savegame — typed accessors (username, RTC offset, system model) and the block store.
-/
import Proofs.CodecProofs
namespace Pyctr
namespace ConfigSave
open Smdh (U16s unitsOfBytes bytesOfUnits validUtf16)

theorem find_map_set (blocks : List Block) (id : Nat) (nb : Block) (hnb : nb.id = id) (h : blocks.any (·.id == id) = true) :
    (blocks.map fun b => if b.id == id then nb else b).find? (·.id == id) = some nb := by
  induction blocks with
  | nil => simp at h
  | cons b r ih =>
    simp only [List.map_cons]
    by_cases hb : (b.id == id) = true
    · simp only [hb, if_true]
      rw [List.find?_cons]
      simp [hnb]
    · simp only [hb]
      rw [List.find?_cons]
      have hb' : (b.id == id) = false := by simpa using hb
      simp only [hb', Bool.false_eq_true, if_false]
      simp only [List.any_cons, hb', Bool.false_or] at h
      exact ih h

theorem find_map_other (blocks : List Block) (id j : Nat) (nb : Block) (hnb : nb.id = id) (hj : j ≠ id) :
    (blocks.map fun b => if b.id == id then nb else b).find? (·.id == j) = blocks.find? (·.id == j) := by
  induction blocks with
  | nil => rfl
  | cons b r ih =>
    simp only [List.map_cons, List.find?_cons]
    by_cases hb : (b.id == id) = true
    · have hbe : b.id = id := by simpa using hb
      have h1 : (nb.id == j) = false := by rw [hnb]; simpa using (Ne.symm hj)
      have h2 : (b.id == j) = false := by rw [hbe]; simpa using (Ne.symm hj)
      simp only [hb, if_true, h1, h2]
      exact ih
    · have hb' : (b.id == id) = false := by simpa using hb
      simp only [hb', Bool.false_eq_true, if_false]
      cases hbj : (b.id == j)
      · exact ih
      · rfl

theorem setBlock_ok (blocks blocks' : List Block) (id : Nat) (data : Bytes) (flags : Option Nat)
    (h : setBlock blocks id data flags = .ok blocks') :
    ∃ fl efl, blocks' = put blocks id fl data ∧ knownOf id = some (efl, data.length) ∧ (flags = none ∨ flags = some efl) ∧
      (fl = 0x8 ∨ fl = 0xC ∨ fl = 0xA ∨ fl = 0xE) ∧ fl = resolveFlags blocks id flags efl := by
  unfold setBlock at h
  cases hk : knownOf id with
  | none => rw [hk] at h; cases h
  | some p =>
    obtain ⟨efl, esz⟩ := p
    rw [hk] at h
    simp only at h
    by_cases h1 : flags.isSome = true ∧ flags ≠ some efl
    · rw [if_pos h1] at h; cases h
    · rw [if_neg h1] at h
      by_cases h2 : data.length ≠ esz
      · rw [if_pos h2] at h; cases h
      · rw [if_neg h2] at h
        generalize hfl : resolveFlags blocks id flags efl = fl at h
        by_cases h3 : fl ≠ 8 ∧ fl ≠ 12 ∧ fl ≠ 10 ∧ fl ≠ 14
        · rw [if_pos h3] at h; cases h
        · rw [if_neg h3] at h
          refine ⟨fl, efl, ?_, ?_, ?_, by omega, hfl.symm⟩
          · simp only [Except.ok.injEq] at h; exact h.symm
          · have : data.length = esz := by omega
            rw [this]
          · cases flags with
            | none => left; rfl
            | some f =>
              right
              simp only [Option.isSome_some, true_and, ne_eq, Decidable.not_not] at h1
              exact h1

theorem put_get (blocks : List Block) (id fl : Nat) (data : Bytes) : getBlock (put blocks id fl data) id = .ok ⟨id, fl, data⟩ := by
  unfold put getBlock
  by_cases hany : (blocks.any fun x => x.id == id) = true
  · rw [if_pos hany, find_map_set blocks id _ rfl hany]
  · rw [if_neg hany]
    have hnone : blocks.find? (·.id == id) = none := by
      rw [List.find?_eq_none]
      intro x hx hc
      apply hany
      rw [List.any_eq_true]
      exact ⟨x, hx, hc⟩
    rw [List.find?_append, hnone]
    simp

theorem put_other (blocks : List Block) (id fl j : Nat) (data : Bytes) (hj : j ≠ id) :
    getBlock (put blocks id fl data) j = getBlock blocks j := by
  unfold put getBlock
  by_cases hany : (blocks.any fun x => x.id == id) = true
  · rw [if_pos hany, find_map_other blocks id j _ rfl hj]
  · rw [if_neg hany, List.find?_append]
    have : ([({ id := id, flags := fl, data := data } : Block)].find? (·.id == j)) = none := by
      rw [List.find?_eq_none]; intro x hx; simp only [List.mem_singleton] at hx; subst hx; simpa using (Ne.symm hj)
    rw [this]; simp

/-- what `set_block` stores can be fetched again: same data, and the flags it resolved -/
theorem setBlock_get (blocks blocks' : List Block) (id : Nat) (data : Bytes) (flags : Option Nat)
    (h : setBlock blocks id data flags = .ok blocks') : ∃ fl, getBlock blocks' id = .ok ⟨id, fl, data⟩ := by
  obtain ⟨fl, efl, hb, _, _, _, _⟩ := setBlock_ok _ _ _ _ _ h
  exact ⟨fl, by rw [hb, put_get]⟩

/-- ... and no other block changes -/
theorem setBlock_other (blocks blocks' : List Block) (id j : Nat) (data : Bytes) (flags : Option Nat)
    (h : setBlock blocks id data flags = .ok blocks') (hj : j ≠ id) : getBlock blocks' j = getBlock blocks j := by
  obtain ⟨fl, efl, hb, _, _, _, _⟩ := setBlock_ok _ _ _ _ _ h
  rw [hb, put_other _ _ _ _ _ hj]

/-- a block added without explicit flags gets the flags of the strict table -/
theorem setBlock_default (blocks blocks' : List Block) (id : Nat) (data : Bytes)
    (h : setBlock blocks id data none = .ok blocks') (hnew : blocks.find? (·.id == id) = none) :
    ∃ efl, knownOf id = some (efl, data.length) ∧ getBlock blocks' id = .ok ⟨id, efl, data⟩ := by
  obtain ⟨fl, efl, hb, hk, _, _, hfl⟩ := setBlock_ok _ _ _ _ _ h
  refine ⟨efl, hk, ?_⟩
  rw [hb, put_get, hfl]
  simp only [resolveFlags, hnew]

theorem cutAtZero_append (u : U16s) (k : Nat) (h : ∀ x, x ∈ u → x ≠ 0) : cutAtZero (u ++ List.replicate k 0) = u := by
  induction u with
  | nil => cases k <;> simp [cutAtZero, List.replicate_succ]
  | cons x r ih =>
    simp only [List.cons_append, cutAtZero]
    rw [if_neg (h x (by simp))]
    rw [ih (fun y hy => h y (by simp [hy]))]

/-- **username**: a name of well-formed UTF-16 code units without NUL that fits the 28-byte block is read back exactly -/
theorem username_roundtrip (blocks blocks' : List Block) (v : U16s) (hfit : 2 * v.length ≤ 28)
    (hu : ∀ x, x ∈ v → x < 65536) (hnz : ∀ x, x ∈ v → x ≠ 0)
    (h : usernameSet blocks v = .ok blocks') : usernameGet blocks' = .ok v := by
  unfold usernameSet at h
  split at h
  · cases h
  · rename_i hval
    have hvalid : validUtf16 v = true := by simpa using hval
    obtain ⟨fl, hg⟩ := setBlock_get _ _ _ _ _ h
    unfold usernameGet
    rw [hg]
    simp only
    have hlen : (ljust (bytesOfUnits v) 28).length = 28 := by
      unfold ljust; simp [Smdh.bytesOfUnits_length]; omega
    have hk : 28 - (bytesOfUnits v).length = 2 * ((28 - 2 * v.length) / 2) := by rw [Smdh.bytesOfUnits_length]; omega
    have hunits : unitsOfBytes (ljust (bytesOfUnits v) 28) = v ++ List.replicate ((28 - 2 * v.length) / 2) 0 := by
      unfold ljust
      rw [Smdh.unitsOfBytes_append v.length _ _ (Smdh.bytesOfUnits_length v), Smdh.units_bytes v hu, hk]
      congr 1
      exact Smdh.unitsOfBytes_zeros _
    rw [hlen, hunits, Smdh.valid_append_zeros _ v.length v (Nat.le_refl _) hvalid]
    simp only [Nat.reduceMod, ne_eq, not_true_eq_false, Bool.not_true, Bool.false_eq_true, or_self, if_false]
    rw [cutAtZero_append v _ hnz]

/-- **RTC offset**: every value below 2^64 is read back -/
theorem time_roundtrip (blocks blocks' : List Block) (v : Nat) (hv : v < 2 ^ 64)
    (h : timeSet blocks (v : Int) = .ok blocks') : timeGet blocks' = .ok v := by
  unfold timeSet at h
  rw [if_neg (by omega)] at h
  obtain ⟨fl, hg⟩ := setBlock_get _ _ _ _ _ h
  unfold timeGet
  rw [hg]
  simp only [Except.map, Int.toNat_natCast]
  rw [Exefs.readLE_toLE 8 v (by simpa using hv)]

/-- **system model**: each of the six models is read back, and bytes 1-3 of an existing block are kept -/
theorem model_roundtrip (blocks blocks' : List Block) (m : Nat) (hm : m ≤ 5)
    (h : modelSet blocks (m : Int) = .ok blocks') :
    modelGet blocks' = .ok m ∧
    ∀ b, getBlock blocks 0x000F0004 = .ok b → ∃ fl, getBlock blocks' 0x000F0004 = .ok ⟨0x000F0004, fl, UInt8.ofNat m :: b.data.drop 1⟩ := by
  unfold modelSet at h
  rw [if_neg (by omega)] at h
  split at h
  · cases h
  · rename_i x rest hold
    obtain ⟨fl, hg⟩ := setBlock_get _ _ _ _ _ h
    constructor
    · unfold modelGet
      rw [hg]
      simp only [Int.toNat_natCast]
      have : (UInt8.ofNat m).toNat = m := by
        have : m < 256 := by omega
        simp [UInt8.toNat_ofNat, Nat.mod_eq_of_lt this]
      rw [this, if_pos hm]
    · intro b hb
      rw [hb] at hold
      simp only at hold
      refine ⟨fl, ?_⟩
      rw [hg, hold]
      simp

end ConfigSave
end Pyctr

/-! ### the image: `load (to_bytes blocks) = blocks` -/
namespace Pyctr
namespace ConfigSave

def nextOff (off : Nat) (b : Block) : Nat := if b.data.length > 4 then off - b.data.length else off

def offAfter : Nat → List Block → Nat
  | off, [] => off
  | off, b :: r => offAfter (nextOff off b) r

def entryOf (b : Block) (off : Nat) : Bytes :=
  if b.data.length > 4 then toLE 4 b.id ++ toLE 4 (off - b.data.length) ++ toLE 2 b.data.length ++ toLE 2 b.flags
  else toLE 4 b.id ++ ljust b.data 4 ++ toLE 2 b.data.length ++ toLE 2 b.flags

def entriesFrom : Nat → List Block → Bytes
  | _, [] => []
  | off, b :: r => entryOf b off ++ entriesFrom (nextOff off b) r

def datasOf : List Block → Bytes
  | [] => []
  | b :: r => datasOf r ++ (if b.data.length > 4 then b.data else [])

/-- the checks `to_bytes` makes while walking the blocks -/
def StepsOK (limit : Nat) : Nat → List Block → Prop
  | _, [] => True
  | off, b :: r => b.id < 2 ^ 32 ∧ b.data.length < 2 ^ 16 ∧ b.flags < 2 ^ 16 ∧
      (b.data.length > 4 → b.data.length ≤ off ∧ limit ≤ off - b.data.length) ∧ StepsOK limit (nextOff off b) r

theorem foldl_step_error (limit : Nat) (bl : List Block) (e : Err) : bl.foldl (toBytesStep limit) (.error e) = .error e := by
  induction bl with
  | nil => rfl
  | cons b r ih => simp only [List.foldl_cons, toBytesStep]; exact ih

theorem step_eq (limit off : Nat) (e d : Bytes) (b : Block) :
    toBytesStep limit (.ok (off, e, d)) b =
      if b.id ≥ 2 ^ 32 ∨ b.data.length ≥ 2 ^ 16 ∨ b.flags ≥ 2 ^ 16 then .error (.other "OverflowError")
      else if b.data.length > 4 then
        if off < b.data.length ∨ off - b.data.length < limit then .error (.other "OutOfSpaceConfigSaveError")
        else .ok (off - b.data.length, e ++ (toLE 4 b.id ++ toLE 4 (off - b.data.length) ++ toLE 2 b.data.length ++ toLE 2 b.flags), b.data ++ d)
      else .ok (off, e ++ (toLE 4 b.id ++ ljust b.data 4 ++ toLE 2 b.data.length ++ toLE 2 b.flags), d) := rfl

theorem fold_closed (limit : Nat) : ∀ (bl : List Block) (off : Nat) (e d : Bytes) (res : Nat × Bytes × Bytes),
    bl.foldl (toBytesStep limit) (.ok (off, e, d)) = .ok res →
    res = (offAfter off bl, e ++ entriesFrom off bl, datasOf bl ++ d) ∧ StepsOK limit off bl := by
  intro bl
  induction bl with
  | nil =>
    intro off e d res h
    simp only [List.foldl_nil, Except.ok.injEq] at h
    subst h
    simp [offAfter, entriesFrom, datasOf, StepsOK]
  | cons b r ih =>
    intro off e d res h
    simp only [List.foldl_cons] at h
    rw [step_eq] at h
    by_cases h1 : b.id ≥ 2 ^ 32 ∨ b.data.length ≥ 2 ^ 16 ∨ b.flags ≥ 2 ^ 16
    · rw [if_pos h1, foldl_step_error] at h; cases h
    · rw [if_neg h1] at h
      by_cases h2 : b.data.length > 4
      · rw [if_pos h2] at h
        by_cases h3 : off < b.data.length ∨ off - b.data.length < limit
        · rw [if_pos h3, foldl_step_error] at h; cases h
        · rw [if_neg h3] at h
          obtain ⟨hr, hs⟩ := ih _ _ _ _ h
          refine ⟨?_, ?_⟩
          · rw [hr]; simp only [offAfter, entriesFrom, datasOf, nextOff, entryOf, if_pos h2, List.append_assoc]
          · simp only [StepsOK, nextOff, if_pos h2]
            exact ⟨by omega, by omega, by omega, fun _ => ⟨by omega, by omega⟩, hs⟩
      · rw [if_neg h2] at h
        obtain ⟨hr, hs⟩ := ih _ _ _ _ h
        refine ⟨?_, ?_⟩
        · rw [hr]; simp only [offAfter, entriesFrom, datasOf, nextOff, entryOf, if_neg h2, List.append_assoc, List.append_nil]
        · simp only [StepsOK, nextOff, if_neg h2]
          exact ⟨by omega, by omega, by omega, fun hc => absurd hc h2, hs⟩

theorem entryOf_length (b : Block) (off : Nat) : (entryOf b off).length = 12 := by
  unfold entryOf
  by_cases h : b.data.length > 4
  · rw [if_pos h]; simp [Exefs.toLE_length]
  · rw [if_neg h]; simp only [List.length_append, Exefs.toLE_length, ljust, List.length_replicate]; omega

theorem entriesFrom_length : ∀ (bl : List Block) (off : Nat), (entriesFrom off bl).length = 12 * bl.length := by
  intro bl
  induction bl with
  | nil => intro off; rfl
  | cons b r ih => intro off; simp only [entriesFrom, List.length_append, entryOf_length, ih, List.length_cons]; omega

theorem offAfter_append : ∀ (l1 l2 : List Block) (off : Nat), offAfter off (l1 ++ l2) = offAfter (offAfter off l1) l2 := by
  intro l1
  induction l1 with
  | nil => intro l2 off; rfl
  | cons b r ih => intro l2 off; simp only [List.cons_append, offAfter]; exact ih _ _

theorem datasOf_append : ∀ (l1 l2 : List Block), datasOf (l1 ++ l2) = datasOf l2 ++ datasOf l1 := by
  intro l1
  induction l1 with
  | nil => intro l2; simp [datasOf]
  | cons b r ih => intro l2; simp only [List.cons_append, datasOf, ih, List.append_assoc]

theorem offAfter_le : ∀ (bl : List Block) (off : Nat), offAfter off bl ≤ off := by
  intro bl
  induction bl with
  | nil => intro off; exact Nat.le_refl _
  | cons b r ih =>
    intro off
    simp only [offAfter]
    have := ih (nextOff off b)
    have h2 : nextOff off b ≤ off := by unfold nextOff; split <;> omega
    omega

theorem off_plus_datas (limit : Nat) : ∀ (bl : List Block) (off : Nat), StepsOK limit off bl →
    offAfter off bl + (datasOf bl).length = off := by
  intro bl
  induction bl with
  | nil => intro off _; simp [offAfter, datasOf]
  | cons b r ih =>
    intro off h
    simp only [StepsOK] at h
    obtain ⟨_, _, _, hb, hr⟩ := h
    have := ih _ hr
    simp only [offAfter, datasOf, List.length_append]
    by_cases hbig : b.data.length > 4
    · have hn : nextOff off b = off - b.data.length := by unfold nextOff; rw [if_pos hbig]
      rw [if_pos hbig]
      rw [hn] at this ⊢
      have := hb hbig
      omega
    · have hn : nextOff off b = off := by unfold nextOff; rw [if_neg hbig]
      rw [if_neg hbig]
      rw [hn] at this ⊢
      simp only [List.length_nil]
      omega

theorem offAfter_ge (limit : Nat) : ∀ (bl : List Block) (off : Nat), StepsOK limit off bl → limit ≤ off → limit ≤ offAfter off bl := by
  intro bl
  induction bl with
  | nil => intro off _ h; exact h
  | cons b r ih =>
    intro off h hl
    simp only [StepsOK] at h
    obtain ⟨_, _, _, hb, hr⟩ := h
    simp only [offAfter]
    apply ih _ hr
    unfold nextOff
    by_cases hbig : b.data.length > 4
    · rw [if_pos hbig]; exact (hb hbig).2
    · rw [if_neg hbig]; exact hl

/-- the checks at position `k`, with the offset reached after the first `k` blocks -/
theorem steps_at (limit : Nat) : ∀ (bl : List Block) (off k : Nat) (hk : k < bl.length), StepsOK limit off bl →
    bl[k].id < 2 ^ 32 ∧ bl[k].data.length < 2 ^ 16 ∧ bl[k].flags < 2 ^ 16 ∧
      (bl[k].data.length > 4 → bl[k].data.length ≤ offAfter off (bl.take k) ∧ limit ≤ offAfter off (bl.take k) - bl[k].data.length) ∧
      StepsOK limit off (bl.take k) := by
  intro bl
  induction bl with
  | nil => intro off k hk; simp at hk
  | cons b r ih =>
    intro off k hk h
    simp only [StepsOK] at h
    obtain ⟨h1, h2, h3, hb, hr⟩ := h
    cases k with
    | zero => simp only [List.getElem_cons_zero, List.take_zero, offAfter, StepsOK]; exact ⟨h1, h2, h3, hb, trivial⟩
    | succ k =>
      simp only [List.getElem_cons_succ, List.take_succ_cons, offAfter, StepsOK]
      obtain ⟨a1, a2, a3, a4, a5⟩ := ih (nextOff off b) k (by simpa using hk) hr
      exact ⟨a1, a2, a3, a4, h1, h2, h3, hb, a5⟩

theorem entries_at : ∀ (bl : List Block) (off k : Nat) (hk : k < bl.length),
    slice (entriesFrom off bl) (k * 12) 12 = entryOf bl[k] (offAfter off (bl.take k)) := by
  intro bl
  induction bl with
  | nil => intro off k hk; simp at hk
  | cons b r ih =>
    intro off k hk
    cases k with
    | zero =>
      simp only [entriesFrom, List.getElem_cons_zero, List.take_zero, offAfter, Nat.zero_mul]
      rw [Pyctr.slice_append_left _ _ 0 12 (by rw [entryOf_length]; omega)]
      exact slice_all _ _ (by rw [entryOf_length]; omega)
    | succ k =>
      simp only [entriesFrom, List.getElem_cons_succ, List.take_succ_cons, offAfter]
      rw [Pyctr.slice_append_right' _ _ ((k + 1) * 12) (k * 12) 12 (by rw [entryOf_length]; omega)]
      exact ih _ k (by simpa using hk)

theorem four_parts (a b c d : Bytes) (ha : a.length = 4) (hb : b.length = 4) (hc : c.length = 2) (hd : d.length = 2) :
    slice (a ++ b ++ c ++ d) 0 4 = a ∧ slice (a ++ b ++ c ++ d) 4 4 = b ∧ slice (a ++ b ++ c ++ d) 8 2 = c ∧
      slice (a ++ b ++ c ++ d) 10 2 = d := by
  refine ⟨?_, ?_, ?_, ?_⟩
  · rw [Pyctr.slice_append_left _ _ 0 4 (by simp; omega), Pyctr.slice_append_left _ _ 0 4 (by simp; omega),
      Pyctr.slice_append_left _ _ 0 4 (by omega)]
    exact slice_all _ _ (by omega)
  · rw [Pyctr.slice_append_left _ _ 4 4 (by simp; omega), Pyctr.slice_append_left _ _ 4 4 (by simp; omega),
      Pyctr.slice_append_right' _ _ 4 0 4 (by omega)]
    exact slice_all _ _ (by omega)
  · rw [Pyctr.slice_append_left _ _ 8 2 (by simp; omega), Pyctr.slice_append_right' _ _ 8 0 2 (by simp; omega)]
    exact slice_all _ _ (by omega)
  · rw [Pyctr.slice_append_right' _ _ 10 0 2 (by simp; omega)]
    exact slice_all _ _ (by omega)

/-- the fields `load` extracts from the entry that `to_bytes` wrote for block `b` when the data offset stood at `o` -/
theorem entry_fields (b : Block) (o : Nat) (h1 : b.id < 2 ^ 32) (h2 : b.data.length < 2 ^ 16) (h3 : b.flags < 2 ^ 16)
    (ho : o < 2 ^ 32) :
    readLE (slice (entryOf b o) 0 4) = b.id ∧ readLE (slice (entryOf b o) 8 2) = b.data.length ∧
      readLE (slice (entryOf b o) 0xA 2) = b.flags ∧
      (b.data.length > 4 → readLE (slice (entryOf b o) 4 4) = o - b.data.length) ∧
      (¬ b.data.length > 4 → slice (slice (entryOf b o) 4 4) 0 b.data.length = b.data) := by
  unfold entryOf
  by_cases hbig : b.data.length > 4
  · rw [if_pos hbig]
    obtain ⟨p1, p2, p3, p4⟩ := four_parts (toLE 4 b.id) (toLE 4 (o - b.data.length)) (toLE 2 b.data.length) (toLE 2 b.flags)
      (Exefs.toLE_length _ _) (Exefs.toLE_length _ _) (Exefs.toLE_length _ _) (Exefs.toLE_length _ _)
    rw [p1, p2, p3, p4]
    refine ⟨Exefs.readLE_toLE 4 _ (by simpa using h1), Exefs.readLE_toLE 2 _ (by simpa using h2),
      Exefs.readLE_toLE 2 _ (by simpa using h3), fun _ => Exefs.readLE_toLE 4 _ (by have : o - b.data.length < 2 ^ 32 := by omega
                                                                                    simpa using this), fun hc => absurd hbig hc⟩
  · rw [if_neg hbig]
    have hl : (ljust b.data 4).length = 4 := by simp only [ljust, List.length_append, List.length_replicate]; omega
    obtain ⟨p1, p2, p3, p4⟩ := four_parts (toLE 4 b.id) (ljust b.data 4) (toLE 2 b.data.length) (toLE 2 b.flags)
      (Exefs.toLE_length _ _) hl (Exefs.toLE_length _ _) (Exefs.toLE_length _ _)
    rw [p1, p2, p3, p4]
    refine ⟨Exefs.readLE_toLE 4 _ (by simpa using h1), Exefs.readLE_toLE 2 _ (by simpa using h2),
      Exefs.readLE_toLE 2 _ (by simpa using h3), fun hc => absurd hc hbig, fun _ => ?_⟩
    unfold ljust
    rw [Pyctr.slice_append_left _ _ 0 _ (by omega)]
    exact slice_all _ _ (by omega)

theorem entry_small_data (b : Block) (o : Nat) (h1 : b.id < 2 ^ 32) (h2 : b.data.length < 2 ^ 16) (h3 : b.flags < 2 ^ 16)
    (ho : o < 2 ^ 32) (hs : ¬ b.data.length > 4) : slice (entryOf b o) 4 b.data.length = b.data := by
  have := (entry_fields b o h1 h2 h3 ho).2.2.2.2 hs
  rw [slice_slice _ 4 4 0 _ (by omega)] at this
  exact this

theorem known_flags_all : ∀ e ∈ known, e.2.1 = 0xC ∨ e.2.1 = 0xE := by decide

theorem known_flags (id efl esz : Nat) (h : knownOf id = some (efl, esz)) : efl = 0xC ∨ efl = 0xE := by
  unfold knownOf at h
  cases hf : known.find? (·.1 == id) with
  | none => rw [hf] at h; cases h
  | some e =>
    rw [hf] at h
    simp only [Option.map_some, Option.some.injEq] at h
    have := known_flags_all e (List.mem_of_find?_eq_some hf)
    rw [h] at this
    exact this

theorem setBlock_new (blocks : List Block) (b : Block) (hknown : knownOf b.id = some (b.flags, b.data.length))
    (hnew : blocks.any (·.id == b.id) = false) : setBlock blocks b.id b.data (some b.flags) = .ok (blocks ++ [b]) := by
  unfold setBlock
  rw [hknown]
  simp only
  rw [if_neg (by simp), if_neg (by simp)]
  have hr : resolveFlags blocks b.id (some b.flags) b.flags = b.flags := rfl
  rw [hr]
  have := known_flags _ _ _ hknown
  rw [if_neg (by omega)]
  unfold put
  rw [hnew]
  simp

theorem loadStep_ok (raw E : Bytes) (dataOff : Nat) (blocks : List Block) (x : Nat) (b : Block) (o : Nat)
    (hE : slice E (x * 0xC) 0xC = entryOf b o) (h1 : b.id < 2 ^ 32) (h2 : b.data.length < 2 ^ 16) (h3 : b.flags < 2 ^ 16)
    (ho : o < 2 ^ 32) (hdata : b.data.length > 4 → slice raw (o - b.data.length) b.data.length = b.data)
    (hchk : b.data.length > 4 → b.data.length ≤ o ∧ dataOff ≤ o - b.data.length)
    (hknown : knownOf b.id = some (b.flags, b.data.length)) (hnew : blocks.any (·.id == b.id) = false) :
    loadStep raw E dataOff (.ok (o, blocks)) x = .ok (nextOff o b, blocks ++ [b]) := by
  unfold loadStep
  simp only
  rw [hE]
  obtain ⟨f1, f2, f3, f4, _⟩ := entry_fields b o h1 h2 h3 ho
  rw [f1, f2, f3]
  by_cases hbig : b.data.length > 4
  · rw [f4 hbig, if_pos hbig, if_neg (by omega)]
    obtain ⟨c1, c2⟩ := hchk hbig
    rw [if_neg (by omega)]
    simp only
    rw [hdata hbig, setBlock_new blocks b hknown hnew]
    simp only [nextOff, if_pos hbig]
  · rw [if_neg hbig, if_pos (by omega)]
    simp only
    rw [entry_small_data b o h1 h2 h3 ho hbig, setBlock_new blocks b hknown hnew]
    simp only [nextOff, if_neg hbig]

/-- a block list as the strict `set_block` can build it: known ids with the table's flags and sizes, no id twice -/
structure WF (bl : List Block) : Prop where
  known : ∀ b, b ∈ bl → knownOf b.id = some (b.flags, b.data.length)
  distinct : (bl.map (·.id)).Nodup
  count : bl.length ≤ 2000

theorem not_any_take (bl : List Block) (hd : (bl.map (·.id)).Nodup) (k : Nat) (hk : k < bl.length) :
    (bl.take k).any (·.id == bl[k].id) = false := by
  rw [Bool.eq_false_iff]
  intro hc
  rw [List.any_eq_true] at hc
  obtain ⟨x, hx, hxe⟩ := hc
  have hxe : x.id = bl[k].id := by simpa using hxe
  obtain ⟨i, hi, hxi⟩ := List.getElem_of_mem hx
  rw [List.length_take] at hi
  rw [List.getElem_take] at hxi
  have hik : i < k := by omega
  have hinj := (List.getElem?_inj (i := i) (j := k) (l := bl.map (·.id)) (by simp; omega) hd).mp (by
    rw [List.getElem?_eq_getElem (by simp; omega), List.getElem?_eq_getElem (by simp; omega)]
    simp only [List.getElem_map]
    rw [hxi, hxe])
  omega

/-- **config savegame image**: what `to_bytes` writes for a well-formed block list is loaded back as exactly that list -/
theorem cfg_roundtrip (bl : List Block) (hwf : WF bl) (img : Bytes) (hb : toBytes bl = .ok img) : load img = .ok bl := by
  unfold toBytes at hb
  cases hf : bl.foldl (toBytesStep (4 + bl.length * 0xC)) (.ok (saveSize, [], [])) with
  | error e => rw [hf] at hb; cases hb
  | ok res =>
    rw [hf] at hb
    obtain ⟨hres, hsteps⟩ := fold_closed _ _ _ _ _ _ hf
    subst hres
    simp only [List.nil_append, List.append_nil] at hb
    by_cases hov : bl.length ≥ 2 ^ 16 ∨ offAfter saveSize bl ≥ 2 ^ 16
    · rw [if_pos hov] at hb; cases hb
    · rw [if_neg hov] at hb
      simp only [Except.ok.injEq] at hb
      -- abbreviations
      generalize hn : bl.length = n at *
      generalize hE : entriesFrom saveSize bl = E at *
      generalize hD : datasOf bl = D at *
      generalize hoF : offAfter saveSize bl = offF at *
      have hEl : E.length = 12 * n := by rw [← hE, entriesFrom_length, hn]
      have hsum : offF + D.length = saveSize := by rw [← hoF, ← hD]; exact off_plus_datas _ _ _ hsteps
      have hcount := hwf.count
      have hlim : 4 + n * 0xC ≤ offF := by
        rw [← hoF]; exact offAfter_ge _ _ _ hsteps (by unfold saveSize; omega)
      have hhdr : (toLE 2 n ++ toLE 2 offF ++ E).length = 4 + 12 * n := by
        simp only [List.length_append, Exefs.toLE_length, hEl]
      have hss : saveSize = 0x8000 := rfl
      have himgl : img.length = saveSize := by
        rw [← hb]; simp only [List.length_append, zeros_length, hhdr]; omega
      -- the four places `load` looks at
      have s1 : slice img 0 2 = toLE 2 n := by
        rw [← hb, List.append_assoc, List.append_assoc, List.append_assoc,
          Pyctr.slice_append_left _ _ 0 2 (by rw [Exefs.toLE_length]; omega)]
        exact slice_all _ _ (by rw [Exefs.toLE_length]; omega)
      have s2 : slice img 2 2 = toLE 2 offF := by
        rw [← hb, List.append_assoc, List.append_assoc, List.append_assoc,
          Pyctr.slice_append_right' _ _ 2 0 2 (by rw [Exefs.toLE_length]),
          Pyctr.slice_append_left _ _ 0 2 (by rw [Exefs.toLE_length]; omega)]
        exact slice_all _ _ (by rw [Exefs.toLE_length]; omega)
      have s3 : slice img 4 (0xC * n) = E := by
        rw [← hb, List.append_assoc (toLE 2 n ++ toLE 2 offF ++ E), List.append_assoc (toLE 2 n ++ toLE 2 offF),
          Pyctr.slice_append_right' _ _ 4 0 _ (by simp [Exefs.toLE_length]),
          Pyctr.slice_append_left _ _ 0 _ (by omega)]
        exact slice_all _ _ (by omega)
      have s4 : ∀ k (hk : k < bl.length), bl[k].data.length > 4 →
          slice img (offAfter saveSize (bl.take k) - bl[k].data.length) bl[k].data.length = bl[k].data := by
        intro k hk hbig
        obtain ⟨_, _, _, a4, a5⟩ := steps_at _ bl saveSize k hk hsteps
        have ho := off_plus_datas _ _ _ a5
        obtain ⟨c1, c2⟩ := a4 hbig
        have hsplit : D = datasOf (bl.drop (k + 1)) ++ (bl[k].data ++ datasOf (bl.take k)) := by
          rw [← hD]
          conv => lhs; rw [← List.take_append_drop k bl, ← List.getElem_cons_drop hk]
          rw [datasOf_append]
          simp only [datasOf, if_pos hbig, List.append_assoc]
        rw [← hb, hsplit, ← List.append_assoc _ (datasOf (List.drop (k + 1) bl))]
        have hDl : D.length = (datasOf (bl.drop (k + 1))).length + (bl[k].data.length + (datasOf (bl.take k)).length) := by
          rw [hsplit]; simp only [List.length_append]
        rw [Pyctr.slice_append_right' _ _ _ 0 _ (by simp only [List.length_append, zeros_length, hhdr]; omega),
          Pyctr.slice_append_left _ _ 0 _ (by omega)]
        exact slice_all _ _ (by omega)
      -- the loop
      have hloop : ∀ k, k ≤ n → (List.range k).foldl (loadStep img E offF) (.ok (saveSize, [])) =
          .ok (offAfter saveSize (bl.take k), bl.take k) := by
        intro k
        induction k with
        | zero => intro _; rfl
        | succ k ih =>
          intro hk
          have hk' : k < bl.length := by omega
          rw [List.range_succ, List.foldl_append, ih (by omega)]
          simp only [List.foldl_cons, List.foldl_nil]
          obtain ⟨a1, a2, a3, a4, a5⟩ := steps_at _ bl saveSize k hk' hsteps
          have hole := offAfter_le (bl.take k) saveSize
          have hmono : offF ≤ offAfter saveSize (bl.take (k + 1)) := by
            rw [← hoF]
            conv => lhs; rw [← List.take_append_drop (k + 1) bl, offAfter_append]
            exact offAfter_le _ _
          have htk : bl.take (k + 1) = bl.take k ++ [bl[k]] := by rw [List.take_succ_eq_append_getElem hk']
          have hnext : offAfter saveSize (bl.take (k + 1)) = nextOff (offAfter saveSize (bl.take k)) bl[k] := by
            rw [htk, offAfter_append]; rfl
          rw [loadStep_ok img E offF (bl.take k) k bl[k] (offAfter saveSize (bl.take k))
            (by rw [← hE]; exact entries_at bl saveSize k hk') a1 a2 a3 (by omega) (s4 k hk')
            (fun hbig => ⟨(a4 hbig).1, by
              rw [hnext] at hmono; unfold nextOff at hmono; rw [if_pos hbig] at hmono; exact hmono⟩)
            (hwf.known _ (List.getElem_mem hk')) (not_any_take bl hwf.distinct k hk')]
          rw [hnext, htk]
      unfold load
      rw [if_neg (by omega), s1, s2, Exefs.readLE_toLE 2 n (by simp; omega), Exefs.readLE_toLE 2 offF (by simp; omega)]
      simp only
      rw [if_neg (by omega), s3, hloop n (Nat.le_refl _)]
      simp only [Except.map]
      rw [← hn, List.take_length]

end ConfigSave
end Pyctr
