import PyctrModel.Base.Run
namespace Pyctr
universe u
variable {σ : Type} {F : FileOps σ} {inv : σ → Prop} {abs : σ → AFile}

theorem isFile_step (hF : IsFile F inv abs) (s : σ) (h : inv s) (op : Op) :
    (F.step s op).1 = (AFile.ops.step (abs s) op).1 ∧
    abs (F.step s op).2 = (AFile.ops.step (abs s) op).2 ∧ inv (F.step s op).2 := by
  cases op with
  | read n =>
    obtain ⟨s', e, a, v⟩ := hF.read s n h
    simp [FileOps.step, e, AFile.ops, a, v]
  | write w =>
    obtain ⟨s', e, a, v⟩ := hF.write s w h
    simp [FileOps.step, e, AFile.ops, a, v]
  | seek o w =>
    cases hs : (abs s).seek o w with
    | error e =>
      have := hF.seek_err s o w e h hs
      simp [FileOps.step, this, AFile.ops, hs, h]
    | ok v =>
      obtain ⟨p, a'⟩ := v
      obtain ⟨s', e, a, v⟩ := hF.seek_ok s o w p a' h hs
      simp [FileOps.step, e, AFile.ops, hs, a, v]
  | tell =>
    obtain ⟨s', e, a, v⟩ := hF.tell s h
    simp [FileOps.step, e, AFile.ops, a, v]

/-- Refinement lifted to every history: any operation list produces, on the view, exactly the outputs an
    ordinary file with the abstract content produces, and ends in the corresponding abstract state. -/
theorem isFile_run (hF : IsFile F inv abs) (ops : List Op) (s : σ) (h : inv s) :
    (F.run s ops).1 = (AFile.ops.run (abs s) ops).1 ∧
    abs (F.run s ops).2 = (AFile.ops.run (abs s) ops).2 ∧ inv (F.run s ops).2 := by
  induction ops generalizing s with
  | nil => exact ⟨rfl, rfl, h⟩
  | cons op ops ih =>
    obtain ⟨o, a, v⟩ := isFile_step hF s h op
    obtain ⟨o2, a2, v2⟩ := ih (F.step s op).2 v
    simp only [FileOps.run]
    refine ⟨?_, ?_, ?_⟩
    · simp only [o, o2, a]
    · simp only [a2, a]
    · exact v2

end Pyctr

namespace Pyctr
variable {σ : Type} {F : FileOps σ} {inv : σ → Prop} {abs : σ → AFile}

def Op.isWrite : Op → Bool
  | .write _ => true
  | _ => false

theorem isReadable_step (hF : IsReadable F inv abs) (s : σ) (h : inv s) (op : Op) (hw : op.isWrite = false) :
    (F.step s op).1 = (AFile.ops.step (abs s) op).1 ∧
    abs (F.step s op).2 = (AFile.ops.step (abs s) op).2 ∧ inv (F.step s op).2 := by
  cases op with
  | read n =>
    obtain ⟨s', e, a, v⟩ := hF.read s n h
    simp [FileOps.step, e, AFile.ops, a, v]
  | write w => simp [Op.isWrite] at hw
  | seek o w =>
    cases hs : (abs s).seek o w with
    | error e =>
      have := hF.seek_err s o w e h hs
      simp [FileOps.step, this, AFile.ops, hs, h]
    | ok v =>
      obtain ⟨p, a'⟩ := v
      obtain ⟨s', e, a, v⟩ := hF.seek_ok s o w p a' h hs
      simp [FileOps.step, e, AFile.ops, hs, a, v]
  | tell =>
    obtain ⟨s', e, a, v⟩ := hF.tell s h
    simp [FileOps.step, e, AFile.ops, a, v]

/-- every history of seeks, reads and tells -/
theorem isReadable_run (hF : IsReadable F inv abs) (ops : List Op) (hro : ∀ op ∈ ops, op.isWrite = false)
    (s : σ) (h : inv s) :
    (F.run s ops).1 = (AFile.ops.run (abs s) ops).1 ∧
    abs (F.run s ops).2 = (AFile.ops.run (abs s) ops).2 ∧ inv (F.run s ops).2 := by
  induction ops generalizing s with
  | nil => exact ⟨rfl, rfl, h⟩
  | cons op ops ih =>
    obtain ⟨o, a, v⟩ := isReadable_step hF s h op (hro op (by simp))
    obtain ⟨o2, a2, v2⟩ := ih (fun op' hm => hro op' (by simp [hm])) (F.step s op).2 v
    simp only [FileOps.run]
    exact ⟨by simp only [o, o2, a], by simp only [a2, a], v2⟩

/-- along the abstract run, no write starts past the end of a growable file -/
def AFile.noGapRun : AFile → List Op → Prop
  | _, [] => True
  | a, op :: ops => (op.isWrite = true → a.noGap) ∧ AFile.noGapRun (AFile.ops.step a op).2 ops

theorem isFileW_step (hF : IsFileW F inv abs) (s : σ) (h : inv s) (op : Op) (hg : op.isWrite = true → (abs s).noGap) :
    (F.step s op).1 = (AFile.ops.step (abs s) op).1 ∧
    abs (F.step s op).2 = (AFile.ops.step (abs s) op).2 ∧ inv (F.step s op).2 := by
  cases op with
  | write w =>
    obtain ⟨s', e, a, v⟩ := hF.write s w h (hg rfl)
    simp [FileOps.step, e, AFile.ops, a, v]
  | read n => exact isReadable_step hF.toIsReadable s h _ rfl
  | seek o w => exact isReadable_step hF.toIsReadable s h _ rfl
  | tell => exact isReadable_step hF.toIsReadable s h _ rfl

/-- every history in which no write starts past the end of a growable file -/
theorem isFileW_run (hF : IsFileW F inv abs) (ops : List Op) (s : σ) (h : inv s)
    (hg : AFile.noGapRun (abs s) ops) :
    (F.run s ops).1 = (AFile.ops.run (abs s) ops).1 ∧
    abs (F.run s ops).2 = (AFile.ops.run (abs s) ops).2 ∧ inv (F.run s ops).2 := by
  induction ops generalizing s with
  | nil => exact ⟨rfl, rfl, h⟩
  | cons op ops ih =>
    obtain ⟨o, a, v⟩ := isFileW_step hF s h op hg.1
    obtain ⟨o2, a2, v2⟩ := ih (F.step s op).2 v (by rw [a]; exact hg.2)
    simp only [FileOps.run]
    exact ⟨by simp only [o, o2, a], by simp only [a2, a], v2⟩

end Pyctr
