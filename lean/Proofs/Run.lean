import PyctrModel.Base.Run
namespace Pyctr
universe u
variable {σ : Type} {F : FileOps σ} {inv : σ → Prop} {abs : σ → AFile}

theorem isFile_step (hF : IsFile F inv abs) (s : σ) (h : inv s) (op : Op) :
    (F.step s op).1 = (AFile.ops.step (abs s) op).1 ∧
    abs (F.step s op).2 = (AFile.ops.step (abs s) op).2 ∧ inv (F.step s op).2 := by
  cases op with
  | read n =>
    obtain ⟨s', e, a, v⟩ := hF.read s n h
    simp [FileOps.step, e, AFile.ops, a, v]
  | write w =>
    obtain ⟨s', e, a, v⟩ := hF.write s w h
    simp [FileOps.step, e, AFile.ops, a, v]
  | seek o w =>
    cases hs : (abs s).seek o w with
    | error e =>
      have := hF.seek_err s o w e h hs
      simp [FileOps.step, this, AFile.ops, hs, h]
    | ok v =>
      obtain ⟨p, a'⟩ := v
      obtain ⟨s', e, a, v⟩ := hF.seek_ok s o w p a' h hs
      simp [FileOps.step, e, AFile.ops, hs, a, v]
  | tell =>
    obtain ⟨s', e, a, v⟩ := hF.tell s h
    simp [FileOps.step, e, AFile.ops, a, v]

/-- Refinement lifted to every history: any operation list produces, on the view, exactly the outputs an
    ordinary file with the abstract content produces, and ends in the corresponding abstract state. -/
theorem isFile_run (hF : IsFile F inv abs) (ops : List Op) (s : σ) (h : inv s) :
    (F.run s ops).1 = (AFile.ops.run (abs s) ops).1 ∧
    abs (F.run s ops).2 = (AFile.ops.run (abs s) ops).2 ∧ inv (F.run s ops).2 := by
  induction ops generalizing s with
  | nil => exact ⟨rfl, rfl, h⟩
  | cons op ops ih =>
    obtain ⟨o, a, v⟩ := isFile_step hF s h op
    obtain ⟨o2, a2, v2⟩ := ih (F.step s op).2 v
    simp only [FileOps.run]
    refine ⟨?_, ?_, ?_⟩
    · simp only [o, o2, a]
    · simp only [a2, a]
    · exact v2

end Pyctr
