import PyctrModel.Engine.Engine
namespace Pyctr

theorem pyRol_eq (v r : Nat) (hr : r < 128) (hr0 : 0 < r) :
    pyRol v r 128 = ((BitVec.ofNat 128 v).rotateLeft r).toNat := by
  unfold pyRol
  apply Nat.eq_of_testBit_eq; intro i
  have hmod : r % 128 = r := Nat.mod_eq_of_lt hr
  rw [hmod]
  simp only [Nat.testBit_or, Nat.testBit_and, Nat.testBit_shiftLeft, Nat.testBit_shiftRight,
    Nat.testBit_two_pow_sub_one]
  rw [BitVec.testBit_toNat, BitVec.getLsbD_rotateLeft]
  simp only [BitVec.getLsbD_ofNat]
  grind

end Pyctr
namespace Pyctr
/-- the 3DS hardware key scrambler on 128-bit words -/
def scr3ds (x y : BitVec 128) : BitVec 128 :=
  ((x.rotateLeft 2 ^^^ y) + BitVec.ofNat 128 scramblerC3ds).rotateLeft 87
/-- the DSi hardware key scrambler -/
def scrTwl (x y : BitVec 128) : BitVec 128 :=
  ((x ^^^ y) + BitVec.ofNat 128 scramblerCTwl).rotateLeft 42

theorem ofNat_xor' (a b : Nat) : BitVec.ofNat 128 (a ^^^ b) = BitVec.ofNat 128 a ^^^ BitVec.ofNat 128 b := by
  apply BitVec.eq_of_getLsbD_eq; intro i hi
  simp [hi]

theorem keygen3ds_eq (x y : Nat) :
    keygen3ds x y = toBE 16 (scr3ds (BitVec.ofNat 128 x) (BitVec.ofNat 128 y)).toNat := by
  unfold keygen3ds scr3ds
  rw [pyRol_eq _ 87 (by omega) (by omega), BitVec.ofNat_add, ofNat_xor', pyRol_eq _ 2 (by omega) (by omega),
    BitVec.ofNat_toNat, BitVec.setWidth_eq]

theorem keygenTwl_eq (x y : Nat) :
    keygenTwl x y = toBE 16 (scrTwl (BitVec.ofNat 128 x) (BitVec.ofNat 128 y)).toNat := by
  unfold keygenTwl scrTwl
  rw [pyRol_eq _ 42 (by omega) (by omega), BitVec.ofNat_add, ofNat_xor']
end Pyctr
namespace Pyctr
open Engine

/-- what the property statement demands of a slot's normal key after the operations so far -/
inductive Expect
  | formula              -- X and Y both set with updating on (or refreshed): the scrambler output
  | direct (k : Bytes)   -- a directly set normal key, not yet followed by a set of X or Y
  | free                 -- the statement makes no claim (deferred update pending, or nothing set)

structure GEngine where
  e : Engine
  g : Nat → Expect

inductive KeyOp
  | setX (slot key : Nat) (upd : Bool)
  | setY (slot key : Nat) (upd : Bool)
  | setNormal (slot : Nat) (k : Bytes)
  | refresh

def hasBoth (e : Engine) (s : Nat) : Bool := (e.keyX s).isSome && (e.keyY s).isSome

def gstep (ge : GEngine) : KeyOp → GEngine
  | .setX s k u =>
    let e' := ge.e.setKeyslot true s k u
    ⟨e', fun j => if j = s then (if u && hasBoth e' s then .formula else .free) else ge.g j⟩
  | .setY s k u =>
    let e' := ge.e.setKeyslot false s k u
    ⟨e', fun j => if j = s then (if u && hasBoth e' s then .formula else .free) else ge.g j⟩
  | .setNormal s k => ⟨ge.e.setNormal s k, fun j => if j = s then .direct k else ge.g j⟩
  | .refresh => ⟨ge.e.updateNormalKeys, fun j => if hasBoth ge.e j then .formula else ge.g j⟩

def Coherent (ge : GEngine) : Prop :=
  ∀ s, match ge.g s with
    | .formula => ∃ x y, ge.e.keyX s = some x ∧ ge.e.keyY s = some y ∧ ge.e.normal s = some (keygenSlot s x y)
    | .direct k => ge.e.normal s = some k
    | .free => True

theorem setKeyslot_other (e : Engine) (isX : Bool) (s k : Nat) (u : Bool) (j : Nat) (hj : j ≠ s) :
    (e.setKeyslot isX s k u).keyX j = e.keyX j ∧ (e.setKeyslot isX s k u).keyY j = e.keyY j ∧
    (e.setKeyslot isX s k u).normal j = e.normal j := by
  unfold setKeyslot
  cases isX <;> cases u <;> simp only [Bool.false_eq_true, if_false, if_true] <;>
    (try split) <;> simp [upd, hj]

theorem setKeyslot_self (e : Engine) (isX : Bool) (s k : Nat) (h : hasBoth (e.setKeyslot isX s k true) s = true) :
    ∃ x y, (e.setKeyslot isX s k true).keyX s = some x ∧ (e.setKeyslot isX s k true).keyY s = some y ∧
      (e.setKeyslot isX s k true).normal s = some (keygenSlot s x y) := by
  unfold setKeyslot at h ⊢
  cases isX <;> simp only [Bool.false_eq_true, if_false, if_true] at h ⊢
  · cases hx : e.keyX s with
    | none => simp [hasBoth, upd, hx] at h
    | some x => simp [upd, hx]
  · cases hy : e.keyY s with
    | none => simp [hasBoth, upd, hy] at h
    | some y => simp [upd, hy]

theorem coherent_step (ge : GEngine) (h : Coherent ge) (op : KeyOp) : Coherent (gstep ge op) := by
  intro j
  cases op with
  | setX s k u =>
    simp only [gstep]
    by_cases hj : j = s
    · subst hj; simp only [if_true]
      by_cases hb : (u && hasBoth (ge.e.setKeyslot true j k u) j) = true
      · simp only [hb, if_true]
        simp only [Bool.and_eq_true] at hb
        obtain ⟨hu, hb⟩ := hb; subst hu
        exact setKeyslot_self _ _ _ _ hb
      · simp only [hb]; trivial
    · simp only [hj, if_false]
      obtain ⟨a, b, c⟩ := setKeyslot_other ge.e true s k u j hj
      have := h j
      cases hg : ge.g j <;> simp only [hg] at this ⊢
      · rw [a, b, c]; exact this
      · rw [c]; exact this
  | setY s k u =>
    simp only [gstep]
    by_cases hj : j = s
    · subst hj; simp only [if_true]
      by_cases hb : (u && hasBoth (ge.e.setKeyslot false j k u) j) = true
      · simp only [hb, if_true]
        simp only [Bool.and_eq_true] at hb
        obtain ⟨hu, hb⟩ := hb; subst hu
        exact setKeyslot_self _ _ _ _ hb
      · simp only [hb]; trivial
    · simp only [hj, if_false]
      obtain ⟨a, b, c⟩ := setKeyslot_other ge.e false s k u j hj
      have := h j
      cases hg : ge.g j <;> simp only [hg] at this ⊢
      · rw [a, b, c]; exact this
      · rw [c]; exact this
  | setNormal s k =>
    simp only [gstep]
    by_cases hj : j = s
    · subst hj; simp [setNormal, upd]
    · simp only [hj, if_false]
      have := h j
      cases hg : ge.g j <;> simp only [hg] at this ⊢
      · simpa [setNormal, upd, hj] using this
      · simpa [setNormal, upd, hj] using this
  | refresh =>
    simp only [gstep]
    by_cases hb : hasBoth ge.e j = true
    · simp only [hb, if_true]
      simp only [hasBoth, Bool.and_eq_true, Option.isSome_iff_exists] at hb
      obtain ⟨⟨x, hx⟩, ⟨y, hy⟩⟩ := hb
      exact ⟨x, y, by simp [updateNormalKeys, hx], by simp [updateNormalKeys, hy], by simp [updateNormalKeys, hx, hy]⟩
    · have hb' : hasBoth ge.e j = false := by simpa using hb
      simp only [hb', Bool.false_eq_true, if_false]
      have := h j
      have hn : (ge.e.updateNormalKeys).normal j = ge.e.normal j := by
        simp only [hasBoth, Bool.and_eq_true, Option.isSome_iff_exists, not_and, not_exists] at hb
        simp only [updateNormalKeys]
        cases hx : ge.e.keyX j with
        | none => rfl
        | some x =>
          cases hy : ge.e.keyY j with
          | none => rfl
          | some y => exact absurd hy (hb ⟨x, hx⟩ y)
      cases hg : ge.g j <;> simp only [hg] at this ⊢
      · obtain ⟨x, y, hx, hy, _⟩ := this
        simp [hasBoth, hx, hy] at hb
      · rw [hn]; exact this

/-- coherence holds after every operation sequence, from any coherent start (in particular from any engine with
    the all-`free` ghost) -/
theorem coherent_run (ops : List KeyOp) (ge : GEngine) (h : Coherent ge) : Coherent (ops.foldl gstep ge) := by
  induction ops generalizing ge with
  | nil => exact h
  | cons op ops ih => exact ih _ (coherent_step ge h op)

theorem coherent_init (e : Engine) : Coherent ⟨e, fun _ => .free⟩ := fun _ => trivial

end Pyctr
