/-
  C18: the write path — position bookkeeping, read-only error, descriptor / header / CMAC update.
-/
import Proofs.SaveCont
namespace Pyctr
namespace Save
variable (H : Bytes → Bytes) (mac : Bytes → Bytes → Bytes) (cm : Option CmacScheme)

/-- the data a write at the reader's position actually transfers -/
def writeClamp (p : PartSt) (data : Bytes) : Bytes :=
  if p.seek + data.length > p.ivfc.lv4.size then data.take (p.ivfc.lv4.size - p.seek) else data

theorem writeClamp_length (p : PartSt) (data : Bytes) :
    (writeClamp p data).length = min data.length (p.ivfc.lv4.size - p.seek) := by
  unfold writeClamp; split
  · rw [List.length_take]; omega
  · omega

/-- a non-empty write to a container opened read-only raises the read-only error (and, being an error, changes nothing) -/
theorem lv4Write_readonly (c : Cont) (pi : Nat) (p : PartSt) (hp : c.parts[pi]? = some p) (data : Bytes)
    (hw : c.writable = false) (hne : writeClamp p data ≠ []) :
    lv4Write H mac cm c pi data = .error (.other "IVFCReadOnlyError") := by
  unfold lv4Write
  rw [hp]
  simp only
  unfold writeClamp at hne
  rw [if_neg (by simpa using hne), hw]
  simp

/-- a successful write returns the clamped length, advances that partition's position by exactly that much, and leaves
    the other partitions' state alone -/
theorem lv4Write_position (c : Cont) (pi : Nat) (p : PartSt) (hp : c.parts[pi]? = some p) (data : Bytes) (n : Nat) (c' : Cont)
    (h : lv4Write H mac cm c pi data = .ok (n, c')) :
    n = (writeClamp p data).length ∧
      (∃ p', c'.parts[pi]? = some p' ∧ p'.seek = p.seek + n ∧ p'.ivfc = p.ivfc ∧ p'.difi = p.difi ∧ p'.dp = p.dp) ∧
      ∀ j, j ≠ pi → c'.parts[j]? = c.parts[j]? := by
  unfold lv4Write at h
  rw [hp] at h
  simp only at h
  have hlt : pi < c.parts.length := by
    rcases Nat.lt_or_ge pi c.parts.length with hl | hl
    · exact hl
    · rw [List.getElem?_eq_none hl] at hp; cases hp
  unfold writeClamp
  generalize (if p.seek + data.length > p.ivfc.lv4.size then data.take (p.ivfc.lv4.size - p.seek) else data) = d at h ⊢
  by_cases he : d.isEmpty = true
  · rw [if_pos he] at h
    simp only [Except.ok.injEq, Prod.mk.injEq] at h
    obtain ⟨h1, h2⟩ := h
    subst h1; subst h2
    simp only [List.isEmpty_iff] at he
    subst he
    exact ⟨rfl, ⟨p, hp, rfl, rfl, rfl, rfl⟩, fun _ _ => rfl⟩
  · rw [if_neg he] at h
    by_cases hw : (!c.writable) = true
    · rw [if_pos hw] at h; cases h
    · rw [if_neg hw] at h
      split at h
      · cases h
      · rename_i s hs
        split at h
        · split at h
          · cases h
          · split at h
            · cases h
            · simp only [Except.ok.injEq, Prod.mk.injEq] at h
              obtain ⟨h1, h2⟩ := h
              subst h1
              refine ⟨rfl, ?_, ?_⟩
              · rw [← h2]
                exact ⟨{ p with master := s.master, caches := s.caches, seek := p.seek + d.length }, by simp only; rw [List.getElem?_set_self hlt], rfl, rfl, rfl, rfl⟩
              · intro j hj; rw [← h2]; simp only; rw [List.getElem?_set_ne (Ne.symm hj)]
        · simp only [Except.ok.injEq, Prod.mk.injEq] at h
          obtain ⟨h1, h2⟩ := h
          subst h1
          refine ⟨rfl, ?_, ?_⟩
          · rw [← h2]
            exact ⟨{ p with master := s.master, caches := s.caches, seek := p.seek + d.length }, by simp only; rw [List.getElem?_set_self hlt], rfl, rfl, rfl, rfl⟩
          · intro j hj; rw [← h2]; simp only; rw [List.getElem?_set_ne (Ne.symm hj)]

theorem slice_overlay_same (d : Bytes) (a : Nat) (w : Bytes) : slice (overlay d a w) a w.length = w := by
  apply List.ext_getElem?; intro i
  rw [slice_getElem?, overlay_getElem?]
  by_cases hi : i < w.length
  · rw [if_pos hi, if_neg (by omega), if_pos (by omega)]; congr 1; omega
  · rw [if_neg hi, List.getElem?_eq_none (by omega)]

theorem slice_overlay_disjoint (d : Bytes) (a : Nat) (w : Bytes) (a' n : Nat)
    (h : a' + n ≤ a ∨ a + w.length ≤ a') (hd : a' + n ≤ d.length) :
    slice (overlay d a w) a' n = slice d a' n := by
  apply List.ext_getElem?; intro i
  rw [slice_getElem?, slice_getElem?, overlay_getElem?]
  by_cases hi : i < n
  · rw [if_pos hi, if_pos hi]
    rcases h with h | h
    · rw [if_pos (by omega), if_pos (by omega)]
    · rw [if_neg (by omega), if_neg (by omega)]
  · rw [if_neg hi, if_neg hi]

theorem assign_slice (d : Bytes) (a : Nat) (w : Bytes) (h : a + w.length ≤ d.length) :
    slice (assign d a w) a w.length = w ∧ (assign d a w).length = d.length := by
  unfold assign
  constructor
  · apply List.ext_getElem?; intro i
    rw [slice_getElem?]
    by_cases hi : i < w.length
    · rw [if_pos hi, List.append_assoc, List.getElem?_append_right (by simp; omega), List.getElem?_append_left (by simp; omega)]
      congr 1; simp; omega
    · rw [if_neg hi, List.getElem?_eq_none (by omega)]
  · simp; omega

/-- DIFF: after `_update_hashes` the file holds the new descriptor at the active offset, the header copy in the file
    equals the in-memory header, and the header's hash field is the hash of that descriptor — i.e. the table-hash check
    of a fresh `open` succeeds; with a scheme, bytes 0-15 hold the CMAC of the new header -/
theorem updateHashes_diff (cm : Option CmacScheme) (c : Cont) (F : Bytes) (p : PartSt) (pd : Bytes) (F' header' : Bytes)
    (hk : c.kind = .diff) (hh : c.header.length = 0x100) (hH : ∀ x, (H x).length = 0x20)
    (hpd : pd.length = c.tableSize) (hne : pd ≠ []) (hoff : 0x200 ≤ c.tableOff) (hF : c.tableOff + c.tableSize ≤ F.length)
    (hmac : ∀ k x, (mac k x).length = 0x10)
    (h : updateHashes H mac cm c F p pd = .ok (F', header')) :
    slice F' c.tableOff c.tableSize = pd ∧ slice F' 0x100 0x100 = header' ∧ slice header' 0x34 0x20 = H pd ∧
      (∀ sch m, cm = some sch → genCmac H mac sch header' = .ok m → slice F' 0 0x10 = m) := by
  unfold updateHashes at h
  simp only [hk] at h
  have hpe : pd.isEmpty = false := by cases pd with | nil => exact absurd rfl hne | cons _ _ => rfl
  rw [hpe] at h
  simp only [Bool.false_eq_true, if_false] at h
  obtain ⟨hs, hl⟩ := assign_slice c.header 0x34 (H pd) (by rw [hH]; omega)
  rw [hH] at hs
  have hhe : (assign c.header 0x34 (H pd)).isEmpty = false := by
    cases hx : assign c.header 0x34 (H pd) with
    | nil => rw [hx] at hl; simp at hl; omega
    | cons _ _ => rfl
  rw [hhe] at h
  simp only [Bool.false_eq_true, if_false] at h
  have hlen1 : (overlay F c.tableOff pd).length = F.length := overlay_length_inside _ _ _ (by omega)
  have hlen2 : (overlay (overlay F c.tableOff pd) 0x100 (assign c.header 0x34 (H pd))).length = F.length := by
    rw [overlay_length_inside _ _ _ (by omega), hlen1]
  have base1 : slice (overlay (overlay F c.tableOff pd) 0x100 (assign c.header 0x34 (H pd))) c.tableOff c.tableSize = pd := by
    rw [slice_overlay_disjoint _ _ _ _ _ (by omega) (by omega), ← hpd, slice_overlay_same]
  have base2 : slice (overlay (overlay F c.tableOff pd) 0x100 (assign c.header 0x34 (H pd))) 0x100 0x100
      = assign c.header 0x34 (H pd) := by
    have := slice_overlay_same (overlay F c.tableOff pd) 0x100 (assign c.header 0x34 (H pd))
    rw [hl, hh] at this; exact this
  cases cm with
  | none =>
    simp only [Except.ok.injEq, Prod.mk.injEq] at h
    obtain ⟨h1, h2⟩ := h
    subst h1; subst h2
    exact ⟨base1, base2, hs, fun _ _ hc => by cases hc⟩
  | some sch =>
    simp only at h
    cases hg : genCmac H mac sch (assign c.header 0x34 (H pd)) with
    | error e => rw [hg] at h; cases h
    | ok m =>
      rw [hg] at h
      have hml : m.length = 0x10 := by
        unfold genCmac at hg
        split at hg
        · split at hg
          · cases hg
          · split at hg
            · cases hg
            · simp only [Except.ok.injEq] at hg; rw [← hg, hmac]
        · simp only [Except.ok.injEq] at hg; rw [← hg, hmac]
      have hme : m.isEmpty = false := by
        cases m with
        | nil => simp at hml
        | cons _ _ => rfl
      simp only [hme, Bool.false_eq_true, if_false, Except.ok.injEq, Prod.mk.injEq] at h
      obtain ⟨h1, h2⟩ := h
      subst h1; subst h2
      refine ⟨?_, ?_, hs, ?_⟩
      · rw [slice_overlay_disjoint _ _ _ _ _ (by omega) (by omega)]; exact base1
      · rw [slice_overlay_disjoint _ _ _ _ _ (by omega) (by omega)]; exact base2
      · intro sch' m' hc hg'
        cases hc
        rw [hg] at hg'; cases hg'
        have := slice_overlay_same (overlay (overlay F c.tableOff pd) 0x100 (assign c.header 0x34 (H pd))) 0 m
        rw [hml] at this; exact this
theorem genCmac_length (sch : CmacScheme) (header m : Bytes) (hmac : ∀ k x, (mac k x).length = 0x10)
    (hg : genCmac H mac sch header = .ok m) : m.length = 0x10 := by
  unfold genCmac at hg
  split at hg
  · split at hg
    · cases hg
    · split at hg
      · cases hg
      · simp only [Except.ok.injEq] at hg; rw [← hg, hmac]
  · simp only [Except.ok.injEq] at hg; rw [← hg, hmac]

/-- DISA: after `_update_hashes` the active table in the file is the old table with this partition's descriptor
    replaced, the header in the file equals the in-memory header, and the header's hash field is the hash of the WHOLE
    new table — the table-hash check of a fresh `open` succeeds -/
theorem updateHashes_disa (cm : Option CmacScheme) (c : Cont) (F : Bytes) (p : PartSt) (pd : Bytes) (F' header' : Bytes)
    (hk : c.kind = .disa) (hh : c.header.length = 0x100) (hH : ∀ x, (H x).length = 0x20)
    (hpd : p.descOff + pd.length ≤ c.tableSize) (hne : pd ≠ []) (hoff : 0x200 ≤ c.tableOff)
    (hF : c.tableOff + c.tableSize ≤ F.length) (hmac : ∀ k x, (mac k x).length = 0x10)
    (h : updateHashes H mac cm c F p pd = .ok (F', header')) :
    slice F' c.tableOff c.tableSize = overlay (slice F c.tableOff c.tableSize) p.descOff pd ∧
      slice F' 0x100 0x100 = header' ∧ slice header' 0x6C 0x20 = H (slice F' c.tableOff c.tableSize) ∧
      (∀ sch m, cm = some sch → genCmac H mac sch header' = .ok m → slice F' 0 0x10 = m) := by
  unfold updateHashes at h
  simp only [hk] at h
  have hpe : pd.isEmpty = false := by cases pd with | nil => exact absurd rfl hne | cons _ _ => rfl
  rw [hpe] at h
  simp only [Bool.false_eq_true, if_false] at h
  generalize hT : H (slice (overlay F (c.tableOff + p.descOff) pd) c.tableOff c.tableSize) = dg at h
  have hdl : dg.length = 0x20 := by rw [← hT, hH]
  obtain ⟨hs, hl⟩ := assign_slice c.header 0x6C dg (by omega)
  rw [hdl] at hs
  have hhe : (assign c.header 0x6C dg).isEmpty = false := by
    cases hx : assign c.header 0x6C dg with
    | nil => rw [hx] at hl; simp at hl; omega
    | cons _ _ => rfl
  rw [hhe] at h
  simp only [Bool.false_eq_true, if_false] at h
  have hlen1 : (overlay F (c.tableOff + p.descOff) pd).length = F.length := overlay_length_inside _ _ _ (by omega)
  have hlen2 : (overlay (overlay F (c.tableOff + p.descOff) pd) 0x100 (assign c.header 0x6C dg)).length = F.length := by
    rw [overlay_length_inside _ _ _ (by omega), hlen1]
  have base1 : slice (overlay (overlay F (c.tableOff + p.descOff) pd) 0x100 (assign c.header 0x6C dg)) c.tableOff c.tableSize
      = slice (overlay F (c.tableOff + p.descOff) pd) c.tableOff c.tableSize := by
    rw [slice_overlay_disjoint _ _ _ _ _ (by omega) (by omega)]
  have base0 : slice (overlay F (c.tableOff + p.descOff) pd) c.tableOff c.tableSize
      = overlay (slice F c.tableOff c.tableSize) p.descOff pd := slice_overlay_window _ _ _ _ _ hpd hF
  have base2 : slice (overlay (overlay F (c.tableOff + p.descOff) pd) 0x100 (assign c.header 0x6C dg)) 0x100 0x100
      = assign c.header 0x6C dg := by
    have := slice_overlay_same (overlay F (c.tableOff + p.descOff) pd) 0x100 (assign c.header 0x6C dg)
    rw [hl, hh] at this; exact this
  cases cm with
  | none =>
    simp only [Except.ok.injEq, Prod.mk.injEq] at h
    obtain ⟨h1, h2⟩ := h
    subst h1; subst h2
    exact ⟨base1.trans base0, base2, by rw [hs, base1, hT], fun _ _ hc => by cases hc⟩
  | some sch =>
    simp only at h
    cases hg : genCmac H mac sch (assign c.header 0x6C dg) with
    | error e => rw [hg] at h; cases h
    | ok m =>
      rw [hg] at h
      have hml := genCmac_length H mac sch _ m hmac hg
      have hme : m.isEmpty = false := by
        cases m with
        | nil => simp at hml
        | cons _ _ => rfl
      simp only [hme, Bool.false_eq_true, if_false, Except.ok.injEq, Prod.mk.injEq] at h
      obtain ⟨h1, h2⟩ := h
      subst h1; subst h2
      have e1 : slice (overlay (overlay (overlay F (c.tableOff + p.descOff) pd) 0x100 (assign c.header 0x6C dg)) 0 m)
          c.tableOff c.tableSize = slice (overlay F (c.tableOff + p.descOff) pd) c.tableOff c.tableSize := by
        rw [slice_overlay_disjoint _ _ _ _ _ (by omega) (by omega)]; exact base1
      refine ⟨e1.trans base0, ?_, by rw [hs, e1, hT], ?_⟩
      · rw [slice_overlay_disjoint _ _ _ _ _ (by omega) (by omega)]; exact base2
      · intro sch' m' hc hg'
        cases hc
        rw [hg] at hg'; cases hg'
        have := slice_overlay_same (overlay (overlay F (c.tableOff + p.descOff) pd) 0x100 (assign c.header 0x6C dg)) 0 m
        rw [hml] at this; exact this
end Save
end Pyctr
