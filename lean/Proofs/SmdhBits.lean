/-
  C20: SMDH flag / region words, icon address map and colour expansion — exhaustive kernel-checked facts.
-/
import PyctrModel.Fmt.Codecs
namespace Pyctr
namespace Smdh

/-- every set of flags is read back from the word a builder writes for it -/
theorem flags_roundtrip : ∀ (a b c d e f g h i j k : Bool),
    Flags.ofWord (Flags.toWord ⟨a, b, c, d, e, f, g, h, i, j, k⟩) = ⟨a, b, c, d, e, f, g, h, i, j, k⟩ := by
  decide +kernel

/-- the bits the reader ignores are exactly the others: two words that agree on the eleven flag bits parse alike -/
theorem flags_only_bits (w : Nat) : Flags.ofWord w = Flags.ofWord (w &&& 0x15FF) := by
  unfold Flags.ofWord
  have h : ∀ m, m &&& 0x15FF = m → (w &&& 0x15FF) &&& m = w &&& m := by
    intro m hm; rw [Nat.and_assoc, Nat.and_comm 0x15FF m, hm]
  simp only [h 0x1 (by decide), h 0x2 (by decide), h 0x4 (by decide), h 0x8 (by decide), h 0x10 (by decide), h 0x20 (by decide),
    h 0x40 (by decide), h 0x80 (by decide), h 0x100 (by decide), h 0x400 (by decide), h 0x1000 (by decide)]

/-- region bits: any subset of the seven regions is read back, with RegionFree false; the constant reads back all-true -/
theorem region_roundtrip : ∀ (a b c d e f g : Bool),
    Region.ofWord (Region.toWord [a, b, c, d, e, f, g] false) = ⟨a, b, c, d, e, f, g, false⟩ := by
  decide +kernel

theorem region_free : Region.ofWord (Region.toWord [] true) = ⟨true, true, true, true, true, true, true, true⟩ := by
  decide +kernel

/-- the address computation of the icon decoder is Morton order inside row-major 8×8 tiles — for every pixel of both icons -/
theorem tile_is_morton_24 : ∀ x, x < 24 → ∀ y, y < 24 → tileIndex x y 24 = mortonSpec x y 24 := by decide +kernel
theorem tile_is_morton_48 : ∀ x, x < 48 → ∀ y, y < 48 → tileIndex x y 48 = mortonSpec x y 48 := by decide +kernel

theorem untile_tile_24 : ∀ x, x < 24 → ∀ y, y < 24 → untile (tileIndex x y 24) 24 = (x, y) ∧ tileIndex x y 24 < 24 * 24 := by
  decide +kernel
theorem untile_tile_48 : ∀ x, x < 48 → ∀ y, y < 48 → untile (tileIndex x y 48) 48 = (x, y) ∧ tileIndex x y 48 < 48 * 48 := by
  decide +kernel
theorem tile_untile_24 : ∀ i, i < 24 * 24 → tileIndex (untile i 24).1 (untile i 24).2 24 = i ∧ (untile i 24).1 < 24 ∧ (untile i 24).2 < 24 := by
  decide +kernel
theorem tile_untile_48 : ∀ i, i < 48 * 48 → tileIndex (untile i 48).1 (untile i 48).2 48 = i ∧ (untile i 48).1 < 48 ∧ (untile i 48).2 < 48 := by
  decide +kernel

/-- colour expansion, for all 65536 RGB565 values: each channel is floor(c * 255 / max) of its field -/
theorem rgb565_split : ∀ a, a < 256 → ∀ b, b < 256 →
    rgb565 (256 * a + b) = ((256 * a + b) / 2048 * 255 / 31, (256 * a + b) / 32 % 64 * 255 / 63, (256 * a + b) % 32 * 255 / 31) := by
  decide +kernel

theorem rgb565_all (n : Nat) (h : n < 65536) : rgb565 n = (n / 2048 * 255 / 31, n / 32 % 64 * 255 / 63, n % 32 * 255 / 31) := by
  have := rgb565_split (n / 256) (by omega) (n % 256) (by omega)
  rwa [show 256 * (n / 256) + n % 256 = n by omega] at this

/-- the expansion is injective on each channel: re-quantising gives the field back -/
theorem expand5_inv : ∀ c, c < 32 → (c * 255 / 31 * 31 + 127) / 255 = c := by decide +kernel
theorem expand6_inv : ∀ c, c < 64 → (c * 255 / 63 * 63 + 127) / 255 = c := by decide +kernel
end Smdh
end Pyctr
