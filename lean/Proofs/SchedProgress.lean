/-
  C15 (progress): threads that take their locks in rank order never deadlock.
-/
import Proofs.SchedProofs
namespace Pyctr
namespace Sched
variable (guard : Nat → Nat) (rank : Nat → Nat)

def ord (c : TCfg) : Prop := ordered guard rank c.todo.length c = true

/-- `ordered` only looks at the held locks and the remaining program -/
theorem ordered_congr (n : Nat) : ∀ (c c' : TCfg), c.held = c'.held → c.todo = c'.todo →
    ordered guard rank n c = ordered guard rank n c' := by
  induction n with
  | zero => intro c c' hh ht; simp only [ordered, hh, ht]
  | succ n ih =>
    intro c c' hh ht
    have hadv : ∀ e rest, c.todo = e :: rest →
        (c.advance guard).held = (c'.advance guard).held ∧ (c.advance guard).todo = (c'.advance guard).todo := by
      intro e rest he
      have he' : c'.todo = e :: rest := by rw [← ht]; exact he
      unfold TCfg.advance
      rw [he, he']
      cases e <;> simp [hh]
    rw [ordered, ordered]
    cases he : c.todo with
    | nil => rw [← ht, he, hh]
    | cons e rest =>
      have he' : c'.todo = e :: rest := by rw [← ht]; exact he
      obtain ⟨h1, h2⟩ := hadv e rest he
      rw [he']
      cases e <;> simp only [hh, ih _ _ h1 h2]

theorem ord_advance (c : TCfg) (e : Ev) (rest : List Ev) (h : c.todo = e :: rest) (ho : ord guard rank c) :
    ord guard rank (c.advance guard) := by
  unfold ord at ho ⊢
  rw [advance_todo guard c e rest h]
  rw [h, List.length_cons, ordered, h] at ho
  cases e <;> simp only [Bool.and_eq_true] at ho
  · exact ho.2
  · exact ho
  · exact ho
  · exact ho

theorem ord_head_acq (c : TCfg) (l : Nat) (rest : List Ev) (h : c.todo = .acq l :: rest) (ho : ord guard rank c) :
    ∀ x, x ∈ c.held → rank x < rank l := by
  unfold ord at ho
  rw [h, List.length_cons, ordered, h] at ho
  simp only [Bool.and_eq_true, List.all_eq_true, decide_eq_true_eq] at ho
  exact ho.1

theorem ord_finished (c : TCfg) (h : c.todo = []) (ho : ord guard rank c) : c.held = [] := by
  unfold ord at ho
  rw [h] at ho
  simp only [List.length_nil, ordered, h, List.isEmpty_nil, Bool.true_and, List.isEmpty_iff] at ho
  exact ho

/-- the second invariant: every thread's remaining program takes locks in rank order and ends with nothing held; a lock's
    owner is an existing thread -/
structure OrdInv (s : St) : Prop where
  ord : ∀ (t : Nat) c, s.ths[t]? = some c → ord guard rank c
  owner : ∀ l u, s.owner l = some u → ∃ c, s.ths[u]? = some c

theorem step_ordInv (s s' : St) (t k : Nat) (o : Option (Nat × Nat)) (hinv : OrdInv guard rank s)
    (h : step guard s t k = some (s', o)) : OrdInv guard rank s' := by
  unfold step at h
  cases hc : s.ths[t]? with
  | none => rw [hc] at h; cases h
  | some c =>
    rw [hc] at h
    simp only at h
    have hlt := getElem?_lt' hc
    have hoc := hinv.ord t c hc
    -- the threads after the step: thread t replaced by some c' with ord c'
    have key : ∀ (c' : TCfg) (ow : Nat → Option Nat) (ps : Nat → Nat), ord guard rank c' →
        (∀ l u, ow l = some u → u = t ∨ s.owner l = some u) →
        OrdInv guard rank ⟨ps, ow, s.ths.set t c'⟩ := by
      intro c' ow ps hc' how
      refine ⟨?_, ?_⟩
      · intro u cu hu
        simp only at hu
        by_cases hut : u = t
        · subst hut
          rw [List.getElem?_set_self hlt] at hu
          simp only [Option.some.injEq] at hu
          rw [← hu]; exact hc'
        · rw [List.getElem?_set_ne (Ne.symm hut)] at hu
          exact hinv.ord u cu hu
      · intro l u hlu
        simp only at hlu ⊢
        rcases how l u hlu with hut | hold
        · subst hut
          exact ⟨c', List.getElem?_set_self hlt⟩
        · obtain ⟨cu, hcu⟩ := hinv.owner l u hold
          by_cases hut : u = t
          · subst hut; exact ⟨c', List.getElem?_set_self hlt⟩
          · exact ⟨cu, by rw [List.getElem?_set_ne (Ne.symm hut)]; exact hcu⟩
    cases htodo : c.todo with
    | nil => rw [htodo] at h; cases h
    | cons e rest =>
      rw [htodo] at h
      have hadv := ord_advance guard rank c e rest htodo hoc
      cases e with
      | acq l =>
        simp only at h
        by_cases hfree : s.owner l = none
        · rw [if_pos hfree] at h
          simp only [Option.some.injEq, Prod.mk.injEq] at h
          rw [← h.1]
          apply key _ _ _ hadv
          intro m u hmu
          by_cases hml : m = l
          · rw [if_pos hml] at hmu; left; simp only [Option.some.injEq] at hmu; exact hmu.symm
          · rw [if_neg hml] at hmu; right; exact hmu
        · rw [if_neg hfree] at h; cases h
      | rel l =>
        simp only [Option.some.injEq, Prod.mk.injEq] at h
        rw [← h.1]
        apply key _ _ _ hadv
        intro m u hmu
        by_cases hml : m = l
        · rw [if_pos hml] at hmu; cases hmu
        · rw [if_neg hml] at hmu; right; exact hmu
      | seek x p =>
        simp only [Option.some.injEq, Prod.mk.injEq] at h
        rw [← h.1]
        exact key _ _ _ hadv (fun m u hmu => Or.inr hmu)
      | use x =>
        simp only [Option.some.injEq, Prod.mk.injEq] at h
        rw [← h.1]
        apply key _ _ _ _ (fun m u hmu => Or.inr hmu)
        unfold ord at hadv ⊢
        rw [← hadv]
        exact ordered_congr guard rank _ _ _ rfl rfl

/-- all locks held by anybody -/
def allHeld (s : St) : List Nat := s.ths.flatMap (·.held)

def maxRank : List Nat → Nat
  | [] => 0
  | l :: r => max (rank l) (maxRank r)

theorem le_maxRank (ls : List Nat) (l : Nat) (h : l ∈ ls) : rank l ≤ maxRank rank ls := by
  induction ls with
  | nil => cases h
  | cons a r ih =>
    simp only [maxRank]
    rcases List.mem_cons.mp h with h | h
    · subst h; exact Nat.le_max_left _ _
    · exact Nat.le_trans (ih h) (Nat.le_max_right _ _)

/-- nobody can move -/
def Stuck (s : St) : Prop := ∀ t k, step guard s t k = none

/-- when nobody can move, an unfinished thread waits for a lock somebody owns -/
theorem stuck_head (s : St) (hst : Stuck guard s) (t : Nat) (c : TCfg) (hc : s.ths[t]? = some c) (hne : c.todo ≠ []) :
    ∃ l rest u, c.todo = .acq l :: rest ∧ s.owner l = some u := by
  have h := hst t 0
  unfold step at h
  rw [hc] at h
  simp only at h
  cases htodo : c.todo with
  | nil => exact absurd htodo hne
  | cons e rest =>
    rw [htodo] at h
    cases e with
    | acq l =>
      simp only at h
      cases hown : s.owner l with
      | none => rw [hown] at h; simp at h
      | some u => exact ⟨l, rest, u, rfl, hown⟩
    | rel l => simp at h
    | seek x p => simp at h
    | use x => simp at h

/-- **no deadlock**: in a state reached by threads that respect the lock discipline and take their locks in rank order, as long
    as some thread has not finished, some thread can take a step -/
theorem progress (s : St) (hinv : Inv guard s) (hord : OrdInv guard rank s) (t0 : Nat) (c0 : TCfg) (h0 : s.ths[t0]? = some c0)
    (hne : c0.todo ≠ []) : ∃ t k r, step guard s t k = some r := by
  apply Classical.byContradiction
  intro hno
  have hst : Stuck guard s := by
    intro t k
    cases hs : step guard s t k with
    | none => rfl
    | some r => exact absurd ⟨t, k, r, hs⟩ hno
  -- every owned lock leads to an owned lock of higher rank: impossible, the ranks of held locks are bounded
  have hclimb : ∀ d l u, s.owner l = some u → maxRank rank (allHeld s) - rank l ≤ d → False := by
    intro d
    induction d with
    | zero =>
      intro l u hlu hd
      obtain ⟨cu, hcu⟩ := hord.owner l u hlu
      have hl : l ∈ cu.held := (hinv.locks u cu l hcu).mpr hlu
      have hune : cu.todo ≠ [] := by
        intro hfin
        rw [ord_finished guard rank cu hfin (hord.ord u cu hcu)] at hl
        cases hl
      obtain ⟨l', rest, u', htodo, hown'⟩ := stuck_head guard s hst u cu hcu hune
      have hlt := ord_head_acq guard rank cu l' rest htodo (hord.ord u cu hcu) l hl
      obtain ⟨cu', hcu'⟩ := hord.owner l' u' hown'
      have hl' : l' ∈ cu'.held := (hinv.locks u' cu' l' hcu').mpr hown'
      have hmem : l' ∈ allHeld s := by
        unfold allHeld
        rw [List.mem_flatMap]
        exact ⟨cu', List.mem_of_getElem? hcu', hl'⟩
      have := le_maxRank rank _ _ hmem
      omega
    | succ d ih =>
      intro l u hlu hd
      obtain ⟨cu, hcu⟩ := hord.owner l u hlu
      have hl : l ∈ cu.held := (hinv.locks u cu l hcu).mpr hlu
      have hune : cu.todo ≠ [] := by
        intro hfin
        rw [ord_finished guard rank cu hfin (hord.ord u cu hcu)] at hl
        cases hl
      obtain ⟨l', rest, u', htodo, hown'⟩ := stuck_head guard s hst u cu hcu hune
      have hlt := ord_head_acq guard rank cu l' rest htodo (hord.ord u cu hcu) l hl
      exact ih l' u' hown' (by omega)
  obtain ⟨l, rest, u, _, hown⟩ := stuck_head guard s hst t0 c0 h0 hne
  exact hclimb _ l u hown (Nat.le_refl _)

theorem init_ordInv (progs : List (List Ev)) (pos : Nat → Nat)
    (h : ∀ p, p ∈ progs → ordered guard rank p.length ⟨[], [], p⟩ = true) : OrdInv guard rank (initSt progs pos) := by
  refine ⟨?_, ?_⟩
  · intro t c hc
    simp only [initSt, List.getElem?_map] at hc
    cases hp : progs[t]? with
    | none => rw [hp] at hc; cases hc
    | some p =>
      rw [hp] at hc
      simp only [Option.map_some, Option.some.injEq] at hc
      subst hc
      exact h p (List.mem_of_getElem? hp)
  · intro l u hlu
    simp [initSt] at hlu

theorem run_ordInv (sched : List (Nat × Nat)) : ∀ (s : St), OrdInv guard rank s → OrdInv guard rank (run guard s sched).1 := by
  induction sched with
  | nil => intro s h; exact h
  | cons a rest ih =>
    intro s hinv
    obtain ⟨t, k⟩ := a
    simp only [run]
    cases hst : step guard s t k with
    | none => exact ih s hinv
    | some r =>
      obtain ⟨s', o⟩ := r
      simp only
      exact ih s' (step_ordInv guard rank s s' t k o hinv hst)

end Sched
end Pyctr
