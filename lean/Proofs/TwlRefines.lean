import Proofs.XorStream
namespace Pyctr
variable (E : Bytes → Bytes)

/-- DSi-mode keystream byte: the AES output block is used byte-reversed -/
def twlKs (ctr i : Nat) : UInt8 := (E (toBE 16 (ctr + i / 16))).getD (15 - i % 16) 0

theorem plainTwl_eq (ctr : Nat) (ct : Bytes) : plainTwl E ctr ct = xorWith (twlKs E ctr) 0 ct := by
  simp [plainTwl, xorWith, twlKs]

theorem twlKs_shift (ctr cur i : Nat) : twlKs E (ctr + cur / 16) (cur % 16 + i) = twlKs E ctr (cur + i) := by
  unfold twlKs
  have h1 : ctr + cur / 16 + (cur % 16 + i) / 16 = ctr + (cur + i) / 16 := by omega
  have h2 : (cur % 16 + i) % 16 = (cur + i) % 16 := by omega
  rw [h1, h2]

@[simp] theorem chunkRev_length (d : Bytes) : (chunkRev d).length = d.length := by simp [chunkRev]

theorem chunkRev_getElem? (d : Bytes) (h16 : d.length % 16 = 0) (i : Nat) (hi : i < d.length) :
    (chunkRev d)[i]? = d[i / 16 * 16 + (15 - i % 16)]? := by
  simp only [chunkRev, List.getElem?_map, List.getElem?_range hi, Option.map_some]
  have hc : min 16 (d.length - i / 16 * 16) = 16 := by omega
  rw [hc]
  have hlt : i / 16 * 16 + (16 - 1 - i % 16) < d.length := by omega
  simp only [List.getD_eq_getElem?_getD, List.getElem?_eq_getElem hlt, Option.getD_some]

theorem twlApply_full (c0 : Nat) (dr : Bool) (P : Bytes) (h : P.length % 16 = 0) :
    twlApply E ⟨c0, 0, none⟩ dr P = .ok (xorWith (twlKs E c0) 0 P, ⟨c0, 0 + P.length, some dr⟩) := by
  simp only [twlApply, CtrObj.apply, bind, Except.bind]
  simp only [reduceCtorEq, if_false, chunkRev_length, Except.ok.injEq, Prod.mk.injEq, and_true]
  apply List.ext_getElem?; intro i
  by_cases hi : i < P.length
  · have hml : (List.mapIdx (fun i b => b ^^^ ksByte E c0 (0 + i)) (chunkRev P)).length = P.length := by simp
    rw [List.getElem?_take_of_lt hi, chunkRev_getElem? _ (by rw [hml]; exact h) i (by rw [hml]; exact hi)]
    rw [List.getElem?_mapIdx, chunkRev_getElem? P h _ (by omega)]
    have e1 : (i / 16 * 16 + (15 - i % 16)) / 16 * 16 + (15 - (i / 16 * 16 + (15 - i % 16)) % 16) = i := by omega
    rw [e1, xorWith_getElem?]
    have hs : P[i]? = some P[i] := List.getElem?_eq_getElem hi
    rw [hs]
    simp only [Option.map_some, Nat.zero_add, ksByte, twlKs]
    have e2 : (i / 16 * 16 + (15 - i % 16)) / 16 = i / 16 := by omega
    have e3 : (i / 16 * 16 + (15 - i % 16)) % 16 = 15 - i % 16 := by omega
    rw [e2, e3]
  · rw [List.getElem?_eq_none (by simp; omega), List.getElem?_eq_none (by simp; omega)]

namespace TwlIO
variable {σ : Type} {F : FileOps σ} {inv : σ → Prop} {abs : σ → AFile} (E : Bytes → Bytes)

def absTwl (abs : σ → AFile) (s : TwlIO σ) : AFile := xorFile (twlKs E s.counter) (abs s.reader)
def invTwl (inv : σ → Prop) (s : TwlIO σ) : Prop := inv s.reader

theorem padded_len (pb n : Nat) (hpb : pb < 16) : (pb + n + padAfter pb n) % 16 = 0 := by
  unfold padAfter; omega

/-- the padded, block-reversed en/decryption of `data` at stream position `cur` is the DSi-mode transform -/
theorem padded_apply (ctr cur : Nat) (dr : Bool) (data : Bytes) :
    ∃ o, twlApply E ⟨ctr + cur / 16, 0, none⟩ dr (zeros (cur % 16) ++ data ++ zeros (padAfter (cur % 16) data.length))
        = .ok (o, ⟨ctr + cur / 16, 0 + (zeros (cur % 16) ++ data ++ zeros (padAfter (cur % 16) data.length)).length, some dr⟩) ∧
      slice o (cur % 16)
        ((zeros (cur % 16) ++ data ++ zeros (padAfter (cur % 16) data.length)).length - padAfter (cur % 16) data.length - cur % 16)
        = xorWith (twlKs E ctr) cur data := by
  have hpb : cur % 16 < 16 := Nat.mod_lt _ (by omega)
  have hl : (zeros (cur % 16) ++ data ++ zeros (padAfter (cur % 16) data.length)).length =
      cur % 16 + data.length + padAfter (cur % 16) data.length := by simp; omega
  refine ⟨_, twlApply_full E _ dr _ (by rw [hl]; exact padded_len _ _ hpb), ?_⟩
  rw [hl]
  apply List.ext_getElem?; intro i
  simp only [slice_getElem?, xorWith_getElem?]
  have e : cur % 16 + data.length + padAfter (cur % 16) data.length - padAfter (cur % 16) data.length - cur % 16 = data.length := by omega
  rw [e]
  by_cases hi : i < data.length
  · simp only [hi, if_true, Nat.zero_add]
    have h1 : (zeros (cur % 16) ++ data ++ zeros (padAfter (cur % 16) data.length))[cur % 16 + i]? = data[i]? := by
      rw [List.append_assoc, List.getElem?_append_right (by simp), List.getElem?_append_left (by simpa using hi)]
      simp
    rw [h1, twlKs_shift]
  · simp only [hi, if_false]
    rw [List.getElem?_eq_none (by omega)]; rfl

theorem read_refines (hF : IsReadable F inv abs) (s : TwlIO σ) (n : Int) (h : invTwl inv s) :
    ∃ s', TwlIO.read F E s n = .ok (((absTwl E abs s).read n).1, s') ∧
      absTwl E abs s' = ((absTwl E abs s).read n).2 ∧ invTwl inv s' := by
  obtain ⟨r1, et, at1, vt⟩ := hF.tell s.reader h
  obtain ⟨r2, d, er, hd, ha, vr, _, _, _⟩ := inner_read_xor (twlKs E s.counter) hF r1 n vt
  rw [at1] at hd ha
  obtain ⟨o, eo, ho⟩ := padded_apply E s.counter (abs s.reader).pos true d
  refine ⟨{ s with reader := r2 }, ?_, ha, vr⟩
  simp only [TwlIO.read, et, er, bind, Except.bind, eo, ho]
  rw [hd]; rfl

theorem write_refines (hF : IsFileW F inv abs) (s : TwlIO σ) (w : Bytes) (h : invTwl inv s)
    (hg : (abs s.reader).noGap) :
    ∃ s', TwlIO.write F E s w = .ok (((absTwl E abs s).write w).1, s') ∧
      absTwl E abs s' = ((absTwl E abs s).write w).2 ∧ invTwl inv s' := by
  obtain ⟨r1, et, at1, vt⟩ := hF.tell s.reader h
  obtain ⟨r2, ew, ha, vr, _, _, _⟩ := inner_write_xor (twlKs E s.counter) hF r1 w vt (by rw [at1]; exact hg)
  rw [at1] at ew ha
  obtain ⟨o, eo, ho⟩ := padded_apply E s.counter (abs s.reader).pos false w
  refine ⟨{ s with reader := r2 }, ?_, ha, vr⟩
  simp only [TwlIO.write, et, bind, Except.bind, eo, ho, ew]
  rfl

theorem twl_isReadable (hF : IsReadable F inv abs) :
    IsReadable (TwlIO.ops F E) (invTwl inv) (absTwl E abs) where
  read s n h := read_refines E hF s n h
  seek_err s off wh e h he := by
    simp only [absTwl, xorFile_seek] at he
    cases hs : (abs s.reader).seek off wh with
    | error e' =>
      rw [hs] at he; simp only [Except.map] at he; cases he
      simp only [TwlIO.ops, TwlIO.seek, hF.seek_err _ _ _ _ h hs, bind, Except.bind]
    | ok v => rw [hs] at he; simp [Except.map] at he
  seek_ok s off wh p a' h he := by
    simp only [absTwl, xorFile_seek] at he
    cases hs : (abs s.reader).seek off wh with
    | error e' => rw [hs] at he; simp [Except.map] at he
    | ok v =>
      obtain ⟨p', a⟩ := v
      rw [hs] at he; simp only [Except.map, Except.ok.injEq, Prod.mk.injEq] at he
      obtain ⟨rfl, rfl⟩ := he
      obtain ⟨r, er, ar, vr⟩ := hF.seek_ok _ _ _ _ _ h hs
      refine ⟨{ s with reader := r }, ?_, ?_, vr⟩
      · simp only [TwlIO.ops, TwlIO.seek, er, bind, Except.bind]
      · simp only [absTwl, ar]
  tell s h := by
    obtain ⟨r, er, ar, vr⟩ := hF.tell s.reader h
    refine ⟨{ s with reader := r }, ?_, ?_, vr⟩
    · simp only [TwlIO.ops, TwlIO.tell, er, bind, Except.bind, absTwl, xorFile]
    · simp only [absTwl, ar]

/-- **C01 / C12 (DSi flavour).** -/
theorem twl_isFileW (hF : IsFileW F inv abs) : IsFileW (TwlIO.ops F E) (invTwl inv) (absTwl E abs) where
  toIsReadable := twl_isReadable E hF.toIsReadable
  write s w h hg := write_refines E hF s w h (by
    rcases hg with hf | hp
    · exact Or.inl hf
    · exact Or.inr (by simpa [absTwl, xorFile] using hp))

theorem twl_isFile_of_fixed (hF : IsFileW F inv abs) (hfix : ∀ r, inv r → (abs r).fixed = true) :
    IsFile (TwlIO.ops F E) (invTwl inv) (absTwl E abs) where
  toIsReadable := twl_isReadable E hF.toIsReadable
  write s w h := write_refines E hF s w h (Or.inl (hfix _ h))

end TwlIO
end Pyctr
