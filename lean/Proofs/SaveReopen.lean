/-
  Re-opening after a write: "the in-memory state is what opening the current file gives" (`Synced`) is an invariant of writes
  through the verified level-4 view.  DIFF containers (one partition) here; the descriptor round trip, the frame of the write
  inside the partition and the header / descriptor / CMAC update are the three ingredients.
-/
import Proofs.DescRoundtrip
import Proofs.SaveFrame
namespace Pyctr
namespace Save


/-- everything of a partition state that opening the file determines (not: verification caches, reader position) -/
def PartSt.static (p : PartSt) :=
  (p.index, p.descOff, p.descSize, p.pOff, p.pSize, p.difi, p.ivfc, p.dpfs, p.master, p.dp)

def Cont.static (c : Cont) := (c.kind, c.header, c.tableOff, c.tableSize, c.parts.map PartSt.static)

/-- the in-memory state is what re-opening the current file gives -/
def Synced (H : Bytes → Bytes) (c : Cont) : Prop :=
  ∃ c0, openCont H c.kind c.F c.writable = .ok c0 ∧ c0.static = c.static

theorem mkDp_congr (P P' : Bytes) (dpfs : Dpfs) (sel : Nat)
    (h1 : ∀ y, dpfs.lv1.offset ≤ y → y < dpfs.lv1.offset + dpfs.lv1.size * 2 → P'[y]? = P[y]?)
    (h2 : ∀ y, dpfs.lv2.offset ≤ y → y < dpfs.lv2.offset + dpfs.lv2.size * 2 → P'[y]? = P[y]?) :
    mkDp P' dpfs sel = mkDp P dpfs sel := by
  unfold mkDp
  rw [slice_congr P P' _ _ h1, slice_congr P P' _ _ h2]

/-- the DPFS level-1 and level-2 tables lie outside the data windows -/
def TablesApart (dpfs : Dpfs) (t : Tree) : Prop :=
  ∀ y, ((dpfs.lv1.offset ≤ y ∧ y < dpfs.lv1.offset + dpfs.lv1.size * 2) ∨
        (dpfs.lv2.offset ≤ y ∧ y < dpfs.lv2.offset + dpfs.lv2.size * 2)) → OutsideData t y

theorem le_assign (d : Bytes) (a : Nat) (w : Bytes) (h : a + w.length ≤ d.length) (b n : Nat)
    (hd : b + n ≤ a ∨ a + w.length ≤ b) : le (assign d a w) b n = le d b n := by
  unfold le; rw [assign_slice_other d a w h b n hd]

theorem stage2_spec (H : Bytes → Bytes) (mac : Bytes → Bytes → Bytes) (cm : Option CmacScheme) (header : Bytes) (hoff : Nat)
    (F1 dg F' header' : Bytes) (hBF : 0x200 ≤ F1.length) (hh : header.length = 0x100)
    (hoffle : hoff + 0x20 ≤ 0x100) (hdl : dg.length = 0x20) (hmac : ∀ k x, (mac k x).length = 0x10)
    (h : stage2 H mac cm header hoff F1 dg = .ok (F', header')) :
    header' = assign header hoff dg ∧ F'.length = F1.length ∧ slice F' 0x100 0x100 = header' ∧
      ∀ z, 0x200 ≤ z → F'[z]? = F1[z]? := by
  obtain ⟨fl, ff⟩ := stage2_frame H mac cm header hoff F1 dg F' header' 0x200 (Nat.le_refl _) hBF hh hoffle hdl hmac h
  obtain ⟨_, hl⟩ := assign_slice header hoff dg (by omega)
  have hne : (assign header hoff dg).isEmpty = false := by
    cases hq : assign header hoff dg with
    | nil => rw [hq] at hl; simp at hl; omega
    | cons _ _ => rfl
  have hsl : slice (overlay F1 0x100 (assign header hoff dg)) 0x100 0x100 = assign header hoff dg := by
    have := slice_overlay_same F1 0x100 (assign header hoff dg)
    rw [hl, hh] at this
    exact this
  unfold stage2 at h
  cases cm with
  | none =>
    simp only [Except.ok.injEq, Prod.mk.injEq, hne, Bool.false_eq_true, if_false] at h
    obtain ⟨h1, h2⟩ := h
    refine ⟨h2.symm, fl, ?_, ff⟩
    rw [← h1, ← h2]; exact hsl
  | some sch =>
    simp only at h
    cases hg : genCmac H mac sch (assign header hoff dg) with
    | error e => rw [hg] at h; cases h
    | ok m =>
      rw [hg] at h
      have hml := genCmac_length H mac sch _ m hmac hg
      simp only [Except.ok.injEq, Prod.mk.injEq, hne, Bool.false_eq_true, if_false] at h
      obtain ⟨h1, h2⟩ := h
      refine ⟨h2.symm, fl, ?_, ff⟩
      rw [← h1, ← h2]
      have hme : m.isEmpty = false := by
        cases hq : m with
        | nil => rw [hq] at hml; simp at hml
        | cons _ _ => rfl
      rw [hme]
      simp only [Bool.false_eq_true, if_false]
      rw [slice_overlay_disjoint _ 0 m 0x100 0x100 (Or.inr (by omega))
        (by rw [overlay_length_inside _ _ _ (by omega)]; omega)]
      exact hsl

theorem openDiff_inv (H : Bytes → Bytes) (F : Bytes) (w : Bool) (c0 : Cont) (h : openDiff H F w = .ok c0) :
    slice (slice F 0x100 0x100) 0 8 = diffMagic ∧
    H (slice F (diffDescOff (slice F 0x100 0x100)) (le (slice F 0x100 0x100) 0x18 8)) = slice (slice F 0x100 0x100) 0x34 0x20 ∧
    ∃ p0, loadPartition F 0 0 (slice F (diffDescOff (slice F 0x100 0x100)) (le (slice F 0x100 0x100) 0x18 8))
        (le (slice F 0x100 0x100) 0x20 8) (le (slice F 0x100 0x100) 0x28 8) = .ok p0 ∧
      c0 = ⟨.diff, F, slice F 0x100 0x100, diffDescOff (slice F 0x100 0x100), le (slice F 0x100 0x100) 0x18 8, [p0], w⟩ := by
  unfold openDiff at h
  simp only at h
  by_cases h1 : slice (slice F 0x100 0x100) 0 8 ≠ diffMagic
  · rw [if_pos h1] at h; cases h
  · rw [if_neg h1] at h
    by_cases h2 : H (slice F (diffDescOff (slice F 0x100 0x100)) (le (slice F 0x100 0x100) 0x18 8)) ≠ slice (slice F 0x100 0x100) 0x34 0x20
    · rw [if_pos h2] at h; cases h
    · rw [if_neg h2] at h
      cases hl : loadPartition F 0 0 (slice F (diffDescOff (slice F 0x100 0x100)) (le (slice F 0x100 0x100) 0x18 8))
          (le (slice F 0x100 0x100) 0x20 8) (le (slice F 0x100 0x100) 0x28 8) with
      | error e => rw [hl] at h; cases h
      | ok p0 =>
        rw [hl] at h
        simp only [Except.ok.injEq] at h
        exact ⟨Decidable.of_not_not h1, Decidable.of_not_not h2, p0, rfl, h.symm⟩

theorem loadPartition_inv (F : Bytes) (index descOff : Nat) (pd : Bytes) (pOff pSize : Nat) (p0 : PartSt)
    (h : loadPartition F index descOff pd pOff pSize = .ok p0) :
    ∃ d, loadPartdesc pd = .ok d ∧
      p0 = ⟨index, descOff, pd.length, pOff, pSize, d.difi, d.ivfc, d.dpfs, d.master,
        mkDp (slice F pOff pSize) d.dpfs d.difi.selector, Caches.empty, 0⟩ := by
  unfold loadPartition at h
  cases hl : loadPartdesc pd with
  | error e => rw [hl] at h; cases h
  | ok d =>
    rw [hl] at h
    simp only [Except.ok.injEq] at h
    exact ⟨d, rfl, h.symm⟩



theorem descWF_master (d : Difi) (i : Ivfc) (f : Dpfs) (m m' : List Bytes) (sz : Nat) (wf : DescWF ⟨d, i, f, m⟩ sz)
    (hl : m'.length = m.length) (hm : ∀ x ∈ m', x.length = 0x20) : DescWF ⟨d, i, f, m'⟩ sz := by
  obtain ⟨a1, a2, a3, a4, a5, a6, a7, a8, a9, a10, a11, a12, a13, a14, a15⟩ := wf
  simp only at a1 a2 a3 a4 a5 a6 a7 a8 a9 a10 a11 a12 a13 a14 a15
  exact ⟨a1, a2, by simp only; rw [hl]; exact a3, hm, a5, a6, a7, a8, by simp only; rw [hl]; exact a9, a10, a11, a12, a13,
    by simp only; rw [hl]; exact a14, by simp only; rw [hl]; exact a15⟩

/-- **re-opening after a write (DIFF)**: if the state is what opening the file gives, it still is after a write through the
    verified level-4 view -/
theorem lv4Write_synced_diff (H : Bytes → Bytes) (mac : Bytes → Bytes → Bytes) (cm : Option CmacScheme) (c : Cont)
    (p : PartSt) (hk : c.kind = .diff) (hp : c.parts[0]? = some p) (data : Bytes) (n : Nat) (c' : Cont)
    (hH : ∀ x, (H x).length = 0x20) (hmac : ∀ k x, (mac k x).length = 0x10)
    (hs : Synced H c)
    (g : GeomP (p.P c.F) p.tree p.master)
    (hta : TablesApart p.dpfs p.tree)
    (hwf : DescWF ⟨p.difi, p.ivfc, p.dpfs, p.master⟩ p.descSize)
    (hL1 : 0x200 ≤ c.tableOff) (hL2 : c.tableOff + c.tableSize ≤ p.pOff) (hL3 : p.pOff ≤ c.F.length)
    (h : lv4Write H mac cm c 0 data = .ok (n, c')) : Synced H c' := by
  have hs0 := hs
  obtain ⟨c0, ho, hst⟩ := hs
  rw [hk] at ho
  simp only [openCont] at ho
  obtain ⟨o1, o2, p0, o3, o4⟩ := openDiff_inv H c.F c.writable c0 ho
  obtain ⟨d0, o5, o6⟩ := loadPartition_inv _ _ _ _ _ _ _ o3
  -- what the static equality says
  rw [o4] at hst
  simp only [Cont.static, List.map_cons, List.map_nil, Prod.mk.injEq] at hst
  obtain ⟨_, sh, sto, sts, sp⟩ := hst
  have hpl : c.parts = [p] := by
    cases hc : c.parts with
    | nil => rw [hc] at sp; cases sp
    | cons a r =>
      rw [hc] at sp hp
      simp only [List.map_cons, List.cons.injEq] at sp
      cases r with
      | nil => simp at hp; rw [hp]
      | cons _ _ => simp at sp
  rw [hpl] at sp
  simp only [List.map_cons, List.map_nil, List.cons.injEq, and_true] at sp
  rw [o6] at sp
  simp only [PartSt.static, Prod.mk.injEq] at sp
  obtain ⟨q1, q2, q3, q4, q5, q6, q7, q8, q9, q10⟩ := sp
  rw [sh] at o1 o2 sto sts q3 q4 q5 q10
  rw [sto, sts] at o2 q3
  rw [q4, q5, q8, q6] at q10
  have hFl : 0x200 ≤ c.F.length := by omega
  have hhl : c.header.length = 0x100 := by rw [← sh, slice_length]; omega
  have hds : p.descSize = c.tableSize := by rw [← q3, slice_length]; omega
  unfold lv4Write at h
  rw [hp] at h
  simp only at h
  generalize hd : (if p.seek + data.length > p.ivfc.lv4.size then data.take (p.ivfc.lv4.size - p.seek) else data) = d at h
  by_cases hde : d.isEmpty = true
  · rw [hde] at h
    simp only [if_true, Except.ok.injEq, Prod.mk.injEq] at h
    rw [← h.2]; exact hs0
  · have hne : d ≠ [] := by intro hc; rw [hc] at hde; exact hde rfl
    have hde' : d.isEmpty = false := by cases d with | nil => exact absurd rfl hne | cons _ _ => rfl
    rw [hde'] at h
    simp only [Bool.false_eq_true, if_false] at h
    by_cases hw : (!c.writable) = true
    · rw [if_pos hw] at h; cases h
    · rw [if_neg hw] at h
      have hlv4 : (p.tree.level 3).size = p.ivfc.lv4.size := rfl
      have hdin : p.seek + d.length ≤ (p.tree.level 3).size := by
        rw [hlv4, ← hd]
        by_cases hc : p.seek + data.length > p.ivfc.lv4.size
        · rw [if_pos hc, List.length_take]
          have : d.length ≠ 0 := by intro h0; exact hne (List.eq_nil_of_length_eq_zero h0)
          rw [← hd, if_pos hc, List.length_take] at this
          omega
        · rw [if_neg hc]; omega
      cases hwd : writeData H p.tree 3 p.seek d ⟨⟨c.F, p.pOff, p.pSize⟩, p.master, p.caches, false⟩ with
      | error e => rw [hwd] at h; cases h
      | ok s =>
        rw [hwd] at h
        simp only at h
        have hPeq : (⟨c.F, p.pOff, p.pSize⟩ : Win).bytes = p.P c.F := rfl
        obtain ⟨r1, r2, r3, r4, r5, r6⟩ := writeData_refines H p.tree hH 3 (by omega) p.seek d _ s (by rw [hPeq]; exact g) hne hdin hwd
        obtain ⟨f1, f2, f3, f4⟩ := writeData_frame H p.tree hH 3 (by omega) p.seek d _ s (by rw [hPeq]; exact g) hne hdin hwd
        simp only at r2 r3 r4 r5 f1 f3 f4
        rw [if_pos f2] at h
        cases hpd : partdescToBytes ⟨p.difi, p.ivfc, p.dpfs, s.master⟩ p.descSize with
        | none => rw [hpd] at h; cases h
        | some pd =>
          rw [hpd] at h
          simp only at h
          obtain ⟨pdl, pdr⟩ := partdesc_roundtrip _ _ pd (descWF_master _ _ _ _ _ _ hwf f3 (f4 hwf.hashLen)) hpd
          cases hu : updateHashes H mac cm c s.w.F p pd with
          | error e => rw [hu] at h; cases h
          | ok r =>
            obtain ⟨F'', header'⟩ := r
            rw [hu] at h
            simp only [Except.ok.injEq, Prod.mk.injEq] at h
            obtain ⟨_, hc'⟩ := h
            rw [updateHashes_diff_eq H mac cm c s.w.F p pd hk] at hu
            have hpdne : pd.isEmpty = false := by
              cases hq : pd with
              | nil => rw [hq] at pdl; have := hwf.aI; have := hwf.inI; simp at pdl; omega
              | cons _ _ => rfl
            rw [hpdne] at hu
            simp only [Bool.false_eq_true, if_false] at hu
            have hF1l : (overlay s.w.F c.tableOff pd).length = c.F.length := by
              rw [overlay_length_inside _ _ _ (by rw [r4, pdl, hds]; omega), r4]
            obtain ⟨t1, t2, t3, t4⟩ := stage2_spec H mac cm c.header 0x34 _ (H pd) F'' header' (by rw [hF1l]; exact hFl) hhl
              (by omega) (hH _) hmac hu
            have hdg : (H pd).length = 0x20 := hH _
            have hal : 0x34 + (H pd).length ≤ c.header.length := by rw [hdg, hhl]; decide
            -- the header fields of the new header
            have e_magic : slice header' 0 8 = diffMagic := by
              rw [t1, assign_slice_other _ _ _ hal 0 8 (Or.inl (by omega))]; exact o1
            have e_off : diffDescOff header' = c.tableOff := by
              rw [← sto, t1]; unfold diffDescOff
              rw [le_assign _ _ _ hal 0x30 4 (Or.inl (by omega)), le_assign _ _ _ hal 0x10 8 (Or.inl (by omega)),
                le_assign _ _ _ hal 0x8 8 (Or.inl (by omega))]
            have e_size : le header' 0x18 8 = c.tableSize := by
              rw [← sts, t1, le_assign _ _ _ hal 0x18 8 (Or.inl (by omega))]
            have e_poff : le header' 0x20 8 = p.pOff := by
              rw [← q4, t1, le_assign _ _ _ hal 0x20 8 (Or.inl (by omega))]
            have e_psize : le header' 0x28 8 = p.pSize := by
              rw [← q5, t1, le_assign _ _ _ hal 0x28 8 (Or.inl (by omega))]
            have e_hash : slice header' 0x34 0x20 = H pd := by
              rw [t1, ← hdg]; exact (assign_slice c.header 0x34 (H pd) hal).1
            have e_desc : slice F'' c.tableOff c.tableSize = pd := by
              rw [slice_congr (overlay s.w.F c.tableOff pd) F'' _ _ (fun i hi _ => t4 i (by omega)), ← hds, ← pdl]
              exact slice_overlay_same _ _ _
            -- the partition window of the new file is the written window
            have hwin : slice F'' p.pOff p.pSize = s.w.bytes := by
              unfold Win.bytes
              rw [r2, r3]
              apply slice_congr
              intro i hi1 _
              rw [t4 i (by omega), overlay_getElem?, if_neg (by omega), if_neg (by rw [pdl, hds]; omega)]
            have e_dp : mkDp (slice F'' p.pOff p.pSize) p.dpfs p.difi.selector = p.dp := by
              rw [← q10, hwin]
              apply mkDp_congr
              · intro y h1 h2; rw [f1 y (hta y (Or.inl ⟨h1, h2⟩))]; rfl
              · intro y h1 h2; rw [f1 y (hta y (Or.inr ⟨h1, h2⟩))]; rfl
            rw [← hc']
            refine ⟨⟨.diff, F'', header', c.tableOff, c.tableSize,
              [⟨0, 0, pd.length, p.pOff, p.pSize, p.difi, p.ivfc, p.dpfs, s.master, p.dp, Caches.empty, 0⟩], c.writable⟩, ?_, ?_⟩
            · show openCont H c.kind F'' c.writable = _
              rw [hk]
              simp only [openCont]
              unfold openDiff
              simp only
              rw [t3, if_neg (by rw [e_magic]; simp), e_off, e_size, e_desc, e_hash, if_neg (by simp), e_poff, e_psize]
              unfold loadPartition
              rw [pdr]
              simp only
              rw [e_dp]
            · simp only [Cont.static, hpl, List.set_cons_zero, List.map_cons, List.map_nil, PartSt.static, hk]
              rw [← q1, ← q2, pdl]


/-! ### the decidable versions of the side conditions -/

theorem descWF_of_b (x : PartDesc) (size : Nat) (h : descWFB x size = true) : DescWF x size := by
  unfold descWFB at h
  simp only [Bool.and_eq_true, decide_eq_true_eq, List.all_eq_true] at h
  obtain ⟨⟨⟨⟨⟨⟨⟨⟨⟨⟨⟨⟨⟨⟨⟨⟨⟨⟨⟨a1, a2⟩, a3⟩, a4⟩, i1⟩, i2⟩, i3⟩, i4⟩, d1⟩, d2⟩, d3⟩, b1⟩, b2⟩, b3⟩, c1⟩, c2⟩, c3⟩, e1⟩, e2⟩, e3⟩ := h
  exact ⟨a1, a2, a3, a4, ⟨i1, i2, i3, i4⟩, ⟨d1, d2, d3⟩, b1, b2, b3, c1, c2, c3, e1, e2, e3⟩

theorem clearOf_spec (a n b m : Nat) (h : clearOf a n b m = true) (y : Nat) (h1 : a ≤ y) (h2 : y < a + n) :
    y < b ∨ b + m ≤ y := by
  unfold clearOf at h
  simp only [decide_eq_true_eq] at h
  omega

theorem tablesApart_of_b (dpfs : Dpfs) (t : Tree) (h : tablesApartB dpfs t = true) : TablesApart dpfs t := by
  unfold tablesApartB at h
  simp only [List.all_cons, List.all_nil, Bool.and_true, Bool.and_eq_true] at h
  obtain ⟨⟨h1, h1e⟩, ⟨h2, h2e⟩⟩ := h
  intro y hy
  rcases hy with ⟨ya, yb⟩ | ⟨ya, yb⟩
  · refine ⟨clearOf_spec _ _ _ _ h1 y ya yb, ?_⟩
    intro eo es he
    rw [he] at h1e
    exact clearOf_spec _ _ _ _ h1e y ya yb
  · refine ⟨clearOf_spec _ _ _ _ h2 y ya yb, ?_⟩
    intro eo es he
    rw [he] at h2e
    exact clearOf_spec _ _ _ _ h2e y ya yb

/-- opening a file gives a synced state -/
theorem open_synced (H : Bytes → Bytes) (kind : Kind) (F : Bytes) (w : Bool) (c : Cont) (h : openCont H kind F w = .ok c) :
    Synced H c := by
  have hk : c.kind = kind ∧ c.F = F ∧ c.writable = w := by
    cases kind with
    | diff =>
      simp only [openCont] at h
      obtain ⟨_, _, p0, _, hc⟩ := openDiff_inv H F w c h
      rw [hc]; exact ⟨rfl, rfl, rfl⟩
    | disa =>
      simp only [openCont] at h
      unfold openDisa at h
      simp only at h
      split at h
      · split at h <;> cases h
      · split at h
        · cases h
        · split at h
          · cases h
          · split at h
            · split at h
              · cases h
              · simp only [Except.ok.injEq] at h; rw [← h]; exact ⟨rfl, rfl, rfl⟩
            · simp only [Except.ok.injEq] at h; rw [← h]; exact ⟨rfl, rfl, rfl⟩
  exact ⟨c, by rw [hk.1, hk.2.1, hk.2.2]; exact h, rfl⟩

end Save
end Pyctr
