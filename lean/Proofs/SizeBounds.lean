/-
  C19: whatever a parser builds is bounded by a constant of the format or by the length of its input.
-/
import PyctrModel
import Proofs.BytesLemmas
import Proofs.TmdLemmas
namespace Pyctr

theorem readLE_lt : ∀ (d : Bytes), readLE d < 256 ^ d.length
  | [] => by simp [readLE]
  | b :: bs => by
    have ih := readLE_lt bs
    have hb : b.toNat < 256 := b.toNat_lt
    simp only [readLE, List.length_cons, Nat.pow_succ]
    omega

theorem readBE_lt (d : Bytes) : readBE d < 256 ^ d.length := by
  rw [readBE_eq_readLE_reverse]; simpa using readLE_lt d.reverse

namespace Tmd
theorem chunkList_length (raw : Bytes) : ∀ n i, (chunkList raw n i).length = n
  | 0, _ => rfl
  | n + 1, i => by simp [chunkList, chunkList_length raw n (i + 1)]

theorem infoList_length (raw : Bytes) : ∀ n i, (infoList raw n i).length ≤ n
  | 0, _ => by simp [infoList]
  | n + 1, i => by
    have := infoList_length raw n (i + 1)
    simp only [infoList]
    split <;> simp <;> omega

/-- a loaded TMD holds fewer than 2^16 content records and at most 64 info records, whatever the file says -/
theorem load_sizes (H : Bytes → Bytes) (v : Bool) (b : Bytes) (t : T) (h : load H v b = .ok t) :
    t.chunkRecords.length < 65536 ∧ t.infoRecords.length ≤ 64 := by
  unfold load at h
  dsimp only at h
  cases hs : sigInfo (readBE (slice b 0 4)) with
  | none => rw [hs] at h; cases h
  | some sp =>
    obtain ⟨sz, pad⟩ := sp
    rw [hs] at h
    dsimp only at h
    split at h
    · cases h
    · split at h
      · cases h
      · split at h
        · cases h
        · split at h
          · cases h
          · split at h
            · cases h
            · simp only [Except.ok.injEq] at h
              subst h
              simp only [chunkList_length]
              refine ⟨?_, infoList_length _ 64 0⟩
              have := readBE_lt (slice (slice b (4 + sz + pad) 0xC4) 0x9E 2)
              have hl : (slice (slice b (4 + sz + pad) 0xC4) 0x9E 2).length ≤ 2 := by simp [slice_length]; omega
              calc _ < 256 ^ (slice (slice b (4 + sz + pad) 0xC4) 0x9E 2).length := this
                _ ≤ 256 ^ 2 := Nat.pow_le_pow_right (by decide) hl
end Tmd

namespace Cci
theorem partsOf_length (h : Bytes) : (partsOf h).length ≤ 8 := by
  unfold partsOf
  exact Nat.le_trans (List.length_filterMap_le _ _) (by simp)
end Cci

namespace Exefs
theorem dictInsert_length (l : List Entry) (e : Entry) : (dictInsert l e).length ≤ l.length + 1 := by
  unfold dictInsert; split <;> simp

theorem parseFrom_length (header : Bytes) : ∀ n i acc es, parseFrom header n i acc = .ok es → es.length ≤ acc.length + n
  | 0, _, acc, es, h => by simp only [parseFrom, Except.ok.injEq] at h; subst h; omega
  | n + 1, i, acc, es, h => by
    simp only [parseFrom] at h
    split at h
    · cases h
    · have := parseFrom_length header n (i + 1) acc es h; omega
    · rename_i e _
      have := parseFrom_length header n (i + 1) (dictInsert acc e) es h
      have := dictInsert_length acc e
      omega

/-- an ExeFS header yields at most ten entries -/
theorem parse_length (header : Bytes) (es : List Entry) (h : parse header = .ok es) : es.length ≤ 10 := by
  have := parseFrom_length header 10 0 [] es h; simpa using this
end Exefs

namespace Cia
theorem activeContents_bound (index : Bytes) : (activeContents index).length ≤ 8 * index.length := by
  unfold activeContents
  exact Nat.le_trans (List.length_filter_le _ _) (by simp)
end Cia
end Pyctr
