import PyctrModel.Base.PyFile
import Proofs.BytesLemmas
namespace Pyctr

/-- The BytesIO model is an ordinary (growable) file: the bottom of every refinement stack. -/
theorem pyfile_isReadable : IsReadable PyFile.ops (fun _ => True) PyFile.abs where
  read s n _ := by
    refine ⟨(s.read n).2, ?_, ?_, trivial⟩
    · simp only [PyFile.ops, PyFile.read, PyFile.abs, AFile.read, AFile.readLen, AFile.size]
      split
      · have : s.buf.length - s.pos = 0 := by omega
        simp [this, slice]
      · rfl
    · simp only [PyFile.read, PyFile.abs, AFile.read, AFile.readLen, AFile.size]
      split
      · have : s.buf.length - s.pos = 0 := by omega
        simp [this]
      · rfl
  seek_err s off wh e _ h := by
    simp only [PyFile.abs, AFile.seek, PyFile.ops, PyFile.seek, AFile.size] at h ⊢
    by_cases h0 : wh = 0
    · subst h0
      by_cases ho : off < 0 <;> simp_all
    · by_cases h1 : wh = 1
      · subst h1; simp at h
      · by_cases h2 : wh = 2
        · subst h2; simp at h
        · simp_all
  seek_ok s off wh p a' _ h := by
    simp only [PyFile.abs, AFile.seek, PyFile.ops, PyFile.seek, AFile.size] at h ⊢
    by_cases h0 : wh = 0
    · subst h0
      by_cases ho : off < 0
      · simp [ho] at h
      · simp [ho] at h; obtain ⟨rfl, rfl⟩ := h; simp [ho]
    · by_cases h1 : wh = 1
      · subst h1; simp at h; obtain ⟨rfl, rfl⟩ := h; simp
      · by_cases h2 : wh = 2
        · subst h2; simp at h; obtain ⟨rfl, rfl⟩ := h; simp
        · simp [h0, h1, h2] at h
  tell s _ := ⟨s, rfl, rfl, trivial⟩

theorem pyfile_isFile : IsFile PyFile.ops (fun _ => True) PyFile.abs where
  toIsReadable := pyfile_isReadable
  write s w _ := by
    refine ⟨(s.write w).2, ?_, ?_, trivial⟩
    · simp only [PyFile.ops, PyFile.write, PyFile.abs, AFile.write, AFile.writeTake]
      split <;> simp_all
    · simp only [PyFile.write, PyFile.abs, AFile.write, AFile.writeTake]
      split <;> simp_all

end Pyctr
