import PyctrModel.Fmt.Cia
import Proofs.BytesLemmas
namespace Pyctr
namespace Cia

theorem mkByte_test (f : Nat → Bool) (b : Nat) (hb : b < 8) :
    ((mkByte f &&& (0x80 >>> b.toUInt8)) != 0) = f b := by
  have h8 : b = 0 ∨ b = 1 ∨ b = 2 ∨ b = 3 ∨ b = 4 ∨ b = 5 ∨ b = 6 ∨ b = 7 := by omega
  unfold mkByte
  rcases h8 with rfl | rfl | rfl | rfl | rfl | rfl | rfl | rfl <;>
    cases f 0 <;> cases f 1 <;> cases f 2 <;> cases f 3 <;> cases f 4 <;> cases f 5 <;> cases f 6 <;> cases f 7 <;> rfl


/-- **C05 (content index).**  Decoding the index that encodes a set of content indices gives back exactly that set:
    bit `0x80 >>> (i % 8)` of byte `i / 8`, most significant bit first. -/
theorem active_encode (s : List Nat) (i : Nat) (hi : i < 0x10000) :
    i ∈ activeContents (encodeIndex s) ↔ i ∈ s := by
  have hl : (encodeIndex s).length = 0x2000 := by simp [encodeIndex]
  simp only [activeContents, List.mem_filter, List.mem_range, hl]
  have hj : i / 8 < 0x2000 := by omega
  have hget : (encodeIndex s).toArray.getD (i / 8) 0 = mkByte fun b => s.contains (8 * (i / 8) + b) := by
    simp [encodeIndex, Array.getD, hj, List.getElem_map, List.getElem_range]
  rw [hget, mkByte_test _ (i % 8) (Nat.mod_lt _ (by omega))]
  have e : 8 * (i / 8) + i % 8 = i := Nat.div_add_mod i 8
  simp only [e, List.contains_iff_mem]
  constructor
  · intro h; exact h.2
  · intro h; exact ⟨by omega, h⟩

theorem roundup64 (a : Nat) : roundupNat a 64 % 64 = 0 ∧ a ≤ roundupNat a 64 ∧ roundupNat a 64 < a + 64 := by
  unfold roundupNat; omega

end Cia

/-- **C05 (title key).**  If AES decryption inverts AES encryption, CBC-decrypting the ticket's encrypted title
    key under the common key with IV = title id ++ 0^8 recovers the title key. -/
theorem titlekey_recovered (E D : Bytes → Bytes → Bytes) (hED : ∀ k b, b.length = 16 → D k (E k b) = b) (ck iv tk : Bytes)
    (htk : tk.length = 16) (hiv : iv.length = 16) (hE : ∀ k b, b.length = 16 → (E k b).length = 16) :
    Engine.cbcDecBlocks D ck iv (E ck (xorBytes tk iv)) = tk := by
  have hx : (xorBytes tk iv).length = 16 := by simp [xorBytes, htk, hiv]
  have hl : (E ck (xorBytes tk iv)).length / 16 = 1 := by rw [hE _ _ hx]
  unfold Engine.cbcDecBlocks
  rw [hl]
  simp only [List.range_one, List.flatMap_cons, List.flatMap_nil, List.append_nil, Nat.mul_zero, if_true]
  rw [slice_all _ _ (by rw [hE _ _ hx]; exact Nat.le_refl _), hED _ _ hx]
  -- (tk xor iv) xor iv = tk
  apply List.ext_getElem?; intro i
  simp only [xorBytes, List.getElem?_zipWith]
  by_cases hi : i < 16
  · have h1 : tk[i]? = some tk[i] := List.getElem?_eq_getElem (by omega)
    have h2 : iv[i]? = some iv[i] := List.getElem?_eq_getElem (by omega)
    simp [h1, h2, UInt8.xor_assoc]
  · rw [List.getElem?_eq_none (by omega), List.getElem?_eq_none (by omega)]

/-- the hypotheses about the block cipher are satisfiable (they speak about 16-byte blocks only: a version quantifying over
    inputs of every length would ask for an injection of all byte strings into 16-byte strings) -/
example : ∃ E D : Bytes → Bytes → Bytes, (∀ k b, b.length = 16 → D k (E k b) = b) ∧ (∀ k b, b.length = 16 → (E k b).length = 16) :=
  ⟨fun _ b => b.reverse, fun _ b => b.reverse, fun _ b _ => by simp, fun _ b hb => by simpa using hb⟩

/-! ### the title key does not depend on what the engine loaded before -/
section History
open Engine
theorem titlekey_history (D : Bytes → Bytes → Bytes) (e e' : Engine) (tk tid : Bytes) (idx : Nat)
    (hd : e.dev = e'.dev) (x : Nat) (hx : e.keyX 0x3D = some x) (hx' : e'.keyX 0x3D = some x) :
    (Engine.loadEncryptedTitlekey D e tk idx tid).2 = (Engine.loadEncryptedTitlekey D e' tk idx tid).2 ∧
    ((Engine.loadEncryptedTitlekey D e tk idx tid).2 = none →
      (Engine.loadEncryptedTitlekey D e tk idx tid).1.normal 0x40 =
        (Engine.loadEncryptedTitlekey D e' tk idx tid).1.normal 0x40) := by
  unfold Engine.loadEncryptedTitlekey
  by_cases h0 : e.dev = true ∧ idx = 0
  · have h0' : e'.dev = true ∧ idx = 0 := by rw [← hd]; exact h0
    simp only [h0, h0', and_self, if_true]
    have hk : ∀ g : Engine, (g.setNormal 0x3D Engine.devCommonKey0).cipherKey 0x3D = .ok Engine.devCommonKey0 := by
      intro g; simp [Engine.cipherKey, Engine.setNormal, Engine.upd]
    simp only [hk]
    split <;> (try split) <;> simp [Engine.setNormal, Engine.upd]
  · have h0' : ¬ (e'.dev = true ∧ idx = 0) := by rw [← hd]; exact h0
    simp only [h0, h0', if_false]
    cases hc : commonKeyY[idx]? with
    | none => simp
    | some ky =>
      simp only
      have hk : ∀ g : Engine, g.keyX 0x3D = some x →
          (g.setKeyslot false 0x3D ky true).cipherKey 0x3D = .ok (keygenSlot 0x3D x ky) := by
        intro g hg; simp [Engine.cipherKey, Engine.setKeyslot, Engine.upd, hg]
      simp only [hk e hx, hk e' hx']
      split <;> (try split) <;> simp [Engine.setNormal, Engine.upd]
theorem load_keeps_x (D : Bytes → Bytes → Bytes) (e : Engine) (tk tid : Bytes) (idx : Nat) :
    (Engine.loadEncryptedTitlekey D e tk idx tid).1.keyX = e.keyX ∧
    (Engine.loadEncryptedTitlekey D e tk idx tid).1.dev = e.dev := by
  unfold Engine.loadEncryptedTitlekey
  by_cases h0 : e.dev = true ∧ idx = 0
  · simp only [h0, and_self, if_true]
    split <;> (try split) <;> (try split) <;> simp [Engine.setNormal, h0.1]
  · simp only [h0, if_false]
    cases hc : commonKeyY[idx]? with
    | none => simp
    | some ky =>
      simp only
      have h1 : (e.setKeyslot false 0x3D ky true).keyX = e.keyX ∧ (e.setKeyslot false 0x3D ky true).dev = e.dev := by
        unfold Engine.setKeyslot; simp only [Bool.false_eq_true, if_false, if_true]; split <;> simp
      split <;> (try split) <;> (try split) <;> simp [Engine.setNormal, h1]

theorem ticket_keeps_x (D : Bytes → Bytes → Bytes) (e : Engine) (t : Bytes) :
    (Engine.loadFromTicket D e t).1.keyX = e.keyX ∧ (Engine.loadFromTicket D e t).1.dev = e.dev := by
  unfold Engine.loadFromTicket
  split
  · simp
  · exact load_keeps_x D e _ _ _

theorem tickets_keep_x (D : Bytes → Bytes → Bytes) (prior : List Bytes) (e : Engine) :
    (prior.foldl (fun g t => (Engine.loadFromTicket D g t).1) e).keyX = e.keyX ∧
    (prior.foldl (fun g t => (Engine.loadFromTicket D g t).1) e).dev = e.dev := by
  induction prior generalizing e with
  | nil => simp
  | cons t ts ih =>
    simp only [List.foldl_cons]
    have := ih (Engine.loadFromTicket D e t).1
    have h2 := ticket_keeps_x D e t
    exact ⟨this.1.trans h2.1, this.2.trans h2.2⟩

end History

end Pyctr
