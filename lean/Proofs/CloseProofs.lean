import PyctrModel.Sys.Close
namespace Pyctr
namespace Close

/-- `b` is `a` with possibly a raised `closed` flag: closing and I/O never change anything else and never reopen -/
def objLe (a b : Obj) : Prop := b = { a with closed := b.closed } ∧ (a.closed = true → b.closed = true)

theorem objLe_refl (a : Obj) : objLe a a := ⟨rfl, id⟩

theorem objLe_trans {a b c : Obj} (h1 : objLe a b) (h2 : objLe b c) : objLe a c := by
  obtain ⟨e1, m1⟩ := h1
  obtain ⟨e2, m2⟩ := h2
  refine ⟨?_, fun h => m2 (m1 h)⟩
  rw [e2, e1]

theorem objLe_close (a : Obj) : objLe a { a with closed := true } := ⟨rfl, fun _ => rfl⟩

def heapLe (H H' : Heap) : Prop :=
  H.length = H'.length ∧ ∀ (j : Nat) (o : Obj), H[j]? = some o → ∃ o' : Obj, H'[j]? = some o' ∧ objLe o o'

theorem heapLe_refl (H : Heap) : heapLe H H := ⟨rfl, fun _ o h => ⟨o, h, objLe_refl o⟩⟩

theorem heapLe_trans {A B C : Heap} (h1 : heapLe A B) (h2 : heapLe B C) : heapLe A C := by
  refine ⟨h1.1.trans h2.1, ?_⟩
  intro j o hj
  obtain ⟨o1, hb, l1⟩ := h1.2 j o hj
  obtain ⟨o2, hc, l2⟩ := h2.2 j o1 hb
  exact ⟨o2, hc, objLe_trans l1 l2⟩

theorem getElem?_lt {H : Heap} {i : Nat} {o : Obj} (hi : H[i]? = some o) : i < H.length := by
  rcases Nat.lt_or_ge i H.length with h | h
  · exact h
  · rw [List.getElem?_eq_none h] at hi; cases hi

theorem heapLe_set (H : Heap) (i : Nat) (o o' : Obj) (hi : H[i]? = some o) (hl : objLe o o') : heapLe H (H.set i o') := by
  refine ⟨by simp, ?_⟩
  intro j oj hj
  by_cases hij : i = j
  · subst hij
    rw [hi] at hj; cases hj
    exact ⟨o', by rw [List.getElem?_set_self (getElem?_lt hi)], hl⟩
  · exact ⟨oj, by rw [List.getElem?_set_ne hij]; exact hj, objLe_refl oj⟩

theorem foldl_le (f : Heap → Nat → Heap) (hf : ∀ H j, heapLe H (f H j)) (l : List Nat) (H : Heap) : heapLe H (l.foldl f H) := by
  induction l generalizing H with
  | nil => exact heapLe_refl H
  | cons x xs ih => exact heapLe_trans (hf H x) (ih (f H x))

theorem objLe_afterCheck (H : Heap) (o : Obj) : objLe o (afterCheck H o) := by
  unfold afterCheck
  split
  · exact objLe_close o
  · exact objLe_refl o

/-- an I/O call changes nothing but `closed` flags, and only raises them (the latching closed-check) -/
theorem ioObj_le (n : Nat) : ∀ (H : Heap) (i : Nat) (op : IoOp), heapLe H (ioObj n H i op).2 := by
  induction n with
  | zero => intro H i op; exact heapLe_refl H
  | succ n ih =>
    intro H i op
    rw [ioObj]
    cases hi : H[i]? with
    | none => exact heapLe_refl H
    | some o =>
      have hset : heapLe H (H.set i (afterCheck H o)) := heapLe_set H i o _ hi (objLe_afterCheck H o)
      simp only
      by_cases h1 : (afterCheck H o).closed = true
      · rw [if_pos h1]; exact hset
      · rw [if_neg h1]
        by_cases h2 : (decide (op = IoOp.tell) && !o.tellThrough) = true
        · rw [if_pos h2]; exact hset
        · rw [if_neg h2]
          have hfold : ∀ (l : List Nat) (acc : Bool × Heap),
              heapLe acc.2 (l.foldl (fun (acc : Bool × Heap) j => if acc.1 then acc else ioObj n acc.2 j op) acc).2 := by
            intro l
            induction l with
            | nil => intro acc; exact heapLe_refl acc.2
            | cons x xs ihx =>
              intro acc
              simp only [List.foldl_cons]
              by_cases ha : acc.1 = true
              · rw [if_pos ha]; exact ihx acc
              · rw [if_neg ha]; exact heapLe_trans (ih acc.2 x op) (ihx _)
          exact heapLe_trans hset (hfold o.through (false, H.set i (afterCheck H o)))

/-- closing changes nothing but `closed` flags, and only raises them -/
theorem closeObj_le (n : Nat) : ∀ (H : Heap) (i : Nat), heapLe H (closeObj n H i) := by
  induction n with
  | zero => intro H i; exact heapLe_refl H
  | succ n ih =>
    intro H i
    rw [closeObj]
    cases hi : H[i]? with
    | none => exact heapLe_refl H
    | some o =>
      simp only
      by_cases h1 : (o.closeOnce && o.closed) = true
      · rw [if_pos h1]; exact heapLe_refl H
      · rw [if_neg h1]
        have hflush : heapLe H (flushStep n H o).2 := by
          unfold flushStep
          cases o.flushOnClose with
          | none => exact heapLe_refl H
          | some j =>
            simp only
            split
            · exact heapLe_refl H
            · exact ioObj_le n H j _
        generalize flushStep n H o = fl at hflush
        obtain ⟨aborted, H0⟩ := fl
        simp only at hflush ⊢
        obtain ⟨o0, ho0, hle0⟩ := hflush.2 i o hi
        have hset : heapLe H0 (H0.set i { o with closed := true }) := by
          apply heapLe_set H0 i o0 _ ho0
          obtain ⟨e, _⟩ := hle0
          refine ⟨?_, fun _ => rfl⟩
          rw [e]
        by_cases ha : aborted = true
        · rw [if_pos ha]; exact heapLe_trans hflush hset
        · rw [if_neg ha]
          refine heapLe_trans hflush (heapLe_trans hset ?_)
          refine heapLe_trans ?_ (foldl_le _ (fun H j => ih H j) _ _)
          split
          · exact foldl_le _ (fun H j => ih H j) _ _
          · exact heapLe_refl _
def closedAt (H : Heap) (i : Nat) : Prop := ∀ o, H[i]? = some o → o.closed = true

theorem closedAt_mono {H H' : Heap} (h : heapLe H H') (i : Nat) (hc : closedAt H i) (hi : i < H.length) : closedAt H' i := by
  intro o' ho'
  have : ∃ o, H[i]? = some o := ⟨H[i], by rw [List.getElem?_eq_getElem hi]⟩
  obtain ⟨o, ho⟩ := this
  obtain ⟨o2, ho2, hle⟩ := h.2 i o ho
  rw [ho'] at ho2; cases ho2
  exact hle.2 (hc o ho)

/-- **a close sets the object's own flag** (whatever else it does, whatever was closed before) -/
theorem closeObj_closes_self (n : Nat) (H : Heap) (i : Nat) : closedAt (closeObj (n + 1) H i) i := by
  rw [closeObj]
  cases hi : H[i]? with
  | none => intro o ho; rw [hi] at ho; cases ho
  | some o =>
    simp only
    by_cases h1 : (o.closeOnce && o.closed) = true
    · rw [if_pos h1]
      intro o' ho'; rw [hi] at ho'; cases ho'
      simp only [Bool.and_eq_true] at h1; exact h1.2
    · rw [if_neg h1]
      have hfl : heapLe H (flushStep n H o).2 := by
        unfold flushStep
        cases o.flushOnClose with
        | none => exact heapLe_refl H
        | some j => simp only; split; exact heapLe_refl H; exact ioObj_le n H j _
      have hlen : i < (flushStep n H o).2.length := by rw [← hfl.1]; exact getElem?_lt hi
      have hset : closedAt ((flushStep n H o).2.set i { o with closed := true }) i := by
        intro o' ho'
        rw [List.getElem?_set_self hlen] at ho'; cases ho'; rfl
      by_cases ha : (flushStep n H o).1 = true
      · rw [if_pos ha]; exact hset
      · rw [if_neg ha]
        have hl2 : i < ((flushStep n H o).2.set i { o with closed := true }).length := by simp; exact hlen
        apply closedAt_mono (H := (flushStep n H o).2.set i { o with closed := true }) _ i hset hl2
        refine heapLe_trans ?_ (foldl_le _ (fun H j => closeObj_le n H j) _ _)
        split
        · exact foldl_le _ (fun H j => closeObj_le n H j) _ _
        · exact heapLe_refl _

/-- **use after close raises**: an object whose own flag is set raises on every I/O call -/
theorem io_raises_closed (n : Nat) (H : Heap) (i : Nat) (op : IoOp) (o : Obj) (hi : H[i]? = some o) (hc : o.closed = true) :
    (ioObj (n + 1) H i op).1 = true := by
  rw [ioObj, hi]
  simp only
  have : (afterCheck H o).closed = true := by
    unfold afterCheck; split
    · rfl
    · exact hc
  rw [if_pos this]

/-- … and so does an object whose consulted object (`_reader` of `_raise_if_file_closed`) is closed -/
theorem io_raises_look (n : Nat) (H : Heap) (i j : Nat) (op : IoOp) (o oj : Obj) (hi : H[i]? = some o) (hl : o.look = some j)
    (hj : H[j]? = some oj) (hc : oj.closed = true) : (ioObj (n + 1) H i op).1 = true := by
  rw [ioObj, hi]
  simp only
  have : (afterCheck H o).closed = true := by
    unfold afterCheck latched
    rw [hl]; simp only [hj, Option.map_some, Option.getD_some, hc, if_true]
  rw [if_pos this]

theorem foldl_closes (n : Nat) (l : List Nat) : ∀ (H : Heap) (t : Nat), t ∈ l → t < H.length →
    closedAt (l.foldl (closeObj (n + 1)) H) t := by
  induction l with
  | nil => intro H t ht; cases ht
  | cons x xs ih =>
    intro H t ht hlt
    simp only [List.foldl_cons]
    rcases List.mem_cons.mp ht with h | h
    · subst h
      have h1 := closeObj_closes_self n H t
      have hle := closeObj_le (n + 1) H t
      exact closedAt_mono (foldl_le _ (fun H j => closeObj_le (n + 1) H j) xs _) t h1 (by rw [← hle.1]; exact hlt)
    · exact ih _ t h (by rw [← (closeObj_le (n + 1) H x).1]; exact hlt)

/-- **completeness, one level**: closing an object that is not already a closed reader, and whose flush (if any) does not
    raise, closes every object it tracks — its open handles, nested readers, base wrappers, partitions -/
theorem close_closes_tracked (n : Nat) (H : Heap) (r : Nat) (o : Obj) (hr : H[r]? = some o)
    (hfresh : (o.closeOnce && o.closed) = false) (hfl : (flushStep (n + 1) H o).1 = false) (t : Nat) (ht : t ∈ o.tracked)
    (hlt : t < H.length) : closedAt (closeObj (n + 2) H r) t := by
  rw [closeObj, hr]
  simp only
  rw [if_neg (by rw [hfresh]; simp), if_neg (by rw [hfl]; simp)]
  apply foldl_closes n o.tracked _ t ht
  have hfle : heapLe H (flushStep (n + 1) H o).2 := by
    unfold flushStep
    cases o.flushOnClose with
    | none => exact heapLe_refl H
    | some j => simp only; split; exact heapLe_refl H; exact ioObj_le _ H j _
  have h1 : ((flushStep (n + 1) H o).2.set r { o with closed := true }).length = H.length := by simp; exact hfle.1.symm
  split
  · rw [← (foldl_le _ (fun H j => closeObj_le (n + 1) H j) o.owns _).1, h1]; exact hlt
  · rw [h1]; exact hlt

/-- idempotence for the reader classes: a second close is the identity -/
theorem close_twice_reader (n m : Nat) (H : Heap) (r : Nat) (o : Obj) (hr : H[r]? = some o) (hco : o.closeOnce = true) :
    closeObj (m + 1) (closeObj (n + 1) H r) r = closeObj (n + 1) H r := by
  have hc := closeObj_closes_self n H r
  have hle := closeObj_le (n + 1) H r
  obtain ⟨o', ho', hl⟩ := hle.2 r o hr
  rw [closeObj, ho']
  simp only
  have h1 : o'.closeOnce = true := by rw [hl.1]; exact hco
  rw [if_pos (by rw [h1, hc o' ho']; rfl)]


/-- two heaps with the same static fields (everything but `closed`) at every index -/
def sameShape (H H' : Heap) : Prop :=
  ∀ j : Nat, (H[j]?).map (fun (o : Obj) => { o with closed := false }) = (H'[j]?).map (fun (o : Obj) => { o with closed := false })

theorem flatMap_congr' {α β : Type} (l : List α) (f g : α → List β) (h : ∀ x, x ∈ l → f x = g x) :
    l.flatMap f = l.flatMap g := by
  induction l with
  | nil => rfl
  | cons a l ih =>
    simp only [List.flatMap_cons]
    rw [h a (by simp), ih (fun x hx => h x (by simp [hx]))]

theorem sameShape_of_le {H H' : Heap} (h : heapLe H H') : sameShape H H' := by
  intro j
  cases hj : H[j]? with
  | none =>
    have : H.length ≤ j := by
      rcases Nat.lt_or_ge j H.length with hl | hl
      · rw [List.getElem?_eq_getElem hl] at hj; cases hj
      · exact hl
    rw [List.getElem?_eq_none (by rw [← h.1]; exact this)]
  | some o =>
    obtain ⟨o', ho', hl⟩ := h.2 j o hj
    rw [ho']
    simp only [Option.map_some]
    rw [hl.1]

theorem sameShape_fields {H H' : Heap} (h : sameShape H H') (j : Nat) (o : Obj) (hj : H[j]? = some o) :
    ∃ o', H'[j]? = some o' ∧ o'.through = o.through ∧ o'.owns = o.owns ∧ o'.tracked = o.tracked ∧ o'.closefd = o.closefd ∧
      o'.flushOnClose = o.flushOnClose := by
  have := h j
  rw [hj] at this
  cases hj' : H'[j]? with
  | none => rw [hj'] at this; simp at this
  | some o' =>
    rw [hj'] at this
    simp only [Option.map_some, Option.some.injEq] at this
    refine ⟨o', rfl, ?_⟩
    have e := this
    cases o; cases o'
    simp only [Obj.mk.injEq] at e
    simp only
    obtain ⟨_, _, h3, h4, h5, _, h7, _, h9⟩ := e
    exact ⟨h7.symm, h4.symm, h5.symm, h3.symm, h9.symm⟩

theorem sameShape_none {H H' : Heap} (h : sameShape H H') (j : Nat) (hj : H[j]? = none) : H'[j]? = none := by
  have := h j
  rw [hj] at this
  cases hj' : H'[j]? with
  | none => rfl
  | some o' => rw [hj'] at this; simp at this

theorem ioReach_static (n : Nat) : ∀ (H H' : Heap) (i : Nat), sameShape H H' → ioReach n H' i = ioReach n H i := by
  induction n with
  | zero => intro H H' i _; rfl
  | succ n ih =>
    intro H H' i hs
    rw [ioReach, ioReach]
    cases hi : H[i]? with
    | none => rw [sameShape_none hs i hi]
    | some o =>
      obtain ⟨o', ho', ht, _⟩ := sameShape_fields hs i o hi
      rw [ho']
      simp only [ht]
      congr 1
      apply flatMap_congr'
      intro x _
      exact ih H H' x hs

theorem reach_static (n : Nat) : ∀ (H H' : Heap) (i : Nat), sameShape H H' → reach n H' i = reach n H i := by
  induction n with
  | zero => intro H H' i _; rfl
  | succ n ih =>
    intro H H' i hs
    rw [reach, reach]
    cases hi : H[i]? with
    | none => rw [sameShape_none hs i hi]
    | some o =>
      obtain ⟨o', ho', _, ho, htr, hcf, hfl⟩ := sameShape_fields hs i o hi
      rw [ho']
      simp only [ho, htr, hcf, hfl]
      congr 1
      congr 1
      · congr 1
        · cases o.flushOnClose with
          | none => rfl
          | some j => exact ioReach_static n H H' j hs
        · split
          · apply flatMap_congr'; intro x _; exact ih H H' x hs
          · rfl
      · apply flatMap_congr'; intro x _; exact ih H H' x hs

/-- **frame of an I/O call**: only the object and what it reads through can have their flag latched -/
theorem io_frame (n : Nat) : ∀ (H : Heap) (i : Nat) (op : IoOp) (j : Nat), j ∉ ioReach n H i →
    (ioObj n H i op).2[j]? = H[j]? := by
  induction n with
  | zero => intro H i op j _; rfl
  | succ n ih =>
    intro H i op j hj
    rw [ioReach] at hj
    rw [ioObj]
    cases hi : H[i]? with
    | none => rfl
    | some o =>
      rw [hi] at hj
      simp only [List.mem_cons, List.mem_flatMap, not_or, not_exists, not_and] at hj
      obtain ⟨hne, hthr⟩ := hj
      have hset : (H.set i (afterCheck H o))[j]? = H[j]? := by rw [List.getElem?_set_ne (Ne.symm hne)]
      have hle1 : heapLe H (H.set i (afterCheck H o)) := heapLe_set H i o _ hi (objLe_afterCheck H o)
      simp only
      by_cases h1 : (afterCheck H o).closed = true
      · rw [if_pos h1]; exact hset
      · rw [if_neg h1]
        by_cases h2 : (decide (op = IoOp.tell) && !o.tellThrough) = true
        · rw [if_pos h2]; exact hset
        · rw [if_neg h2]
          have hfold : ∀ (l : List Nat) (acc : Bool × Heap), (∀ x, x ∈ l → x ∈ o.through) → heapLe H acc.2 → acc.2[j]? = H[j]? →
              (l.foldl (fun (acc : Bool × Heap) x => if acc.1 then acc else ioObj n acc.2 x op) acc).2[j]? = H[j]? := by
            intro l
            induction l with
            | nil => intro acc _ _ h; exact h
            | cons x xs ihx =>
              intro acc hsub hle hacc
              simp only [List.foldl_cons]
              by_cases ha : acc.1 = true
              · rw [if_pos ha]; exact ihx acc (fun y hy => hsub y (by simp [hy])) hle hacc
              · rw [if_neg ha]
                apply ihx _ (fun y hy => hsub y (by simp [hy])) (heapLe_trans hle (ioObj_le n acc.2 x op))
                rw [ih acc.2 x op j ?_, hacc]
                rw [ioReach_static n H acc.2 x (sameShape_of_le hle)]
                exact hthr x (hsub x (by simp))
          exact hfold o.through _ (fun _ h => h) hle1 hset

theorem foldl_frame (f : Heap → Nat → Heap) (g : Heap → Nat → List Nat) (j : Nat) (H0 : Heap)
    (hle : ∀ H x, heapLe H (f H x)) (hfr : ∀ H x, j ∉ g H x → (f H x)[j]? = H[j]?)
    (hst : ∀ H x, heapLe H0 H → g H x = g H0 x) (l : List Nat) :
    ∀ H, heapLe H0 H → (∀ x, x ∈ l → j ∉ g H0 x) → (l.foldl f H)[j]? = H[j]? := by
  induction l with
  | nil => intro H _ _; rfl
  | cons x xs ih =>
    intro H hH hn
    simp only [List.foldl_cons]
    rw [ih (f H x) (heapLe_trans hH (hle H x)) (fun y hy => hn y (by simp [hy])), hfr H x]
    rw [hst H x hH]; exact hn x (by simp)

/-- **containment**: a `close()` touches only what is in `reach` — never a sibling handle, never the reader of a handle,
    never a file that the closed object does not own with `closefd` -/
theorem close_frame (n : Nat) : ∀ (H : Heap) (i : Nat) (j : Nat), j ∉ reach n H i → (closeObj n H i)[j]? = H[j]? := by
  induction n with
  | zero => intro H i j _; rfl
  | succ n ih =>
    intro H i j hj
    rw [reach] at hj
    rw [closeObj]
    cases hi : H[i]? with
    | none => rfl
    | some o =>
      rw [hi] at hj
      simp only [List.mem_cons, List.mem_append, not_or] at hj
      obtain ⟨hne, ⟨hflj, hown⟩, htr⟩ := hj
      simp only
      by_cases h1 : (o.closeOnce && o.closed) = true
      · rw [if_pos h1]
      · rw [if_neg h1]
        have hfle : heapLe H (flushStep n H o).2 := by
          unfold flushStep
          cases o.flushOnClose with
          | none => exact heapLe_refl H
          | some k => simp only; split; exact heapLe_refl H; exact ioObj_le n H k _
        have hfl : (flushStep n H o).2[j]? = H[j]? := by
          unfold flushStep
          cases hf : o.flushOnClose with
          | none => rfl
          | some k =>
            simp only
            split
            · rfl
            · rw [hf] at hflj; exact io_frame n H k _ j hflj
        have hi2 : (flushStep n H o).2[i]? = some ((flushStep n H o).2[i]'(by rw [← hfle.1]; exact getElem?_lt hi)) :=
          List.getElem?_eq_getElem _
        have hle1 : heapLe H ((flushStep n H o).2.set i { o with closed := true }) := by
          refine heapLe_trans hfle (heapLe_set _ i _ _ hi2 ?_)
          obtain ⟨o0, ho0, hl0⟩ := hfle.2 i o hi
          rw [hi2] at ho0; cases ho0
          exact ⟨by rw [hl0.1], fun _ => rfl⟩
        have hset : ((flushStep n H o).2.set i { o with closed := true })[j]? = H[j]? := by
          rw [List.getElem?_set_ne (Ne.symm hne)]; exact hfl
        by_cases ha : (flushStep n H o).1 = true
        · rw [if_pos ha]; exact hset
        · rw [if_neg ha]
          have step : ∀ (l : List Nat) (Hs : Heap), heapLe H Hs → (∀ x, x ∈ l → j ∉ reach n H x) →
              (l.foldl (closeObj n) Hs)[j]? = Hs[j]? :=
            fun l Hs hHs hl => foldl_frame (closeObj n) (reach n) j H (fun H x => closeObj_le n H x)
              (fun H x hx => ih H x j hx) (fun H' x hH' => reach_static n H H' x (sameShape_of_le hH')) l Hs hHs hl
          have htr' : ∀ x, x ∈ o.tracked → j ∉ reach n H x := by
            intro x hx hc; exact htr (List.mem_flatMap.mpr ⟨x, hx, hc⟩)
          by_cases hcf : o.closefd = true
          · rw [if_pos hcf]
            rw [if_pos hcf] at hown
            have hown' : ∀ x, x ∈ o.owns → j ∉ reach n H x := by
              intro x hx hc; exact hown (List.mem_flatMap.mpr ⟨x, hx, hc⟩)
            rw [step o.tracked _ (heapLe_trans hle1 (foldl_le _ (fun H x => closeObj_le n H x) _ _)) htr',
              step o.owns _ hle1 hown', hset]
          · rw [if_neg hcf, step o.tracked _ hle1 htr', hset]

end Close
end Pyctr
