/-
  C16 (completeness, every level): closing an object closes everything below it in the ownership / tracking graph — nested
  readers, their handles, base wrappers, partitions — however deep, for every acyclic graph.
-/
import Proofs.CloseProofs
namespace Pyctr
namespace Close

/-- below `i` in the close graph -/
inductive Desc (H : Heap) : Nat → Nat → Prop
  | refl (i : Nat) : Desc H i i
  | step {i k j : Nat} {o : Obj} : H[i]? = some o → k ∈ kids o → Desc H k j → Desc H i j

/-- the graph is acyclic: a ranking that strictly decreases along every edge -/
def Ranked (rk : Nat → Nat) (H : Heap) : Prop := ∀ (i : Nat) (o : Obj), H[i]? = some o → ∀ k, k ∈ kids o → rk k < rk i

/-- no object flushes an inner object when closed (the reader and handle classes of pyctr; the exception is pyfilesystem's
    RawWrapper, see the C16 finding) -/
def NoFlush (H : Heap) : Prop := ∀ (i : Nat) (o : Obj), H[i]? = some o → o.flushOnClose = none

/-- below `root`, every reader that is already closed (whose `close()` returns at once) has everything below it closed -/
def GoodOn (H : Heap) (root : Nat) : Prop :=
  ∀ (i' : Nat) (o' : Obj), Desc H root i' → H[i']? = some o' → o'.closeOnce = true → o'.closed = true → ∀ j, Desc H i' j → closedAt H j

theorem closedAt_mono' {H H' : Heap} (h : heapLe H H') (j : Nat) (hc : closedAt H j) : closedAt H' j := by
  rcases Nat.lt_or_ge j H.length with hl | hl
  · exact closedAt_mono h j hc hl
  · intro o ho
    rw [List.getElem?_eq_none (by rw [← h.1]; exact hl)] at ho
    cases ho

theorem le_fields {H H' : Heap} (h : heapLe H H') (j : Nat) (o o' : Obj) (hj : H[j]? = some o) (hj' : H'[j]? = some o') :
    kids o' = kids o ∧ o'.closeOnce = o.closeOnce ∧ o'.flushOnClose = o.flushOnClose ∧ (o.closed = true → o'.closed = true) := by
  obtain ⟨o2, ho2, hl⟩ := h.2 j o hj
  rw [hj'] at ho2
  cases ho2
  refine ⟨?_, ?_, ?_, hl.2⟩ <;> rw [hl.1] <;> rfl

theorem le_lookup {H H' : Heap} (h : heapLe H H') (j : Nat) (o' : Obj) (hj' : H'[j]? = some o') : ∃ o, H[j]? = some o := by
  have hlt := getElem?_lt hj'
  rw [← h.1] at hlt
  exact ⟨H[j], List.getElem?_eq_getElem hlt⟩

theorem desc_le {H H' : Heap} (h : heapLe H H') (i j : Nat) : Desc H i j ↔ Desc H' i j := by
  constructor
  · intro hd
    induction hd with
    | refl i => exact Desc.refl i
    | step hi hk _ ih =>
      obtain ⟨o', ho', _⟩ := h.2 _ _ hi
      exact Desc.step ho' (by rw [(le_fields h _ _ _ hi ho').1]; exact hk) ih
  · intro hd
    induction hd with
    | refl i => exact Desc.refl i
    | step hi hk _ ih =>
      obtain ⟨o, ho⟩ := le_lookup h _ _ hi
      exact Desc.step ho (by rw [← (le_fields h _ _ _ ho hi).1]; exact hk) ih

theorem ranked_le {rk : Nat → Nat} {H H' : Heap} (h : heapLe H H') (hr : Ranked rk H) : Ranked rk H' := by
  intro i o' hi k hk
  obtain ⟨o, ho⟩ := le_lookup h _ _ hi
  exact hr i o ho k (by rw [← (le_fields h _ _ _ ho hi).1]; exact hk)

theorem noflush_le {H H' : Heap} (h : heapLe H H') (hn : NoFlush H) : NoFlush H' := by
  intro i o' hi
  obtain ⟨o, ho⟩ := le_lookup h _ _ hi
  rw [(le_fields h _ _ _ ho hi).2.2.1]
  exact hn i o ho

theorem desc_rank {rk : Nat → Nat} {H : Heap} (hr : Ranked rk H) (i j : Nat) (hd : Desc H i j) : rk j ≤ rk i := by
  induction hd with
  | refl i => exact Nat.le_refl _
  | step hi hk _ ih => have := hr _ _ hi _ hk; omega

theorem desc_trans {H : Heap} (i k j : Nat) (h1 : Desc H i k) (h2 : Desc H k j) : Desc H i j := by
  induction h1 with
  | refl i => exact h2
  | step hi hk _ ih => exact Desc.step hi hk (ih h2)

/-- without flushing wrappers, `close()` is: return if already a closed reader, else set the flag and close the kids in order -/
theorem closeObj_noflush (n : Nat) (H : Heap) (i : Nat) (o : Obj) (hi : H[i]? = some o) (hf : o.flushOnClose = none) :
    closeObj (n + 1) H i =
      if (o.closeOnce && o.closed) = true then H
      else (kids o).foldl (closeObj n) (H.set i { o with closed := true }) := by
  rw [closeObj, hi]
  simp only
  have hfs : flushStep n H o = (false, H) := by unfold flushStep; rw [hf]
  rw [hfs]
  simp only [Bool.false_eq_true, if_false]
  by_cases hc : (o.closeOnce && o.closed) = true
  · rw [if_pos hc, if_pos hc]
  · rw [if_neg hc, if_neg hc]
    unfold kids
    rw [List.foldl_append]
    by_cases hcf : o.closefd = true
    · rw [if_pos hcf, if_pos hcf]
    · rw [if_neg hcf, if_neg hcf]; rfl

/-- what a close may touch lies below the object -/
theorem reach_sub_desc (n : Nat) : ∀ (H : Heap) (i j : Nat), NoFlush H → j ∈ reach n H i → Desc H i j := by
  induction n with
  | zero => intro H i j _ hj; simp [reach] at hj
  | succ n ih =>
    intro H i j hn hj
    rw [reach] at hj
    cases hi : H[i]? with
    | none => rw [hi] at hj; simp at hj
    | some o =>
      rw [hi] at hj
      have hfl := hn i o hi
      simp only [hfl, List.nil_append, List.mem_cons, List.mem_append] at hj
      rcases hj with hj | hj | hj
      · rw [hj]; exact Desc.refl i
      · by_cases hcf : o.closefd = true
        · rw [if_pos hcf, List.mem_flatMap] at hj
          obtain ⟨k, hk, hkj⟩ := hj
          exact Desc.step hi (by unfold kids; rw [if_pos hcf]; simp [hk]) (ih H k j hn hkj)
        · rw [if_neg hcf] at hj; cases hj
      · rw [List.mem_flatMap] at hj
        obtain ⟨k, hk, hkj⟩ := hj
        exact Desc.step hi (by unfold kids; simp [hk]) (ih H k j hn hkj)

/-- **completeness at every level.**  In an acyclic close graph without flushing wrappers, with fuel above the rank of the object,
    `close()` leaves EVERYTHING below the object closed — provided the readers below it that were already closed had everything
    below them closed (which `close()` itself maintains: second conclusion). -/
theorem close_all_below (rk : Nat → Nat) : ∀ (n : Nat) (H : Heap) (i : Nat), Ranked rk H → NoFlush H → rk i < n → GoodOn H i →
    (∀ j, Desc H i j → closedAt (closeObj n H i) j) ∧ GoodOn (closeObj n H i) i := by
  intro n
  induction n with
  | zero => intro H i _ _ h; omega
  | succ n ih =>
    intro H i hr hn hrk hgood
    cases hi : H[i]? with
    | none =>
      have hres : closeObj (n + 1) H i = H := by rw [closeObj, hi]
      rw [hres]
      refine ⟨?_, hgood⟩
      intro j hd
      cases hd with
      | refl => intro o ho; rw [hi] at ho; cases ho
      | step h1 _ _ => rw [hi] at h1; cases h1
    | some o =>
      rw [closeObj_noflush n H i o hi (hn i o hi)]
      by_cases hc : (o.closeOnce && o.closed) = true
      · rw [if_pos hc]
        simp only [Bool.and_eq_true] at hc
        exact ⟨fun j hd => hgood i o (Desc.refl i) hi hc.1 hc.2 j hd, hgood⟩
      · rw [if_neg hc]
        have hlt := getElem?_lt hi
        have hle1 : heapLe H (H.set i { o with closed := true }) := heapLe_set H i o _ hi (objLe_close o)
        -- the fold over the kids, with the invariant "every kid's sub-graph is good"
        have hfold : ∀ (l : List Nat) (F : Heap), (∀ k, k ∈ l → k ∈ kids o) → heapLe H F →
            (∀ k, k ∈ kids o → GoodOn F k) →
            heapLe F (l.foldl (closeObj n) F) ∧ (∀ k, k ∈ kids o → GoodOn (l.foldl (closeObj n) F) k) ∧
              (∀ k, k ∈ l → ∀ j, Desc H k j → closedAt (l.foldl (closeObj n) F) j) := by
          intro l
          induction l with
          | nil => intro F _ _ hinv; exact ⟨heapLe_refl F, hinv, fun k hk => by cases hk⟩
          | cons k r ihl =>
            intro F hsub hHF hinv
            simp only [List.foldl_cons]
            have hk : k ∈ kids o := hsub k (by simp)
            have hrF := ranked_le hHF hr
            have hnF := noflush_le hHF hn
            obtain ⟨p1, p2⟩ := ih F k hrF hnF (by have := hr i o hi k hk; omega) (hinv k hk)
            have hFF' := closeObj_le n F k
            have hinv' : ∀ k', k' ∈ kids o → GoodOn (closeObj n F k) k' := by
              intro k' hk' i' o'' hd' hi' hco hcl j hdj
              rw [← desc_le hFF'] at hd' hdj
              by_cases hin : Desc F k i'
              · exact p2 i' o'' ((desc_le hFF' _ _).mp hin) hi' hco hcl j ((desc_le hFF' _ _).mp hdj)
              · -- untouched by this close
                have hnot : i' ∉ reach n F k := fun hm => hin (reach_sub_desc n F k i' hnF hm)
                have hsame := close_frame n F k i' hnot
                rw [hsame] at hi'
                exact closedAt_mono' hFF' j (hinv k' hk' i' o'' hd' hi' hco hcl j hdj)
            obtain ⟨q1, q2, q3⟩ := ihl (closeObj n F k) (fun x hx => hsub x (by simp [hx])) (heapLe_trans hHF hFF') hinv'
            refine ⟨heapLe_trans hFF' q1, q2, ?_⟩
            intro x hx j hdj
            rcases List.mem_cons.mp hx with hx | hx
            · subst hx
              exact closedAt_mono' q1 j (p1 j ((desc_le hHF _ _).mp hdj))
            · exact q3 x hx j hdj
        -- the invariant holds right after the flag of `i` is set
        have hinv1 : ∀ k, k ∈ kids o → GoodOn (H.set i { o with closed := true }) k := by
          intro k hk i' o'' hd' hi' hco hcl j hdj
          rw [← desc_le hle1] at hd' hdj
          have hne : i ≠ i' := by
            intro he
            have h1 := desc_rank hr k i' hd'
            have h2 := hr i o hi k hk
            rw [← he] at h1
            omega
          rw [List.getElem?_set_ne hne] at hi'
          exact closedAt_mono' hle1 j (hgood i' o'' (Desc.step hi hk hd') hi' hco hcl j hdj)
        obtain ⟨f1, f2, f3⟩ := hfold (kids o) _ (fun k hk => hk) hle1 hinv1
        have hleR := heapLe_trans hle1 f1
        have hall : ∀ j, Desc H i j → closedAt ((kids o).foldl (closeObj n) (H.set i { o with closed := true })) j := by
          intro j hd
          cases hd with
          | refl =>
            apply closedAt_mono' f1
            intro o2 ho2
            rw [List.getElem?_set_self hlt] at ho2
            cases ho2
            rfl
          | step h1 hk hkj =>
            rw [hi] at h1
            cases h1
            exact f3 _ hk j hkj
        refine ⟨hall, ?_⟩
        intro i' o'' hd' hi' hco hcl j hdj
        rw [← desc_le hleR] at hd' hdj
        cases hd' with
        | refl => exact hall j hdj
        | step h1 hk hki' =>
          rw [hi] at h1
          cases h1
          exact f2 _ hk i' o'' ((desc_le hleR _ _).mp hki') hi' hco hcl j ((desc_le hleR _ _).mp hdj)

/-- nothing closed yet (a freshly built world): the side condition holds trivially -/
theorem goodOn_fresh (H : Heap) (i : Nat) (h : ∀ (j : Nat) (o : Obj), H[j]? = some o → o.closeOnce = true → o.closed = false) : GoodOn H i := by
  intro i' o' _ hi' hco hcl
  rw [h i' o' hi' hco] at hcl
  cases hcl

/-! ### decidable forms of the side conditions (for concrete graphs) -/

theorem ranked_of_b (rk : Nat → Nat) (H : Heap) (h : rankedB rk H = true) : Ranked rk H := by
  intro i o hi k hk
  unfold rankedB at h
  rw [List.all_eq_true] at h
  have := h i (List.mem_range.mpr (getElem?_lt hi))
  rw [hi] at this
  simp only [List.all_eq_true, decide_eq_true_eq] at this
  exact this k hk

theorem noFlush_of_b (H : Heap) (h : noFlushB H = true) : NoFlush H := by
  intro i o hi
  unfold noFlushB at h
  rw [List.all_eq_true] at h
  have := h o (List.mem_of_getElem? hi)
  simpa using this

theorem fresh_of_b (H : Heap) (h : freshB H = true) (i : Nat) : GoodOn H i := by
  apply goodOn_fresh
  intro j o hj hco
  unfold freshB at h
  rw [List.all_eq_true] at h
  have := h o (List.mem_of_getElem? hj)
  rw [hco] at this
  simpa using this

end Close
end Pyctr
