import PyctrModel.Base.Bytes
namespace Pyctr

@[simp] theorem slice_length (d : Bytes) (a n : Nat) : (slice d a n).length = min n (d.length - a) := by
  simp [slice]

theorem slice_getElem? (d : Bytes) (a n i : Nat) :
    (slice d a n)[i]? = if i < n then d[a + i]? else none := by
  simp [slice, List.getElem?_take]

@[simp] theorem zeros_length (n : Nat) : (zeros n).length = n := by simp [zeros]

theorem slice_slice (d : Bytes) (a n b m : Nat) (h : b + m ≤ n) :
    slice (slice d a n) b m = slice d (a + b) m := by
  apply List.ext_getElem?; intro i
  simp only [slice_getElem?]
  by_cases hi : i < m
  · simp [hi, show b + i < n by omega, Nat.add_assoc]
  · simp [hi]

theorem slice_all (d : Bytes) (n : Nat) (h : d.length ≤ n) : slice d 0 n = d := by
  simp [slice, List.take_of_length_le h]

theorem overlay_length (d : Bytes) (a : Nat) (w : Bytes) :
    (overlay d a w).length = max d.length (a + w.length) := by
  simp [overlay]; omega

theorem overlay_length_inside (d : Bytes) (a : Nat) (w : Bytes) (h : a + w.length ≤ d.length) :
    (overlay d a w).length = d.length := by
  rw [overlay_length]; omega

theorem overlay_getElem? (d : Bytes) (a : Nat) (w : Bytes) (i : Nat) :
    (overlay d a w)[i]? =
      if i < a then (if i < d.length then d[i]? else some 0)
      else if i < a + w.length then w[i - a]?
      else d[i]? := by
  unfold overlay zeros
  simp only [List.append_assoc]
  by_cases h1 : i < a
  · by_cases h2 : i < d.length
    · rw [List.getElem?_append_left (by simp; omega)]
      simp [h1, h2]
    · rw [List.getElem?_append_right (by simp; omega), List.getElem?_append_left (by simp; omega)]
      simp only [h1, h2, if_true, if_false, List.getElem?_replicate, List.length_take]
      rw [if_pos (by omega)]
  · rw [List.getElem?_append_right (by simp; omega), List.getElem?_append_right (by simp; omega)]
    by_cases h3 : i < a + w.length
    · rw [List.getElem?_append_left (by simp; omega)]
      simp [h1, h3]; congr 1; omega
    · rw [List.getElem?_append_right (by simp; omega)]
      simp [h1, h3]; congr 1; omega

/-- A write that lies inside a window `[off, off+size)` of `d` shows up in the window as the same write
    at the window-relative position. -/
theorem slice_overlay_window (d : Bytes) (off size p : Nat) (w : Bytes)
    (hw : p + w.length ≤ size) (hd : off + size ≤ d.length) :
    slice (overlay d (off + p) w) off size = overlay (slice d off size) p w := by
  apply List.ext_getElem?; intro i
  simp only [slice_getElem?, overlay_getElem?, slice_length]
  by_cases hi : i < size
  · simp only [hi, if_true]
    by_cases h1 : i < p
    · simp [h1, show off + i < off + p by omega, show off + i < d.length by omega,
        show i < min size (d.length - off) by omega]
    · by_cases h2 : i < p + w.length
      · simp only [h1, h2, show ¬ off + i < off + p by omega, show off + i < off + p + w.length by omega,
          if_true, if_false]
        congr 1; omega
      · simp [h1, h2, show ¬ off + i < off + p by omega, show ¬ off + i < off + p + w.length by omega]
  · simp only [hi, if_false]
    rw [if_neg (by omega), if_neg (by omega)]

/-- Frame: a write inside the window leaves every byte outside the window unchanged. -/
theorem overlay_frame (d : Bytes) (off size p : Nat) (w : Bytes)
    (hw : p + w.length ≤ size) (i : Nat) (hi : i < off ∨ off + size ≤ i) (hd : off + size ≤ d.length) :
    (overlay d (off + p) w)[i]? = d[i]? := by
  rw [overlay_getElem?]
  rcases hi with hi | hi
  · simp [show i < off + p by omega, show i < d.length by omega]
  · rw [if_neg (by omega), if_neg (by omega)]

theorem slice_append_slice (c : Bytes) (p a b : Nat) : slice c p a ++ slice c (p + a) b = slice c p (a + b) := by
  simp only [slice]
  rw [List.take_add, ← List.drop_drop]

end Pyctr
