/-
  The partition descriptor as a whole: `load_partdesc(partdesc_to_bytes(x)) = x` for a well-formed descriptor
  (DIFI + IVFC + DPFS + master hashes laid into a zero-filled array at the offsets the DIFI header names).
-/
import Proofs.CodecProofs
import Proofs.SaveWrite
namespace Pyctr
namespace Save

theorem assign_getElem? (d : Bytes) (a : Nat) (w : Bytes) (h : a + w.length ≤ d.length) (i : Nat) :
    (assign d a w)[i]? = if i < a then d[i]? else if i < a + w.length then w[i - a]? else d[i]? := by
  unfold assign
  by_cases h1 : i < a
  · rw [if_pos h1, List.append_assoc, List.getElem?_append_left (by simp; omega), List.getElem?_take, if_pos h1]
  · rw [if_neg h1]
    by_cases h2 : i < a + w.length
    · rw [if_pos h2, List.append_assoc, List.getElem?_append_right (by simp; omega), List.getElem?_append_left (by simp; omega)]
      congr 1; simp; omega
    · rw [if_neg h2, List.getElem?_append_right (by simp; omega), List.getElem?_drop]
      congr 1; simp; omega

theorem assign_slice_other (d : Bytes) (a : Nat) (w : Bytes) (h : a + w.length ≤ d.length) (b n : Nat)
    (hd : b + n ≤ a ∨ a + w.length ≤ b) : slice (assign d a w) b n = slice d b n := by
  apply slice_congr
  intro i h1 h2
  rw [assign_getElem? d a w h]
  rcases hd with hd | hd
  · rw [if_pos (by omega)]
  · rw [if_neg (by omega), if_neg (by omega)]

theorem difi_toBytes_length (x : Difi) (b : Bytes) (h : x.toBytes = some b) : b.length = 0x44 := by
  unfold Difi.toBytes at h
  split at h
  · cases h
  · simp only [Option.some.injEq] at h
    subst h
    simp [difiMagic, Exefs.toLE_length]

theorem ivfc_toBytes_length (x : Ivfc) (b : Bytes) (h : x.toBytes = some b) : b.length = 0x78 := by
  unfold Ivfc.toBytes at h
  split at h
  · simp only [Option.some.injEq] at h
    subst h
    simp [ivfcMagic, Exefs.toLE_length, Level.toBytes]
  · cases h

theorem dpfs_toBytes_length (x : Dpfs) (b : Bytes) (h : x.toBytes = some b) : b.length = 0x50 := by
  unfold Dpfs.toBytes at h
  split at h
  · simp only [Option.some.injEq] at h
    subst h
    simp [dpfsMagic, Exefs.toLE_length, Level.toBytes]
  · cases h

/-- splitting the concatenation of 0x20-byte hashes gives the hashes back -/
theorem splitHashes_flatten (pre : Bytes) : ∀ (l : List Bytes) (rest : Bytes), (∀ h ∈ l, h.length = 0x20) →
    ∀ (pl : Bytes), pl.length = pre.length → splitHashes (pl ++ l.flatten ++ rest) l.length pre.length = l := by
  intro l
  induction l generalizing pre with
  | nil => intro _ _ _ _; rfl
  | cons a l ih =>
    intro rest hl pl hpl
    have ha : a.length = 0x20 := hl a (List.mem_cons_self)
    show slice _ pre.length 0x20 :: splitHashes _ l.length (pre.length + 0x20) = a :: l
    congr 1
    · rw [List.flatten_cons, List.append_assoc, List.append_assoc, ← hpl, slice_append_right, ← ha, List.take_left']
      rfl
    · have := ih (pre ++ a) rest (fun h hh => hl h (List.mem_cons_of_mem _ hh)) (pl ++ a) (by simp [hpl])
      rw [List.length_append, ha] at this
      rw [List.flatten_cons, ← List.append_assoc pl a]
      exact this

/-- the four fields of a descriptor lie inside its `size` bytes and do not overlap; the hash list is whole -/
structure DescWF (x : PartDesc) (size : Nat) : Prop where
  ivfcSize : x.difi.ivfcSize = 0x78
  dpfsSize : x.difi.dpfsSize = 0x50
  hashSize : x.difi.hashSize = 0x20 * x.master.length
  hashLen : ∀ h ∈ x.master, h.length = 0x20
  saneI : x.ivfc.lv1.sane = true ∧ x.ivfc.lv2.sane = true ∧ x.ivfc.lv3.sane = true ∧ x.ivfc.lv4.sane = true
  saneD : x.dpfs.lv1.sane = true ∧ x.dpfs.lv2.sane = true ∧ x.dpfs.lv3.sane = true
  inI : x.difi.ivfcOffset + 0x78 ≤ size
  inD : x.difi.dpfsOffset + 0x50 ≤ size
  inH : x.difi.hashOffset + 0x20 * x.master.length ≤ size
  aI : 0x44 ≤ x.difi.ivfcOffset
  aD : 0x44 ≤ x.difi.dpfsOffset
  aH : 0x44 ≤ x.difi.hashOffset
  ID : x.difi.ivfcOffset + 0x78 ≤ x.difi.dpfsOffset ∨ x.difi.dpfsOffset + 0x50 ≤ x.difi.ivfcOffset
  IH : x.difi.ivfcOffset + 0x78 ≤ x.difi.hashOffset ∨ x.difi.hashOffset + 0x20 * x.master.length ≤ x.difi.ivfcOffset
  DH : x.difi.dpfsOffset + 0x50 ≤ x.difi.hashOffset ∨ x.difi.hashOffset + 0x20 * x.master.length ≤ x.difi.dpfsOffset

theorem flatten_length_hashes (l : List Bytes) (h : ∀ x ∈ l, x.length = 0x20) : l.flatten.length = 0x20 * l.length := by
  induction l with
  | nil => rfl
  | cons a l ih =>
    rw [List.flatten_cons, List.length_append, h a List.mem_cons_self, ih (fun x hx => h x (List.mem_cons_of_mem _ hx)),
      List.length_cons]
    omega

/-- **descriptor round trip**: `load_partdesc(partdesc_to_bytes(x)) = x` for a well-formed descriptor -/
theorem partdesc_roundtrip (x : PartDesc) (size : Nat) (pd : Bytes) (wf : DescWF x size)
    (h : partdescToBytes x size = some pd) : pd.length = size ∧ loadPartdesc pd = .ok x := by
  unfold partdescToBytes at h
  cases ha : x.difi.toBytes with
  | none => rw [ha] at h; cases h
  | some a =>
  cases hb : x.ivfc.toBytes with
  | none => rw [ha, hb] at h; cases h
  | some b =>
  cases hc : x.dpfs.toBytes with
  | none => rw [ha, hb, hc] at h; cases h
  | some c =>
  rw [ha, hb, hc] at h
  simp only [Option.some.injEq] at h
  have la := difi_toBytes_length _ _ ha
  have lb := ivfc_toBytes_length _ _ hb
  have lc := dpfs_toBytes_length _ _ hc
  have lm := flatten_length_hashes _ wf.hashLen
  have hsz : 0x44 ≤ size := by have := wf.inI; have := wf.aI; omega
  generalize hm : x.master.flatten = m at h lm
  obtain ⟨s0, l0⟩ := assign_slice (zeros size) 0 a (by simp [zeros_length]; omega)
  generalize h0 : assign (zeros size) 0 a = p0 at h s0 l0
  rw [zeros_length] at l0
  obtain ⟨s1, l1⟩ := assign_slice p0 x.difi.ivfcOffset b (by rw [l0, lb]; exact wf.inI)
  generalize h1 : assign p0 x.difi.ivfcOffset b = p1 at h s1 l1
  obtain ⟨s2, l2⟩ := assign_slice p1 x.difi.dpfsOffset c (by rw [l1, l0, lc]; exact wf.inD)
  generalize h2 : assign p1 x.difi.dpfsOffset c = p2 at h s2 l2
  obtain ⟨s3, l3⟩ := assign_slice p2 x.difi.hashOffset m (by rw [l2, l1, l0, lm]; exact wf.inH)
  rw [h] at s3 l3
  have e1 : slice pd 0 0x44 = a := by
    rw [← h, assign_slice_other p2 _ m (by rw [l2, l1, l0, lm]; exact wf.inH) 0 0x44 (Or.inl (by have := wf.aH; omega)),
      ← h2, assign_slice_other p1 _ c (by rw [l1, l0, lc]; exact wf.inD) 0 0x44 (Or.inl (by have := wf.aD; omega)),
      ← h1, assign_slice_other p0 _ b (by rw [l0, lb]; exact wf.inI) 0 0x44 (Or.inl (by have := wf.aI; omega)),
      ← la]
    exact s0
  have e2 : slice pd x.difi.ivfcOffset 0x78 = b := by
    rw [← h, assign_slice_other p2 _ m (by rw [l2, l1, l0, lm]; exact wf.inH) _ 0x78 (by rw [lm]; exact wf.IH),
      ← h2, assign_slice_other p1 _ c (by rw [l1, l0, lc]; exact wf.inD) _ 0x78 (by rw [lc]; exact wf.ID),
      ← lb]
    exact s1
  have e3 : slice pd x.difi.dpfsOffset 0x50 = c := by
    rw [← h, assign_slice_other p2 _ m (by rw [l2, l1, l0, lm]; exact wf.inH) _ 0x50 (by rw [lm]; exact wf.DH), ← lc]
    exact s2
  have e4 : slice pd x.difi.hashOffset (0x20 * x.master.length) = m := by rw [← lm]; exact s3
  refine ⟨by rw [l3, l2, l1, l0], ?_⟩
  unfold loadPartdesc
  rw [e1, difi_roundtrip _ _ ha]
  simp only
  rw [wf.ivfcSize, e2, ivfc_roundtrip _ _ hb wf.saneI]
  simp only
  rw [wf.dpfsSize, e3, dpfs_roundtrip _ _ hc wf.saneD]
  simp only
  rw [wf.hashSize, e4, lm]
  have hn : (0x20 * x.master.length + 0x1F) / 0x20 = x.master.length := by omega
  rw [hn, ← hm]
  have := splitHashes_flatten [] x.master [] wf.hashLen [] rfl
  simp only [List.nil_append, List.append_nil, List.length_nil] at this
  rw [this]

end Save
end Pyctr
