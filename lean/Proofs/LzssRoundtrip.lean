/-
  C20: the backward-LZSS decoder inverts every disciplined encoder.
  `decompress (encodeFile P gs pad) = .ok (P ++ expand gs [])` whenever `validB P gs pad`.
-/
import PyctrModel.Fmt.LzssEnc
import Proofs.BytesLemmas
import Proofs.ExefsProofs
namespace Pyctr
namespace Lzss

theorem getD_set (a : Array UInt8) (i j : Nat) (v : UInt8) :
    (a.setIfInBounds i v).getD j 0 = if j = i ∧ i < a.size then v else a.getD j 0 := by
  simp only [Array.getD_eq_getD_getElem?, Array.getElem?_setIfInBounds]
  by_cases h : i = j
  · subst h
    by_cases h2 : i < a.size
    · simp [h2]
    · simp [h2]
  · have : ¬ j = i := fun e => h e.symm
    simp [h, this]

/-! ### control bytes -/

theorem flag_le (t : Tok) : t.flag ≤ 1 := by cases t <;> simp [Tok.flag]

theorem ctrlOf_lt : ∀ (ts : List Tok) (i : Nat), ts.length ≤ i → ctrlOf ts i < 2 ^ i
  | [], i, _ => by simp only [ctrlOf]; exact Nat.two_pow_pos i
  | _ :: _, 0, h => by simp at h
  | t :: ts, k + 1, h => by
    have ih := ctrlOf_lt ts k (by simpa using h)
    have hf := flag_le t
    simp only [ctrlOf, Nat.add_sub_cancel]
    rw [Nat.pow_succ]
    have : t.flag = 0 ∨ t.flag = 1 := by omega
    rcases this with h0 | h1
    · rw [h0]; omega
    · rw [h1]; omega

/-- bit `m` of a number, as the decoder extracts it -/
theorem bit_eq (x m : Nat) : (x >>> m) &&& 1 = (x.testBit m).toNat := by
  rw [Nat.and_one_is_mod, Nat.shiftRight_eq_div_pow, Nat.testBit_eq_decide_div_mod_eq]
  have : x / 2 ^ m % 2 < 2 := Nat.mod_lt _ (by omega)
  by_cases h : x / 2 ^ m % 2 = 1
  · simp [h]
  · have : x / 2 ^ m % 2 = 0 := by omega
    simp [this]

theorem flag_testBit (f : Nat) (hf : f ≤ 1) : (f.testBit 0).toNat = f := by
  have : f = 0 ∨ f = 1 := by omega
  rcases this with h | h <;> subst h <;> decide

theorem ctrlOf_bit : ∀ (ts : List Tok) (i j : Nat) (_ : ts.length ≤ i) (hj : j < ts.length),
    (ctrlOf ts i >>> (i - 1 - j)) &&& 1 = (ts[j]).flag
  | [], _, _, _, hj => by simp at hj
  | _ :: _, 0, _, h, _ => by simp at h
  | t :: ts, k + 1, j, h, hj => by
    have hc := ctrlOf_lt ts k (by simpa using h)
    simp only [ctrlOf, Nat.add_sub_cancel]
    rw [bit_eq, Nat.mul_comm, Nat.testBit_two_pow_mul_add _ hc]
    cases j with
    | zero =>
      simp only [Nat.sub_zero, Nat.lt_irrefl, if_false, Nat.sub_self, List.getElem_cons_zero]
      exact flag_testBit _ (flag_le t)
    | succ j' =>
      have hj' : j' < ts.length := by simpa using hj
      have hlen : ts.length ≤ k := by simpa using h
      rw [if_pos (by omega)]
      have := ctrlOf_bit ts k j' hlen hj'
      rw [bit_eq] at this
      rw [show k - (j' + 1) = k - 1 - j' by omega, this]
      simp

/-! ### the decoding invariant -/

structure Inv (cs N : Nat) (P : Bytes) (s : St) (rem out : Bytes) : Prop where
  size : s.dec.size = N
  pin : s.pin = cs + rem.length
  pout : s.pout + out.length = N
  le : s.pin ≤ s.pout
  hrem : ∀ j, j < rem.length → s.dec.getD (s.pin - 1 - j) 0 = rem.getD j 0
  hout : ∀ j, j < out.length → s.dec.getD (s.pout + j) 0 = out.getD j 0
  hpre : ∀ j, j < cs → s.dec.getD j 0 = P.getD j 0

theorem copyOut_length (segOff : Nat) : ∀ (k : Nat) (out : Bytes), (copyOut segOff k out).length = out.length + k
  | 0, _ => rfl
  | k + 1, out => by rw [copyOut, copyOut_length segOff k]; simp; omega

theorem copySeg_spec (N segOff : Nat) : ∀ (k : Nat) (s : St) (out : Bytes),
    s.dec.size = N → s.pout + out.length = N → k ≤ s.pout → segOff < out.length →
    (∀ j, j < out.length → s.dec.getD (s.pout + j) 0 = out.getD j 0) →
    (copySeg s segOff k).dec.size = N ∧ (copySeg s segOff k).pin = s.pin ∧ (copySeg s segOff k).pout = s.pout - k ∧
    (∀ j, j < (copyOut segOff k out).length →
      (copySeg s segOff k).dec.getD ((copySeg s segOff k).pout + j) 0 = (copyOut segOff k out).getD j 0) ∧
    (∀ j, j < s.pout - k → (copySeg s segOff k).dec.getD j 0 = s.dec.getD j 0)
  | 0, s, out, hs, _, _, _, ho => ⟨hs, rfl, rfl, ho, fun _ _ => rfl⟩
  | k + 1, s, out, hs, hp, hk, hoff, ho => by
    rw [copySeg, copyOut]
    have hbyte : s.dec.getD (s.pout + segOff) 0 = out.getD segOff 0 := ho segOff hoff
    rw [hbyte]
    let s1 : St := { s with pout := s.pout - 1, dec := s.dec.setIfInBounds (s.pout - 1) (out.getD segOff 0) }
    have hs1 : s1.dec.size = N := by simp [s1, hs]
    have hp1 : s1.pout + (out.getD segOff 0 :: out).length = N := by simp [s1]; omega
    have ho1 : ∀ j, j < (out.getD segOff 0 :: out).length →
        s1.dec.getD (s1.pout + j) 0 = (out.getD segOff 0 :: out).getD j 0 := by
      intro j hj
      simp only [s1, getD_set]
      cases j with
      | zero => simp; intro h; omega
      | succ j' =>
        have hj' : j' < out.length := by simpa using hj
        rw [if_neg (by omega)]
        rw [show s.pout - 1 + (j' + 1) = s.pout + j' by omega, ho j' hj']
        simp
    obtain ⟨a, b, c, d, e⟩ := copySeg_spec N segOff k s1 (out.getD segOff 0 :: out) hs1 hp1 (by simp [s1]; omega)
      (by simp; omega) ho1
    refine ⟨a, b, by rw [c]; simp [s1]; omega, d, ?_⟩
    intro j hj
    rw [e j (by simp [s1]; omega)]
    simp only [s1, getD_set]
    rw [if_neg (by omega)]

/-! ### one item -/

theorem items_stop (cs de ctrl : Nat) (s : St) (h : s.pin ≤ cs ∨ s.pout ≤ cs) : ∀ i, items cs de ctrl i s = .ok s
  | 0 => rfl
  | i + 1 => by rw [items, if_pos h]

theorem items_lit (cs de ctrl k : Nat) (s : St) (h1 : ¬ (s.pin ≤ cs ∨ s.pout ≤ cs)) (hb : ¬ ((ctrl >>> k) &&& 1 = 1)) :
    items cs de ctrl (k + 1) s =
      items cs de ctrl k { dec := s.dec.setIfInBounds (s.pout - 1) (s.dec.getD (s.pin - 1) 0), pin := s.pin - 1,
                           pout := s.pout - 1 } := by
  rw [items, if_neg h1, if_neg hb]

theorem items_ref (cs de ctrl k : Nat) (s : St) (segOff segLen : Nat)
    (h1 : ¬ (s.pin ≤ cs ∨ s.pout ≤ cs)) (hb : (ctrl >>> k) &&& 1 = 1)
    (h2 : ¬ s.pin < 2) (h3 : ¬ s.pin - 2 < cs)
    (hoff : (((s.dec.getD (s.pin - 2) 0).toNat + 256 * (s.dec.getD (s.pin - 2 + 1) 0).toNat) &&& 0x0FFF) + 2 = segOff)
    (hlen : ((((s.dec.getD (s.pin - 2) 0).toNat + 256 * (s.dec.getD (s.pin - 2 + 1) 0).toNat) >>> 12) &&& 0xF) + 3 = segLen)
    (h4 : ¬ (s.pout < segLen ∨ s.pout - segLen < cs)) (h5 : ¬ s.pout + segOff ≥ de) (h6 : ¬ s.pout + segOff ≥ s.dec.size) :
    items cs de ctrl (k + 1) s = items cs de ctrl k (copySeg { s with pin := s.pin - 2 } segOff segLen) := by
  rw [items, if_neg h1, if_pos hb, if_neg h2]
  simp only
  rw [if_neg h3, hoff, hlen, if_neg h4, if_neg h5, if_neg h6]

/-! ### the tokens of one control byte -/

theorem tokBytes_cons (t : Tok) (ts : List Tok) : tokBytes (t :: ts) = t.bytes ++ tokBytes ts := by
  simp [tokBytes]

theorem expandGroup_cons (out : Bytes) (t : Tok) (ts : List Tok) :
    expandGroup out (t :: ts) = expandGroup (expandTok out t) ts := by simp [expandGroup]

theorem segcode_fields (off len : Nat) (ho : off < 0x1000) (hl : len < 16) :
    let lo := (UInt8.ofNat ((off + 4096 * len) % 256)).toNat
    let hi := (UInt8.ofNat ((off + 4096 * len) / 256)).toNat
    ((lo + 256 * hi) &&& 0x0FFF) + 2 = off + 2 ∧ (((lo + 256 * hi) >>> 12) &&& 0xF) + 3 = len + 3 := by
  simp only [UInt8.toNat_ofNat']
  have e : (off + 4096 * len) % 256 % 2 ^ 8 + 256 * ((off + 4096 * len) / 256 % 2 ^ 8) = off + 4096 * len := by omega
  rw [e]
  have a : (0x0FFF : Nat) = 2 ^ 12 - 1 := by decide
  have b : (0xF : Nat) = 2 ^ 4 - 1 := by decide
  rw [a, b, Nat.and_two_pow_sub_one_eq_mod, Nat.and_two_pow_sub_one_eq_mod, Nat.shiftRight_eq_div_pow]
  constructor <;> omega

theorem items_run (cs N : Nat) (P : Bytes) (de ctrl : Nat) (hde : N ≤ de) :
    ∀ (ts : List Tok) (i : Nat) (s : St) (rest out : Bytes),
      ts.length ≤ i →
      (∀ j (hj : j < ts.length), (ctrl >>> (i - 1 - j)) &&& 1 = (ts[j]).flag) →
      Inv cs N P s (tokBytes ts ++ rest) out →
      safeGroup (N - cs) rest.length ts out.length = true →
      ∃ s', Inv cs N P s' rest (expandGroup out ts) ∧ items cs de ctrl i s = items cs de ctrl (i - ts.length) s'
  | [], i, s, rest, out, _, _, hinv, _ => ⟨s, by simpa [tokBytes, expandGroup] using hinv, by simp⟩
  | _ :: _, 0, _, _, _, h, _, _, _ => by simp at h
  | t :: ts, k + 1, s, rest, out, hlen, hbits, hinv, hsafe => by
    have hlen' : ts.length ≤ k := by simpa using hlen
    have hbit0 : (ctrl >>> k) &&& 1 = t.flag := by
      have h0 := hbits 0 (by simp)
      simp only [Nat.sub_zero, List.getElem_cons_zero, Nat.add_sub_cancel] at h0
      exact h0
    have hbits' : ∀ j (hj : j < ts.length), (ctrl >>> (k - 1 - j)) &&& 1 = (ts[j]).flag := by
      intro j hj
      have := hbits (j + 1) (by simpa using hj)
      simp only [List.getElem_cons_succ] at this
      rw [show k + 1 - 1 - (j + 1) = k - 1 - j by omega] at this
      exact this
    rw [tokBytes_cons, List.append_assoc] at hinv
    simp only [safeGroup, Bool.and_eq_true] at hsafe
    obtain ⟨hst, hsg⟩ := hsafe
    have hsub : k + 1 - (t :: ts).length = k - ts.length := by simp
    rw [hsub, expandGroup_cons]
    obtain ⟨isz, ipin, ipout, ile, irem, iout, ipre⟩ := hinv
    have hrl : (tokBytes ts ++ rest).length = (tokBytes ts).length + rest.length := List.length_append
    cases t with
    | lit b =>
      simp only [Tok.bytes, List.cons_append, List.nil_append, List.length_cons] at ipin irem
      have h1 : ¬ (s.pin ≤ cs ∨ s.pout ≤ cs) := by omega
      have hb : ¬ ((ctrl >>> k) &&& 1 = 1) := by rw [hbit0]; simp [Tok.flag]
      rw [items_lit cs de ctrl k s h1 hb]
      have hbyte : s.dec.getD (s.pin - 1) 0 = b := by simpa using irem 0 (by simp)
      rw [hbyte]
      apply items_run cs N P de ctrl hde ts k _ rest (b :: out) hlen' hbits' _ (by simpa [Tok.outLen, expandTok] using hsg)
      refine ⟨by simp [isz], by simp; omega, by simp; omega, by simp; omega, ?_, ?_, ?_⟩
      · intro j hj
        simp only [getD_set]
        rw [if_neg (by omega)]
        have := irem (j + 1) (by simp; omega)
        rw [show s.pin - 1 - (j + 1) = s.pin - 1 - 1 - j by omega] at this
        simpa using this
      · intro j hj
        simp only [getD_set]
        cases j with
        | zero => simp; intro h; omega
        | succ j' =>
          rw [if_neg (by omega), show s.pout - 1 + (j' + 1) = s.pout + j' by omega, iout j' (by simpa using hj)]
          simp
      · intro j hj
        simp only [getD_set]
        rw [if_neg (by omega)]
        exact ipre j hj
    | ref off len =>
      simp only [Tok.bytes, List.cons_append, List.nil_append, List.length_cons] at ipin irem
      simp only [safeTok, Bool.and_eq_true, decide_eq_true_eq] at hst
      obtain ⟨⟨⟨hoff, hl⟩, hin⟩, hfit⟩ := hst
      have h1 : ¬ (s.pin ≤ cs ∨ s.pout ≤ cs) := by omega
      have hb : (ctrl >>> k) &&& 1 = 1 := by rw [hbit0]; simp [Tok.flag]
      have hhi : s.dec.getD (s.pin - 2 + 1) 0 = UInt8.ofNat ((off + 4096 * len) / 256) := by
        have := irem 0 (by simp)
        rw [show s.pin - 1 - 0 = s.pin - 2 + 1 by omega] at this
        simpa using this
      have hlo : s.dec.getD (s.pin - 2) 0 = UInt8.ofNat ((off + 4096 * len) % 256) := by
        have := irem 1 (by simp)
        rw [show s.pin - 1 - 1 = s.pin - 2 by omega] at this
        simpa using this
      obtain ⟨f1, f2⟩ := segcode_fields off len hoff hl
      rw [items_ref cs de ctrl k s (off + 2) (len + 3) h1 hb (by omega) (by omega) (by rw [hlo, hhi]; exact f1)
        (by rw [hlo, hhi]; exact f2) (by omega) (by omega) (by omega)]
      obtain ⟨a, b, c, d, e⟩ := copySeg_spec N (off + 2) (len + 3) { s with pin := s.pin - 2 } out isz ipout
        (by simp; omega) (by omega) iout
      have hcl := copyOut_length (off + 2) (len + 3) out
      apply items_run cs N P de ctrl hde ts k _ rest (copyOut (off + 2) (len + 3) out) hlen' hbits' _
        (by simpa [Tok.outLen, expandTok, hcl] using hsg)
      refine ⟨a, by rw [b]; simp; omega, by rw [c, hcl]; simp; omega, by rw [b, c]; simp; omega, ?_, d, ?_⟩
      · intro j hj
        rw [b]
        simp only
        rw [e _ (by simp; omega)]
        have := irem (j + 2) (by simp; omega)
        rw [show s.pin - 1 - (j + 2) = s.pin - 2 - 1 - j by omega] at this
        simpa using this
      · intro j hj
        rw [e _ (by simp; omega)]
        exact ipre j hj

/-! ### the whole stream -/

theorem streamOf_cons (g : List Tok) (gs : List (List Tok)) :
    streamOf (g :: gs) = UInt8.ofNat (ctrlOf g 8) :: (tokBytes g ++ streamOf gs) := by
  simp [streamOf, groupBytes]

theorem expand_cons (g : List Tok) (gs : List (List Tok)) (out : Bytes) :
    expand (g :: gs) out = expand gs (expandGroup out g) := by simp [expand]

theorem expandGroup_length : ∀ (g : List Tok) (out : Bytes), (expandGroup out g).length = out.length + groupOut g
  | [], out => by simp [expandGroup, groupOut]
  | t :: ts, out => by
    rw [expandGroup_cons, expandGroup_length ts]
    cases t with
    | lit b => simp [expandTok, groupOut, Tok.outLen]; omega
    | ref off len => simp [expandTok, groupOut, Tok.outLen, copyOut_length]; omega

theorem expand_length : ∀ (gs : List (List Tok)) (out : Bytes), (expand gs out).length = out.length + totalOut gs
  | [], out => by simp [expand, totalOut]
  | g :: gs, out => by
    rw [expand_cons, expand_length gs, expandGroup_length]; simp [totalOut]; omega

theorem length_le_stream : ∀ (gs : List (List Tok)), gs.length ≤ (streamOf gs).length
  | [] => by simp
  | g :: gs => by
    have := length_le_stream gs
    rw [streamOf_cons]; simp; omega

theorem outer_run (cs N : Nat) (P : Bytes) (de : Nat) (hde : N ≤ de) :
    ∀ (gs : List (List Tok)) (fuel : Nat) (s : St) (out : Bytes),
      gs.length ≤ fuel → Inv cs N P s (streamOf gs) out → safeGroups (N - cs) gs out.length = true →
      ∃ s', outer cs de fuel s = .ok s' ∧ Inv cs N P s' [] (expand gs out)
  | [], fuel, s, out, _, hinv, _ => by
    refine ⟨s, ?_, by simpa [expand, streamOf] using hinv⟩
    have hp : s.pin = cs := by simpa [streamOf] using hinv.pin
    cases fuel with
    | zero => rfl
    | succ f => rw [outer, if_neg (by omega)]
  | _ :: _, 0, _, _, h, _, _ => by simp at h
  | g :: gs, f + 1, s, out, hf, hinv, hsafe => by
    simp only [safeGroups, Bool.and_eq_true, decide_eq_true_eq, Bool.or_eq_true] at hsafe
    obtain ⟨⟨⟨⟨⟨h1, h8⟩, hlast⟩, hfit⟩, hsg⟩, hrest⟩ := hsafe
    rw [streamOf_cons] at hinv hfit
    obtain ⟨isz, ipin, ipout, ile, irem, iout, ipre⟩ := hinv
    simp only [List.length_cons, List.length_append] at ipin hfit
    have hctrl : s.dec.getD (s.pin - 1) 0 = UInt8.ofNat (ctrlOf g 8) := by simpa using irem 0 (by simp)
    have hc8 := ctrlOf_lt g 8 h8
    have hnat : (UInt8.ofNat (ctrlOf g 8)).toNat = ctrlOf g 8 := by
      rw [UInt8.toNat_ofNat']; exact Nat.mod_eq_of_lt (by simpa using hc8)
    rw [outer, if_pos (by omega), if_neg (by omega)]
    simp only
    rw [if_neg (by omega), hctrl, hnat]
    obtain ⟨s', hinv', hit⟩ := items_run cs N P de (ctrlOf g 8) hde g 8 { s with pin := s.pin - 1 } (streamOf gs) out h8
      (fun j hj => ctrlOf_bit g 8 j h8 hj)
      ⟨isz, by simp; omega, ipout, by simp; omega,
        fun j hj => by
          have := irem (j + 1) (by simp only [List.length_cons]; omega)
          rw [show s.pin - 1 - (j + 1) = s.pin - 1 - 1 - j by omega] at this
          simpa using this,
        iout, ipre⟩ hsg
    have hfin : items cs de (ctrlOf g 8) (8 - g.length) s' = .ok s' := by
      rcases hlast with he | h8eq
      · have : gs = [] := by simpa using he
        subst this
        exact items_stop cs de _ s' (Or.inl (by have := hinv'.pin; simp [streamOf] at this; omega)) _
      · rw [h8eq]; rfl
    rw [hit, hfin]
    simp only
    rw [expand_cons]
    exact outer_run cs N P de hde gs f s' (expandGroup out g) (by simpa using hf) hinv'
      (by rw [expandGroup_length]; exact hrest)

/-! ### the file -/

theorem list_eq_of_getD (a b : Bytes) (hl : a.length = b.length) (h : ∀ j, j < a.length → a.getD j 0 = b.getD j 0) :
    a = b := by
  apply List.ext_getElem hl
  intro j h1 h2
  have := h j h1
  simpa [List.getD_eq_getElem?_getD, List.getElem?_eq_getElem h1, List.getElem?_eq_getElem h2] using this

theorem readLE_toLE4 (v : Nat) (hv : v < 2 ^ 32) : readLE (toLE 4 v) = v := Exefs.readLE_toLE 4 v (by simpa using hv)

theorem toLE_len4 (v : Nat) : (toLE 4 v).length = 4 := Exefs.toLE_length 4 v

/-- the two footer words of an image `A ++ f1 ++ f2` -/
theorem footer_words (A f1 f2 : Bytes) (h1 : f1.length = 4) (h2 : f2.length = 4) :
    pySlice (A ++ f1 ++ f2) (-8) (-4) = f1 ∧
    pySlice (A ++ f1 ++ f2) (-4) ((A ++ f1 ++ f2).length : Int) = f2 := by
  have hl : (A ++ f1 ++ f2).length = A.length + 8 := by simp [h1, h2]
  constructor
  · simp only [pySlice, pyIdx, hl, slice]
    have e1 : (((A.length + 8 : Nat) : Int) + -8).toNat = A.length := by omega
    have e2 : (((A.length + 8 : Nat) : Int) + -4).toNat = A.length + 4 := by omega
    simp only [show ((-8 : Int) < 0) by decide, show ((-4 : Int) < 0) by decide, if_true, e1, e2]
    rw [List.append_assoc, List.drop_left' rfl, show A.length + 4 - A.length = 4 by omega, ← h1]
    simp
  · simp only [pySlice, pyIdx, hl, slice]
    have e2 : (((A.length + 8 : Nat) : Int) + -4).toNat = A.length + 4 := by omega
    have e3 : ¬ (((A.length + 8 : Nat) : Int) < 0) := by omega
    simp only [show ((-4 : Int) < 0) by decide, if_true, e2, e3, if_false, Int.toNat_natCast, Nat.min_self]
    rw [List.drop_left' (by simp [h1]), show A.length + 8 - (A.length + 4) = 4 by omega, ← h2]
    simp

/-- **round trip**: the decoder returns the head followed by what the tokens stand for, for every image a disciplined
    backward-LZSS compressor can produce -/
theorem decompress_encode (P : Bytes) (gs : List (List Tok)) (pad : Nat) (hv : validB P gs pad = true) :
    decompress (encodeFile P gs pad) = .ok (P ++ expand gs []) := by
  simp only [validB, Bool.and_eq_true, decide_eq_true_eq] at hv
  obtain ⟨⟨⟨⟨hsafe, hpad⟩, hc24⟩, hcT⟩, hmax⟩ := hv
  have hcm : codeMaxSize = 0x2300000 := rfl
  generalize hS : streamOf gs = S at *
  generalize hT : totalOut gs = T at *
  let A : Bytes := P ++ S.reverse ++ List.replicate pad 0xFF
  have hcode : encodeFile P gs pad =
      A ++ toLE 4 (S.length + 8 + pad + (8 + pad) * 2 ^ 24) ++ toLE 4 (T - (S.length + 8 + pad)) := by
    simp only [encodeFile, hS, hT, A]
  have hAl : A.length = P.length + S.length + pad := by simp [A]; omega
  obtain ⟨w1, w2⟩ := footer_words A _ _ (toLE_len4 (S.length + 8 + pad + (8 + pad) * 2 ^ 24))
    (toLE_len4 (T - (S.length + 8 + pad)))
  have hn : (encodeFile P gs pad).length = P.length + (S.length + 8 + pad) := by
    rw [hcode]; simp [toLE_len4, hAl]; omega
  unfold decompress
  simp only [hn]
  rw [hcode] at *
  rw [w1]
  rw [show ((P.length + (S.length + 8 + pad) : Nat) : Int) =
      ((A ++ toLE 4 (S.length + 8 + pad + (8 + pad) * 2 ^ 24) ++ toLE 4 (T - (S.length + 8 + pad))).length : Int) by
    rw [hn]] 
  rw [w2, readLE_toLE4 _ (by omega), readLE_toLE4 _ (by omega)]
  have hcomp : (S.length + 8 + pad + (8 + pad) * 2 ^ 24) &&& 0xFFFFFF = S.length + 8 + pad := by
    rw [show (0xFFFFFF : Nat) = 2 ^ 24 - 1 by decide, Nat.and_two_pow_sub_one_eq_mod]; omega
  have hhdr : ((S.length + 8 + pad + (8 + pad) * 2 ^ 24) >>> 24) % 0xFF = 8 + pad := by
    rw [Nat.shiftRight_eq_div_pow, Nat.add_mul_div_right _ _ (by decide : 0 < 2 ^ 24), Nat.div_eq_of_lt hc24, Nat.zero_add]
    omega
  rw [hcomp, hhdr]
  rw [if_neg (by omega), if_neg (by omega), if_neg (by omega), if_neg (by omega), if_neg (by omega)]
  have hcs : P.length + (S.length + 8 + pad) - (S.length + 8 + pad) = P.length := by omega
  have hce : S.length + 8 + pad - (8 + pad) = S.length := by omega
  have hN : P.length + (S.length + 8 + pad) + (T - (S.length + 8 + pad)) = P.length + T := by omega
  rw [hcs, hce, hN]
  -- the initial state
  let code := A ++ toLE 4 (S.length + 8 + pad + (8 + pad) * 2 ^ 24) ++ toLE 4 (T - (S.length + 8 + pad))
  let dec0 : Array UInt8 := (code ++ zeros (T - (S.length + 8 + pad))).toArray
  have hget : ∀ j, dec0.getD j 0 = (code ++ zeros (T - (S.length + 8 + pad))).getD j 0 := by
    intro j; simp [dec0, Array.getD_eq_getD_getElem?, List.getD_eq_getElem?_getD]
  have hcl : code.length = P.length + (S.length + 8 + pad) := hn
  have hinv0 : Inv P.length (P.length + T) P ⟨dec0, P.length + S.length, P.length + T⟩ S [] := by
    refine ⟨by simp [dec0, hcl]; omega, rfl, by simp, by simp only; omega, ?_, by simp, ?_⟩
    · intro j hj
      simp only [hget]
      have hpos : P.length + S.length - 1 - j = P.length + (S.length - 1 - j) := by omega
      rw [hpos]
      simp only [code, A, List.append_assoc, List.getD_eq_getElem?_getD]
      rw [List.getElem?_append_right (by omega), show P.length + (S.length - 1 - j) - P.length = S.length - 1 - j by omega,
        List.getElem?_append_left (by simp; omega), List.getElem?_reverse (by omega),
        show S.length - 1 - (S.length - 1 - j) = j by omega]
    · intro j hj
      simp only [hget]
      simp only [code, A, List.append_assoc, List.getD_eq_getElem?_getD]
      rw [List.getElem?_append_left hj]
  obtain ⟨s', hrun, hinv'⟩ := outer_run P.length (P.length + T) P (P.length + (P.length + T)) (by omega) gs
    (P.length + (S.length + 8 + pad) + 1) ⟨dec0, P.length + S.length, P.length + T⟩ []
    (by have := length_le_stream gs; rw [hS] at this; omega) (by rw [hS]; exact hinv0)
    (by simpa [show P.length + T - P.length = T by omega] using hsafe)
  rw [hrun]
  simp only
  obtain ⟨isz, ipin, ipout, ile, irem, iout, ipre⟩ := hinv'
  have hel := expand_length gs []
  rw [hT] at hel
  simp only [List.length_nil, Nat.zero_add, Nat.add_zero] at ipin hel
  rw [if_neg (by omega), if_neg (by omega)]
  congr 1
  apply list_eq_of_getD
  · simp [isz, hel]
  · intro j hj
    have hj' : j < P.length + T := by simpa [isz] using hj
    have hl : s'.dec.toList.getD j 0 = s'.dec.getD j 0 := by
      simp [Array.getD_eq_getD_getElem?, List.getD_eq_getElem?_getD]
    rw [hl]
    simp only [List.getD_eq_getElem?_getD]
    by_cases hjp : j < P.length
    · rw [List.getElem?_append_left hjp, ← List.getD_eq_getElem?_getD]
      exact ipre j hjp
    · rw [List.getElem?_append_right (by omega), ← List.getD_eq_getElem?_getD]
      have := iout (j - P.length) (by omega)
      rw [show s'.pout + (j - P.length) = j by omega] at this
      exact this

/-- **the certifying compressor**: whatever `compress` returns decompresses to the original -/
theorem decompress_compress (x : Bytes) (pad : Nat) (img : Bytes) (h : compress x pad = some img) :
    decompress img = .ok x := by
  unfold compress at h
  obtain ⟨j, _, hj⟩ := List.exists_of_findSome?_eq_some h
  unfold tryCut at hj
  simp only at hj
  split at hj
  · rename_i hc
    simp only [Bool.and_eq_true, beq_iff_eq] at hc
    have := decompress_encode _ _ pad hc.1
    rw [hc.2] at this
    simp only [Option.some.injEq] at hj
    rw [← hj]; exact this
  · cases hj

end Lzss
end Pyctr
