/-
  C09: several views on one base object - a window's calls do not depend on where the base was left.
-/
import PyctrModel.IO.Subsection
import PyctrModel.Base.PyFile
namespace Pyctr

/-- what a caller can see of a window call: the value returned, the window's own position, the bytes of the base -/
def Sub.seen {α : Type} (r : Except Err (α × Sub PyFile)) : Except Err (α × Nat × Bytes) :=
  r.map fun x => (x.1, x.2.seek, x.2.inner.buf)

/-- **a window does not care where its base file was left**: a read or write through a window on a `BytesIO` returns the
    same value, leaves the window at the same position and the base with the same bytes whatever the position of the base
    was before the call - its owner, or another window on it, may have moved it in between -/
theorem sub_base_position_irrelevant (buf : Bytes) (p p' off size pos : Nat) :
    (∀ n : Int, Sub.seen (Sub.read PyFile.ops ⟨⟨buf, p⟩, off, size, pos⟩ n) =
                Sub.seen (Sub.read PyFile.ops ⟨⟨buf, p'⟩, off, size, pos⟩ n)) ∧
    (∀ w : Bytes, Sub.seen (Sub.write PyFile.ops ⟨⟨buf, p⟩, off, size, pos⟩ w) =
                  Sub.seen (Sub.write PyFile.ops ⟨⟨buf, p'⟩, off, size, pos⟩ w)) := by
  have hi : ¬ ((pos : Int) + (off : Int) < 0) := by omega
  constructor
  · intro n
    by_cases h : off + pos > off + size
    · simp [Sub.read, h, Sub.seen, Except.map]
    · simp [Sub.read, h, PyFile.ops, PyFile.seek, bind, Except.bind, hi, Sub.seen, Except.map]
  · intro w
    by_cases h : pos > size
    · simp [Sub.write, h, Sub.seen, Except.map]
    · simp [Sub.write, h, PyFile.ops, PyFile.seek, bind, Except.bind, hi, Sub.seen, Except.map]
end Pyctr
