import Proofs.BytesLemmas
import PyctrModel.Save.Tree
namespace Pyctr
namespace Save
theorem slice_drop (d : Bytes) (a n k : Nat) : (slice d a n).drop k = slice d (a + k) (n - k) := by
  apply List.ext_getElem?; intro i
  simp only [List.getElem?_drop, slice_getElem?]
  by_cases h : i < n - k
  · rw [if_pos (by omega), if_pos h]; congr 1; omega
  · rw [if_neg (by omega), if_neg h]

theorem slice_take (d : Bytes) (a n k : Nat) : (slice d a n).take k = slice d a (min k n) := by
  apply List.ext_getElem?; intro i
  simp only [List.getElem?_take, slice_getElem?]
  by_cases h : i < k
  · rw [if_pos h]
    by_cases h2 : i < n
    · rw [if_pos h2, if_pos (by omega)]
    · rw [if_neg h2, if_neg (by omega)]
  · rw [if_neg h, if_neg (by omega)]

theorem flatten_slices (W : Bytes) (bs a m : Nat) :
    ((List.range m).map fun i => slice W ((a + i) * bs) bs).flatten = slice W (a * bs) (m * bs) := by
  induction m with
  | zero => simp [slice]
  | succ m ih =>
    rw [List.range_succ, List.map_append, List.flatten_append, ih]
    simp only [List.map_cons, List.map_nil, List.flatten_cons, List.flatten_nil, List.append_nil]
    rw [Nat.add_mul a m bs, slice_append_slice, Nat.succ_mul]

theorem ceil_div_spec (T bs : Nat) (hbs : 0 < bs) (hT : 0 < T) :
    ∃ e k, 0 < k ∧ k ≤ bs ∧ T = e * bs + k ∧ (T + bs - 1) / bs = e + 1 := by
  have h := Nat.div_add_mod T bs
  have hr := Nat.mod_lt T hbs
  generalize T / bs = q at h
  generalize T % bs = r at h hr
  by_cases hr0 : r = 0
  · subst hr0
    cases q with
    | zero => simp at h; omega
    | succ q =>
      refine ⟨q, bs, hbs, Nat.le_refl _, ?_, ?_⟩
      · rw [← h, Nat.mul_succ, Nat.mul_comm]; omega
      · apply Nat.div_eq_of_lt_le
        · rw [← h, Nat.mul_comm]; omega
        · rw [← h, Nat.mul_comm bs, Nat.succ_mul (q+1)]
          omega
  · refine ⟨q, r, by omega, by omega, by rw [← h, Nat.mul_comm], ?_⟩
    apply Nat.div_eq_of_lt_le
    · rw [← h, Nat.mul_comm, Nat.mul_succ]; omega
    · rw [← h, Nat.mul_comm bs, Nat.succ_mul (q+1), Nat.succ_mul]; omega
theorem lastSize_same (sb fbo size bs : Nat) :
    lastSize sb sb fbo size bs = if size % bs = 0 then bs else size % bs := by
  simp [lastSize]

theorem lastSize_diff (sb eb fbo size bs : Nat) (h : sb ≠ eb) :
    lastSize sb eb fbo size bs = if (fbo + size) % bs = 0 then bs else (fbo + size) % bs := by
  simp [lastSize, h]

theorem joinTrim_cons_snoc (b : Bytes) (A : List Bytes) (x : Bytes) (fbo k : Nat) :
    joinTrim (b :: (A ++ [x])) fbo k = b.drop fbo ++ A.flatten ++ x.take k := by
  cases A with
  | nil => simp [joinTrim]
  | cons a A =>
    have h1 : (a :: (A ++ [x])).dropLast = a :: A := by
      rw [← List.cons_append, List.dropLast_concat]
    have h2 : (a :: (A ++ [x])).getLast? = some x := by
      rw [← List.cons_append, List.getLast?_concat]
    show List.drop fbo b ++ (a :: (A ++ [x])).dropLast.flatten ++ List.take k ((a :: (A ++ [x])).getLast?.getD []) = _
    rw [h1, h2]; simp

theorem joinTrim_slices (W : Bytes) (bs off size : Nat) (hbs : 0 < bs) (hs : 0 < size) :
    joinTrim ((List.range ((blockRange off size bs).2 + 1 - (blockRange off size bs).1)).map
        fun i => slice W (((blockRange off size bs).1 + i) * bs) bs) (off % bs)
      (lastSize (blockRange off size bs).1 (blockRange off size bs).2 (off % bs) size bs) = slice W off size := by
  obtain ⟨e, k, hk0, hkb, hT, hceil⟩ := ceil_div_spec (off + size) bs hbs (by omega)
  have hoff := Nat.div_add_mod off bs
  have hfbo := Nat.mod_lt off hbs
  simp only [blockRange, hceil, Nat.add_sub_cancel]
  generalize off / bs = sb at *
  generalize off % bs = fbo at *
  rw [Nat.mul_comm] at hoff
  have hle : sb ≤ e := by
    have : sb * bs < (e + 1) * bs := by rw [Nat.succ_mul]; omega
    have := Nat.lt_of_mul_lt_mul_right this
    omega
  rw [Nat.max_eq_left hle]
  rcases Nat.eq_or_lt_of_le hle with heq | hlt
  · subst heq
    have hsz : size = k - fbo := by omega
    have hlast : lastSize sb sb fbo size bs = size := by
      rw [lastSize_same]
      by_cases h : size = bs
      · rw [h, Nat.mod_self, if_pos rfl]
      · rw [Nat.mod_eq_of_lt (by omega), if_neg (by omega)]
    rw [hlast, show sb + 1 - sb = 1 by omega]
    simp only [List.range_one, List.map_cons, List.map_nil, joinTrim, Nat.add_zero]
    rw [slice_drop, slice_take, Nat.min_eq_left (by omega), hoff]
  · obtain ⟨m, hm⟩ : ∃ m, e = sb + (m + 1) := ⟨e - sb - 1, by omega⟩
    subst hm
    have hmul : (sb + (m + 1)) * bs = sb * bs + m * bs + bs := by rw [Nat.add_mul, Nat.succ_mul]; omega
    rw [hmul] at hT
    have hlast : lastSize sb (sb + (m + 1)) fbo size bs = k := by
      rw [lastSize_diff _ _ _ _ _ (by omega)]
      have : fbo + size = k + bs * (m + 1) := by rw [Nat.mul_succ, Nat.mul_comm bs m]; omega
      rw [this, Nat.add_mul_mod_self_left]
      by_cases h : k = bs
      · rw [h, Nat.mod_self, if_pos rfl]
      · rw [Nat.mod_eq_of_lt (by omega), if_neg (by omega)]
    rw [hlast, show sb + (m + 1) + 1 - sb = (m + 1) + 1 by omega, List.range_succ_eq_map]
    simp only [List.map_cons, List.map_map, Nat.add_zero]
    rw [List.range_succ, List.map_append]
    simp only [List.map_cons, List.map_nil]
    simp only [Function.comp]
    rw [joinTrim_cons_snoc, slice_drop, slice_take, Nat.min_eq_left hkb]
    have hmid : (List.map ((fun i => slice W ((sb + i) * bs) bs) ∘ Nat.succ) (List.range m)).flatten
        = slice W ((sb + 1) * bs) (m * bs) := by
      rw [← flatten_slices]; congr 1; apply List.map_congr_left; intro i _
      simp only [Function.comp, Nat.succ_eq_add_one]; congr 2; omega
    rw [hmid, hoff]
    have h1 : (sb + 1) * bs = off + (bs - fbo) := by rw [Nat.succ_mul]; omega
    rw [h1, slice_append_slice]
    have h2 : (sb + Nat.succ m) * bs = off + (bs - fbo + m * bs) := by
      rw [Nat.succ_eq_add_one, hmul]; omega
    rw [h2, slice_append_slice]
    congr 1; omega
theorem flatMap_length_uniform (G : Nat → Bytes) (bs n : Nat) (h : ∀ b, b < n → (G b).length = bs) :
    ((List.range n).flatMap G).length = n * bs := by
  induction n with
  | zero => simp
  | succ n ih =>
    rw [List.range_succ, List.flatMap_append, List.length_append, ih (fun b hb => h b (by omega))]
    simp [h n (by omega), Nat.succ_mul]

theorem slice_append_left (a b : Bytes) (p n : Nat) (h : p + n ≤ a.length) : slice (a ++ b) p n = slice a p n := by
  apply List.ext_getElem?; intro i
  simp only [slice_getElem?]
  by_cases hi : i < n
  · rw [if_pos hi, if_pos hi, List.getElem?_append_left (by omega)]
  · rw [if_neg hi, if_neg hi]

theorem slice_append_right (a b : Bytes) (n : Nat) : slice (a ++ b) a.length n = b.take n := by
  simp [slice]

/-- every block of a block-wise concatenation is the corresponding block-size slice of the whole -/
theorem flatMap_block (G : Nat → Bytes) (bs nb : Nat) (hfull : ∀ b, b + 1 < nb → (G b).length = bs)
    (hle : ∀ b, b < nb → (G b).length ≤ bs) (b : Nat) (hb : b < nb) :
    G b = slice ((List.range nb).flatMap G) (b * bs) bs := by
  induction nb with
  | zero => omega
  | succ n ih =>
    have hlen := flatMap_length_uniform G bs n (fun b hb => hfull b (by omega))
    rw [List.range_succ, List.flatMap_append]
    simp only [List.flatMap_cons, List.flatMap_nil, List.append_nil]
    rcases Nat.lt_or_ge b n with hlt | hge
    · rw [slice_append_left]
      · exact ih (fun b hb => hfull b (by omega)) (fun b hb => hle b (by omega)) hlt
      · rw [hlen]
        have : (b + 1) * bs ≤ n * bs := Nat.mul_le_mul_right bs hlt
        rw [Nat.succ_mul] at this; exact this
    · have : b = n := by omega
      subst this
      rw [← hlen, slice_append_right, List.take_of_length_le (hle b (by omega))]
end Save
end Pyctr
