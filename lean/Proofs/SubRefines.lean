import PyctrModel.IO.Subsection
import Proofs.BytesLemmas
import Proofs.AFileLemmas
namespace Pyctr
universe u


namespace Sub
variable {σ : Type} {F : FileOps σ} {inv : σ → Prop} {abs : σ → AFile}

/-- window view of the inner file's abstract content -/
def absSub (abs : σ → AFile) (s : Sub σ) : AFile :=
  ⟨slice (abs s.inner).content s.offset s.size, s.seek, true, true⟩

def invSub (inv : σ → Prop) (abs : σ → AFile) (s : Sub σ) : Prop :=
  inv s.inner ∧ s.offset + s.size ≤ (abs s.inner).content.length

/-- frame clause: the window geometry is kept and no byte of the inner file outside the window changes -/
def Frame (abs : σ → AFile) (s s' : Sub σ) : Prop :=
  s'.offset = s.offset ∧ s'.size = s.size ∧
  (abs s'.inner).content.length = (abs s.inner).content.length ∧
  ∀ i, (i < s.offset ∨ s.offset + s.size ≤ i) → (abs s'.inner).content[i]? = (abs s.inner).content[i]?

theorem Frame.refl (s : Sub σ) : Frame abs s s := ⟨rfl, rfl, rfl, fun _ _ => rfl⟩

theorem Frame.trans {s1 s2 s3 : Sub σ} (h1 : Frame abs s1 s2) (h2 : Frame abs s2 s3) : Frame abs s1 s3 := by
  obtain ⟨a1, b1, c1, d1⟩ := h1
  obtain ⟨a2, b2, c2, d2⟩ := h2
  refine ⟨by rw [a2, a1], by rw [b2, b1], by rw [c2, c1], fun i hi => ?_⟩
  rw [d2 i (by rw [a1, b1]; exact hi), d1 i hi]

theorem absSub_len (s : Sub σ) (h : invSub inv abs s) : (absSub abs s).content.length = s.size := by
  unfold invSub at h
  simp [absSub]; omega

/-- positioning the inner file at `seek + offset` (always inside the inner file under the invariant) -/
theorem inner_seek (hF : IsReadable F inv abs) (s : Sub σ) (h : invSub inv abs s) (hs : s.seek ≤ s.size) :
    ∃ i1, F.seek s.inner ((s.seek : Int) + s.offset) 0 = .ok (s.seek + s.offset, i1) ∧
      (abs i1).content = (abs s.inner).content ∧ (abs i1).pos = s.seek + s.offset ∧
      (abs i1).fixed = (abs s.inner).fixed ∧ inv i1 := by
  have hsz := h.2
  have key : (abs s.inner).seek ((s.seek : Int) + s.offset) 0 =
      .ok (s.seek + s.offset, { abs s.inner with pos := s.seek + s.offset }) := by
    simp only [AFile.seek, AFile.size]
    have : ¬ ((s.seek : Int) + s.offset < 0) := by omega
    simp only [this, if_true, if_false]
    have e : ((s.seek : Int) + s.offset).toNat = s.seek + s.offset := by omega
    rw [e]
    cases (abs s.inner).clamp <;> simp <;> omega
  obtain ⟨i1, e1, a1, v1⟩ := hF.seek_ok s.inner _ 0 _ _ h.1 key
  exact ⟨i1, e1, by rw [a1], by rw [a1], by rw [a1], v1⟩

theorem read_refines (hF : IsReadable F inv abs) (s : Sub σ) (n : Int) (h : invSub inv abs s) :
    ∃ s', Sub.read F s n = .ok (((absSub abs s).read n).1, s') ∧
      absSub abs s' = ((absSub abs s).read n).2 ∧ invSub inv abs s' ∧ Frame abs s s' := by
  have hsz := absSub_len s h
  have hin := h.2
  by_cases hpast : s.offset + s.seek > s.offset + s.size
  · have hz : (absSub abs s).readLen n = 0 := by
      rw [AFile.readLen_eq, hsz]; simp only [absSub]; split <;> omega
    refine ⟨s, ?_, ?_, h, Frame.refl s⟩
    · simp only [Sub.read, hpast, if_true, AFile.read_fst, hz, slice, List.take_zero]
    · apply AFile.ext' <;> simp [AFile.read_snd_content, AFile.read_snd_pos, AFile.read_snd_fixed, AFile.read_snd_clamp, hz]
  · have hs : s.seek ≤ s.size := by omega
    obtain ⟨i1, e1, c1, p1, f1, v1⟩ := inner_seek hF s h hs
    generalize hk : (absSub abs s).readLen n = k
    have hk' : k = if n < 0 then s.size - s.seek else min n.toNat (s.size - s.seek) := by
      rw [← hk, AFile.readLen_eq, hsz]; rfl
    have hkle : k ≤ s.size - s.seek := by rw [hk']; split <;> omega
    generalize hsize2 : (if (s.seek : Int) + (if n < 0 then (s.size : Int) - s.seek else n) > s.size
        then (s.size : Int) - s.seek else (if n < 0 then (s.size : Int) - s.seek else n)) = size2
    have hsize2' : size2 = (k : Int) := by
      rw [← hsize2, hk']; split <;> split <;> omega
    obtain ⟨i2, e2, a2, v2⟩ := hF.read i1 size2 v1
    have hlen : (abs i1).readLen size2 = k := by
      rw [AFile.readLen_eq, c1, p1, hsize2']
      have : ¬ ((k : Int) < 0) := by omega
      simp only [this, if_false, Int.toNat_natCast]; omega
    have hdlen : (slice (abs s.inner).content (s.seek + s.offset) k).length = k := by
      rw [slice_length]; omega
    refine ⟨{ s with inner := i2, seek := s.seek + k }, ?_, ?_, ?_, ?_⟩
    rotate_left 3
    · refine ⟨rfl, rfl, ?_, fun i _ => ?_⟩ <;> simp only [a2, AFile.read_snd_content, c1]
    · simp only [Sub.read, hpast, if_false, e1, bind, Except.bind, hsize2, e2,
        AFile.read_fst, hlen, c1, p1, hdlen, hk]
      simp only [absSub]
      rw [slice_slice _ _ _ _ _ (by omega), Nat.add_comm s.offset]
    · apply AFile.ext'
      · simp only [absSub, a2, AFile.read_snd_content, c1]
      · simp only [absSub, AFile.read_snd_pos]; rw [← hk]; rfl
      · rfl
      · rfl
    · exact ⟨v2, by simp only [a2, AFile.read_snd_content, c1]; exact hin⟩
end Sub

namespace Sub
variable {σ : Type} {F : FileOps σ} {inv : σ → Prop} {abs : σ → AFile}

theorem write_refines (hF : IsFileW F inv abs) (s : Sub σ) (w : Bytes) (h : invSub inv abs s) :
    ∃ s', Sub.write F s w = .ok (((absSub abs s).write w).1, s') ∧
      absSub abs s' = ((absSub abs s).write w).2 ∧ invSub inv abs s' ∧ Frame abs s s' := by
  have hsz := absSub_len s h
  have hin := h.2
  have hwt : (absSub abs s).writeTake w = w.take (s.size - s.seek) := by
    simp only [AFile.writeTake, AFile.size, hsz]; rfl
  by_cases hpast : s.seek > s.size
  · have : w.take (s.size - s.seek) = [] := by
      have : s.size - s.seek = 0 := by omega
      simp [this]
    refine ⟨s, ?_, ?_, h, Frame.refl s⟩
    · simp [Sub.write, hpast, AFile.write_def, hwt, this]
    · simp [AFile.write_def, hwt, this]
  · have hs : s.seek ≤ s.size := by omega
    obtain ⟨i1, e1, c1, p1, f1, v1⟩ := inner_seek hF.toIsReadable s h hs
    generalize hd : (if w.length + s.seek > s.size
        then pySlice w 0 (-(((w.length + s.seek : Nat) : Int) - s.size)) else w) = data
    have hdata : data = w.take (s.size - s.seek) := by
      rw [← hd]; split
      · rename_i hgt
        have e : (((w.length + s.seek : Nat) : Int) - s.size) = ((w.length + s.seek - s.size : Nat) : Int) := by omega
        rw [e, pySlice_dropLast _ _ (by omega)]
        congr 1; omega
      · rw [List.take_of_length_le (by omega)]
    have hdl : data.length ≤ s.size - s.seek := by rw [hdata]; simp; omega
    obtain ⟨i2, e2, a2, v2⟩ := hF.write i1 data v1 (Or.inr (by rw [p1, c1]; omega))
    have hwt1 : (abs i1).writeTake data = data := by
      simp only [AFile.writeTake, AFile.size, c1, p1]
      split
      · rw [List.take_of_length_le (by omega)]
      · rfl
    have hA : (abs i1).write data = if data.isEmpty then (0, abs i1)
        else (data.length, { abs i1 with content := overlay (abs s.inner).content (s.seek + s.offset) data,
                                          pos := s.seek + s.offset + data.length }) := by
      rw [AFile.write_def, hwt1, c1, p1]
    have hB : (absSub abs s).write w = if data.isEmpty then (0, absSub abs s)
        else (data.length, { absSub abs s with
            content := overlay (slice (abs s.inner).content s.offset s.size) s.seek data,
            pos := s.seek + data.length }) := by
      rw [AFile.write_def, hwt, ← hdata]; rfl
    refine ⟨{ s with inner := i2, seek := s.seek + ((abs i1).write data).1 }, ?_, ?_, ?_, ?_⟩
    rotate_left 3
    · rw [hA] at a2
      by_cases he : data.isEmpty
      · simp only [he, if_true] at a2
        refine ⟨rfl, rfl, ?_, fun i _ => ?_⟩ <;> simp only [a2, c1]
      · simp only [he, Bool.false_eq_true, if_false] at a2
        refine ⟨rfl, rfl, ?_, fun i hi => ?_⟩
        · simp only [a2]; rw [overlay_length_inside _ _ _ (by omega)]
        · simp only [a2]; rw [Nat.add_comm s.seek]
          exact overlay_frame _ _ s.size _ _ (by omega) i hi hin
    · simp only [Sub.write, hpast, if_false, e1, bind, Except.bind]
      rw [hd, e2, hA, hB]
      by_cases he : data.isEmpty <;> simp [he]
    · rw [hA] at a2 ⊢; rw [hB]
      by_cases he : data.isEmpty
      · simp only [he, if_true] at a2 ⊢
        apply AFile.ext'
        · simp only [absSub, a2, c1]
        · simp [absSub]
        · rfl
        · rfl
      · simp only [he, Bool.false_eq_true, if_false] at a2 ⊢
        apply AFile.ext'
        · simp only [absSub, a2]
          rw [Nat.add_comm s.seek, slice_overlay_window _ _ _ _ _ (by omega) hin]
        · simp [absSub]
        · rfl
        · rfl
    · refine ⟨v2, ?_⟩
      rw [hA] at a2
      by_cases he : data.isEmpty
      · simp only [he, if_true] at a2; simp only [a2, c1]; exact hin
      · simp only [he, Bool.false_eq_true, if_false] at a2
        simp only [a2]
        rw [overlay_length_inside _ _ _ (by omega)]; exact hin
end Sub
namespace Sub
variable {σ : Type} {F : FileOps σ} {inv : σ → Prop} {abs : σ → AFile}

theorem seek_eq (s : Sub σ) (h : invSub inv abs s) (off wh : Int) :
    (match Sub.seekOp s off wh with
     | .error e => (absSub abs s).seek off wh = .error e
     | .ok (p, s') => (absSub abs s).seek off wh = .ok (p, absSub abs s') ∧ invSub inv abs s') := by
  have hsz := absSub_len s h
  simp only [Sub.seekOp, AFile.seek, AFile.size, hsz]
  by_cases h0 : wh = 0
  · subst h0
    by_cases ho : off < 0
    · simp [ho]
    · simp [ho, absSub]; exact h
  · by_cases h1 : wh = 1
    · subst h1; simp [absSub]; exact h
    · by_cases h2 : wh = 2
      · subst h2; simp [absSub]; exact h
      · simp [h0, h1, h2]

/-- reads, seeks and tell through a window need only a readable inner file -/
theorem sub_isReadable (hF : IsReadable F inv abs) : IsReadable (Sub.ops F) (invSub inv abs) (absSub abs) where
  read s n h := by
    obtain ⟨s', a, b, c, _⟩ := read_refines hF s n h; exact ⟨s', a, b, c⟩
  seek_err s off wh e h he := by
    have := seek_eq s h off wh
    simp only [Sub.ops]
    cases hs : Sub.seekOp s off wh with
    | error e' => rw [hs] at this; simp only at this; rw [this] at he; cases he; rfl
    | ok v => obtain ⟨p, s'⟩ := v; rw [hs] at this; simp only at this; rw [this.1] at he; cases he
  seek_ok s off wh p a' h he := by
    have := seek_eq s h off wh
    simp only [Sub.ops]
    cases hs : Sub.seekOp s off wh with
    | error e' => rw [hs] at this; simp only at this; rw [this] at he; cases he
    | ok v =>
      obtain ⟨p', s'⟩ := v; rw [hs] at this; simp only at this
      rw [this.1] at he; cases he
      exact ⟨s', rfl, rfl, this.2⟩
  tell s h := by
    refine ⟨s, ?_, rfl, h⟩
    simp [Sub.ops, Sub.seekOp, absSub]

/-- **C09 (SubsectionIO).**  A window over anything that behaves like a file of length ≥ offset+size
    behaves like a fixed-size file whose content is that window — for every integer argument. -/
theorem sub_isFile (hF : IsFileW F inv abs) : IsFile (Sub.ops F) (invSub inv abs) (absSub abs) where
  toIsReadable := sub_isReadable hF.toIsReadable
  write s w h := by
    obtain ⟨s', a, b, c, _⟩ := write_refines hF s w h; exact ⟨s', a, b, c⟩

end Sub
end Pyctr
