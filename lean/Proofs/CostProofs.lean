/-
  C19: termination and cost — the loops whose trip count is driven by on-disk values.
-/
import PyctrModel.Fmt.Lzss
import PyctrModel.Fmt.Romfs
import Proofs.BytesLemmas
namespace Pyctr
namespace Lzss

theorem copySeg_pin (segOff : Nat) : ∀ (k : Nat) (s : St), (copySeg s segOff k).pin = s.pin := by
  intro k
  induction k with
  | zero => intro s; rfl
  | succ k ih => intro s; rw [copySeg, ih]

/-- the input pointer never moves forward while the items of a control byte are processed -/
theorem items_pin (cs de ctrl : Nat) : ∀ (i : Nat) (s s' : St), items cs de ctrl i s = .ok s' → s'.pin ≤ s.pin := by
  intro i
  induction i with
  | zero => intro s s' h; simp only [items, Except.ok.injEq] at h; rw [← h]; exact Nat.le_refl _
  | succ i ih =>
    intro s s' h
    rw [items] at h
    split at h
    · simp only [Except.ok.injEq] at h; rw [← h]; exact Nat.le_refl _
    · split at h
      · split at h
        · cases h
        · simp only at h
          split at h
          · cases h
          · split at h
            · cases h
            · split at h
              · cases h
              · split at h
                · cases h
                · have := ih _ s' h
                  rw [copySeg_pin] at this
                  simp only at this
                  omega
      · have := ih _ s' h
        simp only at this
        omega

/-- **the decoder loop terminates within `ptr_in - comp_start` control bytes**: once the fuel covers that distance, more fuel
    changes nothing — so the model's fuel (the length of the input) is never what stops it, and the real `while` loop makes at
    most that many iterations -/
theorem outer_fuel (cs de : Nat) : ∀ (f : Nat) (s : St), s.pin - cs ≤ f → ∀ k, outer cs de (f + k) s = outer cs de f s := by
  intro f
  induction f with
  | zero =>
    intro s hs k
    cases k with
    | zero => rfl
    | succ k =>
      rw [Nat.zero_add, outer, outer]
      rw [if_neg (by omega)]
  | succ f ih =>
    intro s hs k
    rw [show f + 1 + k = (f + k) + 1 by omega, outer, outer]
    by_cases hc : s.pin > cs ∧ s.pout > cs
    · rw [if_pos hc, if_pos hc]
      by_cases h2 : s.pout < s.pin
      · rw [if_pos h2, if_pos h2]
      · rw [if_neg h2, if_neg h2]
        by_cases h3 : s.pin - 1 ≥ s.dec.size
        · rw [if_pos h3, if_pos h3]
        · rw [if_neg h3, if_neg h3]
          simp only
          cases hi : items cs de (s.dec.getD (s.pin - 1) 0).toNat 8 { s with pin := s.pin - 1 } with
          | error e => rfl
          | ok s' =>
            simp only
            have := items_pin cs de _ 8 _ s' hi
            simp only at this
            exact ih s' (by omega) k
    · rw [if_neg hc, if_neg hc]
end Lzss
namespace Romfs

def Bnd (e : Env) (c : Counters) : Prop := c.dirs ≤ e.maxDirs ∧ c.files ≤ e.maxFiles

/-- the visit caps the constructor uses are bounded by the length of the file it was given, whatever sizes the header claims -/
theorem mkEnv_caps (lower : Str → Str) (ci : Bool) (file : Bytes) (base dmo dms fmo fms : Nat) :
    (mkEnv lower ci file base dmo dms fmo fms).maxDirs * 0x18 ≤ file.length ∧
    (mkEnv lower ci file base dmo dms fmo fms).maxFiles * 0x20 ≤ file.length := by
  simp only [mkEnv, slice_length]
  have h1 := Nat.div_mul_le_self (min dms (file.length - (base + dmo))) 0x18
  have h2 := Nat.div_mul_le_self (min fms (file.length - (base + fmo))) 0x20
  constructor <;> omega

/-- the walk never visits more directory entries than the directory table can hold, nor more file entries than the file table
    can hold: links that revisit an entry run into the counter and are reported, they are not followed forever -/
theorem walk_bounded (e : Env) : ∀ (fuel : Nat),
    (∀ raw c out c', Bnd e c → iterDir e fuel raw c = .ok (out, c') → Bnd e c') ∧
    (∀ off acc c out c', Bnd e c → dirLoop e fuel off acc c = .ok (out, c') → Bnd e c') ∧
    (∀ off acc c out c', Bnd e c → fileLoop e fuel off acc c = .ok (out, c') → Bnd e c') := by
  intro fuel
  induction fuel with
  | zero =>
    refine ⟨?_, ?_, ?_⟩
    · intro raw c out c' _ h; simp [iterDir] at h
    · intro off acc c out c' _ h; simp [dirLoop] at h
    · intro off acc c out c' _ h; simp [fileLoop] at h
  | succ n ih =>
    obtain ⟨ihI, ihD, ihF⟩ := ih
    refine ⟨?_, ?_, ?_⟩
    · intro raw c out c' hb h
      rw [iterDir] at h
      split at h
      · cases h
      · rename_i o1 c1 hd
        have hb1 : Bnd e c1 := by
          split at hd
          · exact ihD _ _ _ _ _ hb hd
          · simp only [Except.ok.injEq, Prod.mk.injEq] at hd; rw [← hd.2]; exact hb
        split at h
        · exact ihF _ _ _ _ _ hb1 h
        · simp only [Except.ok.injEq, Prod.mk.injEq] at h; rw [← h.2]; exact hb1
    · intro off acc c out c' hb h
      rw [dirLoop] at h
      split at h
      · cases h
      · rename_i hcnt
        simp only at h
        split at h
        · cases h
        · split at h
          · cases h
          · split at h
            · cases h
            · rename_i sub c1 hi
              have hb0 : Bnd e { c with dirs := c.dirs + 1 } := ⟨by simp only; omega, hb.2⟩
              have hb1 := ihI _ _ _ _ hb0 hi
              split at h
              · simp only [Except.ok.injEq, Prod.mk.injEq] at h; rw [← h.2]; exact hb1
              · exact ihD _ _ _ _ _ hb1 h
    · intro off acc c out c' hb h
      rw [fileLoop] at h
      split at h
      · cases h
      · rename_i hcnt
        simp only at h
        split at h
        · cases h
        · split at h
          · cases h
          · have hb0 : Bnd e { c with files := c.files + 1 } := ⟨hb.1, by simp only; omega⟩
            split at h
            · simp only [Except.ok.injEq, Prod.mk.injEq] at h; rw [← h.2]; exact hb0
            · exact ihF _ _ _ _ _ hb0 h
end Romfs
end Pyctr
