/-
  C17 (D): container level — open, reads in any order, rejection of a bad table hash.
-/
import Proofs.SaveTamper
namespace Pyctr
namespace Save
variable (H : Bytes → Bytes)



theorem cacheOK_empty (rd : Nat → Nat → Nat → Except Err Bytes) (bsOf : Nat → Nat) (master : List Bytes) :
    CacheOK H rd bsOf master Caches.empty := by
  intro deep idx block v hi hm
  unfold Caches.get Caches.empty at hm
  simp only at hm
  split at hm
  · cases hm
  · cases deep <;> simp only [Bool.false_eq_true, if_false, if_true] at hm <;>
    (have : idx - 1 = 0 ∨ idx - 1 = 1 ∨ idx - 1 = 2 := by omega
     rcases this with h | h | h <;> rw [h] at hm <;> simp at hm)

theorem loadPartition_caches (F : Bytes) (index descOff : Nat) (pd : Bytes) (pOff pSize : Nat) (p : PartSt)
    (h : loadPartition F index descOff pd pOff pSize = .ok p) : p.caches = Caches.empty := by
  unfold loadPartition at h
  cases hl : loadPartdesc pd with
  | error e => rw [hl] at h; cases h
  | ok r =>
    rw [hl] at h
    simp only [Except.ok.injEq] at h
    rw [← h]

/-- every partition of an opened container was produced by `loadPartition` -/
theorem openCont_parts (kind : Kind) (F : Bytes) (w : Bool) (c : Cont) (h : openCont H kind F w = .ok c) :
    c.F = F ∧ ∀ p ∈ c.parts, ∃ i o pd po ps, loadPartition F i o pd po ps = .ok p := by
  cases kind with
  | diff =>
    simp only [openCont, openDiff] at h
    by_cases h1 : slice (slice F 256 256) 0 8 ≠ diffMagic
    · rw [if_pos h1] at h; cases h
    · rw [if_neg h1] at h
      by_cases h2 : H (slice F (diffDescOff (slice F 256 256)) (le (slice F 256 256) 24 8)) ≠ slice (slice F 256 256) 52 32
      · rw [if_pos h2] at h; cases h
      · rw [if_neg h2] at h
        cases hl : loadPartition F 0 0 (slice F (diffDescOff (slice F 256 256)) (le (slice F 256 256) 24 8))
            (le (slice F 256 256) 32 8) (le (slice F 256 256) 40 8) with
        | error e => rw [hl] at h; cases h
        | ok q =>
          rw [hl] at h
          simp only [Except.ok.injEq] at h
          rw [← h]
          refine ⟨rfl, ?_⟩
          intro p hp
          simp only [List.mem_cons, List.not_mem_nil, or_false] at hp
          rw [hp]; exact ⟨_, _, _, _, _, hl⟩
  | disa =>
    simp only [openCont, openDisa] at h
    by_cases h1 : slice (slice F 256 256) 0 8 ≠ disaMagic
    · rw [if_pos h1] at h; split at h <;> cases h
    · rw [if_neg h1] at h
      by_cases h2 : H (slice F (disaTableOff (slice F 256 256)) (le (slice F 256 256) 32 8)) ≠ slice (slice F 256 256) 108 32
      · rw [if_pos h2] at h; cases h
      · rw [if_neg h2] at h
        cases hl : loadPartition F 0 (le (slice F 256 256) 40 8)
            (slice (slice F (disaTableOff (slice F 256 256)) (le (slice F 256 256) 32 8)) (le (slice F 256 256) 40 8)
              (le (slice F 256 256) 48 8)) (le (slice F 256 256) 72 8) (le (slice F 256 256) 80 8) with
        | error e => rw [hl] at h; cases h
        | ok q =>
          rw [hl] at h
          simp only at h
          by_cases h3 : le (slice F 256 256) 8 4 = 2
          · rw [if_pos h3] at h
            cases hl2 : loadPartition F 1 (le (slice F 256 256) 56 8)
                (slice (slice F (disaTableOff (slice F 256 256)) (le (slice F 256 256) 32 8)) (le (slice F 256 256) 56 8)
                  (le (slice F 256 256) 64 8)) (le (slice F 256 256) 88 8) (le (slice F 256 256) 96 8) with
            | error e => rw [hl2] at h; cases h
            | ok q2 =>
              rw [hl2] at h
              simp only [Except.ok.injEq] at h
              rw [← h]
              refine ⟨rfl, ?_⟩
              intro p hp
              simp only [List.mem_cons, List.not_mem_nil, or_false] at hp
              rcases hp with hp | hp
              · rw [hp]; exact ⟨_, _, _, _, _, hl⟩
              · rw [hp]; exact ⟨_, _, _, _, _, hl2⟩
          · rw [if_neg h3] at h
            simp only [Except.ok.injEq] at h
            rw [← h]
            refine ⟨rfl, ?_⟩
            intro p hp
            simp only [List.mem_cons, List.not_mem_nil, or_false] at hp
            rw [hp]; exact ⟨_, _, _, _, _, hl⟩

/-- a freshly opened container has sound (empty) caches -/
theorem openCont_ok (kind : Kind) (F : Bytes) (w : Bool) (c : Cont) (h : openCont H kind F w = .ok c) : ContOK H c := by
  intro p hp
  obtain ⟨_, hparts⟩ := openCont_parts H kind F w c h
  obtain ⟨i, o, pd, po, ps, hl⟩ := hparts p hp
  rw [loadPartition_caches _ _ _ _ _ _ _ hl]
  exact cacheOK_empty H _ _ _

/-- a DIFF whose active descriptor does not hash to the value in the header is rejected -/
theorem openDiff_reject (F : Bytes) (w : Bool) (hm : slice (slice F 0x100 0x100) 0 8 = diffMagic)
    (hh : H (slice F (diffDescOff (slice F 0x100 0x100)) (le (slice F 0x100 0x100) 0x18 8)) ≠ slice (slice F 0x100 0x100) 0x34 0x20) :
    openCont H .diff F w = .error (.other "CorruptPartitionError") := by
  simp only [openCont, openDiff]
  rw [if_neg (by simpa using hm), if_pos hh]

/-- a DISA whose active partition table does not hash to the value in the header is rejected -/
theorem openDisa_reject (F : Bytes) (w : Bool) (hm : slice (slice F 0x100 0x100) 0 8 = disaMagic)
    (hh : H (slice F (disaTableOff (slice F 0x100 0x100)) (le (slice F 0x100 0x100) 0x20 8)) ≠ slice (slice F 0x100 0x100) 0x6C 0x20) :
    openCont H .disa F w = .error (.other "CorruptPartitionError") := by
  simp only [openCont, openDisa]
  rw [if_neg (by simpa using hm), if_pos hh]

theorem lv4Blocks_cache (rd : Nat → Nat → Nat → Except Err Bytes) (bsOf : Nat → Nat) (master : List Bytes) (n : Nat) :
    ∀ (sb : Nat) (c : Caches), CacheOK H rd bsOf master c →
    ∀ bl c', lv4Blocks H rd bsOf master sb n c = .ok (bl, c') → CacheOK H rd bsOf master c' := by
  induction n with
  | zero =>
    intro sb c hc bl c' h
    simp only [lv4Blocks, Except.ok.injEq, Prod.mk.injEq] at h
    rw [← h.2]; exact hc
  | succ n ih =>
    intro sb c hc bl c' h
    rw [lv4Blocks] at h
    cases hg : getBlockG H rd bsOf master 3 sb true true c with
    | error e => rw [hg] at h; cases h
    | ok r =>
      obtain ⟨d, v, c1⟩ := r
      rw [hg] at h
      simp only at h
      obtain ⟨_, _, hc1⟩ := getBlockG_sound H rd bsOf master 3 (by omega) sb true c hc d v c1 hg
      cases hrest : lv4Blocks H rd bsOf master (sb + 1) n c1 with
      | error e => rw [hrest] at h; cases h
      | ok r2 =>
        obtain ⟨bl2, c2⟩ := r2
        rw [hrest] at h
        simp only [Except.ok.injEq, Prod.mk.injEq] at h
        rw [← h.2]
        exact ih (sb + 1) c1 hc1 bl2 c2 hrest

theorem lv4ReadG_cache (rd : Nat → Nat → Nat → Except Err Bytes) (bsOf : Nat → Nat) (master : List Bytes)
    (size4 seek : Nat) (size : Int) (c : Caches) (hc : CacheOK H rd bsOf master c) (out : Bytes) (c' : Caches)
    (h : lv4ReadG H rd bsOf master size4 seek size c = .ok (out, c')) : CacheOK H rd bsOf master c' := by
  unfold lv4ReadG at h
  simp only at h
  by_cases hz : (if size < 0 ∨ (seek : Int) + size > (size4 : Int) then (size4 : Int) - seek else size) ≤ 0
  · rw [if_pos hz] at h
    simp only [Except.ok.injEq, Prod.mk.injEq] at h; rw [← h.2]; exact hc
  · rw [if_neg hz] at h
    split at h
    · cases h
    · rename_i bl c1 hb
      simp only [Except.ok.injEq, Prod.mk.injEq] at h
      rw [← h.2]
      exact lv4Blocks_cache H rd bsOf master _ _ c hc bl c1 hb

theorem levelBytes_length (P : Bytes) (t : Tree) (hwf : TreeWF P t) (idx : Nat) :
    (levelBytes P t idx).length = (t.level idx).size := by
  unfold levelBytes levelFrom
  cases hx : (if 3 ≤ idx then t.external else none) with
  | some p =>
    obtain ⟨eo, es⟩ := p
    simp only
    have h3 : 3 ≤ idx := by
      by_cases h3 : 3 ≤ idx
      · exact h3
      · rw [if_neg h3] at hx; cases hx
    rw [if_pos h3] at hx
    obtain ⟨hes, hin⟩ := hwf.ext eo es hx
    have hl : (t.level idx).size = es := by
      rw [hes]; unfold Tree.level
      rw [if_neg (by omega), if_neg (by omega), if_neg (by omega)]
    rw [slice_length, slice_length, hl]; omega
  | none =>
    simp only
    have hin := hwf.inside idx (by intro h3; rw [if_pos h3] at hx; exact hx)
    rw [slice_length, dpfsView_length P t.dp hwf.dp]; omega

/-- `IVFCLevel4Reader.read` on an open container: the file is untouched, the caches stay sound, and for a well-formed
    partition the result is the slice of the verified view at the reader's position -/
theorem contRead_spec (c : Cont) (hc : ContOK H c) (pi : Nat) (size : Int) (d : Bytes) (c' : Cont)
    (h : contRead H c pi size = .ok (d, c')) :
    c'.F = c.F ∧ ContOK H c' ∧ ∃ p, c.parts[pi]? = some p ∧
      (TreeWF (p.P c.F) p.tree →
        d = slice (verifiedView H (levelBytes (p.P c.F) p.tree) p.bsOf p.master) p.seek
              (readCount p.ivfc.lv4.size p.seek size)) := by
  unfold contRead at h
  cases hp : c.parts[pi]? with
  | none => rw [hp] at h; cases h
  | some p =>
    rw [hp] at h
    simp only at h
    cases hr : lv4Read H (slice c.F p.pOff p.pSize) p.tree p.master p.seek size p.caches with
    | error e => rw [hr] at h; cases h
    | ok r =>
      obtain ⟨out, caches⟩ := r
      rw [hr] at h
      simp only [Except.ok.injEq, Prod.mk.injEq] at h
      obtain ⟨h1, h2⟩ := h
      subst h1
      have hpm : p ∈ c.parts := List.mem_of_getElem? hp
      have hcp := hc p hpm
      unfold lv4Read at hr
      have hcache := lv4ReadG_cache H _ _ _ _ _ _ _ hcp _ _ hr
      refine ⟨by rw [← h2], ?_, p, rfl, ?_⟩
      · intro q hq
        rw [← h2] at hq ⊢
        simp only at hq ⊢
        rcases List.mem_or_eq_of_mem_set hq with hq | hq
        · exact hc q hq
        · rw [hq]; exact hcache
      · intro hwf
        have hL := levelRead_eq _ _ hwf
        have hlen : p.ivfc.lv4.size = (levelBytes (p.P c.F) p.tree 3).length := by
          rw [levelBytes_length _ _ hwf]; rfl
        unfold PartSt.P at hL hlen hcp
        rw [hL, show p.tree.ivfc.lv4.size = p.ivfc.lv4.size from rfl, hlen] at hr
        rw [hL] at hcp
        have := (lv4ReadG_spec H p.bsOf p.master _ (Nat.two_pow_pos _) p.seek size p.caches hcp out caches hr).1
        rw [← hlen] at this
        exact this

theorem getBlockG_noverify (rd : Nat → Nat → Nat → Except Err Bytes) (bsOf : Nat → Nat) (master : List Bytes)
    (idx block : Nat) (deep : Bool) (c : Caches) (d : Bytes) (v : Option Bool) (c' : Caches)
    (h : getBlockG H rd bsOf master idx block false deep c = .ok (d, v, c')) : c' = c ∧ v = none := by
  cases idx with
  | zero =>
    rw [getBlockG] at h
    split at h
    · cases h
    · simp only [Bool.not_false, if_true, Except.ok.injEq, Prod.mk.injEq] at h
      exact ⟨h.2.2.symm, h.2.1.symm⟩
  | succ up =>
    rw [getBlockG] at h
    split at h
    · cases h
    · simp only [Bool.not_false, if_true, Except.ok.injEq, Prod.mk.injEq] at h
      exact ⟨h.2.2.symm, h.2.1.symm⟩

/-- `get_block` on an open container: file untouched, caches stay sound, and a verified answer is the cache-free one -/
theorem contBlock_spec (c : Cont) (hc : ContOK H c) (pi level block : Nat) (verify deepV : Bool) (d : Bytes)
    (v : Option Bool) (c' : Cont) (h : contBlock H c pi level block verify deepV = .ok ((d, v), c')) :
    c'.F = c.F ∧ ContOK H c' ∧ ∃ p, c.parts[pi]? = some p ∧
      (verify = true → specValid H (levelRead (p.P c.F) p.tree) p.bsOf p.master deepV (level - 1) block = .ok v) := by
  unfold contBlock at h
  cases hp : c.parts[pi]? with
  | none => rw [hp] at h; cases h
  | some p =>
    rw [hp] at h
    simp only at h
    by_cases hl : level = 0 ∨ level > 4
    · rw [if_pos hl] at h; cases h
    · rw [if_neg hl] at h
      cases hr : getBlock H (slice c.F p.pOff p.pSize) p.tree p.master (level - 1) block verify deepV p.caches with
      | error e => rw [hr] at h; cases h
      | ok r =>
        obtain ⟨out, w, caches⟩ := r
        rw [hr] at h
        simp only [Except.ok.injEq, Prod.mk.injEq] at h
        obtain ⟨⟨h1, h1'⟩, h2⟩ := h
        subst h1; subst h1'
        have hpm : p ∈ c.parts := List.mem_of_getElem? hp
        have hcp := hc p hpm
        unfold getBlock at hr
        have hcache : CacheOK H (levelRead (p.P c.F) p.tree) p.bsOf p.master caches ∧
            (verify = true → specValid H (levelRead (p.P c.F) p.tree) p.bsOf p.master deepV (level - 1) block = .ok w) := by
          cases verify with
          | true =>
            obtain ⟨_, hs, hk⟩ := getBlockG_sound H _ _ _ (level - 1) (by omega) block deepV p.caches hcp _ _ _ hr
            exact ⟨hk, fun _ => hs⟩
          | false =>
            obtain ⟨hk, _⟩ := getBlockG_noverify H _ _ _ _ _ _ _ _ _ _ hr
            rw [hk]; exact ⟨hcp, fun hh => by cases hh⟩
        refine ⟨by rw [← h2], ?_, p, rfl, hcache.2⟩
        intro q hq
        rw [← h2] at hq ⊢
        simp only at hq ⊢
        rcases List.mem_or_eq_of_mem_set hq with hq | hq
        · exact hc q hq
        · rw [hq]; exact hcache.1

theorem contSeek_spec (c : Cont) (hc : ContOK H c) (pi : Nat) (off : Int) (wh : Nat) (n : Nat) (c' : Cont)
    (h : contSeek c pi off wh = .ok (n, c')) : c'.F = c.F ∧ ContOK H c' := by
  unfold contSeek at h
  cases hp : c.parts[pi]? with
  | none => rw [hp] at h; cases h
  | some p =>
    rw [hp] at h
    simp only at h
    split at h
    · cases h
    · simp only [Except.ok.injEq, Prod.mk.injEq] at h
      obtain ⟨_, h2⟩ := h
      refine ⟨by rw [← h2], ?_⟩
      intro q hq
      rw [← h2] at hq ⊢
      simp only at hq ⊢
      rcases List.mem_or_eq_of_mem_set hq with hq | hq
      · exact hc q hq
      · rw [hq]; exact hc p (List.mem_of_getElem? hp)




/-- reads, seeks and block queries never touch the file and keep every cache sound -/
theorem reachRO_ok (c0 c : Cont) (h0 : ContOK H c0) (h : ReachRO H c0 c) : c.F = c0.F ∧ ContOK H c := by
  induction h with
  | refl => exact ⟨rfl, h0⟩
  | read pi n d _ hr ih =>
    obtain ⟨hf, hk, _⟩ := contRead_spec H _ ih.2 pi n d _ hr
    exact ⟨hf.trans ih.1, hk⟩
  | seek pi off wh n _ hr ih =>
    obtain ⟨hf, hk⟩ := contSeek_spec H _ ih.2 pi off wh n _ hr
    exact ⟨hf.trans ih.1, hk⟩
  | blk pi level block vf dv r _ hr ih =>
    obtain ⟨d, v⟩ := r
    obtain ⟨hf, hk, _⟩ := contBlock_spec H _ ih.2 pi level block vf dv d v _ hr
    exact ⟨hf.trans ih.1, hk⟩
end Save
end Pyctr
