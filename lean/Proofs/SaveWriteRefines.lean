/-
  C18 (refinement): the DPFS-backed write path of the model (`dpWrite`, `levelWrite`, `rereadBlocks`, `writeData`) computes what
  the array-level specification `absWrite` computes, under the regular geometry `geomOK`.
-/
import Proofs.SaveHashPath
import Proofs.SaveWrite
namespace Pyctr
namespace Save

/-- where byte `x` of the DPFS level-3 view is stored in the partition: in the copy its block's level-2 bit selects -/
def scatter (dp : Dp) (x : Nat) : Nat := dp.lv3.offset + chunkOf dp (x / dp.lv3.bs) + x

theorem chunkOf_le (dp : Dp) (b : Nat) : chunkOf dp b = 0 ∨ chunkOf dp b = dp.lv3.size := by
  unfold chunkOf; split <;> simp

theorem scatter_inj (dp : Dp) (x x' : Nat) (hx : x < dp.lv3.size) (hx' : x' < dp.lv3.size) (h : scatter dp x = scatter dp x') : x = x' := by
  unfold scatter at h
  rcases chunkOf_le dp (x / dp.lv3.bs) with h1 | h1 <;> rcases chunkOf_le dp (x' / dp.lv3.bs) with h2 | h2 <;> rw [h1, h2] at h <;> omega

theorem overlay_nil (d : Bytes) (a : Nat) (h : a ≤ d.length) : overlay d a [] = d := by
  unfold overlay
  rw [show a - d.length = 0 by omega]
  simp [zeros]

theorem slice_overlay_window' (d : Bytes) (off size p : Nat) (w : Bytes) (hw : p + w.length ≤ min size (d.length - off)) :
    slice (overlay d (off + p) w) off size = overlay (slice d off size) p w := by
  apply List.ext_getElem?; intro i
  simp only [slice_getElem?, overlay_getElem?, slice_length]
  by_cases hi : i < size
  · simp only [hi, if_true]
    by_cases h1 : i < p
    · simp [h1, show off + i < off + p by omega, show off + i < d.length by omega,
        show i < min size (d.length - off) by omega]
    · by_cases h2 : i < p + w.length
      · simp only [h1, h2, show ¬ off + i < off + p by omega, show off + i < off + p + w.length by omega,
          if_true, if_false]
        congr 1; omega
      · simp [h1, h2, show ¬ off + i < off + p by omega, show ¬ off + i < off + p + w.length by omega]
  · simp only [hi, if_false]
    rw [if_neg (by omega), if_neg (by omega)]

/-- a write through the partition window, when it fits: the window's bytes get the data laid over them, the file outside the
    window and all sizes stay as they are -/
theorem Win.write_spec (w : Win) (pos : Nat) (piece : Bytes) (h : pos + piece.length ≤ w.bytes.length) :
    (w.write pos piece).1 = piece.length ∧ (w.write pos piece).2.bytes = overlay w.bytes pos piece ∧
      (w.write pos piece).2.off = w.off ∧ (w.write pos piece).2.size = w.size ∧
      (w.write pos piece).2.F.length = w.F.length ∧
      ∀ z, (z < w.off ∨ w.off + w.size ≤ z) → (w.write pos piece).2.F[z]? = w.F[z]? := by
  have hb : w.bytes.length = min w.size (w.F.length - w.off) := by unfold Win.bytes; rw [slice_length]
  unfold Win.write
  simp only
  rw [Nat.min_eq_left (by omega), List.take_of_length_le (by omega)]
  by_cases he : piece.isEmpty = true
  · rw [if_pos he]
    simp only [List.isEmpty_iff] at he
    subst he
    refine ⟨by simp, ?_, by simp, by simp, by simp, fun _ _ => by simp⟩
    rw [overlay_nil _ _ (by simpa using h)]
  · rw [if_neg he]
    have hpl : 0 < piece.length := by
      cases piece with
      | nil => simp at he
      | cons a r => simp
    refine ⟨by simp, ?_, by simp, by simp, ?_, ?_⟩
    · unfold Win.bytes
      simp only
      rw [Nat.add_comm w.off pos, Nat.add_comm pos w.off, slice_overlay_window' _ _ _ _ _ (by omega)]
    · simp only
      rw [overlay_length]; omega
    · intro z hz
      simp only
      rw [overlay_getElem?]
      rcases hz with hz | hz
      · rw [if_pos (by omega), if_pos (by omega)]
      · rw [if_neg (by omega), if_neg (by omega)]

/-- state of the block loop of `DPFSLevel3.write_data` after `k` blocks: `padded = zeros(fbo) ++ data` starts at view position
    `sb * bs`; everything of it that lies in the first `k` blocks (and at or after `offset`) has been written to the copies the
    level-2 bits select; nothing else has changed -/
structure DpInv (w0 : Win) (dp : Dp) (sb : Nat) (padded : Bytes) (offset k : Nat) (w : Win) : Prop where
  off : w.off = w0.off
  size : w.size = w0.size
  flen : w.F.length = w0.F.length
  outside : ∀ z, (z < w0.off ∨ w0.off + w0.size ≤ z) → w.F[z]? = w0.F[z]?
  written : ∀ x, offset ≤ x → x < sb * dp.lv3.bs + min padded.length (k * dp.lv3.bs) →
    w.bytes[scatter dp x]? = padded[x - sb * dp.lv3.bs]?
  frame : ∀ y, (∀ x, offset ≤ x → x < sb * dp.lv3.bs + min padded.length (k * dp.lv3.bs) → y ≠ scatter dp x) →
    w.bytes[y]? = w0.bytes[y]?

theorem Win.bytes_length (w : Win) : w.bytes.length = min w.size (w.F.length - w.off) := by
  unfold Win.bytes; rw [slice_length]

theorem dpInv_step (w0 : Win) (dp : Dp) (hwf : DpWF w0.bytes dp) (sb fbo : Nat) (padded : Bytes) (k tot : Nat) (w : Win)
    (hfbo : fbo < dp.lv3.bs) (hpl : fbo < padded.length) (hin : sb * dp.lv3.bs + padded.length ≤ dp.lv3.size)
    (hk : k * dp.lv3.bs < padded.length) (hinv : DpInv w0 dp sb padded (sb * dp.lv3.bs + fbo) k w) :
    ∃ n w', dpWriteStep dp sb fbo padded (.ok (tot, w)) k = .ok (tot + n, w') ∧
      DpInv w0 dp sb padded (sb * dp.lv3.bs + fbo) (k + 1) w' ∧
      n = min padded.length ((k + 1) * dp.lv3.bs) - max fbo (k * dp.lv3.bs) := by
  have hbs := dp.lv3.bs_pos
  generalize hbsv : dp.lv3.bs = bs at *
  generalize hszv : dp.lv3.size = size at *
  have hsk : (sb + k) * bs = sb * bs + k * bs := Nat.add_mul _ _ _
  have hk1 : (k + 1) * bs = k * bs + bs := Nat.succ_mul _ _
  -- the block has a level-2 bit
  have hblk : sb + k < nblocks size bs := lt_nblocks _ _ _ hbs (by rw [hsk]; omega)
  obtain ⟨act, hact⟩ := activeBit_isSome dp.lv2bits (sb + k) (Nat.lt_of_lt_of_le (by rw [← hbsv, ← hszv] at hblk; exact hblk) hwf.bits)
  have hchunk : chunkOf dp (sb + k) = if act then size else 0 := by
    unfold chunkOf; rw [hact, hszv]; cases act <;> simp
  generalize hc : chunkOf dp (sb + k) = c at hchunk
  have hcle : c = 0 ∨ c = size := by cases act <;> simp at hchunk <;> omega
  -- the piece of this block
  generalize hs : (if k = 0 then fbo else 0) = sk
  have hsk0 : sk = fbo ∧ k = 0 ∨ sk = 0 ∧ 0 < k := by
    by_cases h0 : k = 0
    · rw [if_pos h0] at hs; left; exact ⟨hs.symm, h0⟩
    · rw [if_neg h0] at hs; right; exact ⟨hs.symm, by omega⟩
  have hpiece : (if k = 0 then (slice padded (k * bs) bs).drop fbo else slice padded (k * bs) bs) = slice padded (k * bs + sk) (bs - sk) := by
    rcases hsk0 with ⟨h1, h2⟩ | ⟨h1, h2⟩
    · rw [if_pos h2, slice_drop, h1]
    · rw [if_neg (by omega), h1]; rfl
  have hplen : (slice padded (k * bs + sk) (bs - sk)).length = min padded.length ((k + 1) * bs) - (k * bs + sk) := by
    rw [slice_length, hk1]; omega
  have hblen : w.bytes.length = w0.bytes.length := by
    rw [Win.bytes_length, Win.bytes_length, hinv.off, hinv.size, hinv.flen]
  have hinside := hwf.inside
  rw [hszv] at hinside
  have hskb : sk < bs := by rcases hsk0 with ⟨h1, _⟩ | ⟨h1, _⟩ <;> omega
  have hklt : k * bs + sk < padded.length := by
    rcases hsk0 with ⟨h1, h2⟩ | ⟨h1, h2⟩
    · rw [h2, h1]; omega
    · omega
  -- evaluate the step
  have hpos : min ((if act then size else 0) + (sb + k) * bs + (if k = 0 then fbo else 0)) (size * 2) = c + (sb * bs + k * bs) + sk := by
    rw [hs, ← hchunk, hsk]
    apply Nat.min_eq_left
    rcases hcle with h | h <;> omega
  have hfit : dp.lv3.offset + (c + (sb * bs + k * bs) + sk) + (slice padded (k * bs + sk) (bs - sk)).length ≤ w.bytes.length := by
    rw [hplen, hblen]
    rcases hcle with h | h <;> omega
  have hwritten := hinv.written
  have hframe0 := hinv.frame
  rw [hbsv] at hwritten hframe0
  obtain ⟨s1, s2, s3, s4, s5, s6⟩ := Win.write_spec w (dp.lv3.offset + (c + (sb * bs + k * bs) + sk)) (slice padded (k * bs + sk) (bs - sk)) hfit
  refine ⟨(slice padded (k * bs + sk) (bs - sk)).length, (w.write (dp.lv3.offset + (c + (sb * bs + k * bs) + sk)) (slice padded (k * bs + sk) (bs - sk))).2, ?_, ?_, ?_⟩
  · unfold dpWriteStep
    simp only [hbsv, hszv, hact, hpiece, hpos]
    rw [List.take_of_length_le (by rw [hplen]; rcases hcle with h | h <;> omega)]
    rw [← s1]
  · have hR : ∀ x, (sb * bs + k * bs) + sk ≤ x → x < sb * bs + min padded.length ((k + 1) * bs) → scatter dp x = dp.lv3.offset + c + x := by
      intro x h1 h2
      unfold scatter
      have : x / bs = sb + k := Nat.div_eq_of_lt_le (by rw [hsk]; omega) (by rw [Nat.succ_mul, hsk]; rw [hk1] at h2; omega)
      rw [hbsv, this, hc]
    refine ⟨by rw [s3, hinv.off], by rw [s4, hinv.size], by rw [s5, hinv.flen], fun z hz => by rw [s6 z (by rw [hinv.off, hinv.size]; exact hz), hinv.outside z hz], ?_, ?_⟩
    · intro x hx1 hx2
      rw [hbsv] at hx2 ⊢
      rw [s2, overlay_getElem?]
      by_cases hold : x < sb * bs + min padded.length (k * bs)
      · -- written before; the new piece lies elsewhere
        have hxlt : x < sb * bs + k * bs := by omega
        have hkpos : 0 < k := by
          rcases Nat.eq_zero_or_pos k with h0 | h0
          · rw [h0] at hxlt; omega
          · exact h0
        have hsk' : sk = 0 := by rcases hsk0 with ⟨_, h2⟩ | ⟨h1, _⟩ <;> omega
        have hsc : scatter dp x = dp.lv3.offset + chunkOf dp (x / bs) + x := by unfold scatter; rw [hbsv]
        have hold' := hwritten x hx1 hold
        rcases chunkOf_le dp (x / bs) with h0 | h0
        · -- stored in copy 0
          rcases hcle with hc0 | hc0
          · rw [hsc, h0, if_pos (by omega), if_pos (by rw [hblen]; omega)]
            rw [hsc, h0] at hold'; exact hold'
          · rw [hsc, h0, if_pos (by omega), if_pos (by rw [hblen]; omega)]
            rw [hsc, h0] at hold'; exact hold'
        · rw [hszv] at h0
          rcases hcle with hc0 | hc0
          · rw [hsc, h0, if_neg (by omega), if_neg (by rw [hplen]; omega)]
            rw [hsc, h0] at hold'; exact hold'
          · rw [hsc, h0, if_pos (by omega), if_pos (by rw [hblen]; omega)]
            rw [hsc, h0] at hold'; exact hold'
      · -- in this block
        have hxlo : (sb * bs + k * bs) + sk ≤ x := by
          rcases hsk0 with ⟨h1, h2⟩ | ⟨h1, h2⟩
          · rw [h1, h2]; omega
          · rw [h1]; omega
        rw [hR x hxlo hx2, if_neg (by omega), if_pos (by rw [hplen]; omega), slice_getElem?, if_pos (by omega)]
        congr 1; omega
    · intro y hy
      rw [hbsv] at hy
      rw [s2, overlay_getElem?]
      have hnot : ¬ (dp.lv3.offset + (c + (sb * bs + k * bs) + sk) ≤ y ∧
          y < dp.lv3.offset + (c + (sb * bs + k * bs) + sk) + (slice padded (k * bs + sk) (bs - sk)).length) := by
        intro ⟨h1, h2⟩
        rw [hplen] at h2
        have hx1 : (sb * bs + k * bs) + sk ≤ y - dp.lv3.offset - c := by omega
        have hx2 : y - dp.lv3.offset - c < sb * bs + min padded.length ((k + 1) * bs) := by omega
        apply hy (y - dp.lv3.offset - c)
        · rcases hsk0 with ⟨h3, h4⟩ | ⟨h3, h4⟩
          · rw [h3, h4] at hx1; omega
          · have : bs ≤ k * bs := Nat.le_mul_of_pos_left _ h4
            omega
        · exact hx2
        · rw [hR _ hx1 hx2]; omega
      have hframe := hframe0 y (fun x h1 h2 => hy x h1 (by rw [hk1]; omega))
      by_cases hlow : y < dp.lv3.offset + (c + (sb * bs + k * bs) + sk)
      · rw [if_pos hlow, if_pos (by omega)]; exact hframe
      · rw [if_neg hlow, if_neg (by omega)]; exact hframe
  · rw [hplen]
    rcases hsk0 with ⟨h1, h2⟩ | ⟨h1, h2⟩
    · rw [h1, h2]; omega
    · rw [h1]
      have : fbo ≤ k * bs := by
        have : bs ≤ k * bs := Nat.le_mul_of_pos_left _ h2
        omega
      omega

theorem dpInv_fold (w0 : Win) (dp : Dp) (hwf : DpWF w0.bytes dp) (sb fbo : Nat) (padded : Bytes)
    (hfbo : fbo < dp.lv3.bs) (hpl : fbo < padded.length) (hin : sb * dp.lv3.bs + padded.length ≤ dp.lv3.size) :
    ∀ k, k ≤ (padded.length + dp.lv3.bs - 1) / dp.lv3.bs →
      ∃ w, (List.range k).foldl (dpWriteStep dp sb fbo padded) (.ok (0, w0)) =
          .ok (min padded.length (k * dp.lv3.bs) - min fbo (k * dp.lv3.bs), w) ∧
        DpInv w0 dp sb padded (sb * dp.lv3.bs + fbo) k w := by
  have hbs := dp.lv3.bs_pos
  intro k
  induction k with
  | zero =>
    intro _
    refine ⟨w0, by simp, rfl, rfl, rfl, fun _ _ => rfl, ?_, fun _ _ => rfl⟩
    intro x h1 h2
    simp only [Nat.zero_mul, Nat.min_zero, Nat.add_zero] at h2
    omega
  | succ k ih =>
    intro hk
    obtain ⟨w, hf, hinv⟩ := ih (by omega)
    have hklt : k * dp.lv3.bs < padded.length := by
      obtain ⟨e, r, hr0, hrb, hT, hceil⟩ := ceil_div_spec padded.length dp.lv3.bs hbs (by omega)
      rw [hceil] at hk
      have : k * dp.lv3.bs ≤ e * dp.lv3.bs := Nat.mul_le_mul_right _ (by omega)
      omega
    obtain ⟨n, w', hstep, hinv', hn⟩ := dpInv_step w0 dp hwf sb fbo padded k
      (min padded.length (k * dp.lv3.bs) - min fbo (k * dp.lv3.bs)) w hfbo hpl hin hklt hinv
    refine ⟨w', ?_, hinv'⟩
    rw [List.range_succ, List.foldl_append, hf]
    simp only [List.foldl_cons, List.foldl_nil]
    rw [hstep, hn]
    congr 2
    have hk1 : (k + 1) * dp.lv3.bs = k * dp.lv3.bs + dp.lv3.bs := Nat.succ_mul _ _
    rcases Nat.eq_zero_or_pos k with h0 | h0
    · subst h0; simp only [Nat.zero_mul, Nat.min_zero, Nat.zero_add, Nat.one_mul, Nat.max_zero]
      rw [Nat.min_eq_left (by omega : fbo ≤ dp.lv3.bs)]; omega
    · have : dp.lv3.bs ≤ k * dp.lv3.bs := Nat.le_mul_of_pos_left _ h0
      rw [Nat.min_eq_left (by omega : fbo ≤ k * dp.lv3.bs), Nat.min_eq_left (by omega : fbo ≤ (k + 1) * dp.lv3.bs),
        Nat.max_eq_right (by omega : fbo ≤ k * dp.lv3.bs), Nat.min_eq_right (by omega : k * dp.lv3.bs ≤ padded.length)]
      omega

/-- **`DPFSLevel3.write_data`**, for a non-empty write that lies inside the view: every byte goes to the copy its block's level-2
    bit selects, nothing else in the partition or the file changes -/
theorem dpWrite_spec (w0 : Win) (dp : Dp) (hwf : DpWF w0.bytes dp) (offset : Nat) (data : Bytes) (hne : data ≠ [])
    (hin : offset + data.length ≤ dp.lv3.size) :
    ∃ w', dpWrite w0 dp offset data = .ok (data.length, w') ∧ w'.off = w0.off ∧ w'.size = w0.size ∧ w'.F.length = w0.F.length ∧
      (∀ z, (z < w0.off ∨ w0.off + w0.size ≤ z) → w'.F[z]? = w0.F[z]?) ∧
      (∀ x, offset ≤ x → x < offset + data.length → w'.bytes[scatter dp x]? = data[x - offset]?) ∧
      (∀ y, (∀ x, offset ≤ x → x < offset + data.length → y ≠ scatter dp x) → w'.bytes[y]? = w0.bytes[y]?) := by
  have hbs := dp.lv3.bs_pos
  have hdl : 0 < data.length := by cases data with | nil => exact absurd rfl hne | cons a r => simp
  have hdm := Nat.div_add_mod offset dp.lv3.bs
  have hmod := Nat.mod_lt offset hbs
  have hoff : offset / dp.lv3.bs * dp.lv3.bs + offset % dp.lv3.bs = offset := by rw [Nat.mul_comm]; exact hdm
  have hplen : (zeros (offset % dp.lv3.bs) ++ data).length = offset % dp.lv3.bs + data.length := by simp
  obtain ⟨w', hf, hinv⟩ := dpInv_fold w0 dp hwf (offset / dp.lv3.bs) (offset % dp.lv3.bs) (zeros (offset % dp.lv3.bs) ++ data)
    hmod (by rw [hplen]; omega) (by rw [hplen]; omega) _ (Nat.le_refl _)
  have hcover : (zeros (offset % dp.lv3.bs) ++ data).length ≤
      ((zeros (offset % dp.lv3.bs) ++ data).length + dp.lv3.bs - 1) / dp.lv3.bs * dp.lv3.bs := by
    obtain ⟨e, r, hr0, hrb, hT, hceil⟩ := ceil_div_spec (zeros (offset % dp.lv3.bs) ++ data).length dp.lv3.bs hbs (by rw [hplen]; omega)
    rw [hceil, Nat.succ_mul]; omega
  rw [hoff] at hinv
  refine ⟨w', ?_, hinv.off, hinv.size, hinv.flen, hinv.outside, ?_, ?_⟩
  · unfold dpWrite
    have hclamp : (if offset + data.length > dp.lv3.size then data.take (dp.lv3.size - offset) else data) = data :=
      if_neg (by omega)
    have he : data.isEmpty = false := by cases data with | nil => exact absurd rfl hne | cons a r => rfl
    simp only [hclamp, he, Bool.false_eq_true, if_false]
    rw [hf]
    congr 2
    generalize hN : ((zeros (offset % dp.lv3.bs) ++ data).length + dp.lv3.bs - 1) / dp.lv3.bs * dp.lv3.bs = N at hcover ⊢
    rw [Nat.min_eq_left hcover, hplen]
    rw [hplen] at hcover
    rw [Nat.min_eq_left (by omega : offset % dp.lv3.bs ≤ N)]; omega
  · intro x h1 h2
    have := hinv.written x h1 (by rw [Nat.min_eq_left hcover, hplen]; omega)
    rw [this]
    have hx : x - offset / dp.lv3.bs * dp.lv3.bs = offset % dp.lv3.bs + (x - offset) := by omega
    rw [hx, List.getElem?_append_right (by simp), zeros_length]
    congr 1; omega
  · intro y hy
    exact hinv.frame y (fun x h1 h2 => hy x h1 (by rw [Nat.min_eq_left hcover, hplen] at h2; omega))

/-- in terms of the level-3 view: the view after the write is the view before with the data laid over it -/
theorem dpWrite_view (w0 : Win) (dp : Dp) (hwf : DpWF w0.bytes dp) (offset : Nat) (data : Bytes) (hne : data ≠ [])
    (hin : offset + data.length ≤ dp.lv3.size) (w' : Win) (n : Nat) (h : dpWrite w0 dp offset data = .ok (n, w')) :
    n = data.length ∧ w'.off = w0.off ∧ w'.size = w0.size ∧ w'.F.length = w0.F.length ∧
      (∀ z, (z < w0.off ∨ w0.off + w0.size ≤ z) → w'.F[z]? = w0.F[z]?) ∧
      DpWF w'.bytes dp ∧ dpfsView w'.bytes dp = overlay (dpfsView w0.bytes dp) offset data ∧
      (∀ y, (y < dp.lv3.offset ∨ dp.lv3.offset + dp.lv3.size * 2 ≤ y) → w'.bytes[y]? = w0.bytes[y]?) := by
  obtain ⟨w1, h1, h2, h3, h4, h5, h6, h7⟩ := dpWrite_spec w0 dp hwf offset data hne hin
  rw [h1] at h
  simp only [Except.ok.injEq, Prod.mk.injEq] at h
  obtain ⟨hn, hw⟩ := h
  subst hw
  have hbl : w1.bytes.length = w0.bytes.length := by rw [Win.bytes_length, Win.bytes_length, h2, h3, h4]
  have hwf' : DpWF w1.bytes dp := ⟨hwf.bits, by rw [hbl]; exact hwf.inside⟩
  refine ⟨hn.symm, h2, h3, h4, h5, hwf', ?_, ?_⟩
  · apply List.ext_getElem?
    intro x
    by_cases hx : x < dp.lv3.size
    · rw [dpfsView_getElem _ _ hwf' x hx, overlay_getElem?, dpfsView_length _ _ hwf]
      by_cases hr : offset ≤ x ∧ x < offset + data.length
      · have := h6 x hr.1 hr.2
        unfold scatter at this
        rw [this, if_neg (by omega), if_pos hr.2]
      · have := h7 (scatter dp x) (fun x' a b hc => by
          have := scatter_inj dp x x' hx (by omega) hc
          omega)
        unfold scatter at this
        rw [this, ← dpfsView_getElem _ _ hwf x hx]
        by_cases hlo : x < offset
        · rw [if_pos hlo, if_pos hx]
        · rw [if_neg hlo, if_neg (by omega)]
    · rw [List.getElem?_eq_none (by rw [dpfsView_length _ _ hwf']; omega),
        List.getElem?_eq_none (by rw [overlay_length_inside _ _ _ (by rw [dpfsView_length _ _ hwf]; exact hin), dpfsView_length _ _ hwf]; omega)]
  · intro y hy
    apply h7
    intro x a b hc
    unfold scatter at hc
    rcases chunkOf_le dp (x / dp.lv3.bs) with h0 | h0 <;> rw [h0] at hc <;> omega

/-! ### the regular geometry, as propositions -/

structure GeomP (P : Bytes) (t : Tree) (master : List Bytes) : Prop where
  dpwf : DpWF P t.dp
  inside : ∀ i, i < 4 → t.internal i = true → (t.level i).offset + (t.level i).size ≤ t.dp.lv3.size
  ext : ∀ eo es, t.external = some (eo, es) → es = t.ivfc.lv4.size ∧ eo + es ≤ P.length ∧
    (eo + es ≤ t.dp.lv3.offset ∨ t.dp.lv3.offset + t.dp.lv3.size * 2 ≤ eo)
  apart : ∀ i j, i < 4 → j < 4 → i ≠ j → t.internal i = true → t.internal j = true →
    ((t.level i).offset + (t.level i).size ≤ (t.level j).offset ∨ (t.level j).offset + (t.level j).size ≤ (t.level i).offset)
  room : ∀ i, i < 3 → nblocks (t.level (i + 1)).size (t.level (i + 1)).bs * 0x20 ≤ (t.level i).size
  master : nblocks (t.level 0).size (t.level 0).bs ≤ master.length

theorem geomOK_spec (P : Bytes) (t : Tree) (master : List Bytes) (h : geomOK P t master = true) : GeomP P t master := by
  unfold geomOK at h
  simp only [Bool.and_eq_true, decide_eq_true_eq, List.all_eq_true, List.mem_range, Bool.or_eq_true, Bool.not_eq_true'] at h
  obtain ⟨⟨⟨⟨⟨⟨h1, h2⟩, h3⟩, h4⟩, h5⟩, h6⟩, h7⟩ := h
  refine ⟨⟨h1, h2⟩, ?_, ?_, ?_, h6, h7⟩
  · intro i hi hint
    rcases h3 i hi with h | h
    · rw [hint] at h; cases h
    · exact h
  · intro eo es he
    rw [he] at h4
    simp only [Bool.and_eq_true, decide_eq_true_eq] at h4
    exact ⟨h4.1.1, h4.1.2, h4.2⟩
  · intro i j hi hj hne hii hij
    rcases h5 i hi j hj with ((h | h) | h) | h
    · exact absurd h hne
    · rw [hii] at h; cases h
    · rw [hij] at h; cases h
    · unfold Tree.apart at h
      simpa using h

theorem geomP_treeWF (P : Bytes) (t : Tree) (master : List Bytes) (g : GeomP P t master) : TreeWF P t := by
  refine ⟨g.dpwf, ?_, ?_⟩
  · intro idx hext
    by_cases h3 : 3 ≤ idx
    · have hl : t.level idx = t.level 3 := by
        unfold Tree.level
        rw [if_neg (by omega), if_neg (by omega), if_neg (by omega)]
        rfl
      rw [hl]
      apply g.inside 3 (by omega)
      unfold Tree.internal
      rw [hext h3]; rfl
    · apply g.inside idx (by omega)
      unfold Tree.internal
      simp [h3]
  · intro eo es he
    exact ⟨(g.ext eo es he).1, (g.ext eo es he).2.1⟩

theorem internal_iff (t : Tree) (j : Nat) : t.internal j = true ↔ (if 3 ≤ j then t.external else none) = none := by
  unfold Tree.internal
  by_cases h3 : 3 ≤ j
  · rw [if_pos h3]
    cases t.external <;> simp [h3]
  · rw [if_neg h3]; simp [h3]

theorem levelBytes_internal (P : Bytes) (t : Tree) (j : Nat) (h : t.internal j = true) :
    levelBytes P t j = slice (dpfsView P t.dp) (t.level j).offset (t.level j).size := by
  unfold levelBytes levelFrom
  rw [(internal_iff t j).mp h]

theorem levelBytes_external (P : Bytes) (t : Tree) (j eo es : Nat) (h3 : 3 ≤ j) (he : t.external = some (eo, es)) :
    levelBytes P t j = slice (slice P eo es) 0 (t.level j).size := by
  unfold levelBytes levelFrom
  rw [if_pos h3, he]

theorem dpfsView_congr (P P' : Bytes) (dp : Dp) (hwf : DpWF P dp) (hlen : P'.length = P.length)
    (h : ∀ y, dp.lv3.offset ≤ y → y < dp.lv3.offset + dp.lv3.size * 2 → P'[y]? = P[y]?) : dpfsView P' dp = dpfsView P dp := by
  have hwf' : DpWF P' dp := ⟨hwf.bits, by rw [hlen]; exact hwf.inside⟩
  apply List.ext_getElem?
  intro x
  by_cases hx : x < dp.lv3.size
  · rw [dpfsView_getElem _ _ hwf' x hx, dpfsView_getElem _ _ hwf x hx]
    apply h
    · omega
    · rcases chunkOf_le dp (x / dp.lv3.bs) with h0 | h0 <;> rw [h0] <;> omega
  · rw [List.getElem?_eq_none (by rw [dpfsView_length _ _ hwf']; omega), List.getElem?_eq_none (by rw [dpfsView_length _ _ hwf]; omega)]

/-- **`level_fp.seek(off); level_fp.write(data)`** for a non-empty write inside level `idx`: that level becomes the old level
    with the data laid over it, the other levels and the geometry stay as they are, the file changes only inside the partition -/
theorem levelWrite_spec (w : Win) (t : Tree) (master : List Bytes) (g : GeomP w.bytes t master) (idx : Nat) (hidx : idx < 4)
    (off : Nat) (data : Bytes) (hne : data ≠ []) (hin : off + data.length ≤ (t.level idx).size)
    (n : Nat) (w' : Win) (h : levelWrite w t idx off data = .ok (n, w')) :
    w'.off = w.off ∧ w'.size = w.size ∧ w'.F.length = w.F.length ∧
      (∀ z, (z < w.off ∨ w.off + w.size ≤ z) → w'.F[z]? = w.F[z]?) ∧ w'.bytes.length = w.bytes.length ∧
      (∀ m, GeomP w.bytes t m → GeomP w'.bytes t m) ∧
      (∀ j, j < 4 → levelBytes w'.bytes t j = if j = idx then overlay (levelBytes w.bytes t idx) off data else levelBytes w.bytes t j) := by
  have hdl : 0 < data.length := by cases data with | nil => exact absurd rfl hne | cons a r => simp
  have htw := geomP_treeWF _ _ _ g
  unfold levelWrite at h
  simp only at h
  rw [Nat.min_eq_left (by omega : off ≤ (t.level idx).size), List.take_of_length_le (by omega)] at h
  cases hx : (if 3 ≤ idx then t.external else none) with
  | none =>
    rw [hx] at h
    simp only at h
    have hint : t.internal idx = true := (internal_iff t idx).mpr hx
    have hins := g.inside idx hidx hint
    rw [Nat.min_eq_left (by omega)] at h
    obtain ⟨v1, v2, v3, v4, v5, v6, v7, v8⟩ := dpWrite_view w t.dp g.dpwf _ data hne (by omega) w' n h
    have hbl : w'.bytes.length = w.bytes.length := by rw [Win.bytes_length, Win.bytes_length, v2, v3, v4]
    have hVl := dpfsView_length _ _ g.dpwf
    refine ⟨v2, v3, v4, v5, hbl, ?_, ?_⟩
    · intro m gm
      exact ⟨v6, gm.inside, fun eo es he => by rw [hbl]; exact gm.ext eo es he, gm.apart, gm.room, gm.master⟩
    · intro j hj
      by_cases hji : j = idx
      · subst hji
        rw [if_pos rfl, levelBytes_internal _ _ _ hint, levelBytes_internal _ _ _ hint, v7,
          slice_overlay_window _ _ _ _ _ hin (by rw [hVl]; exact hins)]
      · rw [if_neg hji]
        by_cases hjint : t.internal j = true
        · rw [levelBytes_internal _ _ _ hjint, levelBytes_internal _ _ _ hjint, v7]
          apply slice_overlay_disjoint'
          · rcases g.apart j idx hj hidx hji hjint hint with ha | ha
            · left; omega
            · right; omega
          · rw [hVl]; omega
        · have hjx : (if 3 ≤ j then t.external else none) ≠ none := fun hc => hjint ((internal_iff t j).mpr hc)
          have h3 : 3 ≤ j := by
            by_cases h3 : 3 ≤ j
            · exact h3
            · rw [if_neg h3] at hjx; exact absurd rfl hjx
          rw [if_pos h3] at hjx
          cases he : t.external with
          | none => exact absurd he hjx
          | some p =>
            obtain ⟨eo, es⟩ := p
            obtain ⟨e1, e2, e3⟩ := g.ext eo es he
            rw [levelBytes_external _ _ _ _ _ h3 he, levelBytes_external _ _ _ _ _ h3 he]
            congr 1
            apply slice_congr
            intro i hi1 hi2
            apply v8
            omega
  | some p =>
    obtain ⟨eo, es⟩ := p
    rw [hx] at h
    simp only at h
    have h3 : 3 ≤ idx := by
      by_cases h3 : 3 ≤ idx
      · exact h3
      · rw [if_neg h3] at hx; cases hx
    rw [if_pos h3] at hx
    obtain ⟨e1, e2, e3⟩ := g.ext eo es hx
    have hl : (t.level idx).size = es := by
      rw [e1]; unfold Tree.level
      rw [if_neg (by omega), if_neg (by omega), if_neg (by omega)]
    rw [Nat.min_eq_left (by omega : off ≤ es), List.take_of_length_le (by omega)] at h
    have hpair := Except.ok.inj h
    have hw : (w.write (eo + off) data).2 = w' := by rw [hpair]
    obtain ⟨s1, s2, s3, s4, s5, s6⟩ := Win.write_spec w (eo + off) data (by omega)
    rw [hw] at s2 s3 s4 s5 s6
    have hbl : w'.bytes.length = w.bytes.length := by rw [Win.bytes_length, Win.bytes_length, s3, s4, s5]
    have hdpv : dpfsView w'.bytes t.dp = dpfsView w.bytes t.dp := by
      apply dpfsView_congr _ _ _ g.dpwf hbl
      intro y hy1 hy2
      rw [s2, overlay_getElem?]
      by_cases hlo : y < eo + off
      · rw [if_pos hlo, if_pos (by omega)]
      · rw [if_neg hlo, if_neg (by omega)]
    refine ⟨s3, s4, s5, s6, hbl, ?_, ?_⟩
    · intro m gm
      exact ⟨⟨gm.dpwf.bits, by rw [hbl]; exact gm.dpwf.inside⟩, gm.inside, fun eo es he => by rw [hbl]; exact gm.ext eo es he,
        gm.apart, gm.room, gm.master⟩
    · intro j hj
      by_cases hji : j = idx
      · subst hji
        rw [if_pos rfl, levelBytes_external _ _ _ _ _ h3 hx, levelBytes_external _ _ _ _ _ h3 hx, hl, s2]
        have hsl : (slice w.bytes eo es).length = es := by rw [slice_length]; omega
        rw [slice_overlay_window' _ _ _ _ _ (by omega), slice_all _ _ (by rw [overlay_length_inside _ _ _ (by omega), hsl]; omega),
          slice_all _ _ (by omega)]
      · rw [if_neg hji]
        have hjint : t.internal j = true := by
          unfold Tree.internal
          have : ¬ 3 ≤ j := by omega
          simp [this]
        rw [levelBytes_internal _ _ _ hjint, levelBytes_internal _ _ _ hjint, hdpv]

/-- the sequential re-read of the touched blocks yields the hashes of those blocks of the level -/
theorem reread_spec (H : Bytes → Bytes) (P : Bytes) (t : Tree) (hwf : TreeWF P t) (idx sb n : Nat)
    (hvalid : ∀ i, i < n → (sb + i) * (t.level idx).bs < (t.level idx).size) :
    rereadBlocks H P t idx sb n = .ok (blockHashes H (levelBytes P t idx) (t.level idx).bs sb n) := by
  have hbs := (t.level idx).bs_pos
  have hAl := levelBytes_length P t hwf idx
  generalize hA : levelBytes P t idx = A at hAl
  generalize hbsv : (t.level idx).bs = bs at *
  generalize hsz : (t.level idx).size = size at *
  have key : ∀ k, k ≤ n → (List.range k).foldl (rereadStep H P t idx) (.ok (min (sb * bs) size, [])) =
      .ok (min ((sb + k) * bs) size, blockHashes H A bs sb k) := by
    intro k
    induction k with
    | zero => intro _; simp [blockHashes]
    | succ k ih =>
      intro hk
      rw [List.range_succ, List.foldl_append, ih (by omega)]
      simp only [List.foldl_cons, List.foldl_nil]
      have hv := hvalid k (by omega)
      unfold rereadStep
      simp only
      rw [levelRead_spec P t hwf, hA, hbsv]
      simp only
      rw [Nat.min_eq_left (by omega : (sb + k) * bs ≤ size)]
      congr 2
      · rw [slice_length, hAl]
        rw [show (sb + (k + 1)) * bs = (sb + k) * bs + bs by rw [← Nat.add_assoc, Nat.succ_mul]]
        omega
      · unfold blockHashes
        rw [List.range_succ, List.map_append]
        simp
  unfold rereadBlocks
  rw [hbsv, hsz, key n (Nat.le_refl _)]
  rfl

/-- the four hash-tree levels of a partition, as the array-level specification sees them -/
def Lof (P : Bytes) (t : Tree) : Nat → Bytes := fun j => if j < 4 then levelBytes P t j else []

theorem Lof_update (P P' : Bytes) (t : Tree) (idx : Nat) (hidx : idx < 4) (A' : Bytes)
    (h : ∀ j, j < 4 → levelBytes P' t j = if j = idx then A' else levelBytes P t j) :
    (fun j => if j = idx then A' else Lof P t j) = Lof P' t := by
  funext j
  unfold Lof
  by_cases hj : j < 4
  · rw [if_pos hj, if_pos hj, h j hj]
  · rw [if_neg hj, if_neg hj, if_neg (by omega)]

/-- **refinement**: on a regular geometry the model's `IVFCHashTree.write_data` computes, on the levels of the partition and the
    master hashes, exactly what the array-level `absWrite` computes; outside the partition window the file is untouched -/
theorem writeData_refines (H : Bytes → Bytes) (t : Tree) (hH : ∀ x, (H x).length = 0x20) :
    ∀ (idx : Nat), idx < 4 → ∀ (offset : Nat) (data : Bytes) (s s' : WState),
      GeomP s.w.bytes t s.master → data ≠ [] → offset + data.length ≤ (t.level idx).size →
      writeData H t idx offset data s = .ok s' →
      absWrite H (fun i => (t.level i).bs) idx offset data (Lof s.w.bytes t, s.master) = .ok (Lof s'.w.bytes t, s'.master) ∧
        s'.w.off = s.w.off ∧ s'.w.size = s.w.size ∧ s'.w.F.length = s.w.F.length ∧
        (∀ z, (z < s.w.off ∨ s.w.off + s.w.size ≤ z) → s'.w.F[z]? = s.w.F[z]?) ∧
        (∀ m, GeomP s.w.bytes t m → GeomP s'.w.bytes t m) := by
  intro idx
  induction idx with
  | zero =>
    intro _ offset data s s' g hne hin h
    have hdl : 0 < data.length := by cases data with | nil => exact absurd rfl hne | cons a r => simp
    have htw := geomP_treeWF _ _ _ g
    unfold writeData at h
    simp only at h
    cases hlw : levelWrite s.w t 0 offset data with
    | error e => rw [hlw] at h; cases h
    | ok r =>
      obtain ⟨n, w'⟩ := r
      rw [hlw] at h
      simp only at h
      obtain ⟨l1, l2, l3, l4, l5, l6, l7⟩ := levelWrite_spec s.w t s.master g 0 (by omega) offset data hne hin n w' hlw
      have g' := l6 _ g
      have htw' := geomP_treeWF _ _ _ g'
      obtain ⟨r1, r2, r3, r4⟩ := touched_range offset data.length (t.level 0).bs (t.level 0).bs_pos hdl
      rw [reread_spec H w'.bytes t htw' 0 _ _ (fun i hi => by
        have : (offset / (t.level 0).bs + i) * (t.level 0).bs ≤
            max ((offset + data.length + (t.level 0).bs - 1) / (t.level 0).bs - 1) (offset / (t.level 0).bs) * (t.level 0).bs :=
          Nat.mul_le_mul_right _ (by omega)
        omega)] at h
      simp only at h
      have hA : levelBytes w'.bytes t 0 = overlay (levelBytes s.w.bytes t 0) offset data := by rw [l7 0 (by omega), if_pos rfl]
      by_cases herr : offset / (t.level 0).bs + (blockHashes H (levelBytes w'.bytes t 0) (t.level 0).bs (offset / (t.level 0).bs)
          (max ((offset + data.length + (t.level 0).bs - 1) / (t.level 0).bs - 1) (offset / (t.level 0).bs) + 1 - offset / (t.level 0).bs)).length > s.master.length
      · rw [if_pos herr] at h; cases h
      · rw [if_neg herr] at h
        simp only [Except.ok.injEq] at h
        subst h
        refine ⟨?_, l1, l2, l3, l4, l6⟩
        unfold absWrite
        simp only
        have hL0 : Lof s.w.bytes t 0 = levelBytes s.w.bytes t 0 := by unfold Lof; rw [if_pos (by omega)]
        rw [hL0, absLevelWrite_in _ _ _ (by rw [levelBytes_length _ _ htw]; exact hin), ← hA, if_neg herr]
        congr 2
        exact Lof_update _ _ t 0 (by omega) _ (by rw [hA]; exact l7)
  | succ up ih =>
    intro hidx offset data s s' g hne hin h
    have hdl : 0 < data.length := by cases data with | nil => exact absurd rfl hne | cons a r => simp
    have htw := geomP_treeWF _ _ _ g
    rw [writeData] at h
    cases hlw : levelWrite s.w t (up + 1) offset data with
    | error e => rw [hlw] at h; cases h
    | ok r =>
      obtain ⟨n, w'⟩ := r
      rw [hlw] at h
      simp only at h
      obtain ⟨l1, l2, l3, l4, l5, l6, l7⟩ := levelWrite_spec s.w t s.master g (up + 1) hidx offset data hne hin n w' hlw
      have g' := l6 _ g
      have htw' := geomP_treeWF _ _ _ g'
      obtain ⟨r1, r2, r3, r4⟩ := touched_range offset data.length (t.level (up + 1)).bs (t.level (up + 1)).bs_pos hdl
      generalize hsb : offset / (t.level (up + 1)).bs = sb at *
      generalize heb : max ((offset + data.length + (t.level (up + 1)).bs - 1) / (t.level (up + 1)).bs - 1) sb = eb at *
      rw [reread_spec H w'.bytes t htw' (up + 1) _ _ (fun i hi => by
        have : (sb + i) * (t.level (up + 1)).bs ≤ eb * (t.level (up + 1)).bs := Nat.mul_le_mul_right _ (by omega)
        omega)] at h
      simp only at h
      have hA : levelBytes w'.bytes t (up + 1) = overlay (levelBytes s.w.bytes t (up + 1)) offset data := by
        rw [l7 (up + 1) hidx, if_pos rfl]
      have hhl : ∀ x, x ∈ blockHashes H (levelBytes w'.bytes t (up + 1)) (t.level (up + 1)).bs sb (eb + 1 - sb) → x.length = 0x20 := by
        intro x hx
        simp only [blockHashes, List.mem_map] at hx
        obtain ⟨i, _, hi⟩ := hx
        rw [← hi]; exact hH _
      have hHF := flatten_hash_length _ hhl
      rw [blockHashes_length] at hHF
      have hebn : eb < nblocks (t.level (up + 1)).size (t.level (up + 1)).bs := lt_nblocks _ _ _ (t.level (up + 1)).bs_pos (by omega)
      have hroom := g.room up (by omega)
      have hfit : sb * 0x20 + (eb + 1 - sb) * 0x20 ≤ (t.level up).size := by
        have : sb * 0x20 + (eb + 1 - sb) * 0x20 = (eb + 1) * 0x20 := by rw [← Nat.add_mul]; congr 1; omega
        have : (eb + 1) * 0x20 ≤ nblocks (t.level (up + 1)).size (t.level (up + 1)).bs * 0x20 := Nat.mul_le_mul_right _ (by omega)
        omega
      obtain ⟨i1, i2, i3, i4, i5, i6⟩ := ih (by omega) (sb * 0x20) _ _ s' g'
        (by intro hc; have := congrArg List.length hc; rw [hHF] at this; simp at this; omega)
        (by rw [hHF]; exact hfit) h
      simp only at i2 i3 i4 i5 i6
      refine ⟨?_, by rw [i2, l1], by rw [i3, l2], by rw [i4, l3], fun z hz => by rw [i5 z (by rw [l1, l2]; exact hz), l4 z hz],
        fun m gm => i6 m (l6 m gm)⟩
      rw [absWrite]
      have hL : Lof s.w.bytes t (up + 1) = levelBytes s.w.bytes t (up + 1) := by unfold Lof; rw [if_pos hidx]
      rw [hL, absLevelWrite_in _ _ _ (by rw [levelBytes_length _ _ htw]; exact hin), ← hA, hsb, heb,
        Lof_update _ _ t (up + 1) hidx _ (by rw [hA]; exact l7)]
      exact i1

theorem wr_frame (F : Bytes) (pos : Nat) (d : Bytes) (B : Nat) (h : pos + d.length ≤ B) (hB : B ≤ F.length) :
    (if d.isEmpty then F else overlay F pos d).length = F.length ∧
      ∀ z, B ≤ z → (if d.isEmpty then F else overlay F pos d)[z]? = F[z]? := by
  by_cases he : d.isEmpty = true
  · rw [if_pos he]; exact ⟨rfl, fun _ _ => rfl⟩
  · rw [if_neg he]
    refine ⟨overlay_length_inside _ _ _ (by omega), fun z hz => ?_⟩
    rw [overlay_getElem?, if_neg (by omega), if_neg (by omega)]

/-- `_update_hashes` after the descriptor has been written: header hash field, header copy, CMAC -/
def stage2 (H : Bytes → Bytes) (mac : Bytes → Bytes → Bytes) (cm : Option CmacScheme) (header : Bytes) (hoff : Nat) (F1 dg : Bytes) :
    Except Err (Bytes × Bytes) :=
  match cm with
  | none => .ok ((if (assign header hoff dg).isEmpty then F1 else overlay F1 0x100 (assign header hoff dg)), assign header hoff dg)
  | some sch =>
    match genCmac H mac sch (assign header hoff dg) with
    | .error e => .error e
    | .ok m => .ok ((if m.isEmpty then (if (assign header hoff dg).isEmpty then F1 else overlay F1 0x100 (assign header hoff dg))
        else overlay (if (assign header hoff dg).isEmpty then F1 else overlay F1 0x100 (assign header hoff dg)) 0 m), assign header hoff dg)

theorem updateHashes_diff_eq (H : Bytes → Bytes) (mac : Bytes → Bytes → Bytes) (cm : Option CmacScheme) (c : Cont) (F : Bytes)
    (p : PartSt) (pd : Bytes) (hk : c.kind = .diff) :
    updateHashes H mac cm c F p pd = stage2 H mac cm c.header 0x34 (if pd.isEmpty then F else overlay F c.tableOff pd) (H pd) := by
  unfold updateHashes stage2
  simp only [hk]
  cases cm <;> rfl

theorem updateHashes_disa_eq (H : Bytes → Bytes) (mac : Bytes → Bytes → Bytes) (cm : Option CmacScheme) (c : Cont) (F : Bytes)
    (p : PartSt) (pd : Bytes) (hk : c.kind = .disa) :
    updateHashes H mac cm c F p pd = stage2 H mac cm c.header 0x6C (if pd.isEmpty then F else overlay F (c.tableOff + p.descOff) pd)
      (H (slice (if pd.isEmpty then F else overlay F (c.tableOff + p.descOff) pd) c.tableOff c.tableSize)) := by
  unfold updateHashes stage2
  simp only [hk]
  cases cm <;> rfl

theorem stage2_frame (H : Bytes → Bytes) (mac : Bytes → Bytes → Bytes) (cm : Option CmacScheme) (header : Bytes) (hoff : Nat)
    (F1 dg F' header' : Bytes) (B : Nat) (hB1 : 0x200 ≤ B) (hBF : B ≤ F1.length) (hh : header.length = 0x100)
    (hoffle : hoff + 0x20 ≤ 0x100) (hdl : dg.length = 0x20) (hmac : ∀ k x, (mac k x).length = 0x10)
    (h : stage2 H mac cm header hoff F1 dg = .ok (F', header')) :
    F'.length = F1.length ∧ ∀ z, B ≤ z → F'[z]? = F1[z]? := by
  obtain ⟨_, hl⟩ := assign_slice header hoff dg (by omega)
  obtain ⟨f2l, f2f⟩ := wr_frame F1 0x100 (assign header hoff dg) B (by omega) hBF
  unfold stage2 at h
  cases cm with
  | none =>
    simp only [Except.ok.injEq, Prod.mk.injEq] at h
    obtain ⟨h1, _⟩ := h
    rw [← h1]
    exact ⟨f2l, f2f⟩
  | some sch =>
    simp only at h
    cases hg : genCmac H mac sch (assign header hoff dg) with
    | error e => rw [hg] at h; cases h
    | ok m =>
      rw [hg] at h
      have hml := genCmac_length H mac sch _ m hmac hg
      simp only [Except.ok.injEq, Prod.mk.injEq] at h
      obtain ⟨h1, _⟩ := h
      rw [← h1]
      obtain ⟨f3l, f3f⟩ := wr_frame (if (assign header hoff dg).isEmpty then F1 else overlay F1 0x100 (assign header hoff dg)) 0 m B
        (by omega) (by omega)
      exact ⟨by rw [f3l, f2l], fun z hz => by rw [f3f z hz, f2f z hz]⟩

/-- the descriptor / header / CMAC update only writes below `B` when the header area and the (re-serialised) descriptor end
    below `B`: in particular it leaves a partition that starts at or after `B` alone -/
theorem updateHashes_frame (H : Bytes → Bytes) (mac : Bytes → Bytes → Bytes) (cm : Option CmacScheme) (c : Cont) (F : Bytes)
    (p : PartSt) (pd : Bytes) (F' header' : Bytes) (B : Nat) (hB1 : 0x200 ≤ B) (hB2 : c.tableOff + p.descOff + pd.length ≤ B)
    (hBF : B ≤ F.length) (hh : c.header.length = 0x100) (hH : ∀ x, (H x).length = 0x20) (hmac : ∀ k x, (mac k x).length = 0x10)
    (h : updateHashes H mac cm c F p pd = .ok (F', header')) :
    F'.length = F.length ∧ ∀ z, B ≤ z → F'[z]? = F[z]? := by
  cases hk : c.kind with
  | diff =>
    rw [updateHashes_diff_eq H mac cm c F p pd hk] at h
    obtain ⟨a, b⟩ := wr_frame F c.tableOff pd B (by omega) hBF
    obtain ⟨a2, b2⟩ := stage2_frame H mac cm c.header 0x34 _ _ F' header' B hB1 (by rw [a]; exact hBF) hh (by omega) (hH _) hmac h
    exact ⟨by rw [a2, a], fun z hz => by rw [b2 z hz, b z hz]⟩
  | disa =>
    rw [updateHashes_disa_eq H mac cm c F p pd hk] at h
    obtain ⟨a, b⟩ := wr_frame F (c.tableOff + p.descOff) pd B (by omega) hBF
    obtain ⟨a2, b2⟩ := stage2_frame H mac cm c.header 0x6C _ _ F' header' B hB1 (by rw [a]; exact hBF) hh (by omega) (hH _) hmac h
    exact ⟨by rw [a2, a], fun z hz => by rw [b2 z hz, b z hz]⟩

/-- **C18, hash path and frame, on the container model.**  A non-empty write through the verified level-4 view of partition
    `pi`, on a regular geometry, with the header, the tables and the re-serialised descriptor lying below `Bd ≤` the partition:
    level 4 becomes the old level 4 with the (clamped) data laid over it at the reader's position; every level-4 block that was
    touched, or whose chain was intact, has an intact chain up to the new master hashes; and no byte of the file at or after `Bd`
    outside the partition's window changes. -/
theorem lv4Write_hash_path (H : Bytes → Bytes) (mac : Bytes → Bytes → Bytes) (cm : Option CmacScheme) (c : Cont) (pi : Nat)
    (p : PartSt) (hp : c.parts[pi]? = some p) (data : Bytes) (n : Nat) (c' : Cont)
    (hH : ∀ x, (H x).length = 0x20) (hmac : ∀ k x, (mac k x).length = 0x10) (hnz : ¬ ZeroHash H) (hh : c.header.length = 0x100)
    (hg : geomOK (p.P c.F) p.tree p.master = true) (hne : writeClamp p data ≠ [])
    (Bd : Nat) (hB1 : 0x200 ≤ Bd) (hB2 : Bd ≤ p.pOff) (hB3 : p.pOff ≤ c.F.length)
    (hdesc : ∀ m pd, partdescToBytes ⟨p.difi, p.ivfc, p.dpfs, m⟩ p.descSize = some pd → c.tableOff + p.descOff + pd.length ≤ Bd)
    (h : lv4Write H mac cm c pi data = .ok (n, c')) :
    ∃ p', c'.parts[pi]? = some p' ∧ p'.tree = p.tree ∧ p'.pOff = p.pOff ∧ p'.pSize = p.pSize ∧
      Lof (p'.P c'.F) p.tree 3 = overlay (Lof (p.P c.F) p.tree 3) p.seek (writeClamp p data) ∧
      (∀ b, b * (p.tree.level 3).bs < (Lof (p.P c.F) p.tree 3).length →
        (touched p.seek (writeClamp p data).length (p.tree.level 3).bs b ∨ chainOK H p.bsOf p.master (Lof (p.P c.F) p.tree) 3 b) →
        chainOK H p.bsOf p'.master (Lof (p'.P c'.F) p.tree) 3 b) ∧
      c'.F.length = c.F.length ∧
      (∀ z, Bd ≤ z → (z < p.pOff ∨ p.pOff + p.pSize ≤ z) → c'.F[z]? = c.F[z]?) := by
  have g := geomOK_spec _ _ _ hg
  have htw := geomP_treeWF _ _ _ g
  have hplt : pi < c.parts.length := by
    rcases Nat.lt_or_ge pi c.parts.length with hl | hl
    · exact hl
    · rw [List.getElem?_eq_none hl] at hp; cases hp
  unfold lv4Write at h
  rw [hp] at h
  simp only at h
  unfold writeClamp at hne ⊢
  generalize hd : (if p.seek + data.length > p.ivfc.lv4.size then data.take (p.ivfc.lv4.size - p.seek) else data) = d at h hne ⊢
  have hde : d.isEmpty = false := by cases d with | nil => exact absurd rfl hne | cons _ _ => rfl
  rw [hde] at h
  simp only [Bool.false_eq_true, if_false] at h
  by_cases hw : (!c.writable) = true
  · rw [if_pos hw] at h; cases h
  · rw [if_neg hw] at h
    have hlv4 : (p.tree.level 3).size = p.ivfc.lv4.size := rfl
    have hdin : p.seek + d.length ≤ (p.tree.level 3).size := by
      rw [hlv4, ← hd]
      by_cases hc : p.seek + data.length > p.ivfc.lv4.size
      · rw [if_pos hc, List.length_take]
        have : d.length ≠ 0 := by intro h0; exact hne (List.eq_nil_of_length_eq_zero h0)
        rw [← hd, if_pos hc, List.length_take] at this
        omega
      · rw [if_neg hc]; omega
    cases hwd : writeData H p.tree 3 p.seek d ⟨⟨c.F, p.pOff, p.pSize⟩, p.master, p.caches, false⟩ with
    | error e => rw [hwd] at h; cases h
    | ok s =>
      rw [hwd] at h
      simp only at h
      have hPeq : (⟨c.F, p.pOff, p.pSize⟩ : Win).bytes = p.P c.F := rfl
      obtain ⟨r1, r2, r3, r4, r5, r6⟩ := writeData_refines H p.tree hH 3 (by omega) p.seek d _ s (by rw [hPeq]; exact g) hne hdin hwd
      simp only at r2 r3 r4 r5 r6
      rw [hPeq] at r1 r6
      have hdl : 0 < d.length := by cases d with | nil => exact absurd rfl hne | cons a r => simp
      have hL3 : (Lof (p.P c.F) p.tree 3).length = (p.tree.level 3).size := by
        unfold Lof; rw [if_pos (by omega)]; exact levelBytes_length _ _ htw 3
      obtain ⟨a1, a2, a3, a4, a5⟩ := absWrite_chain H (fun i => (p.tree.level i).bs) (fun i => (p.tree.level i).bs_pos) hH hnz 3 p.seek d
        (Lof (p.P c.F) p.tree) p.master (Lof s.w.bytes p.tree) s.master hdl (by rw [hL3]; exact hdin)
        (by
          intro i hi
          unfold Lof
          rw [if_pos (by omega), if_pos (by omega), levelBytes_length _ _ htw, levelBytes_length _ _ htw]
          exact g.room i hi) r1
      -- whatever the descriptor update does, the partition window reads the same afterwards
      have hfin : ∀ F'', F''.length = s.w.F.length → (∀ z, Bd ≤ z → F''[z]? = s.w.F[z]?) →
          slice F'' p.pOff p.pSize = s.w.bytes := by
        intro F'' _ hfr
        unfold Win.bytes
        rw [r2, r3]
        apply slice_congr
        intro i hi1 _
        exact hfr i (by omega)
      have hpres : ∀ F'', F''.length = s.w.F.length → (∀ z, Bd ≤ z → F''[z]? = s.w.F[z]?) →
          ∃ p', (c.parts.set pi { p with master := s.master, caches := s.caches, seek := p.seek + d.length })[pi]? = some p' ∧
            p'.tree = p.tree ∧ p'.pOff = p.pOff ∧ p'.pSize = p.pSize ∧
            Lof (p'.P F'') p.tree 3 = overlay (Lof (p.P c.F) p.tree 3) p.seek d ∧
            (∀ b, b * (p.tree.level 3).bs < (Lof (p.P c.F) p.tree 3).length →
              (touched p.seek d.length (p.tree.level 3).bs b ∨ chainOK H p.bsOf p.master (Lof (p.P c.F) p.tree) 3 b) →
              chainOK H p.bsOf p'.master (Lof (p'.P F'') p.tree) 3 b) ∧
            F''.length = c.F.length ∧
            (∀ z, Bd ≤ z → (z < p.pOff ∨ p.pOff + p.pSize ≤ z) → F''[z]? = c.F[z]?) := by
        intro F'' hl hfr
        refine ⟨_, List.getElem?_set_self hplt, rfl, rfl, rfl, ?_, ?_, by rw [hl, r4], ?_⟩
        · show Lof (slice F'' p.pOff p.pSize) p.tree 3 = _
          rw [hfin F'' hl hfr]; exact a2
        · intro b hb1 hb2
          show chainOK H p.bsOf s.master (Lof (slice F'' p.pOff p.pSize) p.tree) 3 b
          rw [hfin F'' hl hfr]
          exact a5 b hb1 hb2
        · intro z hz1 hz2
          rw [hfr z hz1, r5 z hz2]
      by_cases hmt : s.masterTouched = true
      · rw [if_pos hmt] at h
        cases hpd : partdescToBytes ⟨p.difi, p.ivfc, p.dpfs, s.master⟩ p.descSize with
        | none => rw [hpd] at h; cases h
        | some pd =>
          rw [hpd] at h
          simp only at h
          cases hu : updateHashes H mac cm c s.w.F p pd with
          | error e => rw [hu] at h; cases h
          | ok r =>
            obtain ⟨F'', header'⟩ := r
            rw [hu] at h
            simp only [Except.ok.injEq, Prod.mk.injEq] at h
            obtain ⟨_, hc'⟩ := h
            rw [← hc']
            obtain ⟨f1, f2⟩ := updateHashes_frame H mac cm c s.w.F p pd F'' header' Bd hB1 (hdesc _ _ hpd) (by rw [r4]; omega) hh hH hmac hu
            exact hpres F'' f1 f2
      · rw [if_neg hmt] at h
        simp only [Except.ok.injEq, Prod.mk.injEq] at h
        obtain ⟨_, hc'⟩ := h
        rw [← hc']
        exact hpres s.w.F rfl (fun _ _ => rfl)

end Save
end Pyctr
