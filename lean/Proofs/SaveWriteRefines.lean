/-
  C18 (refinement): the DPFS-backed write path of the model (`dpWrite`, `levelWrite`, `rereadBlocks`, `writeData`) computes what
  the array-level specification `absWrite` computes, under the regular geometry `geomOK`.
-/
import Proofs.SaveHashPath
import Proofs.SaveWrite
namespace Pyctr
namespace Save

/-- where byte `x` of the DPFS level-3 view is stored in the partition: in the copy its block's level-2 bit selects -/
def scatter (dp : Dp) (x : Nat) : Nat := dp.lv3.offset + chunkOf dp (x / dp.lv3.bs) + x

theorem chunkOf_le (dp : Dp) (b : Nat) : chunkOf dp b = 0 ∨ chunkOf dp b = dp.lv3.size := by
  unfold chunkOf; split <;> simp

theorem scatter_inj (dp : Dp) (x x' : Nat) (hx : x < dp.lv3.size) (hx' : x' < dp.lv3.size) (h : scatter dp x = scatter dp x') : x = x' := by
  unfold scatter at h
  rcases chunkOf_le dp (x / dp.lv3.bs) with h1 | h1 <;> rcases chunkOf_le dp (x' / dp.lv3.bs) with h2 | h2 <;> rw [h1, h2] at h <;> omega

theorem overlay_nil (d : Bytes) (a : Nat) (h : a ≤ d.length) : overlay d a [] = d := by
  unfold overlay
  rw [show a - d.length = 0 by omega]
  simp [zeros]

theorem slice_overlay_window' (d : Bytes) (off size p : Nat) (w : Bytes) (hw : p + w.length ≤ min size (d.length - off)) :
    slice (overlay d (off + p) w) off size = overlay (slice d off size) p w := by
  apply List.ext_getElem?; intro i
  simp only [slice_getElem?, overlay_getElem?, slice_length]
  by_cases hi : i < size
  · simp only [hi, if_true]
    by_cases h1 : i < p
    · simp [h1, show off + i < off + p by omega, show off + i < d.length by omega,
        show i < min size (d.length - off) by omega]
    · by_cases h2 : i < p + w.length
      · simp only [h1, h2, show ¬ off + i < off + p by omega, show off + i < off + p + w.length by omega,
          if_true, if_false]
        congr 1; omega
      · simp [h1, h2, show ¬ off + i < off + p by omega, show ¬ off + i < off + p + w.length by omega]
  · simp only [hi, if_false]
    rw [if_neg (by omega), if_neg (by omega)]

/-- a write through the partition window, when it fits: the window's bytes get the data laid over them, the file outside the
    window and all sizes stay as they are -/
theorem Win.write_spec (w : Win) (pos : Nat) (piece : Bytes) (h : pos + piece.length ≤ w.bytes.length) :
    (w.write pos piece).1 = piece.length ∧ (w.write pos piece).2.bytes = overlay w.bytes pos piece ∧
      (w.write pos piece).2.off = w.off ∧ (w.write pos piece).2.size = w.size ∧
      (w.write pos piece).2.F.length = w.F.length ∧
      ∀ z, (z < w.off ∨ w.off + w.size ≤ z) → (w.write pos piece).2.F[z]? = w.F[z]? := by
  have hb : w.bytes.length = min w.size (w.F.length - w.off) := by unfold Win.bytes; rw [slice_length]
  unfold Win.write
  simp only
  rw [Nat.min_eq_left (by omega), List.take_of_length_le (by omega)]
  by_cases he : piece.isEmpty = true
  · rw [if_pos he]
    simp only [List.isEmpty_iff] at he
    subst he
    refine ⟨by simp, ?_, by simp, by simp, by simp, fun _ _ => by simp⟩
    rw [overlay_nil _ _ (by simpa using h)]
  · rw [if_neg he]
    have hpl : 0 < piece.length := by
      cases piece with
      | nil => simp at he
      | cons a r => simp
    refine ⟨by simp, ?_, by simp, by simp, ?_, ?_⟩
    · unfold Win.bytes
      simp only
      rw [Nat.add_comm w.off pos, Nat.add_comm pos w.off, slice_overlay_window' _ _ _ _ _ (by omega)]
    · simp only
      rw [overlay_length]; omega
    · intro z hz
      simp only
      rw [overlay_getElem?]
      rcases hz with hz | hz
      · rw [if_pos (by omega), if_pos (by omega)]
      · rw [if_neg (by omega), if_neg (by omega)]

/-- state of the block loop of `DPFSLevel3.write_data` after `k` blocks: `padded = zeros(fbo) ++ data` starts at view position
    `sb * bs`; everything of it that lies in the first `k` blocks (and at or after `offset`) has been written to the copies the
    level-2 bits select; nothing else has changed -/
structure DpInv (w0 : Win) (dp : Dp) (sb : Nat) (padded : Bytes) (offset k : Nat) (w : Win) : Prop where
  off : w.off = w0.off
  size : w.size = w0.size
  flen : w.F.length = w0.F.length
  outside : ∀ z, (z < w0.off ∨ w0.off + w0.size ≤ z) → w.F[z]? = w0.F[z]?
  written : ∀ x, offset ≤ x → x < sb * dp.lv3.bs + min padded.length (k * dp.lv3.bs) →
    w.bytes[scatter dp x]? = padded[x - sb * dp.lv3.bs]?
  frame : ∀ y, (∀ x, offset ≤ x → x < sb * dp.lv3.bs + min padded.length (k * dp.lv3.bs) → y ≠ scatter dp x) →
    w.bytes[y]? = w0.bytes[y]?

theorem Win.bytes_length (w : Win) : w.bytes.length = min w.size (w.F.length - w.off) := by
  unfold Win.bytes; rw [slice_length]

theorem dpInv_step (w0 : Win) (dp : Dp) (hwf : DpWF w0.bytes dp) (sb fbo : Nat) (padded : Bytes) (k tot : Nat) (w : Win)
    (hfbo : fbo < dp.lv3.bs) (hpl : fbo < padded.length) (hin : sb * dp.lv3.bs + padded.length ≤ dp.lv3.size)
    (hk : k * dp.lv3.bs < padded.length) (hinv : DpInv w0 dp sb padded (sb * dp.lv3.bs + fbo) k w) :
    ∃ n w', dpWriteStep dp sb fbo padded (.ok (tot, w)) k = .ok (tot + n, w') ∧
      DpInv w0 dp sb padded (sb * dp.lv3.bs + fbo) (k + 1) w' ∧
      n = min padded.length ((k + 1) * dp.lv3.bs) - max fbo (k * dp.lv3.bs) := by
  have hbs := dp.lv3.bs_pos
  generalize hbsv : dp.lv3.bs = bs at *
  generalize hszv : dp.lv3.size = size at *
  have hsk : (sb + k) * bs = sb * bs + k * bs := Nat.add_mul _ _ _
  have hk1 : (k + 1) * bs = k * bs + bs := Nat.succ_mul _ _
  -- the block has a level-2 bit
  have hblk : sb + k < nblocks size bs := lt_nblocks _ _ _ hbs (by rw [hsk]; omega)
  obtain ⟨act, hact⟩ := activeBit_isSome dp.lv2bits (sb + k) (Nat.lt_of_lt_of_le (by rw [← hbsv, ← hszv] at hblk; exact hblk) hwf.bits)
  have hchunk : chunkOf dp (sb + k) = if act then size else 0 := by
    unfold chunkOf; rw [hact, hszv]; cases act <;> simp
  generalize hc : chunkOf dp (sb + k) = c at hchunk
  have hcle : c = 0 ∨ c = size := by cases act <;> simp at hchunk <;> omega
  -- the piece of this block
  generalize hs : (if k = 0 then fbo else 0) = sk
  have hsk0 : sk = fbo ∧ k = 0 ∨ sk = 0 ∧ 0 < k := by
    by_cases h0 : k = 0
    · rw [if_pos h0] at hs; left; exact ⟨hs.symm, h0⟩
    · rw [if_neg h0] at hs; right; exact ⟨hs.symm, by omega⟩
  have hpiece : (if k = 0 then (slice padded (k * bs) bs).drop fbo else slice padded (k * bs) bs) = slice padded (k * bs + sk) (bs - sk) := by
    rcases hsk0 with ⟨h1, h2⟩ | ⟨h1, h2⟩
    · rw [if_pos h2, slice_drop, h1]
    · rw [if_neg (by omega), h1]; rfl
  have hplen : (slice padded (k * bs + sk) (bs - sk)).length = min padded.length ((k + 1) * bs) - (k * bs + sk) := by
    rw [slice_length, hk1]; omega
  have hblen : w.bytes.length = w0.bytes.length := by
    rw [Win.bytes_length, Win.bytes_length, hinv.off, hinv.size, hinv.flen]
  have hinside := hwf.inside
  rw [hszv] at hinside
  have hskb : sk < bs := by rcases hsk0 with ⟨h1, _⟩ | ⟨h1, _⟩ <;> omega
  have hklt : k * bs + sk < padded.length := by
    rcases hsk0 with ⟨h1, h2⟩ | ⟨h1, h2⟩
    · rw [h2, h1]; omega
    · omega
  -- evaluate the step
  have hpos : min ((if act then size else 0) + (sb + k) * bs + (if k = 0 then fbo else 0)) (size * 2) = c + (sb * bs + k * bs) + sk := by
    rw [hs, ← hchunk, hsk]
    apply Nat.min_eq_left
    rcases hcle with h | h <;> omega
  have hfit : dp.lv3.offset + (c + (sb * bs + k * bs) + sk) + (slice padded (k * bs + sk) (bs - sk)).length ≤ w.bytes.length := by
    rw [hplen, hblen]
    rcases hcle with h | h <;> omega
  have hwritten := hinv.written
  have hframe0 := hinv.frame
  rw [hbsv] at hwritten hframe0
  obtain ⟨s1, s2, s3, s4, s5, s6⟩ := Win.write_spec w (dp.lv3.offset + (c + (sb * bs + k * bs) + sk)) (slice padded (k * bs + sk) (bs - sk)) hfit
  refine ⟨(slice padded (k * bs + sk) (bs - sk)).length, (w.write (dp.lv3.offset + (c + (sb * bs + k * bs) + sk)) (slice padded (k * bs + sk) (bs - sk))).2, ?_, ?_, ?_⟩
  · unfold dpWriteStep
    simp only [hbsv, hszv, hact, hpiece, hpos]
    rw [List.take_of_length_le (by rw [hplen]; rcases hcle with h | h <;> omega)]
    rw [← s1]
  · have hR : ∀ x, (sb * bs + k * bs) + sk ≤ x → x < sb * bs + min padded.length ((k + 1) * bs) → scatter dp x = dp.lv3.offset + c + x := by
      intro x h1 h2
      unfold scatter
      have : x / bs = sb + k := Nat.div_eq_of_lt_le (by rw [hsk]; omega) (by rw [Nat.succ_mul, hsk]; rw [hk1] at h2; omega)
      rw [hbsv, this, hc]
    refine ⟨by rw [s3, hinv.off], by rw [s4, hinv.size], by rw [s5, hinv.flen], fun z hz => by rw [s6 z (by rw [hinv.off, hinv.size]; exact hz), hinv.outside z hz], ?_, ?_⟩
    · intro x hx1 hx2
      rw [hbsv] at hx2 ⊢
      rw [s2, overlay_getElem?]
      by_cases hold : x < sb * bs + min padded.length (k * bs)
      · -- written before; the new piece lies elsewhere
        have hxlt : x < sb * bs + k * bs := by omega
        have hkpos : 0 < k := by
          rcases Nat.eq_zero_or_pos k with h0 | h0
          · rw [h0] at hxlt; omega
          · exact h0
        have hsk' : sk = 0 := by rcases hsk0 with ⟨_, h2⟩ | ⟨h1, _⟩ <;> omega
        have hsc : scatter dp x = dp.lv3.offset + chunkOf dp (x / bs) + x := by unfold scatter; rw [hbsv]
        have hold' := hwritten x hx1 hold
        rcases chunkOf_le dp (x / bs) with h0 | h0
        · -- stored in copy 0
          rcases hcle with hc0 | hc0
          · rw [hsc, h0, if_pos (by omega), if_pos (by rw [hblen]; omega)]
            rw [hsc, h0] at hold'; exact hold'
          · rw [hsc, h0, if_pos (by omega), if_pos (by rw [hblen]; omega)]
            rw [hsc, h0] at hold'; exact hold'
        · rw [hszv] at h0
          rcases hcle with hc0 | hc0
          · rw [hsc, h0, if_neg (by omega), if_neg (by rw [hplen]; omega)]
            rw [hsc, h0] at hold'; exact hold'
          · rw [hsc, h0, if_pos (by omega), if_pos (by rw [hblen]; omega)]
            rw [hsc, h0] at hold'; exact hold'
      · -- in this block
        have hxlo : (sb * bs + k * bs) + sk ≤ x := by
          rcases hsk0 with ⟨h1, h2⟩ | ⟨h1, h2⟩
          · rw [h1, h2]; omega
          · rw [h1]; omega
        rw [hR x hxlo hx2, if_neg (by omega), if_pos (by rw [hplen]; omega), slice_getElem?, if_pos (by omega)]
        congr 1; omega
    · intro y hy
      rw [hbsv] at hy
      rw [s2, overlay_getElem?]
      have hnot : ¬ (dp.lv3.offset + (c + (sb * bs + k * bs) + sk) ≤ y ∧
          y < dp.lv3.offset + (c + (sb * bs + k * bs) + sk) + (slice padded (k * bs + sk) (bs - sk)).length) := by
        intro ⟨h1, h2⟩
        rw [hplen] at h2
        have hx1 : (sb * bs + k * bs) + sk ≤ y - dp.lv3.offset - c := by omega
        have hx2 : y - dp.lv3.offset - c < sb * bs + min padded.length ((k + 1) * bs) := by omega
        apply hy (y - dp.lv3.offset - c)
        · rcases hsk0 with ⟨h3, h4⟩ | ⟨h3, h4⟩
          · rw [h3, h4] at hx1; omega
          · have : bs ≤ k * bs := Nat.le_mul_of_pos_left _ h4
            omega
        · exact hx2
        · rw [hR _ hx1 hx2]; omega
      have hframe := hframe0 y (fun x h1 h2 => hy x h1 (by rw [hk1]; omega))
      by_cases hlow : y < dp.lv3.offset + (c + (sb * bs + k * bs) + sk)
      · rw [if_pos hlow, if_pos (by omega)]; exact hframe
      · rw [if_neg hlow, if_neg (by omega)]; exact hframe
  · rw [hplen]
    rcases hsk0 with ⟨h1, h2⟩ | ⟨h1, h2⟩
    · rw [h1, h2]; omega
    · rw [h1]
      have : fbo ≤ k * bs := by
        have : bs ≤ k * bs := Nat.le_mul_of_pos_left _ h2
        omega
      omega

theorem dpInv_fold (w0 : Win) (dp : Dp) (hwf : DpWF w0.bytes dp) (sb fbo : Nat) (padded : Bytes)
    (hfbo : fbo < dp.lv3.bs) (hpl : fbo < padded.length) (hin : sb * dp.lv3.bs + padded.length ≤ dp.lv3.size) :
    ∀ k, k ≤ (padded.length + dp.lv3.bs - 1) / dp.lv3.bs →
      ∃ w, (List.range k).foldl (dpWriteStep dp sb fbo padded) (.ok (0, w0)) =
          .ok (min padded.length (k * dp.lv3.bs) - min fbo (k * dp.lv3.bs), w) ∧
        DpInv w0 dp sb padded (sb * dp.lv3.bs + fbo) k w := by
  have hbs := dp.lv3.bs_pos
  intro k
  induction k with
  | zero =>
    intro _
    refine ⟨w0, by simp, rfl, rfl, rfl, fun _ _ => rfl, ?_, fun _ _ => rfl⟩
    intro x h1 h2
    simp only [Nat.zero_mul, Nat.min_zero, Nat.add_zero] at h2
    omega
  | succ k ih =>
    intro hk
    obtain ⟨w, hf, hinv⟩ := ih (by omega)
    have hklt : k * dp.lv3.bs < padded.length := by
      obtain ⟨e, r, hr0, hrb, hT, hceil⟩ := ceil_div_spec padded.length dp.lv3.bs hbs (by omega)
      rw [hceil] at hk
      have : k * dp.lv3.bs ≤ e * dp.lv3.bs := Nat.mul_le_mul_right _ (by omega)
      omega
    obtain ⟨n, w', hstep, hinv', hn⟩ := dpInv_step w0 dp hwf sb fbo padded k
      (min padded.length (k * dp.lv3.bs) - min fbo (k * dp.lv3.bs)) w hfbo hpl hin hklt hinv
    refine ⟨w', ?_, hinv'⟩
    rw [List.range_succ, List.foldl_append, hf]
    simp only [List.foldl_cons, List.foldl_nil]
    rw [hstep, hn]
    congr 2
    have hk1 : (k + 1) * dp.lv3.bs = k * dp.lv3.bs + dp.lv3.bs := Nat.succ_mul _ _
    rcases Nat.eq_zero_or_pos k with h0 | h0
    · subst h0; simp only [Nat.zero_mul, Nat.min_zero, Nat.zero_add, Nat.one_mul, Nat.max_zero]
      rw [Nat.min_eq_left (by omega : fbo ≤ dp.lv3.bs)]; omega
    · have : dp.lv3.bs ≤ k * dp.lv3.bs := Nat.le_mul_of_pos_left _ h0
      rw [Nat.min_eq_left (by omega : fbo ≤ k * dp.lv3.bs), Nat.min_eq_left (by omega : fbo ≤ (k + 1) * dp.lv3.bs),
        Nat.max_eq_right (by omega : fbo ≤ k * dp.lv3.bs), Nat.min_eq_right (by omega : k * dp.lv3.bs ≤ padded.length)]
      omega

/-- **`DPFSLevel3.write_data`**, for a non-empty write that lies inside the view: every byte goes to the copy its block's level-2
    bit selects, nothing else in the partition or the file changes -/
theorem dpWrite_spec (w0 : Win) (dp : Dp) (hwf : DpWF w0.bytes dp) (offset : Nat) (data : Bytes) (hne : data ≠ [])
    (hin : offset + data.length ≤ dp.lv3.size) :
    ∃ w', dpWrite w0 dp offset data = .ok (data.length, w') ∧ w'.off = w0.off ∧ w'.size = w0.size ∧ w'.F.length = w0.F.length ∧
      (∀ z, (z < w0.off ∨ w0.off + w0.size ≤ z) → w'.F[z]? = w0.F[z]?) ∧
      (∀ x, offset ≤ x → x < offset + data.length → w'.bytes[scatter dp x]? = data[x - offset]?) ∧
      (∀ y, (∀ x, offset ≤ x → x < offset + data.length → y ≠ scatter dp x) → w'.bytes[y]? = w0.bytes[y]?) := by
  have hbs := dp.lv3.bs_pos
  have hdl : 0 < data.length := by cases data with | nil => exact absurd rfl hne | cons a r => simp
  have hdm := Nat.div_add_mod offset dp.lv3.bs
  have hmod := Nat.mod_lt offset hbs
  have hoff : offset / dp.lv3.bs * dp.lv3.bs + offset % dp.lv3.bs = offset := by rw [Nat.mul_comm]; exact hdm
  have hplen : (zeros (offset % dp.lv3.bs) ++ data).length = offset % dp.lv3.bs + data.length := by simp
  obtain ⟨w', hf, hinv⟩ := dpInv_fold w0 dp hwf (offset / dp.lv3.bs) (offset % dp.lv3.bs) (zeros (offset % dp.lv3.bs) ++ data)
    hmod (by rw [hplen]; omega) (by rw [hplen]; omega) _ (Nat.le_refl _)
  have hcover : (zeros (offset % dp.lv3.bs) ++ data).length ≤
      ((zeros (offset % dp.lv3.bs) ++ data).length + dp.lv3.bs - 1) / dp.lv3.bs * dp.lv3.bs := by
    obtain ⟨e, r, hr0, hrb, hT, hceil⟩ := ceil_div_spec (zeros (offset % dp.lv3.bs) ++ data).length dp.lv3.bs hbs (by rw [hplen]; omega)
    rw [hceil, Nat.succ_mul]; omega
  rw [hoff] at hinv
  refine ⟨w', ?_, hinv.off, hinv.size, hinv.flen, hinv.outside, ?_, ?_⟩
  · unfold dpWrite
    have hclamp : (if offset + data.length > dp.lv3.size then data.take (dp.lv3.size - offset) else data) = data :=
      if_neg (by omega)
    have he : data.isEmpty = false := by cases data with | nil => exact absurd rfl hne | cons a r => rfl
    simp only [hclamp, he, Bool.false_eq_true, if_false]
    rw [hf]
    congr 2
    generalize hN : ((zeros (offset % dp.lv3.bs) ++ data).length + dp.lv3.bs - 1) / dp.lv3.bs * dp.lv3.bs = N at hcover ⊢
    rw [Nat.min_eq_left hcover, hplen]
    rw [hplen] at hcover
    rw [Nat.min_eq_left (by omega : offset % dp.lv3.bs ≤ N)]; omega
  · intro x h1 h2
    have := hinv.written x h1 (by rw [Nat.min_eq_left hcover, hplen]; omega)
    rw [this]
    have hx : x - offset / dp.lv3.bs * dp.lv3.bs = offset % dp.lv3.bs + (x - offset) := by omega
    rw [hx, List.getElem?_append_right (by simp), zeros_length]
    congr 1; omega
  · intro y hy
    exact hinv.frame y (fun x h1 h2 => hy x h1 (by rw [Nat.min_eq_left hcover, hplen] at h2; omega))

/-- in terms of the level-3 view: the view after the write is the view before with the data laid over it -/
theorem dpWrite_view (w0 : Win) (dp : Dp) (hwf : DpWF w0.bytes dp) (offset : Nat) (data : Bytes) (hne : data ≠ [])
    (hin : offset + data.length ≤ dp.lv3.size) (w' : Win) (n : Nat) (h : dpWrite w0 dp offset data = .ok (n, w')) :
    n = data.length ∧ w'.off = w0.off ∧ w'.size = w0.size ∧ w'.F.length = w0.F.length ∧
      (∀ z, (z < w0.off ∨ w0.off + w0.size ≤ z) → w'.F[z]? = w0.F[z]?) ∧
      DpWF w'.bytes dp ∧ dpfsView w'.bytes dp = overlay (dpfsView w0.bytes dp) offset data ∧
      (∀ y, (y < dp.lv3.offset ∨ dp.lv3.offset + dp.lv3.size * 2 ≤ y) → w'.bytes[y]? = w0.bytes[y]?) := by
  obtain ⟨w1, h1, h2, h3, h4, h5, h6, h7⟩ := dpWrite_spec w0 dp hwf offset data hne hin
  rw [h1] at h
  simp only [Except.ok.injEq, Prod.mk.injEq] at h
  obtain ⟨hn, hw⟩ := h
  subst hw
  have hbl : w1.bytes.length = w0.bytes.length := by rw [Win.bytes_length, Win.bytes_length, h2, h3, h4]
  have hwf' : DpWF w1.bytes dp := ⟨hwf.bits, by rw [hbl]; exact hwf.inside⟩
  refine ⟨hn.symm, h2, h3, h4, h5, hwf', ?_, ?_⟩
  · apply List.ext_getElem?
    intro x
    by_cases hx : x < dp.lv3.size
    · rw [dpfsView_getElem _ _ hwf' x hx, overlay_getElem?, dpfsView_length _ _ hwf]
      by_cases hr : offset ≤ x ∧ x < offset + data.length
      · have := h6 x hr.1 hr.2
        unfold scatter at this
        rw [this, if_neg (by omega), if_pos hr.2]
      · have := h7 (scatter dp x) (fun x' a b hc => by
          have := scatter_inj dp x x' hx (by omega) hc
          omega)
        unfold scatter at this
        rw [this, ← dpfsView_getElem _ _ hwf x hx]
        by_cases hlo : x < offset
        · rw [if_pos hlo, if_pos hx]
        · rw [if_neg hlo, if_neg (by omega)]
    · rw [List.getElem?_eq_none (by rw [dpfsView_length _ _ hwf']; omega),
        List.getElem?_eq_none (by rw [overlay_length_inside _ _ _ (by rw [dpfsView_length _ _ hwf]; exact hin), dpfsView_length _ _ hwf]; omega)]
  · intro y hy
    apply h7
    intro x a b hc
    unfold scatter at hc
    rcases chunkOf_le dp (x / dp.lv3.bs) with h0 | h0 <;> rw [h0] at hc <;> omega

end Save
end Pyctr
