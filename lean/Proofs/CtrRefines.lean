import Proofs.XorStream
namespace Pyctr
namespace CtrIO
variable {σ : Type} {F : FileOps σ} {inv : σ → Prop} {abs : σ → AFile} (E : Bytes → Bytes)

/-- the cached cipher object, if any, is locked to the recorded direction and positioned at the reader's offset;
    the one exception is the harmless state right after a write that a window truncated -/
def Coh (abs : σ → AFile) (s : CtrIO σ) : Prop :=
  ∀ c, s.cipher = some c →
    c.dir = some s.cipherDec ∧
    (16 * c.c0 + c.used = 16 * s.counter + (abs s.reader).pos ∨
     (s.cipherDec = false ∧ (abs s.reader).fixed = true ∧ (abs s.reader).content.length ≤ (abs s.reader).pos))

def invCtr (inv : σ → Prop) (abs : σ → AFile) (s : CtrIO σ) : Prop := inv s.reader ∧ Coh abs s

def absCtr (abs : σ → AFile) (s : CtrIO σ) : AFile :=
  { abs s.reader with content := xorWith (ksByte E s.counter) 0 (abs s.reader).content }

theorem apply_coh (c : CtrObj) (d : Bool) (ctr pos : Nat) (data : Bytes)
    (hd : c.dir ≠ some (!d)) (hc : 16 * c.c0 + c.used = 16 * ctr + pos) :
    c.apply E d data = .ok (xorWith (ksByte E ctr) pos data, { c with used := c.used + data.length, dir := some d }) := by
  simp only [CtrObj.apply, hd, if_false]
  congr 2
  simp only [xorWith]
  apply List.ext_getElem?; intro i
  simp only [List.getElem?_mapIdx, ksByte_shift E _ _ _ _ i hc]

theorem fresh_coh (d : Bool) (ctr cur : Nat) :
    (⟨ctr + cur / 16, 0, none⟩ : CtrObj).apply E d (zeros (cur % 16)) =
      .ok (xorWith (ksByte E (ctr + cur / 16)) 0 (zeros (cur % 16)), ⟨ctr + cur / 16, cur % 16, some d⟩) := by
  rw [apply_coh E _ d (ctr + cur / 16) 0 _ (by simp) (by simp)]
  simp

theorem readLen_le (f : AFile) (n : Int) : f.readLen n ≤ f.content.length - f.pos := by
  rw [AFile.readLen_eq]; split <;> omega

theorem read_refines (hF : IsReadable F inv abs) (s : CtrIO σ) (n : Int) (h : invCtr inv abs s) :
    ∃ s', CtrIO.read F E s n = .ok (((absCtr E abs s).read n).1, s') ∧
      absCtr E abs s' = ((absCtr E abs s).read n).2 ∧ invCtr inv abs s' := by
  obtain ⟨r1, et, at1, vt⟩ := hF.tell s.reader h.1
  obtain ⟨r2, er, ar, vr⟩ := hF.read r1 n vt
  rw [at1] at er ar
  generalize hk : (abs s.reader).readLen n = k at *
  have hkle : k ≤ (abs s.reader).content.length - (abs s.reader).pos := by rw [← hk]; exact readLen_le _ _
  have hspec1 : ((absCtr E abs s).read n).1 = xorWith (ksByte E s.counter) (abs s.reader).pos (slice (abs s.reader).content (abs s.reader).pos k) := by
    rw [AFile.read_fst, ← slice_xorWith]
    have : (absCtr E abs s).readLen n = k := by
      rw [← hk, AFile.readLen_eq, AFile.readLen_eq]; simp [absCtr]
    rw [this]; rfl
  have hdata : ((abs s.reader).read n).1 = slice (abs s.reader).content (abs s.reader).pos k := by
    rw [AFile.read_fst, hk]
  have hdlen : (slice (abs s.reader).content (abs s.reader).pos k).length = k := by
    rw [slice_length]; omega
  have habs2 : ∀ c' b, absCtr E abs { s with reader := r2, cipher := c', cipherDec := b } = ((absCtr E abs s).read n).2 := by
    intro c' b
    have : (absCtr E abs s).readLen n = k := by
      rw [← hk, AFile.readLen_eq, AFile.readLen_eq]; simp [absCtr]
    apply AFile.ext'
    · simp only [absCtr, ar, AFile.read_snd_content]
    · rw [AFile.read_snd_pos, this]; simp only [absCtr, ar, AFile.read_snd_pos, hk]
    · simp only [absCtr, ar, AFile.read_snd_fixed]
    · simp only [absCtr, ar, AFile.read_snd_clamp]
  cases hc : (if s.cipherDec then s.cipher else none) with
  | some c =>
    have hdec : s.cipherDec = true := by
      by_cases hd : s.cipherDec = true
      · exact hd
      · simp [hd] at hc
    have hcip : s.cipher = some c := by simpa [hdec] using hc
    obtain ⟨hdir, hcoh⟩ := h.2 c hcip
    have hcoh' : 16 * c.c0 + c.used = 16 * s.counter + (abs s.reader).pos := by
      rcases hcoh with hcoh | ⟨hf, _⟩
      · exact hcoh
      · rw [hdec] at hf; cases hf
    refine ⟨{ s with reader := r2, cipher := some { c with used := c.used + k, dir := some true } }, ?_, ?_, ?_⟩
    · simp only [CtrIO.read, et, er, bind, Except.bind, hc, hdata]
      rw [apply_coh E c true s.counter (abs s.reader).pos _ (by rw [hdir, hdec]; simp) hcoh']
      simp only [hdlen, hspec1]
    · exact habs2 _ _
    · refine ⟨vr, ?_⟩
      intro c' hc'
      simp only [Option.some.injEq] at hc'
      subst hc'
      refine ⟨by simp [hdec], Or.inl ?_⟩
      simp only [ar, AFile.read_snd_pos, hk]; omega
  | none =>
    let cn : CtrObj := ⟨s.counter + (abs s.reader).pos / 16, (abs s.reader).pos % 16 + k, some true⟩
    refine ⟨{ s with reader := r2, cipher := some cn, cipherDec := true }, ?_, ?_, ?_⟩
    · simp only [CtrIO.read, et, er, bind, Except.bind, hc, hdata, fresh_coh]
      rw [apply_coh E _ true s.counter (abs s.reader).pos _ (by simp) (by simp; omega)]
      simp only [hdlen, hspec1]
      rfl
    · exact habs2 _ _
    · refine ⟨vr, ?_⟩
      intro c' hc'
      simp only [Option.some.injEq] at hc'
      subst hc'
      refine ⟨rfl, Or.inl ?_⟩
      simp only [ar, AFile.read_snd_pos, hk, cn]; omega


theorem writeTake_xorWith (f : AFile) (ctr : Nat) (w : Bytes) :
    f.writeTake (xorWith (ksByte E ctr) f.pos w) = xorWith (ksByte E ctr) f.pos (f.writeTake w) := by
  simp only [AFile.writeTake]; split
  · rw [xorWith_take]
  · rfl

/-- effect of handing the inner file an `enc` that is the CTR transform of `data` at the current position -/
theorem inner_write_coh (hF : IsFileW F inv abs) (s : CtrIO σ) (r1 : σ) (data : Bytes)
    (at1 : abs r1 = abs s.reader) (vt : inv r1) (hg : (abs s.reader).noGap) :
    ∃ r2, F.write r1 (xorWith (ksByte E s.counter) (abs s.reader).pos data) = .ok (((absCtr E abs s).write data).1, r2) ∧
      (∀ c' b, absCtr E abs { s with reader := r2, cipher := c', cipherDec := b } = ((absCtr E abs s).write data).2) ∧
      inv r2 ∧ (abs r2).fixed = (abs s.reader).fixed ∧
      ((abs s.reader).fixed = true → (abs r2).content.length = (abs s.reader).content.length) ∧
      (abs r2).pos = (abs s.reader).pos + ((abs s.reader).writeTake data).length := by
  obtain ⟨r2, ew, aw, vw⟩ := hF.write r1 (xorWith (ksByte E s.counter) (abs s.reader).pos data) vt (by rw [at1]; exact hg)
  rw [at1] at ew aw
  have hwt := writeTake_xorWith E (abs s.reader) s.counter data
  have hwt2 : (absCtr E abs s).writeTake data = (abs s.reader).writeTake data := by
    simp [AFile.writeTake, absCtr, AFile.size]
  generalize hw' : (abs s.reader).writeTake data = w' at *
  have hwl : (abs s.reader).fixed = true → (abs s.reader).pos + w'.length ≤ max (abs s.reader).pos (abs s.reader).content.length := by
    intro hf; rw [← hw']; simp only [AFile.writeTake, hf, if_true, AFile.size, List.length_take]; omega
  have hA : (abs s.reader).write (xorWith (ksByte E s.counter) (abs s.reader).pos data) =
      if w'.isEmpty then (0, abs s.reader) else
        (w'.length, { abs s.reader with content := overlay (abs s.reader).content (abs s.reader).pos (xorWith (ksByte E s.counter) (abs s.reader).pos w'),
                                        pos := (abs s.reader).pos + w'.length }) := by
    rw [AFile.write_def, hwt, xorWith_isEmpty, xorWith_length]
  have hB : (absCtr E abs s).write data =
      if w'.isEmpty then (0, absCtr E abs s) else
        (w'.length, { absCtr E abs s with content := overlay (xorWith (ksByte E s.counter) 0 (abs s.reader).content) (abs s.reader).pos w',
                                          pos := (abs s.reader).pos + w'.length }) := by
    rw [AFile.write_def, hwt2]; rfl
  rw [hA] at ew aw
  rw [hB]
  by_cases he : w'.isEmpty
  · simp only [he, if_true] at ew aw ⊢
    have hl : w'.length = 0 := by rw [List.isEmpty_iff] at he; rw [he]; rfl
    refine ⟨r2, ew, ?_, vw, by rw [aw], fun _ => by rw [aw], by rw [aw, hl]; rfl⟩
    intro c' b; simp only [absCtr, aw]
  · simp only [he, Bool.false_eq_true, if_false] at ew aw ⊢
    have hne : w'.length ≠ 0 := by
      intro h0; apply he; rw [List.isEmpty_iff]; exact List.eq_nil_of_length_eq_zero h0
    have hple : (abs s.reader).pos ≤ (abs s.reader).content.length := by
      rcases hg with hf | hp
      · have := hwl hf; omega
      · exact hp
    refine ⟨r2, ew, ?_, vw, by rw [aw], ?_, by rw [aw]⟩
    · intro c' b
      apply AFile.ext'
      · simp only [absCtr, aw]; rw [xorWith_overlay _ _ _ _ hple]
      · simp only [absCtr, aw]
      · simp only [absCtr, aw]
      · simp only [absCtr, aw]
    · intro hf; rw [aw]; simp only [overlay_length, xorWith_length]
      have := hwl hf; omega

end CtrIO
end Pyctr

namespace Pyctr
namespace CtrIO
variable {σ : Type} {F : FileOps σ} {inv : σ → Prop} {abs : σ → AFile} (E : Bytes → Bytes)

theorem writeTake_length_le (f : AFile) (w : Bytes) : (f.writeTake w).length ≤ w.length := by
  simp only [AFile.writeTake]; split
  · simp only [List.length_take]; omega
  · exact Nat.le_refl _

theorem writeTake_short (f : AFile) (w : Bytes) (h : (f.writeTake w).length < w.length) :
    f.fixed = true ∧ f.content.length ≤ f.pos + (f.writeTake w).length := by
  simp only [AFile.writeTake] at h ⊢; split at h
  · rename_i hf; simp only [hf, if_true, List.length_take, AFile.size] at h ⊢; exact ⟨trivial, by omega⟩
  · omega

theorem write_refines (hF : IsFileW F inv abs) (s : CtrIO σ) (w : Bytes) (h : invCtr inv abs s)
    (hg : (abs s.reader).noGap) :
    ∃ s', CtrIO.write F E s w = .ok (((absCtr E abs s).write w).1, s') ∧
      absCtr E abs s' = ((absCtr E abs s).write w).2 ∧ invCtr inv abs s' := by
  obtain ⟨r1, et, at1, vt⟩ := hF.tell s.reader h.1
  -- coherence of the cipher after `w.length` more bytes, relative to the new reader state
  have hcohNew : ∀ (r2 : σ) (c' : CtrObj), c'.dir = some false →
      16 * c'.c0 + c'.used = 16 * s.counter + (abs s.reader).pos + w.length →
      (abs r2).fixed = (abs s.reader).fixed →
      ((abs s.reader).fixed = true → (abs r2).content.length = (abs s.reader).content.length) →
      (abs r2).pos = (abs s.reader).pos + ((abs s.reader).writeTake w).length →
      Coh abs { s with reader := r2, cipher := some c', cipherDec := false } := by
    intro r2 c' hd hc hfx hlen hpos c'' hc''
    simp only [Option.some.injEq] at hc''
    subst hc''
    refine ⟨hd, ?_⟩
    have hle := writeTake_length_le (abs s.reader) w
    by_cases hs : ((abs s.reader).writeTake w).length < w.length
    · obtain ⟨hf, hl⟩ := writeTake_short _ _ hs
      exact Or.inr ⟨rfl, by rw [hfx]; exact hf, by rw [hlen hf, hpos]; exact hl⟩
    · exact Or.inl (by simp only [hpos]; omega)
  cases hc : (if s.cipherDec then none else s.cipher) with
  | some c =>
    have hdec : s.cipherDec = false := by
      by_cases hd : s.cipherDec = true
      · simp [hd] at hc
      · simpa using hd
    have hcip : s.cipher = some c := by simpa [hdec] using hc
    obtain ⟨hdir, hcoh⟩ := h.2 c hcip
    rcases hcoh with hcoh | ⟨_, hf, hl⟩
    · obtain ⟨r2, ew, aw, vw, hfx, hlen, hpos⟩ := inner_write_coh E hF s r1 w at1 vt hg
      refine ⟨⟨r2, s.counter, some { c with used := c.used + w.length, dir := some false }, false⟩, ?_, ?_, ?_⟩
      · simp only [CtrIO.write, et, bind, Except.bind, hc]
        rw [apply_coh E c false s.counter (abs s.reader).pos _ (by rw [hdir, hdec]; simp) hcoh]
        simp only [ew, hdec]
      · exact aw _ _
      · exact ⟨vw, hcohNew r2 { c with used := c.used + w.length, dir := some false } rfl (by simp only; omega) hfx hlen hpos⟩
    · -- out-of-sync cipher after a truncated write: the window is full, nothing is stored
      obtain ⟨r2, ew, aw, vw⟩ := hF.write r1 (w.mapIdx fun i b => b ^^^ ksByte E c.c0 (c.used + i)) vt (by rw [at1]; exact hg)
      rw [at1] at ew aw
      have hz : ∀ d : Bytes, (abs s.reader).writeTake d = [] := by
        intro d; simp only [AFile.writeTake, hf, if_true, AFile.size]
        have : (abs s.reader).content.length - (abs s.reader).pos = 0 := by omega
        rw [this]; rfl
      have hz2 : (absCtr E abs s).writeTake w = [] := by
        have : (absCtr E abs s).writeTake w = (abs s.reader).writeTake w := by
          simp [AFile.writeTake, absCtr, AFile.size]
        rw [this, hz]
      rw [AFile.write_def, hz] at ew aw
      simp only [List.isEmpty_nil, if_true] at ew aw
      have hdir' : c.dir = some false := by rw [hdir, hdec]
      refine ⟨⟨r2, s.counter, some { c with used := c.used + w.length, dir := some false }, false⟩, ?_, ?_, ?_⟩
      · simp only [CtrIO.write, et, bind, Except.bind, hdec, Bool.false_eq_true, if_false, hcip, CtrObj.apply, hdir',
          Bool.not_false, Option.some.injEq, ew]
        rw [AFile.write_def, hz2]; rfl
      · rw [AFile.write_def, hz2]; simp only [List.isEmpty_nil, if_true, absCtr, aw]
      · refine ⟨vw, ?_⟩
        intro c'' hc''
        simp only [Option.some.injEq] at hc''
        subst hc''
        exact ⟨rfl, Or.inr ⟨rfl, by rw [aw]; exact hf, by rw [aw]; exact hl⟩⟩
  | none =>
    obtain ⟨r2, ew, aw, vw, hfx, hlen, hpos⟩ := inner_write_coh E hF s r1 w at1 vt hg
    let cn : CtrObj := ⟨s.counter + (abs s.reader).pos / 16, (abs s.reader).pos % 16 + w.length, some false⟩
    refine ⟨{ s with reader := r2, cipher := some cn, cipherDec := false }, ?_, ?_, ?_⟩
    · simp only [CtrIO.write, et, bind, Except.bind, hc, fresh_coh]
      rw [apply_coh E _ false s.counter (abs s.reader).pos _ (by simp) (by simp; omega)]
      simp only [ew]; rfl
    · exact aw _ _
    · exact ⟨vw, hcohNew r2 cn rfl (by simp only [cn]; omega) hfx hlen hpos⟩


theorem absCtr_seek (s : CtrIO σ) (off wh : Int) :
    (absCtr E abs s).seek off wh =
      ((abs s.reader).seek off wh).map fun (p, a) => (p, { a with content := xorWith (ksByte E s.counter) 0 a.content }) := by
  simp only [AFile.seek, absCtr, AFile.size, xorWith_length]
  by_cases h0 : wh = 0
  · subst h0
    by_cases ho : off < 0 <;> simp [ho, Except.map]
  · by_cases h1 : wh = 1
    · subst h1; simp [Except.map]
    · by_cases h2 : wh = 2
      · subst h2; simp [Except.map]
      · simp [h0, h1, h2, Except.map]

theorem ctr_isReadable (hF : IsReadable F inv abs) :
    IsReadable (CtrIO.ops F E) (invCtr inv abs) (absCtr E abs) where
  read s n h := read_refines E hF s n h
  seek_err s off wh e h he := by
    rw [absCtr_seek] at he
    cases hs : (abs s.reader).seek off wh with
    | error e' =>
      rw [hs] at he; simp only [Except.map] at he; cases he
      simp only [CtrIO.ops, CtrIO.seek, hF.seek_err _ _ _ _ h.1 hs, bind, Except.bind]
    | ok v => rw [hs] at he; simp [Except.map] at he
  seek_ok s off wh p a' h he := by
    rw [absCtr_seek] at he
    cases hs : (abs s.reader).seek off wh with
    | error e' => rw [hs] at he; simp [Except.map] at he
    | ok v =>
      obtain ⟨p', a⟩ := v
      rw [hs] at he; simp only [Except.map, Except.ok.injEq, Prod.mk.injEq] at he
      obtain ⟨rfl, rfl⟩ := he
      obtain ⟨r, er, ar, vr⟩ := hF.seek_ok _ _ _ _ _ h.1 hs
      refine ⟨{ s with reader := r, cipher := none }, ?_, ?_, vr, ?_⟩
      · simp only [CtrIO.ops, CtrIO.seek, er, bind, Except.bind]
      · simp only [absCtr, ar]
      · intro c hc; cases hc
  tell s h := by
    obtain ⟨r, er, ar, vr⟩ := hF.tell s.reader h.1
    refine ⟨{ s with reader := r }, ?_, ?_, vr, ?_⟩
    · simp only [CtrIO.ops, CtrIO.tell, er, bind, Except.bind, absCtr]
    · simp only [absCtr, ar]
    · intro c hc
      obtain ⟨a, b⟩ := h.2 c hc
      exact ⟨a, by rw [ar]; exact b⟩

/-- **C01 / C12 (3DS flavour).** -/
theorem ctr_isFileW (hF : IsFileW F inv abs) : IsFileW (CtrIO.ops F E) (invCtr inv abs) (absCtr E abs) where
  toIsReadable := ctr_isReadable E hF.toIsReadable
  write s w h hg := write_refines E hF s w h (by
    rcases hg with hf | hp
    · exact Or.inl hf
    · exact Or.inr (by simpa [absCtr] using hp))

/-- over a window (inner file always fixed) no write can create a gap: the unconditional refinement holds -/
theorem ctr_isFile_of_fixed (hF : IsFileW F inv abs) (hfix : ∀ r, inv r → (abs r).fixed = true) :
    IsFile (CtrIO.ops F E) (invCtr inv abs) (absCtr E abs) where
  toIsReadable := ctr_isReadable E hF.toIsReadable
  write s w h := write_refines E hF s w h (Or.inl (hfix _ h.1))

end CtrIO
end Pyctr
