/-
  C01 / C12: the wrapper's own seek erases whatever was cached before (the owner of a shared file object moved it, another
  wrapper used it): the discipline 'seek before the next call' makes sharing a file object safe.
-/
import PyctrModel.Crypto.Wrappers
namespace Pyctr
namespace CtrIO
variable {σ : Type} (F : FileOps σ) (E : Bytes → Bytes)

/-- after the wrapper's own `seek`, nothing of what was cached before matters: two wrapper states over the same inner file
    state and counter - whatever cipher object either had kept, in whichever direction - are the SAME state afterwards, up
    to the direction flag of a cipher that no longer exists, and that flag is not looked at when there is no cipher -/
theorem seek_forgets (s s' : CtrIO σ) (hr : s.reader = s'.reader) (hc : s.counter = s'.counter) (off whence : Int) :
    (seek F s off whence).map (fun x => (x.1, x.2.reader, x.2.counter, x.2.cipher)) =
    (seek F s' off whence).map (fun x => (x.1, x.2.reader, x.2.counter, x.2.cipher)) := by
  unfold seek
  rw [hr]
  cases h : F.seek s'.reader off whence with
  | error e => simp [bind, Except.bind, Except.map]
  | ok v => simp [bind, Except.bind, Except.map, hc]

/-- ... and a state without a cipher reads and writes the same whatever its direction flag says -/
theorem read_no_cipher (s : CtrIO σ) (hn : s.cipher = none) (b : Bool) (n : Int) :
    read F E { s with cipherDec := b } n = read F E s n := by
  unfold read
  simp [hn]

theorem write_no_cipher (s : CtrIO σ) (hn : s.cipher = none) (b : Bool) (w : Bytes) :
    write F E { s with cipherDec := b } w = write F E s w := by
  unfold write
  simp [hn]
end CtrIO
end Pyctr
