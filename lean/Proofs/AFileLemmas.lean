import PyctrModel.Base.AFile
import Proofs.BytesLemmas
namespace Pyctr

theorem pySlice_dropLast (d : Bytes) (k : Nat) (hk : 0 < k) :
    pySlice d 0 (-(k : Int)) = d.take (d.length - k) := by
  simp only [pySlice, pyIdx, slice]
  have h1 : ¬ ((0 : Int) < 0) := by omega
  have h2 : (-(k : Int)) < 0 := by omega
  simp only [h1, h2, if_true, if_false, Int.toNat_zero, Nat.zero_min, List.drop_zero, Nat.sub_zero]
  congr 1; omega


namespace AFile
theorem read_fst (f : AFile) (n : Int) : (f.read n).1 = slice f.content f.pos (f.readLen n) := rfl
theorem read_snd_content (f : AFile) (n : Int) : (f.read n).2.content = f.content := rfl
theorem read_snd_pos (f : AFile) (n : Int) : (f.read n).2.pos = f.pos + f.readLen n := rfl
theorem read_snd_fixed (f : AFile) (n : Int) : (f.read n).2.fixed = f.fixed := rfl
theorem readLen_eq (f : AFile) (n : Int) :
    f.readLen n = if n < 0 then f.content.length - f.pos else min n.toNat (f.content.length - f.pos) := rfl
theorem read_snd_clamp (f : AFile) (n : Int) : (f.read n).2.clamp = f.clamp := rfl
theorem ext' {a b : AFile} (h1 : a.content = b.content) (h2 : a.pos = b.pos) (h3 : a.fixed = b.fixed)
    (h4 : a.clamp = b.clamp) : a = b := by
  cases a; cases b; simp_all
end AFile

namespace AFile
theorem write_def (f : AFile) (w : Bytes) : f.write w =
    if (f.writeTake w).isEmpty then (0, f)
    else ((f.writeTake w).length,
      { f with content := overlay f.content f.pos (f.writeTake w), pos := f.pos + (f.writeTake w).length }) := rfl
end AFile

end Pyctr
