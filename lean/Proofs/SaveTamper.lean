/-
  C17 (C): tamper evidence of the hash chain.
-/
import Proofs.SaveCache
import Proofs.TmdTamper
namespace Pyctr
namespace Save
variable (H : Bytes → Bytes) (bsOf : Nat → Nat) (master : List Bytes)

theorem chain_zero (L : Nat → Bytes) (b : Nat) (h : chainOK H bsOf master L 0 b) :
    master[b]? = some (H (padBlock bsOf L 0 b)) := by
  unfold chainOK at h
  simp only [specValid, rdOf] at h
  cases hm : master[b]? with
  | none => rw [hm] at h; cases h
  | some mh =>
    rw [hm] at h
    simp only [Except.ok.injEq, Option.some.injEq, beq_iff_eq] at h
    rw [h]; rfl

theorem chain_step (L : Nat → Bytes) (up b : Nat) (h : chainOK H bsOf master L (up + 1) b) :
    chainOK H bsOf master L up (b * 0x20 / bsOf up) ∧ slice (L up) (b * 0x20) 0x20 = H (padBlock bsOf L (up + 1) b) := by
  unfold chainOK at h ⊢
  rw [specValid] at h
  simp only [rdOf, if_true] at h
  cases hu : specValid H (rdOf L) bsOf master true up (b * 0x20 / bsOf up) with
  | error e => rw [hu] at h; cases h
  | ok uv =>
    rw [hu] at h
    simp only at h
    by_cases huv : uv = some true
    · subst huv
      simp only [beq_self_eq_true, if_true] at h
      refine ⟨rfl, ?_⟩
      split at h
      · cases h
      · simp only [Except.ok.injEq, Option.some.injEq, beq_iff_eq] at h
        exact h
    · have hb : (uv == some true) = false := by simpa using huv
      rw [hb] at h
      simp only [Bool.false_eq_true, if_false, Except.ok.injEq] at h
      exact absurd h huv

theorem ljustZero_inj (a b : Bytes) (n : Nat) (hl : a.length = b.length) (h : ljustZero a n = ljustZero b n) : a = b := by
  unfold ljustZero at h
  exact (List.append_inj h hl).1

/-- two files with the same master hashes cannot both carry an intact chain for a block whose contents differ -/
theorem chain_tamper (L L' : Nat → Bytes) (hlen : ∀ i, (L i).length = (L' i).length) (idx : Nat) :
    (∀ up, up < idx → 0 < bsOf up ∧ 0x20 ∣ bsOf up) → ∀ b, chainOK H bsOf master L idx b → chainOK H bsOf master L' idx b →
    slice (L idx) (b * bsOf idx) (bsOf idx) = slice (L' idx) (b * bsOf idx) (bsOf idx) ∨ Collision H := by
  induction idx with
  | zero =>
    intro _ b h h'
    have e := chain_zero H bsOf master L b h
    have e' := chain_zero H bsOf master L' b h'
    rw [e, Option.some.injEq] at e'
    by_cases heq : padBlock bsOf L 0 b = padBlock bsOf L' 0 b
    · left
      apply ljustZero_inj _ _ _ _ heq
      rw [slice_length, slice_length, hlen]
    · right; exact ⟨_, _, heq, e'⟩
  | succ up ih =>
    intro hdiv b h h'
    obtain ⟨hu, hs⟩ := chain_step H bsOf master L up b h
    obtain ⟨hu', hs'⟩ := chain_step H bsOf master L' up b h'
    rcases ih (fun u hu => hdiv u (by omega)) _ hu hu' with hup | hcol
    · -- the hash slot lies inside the (equal) upper blocks
      have hslot : slice (L up) (b * 0x20) 0x20 = slice (L' up) (b * 0x20) 0x20 := by
        obtain ⟨hbs, m, hm⟩ := hdiv up (by omega)
        · have hdm := Nat.div_add_mod (b * 0x20) (bsOf up)
          have hr := Nat.mod_lt (b * 0x20) hbs
          have hr32 : (b * 0x20) % (bsOf up) + 0x20 ≤ bsOf up := by
            have : 0x20 ∣ (b * 0x20) % (bsOf up) := by
              rw [Nat.dvd_mod_iff ⟨m, hm⟩]; exact Nat.dvd_mul_left _ _
            obtain ⟨j, hj⟩ := this
            rw [hj, hm] at hr ⊢
            have : j < m := Nat.lt_of_mul_lt_mul_left hr
            have : 0x20 * (j + 1) ≤ 0x20 * m := Nat.mul_le_mul_left _ (by omega)
            omega
          have e1 : slice (L up) (b * 0x20) 0x20 =
              slice (slice (L up) (b * 0x20 / bsOf up * bsOf up) (bsOf up)) ((b * 0x20) % (bsOf up)) 0x20 := by
            rw [slice_slice _ _ _ _ _ hr32]; congr 1; rw [Nat.mul_comm (b * 0x20 / bsOf up) (bsOf up)]; exact hdm.symm
          have e2 : slice (L' up) (b * 0x20) 0x20 =
              slice (slice (L' up) (b * 0x20 / bsOf up * bsOf up) (bsOf up)) ((b * 0x20) % (bsOf up)) 0x20 := by
            rw [slice_slice _ _ _ _ _ hr32]; congr 1; rw [Nat.mul_comm (b * 0x20 / bsOf up) (bsOf up)]; exact hdm.symm
          rw [e1, e2, hup]
      rw [hslot, hs'] at hs
      by_cases heq : padBlock bsOf L (up + 1) b = padBlock bsOf L' (up + 1) b
      · left
        apply ljustZero_inj _ _ _ _ heq
        rw [slice_length, slice_length, hlen]
      · right; exact ⟨_, _, heq, hs.symm⟩
    · right; exact hcol

/-- what the verified view shows for block `b` of an altered file is the authentic block or filler -/
theorem verified_tamper (L L' : Nat → Bytes) (hlen : ∀ i, (L i).length = (L' i).length)
    (hdiv : ∀ up, up < 3 → 0 < bsOf up ∧ 0x20 ∣ bsOf up) (b : Nat) (horig : chainOK H bsOf master L 3 b) :
    verifiedBlock H L' bsOf master b = slice (L 3) (b * bsOf 3) (bsOf 3) ∨
      verifiedBlock H L' bsOf master b = List.replicate (slice (L 3) (b * bsOf 3) (bsOf 3)).length 0xDD ∨ Collision H := by
  unfold verifiedBlock
  simp only
  split
  · rename_i hv
    rcases chain_tamper H bsOf master L L' hlen 3 hdiv b horig hv with h | h
    · left; exact h.symm
    · right; right; exact h
  · right; left
    rw [slice_length, slice_length, hlen]
end Save
end Pyctr
