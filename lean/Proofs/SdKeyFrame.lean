/-
  C08: the compound key-setting operation `setup_sd_key` changes the three SD slots only.
-/
import PyctrModel.Fmt.Sd
namespace Pyctr
open Engine

theorem setKeyslot_frame (e : Engine) (isX : Bool) (slot key : Nat) (u : Bool) (s : Nat) (hs : s ≠ slot) :
    (e.setKeyslot isX slot key u).normal s = e.normal s ∧ (e.setKeyslot isX slot key u).keyX s = e.keyX s ∧
    (e.setKeyslot isX slot key u).keyY s = e.keyY s ∧ (e.setKeyslot isX slot key u).dev = e.dev := by
  unfold Engine.setKeyslot
  cases isX <;> cases u <;> simp only [Bool.false_eq_true, if_false, if_true] <;> (try split) <;> simp [Engine.upd, hs]

/-- `setup_sd_key` touches the three SD slots and nothing else -/
theorem sd_key_frame (H : Bytes → Bytes) (e e' : Engine) (data id0 : Bytes) (h : Sd.setupSdKey H e data = .ok (e', id0))
    (s : Nat) (h1 : s ≠ 0x34) (h2 : s ≠ 0x30) (h3 : s ≠ 0x3A) :
    e'.normal s = e.normal s ∧ e'.keyX s = e.keyX s ∧ e'.keyY s = e.keyY s ∧ e'.dev = e.dev := by
  unfold Sd.setupSdKey at h
  split at h
  · cases h
  · simp only [Except.ok.injEq, Prod.mk.injEq] at h
    obtain ⟨he, _⟩ := h
    subst he
    simp only [Engine.setKeyslotBytes]
    have a := setKeyslot_frame e false 0x34 (keyToInt 0x34 ‹Bytes›) true s h1
    have b := setKeyslot_frame (e.setKeyslot false 0x34 (keyToInt 0x34 ‹Bytes›) true) false 0x30 (keyToInt 0x30 ‹Bytes›) true s h2
    have c := setKeyslot_frame ((e.setKeyslot false 0x34 (keyToInt 0x34 ‹Bytes›) true).setKeyslot false 0x30 (keyToInt 0x30 ‹Bytes›) true)
      false 0x3A (keyToInt 0x3A ‹Bytes›) true s h3
    exact ⟨c.1.trans (b.1.trans a.1), c.2.1.trans (b.2.1.trans a.2.1), c.2.2.1.trans (b.2.2.1.trans a.2.2.1),
      c.2.2.2.trans (b.2.2.2.trans a.2.2.2)⟩
end Pyctr
