/-
  C20: codec round trips — SMDH icon and title fields, seed database, save partition descriptors.
-/
import Proofs.SmdhBits
import Proofs.SaveBlocks
import Proofs.ExefsProofs
import Proofs.TmdLemmas
import PyctrModel.Save.Desc
namespace Pyctr
namespace Smdh
open Pyctr.Save (flatMap_block flatMap_length_uniform)

theorem toLE2_length (v : Nat) : (toLE 2 v).length = 2 := Exefs.toLE_length 2 v

theorem tileImage_length (pix : Nat → Nat → Nat) (w h : Nat) : (tileImage pix w h).length = w * h * 2 := by
  unfold tileImage
  exact flatMap_length_uniform _ 2 (w * h) (fun _ _ => toLE2_length _)

theorem tileImage_block (pix : Nat → Nat → Nat) (w h idx : Nat) (hi : idx < w * h) :
    slice (tileImage pix w h) (idx * 2) 2 = toLE 2 (pix (untile idx w).2 (untile idx w).1) := by
  unfold tileImage
  exact (flatMap_block (fun idx => toLE 2 (pix (untile idx w).2 (untile idx w).1)) 2 (w * h)
    (fun _ _ => toLE2_length _) (fun _ _ => by rw [toLE2_length]; exact Nat.le_refl _) idx hi).symm

/-- **icon decoding is the exact inverse of Morton tiling + colour expansion** (one pixel; all positions of both icon sizes) -/
theorem pixel_roundtrip (pix : Nat → Nat → Nat) (w : Nat) (hw : w = 24 ∨ w = 48) (hpix : ∀ y x, pix y x < 65536)
    (x y : Nat) (hx : x < w) (hy : y < w) :
    rgb565 (readLE (slice (tileImage pix w w) (tileIndex x y w * ((tileImage pix w w).length / w / w)) ((tileImage pix w w).length / w / w)))
      = rgb565 (pix y x) := by
  have hpx : (tileImage pix w w).length / w / w = 2 := by
    rw [tileImage_length]
    rcases hw with h | h <;> subst h <;> rfl
  rw [hpx]
  have hu : untile (tileIndex x y w) w = (x, y) ∧ tileIndex x y w < w * w := by
    rcases hw with h | h
    · subst h; exact untile_tile_24 x hx y hy
    · subst h; exact untile_tile_48 x hx y hy
  rw [tileImage_block pix w w _ hu.2, hu.1]
  simp only
  rw [Exefs.readLE_toLE 2 _ (by have := hpix y x; omega)]
/-- the whole decoded pixel array -/
theorem loadTiled_tileImage (pix : Nat → Nat → Nat) (w : Nat) (hw : w = 24 ∨ w = 48) (hpix : ∀ y x, pix y x < 65536) :
    loadTiled (tileImage pix w w) w w = (List.range w).map fun y => (List.range w).map fun x => rgb565 (pix y x) := by
  unfold loadTiled
  apply List.map_congr_left
  intro y hy
  apply List.map_congr_left
  intro x hx
  exact pixel_roundtrip pix w hw hpix x y (List.mem_range.mp hx) (List.mem_range.mp hy)

theorem units_bytes (u : U16s) (h : ∀ x, x ∈ u → x < 65536) : unitsOfBytes (bytesOfUnits u) = u := by
  induction u with
  | nil => rfl
  | cons x xs ih =>
    have hx := h x (by simp)
    simp only [bytesOfUnits, unitsOfBytes]
    rw [ih (fun y hy => h y (by simp [hy]))]
    congr 1
    simp only [UInt8.toNat_ofNat']
    omega

theorem bytesOfUnits_length (u : U16s) : (bytesOfUnits u).length = 2 * u.length := by
  induction u with
  | nil => rfl
  | cons x xs ih => simp only [bytesOfUnits, List.length_cons, ih]; omega

theorem unitsOfBytes_append : ∀ (n : Nat) (a b : Bytes), a.length = 2 * n → unitsOfBytes (a ++ b) = unitsOfBytes a ++ unitsOfBytes b := by
  intro n
  induction n with
  | zero => intro a b h; have : a = [] := List.eq_nil_of_length_eq_zero (by omega); subst this; rfl
  | succ n ih =>
    intro a b h
    match a, h with
    | x :: y :: rest, h =>
      simp only [List.cons_append, unitsOfBytes, List.cons.injEq, true_and]
      exact ih rest b (by simp only [List.length_cons] at h; omega)

theorem unitsOfBytes_zeros (k : Nat) : unitsOfBytes (zeros (2 * k)) = List.replicate k 0 := by
  induction k with
  | zero => rfl
  | succ k ih =>
    have : zeros (2 * (k + 1)) = 0 :: 0 :: zeros (2 * k) := by
      simp only [zeros]; rw [show 2 * (k + 1) = 2 * k + 1 + 1 by omega, List.replicate_succ, List.replicate_succ]
    rw [this]
    simp only [unitsOfBytes, ih, List.replicate_succ]
    rfl

/-- stripping: a text without NUL at either end, followed by NUL padding, strips back to the text -/
theorem stripZeros_padded (u : U16s) (k : Nat) (hhead : u.head? ≠ some 0) (hlast : u.getLast? ≠ some 0) :
    stripZeros (u ++ List.replicate k 0) = u := by
  unfold stripZeros
  cases u with
  | nil =>
    simp only [List.nil_append]
    have : (List.replicate k 0).dropWhile (· == 0) = [] := by
      induction k with
      | zero => rfl
      | succ k ih => simp only [List.replicate_succ, List.dropWhile_cons]; simpa using ih
    rw [this]; rfl
  | cons x xs =>
    have hx : x ≠ 0 := by intro h; apply hhead; simp [h]
    have h1 : ((x :: xs) ++ List.replicate k 0).dropWhile (· == 0) = (x :: xs) ++ List.replicate k 0 := by
      simp only [List.cons_append, List.dropWhile_cons]
      rw [if_neg (by simpa using hx)]
    rw [h1, List.reverse_append, List.reverse_replicate]
    have h2 : ∀ (m : Nat) (l : List Nat), l.head? ≠ some 0 → (List.replicate m 0 ++ l).dropWhile (· == 0) = l := by
      intro m l hl
      induction m with
      | zero =>
        simp only [List.replicate_zero, List.nil_append]
        cases l with
        | nil => rfl
        | cons a as =>
          simp only [List.dropWhile_cons]
          rw [if_neg]
          intro hc; apply hl; simp only [List.head?_cons]; congr 1; simpa using hc
      | succ m ihm => simp only [List.replicate_succ, List.cons_append, List.dropWhile_cons]; simpa using ihm
    rw [h2 k _ ?_, List.reverse_reverse]
    rw [List.head?_reverse]; exact hlast

theorem valid_zeros (k : Nat) : validUtf16 (List.replicate k 0) = true := by
  induction k with
  | zero => rfl
  | succ k ih =>
    rw [List.replicate_succ, validUtf16.eq_def]
    simp only
    rw [if_neg (by omega), if_neg (by omega)]; exact ih

theorem valid_append_zeros (k : Nat) : ∀ (n : Nat) (u : U16s), u.length ≤ n → validUtf16 u = true →
    validUtf16 (u ++ List.replicate k 0) = true := by
  intro n
  induction n with
  | zero =>
    intro u hl _
    have : u = [] := List.eq_nil_of_length_eq_zero (by omega)
    subst this; exact valid_zeros k
  | succ n ih =>
    intro u hl hv
    match u, hl, hv with
    | [], _, _ => exact valid_zeros k
    | x :: rest, hl, hv =>
      simp only [List.cons_append]
      rw [validUtf16.eq_def] at hv ⊢
      simp only at hv ⊢
      by_cases h1 : 0xD800 ≤ x ∧ x < 0xDC00
      · rw [if_pos h1] at hv ⊢
        match rest, hl, hv with
        | [], _, hv => simp at hv
        | v :: rest', hl, hv =>
          simp only [List.cons_append]
          simp only [Bool.and_eq_true] at hv ⊢
          exact ⟨hv.1, ih rest' (by simp only [List.length_cons] at hl; omega) hv.2⟩
      · rw [if_neg h1] at hv ⊢
        by_cases h2 : 0xDC00 ≤ x ∧ x < 0xE000
        · rw [if_pos h2] at hv; cases hv
        · rw [if_neg h2] at hv ⊢
          exact ih rest (by simp only [List.length_cons] at hl; omega) hv

/-- **title field round trip**: a text of well-formed UTF-16 code units that fits the field and has no NUL at either end is
    read back from its zero-padded encoding -/
theorem field_roundtrip (u : U16s) (width : Nat) (hw : width % 2 = 0) (hfit : 2 * u.length ≤ width)
    (hu : ∀ x, x ∈ u → x < 65536) (hvalid : validUtf16 u = true) (hhead : u.head? ≠ some 0) (hlast : u.getLast? ≠ some 0) :
    fieldOfBytes (fieldToBytes u width) = .ok u := by
  unfold fieldOfBytes fieldToBytes ljust
  have hlen : (bytesOfUnits u ++ List.replicate (width - (bytesOfUnits u).length) 0).length = width := by
    simp [bytesOfUnits_length]; omega
  have hk : width - (bytesOfUnits u).length = 2 * ((width - 2 * u.length) / 2) := by rw [bytesOfUnits_length]; omega
  have hunits : unitsOfBytes (bytesOfUnits u ++ List.replicate (width - (bytesOfUnits u).length) 0)
      = u ++ List.replicate ((width - 2 * u.length) / 2) 0 := by
    rw [unitsOfBytes_append u.length _ _ (bytesOfUnits_length u), units_bytes u hu, hk]
    congr 1
    exact unitsOfBytes_zeros _
  simp only [hlen, hunits]
  rw [if_neg]
  · rw [stripZeros_padded u _ hhead hlast]
  · intro hc
    rcases hc with hc | hc
    · exact hc hw
    · rw [valid_append_zeros _ u.length u (Nat.le_refl _) hvalid] at hc; simp at hc
end Smdh

namespace SeedDb
open Pyctr.Save (flatMap_block flatMap_length_uniform)

/-- a database as `save_seeddb` can write it and `load_seeddb` reads it back: distinct ids that fit 8 bytes, 16-byte seeds -/
structure WF (db : List (Nat × Bytes)) : Prop where
  ids : ∀ p, p ∈ db → p.1 < 2 ^ 64
  seeds : ∀ p, p ∈ db → p.2.length = 16
  distinct : (db.map (·.1)).Nodup
  count : db.length < 2 ^ 32

def entryBytes (p : Nat × Bytes) : Bytes := toLE 8 p.1 ++ p.2 ++ zeros 8

theorem entryBytes_length (p : Nat × Bytes) (h : p.2.length = 16) : (entryBytes p).length = 0x20 := by
  unfold entryBytes; simp [Exefs.toLE_length, h]

theorem save_eq (db : List (Nat × Bytes)) (h : WF db) :
    save db = some (toLE 4 db.length ++ zeros 12 ++ db.flatMap entryBytes) := by
  unfold save
  rw [if_neg]
  · rfl
  · intro hc
    rcases hc with hc | hc
    · have := h.count; omega
    · rw [List.any_eq_true] at hc
      obtain ⟨p, hp, hge⟩ := hc
      have := h.ids p hp
      simp at hge; omega
open Pyctr.Save (flatMap_block flatMap_length_uniform slice_append_right slice_append_left)



theorem flatMap_eq_range {α : Type} (l : List α) (d : α) (f : α → Bytes) :
    l.flatMap f = (List.range l.length).flatMap (fun i => f (l.getD i d)) := by
  induction l with
  | nil => rfl
  | cons a l ih =>
    rw [List.length_cons, List.range_succ_eq_map, List.flatMap_cons, List.flatMap_cons, List.flatMap_map]
    simp only [List.getD_cons_zero]
    rw [ih]
    congr 1

theorem slice_drop_prefix (a b : Bytes) (p n : Nat) : slice (a ++ b) (a.length + p) n = slice b p n := by
  simp only [slice]
  rw [List.drop_append, List.drop_eq_nil_of_le (by omega), List.nil_append, Nat.add_sub_cancel_left]

theorem loadEntries_save (db : List (Nat × Bytes)) (h : WF db) :
    loadEntries (toLE 4 db.length ++ zeros 12 ++ db.flatMap entryBytes) = some db := by
  unfold loadEntries rawEntry
  have hflen : (toLE 4 db.length ++ zeros 12 ++ db.flatMap entryBytes).length = 0x10 + 0x20 * db.length := by
    rw [List.length_append, List.length_append, Exefs.toLE_length, zeros_length,
      flatMap_eq_range db (0, []) entryBytes,
      flatMap_length_uniform _ 0x20 db.length (fun b hb => by
        apply entryBytes_length
        rw [List.getD_eq_getElem?_getD, List.getElem?_eq_getElem hb]
        exact h.seeds _ (List.getElem_mem _))]
    omega
  have hcount : readLE (slice (toLE 4 db.length ++ zeros 12 ++ db.flatMap entryBytes) 0 4) = db.length := by
    rw [List.append_assoc, slice_append_left _ _ 0 4 (by rw [Exefs.toLE_length]; omega),
      slice_all _ _ (by rw [Exefs.toLE_length]; exact Nat.le_refl _), Exefs.readLE_toLE 4 _ (by have := h.count; omega)]
  simp only [hcount, hflen]
  rw [if_pos (by omega)]
  congr 1
  apply List.ext_getElem?
  intro i
  rw [List.getElem?_map]
  by_cases hi : i < db.length
  · rw [List.getElem?_range hi, List.getElem?_eq_getElem hi]
    simp only [Option.map_some, Option.some.injEq]
    have hpre : (toLE 4 db.length ++ zeros 12).length = 16 := by simp [Exefs.toLE_length]
    have hblk : slice (toLE 4 db.length ++ zeros 12 ++ db.flatMap entryBytes) (16 + 32 * i) 32 = entryBytes db[i] := by
      rw [← hpre, slice_drop_prefix, flatMap_eq_range db (0, []) entryBytes, Nat.mul_comm 32 i]
      rw [← flatMap_block (fun j => entryBytes (db.getD j (0, []))) 32 db.length ?_ ?_ i hi]
      · rw [List.getD_eq_getElem?_getD, List.getElem?_eq_getElem hi]; rfl
      · intro b hb
        apply entryBytes_length
        rw [List.getD_eq_getElem?_getD, List.getElem?_eq_getElem (by omega)]
        exact h.seeds _ (List.getElem_mem _)
      · intro b hb
        rw [entryBytes_length]
        · exact Nat.le_refl _
        · rw [List.getD_eq_getElem?_getD, List.getElem?_eq_getElem hb]
          exact h.seeds _ (List.getElem_mem _)
    rw [hblk]
    have hs := h.seeds _ (List.getElem_mem hi)
    have hid := h.ids _ (List.getElem_mem hi)
    unfold entryBytes
    have e1 : slice (toLE 8 db[i].1 ++ db[i].2 ++ zeros 8) 0 8 = toLE 8 db[i].1 := by
      rw [List.append_assoc, slice_append_left _ _ 0 8 (by rw [Exefs.toLE_length]; omega),
        slice_all _ _ (by rw [Exefs.toLE_length]; exact Nat.le_refl _)]
    have e2 : slice (toLE 8 db[i].1 ++ db[i].2 ++ zeros 8) 8 16 = db[i].2 := by
      have hA : (toLE 8 db[i].1).length = 8 := Exefs.toLE_length _ _
      have := slice_drop_prefix (toLE 8 db[i].1) (db[i].2 ++ zeros 8) 0 16
      rw [hA] at this
      rw [List.append_assoc, this, slice_append_left _ _ 0 16 (by omega), slice_all _ _ (by omega)]
    rw [e1, e2, Exefs.readLE_toLE 8 _ (by omega)]
  · rw [List.getElem?_eq_none (by simp; omega), List.getElem?_eq_none (by omega)]; rfl

theorem dictSet_new (d : List (Nat × Bytes)) (k : Nat) (v : Bytes) (h : k ∉ d.map (·.1)) : dictSet d k v = d ++ [(k, v)] := by
  unfold dictSet
  rw [if_neg]
  intro hc
  rw [List.any_eq_true] at hc
  obtain ⟨p, hp, hk⟩ := hc
  apply h
  simp only [List.mem_map]
  exact ⟨p, hp, by simpa using hk⟩

theorem foldl_dictSet (l : List (Nat × Bytes)) : ∀ (acc : List (Nat × Bytes)),
    ((acc ++ l).map (·.1)).Nodup → l.foldl (fun d (p : Nat × Bytes) => dictSet d p.1 p.2) acc = acc ++ l := by
  induction l with
  | nil => intro acc _; simp
  | cons x xs ih =>
    intro acc hnd
    simp only [List.foldl_cons]
    have hx : x.1 ∉ acc.map (·.1) := by
      intro hc
      rw [List.map_append, List.map_cons] at hnd
      have := (List.nodup_append.mp hnd).2.2 x.1 hc x.1 (by simp)
      exact this rfl
    rw [dictSet_new acc x.1 x.2 hx, ih (acc ++ [(x.1, x.2)])]
    · simp
    · simpa using hnd
/-- **seed database**: a saved database loads back as the same entries in the same order -/
theorem seeddb_roundtrip (db : List (Nat × Bytes)) (h : WF db) : ∃ b, save db = some b ∧ load [] b = .ok db := by
  refine ⟨_, save_eq db h, ?_⟩
  unfold load
  rw [loadEntries_save db h]
  have := foldl_dictSet db [] (by simpa using h.distinct)
  simp only [Except.ok.injEq]
  simpa using this

/-- **cost**: the loader never looks at more entries than the file holds, whatever the count field says -/
theorem load_bounded (f : Bytes) (es : List (Nat × Bytes)) (h : loadEntries f = some es) : 0x20 * es.length + 0x10 ≤ max f.length 0x10 := by
  unfold loadEntries at h
  simp only at h
  split at h
  · rename_i hle
    simp only [Option.some.injEq] at h
    rw [← h, List.length_map, List.length_range]
    omega
  · cases h
end SeedDb

namespace Save

/-- field extraction from a concatenation of segments: segment `k` is read back -/
theorem le_seg (segs : List Bytes) (k off n v : Nat) (hk : k < segs.length) (hseg : segs[k] = toLE n v)
    (hoff : (segs.take k).flatten.length = off) (hv : v < 256 ^ n) : le segs.flatten off n = v := by
  unfold le
  have := slice_flatten_at segs k hk
  rw [hoff, hseg, Exefs.toLE_length] at this
  rw [this, Exefs.readLE_toLE n v hv]

def dpfsSegs (x : Dpfs) : List Bytes :=
  [dpfsMagic, toLE 8 x.lv1.offset, toLE 8 x.lv1.size, toLE 4 x.lv1.log2, [0, 0, 0, 0],
   toLE 8 x.lv2.offset, toLE 8 x.lv2.size, toLE 4 x.lv2.log2, [0, 0, 0, 0],
   toLE 8 x.lv3.offset, toLE 8 x.lv3.size, toLE 4 x.lv3.log2, [0, 0, 0, 0]]

theorem dpfs_bytes (x : Dpfs) : dpfsMagic ++ x.lv1.toBytes ++ x.lv2.toBytes ++ x.lv3.toBytes = (dpfsSegs x).flatten := by
  simp [dpfsSegs, Level.toBytes, List.flatten]

/-- **DPFS descriptor**: parsing a serialised value returns the value -/
theorem dpfs_roundtrip (x : Dpfs) (b : Bytes) (h : x.toBytes = some b)
    (hs : x.lv1.sane = true ∧ x.lv2.sane = true ∧ x.lv3.sane = true) : Dpfs.fromBytes b = .ok x := by
  unfold Dpfs.toBytes at h
  split at h
  · rename_i hf
    obtain ⟨⟨a1, a2, a3⟩, ⟨b1, b2, b3⟩, ⟨c1, c2, c3⟩⟩ := hf
    simp only [Option.some.injEq] at h
    rw [dpfs_bytes] at h
    subst h
    have hlen : (dpfsSegs x).flatten.length = 0x50 := by simp [dpfsSegs, Exefs.toLE_length, dpfsMagic]
    have hmagic : slice (dpfsSegs x).flatten 0 8 = dpfsMagic := by
      have := slice_flatten_at (dpfsSegs x) 0 (by simp [dpfsSegs])
      simpa [dpfsSegs, dpfsMagic] using this
    unfold Dpfs.fromBytes
    rw [if_neg (by rw [hmagic]; simp), if_neg (by rw [hlen]; simp)]
    have f := fun k off n v hk hseg hoff hv => le_seg (dpfsSegs x) k off n v hk hseg hoff hv
    simp only [levelAt, Level.sane]
    simp only [f 1 8 8 x.lv1.offset (by simp [dpfsSegs]) rfl (by simp [dpfsSegs, dpfsMagic]) (by omega),
      f 2 16 8 x.lv1.size (by simp [dpfsSegs]) rfl (by simp [dpfsSegs, dpfsMagic, Exefs.toLE_length]) (by omega),
      f 3 24 4 x.lv1.log2 (by simp [dpfsSegs]) rfl (by simp [dpfsSegs, dpfsMagic, Exefs.toLE_length]) (by omega),
      f 5 32 8 x.lv2.offset (by simp [dpfsSegs]) rfl (by simp [dpfsSegs, dpfsMagic, Exefs.toLE_length]) (by omega),
      f 6 40 8 x.lv2.size (by simp [dpfsSegs]) rfl (by simp [dpfsSegs, dpfsMagic, Exefs.toLE_length]) (by omega),
      f 7 48 4 x.lv2.log2 (by simp [dpfsSegs]) rfl (by simp [dpfsSegs, dpfsMagic, Exefs.toLE_length]) (by omega),
      f 9 56 8 x.lv3.offset (by simp [dpfsSegs]) rfl (by simp [dpfsSegs, dpfsMagic, Exefs.toLE_length]) (by omega),
      f 10 64 8 x.lv3.size (by simp [dpfsSegs]) rfl (by simp [dpfsSegs, dpfsMagic, Exefs.toLE_length]) (by omega),
      f 11 72 4 x.lv3.log2 (by simp [dpfsSegs]) rfl (by simp [dpfsSegs, dpfsMagic, Exefs.toLE_length]) (by omega)]
    simp only [Level.sane] at hs
    rw [if_neg (by simp [hs.1, hs.2.1, hs.2.2])]
  · cases h
def ivfcSegs (x : Ivfc) : List Bytes :=
  [ivfcMagic, toLE 8 x.masterHashSize,
   toLE 8 x.lv1.offset, toLE 8 x.lv1.size, toLE 4 x.lv1.log2, [0, 0, 0, 0],
   toLE 8 x.lv2.offset, toLE 8 x.lv2.size, toLE 4 x.lv2.log2, [0, 0, 0, 0],
   toLE 8 x.lv3.offset, toLE 8 x.lv3.size, toLE 4 x.lv3.log2, [0, 0, 0, 0],
   toLE 8 x.lv4.offset, toLE 8 x.lv4.size, toLE 4 x.lv4.log2, [0, 0, 0, 0],
   toLE 8 x.descSize]

theorem ivfc_bytes (x : Ivfc) : ivfcMagic ++ toLE 8 x.masterHashSize ++ x.lv1.toBytes ++ x.lv2.toBytes ++ x.lv3.toBytes ++
    x.lv4.toBytes ++ toLE 8 x.descSize = (ivfcSegs x).flatten := by
  simp [ivfcSegs, Level.toBytes, List.flatten]

/-- **IVFC descriptor**: parsing a serialised value returns the value -/
theorem ivfc_roundtrip (x : Ivfc) (b : Bytes) (h : x.toBytes = some b)
    (hs : x.lv1.sane = true ∧ x.lv2.sane = true ∧ x.lv3.sane = true ∧ x.lv4.sane = true) : Ivfc.fromBytes b = .ok x := by
  unfold Ivfc.toBytes at h
  split at h
  · rename_i hf
    obtain ⟨hm, ⟨a1, a2, a3⟩, ⟨b1, b2, b3⟩, ⟨c1, c2, c3⟩, ⟨d1, d2, d3⟩, hd⟩ := hf
    simp only [Option.some.injEq] at h
    rw [ivfc_bytes] at h
    subst h
    have hlen : (ivfcSegs x).flatten.length = 0x78 := by simp [ivfcSegs, Exefs.toLE_length, ivfcMagic]
    have hmagic : slice (ivfcSegs x).flatten 0 8 = ivfcMagic := by
      have := slice_flatten_at (ivfcSegs x) 0 (by simp [ivfcSegs])
      simpa [ivfcSegs, ivfcMagic] using this
    unfold Ivfc.fromBytes
    rw [if_neg (by rw [hmagic]; simp), if_neg (by rw [hlen]; simp)]
    have f := fun k off n v hk hseg hoff hv => le_seg (ivfcSegs x) k off n v hk hseg hoff hv
    simp only [levelAt, Level.sane]
    simp only [f 1 8 8 x.masterHashSize (by simp [ivfcSegs]) rfl (by simp [ivfcSegs, ivfcMagic]) (by omega),
      f 2 0x10 8 x.lv1.offset (by simp [ivfcSegs]) rfl (by simp [ivfcSegs, ivfcMagic, Exefs.toLE_length]) (by omega),
      f 3 (0x10 + 8) 8 x.lv1.size (by simp [ivfcSegs]) rfl (by simp [ivfcSegs, ivfcMagic, Exefs.toLE_length]) (by omega),
      f 4 (0x10 + 0x10) 4 x.lv1.log2 (by simp [ivfcSegs]) rfl (by simp [ivfcSegs, ivfcMagic, Exefs.toLE_length]) (by omega),
      f 6 0x28 8 x.lv2.offset (by simp [ivfcSegs]) rfl (by simp [ivfcSegs, ivfcMagic, Exefs.toLE_length]) (by omega),
      f 7 (0x28 + 8) 8 x.lv2.size (by simp [ivfcSegs]) rfl (by simp [ivfcSegs, ivfcMagic, Exefs.toLE_length]) (by omega),
      f 8 (0x28 + 0x10) 4 x.lv2.log2 (by simp [ivfcSegs]) rfl (by simp [ivfcSegs, ivfcMagic, Exefs.toLE_length]) (by omega),
      f 10 0x40 8 x.lv3.offset (by simp [ivfcSegs]) rfl (by simp [ivfcSegs, ivfcMagic, Exefs.toLE_length]) (by omega),
      f 11 (0x40 + 8) 8 x.lv3.size (by simp [ivfcSegs]) rfl (by simp [ivfcSegs, ivfcMagic, Exefs.toLE_length]) (by omega),
      f 12 (0x40 + 0x10) 4 x.lv3.log2 (by simp [ivfcSegs]) rfl (by simp [ivfcSegs, ivfcMagic, Exefs.toLE_length]) (by omega),
      f 14 0x58 8 x.lv4.offset (by simp [ivfcSegs]) rfl (by simp [ivfcSegs, ivfcMagic, Exefs.toLE_length]) (by omega),
      f 15 (0x58 + 8) 8 x.lv4.size (by simp [ivfcSegs]) rfl (by simp [ivfcSegs, ivfcMagic, Exefs.toLE_length]) (by omega),
      f 16 (0x58 + 0x10) 4 x.lv4.log2 (by simp [ivfcSegs]) rfl (by simp [ivfcSegs, ivfcMagic, Exefs.toLE_length]) (by omega),
      f 18 0x70 8 x.descSize (by simp [ivfcSegs]) rfl (by simp [ivfcSegs, ivfcMagic, Exefs.toLE_length]) (by omega)]
    simp only [Level.sane] at hs
    rw [if_neg (by simp [hs.1, hs.2.1, hs.2.2.1, hs.2.2.2])]
  · cases h

def difiSegs (x : Difi) : List Bytes :=
  [difiMagic, toLE 8 x.ivfcOffset, toLE 8 x.ivfcSize, toLE 8 x.dpfsOffset, toLE 8 x.dpfsSize, toLE 8 x.hashOffset,
   toLE 8 x.hashSize, [if x.externalLv4 then 1 else 0], [UInt8.ofNat x.selector], [0, 0], toLE 8 x.externalOffset]

theorem difi_bytes (x : Difi) : difiMagic ++ toLE 8 x.ivfcOffset ++ toLE 8 x.ivfcSize ++ toLE 8 x.dpfsOffset ++ toLE 8 x.dpfsSize ++
    toLE 8 x.hashOffset ++ toLE 8 x.hashSize ++ [if x.externalLv4 then 1 else 0] ++ [UInt8.ofNat x.selector] ++ [0, 0] ++
    toLE 8 x.externalOffset = (difiSegs x).flatten := by
  simp [difiSegs, List.flatten]

theorem getD_seg (segs : List Bytes) (k off : Nat) (v : UInt8) (hk : k < segs.length) (hseg : segs[k] = [v])
    (hoff : (segs.take k).flatten.length = off) : segs.flatten.getD off 0 = v := by
  have := slice_flatten_at segs k hk
  rw [hoff, hseg] at this
  have h2 := congrArg (fun l => l[0]?) this
  simp only [slice_getElem?, List.length_singleton] at h2
  rw [if_pos (by decide)] at h2
  rw [List.getD_eq_getElem?_getD]
  simp only [Nat.add_zero] at h2
  rw [h2]; rfl

/-- **DIFI header**: parsing a serialised value returns the value -/
theorem difi_roundtrip (x : Difi) (b : Bytes) (h : x.toBytes = some b) : Difi.fromBytes b = .ok x := by
  unfold Difi.toBytes at h
  split at h
  · cases h
  · rename_i hf
    simp only [not_or, Nat.not_le] at hf
    obtain ⟨h1, h2, h3, h4, h5, h6, h7, h8⟩ := hf
    simp only [Option.some.injEq] at h
    rw [difi_bytes] at h
    subst h
    have hlen : (difiSegs x).flatten.length = 0x44 := by simp [difiSegs, Exefs.toLE_length, difiMagic]
    have hmagic : slice (difiSegs x).flatten 0 8 = difiMagic := by
      have := slice_flatten_at (difiSegs x) 0 (by simp [difiSegs])
      simpa [difiSegs, difiMagic] using this
    unfold Difi.fromBytes
    rw [if_neg (by rw [hmagic]; simp), if_neg (by rw [hlen]; simp)]
    have f := fun k off n v hk hseg hoff hv => le_seg (difiSegs x) k off n v hk hseg hoff hv
    rw [f 1 8 8 x.ivfcOffset (by simp [difiSegs]) rfl (by simp [difiSegs, difiMagic]) (by omega),
      f 2 0x10 8 x.ivfcSize (by simp [difiSegs]) rfl (by simp [difiSegs, difiMagic, Exefs.toLE_length]) (by omega),
      f 3 0x18 8 x.dpfsOffset (by simp [difiSegs]) rfl (by simp [difiSegs, difiMagic, Exefs.toLE_length]) (by omega),
      f 4 0x20 8 x.dpfsSize (by simp [difiSegs]) rfl (by simp [difiSegs, difiMagic, Exefs.toLE_length]) (by omega),
      f 5 0x28 8 x.hashOffset (by simp [difiSegs]) rfl (by simp [difiSegs, difiMagic, Exefs.toLE_length]) (by omega),
      f 6 0x30 8 x.hashSize (by simp [difiSegs]) rfl (by simp [difiSegs, difiMagic, Exefs.toLE_length]) (by omega),
      f 10 0x3C 8 x.externalOffset (by simp [difiSegs]) rfl (by simp [difiSegs, difiMagic, Exefs.toLE_length]) (by omega),
      getD_seg (difiSegs x) 7 0x38 _ (by simp [difiSegs]) rfl (by simp [difiSegs, difiMagic, Exefs.toLE_length]),
      getD_seg (difiSegs x) 8 0x39 _ (by simp [difiSegs]) rfl (by simp [difiSegs, difiMagic, Exefs.toLE_length])]
    congr 1
    cases x
    simp only [Difi.mk.injEq, true_and]
    refine ⟨?_, ?_⟩
    · rename_i e _ _; cases e <;> simp
    · simp only [UInt8.toNat_ofNat']; exact ⟨Nat.mod_eq_of_lt h7, trivial⟩
end Save
namespace Smdh
open Pyctr.Save (slice_append_left slice_append_right)

/-- a title field as the property quantifies over it: well-formed UTF-16, no NUL at either end, fits the field -/
structure GoodField (u : U16s) (width : Nat) : Prop where
  fit : 2 * u.length ≤ width
  units : ∀ x, x ∈ u → x < 65536
  valid : validUtf16 u = true
  head : u.head? ≠ some 0
  last : u.getLast? ≠ some 0

theorem fieldToBytes_length (u : U16s) (width : Nat) (h : 2 * u.length ≤ width) : (fieldToBytes u width).length = width := by
  unfold fieldToBytes ljust
  simp [bytesOfUnits_length]; omega

/-- **application title**: parsing the serialised value returns the value … -/
theorem apptitle_roundtrip (t : AppTitle) (h1 : GoodField t.short 0x80) (h2 : GoodField t.long 0x100)
    (h3 : GoodField t.publisher 0x80) : AppTitle.fromBytes t.toBytes = .ok t := by
  unfold AppTitle.fromBytes AppTitle.toBytes
  have l1 := fieldToBytes_length t.short 0x80 h1.fit
  have l2 := fieldToBytes_length t.long 0x100 h2.fit
  have l3 := fieldToBytes_length t.publisher 0x80 h3.fit
  have s1 : slice (fieldToBytes t.short 0x80 ++ fieldToBytes t.long 0x100 ++ fieldToBytes t.publisher 0x80) 0 0x80
      = fieldToBytes t.short 0x80 := by
    rw [List.append_assoc, slice_append_left _ _ 0 0x80 (by omega), slice_all _ _ (by omega)]
  have s2 : slice (fieldToBytes t.short 0x80 ++ fieldToBytes t.long 0x100 ++ fieldToBytes t.publisher 0x80) 0x80 0x100
      = fieldToBytes t.long 0x100 := by
    rw [List.append_assoc]
    have := SeedDb.slice_drop_prefix (fieldToBytes t.short 0x80) (fieldToBytes t.long 0x100 ++ fieldToBytes t.publisher 0x80) 0 0x100
    rw [l1] at this
    rw [this, slice_append_left _ _ 0 0x100 (by omega), slice_all _ _ (by omega)]
  have s3 : slice (fieldToBytes t.short 0x80 ++ fieldToBytes t.long 0x100 ++ fieldToBytes t.publisher 0x80) 0x180 0x80
      = fieldToBytes t.publisher 0x80 := by
    have := SeedDb.slice_drop_prefix (fieldToBytes t.short 0x80 ++ fieldToBytes t.long 0x100) (fieldToBytes t.publisher 0x80) 0 0x80
    rw [List.length_append, l1, l2] at this
    rw [this, slice_all _ _ (by omega)]
  rw [s1, s2, s3, field_roundtrip _ _ (by decide) h1.fit h1.units h1.valid h1.head h1.last,
    field_roundtrip _ _ (by decide) h2.fit h2.units h2.valid h2.head h2.last,
    field_roundtrip _ _ (by decide) h3.fit h3.units h3.valid h3.head h3.last]

/-- … and serialising a parsed canonical image (one written from such a value) returns the image -/
theorem apptitle_canonical (t : AppTitle) (h1 : GoodField t.short 0x80) (h2 : GoodField t.long 0x100)
    (h3 : GoodField t.publisher 0x80) (raw : Bytes) (hraw : raw = t.toBytes) :
    (AppTitle.fromBytes raw).map AppTitle.toBytes = .ok raw := by
  rw [hraw, apptitle_roundtrip t h1 h2 h3]; rfl
end Smdh
end Pyctr
