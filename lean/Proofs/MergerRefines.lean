import PyctrModel.IO.Merger
import Proofs.BytesLemmas
import Proofs.AFileLemmas
import Proofs.ExefsProofs
namespace Pyctr
namespace Merger
variable {σ : Type} {F : FileOps σ} {inv : σ → Prop} {abs : σ → AFile}

/-- cumulative start offsets -/
def WfSegs : List (Seg σ) → Nat → Prop
  | [], _ => True
  | sg :: rest, cur => sg.start = cur ∧ WfSegs rest (cur + sg.size)

def segsTotal : List (Seg σ) → Nat
  | [] => 0
  | sg :: rest => sg.size + segsTotal rest

/-- the merged content: the first `size` bytes of each part, concatenated -/
def segContent (abs : σ → AFile) (files : List (Seg σ)) : Bytes :=
  files.flatMap fun sg => (abs sg.fh).content.take sg.size

def SegOK (inv : σ → Prop) (abs : σ → AFile) (sg : Seg σ) : Prop := inv sg.fh ∧ sg.size ≤ (abs sg.fh).content.length

theorem segContent_length (files : List (Seg σ)) (h : ∀ sg ∈ files, SegOK inv abs sg) :
    (segContent abs files).length = segsTotal files := by
  induction files with
  | nil => rfl
  | cons sg rest ih =>
    have h1 := (h sg (by simp)).2
    simp only [segContent, List.flatMap_cons, List.length_append, List.length_take, segsTotal] at ih ⊢
    rw [ih (fun s hs => h s (by simp [hs]))]; omega

/-- bytes of part `i` are where the cumulative offsets say -/
theorem segContent_slice (files : List (Seg σ)) (cur : Nat) (hw : WfSegs files cur) (h : ∀ sg ∈ files, SegOK inv abs sg)
    (i : Nat) (hi : i < files.length) (r k : Nat) (hrk : r + k ≤ files[i].size) :
    slice (segContent abs files) (files[i].start - cur + r) k = slice (abs files[i].fh).content r k := by
  induction files generalizing cur i with
  | nil => simp at hi
  | cons sg rest ih =>
    obtain ⟨hs, hw'⟩ := hw
    have hok := h sg (by simp)
    have hlen : ((abs sg.fh).content.take sg.size).length = sg.size := by
      rw [List.length_take]; have := hok.2; omega
    cases i with
    | zero =>
      simp only [List.getElem_cons_zero] at hrk ⊢
      rw [hs, Nat.sub_self, Nat.zero_add]
      simp only [segContent, List.flatMap_cons]
      rw [slice_append_left _ _ r k (by rw [hlen]; exact hrk)]
      simp only [slice, List.drop_take]
      rw [List.take_take]; congr 1; omega
    | succ j =>
      simp only [List.getElem_cons_succ] at hrk ⊢
      have hj : j < rest.length := by simpa using hi
      -- start of part j+1 is at least cur + sg.size
      have hge : ∀ (l : List (Seg σ)) (c : Nat), WfSegs l c → ∀ m (hm : m < l.length), c ≤ l[m].start := by
        intro l
        induction l with
        | nil => intro c _ m hm; simp at hm
        | cons a t iht =>
          intro c hwc m hm
          cases m with
          | zero => simp only [List.getElem_cons_zero]; exact Nat.le_of_eq hwc.1.symm
          | succ m' =>
            simp only [List.getElem_cons_succ]
            have := iht (c + a.size) hwc.2 m' (by simpa using hm); omega
      have hst := hge rest (cur + sg.size) hw' j hj
      have := ih (cur + sg.size) hw' (fun s hs' => h s (by simp [hs'])) j hj hrk
      rw [← this]
      simp only [segContent, List.flatMap_cons]
      rw [slice_append_right' _ _ _ (rest[j].start - (cur + sg.size) + r) k (by rw [hlen]; omega)]


theorem seg_end (files : List (Seg σ)) (cur : Nat) (hw : WfSegs files cur) (i : Nat) (hi : i < files.length) :
    files[i].start + files[i].size ≤ cur + segsTotal files ∧
    (∀ (h : i + 1 < files.length), files[i + 1].start = files[i].start + files[i].size) ∧
    (i + 1 = files.length → files[i].start + files[i].size = cur + segsTotal files) := by
  induction files generalizing cur i with
  | nil => simp at hi
  | cons sg rest ih =>
    obtain ⟨hs, hw'⟩ := hw
    cases i with
    | zero =>
      simp only [List.getElem_cons_zero, segsTotal]
      refine ⟨by omega, ?_, ?_⟩
      · intro h
        cases rest with
        | nil => simp at h
        | cons b t => simp only [List.getElem_cons_succ, List.getElem_cons_zero]; rw [hw'.1, hs]
      · intro h
        have : rest = [] := by cases rest with | nil => rfl | cons _ _ => simp at h
        subst this; simp [segsTotal]; omega
    | succ j =>
      have hj : j < rest.length := by simpa using hi
      obtain ⟨a, b, c⟩ := ih (cur + sg.size) hw' j hj
      simp only [List.getElem_cons_succ, segsTotal]
      refine ⟨by omega, ?_, ?_⟩
      · intro h; exact b (by simpa using h)
      · intro h; have := c (by simpa using h); omega

/-- position the part at `r` and read `k` bytes that lie inside it -/
theorem inner_read_at (hF : IsReadable F inv abs) (fh : σ) (r k : Nat) (hi : inv fh)
    (hk : r + k ≤ (abs fh).content.length) :
    ∃ f1 f2 p, F.seek fh (r : Int) 0 = .ok (p, f1) ∧ F.read f1 (k : Int) = .ok (slice (abs fh).content r k, f2) ∧
      (abs f2).content = (abs fh).content ∧ inv f2 := by
  have hseek : (abs fh).seek (r : Int) 0 = .ok (r, { abs fh with pos := r }) := by
    simp only [AFile.seek, AFile.size]
    have : ¬ ((r : Int) < 0) := by omega
    simp only [this, if_true, if_false, Int.toNat_natCast]
    cases (abs fh).clamp <;> simp <;> omega
  obtain ⟨f1, e1, a1, v1⟩ := hF.seek_ok fh _ 0 _ _ hi hseek
  obtain ⟨f2, e2, a2, v2⟩ := hF.read f1 (k : Int) v1
  have hlen : (abs f1).readLen (k : Int) = k := by
    rw [AFile.readLen_eq, a1]
    have : ¬ ((k : Int) < 0) := by omega
    simp only [this, if_false, Int.toNat_natCast]; omega
  refine ⟨f1, f2, r, e1, ?_, ?_, v2⟩
  · rw [e2, AFile.read_fst, hlen, a1]
  · rw [a2, AFile.read_snd_content, a1]

def geom (files : List (Seg σ)) : List (Nat × Nat) := files.map fun sg => (sg.start, sg.size)

def FilesInv (inv : σ → Prop) (abs : σ → AFile) (files : List (Seg σ)) : Prop :=
  WfSegs files 0 ∧ ∀ sg ∈ files, SegOK inv abs sg

/-- replacing the handle of part `i` by one with the same abstract content changes nothing that matters -/
theorem set_preserve (files : List (Seg σ)) (i : Nat) (hi : i < files.length) (f2 : σ)
    (hc : (abs f2).content = (abs files[i].fh).content) (hv : inv f2) (h : FilesInv inv abs files) :
    FilesInv inv abs (files.set i { files[i] with fh := f2 }) ∧
    segContent abs (files.set i { files[i] with fh := f2 }) = segContent abs files ∧
    geom (files.set i { files[i] with fh := f2 }) = geom files := by
  have hg : geom (files.set i { files[i] with fh := f2 }) = geom files := by
    simp only [geom, List.map_set]
    apply List.ext_getElem?; intro j
    simp only [List.getElem?_set, List.getElem?_map]
    by_cases hj : i = j
    · subst hj; simp [hi]
    · simp [hj]
  have hw : ∀ (l : List (Seg σ)) (l' : List (Seg σ)) (c : Nat), geom l' = geom l → WfSegs l c → WfSegs l' c := by
    intro l
    induction l with
    | nil => intro l' c hgl _; cases l' with | nil => trivial | cons _ _ => simp [geom] at hgl
    | cons a t iht =>
      intro l' c hgl hwl
      cases l' with
      | nil => simp [geom] at hgl
      | cons a' t' =>
        simp only [geom, List.map_cons, List.cons.injEq, Prod.mk.injEq] at hgl
        exact ⟨by rw [hgl.1.1]; exact hwl.1, by rw [hgl.1.2]; exact iht t' _ hgl.2 hwl.2⟩
  refine ⟨⟨hw files _ 0 hg h.1, ?_⟩, ?_, hg⟩
  · intro sg hsg
    rcases List.mem_or_eq_of_mem_set hsg with hm | rfl
    · exact h.2 sg hm
    · have := h.2 files[i] (List.getElem_mem hi)
      exact ⟨hv, by simp only; rw [hc]; exact this.2⟩
  · simp only [segContent]
    apply List.ext_getElem?; intro j
    congr 1
    rw [List.flatMap_def, List.flatMap_def, List.map_set]
    congr 1
    apply List.ext_getElem?; intro m
    simp only [List.getElem?_set, List.getElem?_map]
    by_cases hm : i = m
    · subst hm; simp [hi, hc]
    · simp [hm]


theorem geom_length {a b : List (Seg σ)} (h : geom a = geom b) : a.length = b.length := by
  have := congrArg List.length h; simpa [geom] using this

theorem geom_get {a b : List (Seg σ)} (h : geom a = geom b) (i : Nat) (ha : i < a.length) (hb : i < b.length) :
    a[i].start = b[i].start ∧ a[i].size = b[i].size := by
  have := congrArg (fun l => l[i]?) h
  simp only [geom, List.getElem?_map, List.getElem?_eq_getElem ha, List.getElem?_eq_getElem hb, Option.map_some,
    Option.some.injEq, Prod.mk.injEq] at this
  exact this

theorem geom_total {a b : List (Seg σ)} (h : geom a = geom b) : segsTotal a = segsTotal b := by
  induction a generalizing b with
  | nil => cases b with | nil => rfl | cons _ _ => simp [geom] at h
  | cons x t ih =>
    cases b with
    | nil => simp [geom] at h
    | cons y u =>
      simp only [geom, List.map_cons, List.cons.injEq, Prod.mk.injEq] at h
      simp only [segsTotal, h.1.2, ih h.2]

/-- the `while True` loop of `read`: from a position inside part `idx`, `left` more bytes (all inside the merged
    file) are collected part by part; the result is the slice of the merged content -/
theorem readLoop_spec (hF : IsReadable F inv abs) : ∀ (fuel : Nat) (files : List (Seg σ)) (idx fake left : Nat) (acc : Bytes),
    FilesInv inv abs files → (hidx : idx < files.length) → files[idx].start ≤ fake →
    fake ≤ files[idx].start + files[idx].size → 0 < left → fake + left ≤ segsTotal files → files.length - idx ≤ fuel →
    ∃ files' idx', readLoop F fuel files idx fake left acc =
        .ok (acc ++ slice (segContent abs files) fake left, files', idx', fake + left) ∧
      FilesInv inv abs files' ∧ segContent abs files' = segContent abs files ∧ geom files' = geom files ∧
      ∃ (h' : idx' < files'.length), files'[idx'].start ≤ fake + left ∧
        fake + left ≤ files'[idx'].start + files'[idx'].size := by
  intro fuel
  induction fuel with
  | zero => intro files idx fake left acc _ hidx _ _ _ _ hf; omega
  | succ n ih =>
    intro files idx fake left acc hinv hidx hlo hhi hleft htot hfuel
    have hok := hinv.2 files[idx] (List.getElem_mem hidx)
    generalize hr : fake - files[idx].start = r
    generalize ht : min (files[idx].size - r) left = t
    have hrt : r + t ≤ files[idx].size := by omega
    obtain ⟨f1, f2, p, e1, e2, c2, v2⟩ := inner_read_at hF files[idx].fh r t hok.1 (by have := hok.2; omega)
    obtain ⟨hinv', hcont', hgeom'⟩ := set_preserve files idx hidx f2 c2 v2 hinv
    have hdata : slice (abs files[idx].fh).content r t = slice (segContent abs files) fake t := by
      have := segContent_slice files 0 hinv.1 hinv.2 idx hidx r t hrt
      rw [← this]; congr 1; omega
    unfold readLoop
    simp only [List.getElem?_eq_getElem hidx, hr, ht]
    have e1' : F.seek files[idx].fh (↑r) 0 = .ok (p, f1) := e1
    simp only [e1', e2, bind, Except.bind]
    by_cases hdone : left - t = 0
    · -- everything was available in this part
      have htl : t = left := by omega
      simp only [hdone, if_true]
      refine ⟨_, idx, ?_, hinv', hcont', hgeom', ?_⟩
      · rw [hdata, htl]
      · have hl := geom_length hgeom'
        refine ⟨by rw [hl]; exact hidx, ?_⟩
        obtain ⟨gs, gz⟩ := geom_get hgeom' idx (by rw [hl]; exact hidx) hidx
        rw [gs, gz]; omega
    · simp only [hdone, if_false]
      have htlt : t < left := by omega
      have htsz : t = files[idx].size - r := by omega
      obtain ⟨_, hnext, hlast⟩ := seg_end files 0 hinv.1 idx hidx
      have hnl : idx + 1 < files.length := by
        apply Classical.byContradiction; intro hc
        have := hlast (by omega); omega
      have hl := geom_length hgeom'
      have hnl' : idx + 1 < (files.set idx { files[idx] with fh := f2 }).length := by rw [hl]; exact hnl
      obtain ⟨gs, gz⟩ := geom_get hgeom' (idx + 1) hnl' hnl
      have hfake' : fake + t = files[idx + 1].start := by rw [hnext hnl]; omega
      obtain ⟨files', idx', e, hi2, hc2, hg2, hb⟩ := ih (files.set idx { files[idx] with fh := f2 }) (idx + 1) (fake + t) (left - t)
        (acc ++ slice (abs files[idx].fh).content r t) hinv' hnl' (by rw [gs]; omega) (by rw [gs]; omega) (by omega)
        (by rw [geom_total hgeom']; omega) (by rw [hl]; omega)
      refine ⟨files', idx', ?_, hi2, by rw [hc2, hcont'], by rw [hg2, hgeom'], ?_⟩
      · have q1 : t + (left - t) = left := by omega
        have q2 : fake + t + (left - t) = fake + left := by omega
        rw [e, hcont', hdata, List.append_assoc, slice_append_slice, q1, q2]
      · obtain ⟨h', b1, b2⟩ := hb
        have q2 : fake + t + (left - t) = fake + left := by omega
        rw [q2] at b1 b2
        exact ⟨h', b1, b2⟩


theorem findIdx_exists (files : List (Seg σ)) (cur pos : Nat) (hw : WfSegs files cur) (hlo : cur ≤ pos)
    (hhi : pos < cur + segsTotal files) :
    ∃ i, findIdx files pos = some i ∧ ∃ (h : i < files.length), files[i].start ≤ pos ∧ pos < files[i].start + files[i].size := by
  induction files generalizing cur with
  | nil => simp [segsTotal] at hhi; omega
  | cons sg rest ih =>
    obtain ⟨hs, hw'⟩ := hw
    by_cases hin : sg.start ≤ pos ∧ pos < sg.start + sg.size
    · refine ⟨0, ?_, by simp, by simpa using hin⟩
      simp [findIdx, List.findIdx?_cons, hin]
    · have hge : cur + sg.size ≤ pos := by rw [hs] at hin; omega
      simp only [segsTotal] at hhi
      obtain ⟨i, hf, hi, hb⟩ := ih (cur + sg.size) hw' hge (by omega)
      refine ⟨i + 1, ?_, by simpa using hi, by simpa using hb⟩
      have hdec : decide (sg.start ≤ pos ∧ pos < sg.start + sg.size) = false := by simpa using hin
      simp only [findIdx, List.findIdx?_cons, hdec] at hf ⊢
      simp only [Bool.false_eq_true, if_false]
      rw [hf]; rfl

theorem findIdx_some (files : List (Seg σ)) (pos i : Nat) (h : findIdx files pos = some i) :
    ∃ (hi : i < files.length), files[i].start ≤ pos ∧ pos < files[i].start + files[i].size := by
  simp only [findIdx] at h
  have := List.findIdx?_eq_some_iff_getElem.mp h
  obtain ⟨hi, hp, _⟩ := this
  exact ⟨hi, by simpa using hp⟩

def invM (inv : σ → Prop) (abs : σ → AFile) (m : Merger σ) : Prop :=
  FilesInv inv abs m.files ∧ m.total = segsTotal m.files ∧
  (m.fake < m.total → ∃ (h : m.idx < m.files.length),
     m.files[m.idx].start ≤ m.fake ∧ m.fake ≤ m.files[m.idx].start + m.files[m.idx].size)

def absM (abs : σ → AFile) (m : Merger σ) : AFile := ⟨segContent abs m.files, m.fake, true, false⟩

theorem calcSeek_inv (m : Merger σ) (pos : Nat) (h : invM inv abs m) :
    invM inv abs (calcSeek m pos) ∧ (calcSeek m pos).fake = pos ∧ (calcSeek m pos).files = m.files := by
  unfold calcSeek
  split
  · rename_i i hf
    obtain ⟨hi, hb⟩ := findIdx_some m.files pos i hf
    exact ⟨⟨h.1, h.2.1, fun _ => ⟨hi, hb.1, Nat.le_of_lt hb.2⟩⟩, rfl, rfl⟩
  · rename_i hf
    refine ⟨⟨h.1, h.2.1, ?_⟩, rfl, rfl⟩
    intro hlt
    simp only at hlt
    obtain ⟨i, hfi, _⟩ := findIdx_exists m.files 0 pos h.1.1 (by omega) (by rw [← h.2.1]; omega)
    rw [hf] at hfi; cases hfi

theorem read_refines (hF : IsReadable F inv abs) (m : Merger σ) (n : Int) (h : invM inv abs m) :
    ∃ m', Merger.read F m n = .ok (((absM abs m).read n).1, m') ∧
      absM abs m' = ((absM abs m).read n).2 ∧ invM inv abs m' := by
  have hlen : (absM abs m).content.length = m.total := by
    rw [h.2.1]; exact segContent_length m.files h.1.2
  generalize hk : (absM abs m).readLen n = k
  have hk' : (if n < 0 then m.total - m.fake else if (m.fake : Int) + n > m.total then m.total - m.fake else n.toNat) = k := by
    rw [← hk, AFile.readLen_eq, hlen]
    simp only [absM]
    split
    · rfl
    · split <;> omega
  unfold Merger.read
  simp only [hk']
  by_cases hz : k = 0
  · subst hz
    refine ⟨m, ?_, ?_, h⟩
    · simp [AFile.read_fst, hk, slice]
    · apply AFile.ext' <;> simp [AFile.read_snd_content, AFile.read_snd_pos, AFile.read_snd_fixed, AFile.read_snd_clamp, hk]
  · simp only [hz, if_false]
    have hkle : k ≤ m.total - m.fake := by
      rw [← hk, ← hlen]; exact (by rw [AFile.readLen_eq]; simp only [absM]; split <;> omega)
    have hlt : m.fake < m.total := by omega
    obtain ⟨hidx, hlo, hhi⟩ := h.2.2 hlt
    obtain ⟨files', idx', e, hi2, hc2, hg2, h', b1, b2⟩ :=
      readLoop_spec hF (m.files.length + 1) m.files m.idx m.fake k [] h.1 hidx hlo hhi (by omega)
        (by rw [← h.2.1]; omega) (by omega)
    refine ⟨{ m with files := files', idx := idx', fake := m.fake + k }, ?_, ?_, ?_⟩
    · simp only [e, bind, Except.bind, List.nil_append, AFile.read_fst, hk]; rfl
    · apply AFile.ext'
      · simp only [absM, hc2, AFile.read_snd_content]
      · simp only [absM, AFile.read_snd_pos]; rw [← hk]; rfl
      · rfl
      · rfl
    · exact ⟨hi2, by simp only; rw [geom_total hg2]; exact h.2.1, fun _ => ⟨h', b1, b2⟩⟩


theorem absM_calcSeek (m : Merger σ) (pos : Nat) (h : invM inv abs m) :
    absM abs (calcSeek m pos) = { absM abs m with pos := pos } := by
  obtain ⟨_, hf, hfl⟩ := calcSeek_inv (inv := inv) (abs := abs) m pos h
  simp only [absM, hf, hfl]

/-- seek on the merged file is the ordinary (unclamped) file seek -/
theorem seek_eq (m : Merger σ) (h : invM inv abs m) (off wh : Int) :
    (match Merger.seekOp m off wh with
     | .error e => (absM abs m).seek off wh = .error e
     | .ok (p, m') => (absM abs m).seek off wh = .ok (p, absM abs m') ∧ invM inv abs m') := by
  have hlen : (absM abs m).content.length = m.total := by
    rw [h.2.1]; exact segContent_length m.files h.1.2
  have hclamp : (absM abs m).clamp = false := rfl
  simp only [Merger.seekOp, AFile.seek, AFile.size, hlen, hclamp]
  by_cases h0 : wh = 0
  · subst h0
    by_cases ho : off < 0
    · simp [ho]
    · obtain ⟨hi, hf, _⟩ := calcSeek_inv (inv := inv) (abs := abs) m off.toNat h
      simp only [ho, if_false, if_true, Bool.false_eq_true, hf, absM_calcSeek m off.toNat h]
      exact ⟨rfl, hi⟩
  · by_cases h1 : wh = 1
    · subst h1
      have e : ((m.fake : Int) + (if (m.fake : Int) + off < 0 then -(m.fake : Int) else off)).toNat = ((m.fake : Int) + off).toNat := by
        split <;> omega
      obtain ⟨hi, hf, _⟩ := calcSeek_inv (inv := inv) (abs := abs) m ((m.fake : Int) + off).toNat h
      simp only [show ¬ ((1 : Int) = 0) by omega, if_false, if_true, e, hf, absM_calcSeek m _ h]
      exact ⟨rfl, hi⟩
    · by_cases h2 : wh = 2
      · subst h2
        have e : ((m.total : Int) + (if (m.total : Int) + off < 0 then -(m.total : Int) else off)).toNat = ((m.total : Int) + off).toNat := by
          split <;> omega
        obtain ⟨hi, hf, _⟩ := calcSeek_inv (inv := inv) (abs := abs) m ((m.total : Int) + off).toNat h
        simp only [show ¬ ((2 : Int) = 0) by omega, show ¬ ((2 : Int) = 1) by omega, if_false, if_true, e, hf,
          absM_calcSeek m _ h]
        exact ⟨rfl, hi⟩
      · simp [h0, h1, h2]

/-- **C09 (SplitFileMerger).**  The concatenation of readable parts reads like one ordinary file holding the parts'
    first `size` bytes in order — any integer read size, any seek — and never writes. -/
theorem merger_isReadOnly (hF : IsReadable F inv abs) :
    IsReadOnly (Merger.ops F) (invM inv abs) (absM abs) where
  read m n h := read_refines hF m n h
  seek_err m off wh e h he := by
    have := seek_eq m h off wh
    simp only [Merger.ops]
    cases hs : Merger.seekOp m off wh with
    | error e' => rw [hs] at this; simp only at this; rw [this] at he; cases he; rfl
    | ok v => obtain ⟨p, m'⟩ := v; rw [hs] at this; simp only at this; rw [this.1] at he; cases he
  seek_ok m off wh p a' h he := by
    have := seek_eq m h off wh
    simp only [Merger.ops]
    cases hs : Merger.seekOp m off wh with
    | error e' => rw [hs] at this; simp only at this; rw [this] at he; cases he
    | ok v =>
      obtain ⟨p', m'⟩ := v; rw [hs] at this; simp only at this
      rw [this.1] at he; cases he
      exact ⟨m', rfl, rfl, this.2⟩
  tell m h := ⟨m, rfl, rfl, h⟩
  write _ _ _ := Or.inl ⟨_, rfl⟩

/-- a freshly constructed merger satisfies the invariant -/
theorem create_inv (parts : List (σ × Nat)) (hp : ∀ p ∈ parts, inv p.1 ∧ p.2 ≤ (abs p.1).content.length) :
    invM inv abs (Merger.create parts) := by
  have hw : ∀ (l : List (σ × Nat)) (c : Nat), WfSegs (mkSegs l c) c := by
    intro l; induction l with
    | nil => intro c; trivial
    | cons a t ih => intro c; obtain ⟨fh, sz⟩ := a; exact ⟨rfl, ih (c + sz)⟩
  have hok : ∀ (l : List (σ × Nat)) (c : Nat), (∀ p ∈ l, inv p.1 ∧ p.2 ≤ (abs p.1).content.length) →
      ∀ sg ∈ mkSegs l c, SegOK inv abs sg := by
    intro l; induction l with
    | nil => intro c _ sg hsg; cases hsg
    | cons a t ih =>
      intro c h sg hsg
      obtain ⟨fh, sz⟩ := a
      simp only [mkSegs, List.mem_cons] at hsg
      rcases hsg with rfl | hsg
      · exact h (fh, sz) (by simp)
      · exact ih (c + sz) (fun p hp' => h p (by simp [hp'])) sg hsg
  have htot : ∀ (l : List (σ × Nat)) (c : Nat), (l.map (·.2)).sum = segsTotal (mkSegs l c) := by
    intro l; induction l with
    | nil => intro c; rfl
    | cons a t ih => intro c; obtain ⟨fh, sz⟩ := a; simp [mkSegs, segsTotal, ih (c + sz)]
  refine ⟨⟨hw parts 0, hok parts 0 hp⟩, htot parts 0, ?_⟩
  intro hlt
  simp only [Merger.create] at hlt ⊢
  -- position 0 lies in the first part (possibly of size 0)
  cases parts with
  | nil => simp at hlt
  | cons a t => obtain ⟨fh, sz⟩ := a; exact ⟨by simp [mkSegs], by simp [mkSegs], by simp [mkSegs]⟩

end Merger
end Pyctr
