/-
  What a write through the hash tree leaves alone INSIDE the partition: everything outside the two data windows
  (in particular the DPFS level-1 / level-2 tables), and the shape of the master-hash list.
-/
import Proofs.SaveWriteRefines
namespace Pyctr
namespace Save

/-- a position of the partition outside the two data windows (the DPFS level-3 pair and the external level-4 window) -/
def OutsideData (t : Tree) (y : Nat) : Prop :=
  (y < t.dp.lv3.offset ∨ t.dp.lv3.offset + t.dp.lv3.size * 2 ≤ y) ∧
  ∀ eo es, t.external = some (eo, es) → (y < eo ∨ eo + es ≤ y)

theorem levelWrite_frame (w : Win) (t : Tree) (master : List Bytes) (g : GeomP w.bytes t master) (idx : Nat) (hidx : idx < 4)
    (off : Nat) (data : Bytes) (hne : data ≠ []) (hin : off + data.length ≤ (t.level idx).size)
    (n : Nat) (w' : Win) (h : levelWrite w t idx off data = .ok (n, w')) :
    ∀ y, OutsideData t y → w'.bytes[y]? = w.bytes[y]? := by
  intro y hy
  unfold levelWrite at h
  simp only at h
  rw [Nat.min_eq_left (by omega : off ≤ (t.level idx).size), List.take_of_length_le (by omega)] at h
  cases hx : (if 3 ≤ idx then t.external else none) with
  | none =>
    rw [hx] at h
    simp only at h
    have hint : t.internal idx = true := (internal_iff t idx).mpr hx
    have hins := g.inside idx hidx hint
    rw [Nat.min_eq_left (by omega)] at h
    obtain ⟨v1, v2, v3, v4, v5, v6, v7, v8⟩ := dpWrite_view w t.dp g.dpwf _ data hne (by omega) w' n h
    exact v8 y hy.1
  | some p =>
    obtain ⟨eo, es⟩ := p
    rw [hx] at h
    simp only at h
    have h3 : 3 ≤ idx := by
      by_cases h3 : 3 ≤ idx
      · exact h3
      · rw [if_neg h3] at hx; cases hx
    rw [if_pos h3] at hx
    obtain ⟨e1, e2, e3⟩ := g.ext eo es hx
    have hl : (t.level idx).size = es := by
      rw [e1]; unfold Tree.level
      rw [if_neg (by omega), if_neg (by omega), if_neg (by omega)]
    rw [Nat.min_eq_left (by omega : off ≤ es), List.take_of_length_le (by omega)] at h
    have hpair := Except.ok.inj h
    have hw : (w.write (eo + off) data).2 = w' := by rw [hpair]
    obtain ⟨s1, s2, s3, s4, s5, s6⟩ := Win.write_spec w (eo + off) data (by omega)
    rw [hw] at s2
    rw [s2, overlay_getElem?]
    rcases hy.2 eo es hx with hlo | hhi
    · rw [if_pos (by omega), if_pos (by omega)]
    · rw [if_neg (by omega), if_neg (by omega)]

theorem foldSet_length (hs : List Bytes) (sb : Nat) : ∀ n, ∀ m : List Bytes,
    ((List.range n).foldl (fun (m : List Bytes) i => m.set (sb + i) (hs.getD i [])) m).length = m.length := by
  intro n
  induction n with
  | zero => intro m; rfl
  | succ n ih =>
    intro m
    rw [List.range_succ, List.foldl_append]
    simp only [List.foldl_cons, List.foldl_nil]
    rw [List.length_set, ih]

theorem setMaster_shape (hs : List Bytes) (hhs : ∀ x ∈ hs, x.length = 0x20) (sb : Nat) :
    ∀ n, n ≤ hs.length → ∀ m : List Bytes, (∀ x ∈ m, x.length = 0x20) →
      ((List.range n).foldl (fun (m : List Bytes) i => m.set (sb + i) (hs.getD i [])) m).length = m.length ∧
      ∀ x ∈ (List.range n).foldl (fun (m : List Bytes) i => m.set (sb + i) (hs.getD i [])) m, x.length = 0x20 := by
  intro n
  induction n with
  | zero => intro _ m hm; exact ⟨rfl, hm⟩
  | succ n ih =>
    intro hn m hm
    obtain ⟨a, b⟩ := ih (by omega) m hm
    rw [List.range_succ, List.foldl_append]
    simp only [List.foldl_cons, List.foldl_nil]
    refine ⟨by rw [List.length_set, a], ?_⟩
    intro x hx
    rcases List.mem_or_eq_of_mem_set hx with h | h
    · exact b x h
    · rw [h, List.getD_eq_getElem?_getD, List.getElem?_eq_getElem (by omega)]
      exact hhs _ (List.getElem_mem _)

/-- a write through the hash tree leaves every byte of the partition outside the two data windows alone (in particular the
    DPFS level-1 / level-2 tables when those lie outside) -/
theorem writeData_frame (H : Bytes → Bytes) (t : Tree) (hH : ∀ x, (H x).length = 0x20) :
    ∀ (idx : Nat), idx < 4 → ∀ (offset : Nat) (data : Bytes) (s s' : WState),
      GeomP s.w.bytes t s.master → data ≠ [] → offset + data.length ≤ (t.level idx).size →
      writeData H t idx offset data s = .ok s' →
      (∀ y, OutsideData t y → s'.w.bytes[y]? = s.w.bytes[y]?) ∧ s'.masterTouched = true ∧
        s'.master.length = s.master.length ∧ ((∀ x ∈ s.master, x.length = 0x20) → ∀ x ∈ s'.master, x.length = 0x20) := by
  intro idx
  induction idx with
  | zero =>
    intro _ offset data s s' g hne hin h
    have hdl : 0 < data.length := by cases data with | nil => exact absurd rfl hne | cons a r => simp
    unfold writeData at h
    simp only at h
    cases hlw : levelWrite s.w t 0 offset data with
    | error e => rw [hlw] at h; cases h
    | ok r =>
      obtain ⟨n, w'⟩ := r
      rw [hlw] at h
      simp only at h
      have lf := levelWrite_frame s.w t s.master g 0 (by omega) offset data hne hin n w' hlw
      obtain ⟨l1, l2, l3, l4, l5, l6, l7⟩ := levelWrite_spec s.w t s.master g 0 (by omega) offset data hne hin n w' hlw
      have g' := l6 _ g
      have htw' := geomP_treeWF _ _ _ g'
      obtain ⟨r1, r2, r3, r4⟩ := touched_range offset data.length (t.level 0).bs (t.level 0).bs_pos hdl
      rw [reread_spec H w'.bytes t htw' 0 _ _ (fun i hi => by
        have : (offset / (t.level 0).bs + i) * (t.level 0).bs ≤
            max ((offset + data.length + (t.level 0).bs - 1) / (t.level 0).bs - 1) (offset / (t.level 0).bs) * (t.level 0).bs :=
          Nat.mul_le_mul_right _ (by omega)
        omega)] at h
      simp only at h
      generalize hbh : blockHashes H (levelBytes w'.bytes t 0) (t.level 0).bs (offset / (t.level 0).bs)
          (max ((offset + data.length + (t.level 0).bs - 1) / (t.level 0).bs - 1) (offset / (t.level 0).bs) + 1 - offset / (t.level 0).bs) = hs at h
      have hhs : ∀ x ∈ hs, x.length = 0x20 := by
        intro x hx
        rw [← hbh] at hx
        simp only [blockHashes, List.mem_map] at hx
        obtain ⟨i, _, hi⟩ := hx
        rw [← hi]; exact hH _
      split at h
      · cases h
      · simp only [Except.ok.injEq] at h
        subst h
        exact ⟨lf, rfl, foldSet_length hs _ hs.length s.master,
          fun hm => (setMaster_shape hs hhs _ hs.length (Nat.le_refl _) s.master hm).2⟩
  | succ up ih =>
    intro hidx offset data s s' g hne hin h
    have hdl : 0 < data.length := by cases data with | nil => exact absurd rfl hne | cons a r => simp
    have htw := geomP_treeWF _ _ _ g
    rw [writeData] at h
    cases hlw : levelWrite s.w t (up + 1) offset data with
    | error e => rw [hlw] at h; cases h
    | ok r =>
      obtain ⟨n, w'⟩ := r
      rw [hlw] at h
      simp only at h
      obtain ⟨l1, l2, l3, l4, l5, l6, l7⟩ := levelWrite_spec s.w t s.master g (up + 1) hidx offset data hne hin n w' hlw
      have lf := levelWrite_frame s.w t s.master g (up + 1) hidx offset data hne hin n w' hlw
      have g' := l6 _ g
      have htw' := geomP_treeWF _ _ _ g'
      obtain ⟨r1, r2, r3, r4⟩ := touched_range offset data.length (t.level (up + 1)).bs (t.level (up + 1)).bs_pos hdl
      generalize hsb : offset / (t.level (up + 1)).bs = sb at *
      generalize heb : max ((offset + data.length + (t.level (up + 1)).bs - 1) / (t.level (up + 1)).bs - 1) sb = eb at *
      rw [reread_spec H w'.bytes t htw' (up + 1) _ _ (fun i hi => by
        have : (sb + i) * (t.level (up + 1)).bs ≤ eb * (t.level (up + 1)).bs := Nat.mul_le_mul_right _ (by omega)
        omega)] at h
      simp only at h
      have hhl : ∀ x, x ∈ blockHashes H (levelBytes w'.bytes t (up + 1)) (t.level (up + 1)).bs sb (eb + 1 - sb) → x.length = 0x20 := by
        intro x hx
        simp only [blockHashes, List.mem_map] at hx
        obtain ⟨i, _, hi⟩ := hx
        rw [← hi]; exact hH _
      have hHF := flatten_hash_length _ hhl
      rw [blockHashes_length] at hHF
      have hebn : eb < nblocks (t.level (up + 1)).size (t.level (up + 1)).bs := lt_nblocks _ _ _ (t.level (up + 1)).bs_pos (by omega)
      have hroom := g.room up (by omega)
      have hfit : sb * 0x20 + (eb + 1 - sb) * 0x20 ≤ (t.level up).size := by
        have : sb * 0x20 + (eb + 1 - sb) * 0x20 = (eb + 1) * 0x20 := by rw [← Nat.add_mul]; congr 1; omega
        have : (eb + 1) * 0x20 ≤ nblocks (t.level (up + 1)).size (t.level (up + 1)).bs * 0x20 := Nat.mul_le_mul_right _ (by omega)
        omega
      obtain ⟨i1, i2, i3, i4⟩ := ih (by omega) (sb * 0x20) _ _ s' g'
        (by intro hc; have := congrArg List.length hc; rw [hHF] at this; simp at this; omega)
        (by rw [hHF]; exact hfit) h
      simp only at i1 i3 i4
      exact ⟨fun y hy => by rw [i1 y hy, lf y hy], i2, i3, i4⟩

end Save
end Pyctr
