/-
  Re-opening after a write, DISA containers (one or two partitions sharing one descriptor table): `Synced` is preserved by a
  write through the verified level-4 view of either partition.
-/
import Proofs.SaveReopen
namespace Pyctr
namespace Save


theorem getD_assign (d : Bytes) (a : Nat) (w : Bytes) (h : a + w.length ≤ d.length) (i : Nat) (hi : i < a) (z : UInt8) :
    (assign d a w).getD i z = d.getD i z := by
  rw [List.getD_eq_getElem?_getD, List.getD_eq_getElem?_getD, assign_getElem? d a w h, if_pos hi]

theorem loadPartition_congr (F F' : Bytes) (index descOff : Nat) (pd : Bytes) (pOff pSize : Nat)
    (h : slice F' pOff pSize = slice F pOff pSize) :
    loadPartition F' index descOff pd pOff pSize = loadPartition F index descOff pd pOff pSize := by
  unfold loadPartition; rw [h]

/-- what a successful `openDisa` says -/
theorem openDisa_inv (H : Bytes → Bytes) (F : Bytes) (w : Bool) (c0 : Cont) (h : openDisa H F w = .ok c0) :
    let hd := slice F 0x100 0x100
    let tb := slice F (disaTableOff hd) (le hd 0x20 8)
    slice hd 0 8 = disaMagic ∧ H tb = slice hd 0x6C 0x20 ∧
    ∃ pa, loadPartition F 0 (le hd 0x28 8) (slice tb (le hd 0x28 8) (le hd 0x30 8)) (le hd 0x48 8) (le hd 0x50 8) = .ok pa ∧
      ((le hd 0x8 4 = 2 ∧ ∃ pb, loadPartition F 1 (le hd 0x38 8) (slice tb (le hd 0x38 8) (le hd 0x40 8)) (le hd 0x58 8)
            (le hd 0x60 8) = .ok pb ∧ c0 = ⟨.disa, F, hd, disaTableOff hd, le hd 0x20 8, [pa, pb], w⟩) ∨
       (le hd 0x8 4 ≠ 2 ∧ c0 = ⟨.disa, F, hd, disaTableOff hd, le hd 0x20 8, [pa], w⟩)) := by
  intro hd tb
  unfold openDisa at h
  simp only at h
  by_cases h1 : slice (slice F 0x100 0x100) 0 8 ≠ disaMagic
  · rw [if_pos h1] at h; split at h <;> cases h
  · rw [if_neg h1] at h
    by_cases h2 : H tb ≠ slice hd 0x6C 0x20
    · rw [if_pos h2] at h; cases h
    · rw [if_neg h2] at h
      cases hl : loadPartition F 0 (le hd 0x28 8) (slice tb (le hd 0x28 8) (le hd 0x30 8)) (le hd 0x48 8) (le hd 0x50 8) with
      | error e => rw [hl] at h; cases h
      | ok pa =>
        rw [hl] at h
        simp only at h
        refine ⟨Decidable.of_not_not h1, Decidable.of_not_not h2, pa, rfl, ?_⟩
        by_cases h3 : le hd 0x8 4 = 2
        · rw [if_pos h3] at h
          cases hl2 : loadPartition F 1 (le hd 0x38 8) (slice tb (le hd 0x38 8) (le hd 0x40 8)) (le hd 0x58 8) (le hd 0x60 8) with
          | error e => rw [hl2] at h; cases h
          | ok pb =>
            rw [hl2] at h
            simp only [Except.ok.injEq] at h
            exact Or.inl ⟨h3, pb, rfl, h.symm⟩
        · rw [if_neg h3] at h
          simp only [Except.ok.injEq] at h
          exact Or.inr ⟨h3, h.symm⟩

theorem slice_replaced (tb tb' pd : Bytes) (dO dS : Nat) (hl : tb'.length = tb.length)
    (hlen : pd.length = (slice tb dO dS).length) (hc : ∀ i, i < pd.length → tb'[dO + i]? = pd[i]?) :
    slice tb' dO dS = pd := by
  apply List.ext_getElem?
  intro i
  rw [slice_getElem?]
  rw [slice_length] at hlen
  by_cases hi : i < pd.length
  · rw [if_pos (by omega), hc i hi]
  · rw [List.getElem?_eq_none (by omega : pd.length ≤ i)]
    by_cases h2 : i < dS
    · rw [if_pos h2, List.getElem?_eq_none (by omega)]
    · rw [if_neg h2]

theorem slice_kept (tb tb' : Bytes) (dO dS : Nat) (hl : tb'.length = tb.length)
    (hc : ∀ i, i < (slice tb dO dS).length → tb'[dO + i]? = tb[dO + i]?) : slice tb' dO dS = slice tb dO dS := by
  apply slice_replaced tb tb' _ dO dS hl rfl
  intro i hi
  rw [hc i hi, slice_getElem?]
  rw [slice_length] at hi
  rw [if_pos (by omega)]

/-- the layout facts of a DISA container the re-open theorem needs -/
structure DisaLayout (c : Cont) (pi : Nat) (p : PartSt) : Prop where
  tOff : 0x200 ≤ c.tableOff
  tEnd : c.tableOff + c.tableSize ≤ c.F.length
  dIn : p.descOff + p.descSize ≤ c.tableSize
  pLo : c.tableOff + c.tableSize ≤ p.pOff
  pIn : p.pOff ≤ c.F.length
  others : ∀ j q, j ≠ pi → c.parts[j]? = some q →
    (q.descOff + q.descSize ≤ p.descOff ∨ p.descOff + p.descSize ≤ q.descOff) ∧
    c.tableOff + c.tableSize ≤ q.pOff ∧ (q.pOff + q.pSize ≤ p.pOff ∨ p.pOff + p.pSize ≤ q.pOff)



theorem lv4Write_synced_disa (H : Bytes → Bytes) (mac : Bytes → Bytes → Bytes) (cm : Option CmacScheme) (c : Cont) (pi : Nat)
    (p : PartSt) (hk : c.kind = .disa) (hp : c.parts[pi]? = some p) (data : Bytes) (n : Nat) (c' : Cont)
    (hH : ∀ x, (H x).length = 0x20) (hmac : ∀ k x, (mac k x).length = 0x10)
    (hs : Synced H c)
    (g : GeomP (p.P c.F) p.tree p.master)
    (hta : TablesApart p.dpfs p.tree)
    (hwf : DescWF ⟨p.difi, p.ivfc, p.dpfs, p.master⟩ p.descSize)
    (L : DisaLayout c pi p)
    (h : lv4Write H mac cm c pi data = .ok (n, c')) : Synced H c' := by
  have hs0 := hs
  obtain ⟨c0, ho, hst⟩ := hs
  rw [hk] at ho
  simp only [openCont] at ho
  obtain ⟨o1, o2, pa, oa, ocase⟩ := openDisa_inv H c.F c.writable c0 ho
  have hc0 : c0.header = slice c.F 0x100 0x100 ∧ c0.tableOff = disaTableOff (slice c.F 0x100 0x100) ∧
      c0.tableSize = le (slice c.F 0x100 0x100) 0x20 8 := by
    rcases ocase with ⟨_, pb, _, e⟩ | ⟨_, e⟩ <;> rw [e] <;> exact ⟨rfl, rfl, rfl⟩
  simp only [Cont.static, Prod.mk.injEq] at hst
  obtain ⟨_, s1, s2, s3, sparts⟩ := hst
  have sh : slice c.F 0x100 0x100 = c.header := by rw [← hc0.1]; exact s1
  have sto : disaTableOff c.header = c.tableOff := by rw [← sh, ← hc0.2.1]; exact s2
  have sts : le c.header 0x20 8 = c.tableSize := by rw [← sh, ← hc0.2.2]; exact s3
  rw [sh] at o1 o2 oa ocase
  rw [sto, sts] at o2 oa ocase
  have hFl : 0x200 ≤ c.F.length := by have := L.tOff; have := L.tEnd; omega
  have hhl : c.header.length = 0x100 := by rw [← sh, slice_length]; omega
  unfold lv4Write at h
  rw [hp] at h
  simp only at h
  generalize hd : (if p.seek + data.length > p.ivfc.lv4.size then data.take (p.ivfc.lv4.size - p.seek) else data) = d at h
  by_cases hde : d.isEmpty = true
  · rw [hde] at h
    simp only [if_true, Except.ok.injEq, Prod.mk.injEq] at h
    rw [← h.2]; exact hs0
  · have hne : d ≠ [] := by intro hc; rw [hc] at hde; exact hde rfl
    have hde' : d.isEmpty = false := by cases d with | nil => exact absurd rfl hne | cons _ _ => rfl
    rw [hde'] at h
    simp only [Bool.false_eq_true, if_false] at h
    by_cases hw : (!c.writable) = true
    · rw [if_pos hw] at h; cases h
    · rw [if_neg hw] at h
      have hlv4 : (p.tree.level 3).size = p.ivfc.lv4.size := rfl
      have hdin : p.seek + d.length ≤ (p.tree.level 3).size := by
        rw [hlv4, ← hd]
        by_cases hc : p.seek + data.length > p.ivfc.lv4.size
        · rw [if_pos hc, List.length_take]
          have : d.length ≠ 0 := by intro h0; exact hne (List.eq_nil_of_length_eq_zero h0)
          rw [← hd, if_pos hc, List.length_take] at this
          omega
        · rw [if_neg hc]; omega
      cases hwd : writeData H p.tree 3 p.seek d ⟨⟨c.F, p.pOff, p.pSize⟩, p.master, p.caches, false⟩ with
      | error e => rw [hwd] at h; cases h
      | ok s =>
        rw [hwd] at h
        simp only at h
        have hPeq : (⟨c.F, p.pOff, p.pSize⟩ : Win).bytes = p.P c.F := rfl
        obtain ⟨r1, r2, r3, r4, r5, r6⟩ := writeData_refines H p.tree hH 3 (by omega) p.seek d _ s (by rw [hPeq]; exact g) hne hdin hwd
        obtain ⟨f1, f2, f3, f4⟩ := writeData_frame H p.tree hH 3 (by omega) p.seek d _ s (by rw [hPeq]; exact g) hne hdin hwd
        simp only at r2 r3 r4 r5 f1 f3 f4
        rw [if_pos f2] at h
        cases hpd : partdescToBytes ⟨p.difi, p.ivfc, p.dpfs, s.master⟩ p.descSize with
        | none => rw [hpd] at h; cases h
        | some pd =>
          rw [hpd] at h
          simp only at h
          obtain ⟨pdl, pdr⟩ := partdesc_roundtrip _ _ pd (descWF_master _ _ _ _ _ _ hwf f3 (f4 hwf.hashLen)) hpd
          cases hu : updateHashes H mac cm c s.w.F p pd with
          | error e => rw [hu] at h; cases h
          | ok r =>
            obtain ⟨F'', header'⟩ := r
            rw [hu] at h
            simp only [Except.ok.injEq, Prod.mk.injEq] at h
            obtain ⟨_, hc'⟩ := h
            rw [updateHashes_disa_eq H mac cm c s.w.F p pd hk] at hu
            have hpdne : pd.isEmpty = false := by
              cases hq : pd with
              | nil => rw [hq] at pdl; have := hwf.aI; have := hwf.inI; simp at pdl; omega
              | cons _ _ => rfl
            rw [hpdne] at hu
            simp only [Bool.false_eq_true, if_false] at hu
            have hLd := L.dIn
            have hLe := L.tEnd
            have hLo := L.tOff
            have hLp := L.pLo
            have hF1l : (overlay s.w.F (c.tableOff + p.descOff) pd).length = c.F.length := by
              rw [overlay_length_inside _ _ _ (by rw [r4, pdl]; omega), r4]
            generalize hF1 : overlay s.w.F (c.tableOff + p.descOff) pd = F1 at hu hF1l
            obtain ⟨t1, t2, t3, t4⟩ := stage2_spec H mac cm c.header 0x6C _ (H (slice F1 c.tableOff c.tableSize)) F'' header'
              (by rw [hF1l]; exact hFl) hhl (by omega) (hH _) hmac hu
            generalize hdg : H (slice F1 c.tableOff c.tableSize) = dg at t1 hu
            have hdgl : dg.length = 0x20 := by rw [← hdg]; exact hH _
            have hal : 0x6C + dg.length ≤ c.header.length := by rw [hdgl, hhl]; decide
            have hle : ∀ b n, b + n ≤ 0x6C → le header' b n = le c.header b n := by
              intro b n hb; rw [t1, le_assign _ _ _ hal b n (Or.inl hb)]
            have e_magic : slice header' 0 8 = disaMagic := by
              rw [t1, assign_slice_other _ _ _ hal 0 8 (Or.inl (by omega))]; exact o1
            have e_off : disaTableOff header' = c.tableOff := by
              rw [← sto]; unfold disaTableOff
              rw [hle 0x18 8 (by omega), hle 0x10 8 (by omega), t1, getD_assign _ _ _ hal 0x68 (by omega)]
            have e_size : le header' 0x20 8 = c.tableSize := by rw [hle 0x20 8 (by omega)]; exact sts
            have e_hash : slice header' 0x6C 0x20 = dg := by
              rw [t1, ← hdgl]; exact (assign_slice c.header 0x6C dg hal).1
            have e_tb : slice F'' c.tableOff c.tableSize = slice F1 c.tableOff c.tableSize :=
              slice_congr F1 F'' _ _ (fun i hi _ => t4 i (by omega))
            have hF1get : ∀ z, F1[z]? = if z < c.tableOff + p.descOff then s.w.F[z]?
                else if z < c.tableOff + p.descOff + pd.length then pd[z - (c.tableOff + p.descOff)]? else s.w.F[z]? := by
              intro z
              rw [← hF1, overlay_getElem?]
              by_cases h1 : z < c.tableOff + p.descOff
              · rw [if_pos h1, if_pos h1, if_pos (by rw [r4]; omega)]
              · rw [if_neg h1, if_neg h1]
            have htbl : (slice F1 c.tableOff c.tableSize).length = (slice c.F c.tableOff c.tableSize).length := by
              rw [slice_length, slice_length, hF1l]
            have htbget : ∀ k, k < c.tableSize → (slice F1 c.tableOff c.tableSize)[k]? = F1[c.tableOff + k]? := by
              intro k hk; rw [slice_getElem?, if_pos hk]
            have htbget0 : ∀ k, k < c.tableSize → (slice c.F c.tableOff c.tableSize)[k]? = c.F[c.tableOff + k]? := by
              intro k hk; rw [slice_getElem?, if_pos hk]
            -- the partition window of the new file is the written window
            have hwin : slice F'' p.pOff p.pSize = s.w.bytes := by
              unfold Win.bytes
              rw [r2, r3]
              apply slice_congr
              intro i hi1 _
              rw [t4 i (by omega), hF1get, if_neg (by omega), if_neg (by rw [pdl]; omega)]
            have e_dp : ∀ dp0, mkDp (slice c.F p.pOff p.pSize) p.dpfs p.difi.selector = dp0 →
                mkDp (slice F'' p.pOff p.pSize) p.dpfs p.difi.selector = dp0 := by
              intro dp0 hq
              rw [← hq, hwin]
              apply mkDp_congr
              · intro y h1 h2; rw [f1 y (hta y (Or.inl ⟨h1, h2⟩))]; rfl
              · intro y h1 h2; rw [f1 y (hta y (Or.inr ⟨h1, h2⟩))]; rfl
            -- re-loading the written partition
            have hW : ∀ j dO dSf pO pS q0,
                loadPartition c.F j dO (slice (slice c.F c.tableOff c.tableSize) dO dSf) pO pS = .ok q0 →
                q0.static = p.static →
                ∃ q1, loadPartition F'' j dO (slice (slice F1 c.tableOff c.tableSize) dO dSf) pO pS = .ok q1 ∧
                  q1.static = (p.index, p.descOff, p.descSize, p.pOff, p.pSize, p.difi, p.ivfc, p.dpfs, s.master, p.dp) := by
              intro j dO dSf pO pS q0 hq hqs
              obtain ⟨d0, _, e0⟩ := loadPartition_inv _ _ _ _ _ _ _ hq
              rw [e0] at hqs
              simp only [PartSt.static, Prod.mk.injEq] at hqs
              obtain ⟨q1, q2, q3, q4, q5, q6, q7, q8, q9, q10⟩ := hqs
              rw [q4, q5, q6, q8] at q10
              have hsl : slice (slice F1 c.tableOff c.tableSize) dO dSf = pd := by
                apply slice_replaced (slice c.F c.tableOff c.tableSize) _ pd dO dSf htbl (by rw [pdl]; exact q3.symm)
                intro i hi
                rw [q2, htbget _ (by omega), hF1get, if_neg (by omega), if_pos (by omega)]
                congr 1; omega
              refine ⟨⟨j, dO, pd.length, pO, pS, p.difi, p.ivfc, p.dpfs, s.master, p.dp, Caches.empty, 0⟩, ?_, ?_⟩
              · unfold loadPartition
                rw [hsl, pdr]
                simp only
                rw [q4, q5, e_dp _ q10]
              · simp only [PartSt.static, Prod.mk.injEq]
                exact ⟨q1, q2, pdl, q4, q5, trivial⟩
            -- re-loading any other partition
            have hO : ∀ j dO dSf pO pS q0 (q : PartSt),
                loadPartition c.F j dO (slice (slice c.F c.tableOff c.tableSize) dO dSf) pO pS = .ok q0 →
                q0.static = q.static →
                (q.descOff + q.descSize ≤ p.descOff ∨ p.descOff + p.descSize ≤ q.descOff) →
                c.tableOff + c.tableSize ≤ q.pOff → (q.pOff + q.pSize ≤ p.pOff ∨ p.pOff + p.pSize ≤ q.pOff) →
                loadPartition F'' j dO (slice (slice F1 c.tableOff c.tableSize) dO dSf) pO pS = .ok q0 := by
              intro j dO dSf pO pS q0 q hq hqs hdj hlo hwj
              obtain ⟨d0, _, e0⟩ := loadPartition_inv _ _ _ _ _ _ _ hq
              rw [e0] at hqs
              simp only [PartSt.static, Prod.mk.injEq] at hqs
              obtain ⟨q1, q2, q3, q4, q5, _⟩ := hqs
              have hsl : slice (slice F1 c.tableOff c.tableSize) dO dSf = slice (slice c.F c.tableOff c.tableSize) dO dSf := by
                apply slice_kept _ _ dO dSf htbl
                intro i hi
                have hi' := hi
                rw [slice_length, slice_length] at hi'
                rw [htbget _ (by omega), htbget0 _ (by omega), hF1get]
                rw [q3] at hi
                rw [q2] at hi' ⊢
                by_cases h1 : c.tableOff + (q.descOff + i) < c.tableOff + p.descOff
                · rw [if_pos h1]; exact r5 _ (Or.inl (by omega))
                · rw [if_neg h1, if_neg (by rw [pdl]; omega)]; exact r5 _ (Or.inl (by omega))
              rw [hsl, ← hq]
              apply loadPartition_congr
              apply slice_congr
              intro z hz1 hz2
              rw [q4] at hz1 hz2
              rw [q5] at hz2
              rw [t4 z (by omega), hF1get, if_neg (by omega), if_neg (by rw [pdl]; omega)]
              exact r5 z (by omega)
            rw [← hc']
            rcases ocase with ⟨h2, pb, ob, e0⟩ | ⟨h2, e0⟩
            · -- two partitions
              rw [e0] at sparts
              simp only [List.map_cons, List.map_nil] at sparts
              cases hcp : c.parts with
              | nil => rw [hcp] at sparts; simp at sparts
              | cons x r =>
                cases r with
                | nil => rw [hcp] at sparts; simp at sparts
                | cons y r2 =>
                  cases r2 with
                  | cons _ _ => rw [hcp] at sparts; simp at sparts
                  | nil =>
                    rw [hcp] at sparts hp
                    simp only [List.map_cons, List.map_nil, List.cons.injEq, and_true] at sparts
                    obtain ⟨sx, sy⟩ := sparts
                    match pi, hp, L with
                    | 0, hp, L =>
                      simp only [List.getElem?_cons_zero, Option.some.injEq] at hp
                      subst hp
                      obtain ⟨q1, hq1, hq1s⟩ := hW 0 _ _ _ _ pa oa sx
                      have oth := L.others 1 y (by decide) (by rw [hcp]; rfl)
                      have hq2 := hO 1 _ _ _ _ pb y ob sy oth.1 oth.2.1 oth.2.2
                      refine ⟨⟨.disa, F'', header', c.tableOff, c.tableSize, [q1, pb], c.writable⟩, ?_, ?_⟩
                      · show openCont H c.kind F'' c.writable = _
                        rw [hk]
                        simp only [openCont]
                        unfold openDisa
                        simp only
                        rw [t3, if_neg (by rw [e_magic]; simp), e_off, e_size, e_tb, hdg, e_hash, if_neg (by simp)]
                        rw [hle 0x28 8 (by omega), hle 0x30 8 (by omega), hle 0x48 8 (by omega), hle 0x50 8 (by omega), hq1]
                        simp only
                        rw [hle 0x8 4 (by omega), if_pos h2, hle 0x38 8 (by omega), hle 0x40 8 (by omega), hle 0x58 8 (by omega),
                          hle 0x60 8 (by omega), hq2]
                      · simp only [Cont.static, hcp, List.set_cons_zero, List.map_cons, List.map_nil, hk, hq1s, sy]
                        rfl
                    | 1, hp, L =>
                      simp only [List.getElem?_cons_succ, List.getElem?_cons_zero, Option.some.injEq] at hp
                      subst hp
                      obtain ⟨q1, hq1, hq1s⟩ := hW 1 _ _ _ _ pb ob sy
                      have oth := L.others 0 x (by decide) (by rw [hcp]; rfl)
                      have hq2 := hO 0 _ _ _ _ pa x oa sx oth.1 oth.2.1 oth.2.2
                      refine ⟨⟨.disa, F'', header', c.tableOff, c.tableSize, [pa, q1], c.writable⟩, ?_, ?_⟩
                      · show openCont H c.kind F'' c.writable = _
                        rw [hk]
                        simp only [openCont]
                        unfold openDisa
                        simp only
                        rw [t3, if_neg (by rw [e_magic]; simp), e_off, e_size, e_tb, hdg, e_hash, if_neg (by simp)]
                        rw [hle 0x28 8 (by omega), hle 0x30 8 (by omega), hle 0x48 8 (by omega), hle 0x50 8 (by omega), hq2]
                        simp only
                        rw [hle 0x8 4 (by omega), if_pos h2, hle 0x38 8 (by omega), hle 0x40 8 (by omega), hle 0x58 8 (by omega),
                          hle 0x60 8 (by omega), hq1]
                      · simp only [Cont.static, hcp, List.set_cons_succ, List.set_cons_zero, List.map_cons, List.map_nil, hk, hq1s, sx]
                        rfl
                    | k + 2, hp, L => simp at hp
            · -- one partition
              rw [e0] at sparts
              simp only [List.map_cons, List.map_nil] at sparts
              cases hcp : c.parts with
              | nil => rw [hcp] at sparts; simp at sparts
              | cons x r =>
                cases r with
                | cons _ _ => rw [hcp] at sparts; simp at sparts
                | nil =>
                  rw [hcp] at sparts hp
                  simp only [List.map_cons, List.map_nil, List.cons.injEq, and_true] at sparts
                  match pi, hp with
                  | 0, hp =>
                    simp only [List.getElem?_cons_zero, Option.some.injEq] at hp
                    subst hp
                    obtain ⟨q1, hq1, hq1s⟩ := hW 0 _ _ _ _ pa oa sparts
                    refine ⟨⟨.disa, F'', header', c.tableOff, c.tableSize, [q1], c.writable⟩, ?_, ?_⟩
                    · show openCont H c.kind F'' c.writable = _
                      rw [hk]
                      simp only [openCont]
                      unfold openDisa
                      simp only
                      rw [t3, if_neg (by rw [e_magic]; simp), e_off, e_size, e_tb, hdg, e_hash, if_neg (by simp)]
                      rw [hle 0x28 8 (by omega), hle 0x30 8 (by omega), hle 0x48 8 (by omega), hle 0x50 8 (by omega), hq1]
                      simp only
                      rw [hle 0x8 4 (by omega), if_neg h2]
                    · simp only [Cont.static, hcp, List.set_cons_zero, List.map_cons, List.map_nil, hk, hq1s]
                      rfl
                  | k + 1, hp => simp at hp


end Save
end Pyctr
