/-
  C10: every way CDNReader can be given the title key leads to the same key.
-/
import Proofs.CiaProofs
import PyctrModel.Fmt.Cci
namespace Pyctr
open Engine

theorem load_enc_ok (E D : Bytes → Bytes → Bytes) (hED : ∀ k b, b.length = 16 → D k (E k b) = b) (hE : ∀ k b, b.length = 16 → (E k b).length = 16)
    (e : Engine) (x ky idx : Nat) (k tid : Bytes) (hx : e.keyX 0x3D = some x) (hk : k.length = 16) (htid : tid.length = 8)
    (hidx : commonKeyY[idx]? = some ky) (hnd : ¬ (e.dev = true ∧ idx = 0)) :
    (Engine.loadEncryptedTitlekey D e (E (keygenSlot 0x3D x ky) (xorBytes k (tid ++ zeros 8))) idx tid).2 = none ∧
    (Engine.loadEncryptedTitlekey D e (E (keygenSlot 0x3D x ky) (xorBytes k (tid ++ zeros 8))) idx tid).1.normal 0x40 = some k := by
  unfold Engine.loadEncryptedTitlekey
  simp only [hnd, if_false, hidx]
  have hck : (e.setKeyslot false 0x3D ky true).cipherKey 0x3D = .ok (keygenSlot 0x3D x ky) := by
    simp [Engine.cipherKey, Engine.setKeyslot, Engine.upd, hx]
  simp only [hck]
  have hiv : (tid ++ zeros 8).length = 16 := by simp [htid]
  have hxl : (xorBytes k (tid ++ zeros 8)).length = 16 := by simp [xorBytes, hk, hiv]
  rw [if_neg (by simp [hiv]), if_neg (by rw [hE _ _ hxl]; decide)]
  rw [titlekey_recovered E D hED _ _ k hk hiv hE]
  simp [Engine.setNormal, Engine.upd]

theorem cdn_key_sources (E D : Bytes → Bytes → Bytes) (hED : ∀ k b, b.length = 16 → D k (E k b) = b) (hE : ∀ k b, b.length = 16 → (E k b).length = 16)
    (e : Engine) (x ky idx : Nat) (k tid : Bytes) (hx : e.keyX 0x3D = some x) (hk : k.length = 16) (htid : tid.length = 8)
    (hidx : commonKeyY[idx]? = some ky) (hnd : ¬ (e.dev = true ∧ idx = 0)) :
    let encTk := E (keygenSlot 0x3D x ky) (xorBytes k (tid ++ zeros 8))
    (∀ enc i c, (Cdn.setupKey D e tid k enc i c).1.normal 0x40 = some k) ∧
    (∀ c, (Cdn.setupKey D e tid [] encTk idx c).1.normal 0x40 = some k) ∧
    (∀ ticket : Bytes, 0x2AC ≤ ticket.length → slice ticket 0x1BF 16 = encTk → (ticket.getD 0x1F1 0).toNat = idx →
      slice ticket 0x1DC 8 = tid → ∀ i, (Cdn.setupKey D e tid [] [] i (some ticket)).1.normal 0x40 = some k) := by
  intro encTk
  have hkne : k ≠ [] := by intro h; rw [h] at hk; simp at hk
  have hxl : (xorBytes k (tid ++ zeros 8)).length = 16 := by simp [xorBytes, hk, htid]
  have hene : encTk ≠ [] := by
    intro h
    have := hE (keygenSlot 0x3D x ky) (xorBytes k (tid ++ zeros 8)) hxl
    rw [show E _ _ = encTk from rfl, h] at this; simp at this
  refine ⟨?_, ?_, ?_⟩
  · intro enc i c
    simp [Cdn.setupKey, hkne, Engine.setNormal, Engine.upd]
  · intro c
    simp only [Cdn.setupKey, ne_eq, not_true_eq_false, if_false, hene, not_false_eq_true, if_true]
    exact (load_enc_ok E D hED hE e x ky idx k tid hx hk htid hidx hnd).2
  · intro ticket hlen h1 h2 h3 i
    simp only [Cdn.setupKey, ne_eq, not_true_eq_false, if_false]
    unfold Engine.loadFromTicket
    have hl : (ticket.take 0x2AC).length = 0x2AC := by simp; omega
    rw [if_neg (by rw [hl]; decide)]
    have s1 : slice (ticket.take 0x2AC) 0x1BF 16 = slice ticket 0x1BF 16 := by
      simp only [slice, List.drop_take]; rw [List.take_take]; simp
    have s2 : slice (ticket.take 0x2AC) 0x1DC 8 = slice ticket 0x1DC 8 := by
      simp only [slice, List.drop_take]; rw [List.take_take]; simp
    have s3 : (ticket.take 0x2AC).getD 0x1F1 0 = ticket.getD 0x1F1 0 := by
      simp [List.getD_eq_getElem?_getD]
    rw [s1, s2, s3, h1, h2, h3]
    exact (load_enc_ok E D hED hE e x ky idx k tid hx hk htid hidx hnd).2
end Pyctr

/-! ### the cartridge header: which bytes matter -/
namespace Pyctr
namespace Cci

/-- the only header bytes `CCIReader.__init__` looks at: magic, image size, media id, the partition table -/
def relevant (file : Bytes) (start : Nat) : Bytes × Bytes × Bytes × Bytes :=
  let header := slice file (start + 0x100) 0x100
  (slice header 0 4, slice header 4 4, slice header 8 8, slice header 0x20 0x40)

theorem filterMap_congr' {α β : Type} (f g : α → Option β) : ∀ (l : List α), (∀ a ∈ l, f a = g a) → l.filterMap f = l.filterMap g
  | [], _ => rfl
  | a :: l, h => by
    simp only [List.filterMap_cons]
    rw [h a (by simp), filterMap_congr' f g l (fun b hb => h b (by simp [hb]))]

theorem partsOf_table (h h' : Bytes) (ht : slice h 0x20 0x40 = slice h' 0x20 0x40) : partsOf h = partsOf h' := by
  unfold partsOf
  apply filterMap_congr'
  intro i hi
  have hi8 : i < 8 := by simpa using hi
  have e1 : ∀ g : Bytes, le g (0x20 + 8 * i) 4 = readLE (slice (slice g 0x20 0x40) (8 * i) 4) := by
    intro g; unfold le; rw [slice_slice _ _ _ _ _ (by omega)]
  have e2 : ∀ g : Bytes, le g (0x24 + 8 * i) 4 = readLE (slice (slice g 0x20 0x40) (8 * i + 4) 4) := by
    intro g; unfold le; rw [slice_slice _ _ _ _ _ (by omega)]; congr 2; omega
  rw [e1 h, e1 h', e2 h, e2 h', ht]

theorem parse_frame (file file' : Bytes) (start start' : Nat) (h : relevant file start = relevant file' start') :
    parse file start = parse file' start' := by
  simp only [relevant, Prod.mk.injEq] at h
  obtain ⟨h1, h2, h3, h4⟩ := h
  have hp := partsOf_table _ _ h4
  dsimp only [parse, Cci.le]
  rw [h1, h2, h3, hp]
end Cci
end Pyctr
