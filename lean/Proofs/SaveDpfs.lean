/-
  C17 (A): the DPFS level-3 reader returns slices of the view that the bitmap tree selects; the IVFC levels are
  windows of that view.
-/
import Proofs.SaveBlocks
import PyctrModel.Save.Spec
namespace Pyctr
namespace Save

theorem mapM_ok {α β : Type} (f : α → Except Err β) (g : α → β) (l : List α) (h : ∀ a ∈ l, f a = .ok (g a)) :
    l.mapM f = .ok (l.map g) := by
  induction l with
  | nil => rfl
  | cons a l ih =>
    rw [List.mapM_cons, h a (by simp), ih (fun x hx => h x (by simp [hx]))]
    rfl

theorem activeBit_isSome (u : List Nat) (b : Nat) (h : b < 32 * u.length) : ∃ v, activeBit u b = some v := by
  unfold activeBit
  have : b / 32 < u.length := by omega
  rw [List.getElem?_eq_getElem this]
  exact ⟨_, rfl⟩

theorem slice_slice_clamp (d : Bytes) (a n b m : Nat) : slice (slice d a n) b m = slice d (a + b) (min m (n - b)) := by
  apply List.ext_getElem?; intro i
  simp only [slice_getElem?]
  by_cases h1 : i < m
  · by_cases h2 : b + i < n
    · rw [if_pos h1, if_pos h2, if_pos (by omega), Nat.add_assoc]
    · rw [if_pos h1, if_neg h2, if_neg (by omega)]
  · rw [if_neg h1, if_neg (by omega)]

theorem dpBlock_ok (P : Bytes) (dp : Dp) (b : Nat) (h : b < 32 * dp.lv2bits.length) :
    dpBlock P dp b = .ok (dpRawBlock P dp b) := by
  obtain ⟨v, hv⟩ := activeBit_isSome dp.lv2bits b h
  unfold dpBlock dpRawBlock
  rw [hv, slice_slice_clamp]
  cases v <;> simp

theorem Level.bs_pos (l : Level) : 0 < l.bs := Nat.two_pow_pos _

/-- a block index at or below the last block of `[off, off+n)` is below the block count of the level -/
theorem block_lt_nblocks (size bs off n : Nat) (hbs : 0 < bs) (hn : 0 < n) (h : off + n ≤ size) :
    (blockRange off n bs).2 < nblocks size bs := by
  obtain ⟨e, k, hk0, hkb, hT, hceil⟩ := ceil_div_spec (off + n) bs hbs (by omega)
  obtain ⟨e', k', hk0', hkb', hT', hceil'⟩ := ceil_div_spec size bs hbs (by omega)
  simp only [blockRange, nblocks, hceil, hceil', Nat.add_sub_cancel]
  have hsb : off / bs ≤ e := by
    have h1 := Nat.div_mul_le_self off bs
    have : off / bs * bs < (e + 1) * bs := by rw [Nat.succ_mul]; omega
    have := Nat.lt_of_mul_lt_mul_right this
    omega
  rw [Nat.max_eq_left hsb]
  have : e * bs < (e' + 1) * bs := by rw [Nat.succ_mul]; omega
  have := Nat.lt_of_mul_lt_mul_right this
  omega

theorem dpRawBlock_length_le (P : Bytes) (dp : Dp) (b : Nat) : (dpRawBlock P dp b).length ≤ dp.lv3.bs := by
  unfold dpRawBlock; rw [slice_length]; exact Nat.min_le_left _ _

theorem dpRawBlock_length (P : Bytes) (dp : Dp) (hwf : DpWF P dp) (b : Nat) (hb : b + 1 < nblocks dp.lv3.size dp.lv3.bs) :
    (dpRawBlock P dp b).length = dp.lv3.bs := by
  have hbs := dp.lv3.bs_pos
  have hin := hwf.inside
  unfold dpRawBlock
  rw [slice_length, slice_length]
  by_cases hs : dp.lv3.size = 0
  · unfold nblocks at hb; rw [hs, Nat.zero_add, Nat.div_eq_of_lt (by omega)] at hb; omega
  obtain ⟨e', k', hk0', hkb', hT', hceil'⟩ := ceil_div_spec dp.lv3.size dp.lv3.bs hbs (by omega)
  unfold nblocks at hb; rw [hceil'] at hb
  have h1 : (b + 1) * dp.lv3.bs ≤ e' * dp.lv3.bs := Nat.mul_le_mul_right _ (by omega)
  rw [Nat.succ_mul] at h1
  generalize dp.lv3.bs = bs at *
  generalize dp.lv3.size = size at *
  generalize b * bs = bb at *
  generalize e' * bs = eb at *
  split <;> omega

theorem dpGetData_view (P : Bytes) (dp : Dp) (hwf : DpWF P dp) (off n : Nat) (hn : 0 < n) (h : off + n ≤ dp.lv3.size) :
    dpGetData P dp off n = .ok (slice (dpfsView P dp) off n) := by
  have hbs := dp.lv3.bs_pos
  unfold dpGetData
  rw [if_neg (by omega)]
  simp only
  have heb := block_lt_nblocks dp.lv3.size dp.lv3.bs off n hbs hn h
  have hsb : (blockRange off n dp.lv3.bs).1 ≤ (blockRange off n dp.lv3.bs).2 := by
    simp only [blockRange]; exact Nat.le_max_right _ _
  rw [mapM_ok _ (fun i => dpRawBlock P dp ((blockRange off n dp.lv3.bs).1 + i))]
  · simp only
    have hblk : ∀ i, i ∈ List.range ((blockRange off n dp.lv3.bs).2 + 1 - (blockRange off n dp.lv3.bs).1) →
        dpRawBlock P dp ((blockRange off n dp.lv3.bs).1 + i) =
          slice ((List.range (nblocks dp.lv3.size dp.lv3.bs)).flatMap (dpRawBlock P dp))
            (((blockRange off n dp.lv3.bs).1 + i) * dp.lv3.bs) dp.lv3.bs := by
      intro i hi
      rw [List.mem_range] at hi
      exact flatMap_block _ _ _ (dpRawBlock_length P dp hwf) (fun b _ => dpRawBlock_length_le P dp b) _ (by omega)
    rw [List.map_congr_left hblk, joinTrim_slices _ _ _ _ hbs hn]
    unfold dpfsView
    congr 1
    apply List.ext_getElem?; intro i
    simp only [slice_getElem?, List.getElem?_take]
    by_cases hi : i < n
    · rw [if_pos hi, if_pos hi, if_pos (by omega)]
    · rw [if_neg hi, if_neg hi]
  · intro i hi
    rw [List.mem_range] at hi
    exact dpBlock_ok P dp _ (Nat.lt_of_lt_of_le (by omega) hwf.bits)
/-- byte `x` of the view is byte `x` of the copy that the level-2 bit of its block selects -/
theorem dpfsView_getElem (P : Bytes) (dp : Dp) (hwf : DpWF P dp) (x : Nat) (hx : x < dp.lv3.size) :
    (dpfsView P dp)[x]? = P[dp.lv3.offset + chunkOf dp (x / dp.lv3.bs) + x]? := by
  have hbs := dp.lv3.bs_pos
  have hin := hwf.inside
  unfold dpfsView
  rw [List.getElem?_take, if_pos hx]
  obtain ⟨e', k', hk0', hkb', hT', hceil'⟩ := ceil_div_spec dp.lv3.size dp.lv3.bs hbs (by omega)
  have hq : x / dp.lv3.bs < nblocks dp.lv3.size dp.lv3.bs := by
    unfold nblocks; rw [hceil']
    have h1 := Nat.div_mul_le_self x dp.lv3.bs
    have : x / dp.lv3.bs * dp.lv3.bs < (e' + 1) * dp.lv3.bs := by rw [Nat.succ_mul]; omega
    exact Nat.lt_of_mul_lt_mul_right this
  have hb := flatMap_block _ _ _ (dpRawBlock_length P dp hwf) (fun b _ => dpRawBlock_length_le P dp b) _ hq
  have hdm := Nat.div_add_mod x dp.lv3.bs
  have hr := Nat.mod_lt x hbs
  have h1 : ((List.range (nblocks dp.lv3.size dp.lv3.bs)).flatMap (dpRawBlock P dp))[x]? =
      (dpRawBlock P dp (x / dp.lv3.bs))[x % dp.lv3.bs]? := by
    rw [hb, slice_getElem?, if_pos hr]
    congr 1; rw [Nat.mul_comm]; exact hdm.symm
  rw [h1]
  unfold dpRawBlock
  rw [slice_getElem?, if_pos hr, slice_getElem?]
  have hc : chunkOf dp (x / dp.lv3.bs) ≤ dp.lv3.size := by unfold chunkOf; split <;> omega
  unfold chunkOf at hc ⊢
  rw [Nat.mul_comm] at hdm
  rw [if_pos (by omega)]
  congr 1; omega
theorem dpfsView_length (P : Bytes) (dp : Dp) (hwf : DpWF P dp) : (dpfsView P dp).length = dp.lv3.size := by
  have hbs := dp.lv3.bs_pos
  have hin := hwf.inside
  unfold dpfsView
  rw [List.length_take]
  apply Nat.min_eq_left
  by_cases hs : dp.lv3.size = 0
  · omega
  obtain ⟨e', k', hk0', hkb', hT', hceil'⟩ := ceil_div_spec dp.lv3.size dp.lv3.bs hbs (by omega)
  unfold nblocks
  rw [hceil', List.range_succ, List.flatMap_append, List.length_append,
    flatMap_length_uniform _ dp.lv3.bs e' (fun b hb => dpRawBlock_length P dp hwf b (by unfold nblocks; rw [hceil']; omega))]
  simp only [List.flatMap_cons, List.flatMap_nil, List.append_nil]
  unfold dpRawBlock
  rw [slice_length, slice_length]
  generalize dp.lv3.bs = bs at *
  generalize dp.lv3.size = size at *
  generalize e' * bs = eb at *
  split <;> omega
theorem slice_zero_len (d : Bytes) (a : Nat) : slice d a 0 = [] := by simp [slice]

theorem slice_clamp (d : Bytes) (a n : Nat) : slice d a n = slice d a (min n (d.length - a)) := by
  apply List.ext_getElem?; intro i
  simp only [slice_getElem?]
  by_cases h1 : i < n
  · by_cases h2 : i < d.length - a
    · rw [if_pos h1, if_pos (by omega)]
    · rw [if_pos h1, if_neg (by omega), List.getElem?_eq_none (by omega)]
  · rw [if_neg h1, if_neg (by omega)]

/-- `DPFSLevel3FileIO.read(n)` at `seek` inside the view -/
theorem dpRead_view (P : Bytes) (dp : Dp) (hwf : DpWF P dp) (seek n : Nat) (h : seek + n ≤ dp.lv3.size) :
    dpRead P dp seek (n : Int) = .ok (slice (dpfsView P dp) seek n) := by
  unfold dpRead
  have hc : ¬((n : Int) < 0 ∨ (seek : Int) + (n : Int) > (dp.lv3.size : Int)) := by omega
  rw [if_neg hc]
  by_cases hn : n = 0
  · subst hn
    simp only
    rw [if_pos (by omega), slice_zero_len]
  · simp only
    have hc2 : ¬((n : Int) ≤ 0) := by omega
    rw [if_neg hc2, Int.toNat_natCast]
    exact dpGetData_view P dp hwf seek n (by omega) h

/-- `read(-1)`: everything up to the end of the view -/
theorem dpRead_all (P : Bytes) (dp : Dp) (hwf : DpWF P dp) (seek : Nat) (n : Int) (hneg : n < 0 ∨ (seek : Int) + n > dp.lv3.size)
    (h : seek ≤ dp.lv3.size) :
    dpRead P dp seek n = .ok (slice (dpfsView P dp) seek (dp.lv3.size - seek)) := by
  unfold dpRead
  rw [if_pos hneg]
  by_cases hn : dp.lv3.size - seek = 0
  · rw [hn, slice_zero_len]; simp only
    have hc : (dp.lv3.size : Int) - (seek : Int) ≤ 0 := by omega
    rw [if_pos hc]
  · simp only
    have hc : ¬((dp.lv3.size : Int) - (seek : Int) ≤ 0) := by omega
    rw [if_neg hc]
    have : ((dp.lv3.size : Int) - (seek : Int)).toNat = dp.lv3.size - seek := by omega
    rw [this]
    exact dpGetData_view P dp hwf seek _ (by omega) (by omega)

theorem levelRead_spec (P : Bytes) (t : Tree) (hwf : TreeWF P t) (idx off n : Nat) :
    levelRead P t idx off n = .ok (slice (levelBytes P t idx) off n) := by
  unfold levelRead levelBytes levelFrom
  simp only
  by_cases hoff : off > (t.level idx).size
  · rw [if_pos hoff]
    congr 1
    symm
    apply List.eq_nil_of_length_eq_zero
    rw [slice_length]
    split <;> (rw [slice_length]; omega)
  · rw [if_neg hoff]
    cases hx : (if 3 ≤ idx then t.external else none) with
    | some p =>
      obtain ⟨eo, es⟩ := p
      simp only
      congr 1
      have h3 : 3 ≤ idx := by
        by_cases h3 : 3 ≤ idx
        · exact h3
        · rw [if_neg h3] at hx; cases hx
      rw [if_pos h3] at hx
      obtain ⟨hes, hin⟩ := hwf.ext eo es hx
      have hl : (t.level idx).size = es := by
        rw [hes]; unfold Tree.level
        rw [if_neg (by omega), if_neg (by omega), if_neg (by omega)]
      rw [hl] at hoff ⊢
      have hlen : (slice P eo es).length = es := by rw [slice_length]; omega
      rw [slice_slice _ _ _ _ _ (by omega), slice_all _ _ (by omega), slice_clamp (slice P eo es) off n, hlen,
        slice_slice _ _ _ _ _ (by omega)]
    | none =>
      simp only
      have hin := hwf.inside idx (by intro h3; rw [if_pos h3] at hx; exact hx)
      have hmin : (t.level idx).offset + off + min n ((t.level idx).size - off) ≤ t.dp.lv3.size := by omega
      rw [dpRead_view P t.dp hwf.dp _ _ hmin]
      congr 1
      rw [slice_clamp (slice (dpfsView P t.dp) _ _) off n, slice_slice _ _ _ _ _ (by rw [slice_length]; omega)]
      congr 1
      rw [slice_length, dpfsView_length P t.dp hwf.dp]
      omega
end Save
end Pyctr

namespace Pyctr
namespace Save
/-- the level reader of a well-formed tree is the slice reader over the level contents -/
theorem levelRead_eq (P : Bytes) (t : Tree) (hwf : TreeWF P t) : levelRead P t = rdOf (levelBytes P t) := by
  funext idx off n
  exact levelRead_spec P t hwf idx off n
end Save
end Pyctr
