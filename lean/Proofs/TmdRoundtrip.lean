import Proofs.TmdRecords
namespace Pyctr
namespace Tmd

structure WFv (H : Bytes → Bytes) (t : T) (sz pad : Nat) : Prop where
  sig : sigInfo t.sigType = some (sz, pad)
  sig_len : t.signature.length = sz
  issuer_len : t.issuer.length ≤ 64
  issuer_ascii : ∀ b ∈ t.issuer, b < 0x80
  issuer_nonul : ∀ b, t.issuer.getLast? = some b → b ≠ 0
  pk : packable t
  l_sysver : t.systemVersion.length = 8
  l_tid : t.titleId.length = 8
  l_ttype : t.titleType.length = 4
  l_gid : t.groupId.length = 2
  l_r2 : t.reserved2.length = 4
  l_r3 : t.reserved3.length = 0x31
  l_ar : t.accessRights.length = 4
  l_boot : t.bootCount.length = 2
  l_pad : t.padding.length = 2
  ver : t.titleVersion.major < 64 ∧ t.titleVersion.minor < 64 ∧ t.titleVersion.micro < 16
  chunks : ∀ c ∈ t.chunkRecords, WfChunk c
  infos : ∀ r ∈ t.infoRecords, WfInfo r
  infos_len : t.infoRecords.length ≤ 64
  hH : (H (infoBlock t.infoRecords)).length = 32
  verified : verifyInfo H t.chunkRecords t.infoRecords [] = .ok ()

theorem infoBlock_length (rs : List InfoRecord) (hwf : ∀ r ∈ rs, WfInfo r) (hlen : rs.length ≤ 64) :
    (infoBlock rs).length = 0x900 := by
  have hl : ∀ (l : List InfoRecord), (∀ r ∈ l, WfInfo r) → (l.flatMap InfoRecord.bytes).length = 0x24 * l.length := by
    intro l; induction l with
    | nil => intro _; rfl
    | cons a t ih =>
      intro h
      simp only [List.flatMap_cons, List.length_append, List.length_cons]
      rw [ih (fun r hr => h r (by simp [hr])), info_bytes_length a (h a (by simp))]; omega
  simp only [infoBlock, List.length_append, zeros_length, hl rs hwf]; omega

theorem chunks_length (cs : List ChunkRecord) (hwf : ∀ c ∈ cs, WfChunk c) :
    (cs.flatMap ChunkRecord.bytes).length = 0x30 * cs.length := by
  induction cs with
  | nil => rfl
  | cons a t ih =>
    simp only [List.flatMap_cons, List.length_append, List.length_cons]
    rw [ih (fun r hr => hwf r (by simp [hr])), chunk_bytes_length a (hwf a (by simp))]; omega

theorem getD_of_slice1 (l : Bytes) (k : Nat) (x : UInt8) (h : slice l k 1 = [x]) : l.getD k 0 = x := by
  have := slice_getElem? l k 1 0
  rw [h] at this
  simp at this
  simp [List.getD_eq_getElem?_getD, ← this]

theorem rstrip_issuer (iss : Bytes) (h : ∀ b, iss.getLast? = some b → b ≠ 0) (k : Nat) :
    rstripNul (iss ++ zeros k) = iss := by
  simp only [rstripNul, zeros, List.reverse_append, List.reverse_replicate]
  have h1 : ∀ (k : Nat) (r : Bytes), (List.replicate k (0 : UInt8) ++ r).dropWhile (· == 0) = r.dropWhile (· == 0) := by
    intro k r; induction k with
    | zero => rfl
    | succ m ih => simp [List.replicate_succ, ih]
  rw [h1]
  have h2 : iss.reverse.dropWhile (· == 0) = iss.reverse := by
    cases hr : iss.reverse with
    | nil => rfl
    | cons a t =>
      have : iss.getLast? = some a := by
        rw [List.getLast?_eq_head?_reverse, hr]; rfl
      have ha : (a == 0) = false := by simpa using h a this
      simp [List.dropWhile, ha]
  rw [h2, List.reverse_reverse]


/-- `segments` with an arbitrary chunk-record area `raw` (used for the tamper theorem) -/
def segsWith (H : Bytes → Bytes) (t : T) (sz pad : Nat) (raw : Bytes) : List Bytes :=
  let info := infoBlock t.infoRecords
  [toBE 4 t.sigType, packS sz t.signature, zeros pad,
   packS 64 t.issuer, [UInt8.ofNat t.version], [UInt8.ofNat t.caCrl], [UInt8.ofNat t.signerCrl],
   [UInt8.ofNat t.reserved1], packS 8 t.systemVersion, packS 8 t.titleId, packS 4 t.titleType, packS 2 t.groupId,
   toLE 4 t.saveSize, toLE 4 t.srlSaveSize, packS 4 t.reserved2, [UInt8.ofNat t.srlFlag],
   packS 49 t.reserved3, packS 4 t.accessRights, toBE 2 t.titleVersion.toInt,
   toBE 2 t.chunkRecords.length, packS 2 t.bootCount, packS 2 t.padding, packS 32 (H info),
   info, raw]

theorem segments_eq_segsWith (H : Bytes → Bytes) (t : T) (sz pad : Nat) :
    segments H t sz pad = segsWith H t sz pad (t.chunkRecords.flatMap ChunkRecord.bytes) := rfl

theorem segments_length (H : Bytes → Bytes) (t : T) (sz pad : Nat) (raw : Bytes) (hinfo : (infoBlock t.infoRecords).length = 0x900)
    (hchunks : raw.length = 0x30 * t.chunkRecords.length) :
    (segsWith H t sz pad raw).flatten.length = 4 + sz + pad + 0xC4 + 0x900 + 0x30 * t.chunkRecords.length := by
  have hm : (segsWith H t sz pad raw).map List.length =
      [4, sz, pad, 64, 1, 1, 1, 1, 8, 8, 4, 2, 4, 4, 4, 1, 49, 4, 2, 2, 2, 2, 32, 0x900, 0x30 * t.chunkRecords.length] := by
    simp only [segsWith, List.map, toBE_length, packS_length, toLE_length', hinfo, hchunks, List.length_cons,
      List.length_nil, zeros_length]
  rw [List.length_flatten, hm]
  clear hm hinfo hchunks
  simp only [List.sum_cons, List.sum_nil]; omega

/-- `load` on a serialised value whose chunk-record area has been replaced by arbitrary bytes of the same length:
    everything is determined by the value except the chunk records, which are re-parsed and re-verified -/
theorem load_segsWith (H : Bytes → Bytes) (t : T) (sz pad : Nat) (w : WFv H t sz pad) (raw : Bytes)
    (hchunks : raw.length = 0x30 * t.chunkRecords.length) :
    load H true (segsWith H t sz pad raw).flatten =
      match verifyInfo H (chunkList raw t.chunkRecords.length 0) t.infoRecords [] with
      | .error e => .error e
      | .ok () => .ok { t with chunkRecords := chunkList raw t.chunkRecords.length 0 } := by
  have hinfo := infoBlock_length t.infoRecords w.infos w.infos_len
  obtain ⟨pv, pca, psc, pr1, psf, psave, psrl, pver, pcnt⟩ := w.pk
  generalize hb : (segsWith H t sz pad raw).flatten = b
  -- the position of every segment
  have seg := fun k hk => slice_flatten_at (segsWith H t sz pad raw) k hk
  have hlen : (segsWith H t sz pad raw).length = 25 := rfl
  have L := fun (k : Nat) (hk : k < 25) => seg k (by rw [hlen]; exact hk)
  rw [hb] at L
  have s0 : slice b 0 4 = toBE 4 t.sigType := by
    have := L 0 (by omega); simpa [segsWith, toBE_length] using this
  have s1 : slice b 4 sz = packS sz t.signature := by
    have := L 1 (by omega); simpa [segsWith, toBE_length, packS_length] using this
  have hd : ∀ (off wd : Nat) (k : Nat) (hk : k < 25) (sg : Bytes),
      (segsWith H t sz pad raw)[k]'(by rw [hlen]; exact hk) = sg → sg.length = wd →
      (((segsWith H t sz pad raw).take k).flatten.length = 4 + sz + pad + off) →
      slice b (4 + sz + pad + off) wd = sg := by
    intro off wd k hk sg h1 h2 h3
    have := L k hk
    rw [h1, h2, h3] at this; exact this
  have tl : ∀ k, ((segsWith H t sz pad raw).take k).flatten.length =
      (((segsWith H t sz pad raw).take k).map List.length).sum := by
    intro k; simp [List.length_flatten]
  have f3 : slice b (4 + sz + pad + 0) 64 = packS 64 t.issuer := hd 0 64 3 (by omega) _ rfl (packS_length _ _) (by rw [tl]; simp [segsWith, toBE_length, packS_length]; omega)
  have f4 : slice b (4 + sz + pad + 0x40) 1 = [UInt8.ofNat t.version] := hd 0x40 1 4 (by omega) _ rfl rfl (by rw [tl]; simp [segsWith, toBE_length, packS_length]; omega)
  have f5 : slice b (4 + sz + pad + 0x41) 1 = [UInt8.ofNat t.caCrl] := hd 0x41 1 5 (by omega) _ rfl rfl (by rw [tl]; simp [segsWith, toBE_length, packS_length]; omega)
  have f6 : slice b (4 + sz + pad + 0x42) 1 = [UInt8.ofNat t.signerCrl] := hd 0x42 1 6 (by omega) _ rfl rfl (by rw [tl]; simp [segsWith, toBE_length, packS_length]; omega)
  have f7 : slice b (4 + sz + pad + 0x43) 1 = [UInt8.ofNat t.reserved1] := hd 0x43 1 7 (by omega) _ rfl rfl (by rw [tl]; simp [segsWith, toBE_length, packS_length]; omega)
  have f8 : slice b (4 + sz + pad + 0x44) 8 = packS 8 t.systemVersion := hd 0x44 8 8 (by omega) _ rfl (packS_length _ _) (by rw [tl]; simp [segsWith, toBE_length, packS_length]; omega)
  have f9 : slice b (4 + sz + pad + 0x4C) 8 = packS 8 t.titleId := hd 0x4C 8 9 (by omega) _ rfl (packS_length _ _) (by rw [tl]; simp [segsWith, toBE_length, packS_length]; omega)
  have f10 : slice b (4 + sz + pad + 0x54) 4 = packS 4 t.titleType := hd 0x54 4 10 (by omega) _ rfl (packS_length _ _) (by rw [tl]; simp [segsWith, toBE_length, packS_length]; omega)
  have f11 : slice b (4 + sz + pad + 0x58) 2 = packS 2 t.groupId := hd 0x58 2 11 (by omega) _ rfl (packS_length _ _) (by rw [tl]; simp [segsWith, toBE_length, packS_length]; omega)
  have f12 : slice b (4 + sz + pad + 0x5A) 4 = toLE 4 t.saveSize := hd 0x5A 4 12 (by omega) _ rfl (toLE_length' _ _) (by rw [tl]; simp [segsWith, toBE_length, packS_length, toLE_length']; omega)
  have f13 : slice b (4 + sz + pad + 0x5E) 4 = toLE 4 t.srlSaveSize := hd 0x5E 4 13 (by omega) _ rfl (toLE_length' _ _) (by rw [tl]; simp [segsWith, toBE_length, packS_length, toLE_length']; omega)
  have f14 : slice b (4 + sz + pad + 0x62) 4 = packS 4 t.reserved2 := hd 0x62 4 14 (by omega) _ rfl (packS_length _ _) (by rw [tl]; simp [segsWith, toBE_length, packS_length, toLE_length']; omega)
  have f15 : slice b (4 + sz + pad + 0x66) 1 = [UInt8.ofNat t.srlFlag] := hd 0x66 1 15 (by omega) _ rfl rfl (by rw [tl]; simp [segsWith, toBE_length, packS_length, toLE_length']; omega)
  have f16 : slice b (4 + sz + pad + 0x67) 0x31 = packS 49 t.reserved3 := hd 0x67 0x31 16 (by omega) _ rfl (packS_length _ _) (by rw [tl]; simp [segsWith, toBE_length, packS_length, toLE_length']; omega)
  have f17 : slice b (4 + sz + pad + 0x98) 4 = packS 4 t.accessRights := hd 0x98 4 17 (by omega) _ rfl (packS_length _ _) (by rw [tl]; simp [segsWith, toBE_length, packS_length, toLE_length']; omega)
  have f18 : slice b (4 + sz + pad + 0x9C) 2 = toBE 2 t.titleVersion.toInt := hd 0x9C 2 18 (by omega) _ rfl (toBE_length _ _) (by rw [tl]; simp [segsWith, toBE_length, packS_length, toLE_length']; omega)
  have f19 : slice b (4 + sz + pad + 0x9E) 2 = toBE 2 t.chunkRecords.length := hd 0x9E 2 19 (by omega) _ rfl (toBE_length _ _) (by rw [tl]; simp [segsWith, toBE_length, packS_length, toLE_length']; omega)
  have f20 : slice b (4 + sz + pad + 0xA0) 2 = packS 2 t.bootCount := hd 0xA0 2 20 (by omega) _ rfl (packS_length _ _) (by rw [tl]; simp [segsWith, toBE_length, packS_length, toLE_length']; omega)
  have f21 : slice b (4 + sz + pad + 0xA2) 2 = packS 2 t.padding := hd 0xA2 2 21 (by omega) _ rfl (packS_length _ _) (by rw [tl]; simp [segsWith, toBE_length, packS_length, toLE_length']; omega)
  have f22 : slice b (4 + sz + pad + 0xA4) 32 = packS 32 (H (infoBlock t.infoRecords)) := hd 0xA4 32 22 (by omega) _ rfl (packS_length _ _) (by rw [tl]; simp [segsWith, toBE_length, packS_length, toLE_length']; omega)
  have f23 : slice b (4 + sz + pad + 0xC4) 0x900 = infoBlock t.infoRecords := hd 0xC4 0x900 23 (by omega) _ rfl hinfo (by rw [tl]; simp [segsWith, toBE_length, packS_length, toLE_length']; omega)
  have f24 : slice b (4 + sz + pad + (0xC4 + 0x900)) (0x30 * t.chunkRecords.length) = raw := hd (0xC4 + 0x900) (0x30 * t.chunkRecords.length) 24 (by omega) _ rfl hchunks
    (by rw [tl]; simp [segsWith, toBE_length, packS_length, toLE_length', hinfo]; omega)
  have hbl : b.length = 4 + sz + pad + 0xC4 + 0x900 + 0x30 * t.chunkRecords.length := by
    rw [← hb]; exact segments_length H t sz pad raw hinfo hchunks
  -- the header and its fields
  have hhl : (slice b (4 + sz + pad) 0xC4).length = 0xC4 := by rw [slice_length]; omega
  have hs : ∀ off wd, off + wd ≤ 0xC4 → slice (slice b (4 + sz + pad) 0xC4) off wd = slice b (4 + sz + pad + off) wd :=
    fun off wd h => slice_slice _ _ _ _ _ h
  have hg : ∀ off x, off + 1 ≤ 0xC4 → slice b (4 + sz + pad + off) 1 = [x] → (slice b (4 + sz + pad) 0xC4).getD off 0 = x :=
    fun off x h hx => getD_of_slice1 _ _ _ (by rw [hs off 1 h]; exact hx)
  have hver := version_roundtrip_all _ w.ver.1 _ w.ver.2.1 _ w.ver.2.2
  have hu : ∀ v, v < 256 → (UInt8.ofNat v).toNat = v := by
    intro v hv; simp [UInt8.toNat_ofNat']; omega
  have hsig4 : t.sigType < 256 ^ 4 := by
    have := w.sig; unfold sigInfo at this
    split at this <;> first | omega | (split at this <;> first | omega | (split at this <;> first | omega |
      (split at this <;> first | omega | (split at this <;> first | omega | (split at this <;> first | omega | cases this)))))
  have e0 : readBE (slice b 0 4) = t.sigType := by rw [s0, readBE_toBE 4 _ hsig4]
  unfold load
  simp only [e0, w.sig, hhl, ne_eq, not_true_eq_false, if_false]
  have f24' : slice b (4 + sz + pad + 196 + 2304) (t.chunkRecords.length * 48) = raw := by
    have := f24; rw [← Nat.add_assoc, Nat.mul_comm] at this; exact this
  have hcount : readBE (slice (slice b (4 + sz + pad) 196) 158 2) = t.chunkRecords.length := by
    rw [hs 158 2 (by omega), f19, readBE_toBE 2 _ pcnt]
  have hhash : slice (slice b (4 + sz + pad) 196) 164 32 = H (infoBlock t.infoRecords) := by
    rw [hs 164 32 (by omega), f22, packS_full _ _ w.hH]
  have hiss : slice (slice b (4 + sz + pad) 196) 0 64 = t.issuer ++ zeros (64 - t.issuer.length) := by
    rw [hs 0 64 (by omega), f3, packS_short _ _ w.issuer_len]
  have hany : (t.issuer ++ zeros (64 - t.issuer.length)).any (fun x => decide (x ≥ 128)) = false := by
    rw [List.any_eq_false]; intro x hx
    simp only [List.mem_append, zeros, List.mem_replicate] at hx
    rcases hx with hx | ⟨_, rfl⟩
    · have := w.issuer_ascii x hx
      simp only [ge_iff_le, decide_eq_true_eq, UInt8.not_le]; exact this
    · decide
  simp only [f23, hinfo, not_true_eq_false, if_false, hhash, bne_self_eq_false, Bool.and_false, Bool.false_eq_true,
    if_true, hcount, f24', infoList_block _ w.infos w.infos_len 64 0 rfl,
    List.drop_zero, hiss, hany, rstrip_issuer _ w.issuer_nonul, s1, packS_full _ _ w.sig_len,
    hg 64 _ (by omega) f4, hg 65 _ (by omega) f5, hg 66 _ (by omega) f6, hg 67 _ (by omega) f7, hg 102 _ (by omega) f15,
    hu _ pv, hu _ pca, hu _ psc, hu _ pr1, hu _ psf,
    hs 68 8 (by omega), f8, packS_full _ _ w.l_sysver, hs 76 8 (by omega), f9, packS_full _ _ w.l_tid,
    hs 84 4 (by omega), f10, packS_full _ _ w.l_ttype, hs 88 2 (by omega), f11, packS_full _ _ w.l_gid,
    hs 90 4 (by omega), f12, Exefs.readLE_toLE 4 t.saveSize (by omega), hs 94 4 (by omega), f13,
    Exefs.readLE_toLE 4 t.srlSaveSize (by omega),
    hs 98 4 (by omega), f14, packS_full _ _ w.l_r2, hs 103 49 (by omega), f16, packS_full _ _ w.l_r3,
    hs 152 4 (by omega), f17, packS_full _ _ w.l_ar, hs 156 2 (by omega), f18, readBE_toBE 2 _ pver, hver.1,
    hs 160 2 (by omega), f20, packS_full _ _ w.l_boot, hs 162 2 (by omega), f21, packS_full _ _ w.l_pad]

  cases verifyInfo H (chunkList raw t.chunkRecords.length 0) t.infoRecords [] <;> rfl

theorem load_serialize (H : Bytes → Bytes) (t : T) (sz pad : Nat) (w : WFv H t sz pad) :
    serialize H t = some (segments H t sz pad).flatten ∧
    load H true (segments H t sz pad).flatten = .ok t := by
  refine ⟨by simp [serialize, w.sig, w.pk], ?_⟩
  rw [segments_eq_segsWith, load_segsWith H t sz pad w _ (chunks_length t.chunkRecords w.chunks),
    chunkList_flatMap t.chunkRecords w.chunks t.chunkRecords.length 0 (by omega), List.drop_zero, w.verified]

end Tmd
end Pyctr
