/-
  C15: the lock discipline implies non-interference, for every schedule.
-/
import PyctrModel.Sys.Sched
namespace Pyctr
namespace Sched
variable (guard : Nat → Nat)

def ok (c : TCfg) : Prop := disciplined guard c.todo.length c = true

structure Inv (s : St) : Prop where
  disc : ∀ (t : Nat) c, s.ths[t]? = some c → ok guard c
  nodup : ∀ (t : Nat) c, s.ths[t]? = some c → c.held.Nodup
  locks : ∀ (t : Nat) c l, s.ths[t]? = some c → (l ∈ c.held ↔ s.owner l = some t)
  pend : ∀ (t : Nat) c x p, s.ths[t]? = some c → pendGet c.pend x = some p → guard x ∈ c.held ∧ s.pos x = p

theorem advance_todo (c : TCfg) (e : Ev) (rest : List Ev) (h : c.todo = e :: rest) : (c.advance guard).todo = rest := by
  unfold TCfg.advance; rw [h]; cases e <;> rfl

theorem ok_advance (c : TCfg) (e : Ev) (rest : List Ev) (h : c.todo = e :: rest) (hok : ok guard c) : ok guard (c.advance guard) := by
  unfold ok at hok ⊢
  rw [advance_todo guard c e rest h]
  rw [h, List.length_cons, disciplined, h] at hok
  cases e <;> simp only [Bool.and_eq_true] at hok
  · exact hok.2
  · exact hok.2
  · exact hok.2
  · exact hok.2

theorem pendGet_set (pend : List (Nat × Nat)) (x p y : Nat) :
    pendGet (pendSet pend x p) y = if y = x then some p else pendGet pend y := by
  unfold pendGet pendSet
  by_cases h : y = x
  · subst h; simp
  · rw [if_neg h]
    simp only [List.find?_cons]
    have : ((x, p).1 == y) = false := by simp; exact fun hh => h hh.symm
    rw [this]
    congr 1
    induction pend with
    | nil => rfl
    | cons a as ih =>
      simp only [List.filter_cons]
      by_cases ha : a.1 = x
      · have h1 : (a.1 != x) = false := by simp [ha]
        rw [h1]; simp only [Bool.false_eq_true, if_false, List.find?_cons]
        have : (a.1 == y) = false := by simp [ha]; exact fun hh => h hh.symm
        rw [this]; exact ih
      · have h1 : (a.1 != x) = true := by simp [ha]
        rw [h1]; simp only [if_true, List.find?_cons]
        split
        · rfl
        · exact ih

theorem pendGet_drop (pend : List (Nat × Nat)) (f : Nat → Bool) (y : Nat) :
    pendGet (pendDrop pend f) y = if f y then none else pendGet pend y := by
  unfold pendGet pendDrop
  induction pend with
  | nil => simp
  | cons a as ih =>
    simp only [List.filter_cons]
    by_cases ha : f a.1 = true
    · simp only [ha, Bool.not_true, Bool.false_eq_true, if_false, List.find?_cons]
      by_cases hy : a.1 = y
      · subst hy; simp only [beq_self_eq_true, ha, if_true]
        have := ih; simp only [ha, if_true] at this; exact this
      · have : (a.1 == y) = false := by simp [hy]
        rw [this]; exact ih
    · simp only [Bool.not_eq_true] at ha
      simp only [ha, Bool.not_false, if_true, List.find?_cons]
      by_cases hy : a.1 = y
      · subst hy; simp [ha]
      · have : (a.1 == y) = false := by simp [hy]
        rw [this]; exact ih

theorem ths_set_get (ths : List TCfg) (t u : Nat) (c' cu : TCfg) (hlt : t < ths.length)
    (h : (ths.set t c')[u]? = some cu) : (u = t ∧ cu = c') ∨ (u ≠ t ∧ ths[u]? = some cu) := by
  by_cases hut : t = u
  · subst hut
    rw [List.getElem?_set_self hlt] at h
    left; exact ⟨rfl, (Option.some.inj h).symm⟩
  · rw [List.getElem?_set_ne hut] at h
    right; exact ⟨fun hh => hut hh.symm, h⟩

theorem getElem?_lt' {ths : List TCfg} {t : Nat} {c : TCfg} (h : ths[t]? = some c) : t < ths.length := by
  rcases Nat.lt_or_ge t ths.length with hl | hl
  · exact hl
  · rw [List.getElem?_eq_none hl] at h; cases h

/-- the discipline facts about the next event of a disciplined thread -/
theorem ok_head (c : TCfg) (e : Ev) (rest : List Ev) (h : c.todo = e :: rest) (hok : ok guard c) :
    match e with
    | .acq l => l ∉ c.held
    | .rel l => l ∈ c.held
    | .seek x _ => guard x ∈ c.held
    | .use x => guard x ∈ c.held ∧ (pendGet c.pend x).isSome = true := by
  unfold ok at hok
  rw [h, List.length_cons, disciplined, h] at hok
  cases e <;> simp only [Bool.and_eq_true, List.contains_iff_mem, Bool.not_eq_true'] at hok
  · simp only; intro hm; have := hok.1; simp [hm] at this
  · exact hok.1
  · exact hok.1
  · exact ⟨hok.1.1, hok.1.2⟩

/-- the discipline check only looks at which objects have a pending position, not at the values -/
theorem disciplined_congr (n : Nat) : ∀ (c c' : TCfg), c.held = c'.held → c.todo = c'.todo →
    (∀ x, (pendGet c.pend x).isSome = (pendGet c'.pend x).isSome) → disciplined guard n c = disciplined guard n c' := by
  induction n with
  | zero => intro c c' _ ht _; simp only [disciplined, ht]
  | succ n ih =>
    intro c c' hh ht hp
    have hadv : ∀ e rest, c.todo = e :: rest →
        (c.advance guard).held = (c'.advance guard).held ∧ (c.advance guard).todo = (c'.advance guard).todo ∧
        (∀ x, (pendGet (c.advance guard).pend x).isSome = (pendGet (c'.advance guard).pend x).isSome) := by
      intro e rest he
      have he' : c'.todo = e :: rest := by rw [← ht]; exact he
      unfold TCfg.advance
      rw [he, he']
      cases e with
      | acq l => exact ⟨by simp [hh], rfl, hp⟩
      | rel l =>
        refine ⟨by simp [hh], rfl, ?_⟩
        intro x; simp only [pendGet_drop]; split
        · rfl
        · exact hp x
      | seek x p =>
        refine ⟨hh, rfl, ?_⟩
        intro y; simp only [pendGet_set]; split
        · rfl
        · exact hp y
      | use x => exact ⟨hh, rfl, hp⟩
    rw [disciplined, disciplined]
    cases he : c.todo with
    | nil => rw [← ht, he]
    | cons e rest =>
      have he' : c'.todo = e :: rest := by rw [← ht]; exact he
      obtain ⟨h1, h2, h3⟩ := hadv e rest he
      rw [he']
      cases e with
      | acq l => simp only [hh, ih _ _ h1 h2 h3]
      | rel l => simp only [hh, ih _ _ h1 h2 h3]
      | seek x p => simp only [hh, ih _ _ h1 h2 h3]
      | use x => simp only [hh, hp x, ih _ _ h1 h2 h3]

/-- **the invariant is preserved by every step of every thread** -/
theorem step_inv (s s' : St) (t k : Nat) (o : Option (Nat × Nat)) (hinv : Inv guard s)
    (h : step guard s t k = some (s', o)) : Inv guard s' := by
  unfold step at h
  cases hc : s.ths[t]? with
  | none => rw [hc] at h; cases h
  | some c =>
    rw [hc] at h
    simp only at h
    have hlt := getElem?_lt' hc
    have hokc := hinv.disc t c hc
    cases htodo : c.todo with
    | nil => rw [htodo] at h; cases h
    | cons e rest =>
      rw [htodo] at h
      have hadv := ok_advance guard c e rest htodo hokc
      have hhead := ok_head guard c e rest htodo hokc
      cases e with
      | acq l =>
        simp only at h hhead
        by_cases hfree : s.owner l = none
        · rw [if_pos hfree] at h
          simp only [Option.some.injEq, Prod.mk.injEq] at h
          obtain ⟨hs, _⟩ := h
          subst hs
          have hadvheld : (c.advance guard).held = l :: c.held := by unfold TCfg.advance; rw [htodo]
          have hadvpend : (c.advance guard).pend = c.pend := by unfold TCfg.advance; rw [htodo]
          refine ⟨?_, ?_, ?_, ?_⟩
          · intro u cu hu
            rcases ths_set_get _ t u _ cu hlt hu with ⟨_, rfl⟩ | ⟨_, hu'⟩
            · exact hadv
            · exact hinv.disc u cu hu'
          · intro u cu hu
            rcases ths_set_get _ t u _ cu hlt hu with ⟨_, rfl⟩ | ⟨_, hu'⟩
            · rw [hadvheld]; exact List.nodup_cons.mpr ⟨hhead, hinv.nodup t c hc⟩
            · exact hinv.nodup u cu hu'
          · intro u cu m hu
            simp only
            rcases ths_set_get _ t u _ cu hlt hu with ⟨rfl, rfl⟩ | ⟨hne, hu'⟩
            · rw [hadvheld]
              by_cases hm : m = l
              · subst hm; simp
              · rw [if_neg hm, List.mem_cons]
                constructor
                · intro hh; rcases hh with hh | hh
                  · exact absurd hh hm
                  · exact (hinv.locks u c m hc).mp hh
                · intro hh; right; exact (hinv.locks u c m hc).mpr hh
            · by_cases hm : m = l
              · subst hm
                rw [if_pos rfl]
                constructor
                · intro hh
                  have := (hinv.locks u cu m hu').mp hh
                  rw [hfree] at this; cases this
                · intro hh; exact absurd (Option.some.inj hh).symm hne
              · rw [if_neg hm]; exact hinv.locks u cu m hu'
          · intro u cu x p hu hp
            simp only
            rcases ths_set_get _ t u _ cu hlt hu with ⟨rfl, rfl⟩ | ⟨_, hu'⟩
            · rw [hadvpend] at hp
              obtain ⟨h1, h2⟩ := hinv.pend u c x p hc hp
              rw [hadvheld]; exact ⟨List.mem_cons_of_mem _ h1, h2⟩
            · exact hinv.pend u cu x p hu' hp
        · rw [if_neg hfree] at h; cases h
      | rel l =>
        simp only [Option.some.injEq, Prod.mk.injEq] at h hhead
        obtain ⟨hs, _⟩ := h
        subst hs
        have hadvheld : (c.advance guard).held = c.held.erase l := by unfold TCfg.advance; rw [htodo]
        have hadvpend : (c.advance guard).pend = pendDrop c.pend (fun x => guard x == l) := by unfold TCfg.advance; rw [htodo]
        have hown : s.owner l = some t := (hinv.locks t c l hc).mp hhead
        have hnd := hinv.nodup t c hc
        refine ⟨?_, ?_, ?_, ?_⟩
        · intro u cu hu
          rcases ths_set_get _ t u _ cu hlt hu with ⟨_, rfl⟩ | ⟨_, hu'⟩
          · exact hadv
          · exact hinv.disc u cu hu'
        · intro u cu hu
          rcases ths_set_get _ t u _ cu hlt hu with ⟨_, rfl⟩ | ⟨_, hu'⟩
          · rw [hadvheld]; exact hnd.erase l
          · exact hinv.nodup u cu hu'
        · intro u cu m hu
          simp only
          rcases ths_set_get _ t u _ cu hlt hu with ⟨rfl, rfl⟩ | ⟨hne, hu'⟩
          · rw [hadvheld]
            by_cases hm : m = l
            · subst hm
              rw [if_pos rfl]
              constructor
              · intro hh; exact absurd hh (List.Nodup.not_mem_erase hnd)
              · intro hh; cases hh
            · rw [if_neg hm, List.mem_erase_of_ne hm]; exact hinv.locks u c m hc
          · by_cases hm : m = l
            · subst hm
              rw [if_pos rfl]
              constructor
              · intro hh
                have := (hinv.locks u cu m hu').mp hh
                rw [hown] at this
                exact absurd (Option.some.inj this).symm hne
              · intro hh; cases hh
            · rw [if_neg hm]; exact hinv.locks u cu m hu'
        · intro u cu x p hu hp
          simp only
          rcases ths_set_get _ t u _ cu hlt hu with ⟨rfl, rfl⟩ | ⟨_, hu'⟩
          · rw [hadvpend, pendGet_drop] at hp
            by_cases hg : (guard x == l) = true
            · rw [if_pos hg] at hp; cases hp
            · rw [if_neg hg] at hp
              obtain ⟨h1, h2⟩ := hinv.pend u c x p hc hp
              rw [hadvheld]
              refine ⟨(List.mem_erase_of_ne ?_).mpr h1, h2⟩
              intro hh; apply hg; simp [hh]
          · exact hinv.pend u cu x p hu' hp
      | seek x p =>
        simp only [Option.some.injEq, Prod.mk.injEq] at h hhead
        obtain ⟨hs, _⟩ := h
        subst hs
        have hadvheld : (c.advance guard).held = c.held := by unfold TCfg.advance; rw [htodo]
        have hadvpend : (c.advance guard).pend = pendSet c.pend x p := by unfold TCfg.advance; rw [htodo]
        have hown : s.owner (guard x) = some t := (hinv.locks t c _ hc).mp hhead
        refine ⟨?_, ?_, ?_, ?_⟩
        · intro u cu hu
          rcases ths_set_get _ t u _ cu hlt hu with ⟨_, rfl⟩ | ⟨_, hu'⟩
          · exact hadv
          · exact hinv.disc u cu hu'
        · intro u cu hu
          rcases ths_set_get _ t u _ cu hlt hu with ⟨_, rfl⟩ | ⟨_, hu'⟩
          · rw [hadvheld]; exact hinv.nodup t c hc
          · exact hinv.nodup u cu hu'
        · intro u cu m hu
          simp only
          rcases ths_set_get _ t u _ cu hlt hu with ⟨rfl, rfl⟩ | ⟨_, hu'⟩
          · rw [hadvheld]; exact hinv.locks u c m hc
          · exact hinv.locks u cu m hu'
        · intro u cu y q hu hq
          simp only
          rcases ths_set_get _ t u _ cu hlt hu with ⟨rfl, rfl⟩ | ⟨hne, hu'⟩
          · rw [hadvpend, pendGet_set] at hq
            rw [hadvheld]
            by_cases hy : y = x
            · subst hy
              rw [if_pos rfl] at hq ⊢
              exact ⟨hhead, Option.some.inj hq⟩
            · rw [if_neg hy] at hq ⊢
              exact hinv.pend u c y q hc hq
          · obtain ⟨h1, h2⟩ := hinv.pend u cu y q hu' hq
            refine ⟨h1, ?_⟩
            by_cases hy : y = x
            · subst hy
              have := (hinv.locks u cu _ hu').mp h1
              rw [hown] at this
              exact absurd (Option.some.inj this).symm hne
            · rw [if_neg hy]; exact h2
      | use x =>
        simp only [Option.some.injEq, Prod.mk.injEq] at h hhead
        obtain ⟨hs, _⟩ := h
        subst hs
        have hadvheld : (c.advance guard).held = c.held := by unfold TCfg.advance; rw [htodo]
        have hadvpend : (c.advance guard).pend = c.pend := by unfold TCfg.advance; rw [htodo]
        have hadvtodo : (c.advance guard).todo = rest := advance_todo guard c _ rest htodo
        have hown : s.owner (guard x) = some t := (hinv.locks t c _ hc).mp hhead.1
        -- the thread's new configuration: as `advance`, with the pending position of `x` moved along
        have hok' : ok guard { (c.advance guard) with pend := pendSet (c.advance guard).pend x (s.pos x + k) } := by
          unfold ok at hadv ⊢
          simp only
          have hcg := disciplined_congr guard (c.advance guard).todo.length
            { (c.advance guard) with pend := pendSet (c.advance guard).pend x (s.pos x + k) } (c.advance guard) rfl rfl (by
              intro y
              simp only [pendGet_set, hadvpend]
              split
              · rename_i hy; subst hy; rw [hhead.2]; rfl
              · rfl)
          rw [hcg]; exact hadv
        refine ⟨?_, ?_, ?_, ?_⟩
        · intro u cu hu
          rcases ths_set_get _ t u _ cu hlt hu with ⟨_, rfl⟩ | ⟨_, hu'⟩
          · exact hok'
          · exact hinv.disc u cu hu'
        · intro u cu hu
          rcases ths_set_get _ t u _ cu hlt hu with ⟨_, rfl⟩ | ⟨_, hu'⟩
          · simp only; rw [hadvheld]; exact hinv.nodup t c hc
          · exact hinv.nodup u cu hu'
        · intro u cu m hu
          simp only
          rcases ths_set_get _ t u _ cu hlt hu with ⟨rfl, rfl⟩ | ⟨_, hu'⟩
          · simp only; rw [hadvheld]; exact hinv.locks u c m hc
          · exact hinv.locks u cu m hu'
        · intro u cu y q hu hq
          simp only
          rcases ths_set_get _ t u _ cu hlt hu with ⟨rfl, rfl⟩ | ⟨hne, hu'⟩
          · simp only at hq ⊢
            rw [hadvpend, pendGet_set] at hq
            rw [hadvheld]
            by_cases hy : y = x
            · subst hy
              rw [if_pos rfl] at hq ⊢
              exact ⟨hhead.1, Option.some.inj hq⟩
            · rw [if_neg hy] at hq ⊢
              exact hinv.pend u c y q hc hq
          · obtain ⟨h1, h2⟩ := hinv.pend u cu y q hu' hq
            refine ⟨h1, ?_⟩
            by_cases hy : y = x
            · subst hy
              have := (hinv.locks u cu _ hu').mp h1
              rw [hown] at this
              exact absurd (Option.some.inj this).symm hne
            · rw [if_neg hy]; exact h2

/-- **no interference**: whatever the other threads did in between, a position-dependent call observes the position its own
    thread set in the same critical section -/
theorem use_observes_own (s s' : St) (t k x obs : Nat) (hinv : Inv guard s)
    (h : step guard s t k = some (s', some (x, obs))) :
    ∃ c, s.ths[t]? = some c ∧ pendGet c.pend x = some obs := by
  unfold step at h
  cases hc : s.ths[t]? with
  | none => rw [hc] at h; cases h
  | some c =>
    rw [hc] at h
    simp only at h
    cases htodo : c.todo with
    | nil => rw [htodo] at h; cases h
    | cons e rest =>
      rw [htodo] at h
      cases e with
      | acq l => simp only at h; split at h <;> simp at h
      | rel l => simp at h
      | seek y p => simp at h
      | use y =>
        simp only [Option.some.injEq, Prod.mk.injEq] at h
        obtain ⟨_, hx, hobs⟩ := h
        subst hx
        have hhead := ok_head guard c (.use y) rest htodo (hinv.disc t c hc)
        simp only at hhead
        cases hp : pendGet c.pend y with
        | none => rw [hp] at hhead; simp at hhead
        | some p =>
          have := (hinv.pend t c y p hc hp).2
          refine ⟨c, rfl, ?_⟩
          rw [← hobs, this]; exact hp

/-- a schedule: which thread runs next and how far its `use` (if it is one) moves the position; steps that are not enabled
    (blocked on a lock, thread finished) are skipped.  Returns the final state and the observations in order. -/
def run (s : St) : List (Nat × Nat) → St × List (Nat × Nat × Nat)
  | [] => (s, [])
  | (t, k) :: rest =>
    match step guard s t k with
    | none => run s rest
    | some (s', o) =>
      let (sf, log) := run s' rest
      (sf, match o with | some (x, p) => (t, x, p) :: log | none => log)

/-- the observations a thread would make running alone: for each `use`, the position it set itself -/
def Expected (s : St) (t x obs : Nat) : Prop := ∃ c, s.ths[t]? = some c ∧ pendGet c.pend x = some obs

/-- **every schedule**: along any interleaving of disciplined threads, every observation is the observing thread's own
    position — reads return what they return in a serial run, writes land where a serial run puts them -/
theorem run_inv (sched : List (Nat × Nat)) : ∀ (s : St), Inv guard s → Inv guard (run guard s sched).1 := by
  induction sched with
  | nil => intro s h; exact h
  | cons a rest ih =>
    intro s hinv
    obtain ⟨t, k⟩ := a
    simp only [run]
    cases hst : step guard s t k with
    | none => exact ih s hinv
    | some r =>
      obtain ⟨s', o⟩ := r
      simp only
      exact ih s' (step_inv guard s s' t k o hinv hst)

/-- the initial state of a set of thread programs: nothing held, nothing pending, all locks free -/
def initSt (progs : List (List Ev)) (pos : Nat → Nat) : St :=
  ⟨pos, fun _ => none, progs.map fun p => ⟨[], [], p⟩⟩

theorem init_inv (progs : List (List Ev)) (pos : Nat → Nat)
    (h : ∀ p, p ∈ progs → disciplined guard p.length ⟨[], [], p⟩ = true) : Inv guard (initSt progs pos) := by
  refine ⟨?_, ?_, ?_, ?_⟩
  · intro t c hc
    simp only [initSt, List.getElem?_map] at hc
    cases hp : progs[t]? with
    | none => rw [hp] at hc; cases hc
    | some p =>
      rw [hp] at hc
      simp only [Option.map_some, Option.some.injEq] at hc
      subst hc
      exact h p (List.mem_of_getElem? hp)
  · intro t c hc
    simp only [initSt, List.getElem?_map] at hc
    cases hp : progs[t]? with
    | none => rw [hp] at hc; cases hc
    | some p => rw [hp] at hc; simp only [Option.map_some, Option.some.injEq] at hc; subst hc; exact List.nodup_nil
  · intro t c l hc
    simp only [initSt, List.getElem?_map] at hc
    cases hp : progs[t]? with
    | none => rw [hp] at hc; cases hc
    | some p => rw [hp] at hc; simp only [Option.map_some, Option.some.injEq] at hc; subst hc; simp [initSt]
  · intro t c x p hc hq
    simp only [initSt, List.getElem?_map] at hc
    cases hp : progs[t]? with
    | none => rw [hp] at hc; cases hc
    | some pr => rw [hp] at hc; simp only [Option.map_some, Option.some.injEq] at hc; subst hc; simp [pendGet] at hq

/-- along a schedule, every observation is the observing thread's own position (at the moment of the observation) -/
def RunOwn (s : St) : List (Nat × Nat) → Prop
  | [] => True
  | (t, k) :: rest =>
    match step guard s t k with
    | none => RunOwn s rest
    | some (s', o) => (match o with | some (x, p) => Expected s t x p | none => True) ∧ RunOwn s' rest

theorem run_own (sched : List (Nat × Nat)) : ∀ (s : St), Inv guard s → RunOwn guard s sched := by
  induction sched with
  | nil => intro s _; trivial
  | cons a rest ih =>
    intro s hinv
    obtain ⟨t, k⟩ := a
    simp only [RunOwn]
    cases hst : step guard s t k with
    | none => exact ih s hinv
    | some r =>
      obtain ⟨s', o⟩ := r
      simp only
      refine ⟨?_, ih s' (step_inv guard s s' t k o hinv hst)⟩
      cases o with
      | none => trivial
      | some xp =>
        obtain ⟨x, p⟩ := xp
        exact use_observes_own guard s s' t k x p hinv hst
end Sched
end Pyctr
