import Proofs.TmdRoundtrip
namespace Pyctr

/-- the hash function has a collision -/
def Collision (H : Bytes → Bytes) : Prop := ∃ x y, x ≠ y ∧ H x = H y

theorem slice_congr (b b' : Bytes) (a n : Nat) (h : ∀ i, a ≤ i → i < a + n → b'[i]? = b[i]?) :
    slice b' a n = slice b a n := by
  apply List.ext_getElem?; intro i
  simp only [slice_getElem?]
  by_cases hi : i < n
  · simp only [hi, if_true]; exact h (a + i) (by omega) (by omega)
  · simp only [hi, if_false]

namespace Tmd

/-- everything `load` does up to and including the header-hash check only looks at bytes outside... the header and
    the info block; this evaluates that prefix of `load` -/
theorem load_hash_check (H : Bytes → Bytes) (b : Bytes) (sz pad : Nat)
    (hsig : sigInfo (readBE (slice b 0 4)) = some (sz, pad))
    (hlen : 4 + sz + pad + 0xC4 + 0x900 ≤ b.length)
    (hne : H (slice b (4 + sz + pad + 0xC4) 0x900) ≠ slice (slice b (4 + sz + pad) 0xC4) 0xA4 0x20) :
    load H true b = .error (.other "InvalidHashError") := by
  unfold load
  have h1 : (slice b (4 + sz + pad) 0xC4).length = 0xC4 := by rw [slice_length]; omega
  have h2 : (slice b (4 + sz + pad + 0xC4) 0x900).length = 0x900 := by rw [slice_length]; omega
  have h3 : (H (slice b (4 + sz + pad + 0xC4) 0x900) != slice (slice b (4 + sz + pad) 0xC4) 0xA4 0x20) = true := by
    simpa using hne
  simp only [hsig, h1, h2, ne_eq, not_true_eq_false, if_false, Bool.true_and, h3, if_true]

theorem sigInfo_lt (ty sz pad : Nat) (h : sigInfo ty = some (sz, pad)) : ty < 256 ^ 4 := by
  unfold sigInfo at h
  split at h <;> first | omega | (split at h <;> first | omega | (split at h <;> first | omega |
    (split at h <;> first | omega | (split at h <;> first | omega | (split at h <;> first | omega | cases h)))))

theorem serialized_sig (H : Bytes → Bytes) (t : T) (sz pad : Nat) (hs : sigInfo t.sigType = some (sz, pad)) :
    readBE (slice (segments H t sz pad).flatten 0 4) = t.sigType := by
  have := slice_flatten_at (segments H t sz pad) 0 (by simp [segments])
  have e : slice (segments H t sz pad).flatten 0 4 = toBE 4 t.sigType := by
    simpa [segments, toBE_length] using this
  rw [e, readBE_toBE 4 _ (sigInfo_lt _ _ _ hs)]

/-- **C11 (info block).**  If a TMD that serialises a well-formed value is modified anywhere inside the 0x900-byte
    content-info block (and nowhere else), loading with verification fails with the hash error — unless SHA-256
    collides. -/
theorem tamper_info (H : Bytes → Bytes) (t : T) (sz pad : Nat) (w : WFv H t sz pad) (b' : Bytes)
    (hlen : b'.length = (segments H t sz pad).flatten.length)
    (hout : ∀ i, (i < 4 + sz + pad + 0xC4 ∨ 4 + sz + pad + 0xC4 + 0x900 ≤ i) → b'[i]? = (segments H t sz pad).flatten[i]?)
    (hdiff : b' ≠ (segments H t sz pad).flatten) :
    load H true b' = .error (.other "InvalidHashError") ∨ Collision H := by
  generalize hb : (segments H t sz pad).flatten = b at *
  have hinfo := infoBlock_length t.infoRecords w.infos w.infos_len
  have hchunks := chunks_length t.chunkRecords w.chunks
  have hbl : b.length = 4 + sz + pad + 0xC4 + 0x900 + 0x30 * t.chunkRecords.length := by
    rw [← hb]; exact segments_length H t sz pad _ hinfo hchunks
  -- the original loads fine, in particular its header hash matches its info block
  have hload := (load_serialize H t sz pad w).2
  rw [hb] at hload
  -- slices outside the block agree
  have e0 : slice b' 0 4 = slice b 0 4 := slice_congr _ _ _ _ (fun i _ h2 => hout i (Or.inl (by omega)))
  have eh : slice b' (4 + sz + pad) 0xC4 = slice b (4 + sz + pad) 0xC4 :=
    slice_congr _ _ _ _ (fun i _ h2 => hout i (Or.inl (by omega)))
  have hraw : slice b' (4 + sz + pad + 0xC4) 0x900 ≠ slice b (4 + sz + pad + 0xC4) 0x900 := by
    intro heq
    apply hdiff
    apply List.ext_getElem?; intro i
    by_cases hi : i < 4 + sz + pad + 0xC4 ∨ 4 + sz + pad + 0xC4 + 0x900 ≤ i
    · exact hout i hi
    · have := congrArg (fun l => l[i - (4 + sz + pad + 0xC4)]?) heq
      simp only [slice_getElem?] at this
      rw [if_pos (by omega), if_pos (by omega)] at this
      have e : 4 + sz + pad + 0xC4 + (i - (4 + sz + pad + 0xC4)) = i := by omega
      rw [e] at this; exact this
  have hsig : sigInfo (readBE (slice b 0 4)) = some (sz, pad) := by
    rw [← hb, serialized_sig H t sz pad w.sig]; exact w.sig
  have horig : H (slice b (4 + sz + pad + 0xC4) 0x900) = slice (slice b (4 + sz + pad) 0xC4) 0xA4 0x20 := by
    apply Classical.byContradiction; intro hne
    have := load_hash_check H b sz pad hsig (by omega) hne
    rw [hload] at this; cases this
  by_cases hH : H (slice b' (4 + sz + pad + 0xC4) 0x900) = H (slice b (4 + sz + pad + 0xC4) 0x900)
  · exact Or.inr ⟨_, _, hraw, hH⟩
  · left
    apply load_hash_check H b' sz pad (by rw [e0]; exact hsig) (by omega)
    rw [eh, ← horig]; exact hH


/-- the chunk records an info record covers -/
def covered (cs : List ChunkRecord) (ir : InfoRecord) : List ChunkRecord := (cs.drop ir.indexOffset).take ir.commandCount

theorem verifyInfo_ok (H : Bytes → Bytes) (cs : List ChunkRecord) (irs : List InfoRecord) (hashed : List ChunkRecord)
    (h : verifyInfo H cs irs hashed = .ok ()) : ∀ ir ∈ irs, H ((covered cs ir).flatMap ChunkRecord.bytes) = ir.hash := by
  induction irs generalizing hashed with
  | nil => intro ir hir; cases hir
  | cons a rest ih =>
    intro ir hir
    simp only [verifyInfo] at h
    split at h
    · cases h
    · rename_i hashed' _
      split at h
      · cases h
      · rename_i hne
        rcases List.mem_cons.mp hir with rfl | hm
        · simpa [covered] using hne
        · exact ih hashed' h ir hm

/-- records parsed from full 48-byte slices are in range, so their serialisation determines them -/
theorem ofBytes_wf (raw : Bytes) (h : raw.length = 0x30) : WfChunk (ChunkRecord.ofBytes raw) := by
  have rb : ∀ (d : Bytes), readBE d < 256 ^ d.length := by
    intro d
    have : ∀ (l : Bytes) (acc : Nat), acc < 256 ^ 0 * (acc + 1) → True := fun _ _ _ => trivial
    have hle : ∀ (l : Bytes), readLE l < 256 ^ l.length := by
      intro l; induction l with
      | nil => simp [readLE]
      | cons x xs ih =>
        simp only [readLE, List.length_cons, Nat.pow_succ]
        have := x.toNat_lt; omega
    rw [readBE_eq_readLE_reverse]; have := hle d.reverse; simpa using this
  refine ⟨?_, ?_, ?_, ?_⟩
  · simp [ChunkRecord.ofBytes, slice_length, h]
  · have := rb (slice raw 4 2); simp only [slice_length, h] at this; simpa [ChunkRecord.ofBytes] using this
  · have := rb (slice raw 8 8); simp only [slice_length, h] at this; simpa [ChunkRecord.ofBytes] using this
  · simp [ChunkRecord.ofBytes, slice_length, h]

theorem chunkList_wf (raw : Bytes) (n i : Nat) (h : 0x30 * (i + n) ≤ raw.length) :
    ∀ c ∈ chunkList raw n i, WfChunk c := by
  induction n generalizing i with
  | zero => intro c hc; cases hc
  | succ m ih =>
    intro c hc
    simp only [chunkList, List.mem_cons] at hc
    rcases hc with rfl | hc
    · exact ofBytes_wf _ (by rw [slice_length]; omega)
    · exact ih (i + 1) (by omega) c hc

theorem chunkList_length (raw : Bytes) (n i : Nat) : (chunkList raw n i).length = n := by
  induction n generalizing i with
  | zero => rfl
  | succ m ih => simp [chunkList, ih]

theorem flatMap_bytes_inj (l1 l2 : List ChunkRecord) (h1 : ∀ c ∈ l1, WfChunk c) (h2 : ∀ c ∈ l2, WfChunk c)
    (hl : l1.length = l2.length) (he : l1.flatMap ChunkRecord.bytes = l2.flatMap ChunkRecord.bytes) : l1 = l2 := by
  induction l1 generalizing l2 with
  | nil => cases l2 with
    | nil => rfl
    | cons _ _ => simp at hl
  | cons a t ih =>
    cases l2 with
    | nil => simp at hl
    | cons b u =>
      simp only [List.flatMap_cons] at he
      have la := chunk_bytes_length a (h1 a (by simp))
      have lb := chunk_bytes_length b (h2 b (by simp))
      have hab : a.bytes = b.bytes ∧ t.flatMap ChunkRecord.bytes = u.flatMap ChunkRecord.bytes :=
        List.append_inj he (by rw [la, lb])
      have : a = b := by
        rw [← chunk_roundtrip a (h1 a (by simp)), ← chunk_roundtrip b (h2 b (by simp)), hab.1]
      rw [this, ih u (fun c hc => h1 c (by simp [hc])) (fun c hc => h2 c (by simp [hc])) (by simpa using hl) hab.2]

/-- **C11 (chunk records).**  If a TMD that serialises a well-formed value is modified anywhere inside the content
    chunk records (and nowhere else), then loading with verification either fails, or every chunk record covered by
    an info record is unchanged — unless SHA-256 collides. -/
theorem tamper_chunk (H : Bytes → Bytes) (t : T) (sz pad : Nat) (w : WFv H t sz pad) (raw : Bytes)
    (hraw : raw.length = 0x30 * t.chunkRecords.length) :
    (∃ e, load H true (segsWith H t sz pad raw).flatten = .error e) ∨
    (∃ t', load H true (segsWith H t sz pad raw).flatten = .ok t' ∧ t'.infoRecords = t.infoRecords ∧
        ∀ ir ∈ t.infoRecords, covered t'.chunkRecords ir = covered t.chunkRecords ir) ∨
    Collision H := by
  rw [load_segsWith H t sz pad w raw hraw]
  cases hv : verifyInfo H (chunkList raw t.chunkRecords.length 0) t.infoRecords [] with
  | error e => exact Or.inl ⟨e, rfl⟩
  | ok u =>
    cases u
    by_cases hall : ∀ ir ∈ t.infoRecords,
        (covered (chunkList raw t.chunkRecords.length 0) ir).flatMap ChunkRecord.bytes =
          (covered t.chunkRecords ir).flatMap ChunkRecord.bytes
    · right; left
      refine ⟨_, rfl, rfl, ?_⟩
      intro ir hir
      have hwf' := chunkList_wf raw t.chunkRecords.length 0 (by omega)
      apply flatMap_bytes_inj _ _ _ _ _ (hall ir hir)
      · intro c hc; exact hwf' c (List.mem_of_mem_drop (List.mem_of_mem_take hc))
      · intro c hc; exact w.chunks c (List.mem_of_mem_drop (List.mem_of_mem_take hc))
      · simp [covered, chunkList_length]
    · right; right
      obtain ⟨ir, h1⟩ := Classical.not_forall.mp hall
      obtain ⟨hir, hne⟩ := Classical.not_imp.mp h1
      refine ⟨_, _, hne, ?_⟩
      rw [verifyInfo_ok H _ _ _ hv ir hir, verifyInfo_ok H _ _ _ w.verified ir hir]

end Tmd
end Pyctr
