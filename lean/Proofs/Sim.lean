import PyctrModel.Base.Run
namespace Pyctr

/-- `x` (implementation side) simulates `y` (specification side) up to the relation `Q` on results;
    errors are reproduced exactly. -/
def SimG {β β' : Type} (Q : β → β' → Prop) (x : Except Err β) (y : Except Err β') : Prop :=
  match y with
  | .ok v' => ∃ v, x = .ok v ∧ Q v v'
  | .error e => x = .error e

theorem simG_bind {β β' γ γ' : Type} {Q1 : β → β' → Prop} {Q2 : γ → γ' → Prop}
    {x : Except Err β} {y : Except Err β'} {f : β → Except Err γ} {g : β' → Except Err γ'}
    (h1 : SimG Q1 x y) (h2 : ∀ v v', Q1 v v' → SimG Q2 (f v) (g v')) :
    SimG Q2 (x >>= f) (y >>= g) := by
  cases y with
  | error e => simp only [SimG] at h1; subst h1; simp [SimG, bind, Except.bind]
  | ok v' =>
    obtain ⟨v, rfl, hq⟩ := h1
    simpa [bind, Except.bind] using h2 v v' hq

theorem simG_pure {β β' : Type} {Q : β → β' → Prop} {v : β} {v' : β'} (h : Q v v') :
    SimG Q (Except.ok v : Except Err β) (Except.ok v') := ⟨v, rfl, h⟩

theorem simG_error {β β' : Type} {Q : β → β' → Prop} (e : Err) :
    SimG Q (Except.error e : Except Err β) (Except.error e : Except Err β') := rfl

section
variable {σ : Type} {F : FileOps σ} {inv : σ → Prop} {abs : σ → AFile}

/-- result relation of one file operation: same output, related states -/
def OpRel (inv : σ → Prop) (abs : σ → AFile) {α : Type} (v : α × σ) (v' : α × AFile) : Prop :=
  v.1 = v'.1 ∧ inv v.2 ∧ abs v.2 = v'.2

theorem sim_read (hF : IsReadable F inv abs) (r : σ) (a : AFile) (hr : inv r) (ha : abs r = a) (n : Int) :
    SimG (OpRel inv abs) (F.read r n) (AFile.ops.read a n) := by
  subst ha
  obtain ⟨r', e, a', v⟩ := hF.read r n hr
  exact ⟨_, e, rfl, v, a'⟩

theorem sim_tell (hF : IsReadable F inv abs) (r : σ) (a : AFile) (hr : inv r) (ha : abs r = a) :
    SimG (OpRel inv abs) (F.tell r) (AFile.ops.tell a) := by
  subst ha
  obtain ⟨r', e, a', v⟩ := hF.tell r hr
  exact ⟨_, e, rfl, v, a'⟩

theorem sim_seek (hF : IsReadable F inv abs) (r : σ) (a : AFile) (hr : inv r) (ha : abs r = a) (off wh : Int) :
    SimG (OpRel inv abs) (F.seek r off wh) (AFile.ops.seek a off wh) := by
  subst ha
  cases hs : (abs r).seek off wh with
  | error e =>
    have := hF.seek_err r off wh e hr hs
    simp only [SimG, AFile.ops, hs]; exact this
  | ok v =>
    obtain ⟨p, a'⟩ := v
    obtain ⟨r', e, a'', v'⟩ := hF.seek_ok r off wh p a' hr hs
    simp only [SimG, AFile.ops, hs]
    exact ⟨_, e, rfl, v', a''⟩
end
end Pyctr
