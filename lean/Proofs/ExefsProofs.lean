import PyctrModel.Fmt.Exefs
import Proofs.BytesLemmas
import Proofs.AFileLemmas
namespace Pyctr
namespace Exefs

/-! ### name aliases -/

theorem endsWith_append (p s : Bytes) : endsWith (p ++ s) s = true := by
  simp [endsWith]

theorem lower_dotBin : dotBin.map lowerAscii = dotBin := by decide

theorem stripSlash_noslash (N : Bytes) (h1 : N.head? ≠ some 0x2F) : stripSlash N = N := by
  have : (N.head? == some (0x2F : UInt8)) = false := by simpa using h1
  simp [stripSlash, this]

theorem stripSlash_cons (P : Bytes) : stripSlash ((0x2F : UInt8) :: P) = P := by
  simp [stripSlash]

theorem stripBin_plain (N : Bytes) (h2 : endsWith (N.map lowerAscii) dotBin = false) : stripBin N = N := by
  simp [stripBin, h2]

theorem stripBin_bin (N : Bytes) : stripBin (N ++ dotBin) = N := by
  have he : endsWith ((N ++ dotBin).map lowerAscii) dotBin = true := by
    rw [List.map_append, lower_dotBin]; exact endsWith_append _ _
  simp only [stripBin, he, if_true]
  have h4 : (-4 : Int) = -((4 : Nat) : Int) := rfl
  rw [h4, pySlice_dropLast _ 4 (by omega)]
  simp [dotBin]

theorem head_append_ne (N s : Bytes) (hne : N ≠ []) : (N ++ s).head? = N.head? := by
  cases N with
  | nil => exact absurd rfl hne
  | cons a t => rfl

end Exefs
end Pyctr
namespace Pyctr

/-- slices of a concatenation of equal-length chunks pick out the chunks -/
theorem slice_flatMap_chunk {α : Type} (f : α → Bytes) (k : Nat) (l : List α) (rest : Bytes)
    (hk : ∀ x ∈ l, (f x).length = k) (i : Nat) (hi : i < l.length) :
    slice (l.flatMap f ++ rest) (k * i) k = f l[i] := by
  induction l generalizing i with
  | nil => simp at hi
  | cons a t ih =>
    have ha : (f a).length = k := hk a (by simp)
    cases i with
    | zero =>
      simp only [List.flatMap_cons, Nat.mul_zero, List.getElem_cons_zero, slice, List.drop_zero, List.append_assoc]
      rw [List.take_append_of_le_length (by omega), List.take_of_length_le (by omega)]
    | succ j =>
      simp only [List.flatMap_cons, List.getElem_cons_succ, List.append_assoc]
      have := ih (fun x hx => hk x (by simp [hx])) j (by simpa using hi)
      rw [← this]
      simp only [slice]
      congr 1
      have e : k * (j + 1) = (f a).length + k * j := by rw [ha, Nat.mul_succ, Nat.add_comm]
      rw [e, List.drop_length_add_append]

namespace Exefs

/-- what a well-formed table entry is: 1-8 ASCII non-NUL characters, 32-bit fields, aligned offset, 32-byte hash -/
structure WfEntry (e : Entry) : Prop where
  name_ne : e.name ≠ []
  name_len : e.name.length ≤ 8
  name_ascii : ∀ b ∈ e.name, b ≠ 0 ∧ b < 0x80
  off_lt : e.offset < 2 ^ 32
  size_lt : e.size < 2 ^ 32
  aligned : e.offset % 0x200 = 0
  hash_len : e.hash.length = 32

def WfSlot : Option Entry → Prop
  | none => True
  | some e => WfEntry e

theorem encodeSlot_length (o : Option Entry) (h : WfSlot o) : (encodeSlot o).length = 16 := by
  cases o with
  | none => simp [encodeSlot]
  | some e =>
    have := h.name_len
    have hl : ∀ n v, (toLE n v).length = n := by
      intro n; induction n with
      | zero => intro v; rfl
      | succ m ih => intro v; simp [toLE, ih]
    simp [encodeSlot, hl]; omega

theorem hashOf_length (o : Option Entry) (h : WfSlot o) : (hashOf o).length = 32 := by
  cases o with
  | none => simp [hashOf]
  | some e => exact h.hash_len

theorem readLE_toLE (n v : Nat) (h : v < 256 ^ n) : readLE (toLE n v) = v := by
  induction n generalizing v with
  | zero => simp at h; subst h; rfl
  | succ m ih =>
    simp only [toLE, readLE]
    have h1 : (UInt8.ofNat (v % 256)).toNat = v % 256 := by
      simp [UInt8.toNat_ofNat']
    rw [h1, ih (v / 256) (by rw [Nat.pow_succ] at h; omega)]
    omega

theorem rstripNul_append_zeros (n : Bytes) (k : Nat) (h : ∀ b ∈ n, b ≠ 0) : rstripNul (n ++ zeros k) = n := by
  simp only [rstripNul, zeros, List.reverse_append, List.reverse_replicate]
  have h1 : ∀ (k : Nat) (r : Bytes), (List.replicate k (0 : UInt8) ++ r).dropWhile (· == 0) = r.dropWhile (· == 0) := by
    intro k r; induction k with
    | zero => rfl
    | succ m ih => simp [List.replicate_succ, ih]
  rw [h1]
  have h2 : n.reverse.dropWhile (· == 0) = n.reverse := by
    cases hr : n.reverse with
    | nil => rfl
    | cons a t =>
      have : a ∈ n := by
        have : a ∈ n.reverse := by rw [hr]; simp
        simpa using this
      have ha : (a == 0) = false := by simpa using h a this
      simp [List.dropWhile, ha]
  rw [h2, List.reverse_reverse]

end Exefs
end Pyctr
namespace Pyctr
theorem slice_append_right (a b : Bytes) (p n : Nat) : slice (a ++ b) (a.length + p) n = slice b p n := by
  simp [slice, List.drop_length_add_append]

theorem slice_append_right' (a b : Bytes) (p q n : Nat) (h : p = a.length + q) : slice (a ++ b) p n = slice b q n := by
  subst h; exact slice_append_right a b q n

theorem slice_append_left (a b : Bytes) (p n : Nat) (h : p + n ≤ a.length) : slice (a ++ b) p n = slice a p n := by
  simp only [slice]
  rw [List.drop_append_of_le_length (by omega), List.take_append_of_le_length (by simp; omega)]

namespace Exefs

theorem toLE_length (n v : Nat) : (toLE n v).length = n := by
  induction n generalizing v with
  | zero => rfl
  | succ m ih => simp [toLE, ih]

theorem parseSlot_build (table : List (Option Entry)) (hlen : table.length = 10) (hwf : ∀ o ∈ table, WfSlot o)
    (i : Nat) (hi : i < table.length) : parseSlot (build table) i = .ok table[i] := by
  have hraw : slice (build table) (16 * i) 16 = encodeSlot table[i] := by
    unfold build; rw [List.append_assoc]
    exact slice_flatMap_chunk encodeSlot 16 table _ (fun x hx => encodeSlot_length x (hwf x hx)) i hi
  have hA : (table.flatMap encodeSlot ++ zeros 0x20).length = 192 := by
    have : ∀ (l : List (Option Entry)), (∀ o ∈ l, WfSlot o) → (l.flatMap encodeSlot).length = 16 * l.length := by
      intro l; induction l with
      | nil => intro _; rfl
      | cons a t ih =>
        intro h
        simp only [List.flatMap_cons, List.length_append, List.length_cons]
        rw [ih (fun o ho => h o (by simp [ho])), encodeSlot_length a (h a (by simp))]; omega
    simp [this table hwf, hlen]
  have hhash : slice (build table) (0x1E0 - 0x20 * i) 0x20 = hashOf table[i] := by
    have e : 0x1E0 - 0x20 * i = (table.flatMap encodeSlot ++ zeros 0x20).length + 32 * (9 - i) := by rw [hA]; omega
    unfold build
    rw [e, slice_append_right]
    have := slice_flatMap_chunk hashOf 32 table.reverse []
      (fun x hx => hashOf_length x (hwf x (by simpa using hx))) (9 - i) (by simp; omega)
    rw [List.append_nil] at this
    rw [this]
    congr 1
    rw [List.getElem_reverse]; congr 1; omega
  unfold parseSlot
  simp only [hraw, hhash]
  cases ht : table[i] with
  | none => simp [encodeSlot]
  | some e =>
    have hw : WfEntry e := by
      have := hwf (some e) (by rw [← ht]; exact List.getElem_mem hi); exact this
    have hnl := hw.name_len
    obtain ⟨a, t, hn⟩ : ∃ a t, e.name = a :: t := by
      cases h : e.name with
      | nil => exact absurd h hw.name_ne
      | cons a t => exact ⟨a, t, rfl⟩
    have ha0 : a ≠ 0 := (hw.name_ascii a (by rw [hn]; simp)).1
    have hne : (encodeSlot (some e) == zeros 16) = false := by
      simp only [encodeSlot, hn, zeros]
      simp [List.replicate_succ, ha0]
    have hpre : (e.name ++ zeros (8 - e.name.length)).length = 8 := by simp; omega
    have hs1 : slice (encodeSlot (some e)) 0 8 = e.name ++ zeros (8 - e.name.length) := by
      simp only [encodeSlot, List.append_assoc]
      rw [← List.append_assoc, slice_append_left _ _ 0 8 (by omega)]
      exact slice_all _ _ (by omega)
    have hs2 : slice (encodeSlot (some e)) 8 4 = toLE 4 e.offset := by
      simp only [encodeSlot]
      rw [List.append_assoc (e.name ++ zeros (8 - e.name.length))]
      rw [slice_append_right' _ _ 8 0 4 (by omega), slice_append_left _ _ 0 4 (by simp [toLE_length])]
      exact slice_all _ _ (by simp [toLE_length])
    have hs3 : slice (encodeSlot (some e)) 12 4 = toLE 4 e.size := by
      simp only [encodeSlot]
      rw [slice_append_right' _ _ 12 0 4 (by simp [toLE_length]; omega)]
      exact slice_all _ _ (by simp [toLE_length])
    have hname : rstripNul (e.name ++ zeros (8 - e.name.length)) = e.name :=
      rstripNul_append_zeros _ _ (fun b hb => (hw.name_ascii b hb).1)
    have hany : e.name.any (· ≥ 0x80) = false := by
      rw [List.any_eq_false]; intro b hb
      have := (hw.name_ascii b hb).2
      simp only [ge_iff_le, decide_eq_true_eq, UInt8.not_le]; exact this
    simp only [hne, Bool.false_eq_true, if_false, hs1, hname, hany, hs2, hs3,
      readLE_toLE 4 _ (by have := hw.off_lt; omega), readLE_toLE 4 _ (by have := hw.size_lt; omega),
      hw.aligned, ne_eq, not_true_eq_false]
    cases e; rfl

end Exefs
end Pyctr
namespace Pyctr
namespace Exefs

def stored (table : List (Option Entry)) : List Entry := table.filterMap id

theorem dictInsert_fresh (l : List Entry) (e : Entry) (h : ∀ x ∈ l, x.name ≠ e.name) : dictInsert l e = l ++ [e] := by
  have : l.any (·.name == e.name) = false := by
    rw [List.any_eq_false]; intro x hx; simpa using h x hx
  simp [dictInsert, this]

theorem parseFrom_build (table : List (Option Entry)) (hlen : table.length = 10) (hwf : ∀ o ∈ table, WfSlot o)
    (hdist : (stored table).Pairwise (fun a b => a.name ≠ b.name))
    (n i : Nat) (hn : i + n = 10) :
    parseFrom (build table) n i (stored (table.take i)) = .ok (stored table) := by
  induction n generalizing i with
  | zero =>
    have : i = 10 := by omega
    subst this
    simp [parseFrom, ← hlen]
  | succ m ih =>
    have hi : i < table.length := by omega
    simp only [parseFrom, parseSlot_build table hlen hwf i hi]
    have htake : table.take (i + 1) = table.take i ++ [table[i]] := by
      rw [List.take_succ_eq_append_getElem hi]
    cases ht : table[i] with
    | none =>
      simp only
      have := ih (i + 1) (by omega)
      rw [htake, ht] at this
      simpa [stored] using this
    | some e =>
      simp only
      have hfresh : ∀ x ∈ stored (table.take i), x.name ≠ e.name := by
        intro x hx
        -- x precedes e in `stored table`
        have hsplit : stored table = stored (table.take i) ++ e :: stored (table.drop (i + 1)) := by
          have : table = table.take i ++ table[i] :: table.drop (i + 1) := by
            rw [List.getElem_cons_drop, List.take_append_drop]
          conv => lhs; rw [this]
          simp [stored, ht]
        rw [hsplit] at hdist
        rw [List.pairwise_append] at hdist
        exact hdist.2.2 x hx e (by simp)
      rw [dictInsert_fresh _ _ hfresh]
      have := ih (i + 1) (by omega)
      rw [htake, ht] at this
      simpa [stored] using this

/-- **C07 round trip.** The reader reports exactly the entries packed into the header — names, offsets, sizes and
    hashes, in slot order — for every table of ten optional well-formed slots with pairwise distinct names. -/
theorem parse_build (table : List (Option Entry)) (hlen : table.length = 10) (hwf : ∀ o ∈ table, WfSlot o)
    (hdist : (stored table).Pairwise (fun a b => a.name ≠ b.name)) :
    parse (build table) = .ok (stored table) := by
  have := parseFrom_build table hlen hwf hdist 10 0 rfl
  simpa [parse, stored] using this

end Exefs
end Pyctr
