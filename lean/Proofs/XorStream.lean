import PyctrModel.Crypto.Wrappers
import PyctrModel.Base.Run
import Proofs.BytesLemmas
import Proofs.AFileLemmas
namespace Pyctr

/-- stream-cipher transform of `data` that sits at stream position `p`, for keystream `ks` -/
def xorWith (ks : Nat → UInt8) (p : Nat) (data : Bytes) : Bytes :=
  data.mapIdx fun i b => b ^^^ ks (p + i)

variable (E : Bytes → Bytes) (ks : Nat → UInt8)

@[simp] theorem xorWith_length (p : Nat) (d : Bytes) : (xorWith ks p d).length = d.length := by
  simp [xorWith]

theorem xorWith_getElem? (p : Nat) (d : Bytes) (i : Nat) :
    (xorWith ks p d)[i]? = d[i]?.map (· ^^^ ks (p + i)) := by
  simp [xorWith, List.getElem?_mapIdx]

theorem plain3ds_eq (ctr : Nat) (ct : Bytes) : plain3ds E ctr ct = xorWith (ksByte E ctr) 0 ct := by
  simp [plain3ds, xorWith]

theorem ksByte_shift (c0 used ctr pos i : Nat) (h : 16 * c0 + used = 16 * ctr + pos) :
    ksByte E c0 (used + i) = ksByte E ctr (pos + i) := by
  unfold ksByte
  have h1 : c0 + (used + i) / 16 = ctr + (pos + i) / 16 := by omega
  have h2 : (used + i) % 16 = (pos + i) % 16 := by omega
  rw [h1, h2]

theorem slice_xorWith (p k : Nat) (ct : Bytes) :
    slice (xorWith ks 0 ct) p k = xorWith ks p (slice ct p k) := by
  apply List.ext_getElem?; intro i
  simp only [slice_getElem?, xorWith_getElem?]
  by_cases h : i < k <;> simp [h]

theorem xorWith_involutive (p : Nat) (d : Bytes) : xorWith ks p (xorWith ks p d) = d := by
  apply List.ext_getElem?; intro i
  simp only [xorWith_getElem?]
  cases d[i]? with
  | none => rfl
  | some b => simp [UInt8.xor_assoc]

theorem xorWith_take (p n : Nat) (d : Bytes) : (xorWith ks p d).take n = xorWith ks p (d.take n) := by
  apply List.ext_getElem?; intro i
  simp only [List.getElem?_take, xorWith_getElem?]
  by_cases h : i < n <;> simp [h]

theorem xorWith_isEmpty (p : Nat) (d : Bytes) : (xorWith ks p d).isEmpty = d.isEmpty := by
  cases d <;> simp [xorWith]

/-- writing the encryption of `w` at `p` into the ciphertext = writing `w` at `p` into the plaintext
    (no gap: `p ≤ |c|`) -/
theorem xorWith_overlay (p : Nat) (c w : Bytes) (hp : p ≤ c.length) :
    xorWith ks 0 (overlay c p (xorWith ks p w)) = overlay (xorWith ks 0 c) p w := by
  apply List.ext_getElem?; intro i
  simp only [xorWith_getElem?, overlay_getElem?, xorWith_length, Nat.zero_add]
  by_cases h1 : i < p
  · simp only [h1, if_true, show i < c.length by omega]
  · simp only [h1, if_false]
    by_cases h2 : i < p + w.length
    · simp only [h2, if_true]
      have : p + (i - p) = i := by omega
      rw [this]
      cases w[i - p]? with
      | none => rfl
      | some b => simp [UInt8.xor_assoc]
    · simp only [h2, if_false]


/-! ### a file seen through a stream cipher -/

/-- the abstract file whose content is the stream-cipher transform of `a`'s content -/
def xorFile (ks : Nat → UInt8) (a : AFile) : AFile := { a with content := xorWith ks 0 a.content }

theorem xorFile_readLen (a : AFile) (n : Int) : (xorFile ks a).readLen n = a.readLen n := by
  rw [AFile.readLen_eq, AFile.readLen_eq]; simp [xorFile]

theorem xorFile_writeTake (a : AFile) (w : Bytes) : (xorFile ks a).writeTake w = a.writeTake w := by
  simp [AFile.writeTake, xorFile, AFile.size]

theorem writeTake_xorWith' (f : AFile) (w : Bytes) :
    f.writeTake (xorWith ks f.pos w) = xorWith ks f.pos (f.writeTake w) := by
  simp only [AFile.writeTake]; split
  · rw [xorWith_take]
  · rfl

theorem AFile.readLen_le' (f : AFile) (n : Int) : f.readLen n ≤ f.content.length - f.pos := by
  rw [AFile.readLen_eq]; split <;> omega

variable {σ : Type} {F : FileOps σ} {inv : σ → Prop} {abs : σ → AFile}

theorem inner_read_xor (hF : IsReadable F inv abs) (r1 : σ) (n : Int) (vt : inv r1) :
    ∃ r2 d, F.read r1 n = .ok (d, r2) ∧ xorWith ks (abs r1).pos d = ((xorFile ks (abs r1)).read n).1 ∧
      xorFile ks (abs r2) = ((xorFile ks (abs r1)).read n).2 ∧ inv r2 ∧
      d.length = (abs r1).readLen n ∧ (abs r2).pos = (abs r1).pos + d.length ∧
      d = slice (abs r1).content (abs r1).pos ((abs r1).readLen n) := by
  obtain ⟨r2, er, ar, vr⟩ := hF.read r1 n vt
  have hkle := AFile.readLen_le' (abs r1) n
  have hdlen : (slice (abs r1).content (abs r1).pos ((abs r1).readLen n)).length = (abs r1).readLen n := by
    rw [slice_length]; omega
  refine ⟨r2, _, er, ?_, ?_, vr, ?_, ?_, rfl⟩
  · rw [AFile.read_fst, AFile.read_fst, xorFile_readLen, ← slice_xorWith]; rfl
  · apply AFile.ext'
    · simp only [xorFile, ar, AFile.read_snd_content]
    · rw [AFile.read_snd_pos, xorFile_readLen]; simp only [xorFile, ar, AFile.read_snd_pos]
    · simp only [xorFile, ar, AFile.read_snd_fixed]
    · simp only [xorFile, ar, AFile.read_snd_clamp]
  · rw [AFile.read_fst]; exact hdlen
  · rw [ar, AFile.read_snd_pos, AFile.read_fst, hdlen]

theorem inner_write_xor (hF : IsFileW F inv abs) (r1 : σ) (data : Bytes) (vt : inv r1) (hg : (abs r1).noGap) :
    ∃ r2, F.write r1 (xorWith ks (abs r1).pos data) = .ok (((xorFile ks (abs r1)).write data).1, r2) ∧
      xorFile ks (abs r2) = ((xorFile ks (abs r1)).write data).2 ∧ inv r2 ∧
      (abs r2).fixed = (abs r1).fixed ∧
      ((abs r1).fixed = true → (abs r2).content.length = (abs r1).content.length) ∧
      (abs r2).pos = (abs r1).pos + ((abs r1).writeTake data).length := by
  obtain ⟨r2, ew, aw, vw⟩ := hF.write r1 (xorWith ks (abs r1).pos data) vt hg
  have hwt := writeTake_xorWith' ks (abs r1) data
  have hwt2 := xorFile_writeTake ks (abs r1) data
  generalize hw' : (abs r1).writeTake data = w' at *
  have hwl : (abs r1).fixed = true → (abs r1).pos + w'.length ≤ max (abs r1).pos (abs r1).content.length := by
    intro hf; rw [← hw']; simp only [AFile.writeTake, hf, if_true, AFile.size, List.length_take]; omega
  have hA : (abs r1).write (xorWith ks (abs r1).pos data) =
      if w'.isEmpty then (0, abs r1) else
        (w'.length, { abs r1 with content := overlay (abs r1).content (abs r1).pos (xorWith ks (abs r1).pos w'),
                                  pos := (abs r1).pos + w'.length }) := by
    rw [AFile.write_def, hwt, xorWith_isEmpty, xorWith_length]
  have hB : (xorFile ks (abs r1)).write data =
      if w'.isEmpty then (0, xorFile ks (abs r1)) else
        (w'.length, { xorFile ks (abs r1) with content := overlay (xorWith ks 0 (abs r1).content) (abs r1).pos w',
                                               pos := (abs r1).pos + w'.length }) := by
    rw [AFile.write_def, hwt2]; rfl
  rw [hA] at ew aw
  rw [hB]
  by_cases he : w'.isEmpty
  · simp only [he, if_true] at ew aw ⊢
    have hl : w'.length = 0 := by rw [List.isEmpty_iff] at he; rw [he]; rfl
    exact ⟨r2, ew, by rw [aw], vw, by rw [aw], fun _ => by rw [aw], by rw [aw, hl]; rfl⟩
  · simp only [he, Bool.false_eq_true, if_false] at ew aw ⊢
    have hne : w'.length ≠ 0 := by
      intro h0; apply he; rw [List.isEmpty_iff]; exact List.eq_nil_of_length_eq_zero h0
    have hple : (abs r1).pos ≤ (abs r1).content.length := by
      rcases hg with hf | hp
      · have := hwl hf; omega
      · exact hp
    refine ⟨r2, ew, ?_, vw, by rw [aw], ?_, by rw [aw]⟩
    · apply AFile.ext'
      · simp only [xorFile, aw]; rw [xorWith_overlay _ _ _ _ hple]
      · simp only [xorFile, aw]
      · simp only [xorFile, aw]
      · simp only [xorFile, aw]
    · intro hf; rw [aw]; simp only [overlay_length, xorWith_length]
      have := hwl hf; omega

theorem xorFile_seek (a : AFile) (off wh : Int) :
    (xorFile ks a).seek off wh = (a.seek off wh).map fun (p, a') => (p, xorFile ks a') := by
  simp only [AFile.seek, xorFile, AFile.size, xorWith_length]
  by_cases h0 : wh = 0
  · subst h0
    by_cases ho : off < 0 <;> simp [ho, Except.map]
  · by_cases h1 : wh = 1
    · subst h1; simp [Except.map]
    · by_cases h2 : wh = 2
      · subst h2; simp [Except.map]
      · simp [h0, h1, h2, Except.map]

end Pyctr
