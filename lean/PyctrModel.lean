import PyctrModel.Base.Bytes
import PyctrModel.Base.AFile
import PyctrModel.Base.PyFile
import PyctrModel.IO.Subsection
import PyctrModel.Base.Run
import PyctrModel.IO.Merger
import PyctrModel.Base.SExp
