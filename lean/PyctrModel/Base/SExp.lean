/-
  Wire format of the line protocol: one S-expression per line.
  atoms: decimal integers (possibly negative), hex byte strings (`-` = empty), symbols.
-/
import PyctrModel.Base.Bytes
namespace Pyctr

inductive SExp
  | atom (s : String)
  | list (l : List SExp)
  deriving Repr, Inhabited

namespace SExp

def tokenize (s : String) : List String :=
  let rec go (cs : List Char) (cur : List Char) (acc : List String) : List String :=
    let flush (cur : List Char) (acc : List String) :=
      if cur.isEmpty then acc else String.ofList cur.reverse :: acc
    match cs with
    | [] => (flush cur acc).reverse
    | c :: rest =>
      if c == '(' || c == ')' then go rest [] (String.singleton c :: flush cur acc)
      else if c == ' ' || c == '\n' || c == '\t' || c == '\r' then go rest [] (flush cur acc)
      else go rest (c :: cur) acc
  go s.toList [] []

/-- parse one expression; returns the rest of the token stream -/
partial def parseOne : List String → Option (SExp × List String)
  | [] => none
  | "(" :: rest =>
    let rec items (toks : List String) (acc : List SExp) : Option (SExp × List String) :=
      match toks with
      | [] => none
      | ")" :: rest => some (.list acc.reverse, rest)
      | _ => match parseOne toks with
        | some (e, rest) => items rest (e :: acc)
        | none => none
    items rest []
  | ")" :: _ => none
  | t :: rest => some (.atom t, rest)

def parse (s : String) : Option SExp :=
  match parseOne (tokenize s) with
  | some (e, []) => some e
  | _ => none

def int? : SExp → Option Int
  | .atom s => s.toInt?
  | _ => none

def nat? : SExp → Option Nat
  | .atom s => s.toNat?
  | _ => none

def bytes? : SExp → Option Bytes
  | .atom s => fromHex s
  | _ => none

def sym? : SExp → Option String
  | .atom s => some s
  | _ => none

end SExp
end Pyctr
