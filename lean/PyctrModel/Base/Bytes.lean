/-
  L0: byte strings and the Python-isms the pyctr code relies on.
  No imports beyond core Lean: this file is linked into the compiled driver.
-/
namespace Pyctr

abbrev Bytes := List UInt8

/-- `d[a : a+n]` for non-negative `a`, `n` (Python slicing never fails, it truncates). -/
def slice (d : Bytes) (a n : Nat) : Bytes := (d.drop a).take n

/-- `n` zero bytes. -/
def zeros (n : Nat) : Bytes := List.replicate n 0

/-- Result of `BytesIO.write(w)` at position `a` on content `d` (for non-empty or in-range `w`):
    the gap between the old end and `a` is zero-filled, bytes after the written range are kept. -/
def overlay (d : Bytes) (a : Nat) (w : Bytes) : Bytes :=
  d.take a ++ zeros (a - d.length) ++ w ++ d.drop (a + w.length)

/-- Python `b[i:j]` with possibly negative indices. -/
def pyIdx (len : Nat) (i : Int) : Nat :=
  if i < 0 then (len : Int) + i |>.toNat else min i.toNat len

def pySlice (d : Bytes) (i j : Int) : Bytes :=
  let a := pyIdx d.length i
  let b := pyIdx d.length j
  slice d a (b - a)

def ljust (d : Bytes) (n : Nat) (fill : UInt8 := 0) : Bytes := d ++ List.replicate (n - d.length) fill

/-- little-endian / big-endian integer decoding (`int.from_bytes`). -/
def readLE : Bytes → Nat
  | [] => 0
  | b :: bs => b.toNat + 256 * readLE bs

def readBE (d : Bytes) : Nat := d.foldl (fun acc b => acc * 256 + b.toNat) 0

/-- `int.to_bytes(n, 'little')` (truncating; callers state the range precondition). -/
def toLE : Nat → Nat → Bytes
  | 0, _ => []
  | n+1, v => UInt8.ofNat (v % 256) :: toLE n (v / 256)

def toBE (n v : Nat) : Bytes := (toLE n v).reverse

def xorBytes (a b : Bytes) : Bytes := List.zipWith (· ^^^ ·) a b

/-- `util.roundup` on naturals (the code uses float `ceil`; equality on the reachable range is checked, not proved). -/
def roundupNat (a n : Nat) : Nat := (a + n - 1) / n * n

/-! hex helpers for the line protocol -/
def hexDigit (n : Nat) : Char :=
  if n < 10 then Char.ofNat (48 + n) else Char.ofNat (87 + n)

def toHex (d : Bytes) : String :=
  String.ofList (d.flatMap fun b => [hexDigit (b.toNat / 16), hexDigit (b.toNat % 16)])

def hexVal (c : Char) : Option Nat :=
  if '0' ≤ c ∧ c ≤ '9' then some (c.toNat - 48)
  else if 'a' ≤ c ∧ c ≤ 'f' then some (c.toNat - 87)
  else if 'A' ≤ c ∧ c ≤ 'F' then some (c.toNat - 55)
  else none

def fromHexAux : List Char → Bytes → Option Bytes
  | [], acc => some acc.reverse
  | [_], _ => none
  | a :: b :: rest, acc =>
    match hexVal a, hexVal b with
    | some x, some y => fromHexAux rest (UInt8.ofNat (x * 16 + y) :: acc)
    | _, _ => none

/-- `-` denotes the empty byte string on the wire. -/
def fromHex (s : String) : Option Bytes :=
  if s == "-" then some [] else fromHexAux s.toList []

def toHexW (d : Bytes) : String := if d.isEmpty then "-" else toHex d

end Pyctr
