/-
  Histories: operation lists run against a file-like model and against the abstract file.
-/
import PyctrModel.Base.AFile
namespace Pyctr
universe u

inductive Op
  | read (n : Int) | write (w : Bytes) | seek (off whence : Int) | tell
  deriving Repr, DecidableEq

inductive Out
  | bytes (b : Bytes) | nat (n : Nat) | err (e : Err)
  deriving Repr, DecidableEq

def Out.render : Out → String
  | .bytes b => "b:" ++ toHexW b
  | .nat n => "n:" ++ toString n
  | .err e => "e:" ++ e.name

namespace FileOps
variable {σ : Type} (F : FileOps σ)

/-- one call; a raising call leaves the object as it was -/
def step (s : σ) : Op → Out × σ
  | .read n => match F.read s n with | .ok (b, s') => (.bytes b, s') | .error e => (.err e, s)
  | .write w => match F.write s w with | .ok (n, s') => (.nat n, s') | .error e => (.err e, s)
  | .seek o w => match F.seek s o w with | .ok (n, s') => (.nat n, s') | .error e => (.err e, s)
  | .tell => match F.tell s with | .ok (n, s') => (.nat n, s') | .error e => (.err e, s)

def run (s : σ) : List Op → List Out × σ
  | [] => ([], s)
  | op :: ops =>
    let (o, s') := F.step s op
    let (os, s'') := run s' ops
    (o :: os, s'')
end FileOps

namespace AFile
def ops : FileOps AFile where
  read f n := .ok (f.read n)
  write f w := .ok (f.write w)
  seek f o w := f.seek o w
  tell f := .ok (f.pos, f)
end AFile

end Pyctr
