/-
  L2: model of `io.BytesIO` (library semantics: modelled, validated by its own correspondence stream).
-/
import PyctrModel.Base.AFile
namespace Pyctr

structure PyFile where
  buf : Bytes
  pos : Nat
  deriving Repr, DecidableEq

namespace PyFile

/-- `BytesIO.read(n)`: nothing (and no movement) at or after the end; negative `n` = all remaining. -/
def read (f : PyFile) (n : Int) : Bytes × PyFile :=
  if f.pos ≥ f.buf.length then ([], f)
  else
    let avail := f.buf.length - f.pos
    let k := if n < 0 then avail else min n.toNat avail
    (slice f.buf f.pos k, { f with pos := f.pos + k })

/-- `BytesIO.write(w)`: an empty write is a no-op (even past the end); otherwise zero-fill the gap. -/
def write (f : PyFile) (w : Bytes) : Nat × PyFile :=
  if w.isEmpty then (0, f)
  else (w.length, { buf := overlay f.buf f.pos w, pos := f.pos + w.length })

def seek (f : PyFile) (off whence : Int) : Except Err (Nat × PyFile) :=
  if whence = 0 then
    if off < 0 then .error .valueError else .ok (off.toNat, { f with pos := off.toNat })
  else if whence = 1 then
    let p := ((f.pos : Int) + off).toNat
    .ok (p, { f with pos := p })
  else if whence = 2 then
    let p := ((f.buf.length : Int) + off).toNat
    .ok (p, { f with pos := p })
  else .error .valueError

def ops : FileOps PyFile where
  read f n := .ok (f.read n)
  write f w := .ok (f.write w)
  seek f o w := f.seek o w
  tell f := .ok (f.pos, f)

def abs (f : PyFile) : AFile := ⟨f.buf, f.pos, false, false⟩

end PyFile
end Pyctr
