/-
  L1: the one abstract specification every pyctr view is shown to refine:
  "an ordinary binary file whose content is `content`".
  `fixed = false`  — io.BytesIO semantics (the bottom of every stack).
  `fixed = true`   — a window: it can never grow, absolute seeks are clamped to its size.
-/
import PyctrModel.Base.Bytes
namespace Pyctr
universe u

/-- Python exception classes as far as the correspondence compares them. -/
inductive Err
  | valueError | typeError | unsupported | notImplemented | indexError | keyError | other (s : String)
  deriving Repr, DecidableEq, Inhabited

def Err.name : Err → String
  | .valueError => "ValueError" | .typeError => "TypeError" | .unsupported => "UnsupportedOperation"
  | .notImplemented => "NotImplementedError" | .indexError => "IndexError" | .keyError => "KeyError"
  | .other s => s

structure AFile where
  content : Bytes
  pos : Nat
  fixed : Bool          -- writes cannot grow it (they are truncated at the end)
  clamp : Bool := fixed -- absolute seeks are clamped to the size
  deriving Repr, DecidableEq

namespace AFile

def size (f : AFile) : Nat := f.content.length

/-- number of bytes a `read(n)` returns -/
def readLen (f : AFile) (n : Int) : Nat :=
  let avail := f.size - f.pos
  if n < 0 then avail else min n.toNat avail

def read (f : AFile) (n : Int) : Bytes × AFile :=
  let k := f.readLen n
  (slice f.content f.pos k, { f with pos := f.pos + k })

/-- bytes of `w` that a `write(w)` stores -/
def writeTake (f : AFile) (w : Bytes) : Bytes :=
  if f.fixed then w.take (f.size - f.pos) else w

def write (f : AFile) (w : Bytes) : Nat × AFile :=
  let w' := f.writeTake w
  if w'.isEmpty then (0, f)
  else (w'.length, { f with content := overlay f.content f.pos w', pos := f.pos + w'.length })

def seek (f : AFile) (off : Int) (whence : Int) : Except Err (Nat × AFile) :=
  if whence = 0 then
    if off < 0 then .error .valueError
    else
      let p := if f.clamp then min off.toNat f.size else off.toNat
      .ok (p, { f with pos := p })
  else if whence = 1 then
    let p := ((f.pos : Int) + off).toNat
    .ok (p, { f with pos := p })
  else if whence = 2 then
    let p := ((f.size : Int) + off).toNat
    .ok (p, { f with pos := p })
  else .error .valueError

def tell (f : AFile) : Nat := f.pos

end AFile

/-- Operations of a file-like object with state `σ` (value semantics: an op returns the new state). -/
structure FileOps (σ : Type) where
  read  : σ → Int → Except Err (Bytes × σ)
  write : σ → Bytes → Except Err (Nat × σ)
  seek  : σ → Int → Int → Except Err (Nat × σ)
  tell  : σ → Except Err (Nat × σ)

/-- `F` (from any state satisfying `inv`) behaves, for read/seek/tell, exactly like the abstract file `abs s`:
    same outputs, and the abstraction commutes with every step.  `inv` is preserved. -/
structure IsReadable {σ : Type} (F : FileOps σ) (inv : σ → Prop) (abs : σ → AFile) : Prop where
  read  : ∀ s n, inv s → ∃ s', F.read s n = .ok (((abs s).read n).1, s') ∧ abs s' = ((abs s).read n).2 ∧ inv s'
  seek_err : ∀ s off wh e, inv s → (abs s).seek off wh = .error e → F.seek s off wh = .error e
  seek_ok  : ∀ s off wh p a', inv s → (abs s).seek off wh = .ok (p, a') →
               ∃ s', F.seek s off wh = .ok (p, s') ∧ abs s' = a' ∧ inv s'
  tell  : ∀ s, inv s → ∃ s', F.tell s = .ok ((abs s).pos, s') ∧ abs s' = abs s ∧ inv s'

/-- … and for write as well. -/
structure IsFile {σ : Type} (F : FileOps σ) (inv : σ → Prop) (abs : σ → AFile) : Prop
    extends IsReadable F inv abs where
  write : ∀ s w, inv s → ∃ s', F.write s w = .ok (((abs s).write w).1, s') ∧ abs s' = ((abs s).write w).2 ∧ inv s'

/-- a write at this position does not create a zero-filled gap (always true for windows) -/
def AFile.noGap (f : AFile) : Prop := f.fixed = true ∨ f.pos ≤ f.content.length

/-- like `IsFile`, but writes are only specified when they do not start past the end of a growable file
    (pyctr's CTR wrappers leave such a gap unencrypted: known finding for C12) -/
structure IsFileW {σ : Type} (F : FileOps σ) (inv : σ → Prop) (abs : σ → AFile) : Prop
    extends IsReadable F inv abs where
  write : ∀ s w, inv s → (abs s).noGap →
    ∃ s', F.write s w = .ok (((abs s).write w).1, s') ∧ abs s' = ((abs s).write w).2 ∧ inv s'

theorem IsFile.toIsFileW {σ : Type} {F : FileOps σ} {inv : σ → Prop} {abs : σ → AFile}
    (h : IsFile F inv abs) : IsFileW F inv abs :=
  { toIsReadable := h.toIsReadable, write := fun s w hi _ => h.write s w hi }

/-- read-only view: a write never changes anything (it raises, or stores nothing). -/
structure IsReadOnly {σ : Type} (F : FileOps σ) (inv : σ → Prop) (abs : σ → AFile) : Prop
    extends IsReadable F inv abs where
  write : ∀ s w, inv s → (∃ e, F.write s w = .error e) ∨ (∃ s', F.write s w = .ok (0, s') ∧ abs s' = abs s ∧ inv s')

end Pyctr
