/-
  L5: `pyctr.crypto.engine.CryptoEngine` — keyslots, the two key scramblers, key-area loading, ticket loading, clone.
  Python ints are `Nat` (unbounded), exactly as in the code; masking happens only where the code masks.
-/
import PyctrModel.Base.AFile
namespace Pyctr

/-- Python's `rol` verbatim:
    `(val << r % n) & (2**n - 1) | ((val & (2**n - 1)) >> (n - r % n))` -/
def pyRol (val r n : Nat) : Nat :=
  ((val <<< (r % n)) &&& (2 ^ n - 1)) ||| ((val &&& (2 ^ n - 1)) >>> (n - r % n))

def scramblerC3ds : Nat := 0x1FF9E9AAC5FE0408024591DC5D52768A
def scramblerCTwl : Nat := 0xFFFEFB4E295902582A680F5F1A4F3E79

/-- `keygen_manual`: `rol((rol(x, 2, 128) ^ y) + C, 87, 128).to_bytes(0x10, 'big')` -/
def keygen3ds (x y : Nat) : Bytes := toBE 16 (pyRol ((pyRol x 2 128 ^^^ y) + scramblerC3ds) 87 128)

/-- `keygen_twl_manual`: `rol((x ^ y) + C', 42, 128).to_bytes(0x10, 'big')` -/
def keygenTwl (x y : Nat) : Bytes := toBE 16 (pyRol ((x ^^^ y) + scramblerCTwl) 42 128)

/-- `keygen(keyslot)` given both halves -/
def keygenSlot (slot x y : Nat) : Bytes := if slot < 4 then keygenTwl x y else keygen3ds x y

structure Engine where
  keyX : Nat → Option Nat
  keyY : Nat → Option Nat
  normal : Nat → Option Bytes
  dev : Bool

namespace Engine

def upd {α : Type} (m : Nat → Option α) (k : Nat) (v : α) : Nat → Option α :=
  fun j => if j = k then some v else m j

/-- a key given as bytes is read big-endian for slots > 3 and little-endian for slots 0-3 -/
def keyToInt (slot : Nat) (key : Bytes) : Nat := if slot > 3 then readBE key else readLE key

/-- `set_keyslot(xy, slot, key, update_normal_key=update)` with an integer key -/
def setKeyslot (e : Engine) (isX : Bool) (slot key : Nat) (update : Bool) : Engine :=
  let e1 : Engine := if isX then { e with keyX := upd e.keyX slot key } else { e with keyY := upd e.keyY slot key }
  if update then
    match e1.keyX slot, e1.keyY slot with
    | some x, some y => { e1 with normal := upd e1.normal slot (keygenSlot slot x y) }
    | _, _ => e1          -- KeyError swallowed
  else e1

def setKeyslotBytes (e : Engine) (isX : Bool) (slot : Nat) (key : Bytes) (update : Bool) : Engine :=
  e.setKeyslot isX slot (keyToInt slot key) update

def setNormal (e : Engine) (slot : Nat) (key : Bytes) : Engine := { e with normal := upd e.normal slot key }

/-- `update_normal_keys`: every slot that has both halves gets the scrambler output -/
def updateNormalKeys (e : Engine) : Engine :=
  { e with normal := fun s =>
      match e.keyX s, e.keyY s with
      | some x, some y => some (keygenSlot s x y)
      | _, _ => e.normal s }

/-- `create_*_cipher(slot)`: the key the cipher object is created with, or `KeyslotMissingError` -/
def cipherKey (e : Engine) (slot : Nat) : Except Err Bytes :=
  match e.normal slot with
  | some k => .ok k
  | none => .error (.other "KeyslotMissingError")

def baseKeyX (slot : Nat) (dev : Bool) : Option Nat :=
  if slot = 0x18 then some (if dev then 0x304BF1468372EE64115EBD4093D84276 else 0x82E9C9BEBFB8BDB875ECC0A07D474374)
  else if slot = 0x1B then some (if dev then 0x6C8B2944A0726035F941DFC018524FB6 else 0x45AD04953992C7C893724A9A7BCE6182)
  else if slot = 0x25 then some (if dev then 0x81907A4B6F1B47323A677974CE4AD71B else 0xCEE7D8AB30C00DAE850EF5E382AC5AF3)
  else none

def commonKeyY : List Nat := [
  0xD07B337F9CA4385932A2E25723232EB9, 0x0C767230F0998F1C46828202FAACBE4C, 0xC475CB3AB8C788BB575E12A10907B8A4,
  0xE486EEE3D0C09C902F6686D4C06F649F, 0xED31BA9C04B067506C4497A35B7804FC, 0x5E66998AB4E8931606850FD7A16DD755]

def devCommonKey0 : Bytes := toBE 16 0x55A3F872BDC80C555A654381139E153B
def fixedSystemKey : Bytes := toBE 16 0x527CE630A9CA305F3696F3CDE954194B

/-- `_set_fixed_keys` -/
def setFixedKeys (e : Engine) : Engine :=
  let e := e.setKeyslot false 0x03 (if e.dev then 0xE1A00005266A649766E8B87AF176BFAA else 0xE1A00005202DDD1DBD4DC4D30AB9DC76) true
  let e := e.setKeyslot false 0x05 0x4D804F4E9990194613A204AC584460BE true
  let e := e.setNormal 0x41 (zeros 16)
  e.setNormal 0x42 fixedSystemKey

/-- one step of `_setup_keys_from_keyblob`'s reading plan -/
inductive BlobStep
  | loop (kind : Nat) (slot : Nat)       -- kind 0 = x, 1 = y, 2 = normal; one 16-byte read for 4 slots
  | inc (kind : Nat) (slot : Nat)        -- four 16-byte reads
  | back                                 -- keyblob.seek(-16, 1)

def blobPlan : List BlobStep := [
  .loop 0 0x2C, .loop 0 0x30, .loop 0 0x34, .loop 0 0x38, .inc 0 0x3C,
  .inc 1 0x04, .inc 1 0x08,
  .loop 2 0x0C, .loop 2 0x10, .inc 2 0x14, .loop 2 0x18, .loop 2 0x1C, .loop 2 0x20, .loop 2 0x24, .back,
  .inc 2 0x28, .loop 2 0x2C, .loop 2 0x30, .loop 2 0x34, .loop 2 0x38, .back, .inc 2 0x3C]

def setByKind (e : Engine) (kind slot : Nat) (data : Bytes) : Engine :=
  if kind = 2 then e.setNormal slot data else e.setKeyslotBytes (kind = 0) slot data false

def runBlobStep (blob : Bytes) : Engine × Nat → BlobStep → Engine × Nat
  | (e, pos), .loop kind slot =>
    let data := slice blob pos 16
    ((List.range 4).foldl (fun e i => setByKind e kind (slot + i) data) e, pos + 16)
  | (e, pos), .inc kind slot =>
    ((List.range 4).foldl (fun e i => setByKind e kind (slot + i) (slice blob (pos + 16 * i) 16)) e, pos + 64)
  | (e, pos), .back => (e, pos - 16)

/-- `_setup_keys_from_keyblob` for a 0x400-byte key area -/
def setupFromKeyblob (e : Engine) (blob : Bytes) : Engine := (blobPlan.foldl (runBlobStep blob) (e, 0x170)).1

/-- `CryptoEngine(dev=dev, setup_b9_keys=…)`; `blob = none` models `setup_b9_keys=False` -/
def create (dev : Bool) (blob : Option Bytes) : Engine :=
  let e : Engine := { keyX := fun s => baseKeyX s dev, keyY := fun _ => none, normal := fun _ => none, dev := dev }
  let e := match blob with
    | some b => e.setupFromKeyblob b
    | none => e
  e.setFixedKeys

/-- PyCryptodome AES-CBC decryption of whole blocks (title keys are one block) -/
def cbcDecBlocks (D : Bytes → Bytes → Bytes) (key iv data : Bytes) : Bytes :=
  (List.range (data.length / 16)).flatMap fun j =>
    xorBytes (D key (slice data (16 * j) 16)) (if j = 0 then iv else slice data (16 * (j - 1)) 16)

/-- `load_encrypted_titlekey(titlekey, common_key_index, title_id)`; `D key block` is AES-128 block decryption.
    Returns the engine as the call leaves it (a raising call may already have set the common KeyY) and the error. -/
def loadEncryptedTitlekey (D : Bytes → Bytes → Bytes) (e : Engine) (titlekey : Bytes) (idx : Nat) (titleId : Bytes) :
    Engine × Option Err :=
  let e1 : Except Err Engine :=
    if e.dev ∧ idx = 0 then .ok (e.setNormal 0x3D devCommonKey0)
    else match commonKeyY[idx]? with
      | some ky => .ok (e.setKeyslot false 0x3D ky true)
      | none => .error .indexError
  match e1 with
  | .error err => (e, some err)
  | .ok e1 =>
    match e1.cipherKey 0x3D with
    | .error err => (e1, some err)
    | .ok ck =>
      let iv := titleId ++ zeros 8
      if iv.length ≠ 16 then (e1, some .valueError)
      else if titlekey.length % 16 ≠ 0 then (e1, some .valueError)
      else
        (e1.setNormal 0x40 (cbcDecBlocks D ck iv titlekey), none)

/-- `load_from_ticket` -/
def loadFromTicket (D : Bytes → Bytes → Bytes) (e : Engine) (ticket : Bytes) : Engine × Option Err :=
  if ticket.length < 0x2AC then (e, some (.other "TicketLengthError"))
  else loadEncryptedTitlekey D e (slice ticket 0x1BF 16) ((ticket.getD 0x1F1 0).toNat) (slice ticket 0x1DC 8)

end Engine

/-- engines live in a heap so that sharing (a missing `clone`) is representable -/
abbrev EngineHeap := List Engine

end Pyctr
