/-
  L3 (crypto): `CTRFileIO`, `TWLCTRFileIO`, `CBCFileIO` of pyctr.crypto.engine over any file-like inner object,
  and the PyCryptodome cipher-object protocol they rely on (modelled library semantics).
  The block cipher is a parameter: `E` / `D` are AES-128 encryption / decryption *under the keyslot's normal key*.
-/
import PyctrModel.Base.AFile
namespace Pyctr
universe u

/-- byte `i` of the CTR keystream that starts at counter block `c0` (big-endian 128-bit counter) -/
def ksByte (E : Bytes → Bytes) (c0 i : Nat) : UInt8 := (E (toBE 16 (c0 + i / 16))).getD (i % 16) 0

/-- PyCryptodome `AES.new(key, MODE_CTR, counter=Counter.new(128, initial_value=c0))`:
    `used` bytes of keystream consumed so far; `dir` = the one direction the object is locked to after first use. -/
structure CtrObj where
  c0 : Nat
  used : Nat
  dir : Option Bool     -- some true = decrypt, some false = encrypt

namespace CtrObj
def apply (E : Bytes → Bytes) (o : CtrObj) (isDec : Bool) (data : Bytes) : Except Err (Bytes × CtrObj) :=
  if o.dir = some (!isDec) then .error .typeError   -- "encrypt() cannot be called after decrypt()"
  else .ok (data.mapIdx fun i b => b ^^^ ksByte E o.c0 (o.used + i),
            { o with used := o.used + data.length, dir := some isDec })
end CtrObj

/-- `_TWLCryptoWrapper`: every 16-byte chunk (a short last chunk too) is reversed before and after -/
def chunkRev (d : Bytes) : Bytes :=
  (List.range d.length).map fun i =>
    let base := i / 16 * 16
    let clen := min 16 (d.length - base)
    d.getD (base + (clen - 1 - i % 16)) 0

def twlApply (E : Bytes → Bytes) (o : CtrObj) (isDec : Bool) (data : Bytes) : Except Err (Bytes × CtrObj) := do
  let (out, o') ← o.apply E isDec (chunkRev data)
  .ok ((chunkRev out).take data.length, o')

/-! ### CTRFileIO -/
structure CtrIO (σ : Type) where
  reader : σ
  counter : Nat
  cipher : Option CtrObj      -- _current_cipher
  cipherDec : Bool            -- _current_cipher_decrypts

namespace CtrIO
variable {σ : Type} (F : FileOps σ) (E : Bytes → Bytes)

def read (s : CtrIO σ) (size : Int) : Except Err (Bytes × CtrIO σ) := do
  let (cur, r1) ← F.tell s.reader
  let (data, r2) ← F.read r1 size
  match (if s.cipherDec then s.cipher else none) with
  | some c =>
    let (out, c') ← c.apply E true data
    .ok (out, { s with reader := r2, cipher := some c' })
  | none =>
    let c : CtrObj := ⟨s.counter + cur / 16, 0, none⟩
    let (_, c1) ← c.apply E true (zeros (cur % 16))
    let (out, c2) ← c1.apply E true data
    .ok (out, { s with reader := r2, cipher := some c2, cipherDec := true })

def write (s : CtrIO σ) (data : Bytes) : Except Err (Nat × CtrIO σ) := do
  let (cur, r1) ← F.tell s.reader
  match (if s.cipherDec then none else s.cipher) with
  | some c =>
    let (enc, c') ← c.apply E false data
    let (n, r2) ← F.write r1 enc
    .ok (n, { s with reader := r2, cipher := some c' })
  | none =>
    let c : CtrObj := ⟨s.counter + cur / 16, 0, none⟩
    let (_, c1) ← c.apply E false (zeros (cur % 16))
    let (enc, c2) ← c1.apply E false data
    let (n, r2) ← F.write r1 enc
    .ok (n, { s with reader := r2, cipher := some c2, cipherDec := false })

def seek (s : CtrIO σ) (off whence : Int) : Except Err (Nat × CtrIO σ) := do
  let (p, r) ← F.seek s.reader off whence
  .ok (p, { s with reader := r, cipher := none })

def tell (s : CtrIO σ) : Except Err (Nat × CtrIO σ) := do
  let (p, r) ← F.tell s.reader
  .ok (p, { s with reader := r })

def ops : FileOps (CtrIO σ) where
  read := read F E
  write := write F E
  seek := seek F
  tell := tell F
end CtrIO

/-! ### TWLCTRFileIO (a fresh cipher per call, padding on both sides) -/
structure TwlIO (σ : Type) where
  reader : σ
  counter : Nat

namespace TwlIO
variable {σ : Type} (F : FileOps σ) (E : Bytes → Bytes)

def padAfter (before len : Nat) : Nat := (16 - (before + len) % 16) % 16   -- (-(before+len)) % 16

def read (s : TwlIO σ) (size : Int) : Except Err (Bytes × TwlIO σ) := do
  let (cur, r1) ← F.tell s.reader
  let (data, r2) ← F.read r1 size
  let pb := cur % 16
  let pa := padAfter pb data.length
  let c : CtrObj := ⟨s.counter + cur / 16, 0, none⟩
  let padded := zeros pb ++ data ++ zeros pa
  let (out, _) ← twlApply E c true padded
  .ok (slice out pb (padded.length - pa - pb), { s with reader := r2 })

def write (s : TwlIO σ) (data : Bytes) : Except Err (Nat × TwlIO σ) := do
  let (cur, r1) ← F.tell s.reader
  let pb := cur % 16
  let pa := padAfter pb data.length
  let c : CtrObj := ⟨s.counter + cur / 16, 0, none⟩
  let padded := zeros pb ++ data ++ zeros pa
  let (out, _) ← twlApply E c false padded
  let (n, r2) ← F.write r1 (slice out pb (padded.length - pa - pb))
  .ok (n, { s with reader := r2 })

def seek (s : TwlIO σ) (off whence : Int) : Except Err (Nat × TwlIO σ) := do
  let (p, r) ← F.seek s.reader off whence
  .ok (p, { s with reader := r })

def tell (s : TwlIO σ) : Except Err (Nat × TwlIO σ) := do
  let (p, r) ← F.tell s.reader
  .ok (p, { s with reader := r })

def ops : FileOps (TwlIO σ) where
  read := read F E
  write := write F E
  seek := seek F
  tell := tell F
end TwlIO

/-! ### CBCFileIO (read-only) -/

/-- PyCryptodome `AES.new(key, MODE_CBC, iv).decrypt(data)` -/
def cbcDecrypt (D : Bytes → Bytes) (iv data : Bytes) : Except Err Bytes :=
  if iv.length ≠ 16 then .error .valueError        -- "Incorrect IV length"
  else if data.length % 16 ≠ 0 then .error .valueError   -- "Data must be padded to 16 byte boundary"
  else .ok ((List.range data.length).map fun i =>
    (D (slice data (i / 16 * 16) 16)).getD (i % 16) 0 ^^^
      (if i < 16 then iv.getD i 0 else data.getD (i - 16) 0))

structure CbcIO (σ : Type) where
  reader : σ
  iv : Bytes

namespace CbcIO
variable {σ : Type} (F : FileOps σ) (D : Bytes → Bytes)

def read (s : CbcIO σ) (size : Int) : Except Err (Bytes × CbcIO σ) := do
  let (offset, r0) ← F.tell s.reader
  let before := offset % 16
  if offset - before = 0 then
    let (_, r1) ← F.seek r0 0 0
    body r1 offset before s.iv
  else
    let (_, r1) ← F.seek r0 (-16 - (before : Int)) 1
    let (iv, r2) ← F.read r1 16
    if iv.length ≠ 16 then
      -- positioned past the end of the data
      let (cur, r3) ← F.tell r2
      let (_, r4) ← F.seek r3 ((offset : Int) - cur) 1
      .ok ([], { s with reader := r4 })
    else body r2 offset before iv
where
  body (r : σ) (offset before : Nat) (iv : Bytes) : Except Err (Bytes × CbcIO σ) := do
    let (db, r3) ← F.read r before
    let (dr, r4) ← F.read r3 size
    let total := db.length + dr.length
    let (da, r5) ← (if total % 16 ≠ 0 then F.read r4 (16 - (total % 16 : Nat)) else .ok ([], r4))
    let (cur, r6) ← F.tell r5
    let (_, r7) ← F.seek r6 ((offset : Int) + dr.length - cur) 1
    let plain ← cbcDecrypt D iv (db ++ dr ++ da)
    .ok (pySlice plain before ((dr.length : Int) + before), { s with reader := r7 })

def seek (s : CbcIO σ) (off whence : Int) : Except Err (Nat × CbcIO σ) := do
  let (p, r) ← F.seek s.reader off whence
  .ok (p, { s with reader := r })

def tell (s : CbcIO σ) : Except Err (Nat × CbcIO σ) := do
  let (p, r) ← F.tell s.reader
  .ok (p, { s with reader := r })

/-- the class defines no `write`: `RawIOBase.write` raises `NotImplementedError`... in CPython it is
    `io.UnsupportedOperation`; the enum value is compared with the real exception class by the harness. -/
def ops : FileOps (CbcIO σ) where
  read := read F D
  write _ _ := .error .notImplemented
  seek := seek F
  tell := tell F
end CbcIO

/-! ### whole-stream specifications -/
/-- decrypting the whole stream from its beginning, 3DS mode -/
def plain3ds (E : Bytes → Bytes) (ctr : Nat) (ct : Bytes) : Bytes :=
  ct.mapIdx fun i b => b ^^^ ksByte E ctr i

/-- … DSi mode: the keystream block is used byte-reversed -/
def plainTwl (E : Bytes → Bytes) (ctr : Nat) (ct : Bytes) : Bytes :=
  ct.mapIdx fun i b => b ^^^ (E (toBE 16 (ctr + i / 16))).getD (15 - i % 16) 0

/-- CBC: first block chained from the IV, every later block from the preceding ciphertext block -/
def plainCbc (D : Bytes → Bytes) (iv ct : Bytes) : Bytes :=
  (List.range ct.length).map fun i =>
    (D (slice ct (i / 16 * 16) 16)).getD (i % 16) 0 ^^^ (if i < 16 then iv.getD i 0 else ct.getD (i - 16) 0)

end Pyctr
