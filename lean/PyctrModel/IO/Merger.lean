/-
  L3: `pyctr.fileio.SplitFileMerger` (read-only concatenation of file-like objects) and `CloseWrapper`.
  Mirrors the code: `_files = [(fh, start, size)]`, `_fake_seek`, `_seek_info = (index, _)`, `_total_size`.
-/
import PyctrModel.Base.AFile
namespace Pyctr
universe u

structure Seg (σ : Type) where
  fh : σ
  start : Nat
  size : Nat

structure Merger (σ : Type) where
  files : List (Seg σ)
  fake : Nat          -- _fake_seek
  idx : Nat           -- _seek_info[0]
  total : Nat

namespace Merger
variable {σ : Type} (F : FileOps σ)

/-- constructor: cumulative start offsets -/
def mkSegs : List (σ × Nat) → Nat → List (Seg σ)
  | [], _ => []
  | (fh, sz) :: rest, cur => ⟨fh, cur, sz⟩ :: mkSegs rest (cur + sz)

def create (files : List (σ × Nat)) : Merger σ :=
  { files := mkSegs files 0, fake := 0, idx := 0, total := (files.map (·.2)).sum }

/-- `_calc_seek`: first segment with `start <= pos < start + size` -/
def findIdx (files : List (Seg σ)) (pos : Nat) : Option Nat :=
  files.findIdx? (fun s => s.start ≤ pos ∧ pos < s.start + s.size)

def calcSeek (m : Merger σ) (pos : Nat) : Merger σ :=
  match findIdx m.files pos with
  | some i => { m with fake := pos, idx := i }
  | none => { m with fake := pos }

def seekOp (m : Merger σ) (pos whence : Int) : Except Err (Nat × Merger σ) :=
  if whence = 0 then
    if pos < 0 then .error .valueError
    else let m' := calcSeek m pos.toNat; .ok (m'.fake, m')
  else if whence = 1 then
    -- if fake + pos < 0: pos = -fake
    let pos := if (m.fake : Int) + pos < 0 then -(m.fake : Int) else pos
    let m' := calcSeek m ((m.fake : Int) + pos).toNat; .ok (m'.fake, m')
  else if whence = 2 then
    let pos := if (m.total : Int) + pos < 0 then -(m.total : Int) else pos
    let m' := calcSeek m ((m.total : Int) + pos).toNat; .ok (m'.fake, m')
  else .error .valueError

/-- the `while True` loop of `read`; `fuel` bounds the number of segments visited
    (the real loop raises IndexError when it runs off the list). -/
def readLoop : Nat → List (Seg σ) → Nat → Nat → Nat → Bytes → Except Err (Bytes × List (Seg σ) × Nat × Nat)
  | 0, _, _, _, _, _ => .error .indexError
  | fuel+1, files, idx, fake, left, acc =>
    match files[idx]? with
    | none => .error .indexError
    | some info =>
      let realSeek := fake - info.start
      let toRead := min (info.size - realSeek) left
      do
        let (_, f1) ← F.seek info.fh realSeek 0
        let (d, f2) ← F.read f1 toRead
        let files' := files.set idx { info with fh := f2 }
        let fake' := fake + toRead
        let left' := left - toRead
        if left' = 0 then .ok (acc ++ d, files', idx, fake')
        else readLoop fuel files' (idx + 1) fake' left' (acc ++ d)

def read (m : Merger σ) (n : Int) : Except Err (Bytes × Merger σ) :=
  let n : Nat := if n < 0 then m.total - m.fake
                 else if (m.fake : Int) + n > m.total then m.total - m.fake else n.toNat
  if n = 0 then .ok ([], m)
  else do
    let (d, files', idx', fake') ← readLoop F (m.files.length + 1) m.files m.idx m.fake n []
    .ok (d, { m with files := files', idx := idx', fake := fake' })

def ops : FileOps (Merger σ) where
  read := read F
  write _ _ := .error .notImplemented
  seek := seekOp
  tell m := .ok (m.fake, m)

end Merger

/-- `CloseWrapper`: pure delegation (`tell` is `RawIOBase.tell` = `seek(0, 1)` on the wrapped object). -/
def closeWrapperOps {σ : Type} (F : FileOps σ) : FileOps σ where
  read := F.read
  write := F.write
  seek := F.seek
  tell s := F.seek s 0 1

/-- `_ReaderOpenFileBase` over a reader whose `get_data(info, off, size)` returns `data[off : off+size]`
    clamped to `info.size` (the in-memory `.code-decompressed` handle of ExeFSReader). -/
structure OpenFile where
  data : Bytes
  seek : Nat

namespace OpenFile
/-- `ExeFSReader.get_data` for the in-memory entry -/
def getData (data : Bytes) (offset : Nat) (size : Int) : Bytes :=
  let size : Int := if (offset : Int) + size > data.length then (data.length : Int) - offset else size
  pySlice data offset ((offset : Int) + size)

def read (f : OpenFile) (size : Int) : Bytes × OpenFile :=
  let size : Int := if size < 0 then max ((f.data.length : Int) - f.seek) 0 else size
  let d := getData f.data f.seek size
  (d, { f with seek := f.seek + d.length })

def seekOp (f : OpenFile) (off whence : Int) : Except Err (Nat × OpenFile) :=
  if whence = 0 then
    if off < 0 then .error .valueError
    else let p := min off.toNat f.data.length; .ok (p, { f with seek := p })
  else if whence = 1 then
    let p := ((f.seek : Int) + off).toNat; .ok (p, { f with seek := p })
  else if whence = 2 then
    let p := ((f.data.length : Int) + off).toNat; .ok (p, { f with seek := p })
  else .ok (f.seek, f)   -- the code silently ignores other whence values

def ops : FileOps OpenFile where
  read f n := .ok (f.read n)
  write _ _ := .error .notImplemented
  seek := seekOp
  tell f := .ok (f.seek, f)
end OpenFile

end Pyctr
