/-
  L3: `pyctr.fileio.SubsectionIO` over any file-like inner object.
  Mirrors the code statement by statement (state fields `_offset`, `_size`, `_seek`; `_end = _offset + _size`).
-/
import PyctrModel.Base.AFile
namespace Pyctr

universe u
structure Sub (σ : Type) where
  inner : σ
  offset : Nat
  size : Nat
  seek : Nat

namespace Sub
variable {σ : Type} (F : FileOps σ)

def read (s : Sub σ) (size : Int) : Except Err (Bytes × Sub σ) :=
  -- if size < 0: size = self._size - self._seek
  let size : Int := if size < 0 then (s.size : Int) - s.seek else size
  -- if self._offset + self._seek > self._end: return b''
  if s.offset + s.seek > s.offset + s.size then .ok ([], s)
  else
    -- if self._seek + size > self._size: size = self._size - self._seek
    let size : Int := if (s.seek : Int) + size > s.size then (s.size : Int) - s.seek else size
    do
      let (_, i1) ← F.seek s.inner ((s.seek : Int) + s.offset) 0
      let (data, i2) ← F.read i1 size
      .ok (data, { s with inner := i2, seek := s.seek + data.length })

def seekOp (s : Sub σ) (off whence : Int) : Except Err (Nat × Sub σ) :=
  if whence = 0 then
    if off < 0 then .error .valueError
    else let p := min off.toNat s.size; .ok (p, { s with seek := p })
  else if whence = 1 then
    let p := ((s.seek : Int) + off).toNat; .ok (p, { s with seek := p })
  else if whence = 2 then
    let p := ((s.size : Int) + off).toNat; .ok (p, { s with seek := p })
  else .error .valueError

def write (s : Sub σ) (data : Bytes) : Except Err (Nat × Sub σ) :=
  -- if self._seek > self._size: return 0
  if s.seek > s.size then .ok (0, s)
  else
    let dataEnd := data.length + s.seek
    -- data = data[:-(data_end - self._size)]
    let data := if dataEnd > s.size then pySlice data 0 (-((dataEnd : Int) - s.size)) else data
    do
      let (_, i1) ← F.seek s.inner ((s.seek : Int) + s.offset) 0
      let (n, i2) ← F.write i1 data
      .ok (n, { s with inner := i2, seek := s.seek + n })

/-- `tell` is `RawIOBase.tell`, i.e. `self.seek(0, 1)`. -/
def ops : FileOps (Sub σ) where
  read := read F
  write := write F
  seek := seekOp
  tell s := seekOp s 0 1

end Sub
end Pyctr
