/-
  `decompress_code`: the backward LZSS decoder of ExeFS `.code` (port of GodMode9's codelzss.c, as pyctr has it).
-/
import PyctrModel.Base.AFile
namespace Pyctr
namespace Lzss

def codeMaxSize : Nat := 0x2300000

def err (_s : String) : Err := .other "CodeDecompressionError"

structure St where
  dec : Array UInt8
  pin : Nat
  pout : Nat

/-- copy `segLen` bytes from `pout + segOff` downwards -/
def copySeg (s : St) (segOff : Nat) : Nat → St
  | 0 => s
  | k + 1 =>
    let byte := s.dec.getD (s.pout + segOff) 0
    copySeg { s with pout := s.pout - 1, dec := s.dec.setIfInBounds (s.pout - 1) byte } segOff k

/-- the eight items governed by one control byte; `i` counts down from 8 -/
def items (compStart dataEnd : Nat) (ctrl : Nat) : Nat → St → Except Err St
  | 0, s => .ok s
  | i + 1, s =>
    if s.pin ≤ compStart ∨ s.pout ≤ compStart then .ok s
    else if (ctrl >>> i) &&& 1 = 1 then
      if s.pin < 2 then .error (err "ptr_in < comp_start")       -- Python: negative index arithmetic, then the check below
      else
        let pin := s.pin - 2
        let segCode := (s.dec.getD pin 0).toNat + 256 * (s.dec.getD (pin + 1) 0).toNat
        if pin < compStart then .error (err "ptr_in < comp_start")
        else
          let segOff := (segCode &&& 0x0FFF) + 2
          let segLen := ((segCode >>> 12) &&& 0xF) + 3
          if s.pout < segLen ∨ s.pout - segLen < compStart then .error (err "ptr_out - seg_len < comp_start")
          else if s.pout + segOff ≥ dataEnd then .error (err "ptr_out + seg_off >= data_end")
          else if s.pout + segOff ≥ s.dec.size then .error .indexError      -- `dec[ptr_out + seg_off]` past the buffer
          else items compStart dataEnd ctrl i (copySeg { s with pin := pin } segOff segLen)
    else
      -- `ptr_out == comp_start` / `ptr_in == comp_start` cannot hold here (checked above); kept for fidelity
      let b := s.dec.getD (s.pin - 1) 0
      items compStart dataEnd ctrl i { dec := s.dec.setIfInBounds (s.pout - 1) b, pin := s.pin - 1, pout := s.pout - 1 }

/-- the outer loop; `fuel` ≥ the number of control bytes -/
def outer (compStart dataEnd : Nat) : Nat → St → Except Err St
  | 0, s => .ok s
  | fuel + 1, s =>
    if s.pin > compStart ∧ s.pout > compStart then
      if s.pout < s.pin then .error (err "ptr_out < ptr_in")
      else
        let pin := s.pin - 1
        if pin ≥ s.dec.size then .error .indexError                         -- `dec[ptr_in]` past the buffer
        else
        let ctrl := (s.dec.getD pin 0).toNat
        match items compStart dataEnd ctrl 8 { s with pin := pin } with
        | .error e => .error e
        | .ok s' => outer compStart dataEnd fuel s'
    else .ok s

/-- `decompress_code(code)` -/
def decompress (code : Bytes) : Except Err Bytes :=
  let n := code.length
  let offSizeComp := readLE (pySlice code (-8) (-4))
  let addSize := readLE (pySlice code (-4) (n : Int))
  let compSize := offSizeComp &&& 0xFFFFFF
  let hdr := (offSizeComp >>> 24) % 0xFF
  if n < 8 then .error (err "code_len < 8")
  else if n > codeMaxSize then .error (err "code_len > CODE_MAX_SIZE")
  else
    if compSize > n then .error (err "code_comp_size > code_len")
    else
    let compStart := n - compSize
    if compSize < hdr then .error (err "code_comp_end < 0")
    else if n + addSize > codeMaxSize then .error (err "code_dec_size > CODE_MAX_SIZE")
    else
      let compEnd := compSize - hdr
      let decSize := n + addSize
      let dec := (code ++ zeros addSize).toArray
      match outer compStart (compStart + decSize) (n + 1) ⟨dec, compStart + compEnd, decSize⟩ with
      | .error e => .error e
      | .ok s =>
        if s.pin ≠ compStart then .error (err "ptr_in != comp_start")
        else if s.pout ≠ compStart then .error (err "ptr_out != comp_start")
        else .ok s.dec.toList

end Lzss
end Pyctr
