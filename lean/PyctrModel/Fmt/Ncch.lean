/-
  NCCH container: `NCCHReader.__init__`, `load_sections`, `open_raw_section`, `_open_section_generic`, `get_data`.
  `E key block` is AES-128 encryption, `H` SHA-256 (parameters).
-/
import PyctrModel.Engine.Engine
import PyctrModel.Fmt.Exefs
import PyctrModel.Crypto.Wrappers
namespace Pyctr
namespace Ncch

/-- NCCHSection numbers -/
def secExtHeader := 1
def secExeFS := 2
def secRomFS := 3
def secHeader := 4
def secLogo := 5
def secPlain := 6
def secFull := 7
def secRaw := 8

structure Region where
  sec : Nat
  offset : Nat
  size : Nat
  iv : Nat
  deriving Repr, DecidableEq

def Region.stop (r : Region) : Nat := r.offset + r.size

structure Flags where
  cryptoMethod : Nat
  executable : Bool
  fixedKey : Bool
  noRomfs : Bool
  noCrypto : Bool
  usesSeed : Bool
  deriving Repr, DecidableEq

/-- a range of the ExeFS region and whether the extra keyslot decrypts it -/
structure KRange where
  lo : Nat
  hi : Nat
  extra : Bool
  deriving Repr, DecidableEq

structure State where
  keyY : Bytes
  contentSize : Nat
  partitionId : Nat
  programId : Nat
  seedVerify : Bytes
  all : List Region            -- `_all_sections` (every section, also absent ones), insertion order
  flags : Flags
  mainSlot : Nat
  extraSlot : Nat
  engine : Engine
  special : Bool               -- `_exefs_special_handling`
  assumeDecrypted : Bool
  ranges : List KRange         -- `_exefs_crypto_ranges`
  exefsEntries : Option (List Exefs.Entry)

def State.region? (s : State) (sec : Nat) : Option Region := s.all.find? (·.sec == sec)

/-- `self.sections`: only regions with a non-zero number of units -/
def State.section? (s : State) (sec : Nat) : Option Region :=
  match s.region? sec with
  | some r => if r.size ≠ 0 then some r else none
  | none => none

def extraSlotOf (method : Nat) : Option Nat :=
  if method = 0 then some 0x2C else if method = 1 then some 0x25 else if method = 0xA then some 0x18
  else if method = 0xB then some 0x1B else none

def le (h : Bytes) (a n : Nat) : Nat := readLE (slice h a n)

/-- `add_region`; later regions with the same section replace earlier ones (dict assignment) -/
def addRegion (pid : Nat) (l : List Region) (sec start units : Nat) : List Region :=
  let r : Region := ⟨sec, start * 0x200, units * 0x200, (pid <<< 64) ||| (sec <<< 56)⟩
  if l.any (·.sec == sec) then l.map (fun x => if x.sec == sec then r else x) else l ++ [r]

/-- the CTR transform of `data` located at byte `pos` of a stream with counter `iv`, under normal key `key` -/
def ctrAt (E : Bytes → Bytes → Bytes) (key : Bytes) (iv pos : Nat) (data : Bytes) : Bytes :=
  data.mapIdx fun i b => b ^^^ ksByte (E key) iv (pos + i)

/-- the ExeFS keyslot ranges computed by `load_sections` from the parsed entries -/
def sortPairs (l : List (Nat × Nat)) : List (Nat × Nat) :=
  l.foldl (fun acc p =>
    let (smaller, rest) := acc.span (fun q => q.1 < p.1 ∨ (q.1 = p.1 ∧ q.2 ≤ p.2))
    smaller ++ p :: rest) []

/-- the range-building loop of `load_sections`: `prev` is `previous_offset`, `extra` the sorted extra-keyslot
    intervals still to process -/
def rangesFrom (exefsSize : Nat) : Nat → List (Nat × Nat) → List KRange
  | prev, [] => if exefsSize > prev then [⟨prev, exefsSize, false⟩] else []
  | prev, p :: rest =>
    let start := max p.1 prev
    (if start > prev then [⟨prev, start, false⟩] else []) ++
      (if p.2 > start then ⟨start, p.2, true⟩ :: rangesFrom exefsSize p.2 rest else rangesFrom exefsSize start rest)

def buildRanges (extra : List (Nat × Nat)) (exefsSize : Nat) : List KRange := rangesFrom exefsSize 0 extra

def isNormalCryptoName (n : Bytes) : Bool :=
  n == [0x69, 0x63, 0x6F, 0x6E] || n == [0x62, 0x61, 0x6E, 0x6E, 0x65, 0x72]   -- 'icon', 'banner'

def rangesOf (entries : List Exefs.Entry) (exefsSize : Nat) : List KRange :=
  buildRanges (sortPairs ((entries.filter fun e => !isNormalCryptoName e.name && e.size != 0).map
    fun e => (e.offset + 0x200, e.offset + e.size + 0x200))) exefsSize

/-- what a section view is made of (interpreted by the file-stack models of L3) -/
inductive View
  | window (off size : Nat)                                  -- SubsectionIO on the NCCH file
  | ctr (key : Bytes) (iv : Nat) (off size : Nat)            -- CTRFileIO over that window
  | merged (off size iv : Nat) (segs : List (Bytes × Nat × Nat))   -- SplitFileMerger of windows on two CTRFileIOs
  | full                                                     -- the FullDecrypted reader file
  deriving Repr

def normalKey (s : State) (slot : Nat) : Except Err Bytes := s.engine.cipherKey slot

/-- `_open_section_generic(section, encryption)` -/
def openGeneric (s : State) (start : Nat) (sec : Nat) (encryption : Bool := true) : Except Err View :=
  match s.section? sec with
  | none => .error .keyError
  | some r =>
    if encryption && !(s.assumeDecrypted || s.flags.noCrypto || sec == secHeader || sec == secLogo || sec == secPlain || sec == secRaw)
    then
      let slot := if sec == secRomFS then 0x44 else s.mainSlot
      match normalKey s slot with
      | .ok k => .ok (.ctr k r.iv (start + r.offset) r.size)
      | .error e => .error e
    else .ok (.window (start + r.offset) r.size)

/-- `open_raw_section(section)` -/
def openRaw (s : State) (start : Nat) (sec : Nat) : Except Err View :=
  if !s.flags.noCrypto then
    if sec == secExeFS && s.special then
      match s.section? sec with
      | none => .error .keyError
      | some r =>
        match normalKey s s.mainSlot, normalKey s 0x44 with
        | .ok km, .ok ke =>
          .ok (.merged (start + r.offset) r.size r.iv (s.ranges.map fun g => (if g.extra then ke else km, g.lo, g.hi)))
        | .error e, _ => .error e
        | _, .error e => .error e
    else if sec == secFull then
      match s.section? sec with
      | none => .error .keyError
      | some _ => .ok .full
    else openGeneric s start sec
  else openGeneric s start sec

end Ncch
end Pyctr

namespace Pyctr
namespace Ncch

/-- main and extra keyslot as decided by the flags (`KeyError` for an unknown crypto method) -/
def slotsOf (flags : Flags) (programId : Nat) : Except Err (Nat × Nat) :=
  if flags.fixedKey then
    let m := if programId &&& (0x10 <<< 32) != 0 then 0x42 else 0x41
    .ok (m, m)
  else match extraSlotOf flags.cryptoMethod with
    | some x => .ok (0x2C, x)
    | none => .error .keyError

/-- `setup_seed`: the seeded KeyY, or the reason the seed is refused -/
def seededKeyY (H : Bytes → Bytes) (usesSeed : Bool) (keyY : Bytes) (programId : Nat) (verify : Bytes)
    (seed : Option Bytes) : Except Err (Option Bytes) :=
  if usesSeed then
    match seed with
    | none => .error (.other "MissingSeedError")
    | some sd =>
      if slice (H (sd ++ toLE 8 programId)) 0 4 != verify then .error (.other "NCCHSeedError")
      else .ok (some (slice (H (keyY ++ sd)) 0 16))
  else .ok none

/-- loading the (seeded, if needed) key into the extra keyslot 0x44 -/
def setupExtraKey (eng : Engine) (flags : Flags) (assumeDecrypted : Bool) (extraSlot : Nat) (keyY : Bytes)
    (seededY : Option Bytes) : Except Err Engine :=
  if flags.noCrypto || assumeDecrypted then .ok eng
  else if flags.fixedKey then
    match eng.normal extraSlot with
    | some k => .ok (eng.setNormal 0x44 k)
    | none => .error .keyError
  else
    match eng.keyX extraSlot with
    | some x =>
      let e1 := eng.setKeyslot true 0x44 x true
      .ok (e1.setKeyslotBytes false 0x44 (seededY.getD keyY) true)
    | none => .error .keyError

/-- `NCCHReader.__init__` up to (not including) `load_sections`.
    `seed` = the seed the seed database yields for the program id (argument or previously added), if any. -/
def init (H : Bytes → Bytes) (eng : Engine) (file : Bytes) (start : Nat) (seed : Option Bytes)
    (assumeDecrypted : Bool) : Except Err State :=
  let h := slice file start 0x200
  if (slice h 0x150 0x10).any (· ≥ 0x80) then .error (.other "UnicodeDecodeError")
  else if h.length < 0x190 then .error .indexError
  else
    let keyY := slice h 0 0x10
    let contentSize := le h 0x104 4 * 0x200
    let pid := le h 0x108 8
    let programId := le h 0x118 8
    let extSize := le h 0x180 4
    let all : List Region := []
    let all := addRegion pid all secHeader 0 1
    let all := addRegion pid all secFull 0 (contentSize / 0x200)
    let all := addRegion pid all secRaw 0 (contentSize / 0x200)
    let all := if extSize = 0x400 then addRegion pid all secExtHeader 1 4 else addRegion pid all secExtHeader 0 0
    let all := addRegion pid all secLogo (le h 0x198 4) (le h 0x19C 4)
    let all := addRegion pid all secPlain (le h 0x190 4) (le h 0x194 4)
    let all := addRegion pid all secExeFS (le h 0x1A0 4) (le h 0x1A4 4)
    let all := addRegion pid all secRomFS (le h 0x1B0 4) (le h 0x1B4 4)
    let fb := slice h 0x188 8
    let f7 := (fb.getD 7 0).toNat
    let flags : Flags := ⟨(fb.getD 3 0).toNat, (fb.getD 5 0).toNat &&& 2 != 0, f7 &&& 1 != 0, f7 &&& 2 != 0,
                          f7 &&& 4 != 0, f7 &&& 0x20 != 0⟩
    let slots := slotsOf flags programId
    match slots with
    | .error e => .error e
    | .ok (mainSlot, extraSlot) =>
      let eng := eng.setKeyslotBytes false 0x2C keyY true
      -- seed
      let seeded := seededKeyY H flags.usesSeed keyY programId (slice h 0x114 4) seed
      match seeded with
      | .error e => .error e
      | .ok seededY =>
        let engX := setupExtraKey eng flags assumeDecrypted extraSlot keyY seededY
        match engX with
        | .error e => .error e
        | .ok eng =>
          let special := !flags.noCrypto && !assumeDecrypted && (mainSlot != extraSlot || flags.usesSeed)
          .ok { keyY := keyY, contentSize := contentSize, partitionId := pid, programId := programId,
                seedVerify := slice h 0x114 4, all := all, flags := flags, mainSlot := mainSlot, extraSlot := extraSlot,
                engine := eng, special := special, assumeDecrypted := assumeDecrypted, ranges := [],
                exefsEntries := none }

/-- plaintext bytes `[pos, pos+n)` of a section as seen through `openGeneric` (CTR over the window or raw) -/
def genericBytes (E : Bytes → Bytes → Bytes) (s : State) (file : Bytes) (start : Nat) (sec : Nat) (pos n : Nat) :
    Except Err Bytes :=
  match openGeneric s start sec with
  | .error e => .error e
  | .ok (.window off size) => .ok (slice (slice file off size) pos n)
  | .ok (.ctr key iv off size) => .ok (ctrAt E key iv pos (slice (slice file off size) pos n))
  | .ok _ => .error (.other "unreachable")

/-- plaintext of the merged ExeFS view -/
def mergedBytes (E : Bytes → Bytes → Bytes) (file : Bytes) (off size iv : Nat) (segs : List (Bytes × Nat × Nat))
    (pos n : Nat) : Bytes :=
  let whole := segs.flatMap fun (k, lo, hi) => ctrAt E k iv lo (slice (slice file off size) lo (hi - lo))
  slice whole pos n

/-- `load_sections()` as far as the ExeFS is concerned (the RomFS reader is modelled separately) -/
def loadExefs (E : Bytes → Bytes → Bytes) (s : State) (file : Bytes) (start : Nat) : Except Err State :=
  match s.section? secExeFS with
  | none => .ok s
  | some r =>
    let withRanges : Except Err State :=
      if s.special then
        match genericBytes E s file start secExeFS 0 0x200 with
        | .error e => .error e
        | .ok hdr =>
          match Exefs.parse hdr with
          | .error e => .error e
          | .ok entries => .ok { s with ranges := rangesOf entries r.size }
      else .ok s
    match withRanges with
    | .error e => .error e
    | .ok s =>
      -- self.exefs = ExeFSReader(self._exefs_fp)
      let hdr : Except Err Bytes :=
        match openRaw s start secExeFS with
        | .error e => .error e
        | .ok (.merged off size iv segs) => .ok (mergedBytes E file off size iv segs 0 0x200)
        | .ok (.window off size) => .ok (slice (slice file off size) 0 0x200)
        | .ok (.ctr key iv off size) => .ok (ctrAt E key iv 0 (slice (slice file off size) 0 0x200))
        | .ok .full => .error (.other "unreachable")
      match hdr with
      | .error e => .error e
      | .ok hdr =>
        match Exefs.parse hdr with
        | .error e => .error e
        | .ok entries => .ok { s with exefsEntries := some entries }

/-! ### the fully-decrypted view (`get_data` for `NCCHSection.FullDecrypted`) -/

/-- section data as `get_data(section, offset, size)` returns it (the non-FullDecrypted branches) -/
def getData (E : Bytes → Bytes → Bytes) (s : State) (file : Bytes) (start : Nat) (sec : Nat)
    (offset : Nat) (size : Int) : Except Err Bytes :=
  match s.region? sec with
  | none => .error .keyError
  | some r =>
    -- if offset + size > region.size: size = region.size - offset
    let size : Int := if (offset : Int) + size > r.size then (r.size : Int) - offset else size
    let n : Nat := size.toNat
    let base := start + r.offset + offset
    -- `self._file.read(size)` with a negative size reads to the end of the file
    let raw := if size < 0 then file.drop base else slice file base n
    if s.assumeDecrypted || s.flags.noCrypto || sec == secHeader || sec == secLogo || sec == secPlain || sec == secRaw
    then .ok raw
    else if sec == secExeFS then
      match openRaw s start secExeFS with
      | .ok (.merged off sz iv segs) => .ok (mergedBytes E file off sz iv segs offset n)
      | .ok (.ctr key iv off sz) => .ok (ctrAt E key iv offset (slice (slice file off sz) offset n))
      | .ok (.window off sz) => .ok (slice (slice file off sz) offset n)
      | .ok .full => .error (.other "unreachable")
      | .error e => .error e
    else
      let slot := if sec == secRomFS then 0x44 else s.mainSlot
      match normalKey s slot with
      | .error e => .error e
      | .ok k => .ok (ctrAt E k r.iv offset raw)

def inRegion (s : State) (chunk : Nat) (sec : Nat) : Option Region :=
  match s.region? sec with
  | some r => if r.offset ≤ chunk ∧ chunk < r.stop then some r else none
  | none => none

def classify (s : State) (chunk : Nat) : Nat × Nat :=
  match inRegion s chunk secRomFS with
  | some r => (secRomFS, r.offset)
  | none => match inRegion s chunk secExeFS with
    | some r => (secExeFS, r.offset)
    | none => match inRegion s chunk secHeader with
      | some r => (secHeader, r.offset)
      | none => match inRegion s chunk secExtHeader with
        | some r => (secExtHeader, r.offset)
        | none => match inRegion s chunk secLogo with
          | some r => (secLogo, r.offset)
          | none => match inRegion s chunk secPlain with
            | some r => (secPlain, r.offset)
            | none => (secRaw, 0)

/-- `to_read`: an insertion-ordered dict (section, raw chunk offset) ↦ [offset in section, size] -/
def addChunk (l : List ((Nat × Nat) × Nat × Nat)) (key : Nat × Nat) (off : Nat) : List ((Nat × Nat) × Nat × Nat) :=
  if l.any (·.1 == key) then l.map (fun x => if x.1 == key then (x.1, x.2.1, x.2.2 + 0x200) else x)
  else l ++ [(key, off, 0x200)]

def setByte (d : Bytes) (i : Nat) (v : UInt8) : Bytes := if i < d.length then d.set i v else d

/-- the six sections the classifier of the fully-decrypted view knows, and the decidable "no two of them overlap" -/
def sixList : List Nat := [secRomFS, secExeFS, secHeader, secExtHeader, secLogo, secPlain]

def regionsApart (s : State) : Bool :=
  sixList.all fun a => sixList.all fun b =>
    a == b || match s.region? a, s.region? b with
      | some ra, some rb => decide (ra.stop ≤ rb.offset ∨ rb.stop ≤ ra.offset)
      | _, _ => true

/-- the dict key under which a chunk is collected and the chunk's offset inside that key's source -/
def chunkKey (s : State) (c : Nat) : (Nat × Nat) × Nat :=
  ((if (classify s c).1 == secRaw then (secRaw, c) else ((classify s c).1, 0)), c - (classify s c).2)

/-- the planning loop of `do_thing`: `to_read[region] = [offset, 0]` on first sight, `+= 0x200` for every chunk -/
def plan (s : State) (alOffset nChunks : Nat) : List ((Nat × Nat) × Nat × Nat) :=
  ((List.range nChunks).map fun i => alOffset + 0x200 * i).foldl (fun acc c => addChunk acc (chunkKey s c).1 (chunkKey s c).2) []

/-- one piece of the second loop: read, fix the crypto flags of the header, trim the first and the last piece -/
def pieceBytes (before cutEnd : Nat) (lastKey : Option (Nat × Nat)) (isStart : Bool) (key : Nat × Nat) (planned : Nat)
    (d : Bytes) : Bytes :=
  let d := if key.1 == secHeader then setByte (setByte d 0x18B 0) 0x18F 4 else d
  -- `new_data[cut_start if is_start else 0 : planned - (cut_end if this is the last piece)]`: the end is trimmed relative to
  -- the PLANNED length of the piece, so a last chunk cut short by the end of the file loses nothing it really has
  let hi := if some key == lastKey && cutEnd != 0x200 then planned - cutEnd else planned
  (d.take hi).drop (if isStart then before else 0)

def assembleStep (gd : Nat → Nat → Int → Except Err Bytes) (before cutEnd : Nat) (lastKey : Option (Nat × Nat))
    (acc : Except Err (List Bytes × Bool)) (item : (Nat × Nat) × Nat × Nat) : Except Err (List Bytes × Bool) :=
  match acc with
  | .error e => .error e
  | .ok (out, isStart) =>
    match gd item.1.1 item.2.1 item.2.2 with
    | .error e => .error e
    | .ok d => .ok (out ++ [pieceBytes before cutEnd lastKey isStart item.1 item.2.2 d], false)

/-- the assembly of an aligned plan; `gd` = `get_data` of the sections -/
def assemble (gd : Nat → Nat → Int → Except Err Bytes) (before cutEnd : Nat) (lastKey : Option (Nat × Nat))
    (toRead : List ((Nat × Nat) × Nat × Nat)) : Except Err Bytes :=
  match toRead.foldl (assembleStep gd before cutEnd lastKey) (.ok ([], true)) with
  | .error e => .error e
  | .ok (out, _) => .ok out.flatten

/-- is the section read without decryption? (`assume_decrypted`, NoCrypto, or one of the never-encrypted regions) -/
def plainSec (s : State) (sec : Nat) : Bool :=
  s.assumeDecrypted || s.flags.noCrypto || sec == secHeader || sec == secLogo || sec == secPlain || sec == secRaw

/-- the plaintext of a whole section, as `get_data` serves slices of it: the window itself, or the window under the CTR
    keystream of its keyslot, or (two-key ExeFS) the concatenation of the per-range decryptions.  Empty when a key is missing. -/
def secSrc (E : Bytes → Bytes → Bytes) (s : State) (file : Bytes) (start : Nat) (sec : Nat) : Bytes :=
  match s.region? sec with
  | none => []
  | some r =>
    if plainSec s sec then slice file (start + r.offset) r.size
    else if sec == secExeFS then
      match openRaw s start secExeFS with
      | .ok (.merged off sz iv segs) =>
        (segs.flatMap fun (k, lo, hi) => ctrAt E k iv lo (slice (slice file off sz) lo (hi - lo))).take r.size
      | .ok (.ctr key iv off sz) => (ctrAt E key iv 0 (slice file off sz)).take r.size
      | .ok (.window off sz) => (slice file off sz).take r.size
      | _ => []
    else
      match normalKey s (if sec == secRomFS then 0x44 else s.mainSlot) with
      | .ok k => ctrAt E k r.iv 0 (slice file (start + r.offset) r.size)
      | .error _ => []

/-- the decidable form of the hypotheses of the one-image theorem for the first `N` chunks: the six regions stay apart, every
    chunk lies inside the plaintext of its section (or inside the file, for a pass-through chunk), the header is the chunk at 0 -/
def readGeomB (E : Bytes → Bytes → Bytes) (s : State) (file : Bytes) (start : Nat) (N : Nat) : Bool :=
  let lens := (List.range 9).map fun sec => (secSrc E s file start sec).length
  regionsApart s &&
  (List.range N).all fun i =>
    decide ((chunkKey s (0x200 * i)).2 + 0x200 ≤ lens.getD (chunkKey s (0x200 * i)).1.1 0) &&
    decide ((chunkKey s (0x200 * i)).1.1 < 9) &&
    ((chunkKey s (0x200 * i)).1.1 != secHeader ||
      (decide ((chunkKey s (0x200 * i)).2 = 0) && decide (lens.getD secHeader 0 = 0x200)))

/-- how many 0x200-byte chunks `get_data(FullDecrypted, offset, size)` plans: the request clamped to the content size of the
    header, then to what the file really holds behind `start` (`_available_size()`), then aligned -/
def fullChunks (rsize fileLen start offset : Nat) (size : Int) : Nat :=
  let size : Int := if (offset : Int) + size > rsize then (rsize : Int) - offset else size
  let available : Int := (fileLen : Int) - start
  let size : Int := if (offset : Int) + size > available then available - offset else size
  if size ≤ 0 then 0 else
  let alSize : Int := size + (offset % 0x200 : Nat)
  if alSize ≤ 0 then 0 else (alSize.toNat + 0x1FF) / 0x200

/-- `get_data(FullDecrypted, offset, size)` -/
def fullRead (E : Bytes → Bytes → Bytes) (s : State) (file : Bytes) (start : Nat) (offset : Nat) (size : Int) :
    Except Err Bytes :=
  match s.region? secFull with
  | none => .error .keyError
  | some r =>
    let size : Int := if (offset : Int) + size > r.size then (r.size : Int) - offset else size
    -- never more chunks than the file can hold: `available = file.seek(0, 2) - start`
    let available : Int := (file.length : Int) - start
    let size : Int := if (offset : Int) + size > available then available - offset else size
    if size ≤ 0 then .ok [] else
    let before := offset % 0x200
    let alOffset := offset - before
    let alSize : Int := size + before
    -- end = al_offset + ceil(al_size / 0x200) * 0x200
    let nChunks : Nat := if alSize ≤ 0 then 0 else (alSize.toNat + 0x1FF) / 0x200
    let lastKey : Option (Nat × Nat) :=
      (((List.range nChunks).map fun i => alOffset + 0x200 * i).getLast?).map fun c => (chunkKey s c).1
    -- cut_end = 0x200 - ((size + before) % 0x200)   (Python modulo: non-negative)
    let cutEnd : Nat := 0x200 - (alSize % 0x200).toNat
    assemble (getData E s file start) before cutEnd lastKey (plan s alOffset nChunks)

end Ncch
end Pyctr
