/-
  RomFS level 3 (optionally IVFC-wrapped): `RomFSReader.__init__`, `_get_raw_info`, `openbin`.
  Strings are lists of UTF-16 code units (what `bytes.decode('utf-16le')` yields for valid input);
  `lower` is a parameter (`str.lower`).
-/
import PyctrModel.Base.AFile
namespace Pyctr
namespace Romfs

abbrev Str := List UInt16

def NONE : Nat := 0xFFFFFFFF

/-- `bytes.decode('utf-16le')`: even length and well-paired surrogates, else UnicodeDecodeError -/
def decodeUnits : Bytes → Option Str
  | [] => some []
  | [_] => none
  | lo :: hi :: rest => (decodeUnits rest).map (fun r => (lo.toUInt16 ||| (hi.toUInt16 <<< 8)) :: r)

def isHigh (u : UInt16) : Bool := 0xD800 ≤ u && u < 0xDC00
def isLow (u : UInt16) : Bool := 0xDC00 ≤ u && u < 0xE000

def wellPaired : Str → Bool
  | [] => true
  | u :: rest =>
    if isHigh u then
      match rest with
      | v :: rest' => isLow v && wellPaired rest'
      | [] => false
    else if isLow u then false
    else wellPaired rest

def decodeUtf16 (b : Bytes) : Except Err Str :=
  match decodeUnits b with
  | some s => if wellPaired s then .ok s else .error (.other "UnicodeDecodeError")
  | none => .error (.other "UnicodeDecodeError")

def encodeUtf16 (s : Str) : Bytes := s.flatMap fun (u : UInt16) => [u.toUInt8, (u >>> 8).toUInt8]

/-- names the reader rejects: a child called '', '.', '..' or containing '/' cannot be told apart from its parent or an
    ancestor when the tree is walked -/
def badName (n : Str) : Bool := n.isEmpty || n == [0x2E] || n == [0x2E, 0x2E] || n.any (· == 0x2F)

/-- parsed tree: what `_tree_root` holds -/
inductive PNode
  | dir (name : Str) (contents : List (Str × PNode))
  | file (name : Str) (offset size : Nat)
  deriving Inhabited

/-- `out['contents'][key] = value` on an insertion-ordered dict -/
def dictSet (l : List (Str × PNode)) (k : Str) (v : PNode) : List (Str × PNode) :=
  if l.any (·.1 == k) then l.map (fun p => if p.1 == k then (k, v) else p) else l ++ [(k, v)]

structure Counters where
  dirs : Nat
  files : Nat

structure Env where
  lower : Str → Str
  ci : Bool
  dm : Bytes
  fm : Bytes
  maxDirs : Nat      -- len(dirmeta read) // 0x18
  maxFiles : Nat     -- len(filemeta read) // 0x20

def Env.key (e : Env) (name : Str) : Str := if e.ci then e.lower name else name

mutual
/-- `iterate_dir(out, raw, …)`: returns the `contents` dict of the directory whose 0x18-byte entry is `raw` -/
def iterDir (e : Env) : Nat → Bytes → Counters → Except Err (List (Str × PNode) × Counters)
  | 0, _, _ => .error (.other "RecursionError")
  | fuel+1, raw, c =>
    let firstChild := readLE (slice raw 0x8 4)
    let firstFile := readLE (slice raw 0xC 4)
    match (if firstChild ≠ NONE then dirLoop e fuel firstChild [] c else .ok ([], c)) with
    | .error err => .error err
    | .ok (out, c1) =>
      if firstFile ≠ NONE then fileLoop e fuel firstFile out c1 else .ok (out, c1)

/-- the `while True` loop over sibling directories starting at table offset `off` -/
def dirLoop (e : Env) : Nat → Nat → List (Str × PNode) → Counters → Except Err (List (Str × PNode) × Counters)
  | 0, _, _, _ => .error (.other "RecursionError")
  | fuel+1, off, out, c =>
    if c.dirs + 1 > e.maxDirs then .error (.other "RomFSEntryError")
    else
      let c := { c with dirs := c.dirs + 1 }
      let ent := slice e.dm off 0x18
      let next := readLE (slice ent 0x4 4)
      let nameRaw := slice e.dm (off + ent.length) (readLE (slice ent 0x14 4))
      match decodeUtf16 nameRaw with
      | .error err => .error err
      | .ok name =>
        if badName name then .error (.other "RomFSEntryError") else
        match iterDir e fuel ent c with
        | .error err => .error err
        | .ok (sub, c1) =>
          let out := dictSet out (e.key name) (.dir name sub)
          if next = NONE then .ok (out, c1) else dirLoop e fuel next out c1

/-- the `while True` loop over sibling files -/
def fileLoop (e : Env) : Nat → Nat → List (Str × PNode) → Counters → Except Err (List (Str × PNode) × Counters)
  | 0, _, _, _ => .error (.other "RecursionError")
  | fuel+1, off, out, c =>
    if c.files + 1 > e.maxFiles then .error (.other "RomFSEntryError")
    else
      let c := { c with files := c.files + 1 }
      let ent := slice e.fm off 0x20
      let next := readLE (slice ent 0x4 4)
      let fOff := readLE (slice ent 0x8 8)
      let fSize := readLE (slice ent 0x10 8)
      let nameRaw := slice e.fm (off + ent.length) (readLE (slice ent 0x1C 4))
      match decodeUtf16 nameRaw with
      | .error err => .error err
      | .ok name =>
        if badName name then .error (.other "RomFSEntryError") else
        let out := dictSet out (e.key name) (.file name fOff fSize)
        if next = NONE then .ok (out, c) else fileLoop e fuel next out c
end

structure Parsed where
  root : PNode
  lv3Offset : Nat
  dataOffset : Nat      -- lv3_offset + filedata_offset

def u32 (b : Bytes) (off : Nat) : Nat := readLE (slice b off 4)

/-- the two metadata tables as read from the file, and the visit caps: counted from what was actually read (the sizes in the
    header can be larger than the file) -/
def mkEnv (lower : Str → Str) (ci : Bool) (file : Bytes) (base dmo dms fmo fms : Nat) : Env :=
  let dm := slice file (base + dmo) dms
  let fm := slice file (base + fmo) fms
  ⟨lower, ci, dm, fm, dm.length / 0x18, fm.length / 0x20⟩

/-- `RomFSReader.__init__` on the whole underlying file, the RomFS beginning at `start` -/
def parse (lower : Str → Str) (ci : Bool) (file : Bytes) (start : Nat) : Except Err Parsed :=
  let header := slice file start 0x5C
  let ivfc : Except Err (Nat × Bytes) :=
    if slice header 0 4 == [0x49, 0x56, 0x46, 0x43] then
      if u32 header 4 ≠ 0x10000 then .error (.other "InvalidIVFCError")
      else
        let mhs := u32 header 8
        let bs := u32 header 0x4C
        if bs > 0x3F then .error (.other "InvalidIVFCError")
        else
          let off := roundupNat (0x60 + mhs) (2 ^ bs)
          .ok (off, slice file (start + off) 0x28)
    else .ok (0, slice header 0 0x28)
  match ivfc with
  | .error e => .error e
  | .ok (lv3off, h) =>
    if h.length ≠ 0x28 then .error (.other "InvalidRomFSHeaderError")
    else
      let hsize := u32 h 0; let dho := u32 h 4; let dhs := u32 h 8; let dmo := u32 h 12; let dms := u32 h 16
      let fho := u32 h 20; let fhs := u32 h 24; let fmo := u32 h 28; let fms := u32 h 32; let fdo := u32 h 36
      if hsize ≠ 0x28 ∨ dho < hsize ∨ dmo < dho + dhs ∨ fho < dmo + dms ∨ fmo < fho + fhs ∨ fdo < fmo + fms
      then .error (.other "InvalidRomFSHeaderError")
      else
        let e := mkEnv lower ci file (start + lv3off) dmo dms fmo fms
        match iterDir e (2 * e.maxDirs + e.maxFiles + 3) (slice e.dm 0 0x18) ⟨0, 0⟩ with
        | .error err => .error err
        | .ok (contents, _) => .ok ⟨.dir [0x52, 0x4F, 0x4F, 0x54] contents, lv3off, lv3off + fdo⟩

/-- Python `str.split('/')` -/
def splitSlash (s : Str) : List Str :=
  let rec go : Str → Str → List Str → List Str
    | [], cur, acc => (cur.reverse :: acc).reverse
    | c :: rest, cur, acc => if c == 0x2F then go rest [] (cur.reverse :: acc) else go rest (c :: cur) acc
  go s [] []

def walkParts (curr : PNode) : List Str → Except Err PNode
  | [] => .ok curr
  | part :: rest =>
    if part == [] then .ok curr     -- `break`
    else match curr with
      | .dir _ contents =>
        match contents.find? (·.1 == part) with
        | some (_, n) => walkParts n rest
        | none => .error (.other "RomFSFileNotFoundError")
      | .file .. => .error (.other "RomFSFileNotFoundError")   -- KeyError: 'contents'

/-- `_get_raw_info(path)`; an empty path makes the code index `path[0]` -/
def getRawInfo (lower : Str → Str) (ci : Bool) (root : PNode) (path : Str) : Except Err PNode :=
  if path == [0x2E] then .ok root
  else
    let path := if ci then lower path else path
    if path == [] then .error .indexError
    else
      let path := if path.take 2 == [0x2E, 0x2F] then path.drop 2
                  else if path.head? == some 0x2F then path.drop 1 else path
      walkParts root (splitSlash path)

/-- the window `openbin` hands out for a file node -/
def fileWindow (p : Parsed) (start : Nat) : PNode → Except Err (Nat × Nat)
  | .file _ off size => .ok (start + p.dataOffset + off, size)
  | .dir .. => .error (.other "RomFSIsADirectoryError")

end Romfs
end Pyctr

namespace Pyctr
namespace Romfs

/-- specification side: a directory tree with, per file, the data offset (relative to the file-data region) and size -/
inductive Tree
  | dir (name : Str) (dirs : List Tree) (files : List (Str × Nat × Nat))

def Tree.name : Tree → Str
  | .dir n _ _ => n

mutual
/-- the contents the reader must build for a directory -/
def shapeContents (e : Env) : Tree → List (Str × PNode)
  | .dir _ dirs files => shapeDirs e dirs ++ files.map fun f => (e.key f.1, .file f.1 f.2.1 f.2.2)
def shapeDirs (e : Env) : List Tree → List (Str × PNode)
  | [] => []
  | d :: ds => (e.key d.name, .dir d.name (shapeContents e d)) :: shapeDirs e ds
end

/-- the sibling file chain starting at `off` of the file-metadata table is exactly `files` -/
def repFiles (e : Env) : Nat → List (Str × Nat × Nat) → Bool
  | off, [] => off == NONE
  | off, f :: fs =>
    let ent := slice e.fm off 0x20
    off != NONE && ent.length == 0x20 &&
    (match decodeUtf16 (slice e.fm (off + 0x20) (readLE (slice ent 0x1C 4))) with
     | .ok n => n == f.1 && !badName n
     | .error _ => false) &&
    readLE (slice ent 0x8 8) == f.2.1 && readLE (slice ent 0x10 8) == f.2.2 &&
    repFiles e (readLE (slice ent 0x4 4)) fs

mutual
/-- the directory whose 0x18-byte entry is `raw` has exactly the children of the tree node -/
def repDir (e : Env) : Bytes → Tree → Bool
  | raw, .dir _ dirs files =>
    repDirs e (readLE (slice raw 0x8 4)) dirs && repFiles e (readLE (slice raw 0xC 4)) files
/-- the sibling directory chain starting at `off` of the directory-metadata table is exactly `dirs` -/
def repDirs (e : Env) : Nat → List Tree → Bool
  | off, [] => off == NONE
  | off, d :: ds =>
    let ent := slice e.dm off 0x18
    off != NONE && ent.length == 0x18 &&
    (match decodeUtf16 (slice e.dm (off + 0x18) (readLE (slice ent 0x14 4))) with
     | .ok n => n == d.name && !badName n
     | .error _ => false) &&
    repDir e ent d && repDirs e (readLE (slice ent 0x4 4)) ds
end

mutual
def Tree.numDirs : Tree → Nat
  | .dir _ dirs _ => numDirsL dirs
def numDirsL : List Tree → Nat
  | [] => 0
  | d :: ds => 1 + d.numDirs + numDirsL ds
end

mutual
def Tree.numFiles : Tree → Nat
  | .dir _ dirs files => files.length + numFilesL dirs
def numFilesL : List Tree → Nat
  | [] => 0
  | d :: ds => d.numFiles + numFilesL ds
end

end Romfs
end Pyctr
