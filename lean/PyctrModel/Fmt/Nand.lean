/-
  NAND images: NCSD header (`NANDNCSDHeader.from_bytes` / `__bytes__`), partition typing, counters (from the CID or
  inferred from known MBR blocks), the base CTR wrappers and the partition / MBR sub-partition views.
  `E`/`D` = AES-128 block functions, `H256` / `H1` = SHA-256 / SHA-1 (parameters).
-/
import PyctrModel.Engine.Otp
import PyctrModel.Fmt.Exefs
namespace Pyctr
namespace Nand

/-- section keys of the partition table: 0-7 real entries, negative = the library's named sections -/
abbrev secHeader : Int := -3
abbrev secSector0x96 : Int := -2
abbrev secMinSize : Int := -5
abbrev secTWLNAND : Int := -11
abbrev secAGBSAVE : Int := -12
abbrev secFIRM0 : Int := -13
abbrev secFIRM1 : Int := -14
abbrev secCTRNAND : Int := -15

inductive Base | twl | ctrOld | ctrNew | firm | agb | sector0x96
  deriving Repr, DecidableEq

def Base.name : Base → String
  | .twl => "twl" | .ctrOld => "ctr_old" | .ctrNew => "ctr_new" | .firm => "firm" | .agb => "agb" | .sector0x96 => "sector0x96"

/-- the keyslot each base wrapper is created with -/
def Base.slot : Base → Nat
  | .twl => 0x03 | .ctrOld => 0x04 | .ctrNew => 0x05 | .firm => 0x06 | .agb => 0x07 | .sector0x96 => 0x11

structure PartInfo where
  fsType : Int
  crypt : Int
  offset : Nat
  size : Nat
  base : Option Base
  deriving Repr, DecidableEq

structure Header where
  signature : Bytes
  imageSize : Nat
  actualSize : Nat
  table : List (Int × PartInfo)      -- insertion-ordered dict
  unknown : Bytes
  twlMbrEnc : Bytes
  deriving Repr, DecidableEq

def nandSize (mu : Nat) : Option Nat := if mu = 0x200000 then some 0x3AF00000 else if mu = 0x280000 then some 0x4D800000 else none

def ncsdMagic : Bytes := [0x4E, 0x43, 0x53, 0x44]

/-- partition typing: (base file, extra section id) from fs type, crypt type and the number of FIRM partitions so far -/
def typeOf (fs crypt : Nat) (firmCount : Nat) : Option Base × Option Int :=
  if fs = 1 then
    if crypt = 1 then (some .twl, some secTWLNAND)
    else if crypt = 2 then (some .ctrOld, some secCTRNAND)
    else if crypt = 3 then (some .ctrNew, some secCTRNAND)
    else (none, none)
  else if fs = 3 then (some .firm, if firmCount = 0 then some secFIRM0 else if firmCount = 1 then some secFIRM1 else none)
  else if fs = 4 then (some .agb, some secAGBSAVE)
  else (none, none)

def tableLookup (t : List (Int × PartInfo)) (k : Int) : Option PartInfo := (t.find? (·.1 == k)).map (·.2)

/-- the loop over the eight table entries -/
def parseEntries (fsTypes cryptTypes locs : Bytes) : Nat → Nat → Nat → List (Int × PartInfo) → Except Err (List (Int × PartInfo))
  | 0, _, _, acc => .ok acc
  | n + 1, idx, firmCount, acc =>
    let fs := (fsTypes.getD idx 0).toNat
    if fs = 0 then parseEntries fsTypes cryptTypes locs n (idx + 1) firmCount acc
    else
      let crypt := (cryptTypes.getD idx 0).toNat
      let (base, extra) := typeOf fs crypt firmCount
      let firmCount := if fs = 3 then firmCount + 1 else firmCount
      let info : PartInfo := ⟨fs, crypt, readLE (slice locs (8 * idx) 4) * 0x200, readLE (slice locs (8 * idx + 4) 4) * 0x200, base⟩
      let acc := acc ++ [((idx : Int), info)]
      match extra with
      | none => parseEntries fsTypes cryptTypes locs n (idx + 1) firmCount acc
      | some x =>
        if (tableLookup acc x).isSome then .error (.other "InvalidNANDError")
        else parseEntries fsTypes cryptTypes locs n (idx + 1) firmCount (acc ++ [(x, info)])

/-- `NANDNCSDHeader.from_bytes(data)` -/
def Header.fromBytes (data : Bytes) : Except Err Header :=
  if data.length ≠ 0x200 then .error (.other "error")          -- struct.error
  else
    let mu := readLE (slice data 0x104 4)
    match nandSize mu with
    | none => .error .keyError
    | some actual =>
      if slice data 0x100 4 ≠ ncsdMagic then .error (.other "InvalidNANDError")
      else if readLE (slice data 0x108 8) ≠ 0 then .error (.other "InvalidNANDError")
      else
        match parseEntries (slice data 0x110 8) (slice data 0x118 8) (slice data 0x120 0x40) 8 0 0 [] with
        | .error e => .error e
        | .ok t =>
          let t := t ++ [(secHeader, ⟨-1, -2, 0, 0x200, none⟩),
                         (secSector0x96, ⟨-1, -1, 0x96 * 0x200, 0x200, some .sector0x96⟩),
                         (secMinSize, ⟨-1, -2, 0, actual, none⟩)]
          .ok ⟨slice data 0 0x100, mu * 0x200, actual, t, slice data 0x160 94, slice data 0x1BE 66⟩

/-- the three arrays `__bytes__` fills while iterating over the table: fs types (8), crypt types (8), offsets/lengths (64 bytes) -/
structure Arrays where
  fs : Bytes
  cr : Bytes
  locs : Bytes

/-- one iteration of the loop in `__bytes__` (only real partitions, `idx >= 0`) -/
def Arrays.step (a : Arrays) (kv : Int × PartInfo) : Arrays :=
  if kv.1 < 0 then a
  else
    let i := kv.1.toNat
    ⟨a.fs.set i (UInt8.ofNat kv.2.fsType.toNat), a.cr.set i (UInt8.ofNat kv.2.crypt.toNat),
     a.locs.take (8 * i) ++ toLE 4 (kv.2.offset / 0x200) ++ toLE 4 (kv.2.size / 0x200) ++ a.locs.drop (8 * i + 8)⟩

def Arrays.init : Arrays := ⟨zeros 8, zeros 8, zeros 64⟩

/-- `bytes(header)` -/
def Header.toBytes (h : Header) : Bytes :=
  let a := h.table.foldl Arrays.step Arrays.init
  h.signature ++ ncsdMagic ++ toLE 4 (h.imageSize / 0x200) ++ zeros 8 ++ a.fs ++ a.cr ++ a.locs ++ h.unknown ++ h.twlMbrEnc

/-- `parse_mbr_lazy(raw)`: four (offset, size) pairs in bytes -/
def parseMbr (raw : Bytes) : Except Err (List (Nat × Nat)) :=
  if raw.length ≠ 0x42 then .error (.other "InvalidNANDError")
  else if slice raw 0x40 2 ≠ [0x55, 0xAA] then .error (.other "InvalidNANDError")
  else .ok ((List.range 4).map fun i =>
    (readLE (slice raw (0x10 * i + 8) 4) * 0x200, readLE (slice raw (0x10 * i + 0xC) 4) * 0x200))

def defaultTwlMbr : List (Nat × Nat) := [(77312, 150688256), (151067136, 34301440), (0, 0), (0, 0)]

/-- counters from the CID -/
def ctrCounter (H256 : Bytes → Bytes) (cid : Bytes) : Nat := readBE (slice (H256 cid) 0 0x10)
def twlCounter (H1 : Bytes → Bytes) (cid : Bytes) : Nat := readLE (slice (H1 cid) 0 0x10)

/-- one AES-CTR block (PyCryptodome `create_ctr_cipher(slot, ctr).decrypt(block)`, 3DS flavour: big-endian counter) -/
def ctrBlock (E : Bytes → Bytes → Bytes) (key : Bytes) (ctr : Nat) (block : Bytes) : Bytes :=
  xorBytes block (E key (toBE 16 (ctr % 2 ^ 128)))

def twlKnown0 : Nat := 0x18000601A03F97000000A97D04000004
def twlKnown1 : Bytes := [0x8e, 0x40, 0x06, 0x01, 0xa0, 0xc3, 0x8d, 0x80, 0x04, 0x00, 0xb3, 0x05, 0x01, 0x00, 0x00, 0x00]

/-- `_generate_ctr_counter`: `none` = verification failed (counter stays None); the counter may be negative in Python,
    which then fails when the wrapper is created — modelled as an Int -/
def inferCtr (E D : Bytes → Bytes → Bytes) (key : Bytes) (img : Bytes) (partOff : Nat) : Option Int :=
  let pos := min (partOff + 0x1D0) img.length
  let blockOff := pos / 16
  let b0 := slice img pos 0x10
  let b1 := slice img (pos + b0.length) 0x10
  let c : Int := (readBE (D key b0) : Int) - blockOff
  if ctrBlock E key ((c + blockOff + 1) % (2 ^ 128 : Int)).toNat b1 = zeros 16 then some c else none

/-- `_TWLCryptoWrapper(cipher).decrypt(block)` for one block: byte-reversed in and out -/
def twlBlock (E : Bytes → Bytes → Bytes) (key : Bytes) (ctr : Nat) (block : Bytes) : Bytes :=
  (ctrBlock E key ctr block.reverse).reverse

/-- `_generate_twl_counter` -/
def inferTwl (E D : Bytes → Bytes → Bytes) (key : Bytes) (img : Bytes) (partOff : Nat) : Option Int :=
  let pos := min (partOff + 0x1C0) img.length
  let blockOff := pos / 16
  let b0 := slice img pos 0x10
  let b1 := slice img (pos + b0.length) 0x10
  let x := readBE b0 ^^^ twlKnown0
  let c : Int := (readBE (D key (toLE 16 x)) : Int) - blockOff
  if twlBlock E key ((c + blockOff + 1) % (2 ^ 128 : Int)).toNat b1 = twlKnown1 then some c else none

/-- what the constructor leaves behind -/
structure State where
  header : Header
  essential : Option (List Exefs.Entry)
  twlIndex : Option Int
  ctrIndex : Option Int
  counter : Option Int
  counterTwl : Option Int
  ctrParts : List (Nat × Nat)
  twlParts : List (Nat × Nat)
  engine : Engine
  size : Nat                           -- raw image size (the window all wrappers are built on)

/-- first table key whose base file satisfies `p` (dict iteration order) -/
def findIndex (t : List (Int × PartInfo)) (p : Base → Bool) : Option Int :=
  (t.find? fun kv => match kv.2.base with | some b => p b | none => false).map (·.1)

/-- a view: which wrapper (none = the raw image window), at which window-relative offset and size -/
structure View where
  base : Option Base
  offset : Nat
  size : Nat
  deriving Repr, DecidableEq

/-- `open_raw_section(section)` -/
def openRaw (s : State) (sec : Int) : Except Err View :=
  match tableLookup s.header.table sec with
  | none => .error .keyError
  | some info =>
    match info.base with
    | some .sector0x96 => .error .notImplemented
    | some .twl => if s.counterTwl.isSome ∧ s.counterTwl ≠ some 0 then .ok ⟨some .twl, info.offset, info.size⟩ else .error .keyError
    | some b => if s.counter.isSome ∧ s.counter ≠ some 0 then .ok ⟨some b, info.offset, info.size⟩ else .error .keyError
    | none => .ok ⟨none, info.offset, info.size⟩

/-- `open_ctr_partition(i)` / `open_twl_partition(i)` -/
def openSub (s : State) (twl : Bool) (i : Nat) : Except Err View :=
  match (if twl then s.twlIndex else s.ctrIndex) with
  | none => .error .keyError
  | some idx =>
    match tableLookup s.header.table idx with
    | none => .error .keyError
    | some info =>
      match (if twl then s.twlParts else s.ctrParts)[i]? with
      | none => .error .indexError
      | some (o, n) =>
        match info.base with
        | none => .error .keyError
        | some b =>
          let have_ := if b = .twl then (s.counterTwl.isSome ∧ s.counterTwl ≠ some 0) else (s.counter.isSome ∧ s.counter ≠ some 0)
          if have_ then .ok ⟨some b, info.offset + o, n⟩ else .error .keyError

/-- read `n` plaintext bytes at window offset `off` through base wrapper `b` (used for the MBRs during construction) -/
def readThrough (E : Bytes → Bytes → Bytes) (s : State) (img : Bytes) (b : Base) (ctr : Int) (off n : Nat) : Except Err Bytes :=
  match s.engine.cipherKey b.slot with
  | .error e => .error e
  | .ok key =>
    let data := slice img off n
    let first := off / 16
    let pre := off % 16
    let nblk := (pre + data.length + 15) / 16
    let ks : Bytes := (List.range nblk).flatMap fun (j : Nat) =>
      let blk := E key (toBE 16 ((ctr + (first : Int) + (j : Int)) % (2 ^ 128 : Int)).toNat)
      if b = .twl then blk.reverse else blk
    .ok (xorBytes data (ks.drop pre))

/-- a file of essential.exefs (first `n` bytes), if the backup and the file exist -/
def essFile (img : Bytes) (essential : Option (List Exefs.Entry)) (name : Bytes) (n : Nat) : Option Bytes :=
  match essential with
  | none => none
  | some es => match Exefs.lookup es name with
    | .error _ => none
    | .ok en => some (slice (slice img (0x400 + en.offset) en.size) 0 n)

/-- stage 1: console keys — OTP argument first, then essential.exefs -/
def stageKeys (E D : Bytes → Bytes → Bytes) (H256 : Bytes → Bytes) (e0 : Engine) (okey oiv keygen img : Bytes)
    (essential : Option (List Exefs.Entry)) (otp : Option Bytes) : Except Err Engine :=
  match (match otp with | some o => if o.isEmpty then none else some o | none => none) with
  | some o => Engine.setupKeysFromOtp E D H256 e0 okey oiv keygen o
  | none =>
    match essential with
    | none => .error (.other "MissingOTPError")
    | some _ => match essFile img essential [0x6F, 0x74, 0x70] 0x100 with
      | none => .error (.other "MissingOTPError")
      | some o => Engine.setupKeysFromOtp E D H256 e0 okey oiv keygen o

/-- stage 2: the CID that is used — argument, else `nand_cid` of essential.exefs -/
def stageCid (img : Bytes) (essential : Option (List Exefs.Entry)) (cid : Option Bytes) : Option Bytes :=
  match (match cid with | some c => if c.isEmpty then none else some c | none => none) with
  | some c => some c
  | none => match essFile img essential [0x6E, 0x61, 0x6E, 0x64, 0x5F, 0x63, 0x69, 0x64] 0x10 with
    | some c => if c.isEmpty then none else some c
    | none => none

/-- stage 3: counters — from the CID, else inferred from the MBR blocks -/
def stageCounters (E D : Bytes → Bytes → Bytes) (H256 H1 : Bytes → Bytes) (eng : Engine) (img : Bytes) (header : Header)
    (twlIndex ctrIndex : Option Int) (cid : Option Bytes) : Except Err (Option Int × Option Int) :=
  match cid with
  | some c => .ok (some (ctrCounter H256 c : Int), some (twlCounter H1 c : Int))
  | none =>
    let c1 : Except Err (Option Int) :=
      match ctrIndex with
      | none => .ok none
      | some idx =>
        match tableLookup header.table idx with
        | none => .error .keyError
        | some info =>
          let slot := if info.crypt = 2 then some 0x04 else if info.crypt = 3 then some 0x05 else none
          match slot with
          | none => .error (.other "InvalidNANDError")
          | some sl => match eng.cipherKey sl with
            | .error err => .error err
            | .ok key => .ok (inferCtr E D key img info.offset)
    match c1 with
    | .error err => .error err
    | .ok c1 =>
      match twlIndex with
      | none => .ok (c1, none)
      | some idx =>
        match tableLookup header.table idx with
        | none => .error .keyError
        | some info => match eng.cipherKey 0x03 with
          | .error err => .error err
          | .ok key => .ok (c1, inferTwl E D key img info.offset)

def truthy (c : Option Int) : Bool := match c with | some v => v != 0 | none => false

/-- stage 4: the MBR of the CTR (`twl = false`) or TWL partition, read through its wrapper -/
def stageMbr (E : Bytes → Bytes → Bytes) (s1 : State) (img : Bytes) (twl : Bool) : Except Err (List (Nat × Nat)) :=
  let counter := if twl then s1.counterTwl else s1.counter
  if truthy counter then
    match (if twl then s1.twlIndex else s1.ctrIndex) with
    | none => .ok []
    | some idx =>
      match openRaw s1 idx with
      | .error err => .error err
      | .ok v =>
        match v.base with
        | none => .ok []
        | some b =>
          match readThrough E s1 img b (counter.getD 0) (v.offset + min 0x1BE v.size) (min 0x42 (v.size - min 0x1BE v.size)) with
          | .error err => .error err
          | .ok raw => match parseMbr raw with
            | .ok ps => .ok ps
            | .error _ => .ok (if twl then defaultTwlMbr else [])
  else .ok []

/-- `NAND.__init__` (file-like object, OTP/CID as arguments or from essential.exefs) -/
def open' (E D : Bytes → Bytes → Bytes) (H256 H1 : Bytes → Bytes) (e0 : Engine) (okey oiv keygen : Bytes)
    (img : Bytes) (otp cid : Option Bytes) (autoRaise : Bool) : Except Err State :=
  -- an OTP argument is processed before the header is read
  let early : Except Err Unit :=
    match (match otp with | some o => if o.isEmpty then none else some o | none => none) with
    | some o => (Engine.setupKeysFromOtp E D H256 e0 okey oiv keygen o).map fun _ => ()
    | none => .ok ()
  match early with
  | .error err => .error err
  | .ok _ =>
    match Header.fromBytes (slice img 0 0x200) with
    | .error err => .error err
    | .ok header =>
      let essential : Option (List Exefs.Entry) :=
        match Exefs.parse (slice img 0x200 0x200) with
        | .error _ => none
        | .ok es => if es.isEmpty then none else some es
      let twlIndex := findIndex header.table (· == .twl)
      let ctrIndex := findIndex header.table (fun b => b == .ctrOld || b == .ctrNew)
      match stageKeys E D H256 e0 okey oiv keygen img essential otp with
      | .error err => .error err
      | .ok eng =>
        match stageCounters E D H256 H1 eng img header twlIndex ctrIndex (stageCid img essential cid) with
        | .error err => .error err
        | .ok (counter, counterTwl) =>
          let s1 : State := ⟨header, essential, twlIndex, ctrIndex, counter, counterTwl, [], [], eng, img.length⟩
          match stageMbr E s1 img false with
          | .error err => .error err
          | .ok ctrParts =>
            match stageMbr E s1 img true with
            | .error err => .error err
            | .ok twlParts =>
              if autoRaise ∧ ctrParts.isEmpty then .error (.other "InvalidNANDError")
              else if autoRaise ∧ twlParts.isEmpty then .error (.other "InvalidNANDError")
              else .ok { s1 with ctrParts := ctrParts, twlParts := twlParts }

end Nand
end Pyctr
