/-
  C20 codecs: SMDH (application titles, flags, region lockout, icon tiling and colour expansion), the seed database and
  the config savegame.  Strings are lists of UTF-16 code units (Python's utf-16le codec is library semantics; a NUL code
  point is exactly a 0x0000 code unit, so `str.strip('\0')` is stripping zero units).
-/
import PyctrModel.Base.AFile
namespace Pyctr
namespace Smdh

abbrev U16s := List Nat          -- code units (< 65536)

def unitsOfBytes : Bytes → U16s
  | a :: b :: rest => (a.toNat + 256 * b.toNat) :: unitsOfBytes rest
  | _ => []

def bytesOfUnits : U16s → Bytes
  | [] => []
  | u :: rest => UInt8.ofNat (u % 256) :: UInt8.ofNat (u / 256) :: bytesOfUnits rest

/-- `str.strip('\0')` on code units -/
def stripZeros (u : U16s) : U16s := ((u.dropWhile (· == 0)).reverse.dropWhile (· == 0)).reverse

/-- is the unit sequence well-formed UTF-16 (no lone surrogates)?  Otherwise `decode` raises UnicodeDecodeError. -/
def validUtf16 : U16s → Bool
  | [] => true
  | u :: rest =>
    if 0xD800 ≤ u ∧ u < 0xDC00 then
      match rest with
      | v :: rest' => (0xDC00 ≤ v ∧ v < 0xE000) && validUtf16 rest'
      | [] => false
    else if 0xDC00 ≤ u ∧ u < 0xE000 then false
    else validUtf16 rest

structure AppTitle where
  short : U16s
  long : U16s
  publisher : U16s
  deriving Repr, DecidableEq

/-- one field of `AppTitle.from_bytes`: decode, strip NULs -/
def fieldOfBytes (raw : Bytes) : Except Err U16s :=
  let u := unitsOfBytes raw
  if raw.length % 2 ≠ 0 ∨ !validUtf16 u then .error (.other "UnicodeDecodeError") else .ok (stripZeros u)

def AppTitle.fromBytes (raw : Bytes) : Except Err AppTitle :=
  match fieldOfBytes (slice raw 0 0x80), fieldOfBytes (slice raw 0x80 0x100), fieldOfBytes (slice raw 0x180 0x80) with
  | .ok a, .ok b, .ok c => .ok ⟨a, b, c⟩
  | .error e, _, _ => .error e
  | _, .error e, _ => .error e
  | _, _, .error e => .error e

/-- `encode('utf-16le').ljust(width, b'\0')` -/
def fieldToBytes (u : U16s) (width : Nat) : Bytes := ljust (bytesOfUnits u) width

def AppTitle.toBytes (t : AppTitle) : Bytes :=
  fieldToBytes t.short 0x80 ++ fieldToBytes t.long 0x100 ++ fieldToBytes t.publisher 0x80

structure Flags where
  visible : Bool
  autoBoot : Bool
  allow3D : Bool
  requireEULA : Bool
  autoSave : Bool
  extendedBanner : Bool
  ratingRequired : Bool
  saveData : Bool
  recordUsage : Bool
  noSaveBackups : Bool
  new3DS : Bool
  deriving Repr, DecidableEq

def Flags.ofWord (w : Nat) : Flags :=
  ⟨w &&& 0x1 != 0, w &&& 0x2 != 0, w &&& 0x4 != 0, w &&& 0x8 != 0, w &&& 0x10 != 0, w &&& 0x20 != 0, w &&& 0x40 != 0,
   w &&& 0x80 != 0, w &&& 0x100 != 0, w &&& 0x400 != 0, w &&& 0x1000 != 0⟩

/-- the word a builder writes for a set of flags (3dbrew bit assignment) -/
def Flags.toWord (f : Flags) : Nat :=
  (if f.visible then 0x1 else 0) + (if f.autoBoot then 0x2 else 0) + (if f.allow3D then 0x4 else 0) +
  (if f.requireEULA then 0x8 else 0) + (if f.autoSave then 0x10 else 0) + (if f.extendedBanner then 0x20 else 0) +
  (if f.ratingRequired then 0x40 else 0) + (if f.saveData then 0x80 else 0) + (if f.recordUsage then 0x100 else 0) +
  (if f.noSaveBackups then 0x400 else 0) + (if f.new3DS then 0x1000 else 0)

structure Region where
  japan : Bool
  northAmerica : Bool
  europe : Bool
  australia : Bool
  china : Bool
  korea : Bool
  taiwan : Bool
  regionFree : Bool
  deriving Repr, DecidableEq

def Region.ofWord (w : Nat) : Region :=
  ⟨w &&& 0x1 != 0, w &&& 0x2 != 0, w &&& 0x4 != 0, w &&& 0x8 != 0, w &&& 0x10 != 0, w &&& 0x20 != 0, w &&& 0x40 != 0,
   w == 0x7FFFFFFF⟩

/-- a builder's word for a set of region bits (`free` = the region-free constant 0x7FFFFFFF) -/
def Region.toWord (bits : List Bool) (free : Bool) : Nat :=
  if free then 0x7FFFFFFF else (bits.zipIdx.map fun (b, i) => if b then 2 ^ i else 0).sum

/-- `rgb565_to_rgb888_tuple` -/
def rgb565 (n : Nat) : Nat × Nat × Nat :=
  ((((n >>> 11) &&& 0x1F) * 0xFF / 0x1F) &&& 0xFF, (((n >>> 5) &&& 0x3F) * 0xFF / 0x3F) &&& 0xFF, ((n &&& 0x1F) * 0xFF / 0x1F) &&& 0xFF)

/-- the pixel index (in pixels, before `* pixel_size`) of `(x, y)` in the tiled image of `width` -/
def tileIndex (x y width : Nat) : Nat :=
  ((((y >>> 3) * (width >>> 3) + (x >>> 3)) <<< 6) +
    ((x &&& 1) ||| ((y &&& 1) <<< 1) ||| ((x &&& 2) <<< 1) ||| ((y &&& 2) <<< 2) ||| ((x &&& 4) <<< 2) ||| ((y &&& 4) <<< 3)))

/-- specification: tiles of 8×8 in row-major order, Morton (Z) order inside a tile: bits x0 y0 x1 y1 x2 y2 -/
def mortonSpec (x y width : Nat) : Nat :=
  ((y / 8) * (width / 8) + x / 8) * 64 +
    (x % 2 + 2 * (y % 2) + 4 * (x / 2 % 2) + 8 * (y / 2 % 2) + 16 * (x / 4 % 2) + 32 * (y / 4 % 2))

/-- `load_tiled_rgb565_to_array(data, width, height)` -/
def loadTiled (data : Bytes) (width height : Nat) : List (List (Nat × Nat × Nat)) :=
  let px := data.length / width / height
  (List.range height).map fun y => (List.range width).map fun x =>
    rgb565 (readLE (slice data (tileIndex x y width * px) px))

/-- pixel position of a tiled index (inverse of the address map) -/
def untile (idx width : Nat) : Nat × Nat :=
  let tile := idx / 64
  let inner := idx % 64
  let xi := inner % 2 + 2 * (inner / 4 % 2) + 4 * (inner / 16 % 2)
  let yi := inner / 2 % 2 + 2 * (inner / 8 % 2) + 4 * (inner / 32 % 2)
  (8 * (tile % (width / 8)) + xi, 8 * (tile / (width / 8)) + yi)

/-- the specification-side tiler: RGB565 values `pix y x` stored in tile order, two bytes little-endian each -/
def tileImage (pix : Nat → Nat → Nat) (width height : Nat) : Bytes :=
  (List.range (width * height)).flatMap fun idx => toLE 2 (pix (untile idx width).2 (untile idx width).1)

end Smdh

namespace SeedDb

/-- entry `i` of the file (0x20 bytes at 0x10 + 0x20·i), possibly cut short by the end of the file -/
def rawEntry (f : Bytes) (i : Nat) : Bytes := slice f (0x10 + 0x20 * i) 0x20

/-- `_load_seeds_from_file_object`: entries (title id, seed) in file order; a file that ends before the announced count
    is an error (`none`) -/
def loadEntries (f : Bytes) : Option (List (Nat × Bytes)) :=
  let count := readLE (slice f 0 4)
  -- the loop stops at the first short entry, so it never runs more than |f| / 0x20 + 1 times
  let avail := (f.length - 0x10) / 0x20
  if count ≤ avail then
    some ((List.range count).map fun i => (readLE (slice (rawEntry f i) 0 8), slice (rawEntry f i) 8 0x10))
  else none

/-- dict update in insertion order -/
def dictSet (d : List (Nat × Bytes)) (k : Nat) (v : Bytes) : List (Nat × Bytes) :=
  if d.any (·.1 == k) then d.map (fun p => if p.1 == k then (k, v) else p) else d ++ [(k, v)]

/-- the entries that are stored before the loader gives up on a short file -/
def loadPrefix (f : Bytes) : List (Nat × Bytes) :=
  (List.range (min (readLE (slice f 0 4)) ((f.length - 0x10) / 0x20))).map fun i =>
    (readLE (slice (rawEntry f i) 0 8), slice (rawEntry f i) 8 0x10)

def load (db : List (Nat × Bytes)) (f : Bytes) : Except Err (List (Nat × Bytes)) :=
  match loadEntries f with
  | some es => .ok (es.foldl (fun d (k, v) => dictSet d k v) db)
  | none => .error (.other "InvalidSeedError")

/-- `save_seeddb`; `none` = OverflowError (an id that does not fit 8 bytes, more than 2^32 entries) -/
def save (db : List (Nat × Bytes)) : Option Bytes :=
  if db.length ≥ 2 ^ 32 ∨ db.any (fun p => p.1 ≥ 2 ^ 64) then none
  else some (toLE 4 db.length ++ zeros 12 ++ db.flatMap fun (k, v) => toLE 8 k ++ v ++ zeros 8)

end SeedDb

namespace ConfigSave

structure Block where
  id : Nat
  flags : Nat
  data : Bytes
  deriving Repr, DecidableEq

def saveSize : Nat := 0x8000

/-- the strict table: block id ↦ (flags, size) -/
def known : List (Nat × Nat × Nat) := [
  (0x00000000, 0xC, 2), (0x00010000, 0xC, 1), (0x00020000, 0xC, 308), (0x00030000, 0xC, 1), (0x00030001, 0xE, 8),
  (0x00030002, 0xC, 8), (0x00040000, 0xC, 16), (0x00040001, 0xC, 28), (0x00040002, 0xC, 18), (0x00040003, 0xC, 12),
  (0x00040004, 0xC, 28), (0x00050000, 0xC, 2), (0x00050001, 0xC, 2), (0x00050002, 0xC, 56), (0x00050003, 0xC, 32),
  (0x00050004, 0xC, 32), (0x00050005, 0xE, 32), (0x00050006, 0xC, 2), (0x00050007, 0xC, 4), (0x00050008, 0xC, 268),
  (0x00050009, 0xC, 8), (0x00060000, 0xC, 150), (0x00070000, 0xE, 532), (0x00070001, 0xE, 1), (0x00070002, 0xE, 8),
  (0x00080000, 0xC, 3072), (0x00080001, 0xC, 3072), (0x00080002, 0xC, 3072), (0x00090000, 0xE, 8), (0x00090001, 0xE, 8),
  (0x00090002, 0xE, 4), (0x000A0000, 0xE, 28), (0x000A0001, 0xE, 2), (0x000A0002, 0xE, 1), (0x000B0000, 0xE, 4),
  (0x000B0001, 0xE, 2048), (0x000B0002, 0xE, 2048), (0x000B0003, 0xE, 4), (0x000C0000, 0xE, 192), (0x000C0001, 0xE, 20),
  (0x000C0002, 0xE, 512), (0x000D0000, 0xE, 4), (0x000E0000, 0xE, 1), (0x000F0000, 0xC, 16), (0x000F0001, 0xC, 8),
  (0x000F0003, 0xC, 1), (0x000F0004, 0xC, 4), (0x000F0005, 0xC, 4), (0x000F0006, 0xC, 40), (0x00100000, 0xC, 2),
  (0x00100001, 0xC, 148), (0x00100002, 0xC, 1), (0x00100003, 0xC, 16), (0x00110000, 0xC, 4), (0x00110001, 0xC, 8),
  (0x00120000, 0xC, 8), (0x00130000, 0xE, 4), (0x00150000, 0xC, 4), (0x00150001, 0xC, 8), (0x00150002, 0xE, 4),
  (0x00160000, 0xE, 4), (0x00170000, 0xE, 4), (0x00180000, 0xC, 4), (0x00180001, 0xC, 24), (0x00190000, 0xC, 1)]

def knownOf (id : Nat) : Option (Nat × Nat) := (known.find? (·.1 == id)).map (·.2)

/-- the flags a `set_block` call stores: the given ones, else those of the existing block, else the table's -/
def resolveFlags (blocks : List Block) (id : Nat) (flags : Option Nat) (efl : Nat) : Nat :=
  match flags with
  | some f => f
  | none => match blocks.find? (·.id == id) with | some b => b.flags | none => efl

/-- `self.blocks[id] = BlockInfo(flags, data)` on an insertion-ordered dict -/
def put (blocks : List Block) (id fl : Nat) (data : Bytes) : List Block :=
  if blocks.any (·.id == id) then blocks.map (fun b => if b.id == id then ⟨id, fl, data⟩ else b) else blocks ++ [⟨id, fl, data⟩]

/-- `set_block(id, data, flags)` with `strict=True` -/
def setBlock (blocks : List Block) (id : Nat) (data : Bytes) (flags : Option Nat) : Except Err (List Block) :=
  match knownOf id with
  | none => .error (.other "InvalidBlockDataError")
  | some (efl, esz) =>
    if flags.isSome ∧ flags ≠ some efl then .error (.other "InvalidBlockDataError")
    else if data.length ≠ esz then .error (.other "InvalidBlockDataError")
    else
      let fl := resolveFlags blocks id flags efl
      if fl ≠ 0x8 ∧ fl ≠ 0xC ∧ fl ≠ 0xA ∧ fl ≠ 0xE then .error (.other "BlockFlagsNotAllowed")
      else .ok (put blocks id fl data)

/-- one iteration of the `to_bytes()` loop: state = (data offset, entry table so far, data area so far) -/
def toBytesStep (limit : Nat) (acc : Except Err (Nat × Bytes × Bytes)) (b : Block) : Except Err (Nat × Bytes × Bytes) :=
  match acc with
  | .error e => .error e
  | .ok (off, entries, datas) =>
    let sz := b.data.length
    if b.id ≥ 2 ^ 32 ∨ sz ≥ 2 ^ 16 ∨ b.flags ≥ 2 ^ 16 then .error (.other "OverflowError")
    else if sz > 4 then
      if off < sz ∨ off - sz < limit then .error (.other "OutOfSpaceConfigSaveError")
      else .ok (off - sz, entries ++ (toLE 4 b.id ++ toLE 4 (off - sz) ++ toLE 2 sz ++ toLE 2 b.flags), b.data ++ datas)
    else .ok (off, entries ++ (toLE 4 b.id ++ ljust b.data 4 ++ toLE 2 sz ++ toLE 2 b.flags), datas)

/-- `to_bytes()`: entries in dict order, data of blocks larger than 4 bytes packed downwards from the end of the file -/
def toBytes (blocks : List Block) : Except Err Bytes :=
  match blocks.foldl (toBytesStep (4 + blocks.length * 0xC)) (.ok (saveSize, [], [])) with
  | .error e => .error e
  | .ok (off, entries, datas) =>
    if blocks.length ≥ 2 ^ 16 ∨ off ≥ 2 ^ 16 then .error (.other "OverflowError")
    else
      let hdr := toLE 2 blocks.length ++ toLE 2 off ++ entries
      .ok (hdr ++ zeros (saveSize - datas.length - hdr.length) ++ datas)

/-- one iteration of the `load` loop: state = (end of the previous out-of-line data, blocks so far) -/
def loadStep (raw entries : Bytes) (dataOff : Nat) (acc : Except Err (Nat × List Block)) (x : Nat) : Except Err (Nat × List Block) :=
  match acc with
  | .error e => .error e
  | .ok (last, blocks) =>
    let b := slice entries (x * 0xC) 0xC
    let id := readLE (slice b 0 4)
    let sz := readLE (slice b 8 2)
    let fl := readLE (slice b 0xA 2)
    let off := readLE (slice b 4 4)
    let data := if sz > 4 then slice raw off sz else slice b 4 sz
    -- sanity_check_blk
    let chk : Except Err Nat :=
      if sz ≤ 4 then .ok last
      else if last < sz ∨ last - sz ≠ off ∨ last - sz < dataOff then .error (.other "InvalidConfigSaveError")
      else .ok (last - sz)
    match chk with
    | .error e => .error e
    | .ok last' =>
      match setBlock blocks id data (some fl) with
      | .error e => .error e
      | .ok bl => .ok (last', bl)

/-- `ConfigSaveReader.load` -/
def load (raw : Bytes) : Except Err (List Block) :=
  if raw.length ≠ saveSize then .error (.other "InvalidConfigSaveError")
  else
    let count := readLE (slice raw 0 2)
    let dataOff := readLE (slice raw 2 2)
    if 4 + 0xC * count > dataOff then .error (.other "InvalidConfigSaveError")
    else
      ((List.range count).foldl (loadStep raw (slice raw 4 (0xC * count)) dataOff) (.ok (saveSize, []))).map (·.2)

/-- `get_block(id)` -/
def getBlock (blocks : List Block) (id : Nat) : Except Err Block :=
  match blocks.find? (·.id == id) with
  | some b => .ok b
  | none => .error (.other "BlockIDNotFoundError")

/-- `s[:s.find('\0')]` on the decoded string (a NUL code point is exactly a zero unit) -/
def cutAtZero : Smdh.U16s → Smdh.U16s
  | [] => []
  | u :: r => if u = 0 then [] else u :: cutAtZero r

/-- `ConfigSaveBlockParser.username` (block 0x000A0000) -/
def usernameGet (blocks : List Block) : Except Err Smdh.U16s :=
  match getBlock blocks 0x000A0000 with
  | .error e => .error e
  | .ok b =>
    let u := Smdh.unitsOfBytes b.data
    if b.data.length % 2 ≠ 0 ∨ !Smdh.validUtf16 u then .error (.other "UnicodeDecodeError") else .ok (cutAtZero u)

/-- `username = value`: `value.encode('utf-16le').ljust(28, b'\0')`, then the strict `set_block` -/
def usernameSet (blocks : List Block) (value : Smdh.U16s) : Except Err (List Block) :=
  if !Smdh.validUtf16 value then .error (.other "UnicodeEncodeError")
  else setBlock blocks 0x000A0000 (ljust (Smdh.bytesOfUnits value) 28) none

/-- `user_time_offset` (block 0x00030001, 8 bytes little-endian) -/
def timeGet (blocks : List Block) : Except Err Nat := (getBlock blocks 0x00030001).map fun b => readLE b.data

def timeSet (blocks : List Block) (v : Int) : Except Err (List Block) :=
  if v < 0 ∨ v ≥ 2 ^ 64 then .error (.other "OverflowError") else setBlock blocks 0x00030001 (toLE 8 v.toNat) none

/-- `system_model` (block 0x000F0004): first byte, an enumeration of six models -/
def modelGet (blocks : List Block) : Except Err Nat :=
  match getBlock blocks 0x000F0004 with
  | .error e => .error e
  | .ok b =>
    match b.data with
    | [] => .error .indexError
    | m :: _ => if m.toNat ≤ 5 then .ok m.toNat else .error .valueError

/-- the setter keeps bytes 1-3 of an existing block -/
def modelSet (blocks : List Block) (v : Int) : Except Err (List Block) :=
  let old : Bytes := match getBlock blocks 0x000F0004 with | .ok b => b.data | .error _ => zeros 4
  if v < 0 ∨ v > 255 then .error .valueError
  else
    match old with
    | [] => .error .indexError
    | _ :: rest => setBlock blocks 0x000F0004 (UInt8.ofNat v.toNat :: rest) none

end ConfigSave
end Pyctr
