/-
  A reference encoder for the backward LZSS format of ExeFS `.code` — the counterpart of `Lzss.decompress`.

  pyctr has no compressor.  "Every input produced by a reference backward-LZSS compressor" is made precise here:
  a compressor chooses an uncompressed head `P`, a list of token groups (literals and back references, in the order the
  decoder meets them, i.e. from the END of the data towards its beginning) and some padding; `encodeFile` lays them out.
  `validB` is the (decidable) discipline every backward-LZSS compressor obeys: references point into data already
  decoded, field widths are respected, and the write pointer never overtakes the read pointer (decoding is in place).
  `Proofs/LzssRoundtrip.lean` proves `decompress (encodeFile P gs pad) = ok (P ++ expand gs [])` for every valid choice.
-/
import PyctrModel.Fmt.Lzss
namespace Pyctr
namespace Lzss

inductive Tok where
  | lit (b : UInt8)
  | ref (off len : Nat)        -- seg_off - 2 (12 bits), seg_len - 3 (4 bits)
deriving Repr, DecidableEq, Inhabited

def Tok.flag : Tok → Nat
  | .lit _ => 0
  | .ref _ _ => 1

/-- the bytes of a token in the order the decoder consumes them (downwards in the file) -/
def Tok.bytes : Tok → Bytes
  | .lit b => [b]
  | .ref off len => [UInt8.ofNat ((off + 4096 * len) / 256), UInt8.ofNat ((off + 4096 * len) % 256)]

def Tok.outLen : Tok → Nat
  | .lit _ => 1
  | .ref _ len => len + 3

/-- control byte of the tokens governed by bits `i-1, i-2, …` -/
def ctrlOf : List Tok → Nat → Nat
  | [], _ => 0
  | t :: ts, i => t.flag * 2 ^ (i - 1) + ctrlOf ts (i - 1)

def tokBytes (g : List Tok) : Bytes := g.flatMap Tok.bytes

/-- a group: its control byte, then its tokens (consumption order) -/
def groupBytes (g : List Tok) : Bytes := UInt8.ofNat (ctrlOf g 8) :: tokBytes g

def streamOf (gs : List (List Tok)) : Bytes := gs.flatMap groupBytes

/-- `seg_len` steps of `dec[ptr_out - 1] = dec[ptr_out + seg_off]` on the decoded tail -/
def copyOut (segOff : Nat) : Nat → Bytes → Bytes
  | 0, out => out
  | k + 1, out => copyOut segOff k (out.getD segOff 0 :: out)

def expandTok (out : Bytes) : Tok → Bytes
  | .lit b => b :: out
  | .ref off len => copyOut (off + 2) (len + 3) out

def expandGroup (out : Bytes) (g : List Tok) : Bytes := g.foldl expandTok out

/-- what the tokens stand for, given the already decoded tail `out` -/
def expand (gs : List (List Tok)) (out : Bytes) : Bytes := gs.foldl expandGroup out

def groupOut (g : List Tok) : Nat := (g.map Tok.outLen).sum
def totalOut (gs : List (List Tok)) : Nat := (gs.map groupOut).sum

/-- one token is admissible with `rem` stream bytes left *after* it and `ol` bytes decoded *before* it -/
def safeTok (T rem ol : Nat) : Tok → Bool
  | .lit _ => true
  | .ref off len => decide (off < 0x1000) && decide (len < 16) && decide (off + 2 < ol) && decide (rem + (ol + len + 3) ≤ T)

/-- tokens of one group; `tail` = stream bytes of the later groups -/
def safeGroup (T tail : Nat) : List Tok → Nat → Bool
  | [], _ => true
  | t :: ts, ol => safeTok T ((tokBytes ts).length + tail) ol t && safeGroup T tail ts (ol + t.outLen)

def safeGroups (T : Nat) : List (List Tok) → Nat → Bool
  | [], ol => decide (ol = T)
  | g :: gs, ol =>
    decide (1 ≤ g.length) && decide (g.length ≤ 8) && (gs.isEmpty || decide (g.length = 8))
      && decide ((streamOf (g :: gs)).length + ol ≤ T)
      && safeGroup T (streamOf gs).length g ol && safeGroups T gs (ol + groupOut g)

/-- the discipline of a backward-LZSS compressor (see the header comment) -/
def validB (P : Bytes) (gs : List (List Tok)) (pad : Nat) : Bool :=
  let T := totalOut gs
  let comp := (streamOf gs).length + 8 + pad
  safeGroups T gs 0 && decide (pad + 8 ≤ 0xFE) && decide (comp < 2 ^ 24) && decide (comp ≤ T)
    && decide (P.length + T ≤ codeMaxSize)

/-- the `.code` image: head, stream (stored backwards), 0xFF padding, 8-byte footer -/
def encodeFile (P : Bytes) (gs : List (List Tok)) (pad : Nat) : Bytes :=
  let S := streamOf gs
  let comp := S.length + 8 + pad
  P ++ S.reverse ++ List.replicate pad 0xFF ++ toLE 4 (comp + (8 + pad) * 2 ^ 24) ++ toLE 4 (totalOut gs - comp)

end Lzss
end Pyctr
