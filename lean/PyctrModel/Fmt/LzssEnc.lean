/-
  A reference encoder for the backward LZSS format of ExeFS `.code` — the counterpart of `Lzss.decompress`.

  pyctr has no compressor.  "Every input produced by a reference backward-LZSS compressor" is made precise here:
  a compressor chooses an uncompressed head `P`, a list of token groups (literals and back references, in the order the
  decoder meets them, i.e. from the END of the data towards its beginning) and some padding; `encodeFile` lays them out.
  `validB` is the (decidable) discipline every backward-LZSS compressor obeys: references point into data already
  decoded, field widths are respected, and the write pointer never overtakes the read pointer (decoding is in place).
  `Proofs/LzssRoundtrip.lean` proves `decompress (encodeFile P gs pad) = ok (P ++ expand gs [])` for every valid choice.
-/
import PyctrModel.Fmt.Lzss
namespace Pyctr
namespace Lzss

inductive Tok where
  | lit (b : UInt8)
  | ref (off len : Nat)        -- seg_off - 2 (12 bits), seg_len - 3 (4 bits)
deriving Repr, DecidableEq, Inhabited

def Tok.flag : Tok → Nat
  | .lit _ => 0
  | .ref _ _ => 1

/-- the bytes of a token in the order the decoder consumes them (downwards in the file) -/
def Tok.bytes : Tok → Bytes
  | .lit b => [b]
  | .ref off len => [UInt8.ofNat ((off + 4096 * len) / 256), UInt8.ofNat ((off + 4096 * len) % 256)]

def Tok.outLen : Tok → Nat
  | .lit _ => 1
  | .ref _ len => len + 3

/-- control byte of the tokens governed by bits `i-1, i-2, …` -/
def ctrlOf : List Tok → Nat → Nat
  | [], _ => 0
  | t :: ts, i => t.flag * 2 ^ (i - 1) + ctrlOf ts (i - 1)

def tokBytes (g : List Tok) : Bytes := g.flatMap Tok.bytes

/-- a group: its control byte, then its tokens (consumption order) -/
def groupBytes (g : List Tok) : Bytes := UInt8.ofNat (ctrlOf g 8) :: tokBytes g

def streamOf (gs : List (List Tok)) : Bytes := gs.flatMap groupBytes

/-- `seg_len` steps of `dec[ptr_out - 1] = dec[ptr_out + seg_off]` on the decoded tail -/
def copyOut (segOff : Nat) : Nat → Bytes → Bytes
  | 0, out => out
  | k + 1, out => copyOut segOff k (out.getD segOff 0 :: out)

def expandTok (out : Bytes) : Tok → Bytes
  | .lit b => b :: out
  | .ref off len => copyOut (off + 2) (len + 3) out

def expandGroup (out : Bytes) (g : List Tok) : Bytes := g.foldl expandTok out

/-- what the tokens stand for, given the already decoded tail `out` -/
def expand (gs : List (List Tok)) (out : Bytes) : Bytes := gs.foldl expandGroup out

def groupOut (g : List Tok) : Nat := (g.map Tok.outLen).sum
def totalOut (gs : List (List Tok)) : Nat := (gs.map groupOut).sum

/-- one token is admissible with `rem` stream bytes left *after* it and `ol` bytes decoded *before* it -/
def safeTok (T rem ol : Nat) : Tok → Bool
  | .lit _ => true
  | .ref off len => decide (off < 0x1000) && decide (len < 16) && decide (off + 2 < ol) && decide (rem + (ol + len + 3) ≤ T)

/-- tokens of one group; `tail` = stream bytes of the later groups -/
def safeGroup (T tail : Nat) : List Tok → Nat → Bool
  | [], _ => true
  | t :: ts, ol => safeTok T ((tokBytes ts).length + tail) ol t && safeGroup T tail ts (ol + t.outLen)

def safeGroups (T : Nat) : List (List Tok) → Nat → Bool
  | [], ol => decide (ol = T)
  | g :: gs, ol =>
    decide (1 ≤ g.length) && decide (g.length ≤ 8) && (gs.isEmpty || decide (g.length = 8))
      && decide ((streamOf (g :: gs)).length + ol ≤ T)
      && safeGroup T (streamOf gs).length g ol && safeGroups T gs (ol + groupOut g)

/-- the discipline of a backward-LZSS compressor (see the header comment) -/
def validB (P : Bytes) (gs : List (List Tok)) (pad : Nat) : Bool :=
  let T := totalOut gs
  let comp := (streamOf gs).length + 8 + pad
  safeGroups T gs 0 && decide (pad + 8 ≤ 0xFE) && decide (comp < 2 ^ 24) && decide (comp ≤ T)
    && decide (P.length + T ≤ codeMaxSize)

/-- the `.code` image: head, stream (stored backwards), 0xFF padding, 8-byte footer -/
def encodeFile (P : Bytes) (gs : List (List Tok)) (pad : Nat) : Bytes :=
  let S := streamOf gs
  let comp := S.length + 8 + pad
  P ++ S.reverse ++ List.replicate pad 0xFF ++ toLE 4 (comp + (8 + pad) * 2 ^ 24) ++ toLE 4 (totalOut gs - comp)

/-! ### a certifying reference compressor

  Greedy longest-match tokenisation from the end of the data (distance 3…0x1002, length 3…18), then the longest token
  prefix that can be decoded in place.  Whatever the match finder proposes is CHECKED (`validB` and "the tokens stand for
  the data") before an image is produced, so `decompress (compress x) = x` follows from the round-trip theorem without
  any reasoning about the match finder. -/

/-- length of the match between `x[q - k]` and `x[q - k + d]`, `k = 0, 1, …`, capped at 18 -/
def matchLen (x : Array UInt8) (q d : Nat) : Nat → Nat → Nat
  | 0, ln => ln
  | fuel + 1, ln =>
    if ln < 18 ∧ ln ≤ q ∧ x.getD (q - ln) 0 = x.getD (q - ln + d) 0 ∧ q - ln + d < x.size then matchLen x q d fuel (ln + 1) else ln

/-- best (distance, length) for position `q`: the first distance with the greatest length ≥ 3, stopping at length 18 -/
def bestMatch (x : Array UInt8) (q maxd : Nat) : Nat → Nat → Option (Nat × Nat) → Option (Nat × Nat)
  | 0, _, best => best
  | fuel + 1, d, best =>
    if d > maxd then best
    else
      let ln := matchLen x q d 18 0
      let better : Bool := match best with | none => true | some (_, bl) => decide (ln > bl)
      let best' := if decide (ln ≥ 3) && better then some (d, ln) else best
      if ln = 18 ∧ best' = some (d, ln) then best' else bestMatch x q maxd fuel (d + 1) best'

/-- tokens in decoding order; `q + 1` bytes remain to be covered -/
def tokensFrom (x : Array UInt8) : Nat → Nat → List Tok → List Tok
  | 0, _, acc => acc.reverse
  | fuel + 1, q1, acc =>
    if q1 = 0 then acc.reverse
    else
      let q := q1 - 1
      let maxd := min 0x1002 (x.size - 1 - q)
      match bestMatch x q maxd 0x1000 3 none with
      | some (d, ln) => tokensFrom x fuel (q1 - ln) (.ref (d - 3) (ln - 3) :: acc)
      | none => tokensFrom x fuel (q1 - 1) (.lit (x.getD q 0) :: acc)

def groupsOf : List Tok → List (List Tok)
  | [] => []
  | t :: ts => (t :: ts.take 7) :: groupsOf (ts.drop 7)
termination_by l => l.length
decreasing_by simp; omega

/-- the image for the token prefix of length `j`, if that choice is a disciplined one that stands for `x` -/
def tryCut (x : Bytes) (toks : List Tok) (pad j : Nat) : Option Bytes :=
  let gs := groupsOf (toks.take j)
  let P := x.take (x.length - totalOut gs)
  if validB P gs pad && (P ++ expand gs [] == x) then some (encodeFile P gs pad) else none

/-- `compress x pad`: the image with the most tokens compressed, or `none` when nothing can be gained -/
def compress (x : Bytes) (pad : Nat) : Option Bytes :=
  let toks := tokensFrom x.toArray (x.length + 1) x.length []
  ((List.range toks.length).reverse.map (· + 1)).findSome? (tryCut x toks pad)

end Lzss
end Pyctr
