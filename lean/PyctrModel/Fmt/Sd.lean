/-
  SD card crypto: `CryptoEngine.sd_path_to_iv`, `setup_sd_key`, ID0.  `lower` is `str.lower`, `H` SHA-256 (parameters).
-/
import PyctrModel.Fmt.Romfs
import PyctrModel.Engine.Engine
namespace Pyctr
namespace Sd

/-- a Python `str`: a list of Unicode code points (NOT UTF-16 units: `len`, slicing and the alias guard count code points) -/
abbrev Str := List Nat

/-- `s.encode('utf-16le')`: one unit per BMP code point, a surrogate pair above it -/
def encodeUtf16 (s : Str) : Bytes :=
  s.flatMap fun cp =>
    if cp < 0x10000 then [UInt8.ofNat (cp % 256), UInt8.ofNat (cp / 256)]
    else
      let v := cp - 0x10000
      let hi := 0xD800 + v / 0x400
      let lo := 0xDC00 + v % 0x400
      [UInt8.ofNat (hi % 256), UInt8.ofNat (hi / 256), UInt8.ofNat (lo % 256), UInt8.ofNat (lo / 256)]

/-- `path.replace('\\', '/')` -/
def fwd (p : Str) : Str := p.map fun c => if c == 0x5C then 0x2F else c

def startsWith (p pre : Str) : Bool := p.take pre.length == pre

def strBackup : Str := [0x2F, 0x62, 0x61, 0x63, 0x6B, 0x75, 0x70]                  -- "/backup"
def strTitle : Str := [0x2F, 0x74, 0x69, 0x74, 0x6C, 0x65, 0x2F]                   -- "/title/"
def strData : Str := [0x2F, 0x64, 0x61, 0x74, 0x61]                                -- "/data"

/-- the SD Save Data Backup aliasing of `sd_path_to_iv` -/
def remap (p : Str) : Str :=
  if startsWith p strBackup && p.length > 28 then
    strTitle ++ (p.drop 12).take 8 ++ [0x2F] ++ (p.drop 20).take 8 ++ strData ++ p.drop 28
  else p

/-- the counter of a normalised path: SHA-256 of the NUL-terminated UTF-16LE path, halves XORed, big-endian -/
def ivOfNormalised (H : Bytes → Bytes) (p : Str) : Nat :=
  let h := H (encodeUtf16 p ++ [0, 0])
  readBE (slice h 0 16) ^^^ readBE (slice h 16 16)

/-- `sd_path_to_iv(path)` -/
def sdIv (lower : Str → Str) (H : Bytes → Bytes) (path : Str) : Nat :=
  ivOfNormalised H (remap (fwd (lower path)))

/-- `setup_sd_key(data)`: the KeyY (three accepted lengths) -/
def sdKeyOf (data : Bytes) : Except Err Bytes :=
  if data.length = 0x10 then .ok data
  else if data.length = 0x120 ∨ data.length = 0x140 then .ok (slice data 0x110 0x10)
  else .error (.other "BadMovableSedError")

/-- ID0: the four little-endian words of SHA-256(key)[:16] re-packed big-endian -/
def id0Of (H : Bytes → Bytes) (key : Bytes) : Bytes :=
  let h := slice (H key) 0 16
  (List.range 4).flatMap fun w => toBE 4 (readLE (slice h (4 * w) 4))

def setupSdKey (H : Bytes → Bytes) (e : Engine) (data : Bytes) : Except Err (Engine × Bytes) :=
  match sdKeyOf data with
  | .error err => .error err
  | .ok key =>
    let e := e.setKeyslotBytes false 0x34 key true
    let e := e.setKeyslotBytes false 0x30 key true
    let e := e.setKeyslotBytes false 0x3A key true
    .ok (e, id0Of H key)

/-- the key set-up of `SDFilesystem.__init__` / `SDRoot.__init__`: an SD key given as bytes (`sd_key`, when non-empty) has
    priority over a movable.sed file (`sd_key_file`, here its content), which has priority over what the engine already holds
    (`held` = the engine's ID0, `none` → `MissingMovableSedError`).  Whatever source is used REPLACES the engine's SD KeyY. -/
def rootKey (H : Bytes → Bytes) (e : Engine) (held : Option Bytes) (sdKey : Bytes) (file : Option Bytes) : Except Err (Engine × Bytes) :=
  if sdKey ≠ [] then setupSdKey H e sdKey
  else match file with
    | some d => setupSdKey H e d
    | none =>
      match held with
      | some i => .ok (e, i)
      | none => .error (.other "MissingMovableSedError")

end Sd
end Pyctr
