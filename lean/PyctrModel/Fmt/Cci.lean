/-
  CCI (NCSD cartridge image) header: `CCIReader.__init__`; CDN / SD-title content selection.
-/
import PyctrModel.Fmt.Tmd
import PyctrModel.Engine.Engine
namespace Pyctr
namespace Cci

structure Part where
  index : Nat        -- partition number 0-7
  offset : Nat
  size : Nat
  deriving Repr, DecidableEq

structure State where
  mediaId : Bytes      -- 8 bytes as stored (little-endian)
  imageSize : Nat
  parts : List Part
  deriving Repr

def le (h : Bytes) (a n : Nat) : Nat := readLE (slice h a n)

/-- partitions with a non-zero offset, in table order -/
def partsOf (header : Bytes) : List Part :=
  (List.range 8).filterMap fun i =>
    let off := le header (0x20 + 8 * i) 4 * 0x200
    let size := le header (0x24 + 8 * i) 4 * 0x200
    if off ≠ 0 then some ⟨i, off, size⟩ else none

/-- `CCIReader.__init__` on the underlying file, the image starting at `start` -/
def parse (file : Bytes) (start : Nat) : Except Err State :=
  let header := slice file (start + 0x100) 0x100
  if slice header 0 4 ≠ [0x4E, 0x43, 0x53, 0x44] then .error (.other "InvalidCCIError")
  else if slice header 8 8 == zeros 8 then .error (.other "InvalidCCIError")
  else .ok ⟨slice header 8 8, le header 4 4 * 0x200, partsOf header⟩

/-- specification: the NCSD header of a cartridge image (signature is opaque) -/
def buildHeader (sig : Bytes) (mediaId : Bytes) (imageUnits : Nat) (table : List (Nat × Nat)) (rest : Bytes) : Bytes :=
  packSig sig ++ [0x4E, 0x43, 0x53, 0x44] ++ toLE 4 imageUnits ++ mediaId.take 8 ++ zeros (8 - mediaId.length) ++ zeros 0x10 ++
    (table.flatMap fun (o, s) => toLE 4 o ++ toLE 4 s) ++ rest
where packSig (s : Bytes) : Bytes := s.take 0x100 ++ zeros (0x100 - s.length)

end Cci

namespace Cdn

/-- the content file chosen for a TMD record: the lower-case name, else the upper-case one, else none -/
def chooseFile (isfile : Bytes → Bool) (lower upper : Bytes) : Option Bytes :=
  if isfile lower then some lower else if isfile upper then some upper else none

/-- `content_info`: records whose file exists, in TMD order, with the chosen file name -/
def select (isfile : Bytes → Bool) (names : Tmd.ChunkRecord → Bytes × Bytes) (records : List Tmd.ChunkRecord) :
    List (Tmd.ChunkRecord × Bytes) :=
  records.filterMap fun r => (chooseFile isfile (names r).1 (names r).2).map fun f => (r, f)

/-- how `CDNReader.__init__` obtains the title key: `decrypted_titlekey` when truthy, else the encrypted `titlekey` when
    truthy (with `common_key_index`), else the first 0x2AC bytes of the file `cetk` next to the tmd (`none`: no such file) -/
def setupKey (D : Bytes → Bytes → Bytes) (e : Engine) (titleId dec enc : Bytes) (idx : Nat) (cetk : Option Bytes) :
    Engine × Option Err :=
  if dec ≠ [] then (e.setNormal 0x40 dec, none)
  else if enc ≠ [] then Engine.loadEncryptedTitlekey D e enc idx titleId
  else match cetk with
    | none => (e, some (.other "ResourceNotFound"))
    | some t => Engine.loadFromTicket D e (t.take 0x2AC)

end Cdn

namespace SdTitle

/-- the content loop of `SDTitleReader`: `<id>.app` missing -> `continue`, else the record is appended -/
def select (isfile : Bytes → Bool) (name : Tmd.ChunkRecord → Bytes) (records : List Tmd.ChunkRecord) : List Tmd.ChunkRecord :=
  records.foldl (fun acc r => if !isfile (name r) then acc else acc ++ [r]) []

end SdTitle
end Pyctr
