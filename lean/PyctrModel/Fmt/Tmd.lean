/-
  Title metadata: `TitleMetadataReader.load` / `__bytes__` of pyctr.type.tmd.
  `H` is SHA-256 (a parameter in theorems).
-/
import PyctrModel.Base.AFile
namespace Pyctr
namespace Tmd

/-- signature type ↦ (signature size, padding) -/
def sigInfo (t : Nat) : Option (Nat × Nat) :=
  if t = 0x10000 then some (0x200, 0x3C) else if t = 0x10001 then some (0x100, 0x3C)
  else if t = 0x10002 then some (0x3C, 0x40) else if t = 0x10003 then some (0x200, 0x3C)
  else if t = 0x10004 then some (0x100, 0x3C) else if t = 0x10005 then some (0x3C, 0x40) else none

structure TypeFlags where
  encrypted : Bool
  disc : Bool
  cfm : Bool
  optional : Bool
  shared : Bool
  deriving Repr, DecidableEq

def TypeFlags.toInt (f : TypeFlags) : Nat :=
  f.encrypted.toNat ||| (f.disc.toNat <<< 1) ||| (f.cfm.toNat <<< 2) ||| (f.optional.toNat <<< 14) |||
    (f.shared.toNat <<< 15)

def TypeFlags.ofInt (w : Nat) : TypeFlags :=
  ⟨w &&& 1 != 0, w &&& 2 != 0, w &&& 4 != 0, w &&& 0x4000 != 0, w &&& 0x8000 != 0⟩

structure Version where
  major : Nat
  minor : Nat
  micro : Nat
  deriving Repr, DecidableEq

def Version.toInt (v : Version) : Nat := (v.major <<< 10) ||| (v.minor <<< 4) ||| v.micro
def Version.ofInt (w : Nat) : Version := ⟨(w >>> 10) &&& 0x3F, (w >>> 4) &&& 0x3F, w &&& 0xF⟩

structure InfoRecord where
  indexOffset : Nat
  commandCount : Nat
  hash : Bytes
  deriving Repr, DecidableEq

def InfoRecord.bytes (r : InfoRecord) : Bytes := toBE 2 r.indexOffset ++ toBE 2 r.commandCount ++ r.hash

structure ChunkRecord where
  id : Bytes            -- 4 bytes (the code keeps the hex string)
  cindex : Nat
  type : TypeFlags
  size : Nat
  hash : Bytes
  deriving Repr, DecidableEq

def ChunkRecord.bytes (r : ChunkRecord) : Bytes :=
  r.id ++ toBE 2 r.cindex ++ toBE 2 r.type.toInt ++ toBE 8 r.size ++ r.hash

def ChunkRecord.ofBytes (b : Bytes) : ChunkRecord :=
  ⟨slice b 0 4, readBE (slice b 4 2), TypeFlags.ofInt (readBE (slice b 6 2)), readBE (slice b 8 8), slice b 16 32⟩

structure T where
  sigType : Nat
  signature : Bytes
  issuer : Bytes          -- ASCII, trailing NULs stripped
  version : Nat           -- _u_version
  caCrl : Nat
  signerCrl : Nat
  reserved1 : Nat
  systemVersion : Bytes   -- 8
  titleId : Bytes         -- 8
  titleType : Bytes       -- 4
  groupId : Bytes         -- 2
  saveSize : Nat
  srlSaveSize : Nat
  reserved2 : Bytes       -- 4
  srlFlag : Nat
  reserved3 : Bytes       -- 0x31
  accessRights : Bytes    -- 4
  titleVersion : Version
  bootCount : Bytes       -- 2
  padding : Bytes         -- 2
  infoRecords : List InfoRecord
  chunkRecords : List ChunkRecord
  deriving Repr, DecidableEq

def rstripNul (b : Bytes) : Bytes := (b.reverse.dropWhile (· == 0)).reverse

/-- `struct.pack('Ns', b)`: truncate or NUL-pad to exactly N bytes -/
def packS (n : Nat) (b : Bytes) : Bytes := b.take n ++ zeros (n - b.length)

def infoBlock (rs : List InfoRecord) : Bytes :=
  let j := rs.flatMap InfoRecord.bytes
  j ++ zeros (0x900 - j.length)       -- .ljust(0x900, b'\0')

/-- the byte segments `__bytes__` concatenates (signature data, the packed header, info block, chunk records) -/
def segments (H : Bytes → Bytes) (t : T) (sz pad : Nat) : List Bytes :=
  let info := infoBlock t.infoRecords
  [toBE 4 t.sigType, packS sz t.signature, zeros pad,
   packS 64 t.issuer, [UInt8.ofNat t.version], [UInt8.ofNat t.caCrl], [UInt8.ofNat t.signerCrl],
   [UInt8.ofNat t.reserved1], packS 8 t.systemVersion, packS 8 t.titleId, packS 4 t.titleType, packS 2 t.groupId,
   toLE 4 t.saveSize, toLE 4 t.srlSaveSize, packS 4 t.reserved2, [UInt8.ofNat t.srlFlag],
   packS 49 t.reserved3, packS 4 t.accessRights, toBE 2 t.titleVersion.toInt,
   toBE 2 t.chunkRecords.length, packS 2 t.bootCount, packS 2 t.padding, packS 32 (H info),
   info, t.chunkRecords.flatMap ChunkRecord.bytes]

/-- the `struct.pack` / `int.to_bytes` range conditions of `__bytes__` -/
def packable (t : T) : Prop :=
  t.version < 256 ∧ t.caCrl < 256 ∧ t.signerCrl < 256 ∧ t.reserved1 < 256 ∧ t.srlFlag < 256 ∧
  t.saveSize < 2 ^ 32 ∧ t.srlSaveSize < 2 ^ 32 ∧ t.titleVersion.toInt < 2 ^ 16 ∧ t.chunkRecords.length < 2 ^ 16

instance (t : T) : Decidable (packable t) := by unfold packable; infer_instance

/-- `__bytes__`; `none` = struct.error / OverflowError (a field out of range for its format) -/
def serialize (H : Bytes → Bytes) (t : T) : Option Bytes :=
  match sigInfo t.sigType with
  | none => none
  | some (sz, pad) => if packable t then some (segments H t sz pad).flatten else none

def chunkList (raw : Bytes) : Nat → Nat → List ChunkRecord
  | 0, _ => []
  | n+1, i => ChunkRecord.ofBytes (slice raw (0x30 * i) 0x30) :: chunkList raw n (i + 1)

def infoList (raw : Bytes) : Nat → Nat → List InfoRecord
  | 0, _ => []
  | n+1, i =>
    let r := slice raw (0x24 * i) 0x24
    if r == zeros 0x24 then infoList raw n (i + 1)
    else ⟨readBE (slice r 0 2), readBE (slice r 2 2), slice r 4 32⟩ :: infoList raw n (i + 1)

/-- the per-info-record hash check with the "hashed twice" set -/
def verifyInfo (H : Bytes → Bytes) (chunks : List ChunkRecord) :
    List InfoRecord → List ChunkRecord → Except Err Unit
  | [], _ => .ok ()
  | ir :: rest, hashed =>
    let covered := (chunks.drop ir.indexOffset).take ir.commandCount
    -- the duplicate check runs record by record; a duplicate inside `covered` itself counts too
    let rec dupCheck : List ChunkRecord → List ChunkRecord → Option (List ChunkRecord)
      | [], h => some h
      | c :: cs, h => if h.contains c then none else dupCheck cs (c :: h)
    match dupCheck covered hashed with
    | none => .error (.other "InvalidTMDError")
    | some hashed' =>
      if H (covered.flatMap ChunkRecord.bytes) != ir.hash then .error (.other "InvalidInfoRecordError")
      else verifyInfo H chunks rest hashed'

/-- `TitleMetadataReader.load(fp, verify_hashes)` on the whole file content -/
def load (H : Bytes → Bytes) (verify : Bool) (b : Bytes) : Except Err T :=
  let sigType := readBE (slice b 0 4)
  match sigInfo sigType with
  | none => .error (.other "InvalidSignatureTypeError")
  | some (sz, pad) =>
    let signature := slice b 4 sz
    let h0 := 4 + sz + pad
    let header := slice b h0 0xC4
    if header.length ≠ 0xC4 then .error (.other "InvalidTMDError")
    else
      let contentCount := readBE (slice header 0x9E 2)
      let infoRaw := slice b (h0 + 0xC4) 0x900
      if infoRaw.length ≠ 0x900 then .error (.other "InvalidTMDError")
      else if verify && H infoRaw != slice header 0xA4 0x20 then .error (.other "InvalidHashError")
      else
        let chunkRaw := slice b (h0 + 0xC4 + 0x900) (contentCount * 0x30)
        let chunks := chunkList chunkRaw contentCount 0
        let infos := infoList infoRaw 64 0
        match (if verify then verifyInfo H chunks infos [] else .ok ()) with
        | .error e => .error e
        | .ok () =>
          if (slice header 0 0x40).any (· ≥ 0x80) then .error (.other "UnicodeDecodeError")
          else .ok {
            sigType := sigType, signature := signature,
            issuer := rstripNul (slice header 0 0x40),
            version := (header.getD 0x40 0).toNat, caCrl := (header.getD 0x41 0).toNat,
            signerCrl := (header.getD 0x42 0).toNat, reserved1 := (header.getD 0x43 0).toNat,
            systemVersion := slice header 0x44 8, titleId := slice header 0x4C 8,
            titleType := slice header 0x54 4, groupId := slice header 0x58 2,
            saveSize := readLE (slice header 0x5A 4), srlSaveSize := readLE (slice header 0x5E 4),
            reserved2 := slice header 0x62 4, srlFlag := (header.getD 0x66 0).toNat,
            reserved3 := slice header 0x67 0x31, accessRights := slice header 0x98 4,
            titleVersion := Version.ofInt (readBE (slice header 0x9C 2)),
            bootCount := slice header 0xA0 2, padding := slice header 0xA2 2,
            infoRecords := infos, chunkRecords := chunks }

end Tmd
end Pyctr
