/-
  ExeFS header: `ExeFSReader.__init__`, `_normalize_path`, and the specification-side builder.
  Names are ASCII byte strings (the code decodes them with the 'ascii' codec).
-/
import PyctrModel.Base.AFile
namespace Pyctr
namespace Exefs

structure Entry where
  name : Bytes
  offset : Nat
  size : Nat
  hash : Bytes
  deriving Repr, DecidableEq

/-- `bytes.rstrip(b'\0')` -/
def rstripNul (b : Bytes) : Bytes := (b.reverse.dropWhile (· == 0)).reverse

/-- one 16-byte slot `i` of the header with its hash (hashes are stored in reverse order from 0x1E0 down) -/
def parseSlot (header : Bytes) (i : Nat) : Except Err (Option Entry) :=
  let raw := slice header (16 * i) 16
  let hash := slice header (0x1E0 - 0x20 * i) 0x20
  if raw == zeros 16 then .ok none
  else
    let name := rstripNul (slice raw 0 8)
    if name.any (· ≥ 0x80) then .error (.other "ExeFSNameError")
    else
      let off := readLE (slice raw 8 4)
      let size := readLE (slice raw 12 4)
      if off % 0x200 ≠ 0 then .error (.other "BadOffsetError")
      else .ok (some ⟨name, off, size, hash⟩)

/-- `self.entries[name] = entry` on an insertion-ordered dict -/
def dictInsert (l : List Entry) (e : Entry) : List Entry :=
  if l.any (·.name == e.name) then l.map (fun x => if x.name == e.name then e else x) else l ++ [e]

def parseFrom (header : Bytes) : Nat → Nat → List Entry → Except Err (List Entry)
  | 0, _, acc => .ok acc
  | n+1, i, acc =>
    match parseSlot header i with
    | .error e => .error e
    | .ok none => parseFrom header n (i + 1) acc
    | .ok (some e) => parseFrom header n (i + 1) (dictInsert acc e)

/-- `ExeFSReader.__init__` on the first 0x200 bytes -/
def parse (header : Bytes) : Except Err (List Entry) := parseFrom header 10 0 []

/-- ASCII lower-casing -/
def lowerAscii (b : UInt8) : UInt8 := if 0x41 ≤ b ∧ b ≤ 0x5A then b + 0x20 else b

def dotBin : Bytes := [0x2E, 0x62, 0x69, 0x6E]

def endsWith (p s : Bytes) : Bool := s.length ≤ p.length && p.drop (p.length - s.length) == s

/-- `_normalize_path` (ASCII paths): drop one leading '/', then drop a trailing '.bin' (case-insensitive) -/
def stripSlash (p : Bytes) : Bytes := if p.head? == some 0x2F then p.drop 1 else p

def stripBin (p : Bytes) : Bytes := if endsWith (p.map lowerAscii) dotBin then pySlice p 0 (-4) else p

def normalize (p : Bytes) : Bytes := stripBin (stripSlash p)

/-- `open(path)`: the entry the (normalised) name resolves to -/
def lookup (es : List Entry) (path : Bytes) (norm : Bool := true) : Except Err Entry :=
  let p := if norm then normalize path else path
  match es.find? (·.name == p) with
  | some e => .ok e
  | none => .error (.other "ExeFSFileNotFoundError")

/-! specification side: what a well-formed ExeFS header is -/

def encodeSlot : Option Entry → Bytes
  | none => zeros 16
  | some e => e.name ++ zeros (8 - e.name.length) ++ toLE 4 e.offset ++ toLE 4 e.size

def hashOf : Option Entry → Bytes
  | none => zeros 32
  | some e => e.hash

/-- a header from a table of exactly ten optional slots -/
def build (table : List (Option Entry)) : Bytes :=
  (table.flatMap encodeSlot) ++ zeros 0x20 ++ (table.reverse.flatMap hashOf)

end Exefs
end Pyctr
