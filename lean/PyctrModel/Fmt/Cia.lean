/-
  CIA archive: `CIAReader.__init__` (geometry, content index, ticket, TMD, content selection) and `open_raw_section`.
-/
import PyctrModel.Engine.Engine
import PyctrModel.Fmt.Tmd
namespace Pyctr
namespace Cia

structure Region where
  sec : Int              -- negative = header parts (ArchiveHeader -4 … Meta -5), non-negative = content index
  offset : Nat
  size : Nat
  iv : Option Bytes
  deriving Repr, DecidableEq

/-- the set of active contents encoded by the content index: bit `0x80 >>> (i % 8)` of byte `i / 8` (MSB first) -/
def activeContents (index : Bytes) : List Nat :=
  let arr := index.toArray
  (List.range (8 * index.length)).filter fun i => (arr.getD (i / 8) 0) &&& (0x80 >>> (i % 8).toUInt8) != 0

/-- the content index that marks exactly the contents in `s` (all below 0x10000) -/
def mkByte (f : Nat → Bool) : UInt8 :=
  (if f 0 then 0x80 else 0) ||| (if f 1 then 0x40 else 0) ||| (if f 2 then 0x20 else 0) ||| (if f 3 then 0x10 else 0) |||
  (if f 4 then 0x08 else 0) ||| (if f 5 then 0x04 else 0) ||| (if f 6 then 0x02 else 0) ||| (if f 7 then 0x01 else 0)

def encodeIndex (s : List Nat) : Bytes :=
  (List.range 0x2000).map fun j => mkByte fun b => s.contains (8 * j + b)

structure State where
  sections : List Region        -- insertion order of `self.sections`
  totalSize : Nat
  tmd : Tmd.T
  contentInfo : List Tmd.ChunkRecord
  engine : Engine

def le (h : Bytes) (a n : Nat) : Nat := readLE (slice h a n)

def setRegion (l : List Region) (r : Region) : List Region :=
  if l.any (·.sec == r.sec) then l.map (fun x => if x.sec == r.sec then r else x) else l ++ [r]

/-- regions of the selected contents: consecutive from `content_offset`, IV = content index (big-endian) ++ 0^14
    when the record's type says encrypted -/
def contentRegions : List Tmd.ChunkRecord → Nat → List Region → List Region
  | [], _, acc => acc
  | r :: rest, cur, acc =>
    let iv := if r.type.encrypted then some (toBE 2 r.cindex ++ zeros 14) else none
    contentRegions rest (cur + r.size) (setRegion acc ⟨(r.cindex : Int), cur, r.size, iv⟩)

/-- `CIAReader.__init__` (without loading the nested readers) -/
def parse (H : Bytes → Bytes) (D : Bytes → Bytes → Bytes) (eng : Engine) (file : Bytes) (start : Nat) :
    Except Err State :=
  let header := slice file start 0x20
  let ahs := le header 0 4
  if ahs ≠ 0x2020 then .error (.other "InvalidCIAError")
  else
    let certSize := le header 0x8 4
    let ticketSize := le header 0xC 4
    let tmdSize := le header 0x10 4
    let metaSize := le header 0x14 4
    let contentSize := le header 0x18 8
    let index := slice file (start + 0x20) (ahs - 0x20)
    let active := activeContents index
    let certOff := roundupNat ahs 64
    let ticketOff := certOff + roundupNat certSize 64
    let tmdOff := ticketOff + roundupNat ticketSize 64
    let contentOff := tmdOff + roundupNat tmdSize 64
    let metaOff := contentOff + roundupNat contentSize 64
    let secs : List Region := [⟨-4, 0, ahs, none⟩, ⟨-3, certOff, certSize, none⟩, ⟨-2, ticketOff, ticketSize, none⟩,
                               ⟨-1, tmdOff, tmdSize, none⟩]
    let secs := if metaSize ≠ 0 then secs ++ [⟨-5, metaOff, metaSize, none⟩] else secs
    -- ticket (a SubsectionIO window read to its end)
    let ticket := slice (slice file (start + ticketOff) ticketSize) 0 ticketSize
    match Engine.loadFromTicket D eng ticket with
    | (_, some e) => .error e
    | (eng, none) =>
      match Tmd.load H true (slice file (start + tmdOff) tmdSize) with
      | .error e => .error e
      | .ok tmd =>
        let info := tmd.chunkRecords.filter fun r => active.contains r.cindex
        let activeTmd := (tmd.chunkRecords.map (·.cindex)).filter fun c => active.contains c
        -- `active_contents ^ active_contents_tmd` non-empty
        if active.any (fun c => !activeTmd.contains c) then .error (.other "InvalidCIAError")
        else
          .ok { sections := contentRegions info contentOff secs, totalSize := metaOff + metaSize, tmd := tmd,
                contentInfo := info, engine := eng }

/-- `open_raw_section`: the window, and the CBC parameters when the region has an IV -/
def openRaw (s : State) (start : Nat) (sec : Int) : Except Err (Nat × Nat × Option (Bytes × Bytes)) :=
  match s.sections.find? (·.sec == sec) with
  | none => .error .keyError
  | some r =>
    match r.iv with
    | none => .ok (start + r.offset, r.size, none)
    | some iv =>
      match s.engine.cipherKey 0x40 with
      | .ok k => .ok (start + r.offset, r.size, some (k, iv))
      | .error e => .error e

end Cia
end Pyctr
