/-
  L4: SHA-256 and SHA-1 (FIPS 180-4) in Lean; executable, validated against hashlib every run.
  In theorems the hash is a parameter `H : Bytes → Bytes`.
-/
import PyctrModel.Base.Bytes
import PyctrModel.Prim.Tables
namespace Pyctr.Prim

def rotr32 (x : UInt32) (n : UInt32) : UInt32 := (x >>> n) ||| (x <<< (32 - n))
def rotl32 (x : UInt32) (n : UInt32) : UInt32 := (x <<< n) ||| (x >>> (32 - n))

def be32 (a : Array UInt8) (i : Nat) : UInt32 :=
  (a[i]!.toUInt32 <<< 24) ||| (a[i+1]!.toUInt32 <<< 16) ||| (a[i+2]!.toUInt32 <<< 8) ||| a[i+3]!.toUInt32

def u32be (x : UInt32) : List UInt8 :=
  [(x >>> 24).toUInt8, (x >>> 16).toUInt8, (x >>> 8).toUInt8, x.toUInt8]

/-- message padding: 0x80, zeros, 64-bit big-endian bit length -/
def mdPad (d : Bytes) : Array UInt8 :=
  let l := d.length
  let zeros := (55 + 64 - l % 64) % 64
  (d ++ [0x80] ++ List.replicate zeros 0 ++ toBE 8 (l * 8)).toArray

def sha256Block (h : Array UInt32) (m : Array UInt8) (off : Nat) : Array UInt32 := Id.run do
  let mut w : Array UInt32 := Array.ofFn (n := 16) fun i => be32 m (off + 4 * i.val)
  for i in [16:64] do
    let w15 := w[i-15]!; let w2 := w[i-2]!
    let s0 := rotr32 w15 7 ^^^ rotr32 w15 18 ^^^ (w15 >>> 3)
    let s1 := rotr32 w2 17 ^^^ rotr32 w2 19 ^^^ (w2 >>> 10)
    w := w.push (w[i-16]! + s0 + w[i-7]! + s1)
  let mut a := h[0]!; let mut b := h[1]!; let mut c := h[2]!; let mut d := h[3]!
  let mut e := h[4]!; let mut f := h[5]!; let mut g := h[6]!; let mut hh := h[7]!
  for i in [0:64] do
    let s1 := rotr32 e 6 ^^^ rotr32 e 11 ^^^ rotr32 e 25
    let ch := (e &&& f) ^^^ ((~~~ e) &&& g)
    let t1 := hh + s1 + ch + sha256K[i]! + w[i]!
    let s0 := rotr32 a 2 ^^^ rotr32 a 13 ^^^ rotr32 a 22
    let maj := (a &&& b) ^^^ (a &&& c) ^^^ (b &&& c)
    let t2 := s0 + maj
    hh := g; g := f; f := e; e := d + t1; d := c; c := b; b := a; a := t1 + t2
  return #[h[0]! + a, h[1]! + b, h[2]! + c, h[3]! + d, h[4]! + e, h[5]! + f, h[6]! + g, h[7]! + hh]

def sha256 (d : Bytes) : Bytes := Id.run do
  let m := mdPad d
  let mut h := sha256H0
  for i in [0:m.size / 64] do
    h := sha256Block h m (64 * i)
  return h.toList.flatMap u32be

def sha1Block (h : Array UInt32) (m : Array UInt8) (off : Nat) : Array UInt32 := Id.run do
  let mut w : Array UInt32 := Array.ofFn (n := 16) fun i => be32 m (off + 4 * i.val)
  for i in [16:80] do
    w := w.push (rotl32 (w[i-3]! ^^^ w[i-8]! ^^^ w[i-14]! ^^^ w[i-16]!) 1)
  let mut a := h[0]!; let mut b := h[1]!; let mut c := h[2]!; let mut d := h[3]!; let mut e := h[4]!
  for i in [0:80] do
    let (f, k) : UInt32 × UInt32 :=
      if i < 20 then ((b &&& c) ||| ((~~~ b) &&& d), 0x5A827999)
      else if i < 40 then (b ^^^ c ^^^ d, 0x6ED9EBA1)
      else if i < 60 then ((b &&& c) ||| (b &&& d) ||| (c &&& d), 0x8F1BBCDC)
      else (b ^^^ c ^^^ d, 0xCA62C1D6)
    let t := rotl32 a 5 + f + e + k + w[i]!
    e := d; d := c; c := rotl32 b 30; b := a; a := t
  return #[h[0]! + a, h[1]! + b, h[2]! + c, h[3]! + d, h[4]! + e]

def sha1 (d : Bytes) : Bytes := Id.run do
  let m := mdPad d
  let mut h : Array UInt32 := #[0x67452301, 0xEFCDAB89, 0x98BADCFE, 0x10325476, 0xC3D2E1F0]
  for i in [0:m.size / 64] do
    h := sha1Block h m (64 * i)
  return h.toList.flatMap u32be

end Pyctr.Prim
