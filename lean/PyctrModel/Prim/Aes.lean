/-
  L4: AES-128 (FIPS-197) written directly in Lean; executable, validated against PyCryptodome every run.
  In theorems AES is a *parameter* (`E D : Bytes → Bytes → Bytes`); this instance is only what the driver runs.
-/
import PyctrModel.Base.Bytes
import PyctrModel.Prim.Tables
namespace Pyctr.Prim

def sbox (b : UInt8) : UInt8 := sboxTable[b.toNat]!
def invSbox (b : UInt8) : UInt8 := invSboxTable[b.toNat]!

def xtime (a : UInt8) : UInt8 :=
  let s := a <<< 1
  if a &&& 0x80 != 0 then s ^^^ 0x1b else s

def gmul (a b : UInt8) : UInt8 := Id.run do
  let mut r : UInt8 := 0
  let mut a := a
  let mut b := b
  for _ in [0:8] do
    if b &&& 1 != 0 then r := r ^^^ a
    a := xtime a
    b := b >>> 1
  return r

abbrev Block := Array UInt8   -- 16 bytes, column-major as in FIPS-197 (byte i = row i%4, column i/4)

def rcon : Array UInt8 := #[0x01, 0x02, 0x04, 0x08, 0x10, 0x20, 0x40, 0x80, 0x1b, 0x36]

/-- 176-byte expanded key -/
def keyExpand (key : Array UInt8) : Array UInt8 := Id.run do
  let mut w := key
  for i in [4:44] do
    let t0 := w[4*(i-1)]!; let t1 := w[4*(i-1)+1]!; let t2 := w[4*(i-1)+2]!; let t3 := w[4*(i-1)+3]!
    let (a, b, c, d) :=
      if i % 4 == 0 then (sbox t1 ^^^ rcon[i/4 - 1]!, sbox t2, sbox t3, sbox t0) else (t0, t1, t2, t3)
    w := w.push (w[4*(i-4)]! ^^^ a)
    w := w.push (w[4*(i-4)+1]! ^^^ b)
    w := w.push (w[4*(i-4)+2]! ^^^ c)
    w := w.push (w[4*(i-4)+3]! ^^^ d)
  return w

def addRoundKey (s : Block) (w : Array UInt8) (r : Nat) : Block :=
  Array.ofFn (n := 16) fun i => s[i.val]! ^^^ w[16*r + i.val]!

def subBytes (s : Block) : Block := s.map sbox
def invSubBytes (s : Block) : Block := s.map invSbox

/-- row r is rotated left by r: new[r + 4c] = old[r + 4((c + r) % 4)] -/
def shiftRows (s : Block) : Block :=
  Array.ofFn (n := 16) fun i => let r := i.val % 4; let c := i.val / 4; s[r + 4 * ((c + r) % 4)]!
def invShiftRows (s : Block) : Block :=
  Array.ofFn (n := 16) fun i => let r := i.val % 4; let c := i.val / 4; s[r + 4 * ((c + 4 - r) % 4)]!

def mixColumns (s : Block) : Block :=
  Array.ofFn (n := 16) fun i =>
    let c := i.val / 4; let r := i.val % 4
    let a (k : Nat) := s[4*c + (r + k) % 4]!
    gmul 2 (a 0) ^^^ gmul 3 (a 1) ^^^ a 2 ^^^ a 3
def invMixColumns (s : Block) : Block :=
  Array.ofFn (n := 16) fun i =>
    let c := i.val / 4; let r := i.val % 4
    let a (k : Nat) := s[4*c + (r + k) % 4]!
    gmul 14 (a 0) ^^^ gmul 11 (a 1) ^^^ gmul 13 (a 2) ^^^ gmul 9 (a 3)

def encryptBlockA (w : Array UInt8) (blk : Block) : Block := Id.run do
  let mut s := addRoundKey blk w 0
  for r in [1:10] do
    s := addRoundKey (mixColumns (shiftRows (subBytes s))) w r
  return addRoundKey (shiftRows (subBytes s)) w 10

def decryptBlockA (w : Array UInt8) (blk : Block) : Block := Id.run do
  let mut s := addRoundKey blk w 10
  for r' in [0:9] do
    let r := 9 - r'
    s := invMixColumns (addRoundKey (invSubBytes (invShiftRows s)) w r)
  return addRoundKey (invSubBytes (invShiftRows s)) w 0

/-- AES-128 ECB on one 16-byte block (`key`, `blk` : 16 bytes each) -/
def aesEnc (key blk : Bytes) : Bytes := (encryptBlockA (keyExpand key.toArray) blk.toArray).toList
def aesDec (key blk : Bytes) : Bytes := (decryptBlockA (keyExpand key.toArray) blk.toArray).toList

end Pyctr.Prim
