/-
  AES-CMAC (RFC 4493) on top of the executable AES.  Used by the driver for the save containers' CMAC;
  theorems take the MAC as a parameter.
-/
import PyctrModel.Prim.Aes
namespace Pyctr
namespace Prim

/-- shift a 16-byte block left by one bit -/
def shl1 (b : Bytes) : Bytes :=
  let n := readBE b
  toBE 16 ((n * 2) % (2 ^ 128))

def cmacSubkey (b : Bytes) : Bytes :=
  let s := shl1 b
  if (b.headD 0) &&& 0x80 != 0 then xorBytes s (zeros 15 ++ [0x87]) else s

def cmac (key msg : Bytes) : Bytes :=
  let L := aesEnc key (zeros 16)
  let k1 := cmacSubkey L
  let k2 := cmacSubkey k1
  let n := (msg.length + 15) / 16
  let complete := n ≠ 0 ∧ msg.length % 16 = 0
  let n := if n = 0 then 1 else n
  let lastRaw := msg.drop (16 * (n - 1))
  let last := if complete then xorBytes lastRaw k1 else xorBytes (lastRaw ++ [0x80] ++ zeros (15 - lastRaw.length)) k2
  let x := (List.range (n - 1)).foldl (fun x i => aesEnc key (xorBytes x (slice msg (16 * i) 16))) (zeros 16)
  aesEnc key (xorBytes x last)

end Prim
end Pyctr
