/-
  Save partition data plane: DPFS levels 1-3 (two copies each, selected by the bitmap tree) and the IVFC hash tree
  with its verification caches.  State = the bytes of the partition (value semantics) + caches + master hashes.
  `H` is SHA-256 (parameter).
-/
import PyctrModel.Save.Desc
namespace Pyctr
namespace Save

/-- `read_le_u32_array` -/
def u32List (d : Bytes) : List Nat :=
  (List.range ((d.length + 3) / 4)).map fun i => readLE (slice d (4 * i) 4)

/-- `get_active_bit(bit)`: MSB-first inside each little-endian u32; `none` = IndexError -/
def activeBit (u32s : List Nat) (bit : Nat) : Option Bool :=
  (u32s[bit / 32]?).map fun w => (w >>> (31 - bit % 32)) &&& 1 != 0

/-- `get_all_active_bits()` -/
def allBits (u32s : List Nat) : List Bool :=
  u32s.flatMap fun w => (List.range 32).map fun k => (w >>> (31 - k)) &&& 1 != 0

/-- `get_block_range(offset, size, block_size)` for `size ≥ 0` (integer form of the float `roundup`) -/
def blockRange (offset size bs : Nat) : Nat × Nat :=
  let start := offset / bs
  (start, max ((offset + size + bs - 1) / bs - 1) start)

/-- `last_block_size` of `get_data` / `IVFCLevel4Reader.read` -/
def lastSize (sb eb fbo size bs : Nat) : Nat :=
  let l := if sb = eb then size % bs else (fbo + size) % bs
  if l = 0 then bs else l

/-- `blocks[0] = blocks[0][fbo:]; blocks[-1] = blocks[-1][:last]; b''.join(blocks)` -/
def joinTrim (blocks : List Bytes) (fbo last : Nat) : Bytes :=
  match blocks with
  | [] => []
  | [b] => (b.drop fbo).take last
  | b :: rest => b.drop fbo ++ rest.dropLast.flatten ++ (rest.getLast?.getD []).take last

structure Dp where
  lv2bits : List Nat       -- assembled level 2 (u32 list)
  lv3 : Level              -- offset (in the partition), size of one copy, block size

/-- `DPFSLevel1` + `DPFSLevel2` construction from the partition bytes -/
def mkDp (P : Bytes) (dpfs : Dpfs) (selector : Nat) : Dp :=
  let d1 := slice P dpfs.lv1.offset (dpfs.lv1.size * 2)
  let act1 := if selector ≠ 0 then d1.drop (d1.length / 2) else d1.take (d1.length / 2)
  let bits1 := allBits (u32List act1)
  let d2 := slice P dpfs.lv2.offset (dpfs.lv2.size * 2)
  let half := d2.length / 2
  let bs2 := dpfs.lv2.bs
  -- zip(lv1 bits, range(0, half, block_size))
  let nblk := (half + bs2 - 1) / bs2
  let u32s := (List.range (min nblk bits1.length)).flatMap fun i =>
    let off := i * bs2
    let chunk := if bits1.getD i false then half else 0
    u32List (slice d2 (off + chunk) bs2)
  ⟨u32s, dpfs.lv3⟩

/-- one block of `DPFSLevel3.get_data`: seek(chunk_offset + block * bs) in the level-3 window, read(bs) -/
def dpBlock (P : Bytes) (dp : Dp) (block : Nat) : Except Err Bytes :=
  match activeBit dp.lv2bits block with
  | none => .error .indexError
  | some act =>
    -- the SubsectionIO window [lv3.offset, lv3.offset + 2*size): seek(pos); read(bs), clamped to the window
    let pos := (if act then dp.lv3.size else 0) + block * dp.lv3.bs
    .ok (slice P (dp.lv3.offset + pos) (min dp.lv3.bs (dp.lv3.size * 2 - pos)))

/-- `DPFSLevel3.get_data(offset, size)` joined (callers pass `size > 0`, `offset ≤ lv3.size`) -/
def dpGetData (P : Bytes) (dp : Dp) (offset size : Nat) : Except Err Bytes :=
  let size := if offset + size > dp.lv3.size then dp.lv3.size - offset else size
  let bs := dp.lv3.bs
  let (sb, eb) := blockRange offset size bs
  match (List.range (eb + 1 - sb)).mapM fun i => dpBlock P dp (sb + i) with
  | .error e => .error e
  | .ok blocks => .ok (joinTrim blocks (offset % bs) (lastSize sb eb (offset % bs) size bs))

/-- `DPFSLevel3FileIO.read(size)` at position `seek` -/
def dpRead (P : Bytes) (dp : Dp) (seek : Nat) (size : Int) : Except Err Bytes :=
  let size : Int := if size < 0 ∨ (seek : Int) + size > dp.lv3.size then (dp.lv3.size : Int) - seek else size
  if size ≤ 0 then .ok [] else dpGetData P dp seek size.toNat

/-- the partition window inside the container file: `SubsectionIO(file, off, size)` -/
structure Win where
  F : Bytes
  off : Nat
  size : Nat

def Win.bytes (w : Win) : Bytes := slice w.F w.off w.size

/-- `seek(pos); write(data)` through the partition window: clamps to the window, writes into the file -/
def Win.write (w : Win) (pos : Nat) (data : Bytes) : Nat × Win :=
  let pos := min pos w.size
  let data := data.take (w.size - pos)
  if data.isEmpty then (0, w) else (data.length, { w with F := overlay w.F (w.off + pos) data })

/-- one iteration of the block loop of `DPFSLevel3.write_data` -/
def dpWriteStep (dp : Dp) (sb fbo : Nat) (padded : Bytes) (acc : Except Err (Nat × Win)) (i : Nat) : Except Err (Nat × Win) :=
  match acc with
  | .error e => .error e
  | .ok (tot, w) =>
    let bs := dp.lv3.bs
    let piece := slice padded (i * bs) bs
    let piece := if i = 0 then piece.drop fbo else piece
    match activeBit dp.lv2bits (sb + i) with
    | none => .error .indexError
    | some act =>
      -- SubsectionIO window of size 2*size at lv3.offset: absolute seek clamps, write truncates
      let winSize := dp.lv3.size * 2
      let pos := min ((if act then dp.lv3.size else 0) + (sb + i) * bs + (if i = 0 then fbo else 0)) winSize
      let piece := piece.take (winSize - pos)
      let (n, w') := w.write (dp.lv3.offset + pos) piece
      .ok (tot + n, w')

/-- `DPFSLevel3.write_data(offset, data)`: returns bytes written and the new file -/
def dpWrite (w : Win) (dp : Dp) (offset : Nat) (data : Bytes) : Except Err (Nat × Win) :=
  let data := if offset + data.length > dp.lv3.size then data.take (dp.lv3.size - offset) else data
  if data.isEmpty then .ok (0, w)
  else
    let bs := dp.lv3.bs
    let fbo := offset % bs
    let padded := zeros fbo ++ data
    (List.range ((padded.length + bs - 1) / bs)).foldl (dpWriteStep dp (offset / bs) fbo padded) (.ok (0, w))

/-! ### IVFC hash tree -/

structure Tree where
  ivfc : Ivfc
  external : Option (Nat × Nat)     -- (offset, size) of an external level 4 window in the partition
  dp : Dp

def Tree.level (t : Tree) (idx : Nat) : Level :=
  if idx = 0 then t.ivfc.lv1 else if idx = 1 then t.ivfc.lv2 else if idx = 2 then t.ivfc.lv3 else t.ivfc.lv4

/-- read `n` bytes at `off` of level `idx` (a SubsectionIO over the DPFS file, or the external window) -/
def levelRead (P : Bytes) (t : Tree) (idx : Nat) (off n : Nat) : Except Err Bytes :=
  let lv := t.level idx
  if off > lv.size then .ok []
  else
    let n := min n (lv.size - off)
    match (if 3 ≤ idx then t.external else none) with
    | some (eo, es) => .ok (slice (slice P eo es) off n)
    | none => dpRead P t.dp (lv.offset + off) n

abbrev Cache := List (Nat × Option Bool)      -- block ↦ validity (None = uninitialised)

structure Caches where
  lv1 : Cache                 -- shared by the two result caches
  valid : List Cache          -- levels 2-4 of `_valid_results_cache`
  deep : List Cache           -- levels 2-4 of `_deep_valid_results_cache`

def Caches.empty : Caches := ⟨[], [[], [], []], [[], [], []]⟩

def Caches.get (c : Caches) (deepV : Bool) (idx : Nat) : Cache :=
  if idx = 0 then c.lv1 else ((if deepV then c.deep else c.valid).getD (idx - 1) [])

def Caches.put (c : Caches) (deepV : Bool) (idx block : Nat) (v : Option Bool) : Caches :=
  let upd (l : Cache) : Cache := if l.any (·.1 == block) then l.map (fun p => if p.1 == block then (block, v) else p) else l ++ [(block, v)]
  if idx = 0 then { c with lv1 := upd c.lv1 }
  else if deepV then { c with deep := c.deep.modify (idx - 1) upd }
  else { c with valid := c.valid.modify (idx - 1) upd }

def Caches.drop (c : Caches) (idx block : Nat) : Caches :=
  let rm (l : Cache) : Cache := l.filter (·.1 != block)
  if idx = 0 then { c with lv1 := rm c.lv1 }
  else { c with deep := c.deep.modify (idx - 1) rm, valid := c.valid.modify (idx - 1) rm }

def ljustZero (d : Bytes) (n : Nat) : Bytes := d ++ zeros (n - d.length)

/-- cache lookup: `cache[block]` if present -/
def Caches.lookup (c : Caches) (deepV : Bool) (idx block : Nat) : Option (Option Bool) :=
  ((c.get deepV idx).find? (·.1 == block)).map (·.2)

/-- `get_block(level, block, verify, deep_verify)` with `_get_block_internal` inlined; recursion on the level index.
    `rd idx off n` = `level_fp.seek(off); level_fp.read(n)`; `bsOf idx` = block size of the level -/
def getBlockG (H : Bytes → Bytes) (rd : Nat → Nat → Nat → Except Err Bytes) (bsOf : Nat → Nat) (master : List Bytes) :
    (idx : Nat) → Nat → Bool → Bool → Caches → Except Err (Bytes × Option Bool × Caches)
  | 0, block, verify, deepV, c =>
    match rd 0 (block * bsOf 0) (bsOf 0) with
    | .error e => .error e
    | .ok data =>
      if !verify then .ok (data, none, c)
      else
        match c.lookup deepV 0 block with
        | some v => .ok (data, v, c)
        | none =>
          match master[block]? with
          | none => .error .indexError
          | some mh =>
            let v := some (mh == H (ljustZero data (bsOf 0)))
            .ok (data, v, c.put deepV 0 block v)
  | up + 1, block, verify, deepV, c =>
    match rd (up + 1) (block * bsOf (up + 1)) (bsOf (up + 1)) with
    | .error e => .error e
    | .ok data =>
      if !verify then .ok (data, none, c)
      else
        match c.lookup deepV (up + 1) block with
        | some v => .ok (data, v, c)
        | none =>
          -- the hash one level up
          let cont (c' : Caches) : Except Err (Bytes × Option Bool × Caches) :=
            match rd up (block * 0x20) 0x20 with
            | .error e => .error e
            | .ok expected =>
              let v : Option Bool :=
                if expected == zeros 0x20 then none else some (expected == H (ljustZero data (bsOf (up + 1))))
              .ok (data, v, c'.put deepV (up + 1) block v)
          if deepV then
            -- deep verification of the block of the upper level that holds the hash
            match getBlockG H rd bsOf master up (block * 0x20 / bsOf up) true true c with
            | .error e => .error e
            | .ok (_, uv, c') => if uv == some true then cont c' else .ok (data, uv, c'.put deepV (up + 1) block uv)
          else cont c

def getBlock (H : Bytes → Bytes) (P : Bytes) (t : Tree) (master : List Bytes) :=
  getBlockG H (levelRead P t) (fun i => (t.level i).bs) master

/-- the block loop of `IVFCLevel4Reader.read`: unverified blocks become 0xDD filler of the same length -/
def lv4Blocks (H : Bytes → Bytes) (rd : Nat → Nat → Nat → Except Err Bytes) (bsOf : Nat → Nat) (master : List Bytes)
    (sb : Nat) : Nat → Caches → Except Err (List Bytes × Caches)
  | 0, c => .ok ([], c)
  | n + 1, c =>
    match getBlockG H rd bsOf master 3 sb true true c with
    | .error e => .error e
    | .ok (d, v, c') =>
      match lv4Blocks H rd bsOf master (sb + 1) n c' with
      | .error e => .error e
      | .ok (bl, c'') => .ok ((if v == some true then d else List.replicate d.length 0xDD) :: bl, c'')

/-- `IVFCLevel4Reader.read(size)` (verify and deep_verify on) over a level of `size4` bytes -/
def lv4ReadG (H : Bytes → Bytes) (rd : Nat → Nat → Nat → Except Err Bytes) (bsOf : Nat → Nat) (master : List Bytes)
    (size4 : Nat) (seek : Nat) (size : Int) (c : Caches) : Except Err (Bytes × Caches) :=
  let size : Int := if size < 0 ∨ (seek : Int) + size > size4 then (size4 : Int) - seek else size
  if size ≤ 0 then .ok ([], c)
  else
    let size := size.toNat
    let bs := bsOf 3
    let (sb, eb) := blockRange seek size bs
    match lv4Blocks H rd bsOf master sb (eb + 1 - sb) c with
    | .error e => .error e
    | .ok (blocks, c) => .ok (joinTrim blocks (seek % bs) (lastSize sb eb (seek % bs) size bs), c)

def lv4Read (H : Bytes → Bytes) (P : Bytes) (t : Tree) (master : List Bytes) (seek : Nat) (size : Int) (c : Caches) :=
  lv4ReadG H (levelRead P t) (fun i => (t.level i).bs) master t.ivfc.lv4.size seek size c

end Save
end Pyctr
