/-
  Specification-level definitions for the save containers (what the theorems are stated against).
-/
import PyctrModel.Save.Container
namespace Pyctr
namespace Save

/-- number of blocks of a level -/
def nblocks (size bs : Nat) : Nat := (size + bs - 1) / bs

/-- the `bs` bytes stored for block `b` in the copy that level 2 marks active -/
def dpRawBlock (P : Bytes) (dp : Dp) (b : Nat) : Bytes :=
  slice (slice P dp.lv3.offset (dp.lv3.size * 2))
    ((if activeBit dp.lv2bits b = some true then dp.lv3.size else 0) + b * dp.lv3.bs) dp.lv3.bs

/-- the DPFS level-3 data view: block-by-block the active copy -/
def dpfsView (P : Bytes) (dp : Dp) : Bytes :=
  ((List.range (nblocks dp.lv3.size dp.lv3.bs)).flatMap (dpRawBlock P dp)).take dp.lv3.size

/-- geometry under which the view is defined: every block has a bit, the two copies lie inside the partition -/
structure DpWF (P : Bytes) (dp : Dp) : Prop where
  bits : nblocks dp.lv3.size dp.lv3.bs ≤ 32 * dp.lv2bits.length
  inside : dp.lv3.offset + dp.lv3.size * 2 ≤ P.length

/-- content of IVFC level `idx` (0-3) as the hash tree sees it -/
def levelFrom (V : Bytes) (P : Bytes) (t : Tree) (idx : Nat) : Bytes :=
  match (if 3 ≤ idx then t.external else none) with
  | some (eo, es) => slice (slice P eo es) 0 (t.level idx).size
  | none => slice V (t.level idx).offset (t.level idx).size

def levelBytes (P : Bytes) (t : Tree) (idx : Nat) : Bytes := levelFrom (dpfsView P t.dp) P t idx

/-- the IVFC levels lie inside the DPFS view (or, for an external level 4, inside the partition) -/
structure TreeWF (P : Bytes) (t : Tree) : Prop where
  dp : DpWF P t.dp
  inside : ∀ idx, (3 ≤ idx → t.external = none) → (t.level idx).offset + (t.level idx).size ≤ t.dp.lv3.size
  ext : ∀ eo es, t.external = some (eo, es) → es = t.ivfc.lv4.size ∧ eo + es ≤ P.length

/-- a reader over fixed level contents -/
def rdOf (L : Nat → Bytes) (idx off n : Nat) : Except Err Bytes := .ok (slice (L idx) off n)

/-- validity of a block as `_get_block_internal` defines it, without any cache.
    deep = true: the chain up to the master hash; deep = false: only the hash one level up. -/
def specValid (H : Bytes → Bytes) (rd : Nat → Nat → Nat → Except Err Bytes) (bsOf : Nat → Nat) (master : List Bytes)
    (deep : Bool) : (idx : Nat) → Nat → Except Err (Option Bool)
  | 0, block =>
    match rd 0 (block * bsOf 0) (bsOf 0) with
    | .error e => .error e
    | .ok data =>
      match master[block]? with
      | none => .error .indexError
      | some mh => .ok (some (mh == H (ljustZero data (bsOf 0))))
  | up + 1, block =>
    match rd (up + 1) (block * bsOf (up + 1)) (bsOf (up + 1)) with
    | .error e => .error e
    | .ok data =>
      let cont : Except Err (Option Bool) :=
        match rd up (block * 0x20) 0x20 with
        | .error e => .error e
        | .ok expected =>
          .ok (if expected == zeros 0x20 then none else some (expected == H (ljustZero data (bsOf (up + 1)))))
      if deep then
        match specValid H rd bsOf master true up (block * 0x20 / bsOf up) with
        | .error e => .error e
        | .ok uv => if uv == some true then cont else .ok uv
      else cont

/-- a cache is sound when every entry is what a fresh computation would return for that level and block -/
def CacheOK (H : Bytes → Bytes) (rd : Nat → Nat → Nat → Except Err Bytes) (bsOf : Nat → Nat) (master : List Bytes)
    (c : Caches) : Prop :=
  ∀ deep idx block v, idx < 4 → (block, v) ∈ c.get deep idx → specValid H rd bsOf master deep idx block = .ok v

/-- what the verified level-4 view shows: the stored block where the chain is intact, 0xDD filler of the same length elsewhere -/
def verifiedBlock (H : Bytes → Bytes) (L : Nat → Bytes) (bsOf : Nat → Nat) (master : List Bytes) (b : Nat) : Bytes :=
  let d := slice (L 3) (b * bsOf 3) (bsOf 3)
  match specValid H (rdOf L) bsOf master true 3 b with
  | .ok (some true) => d
  | _ => List.replicate d.length 0xDD

def verifiedView (H : Bytes → Bytes) (L : Nat → Bytes) (bsOf : Nat → Nat) (master : List Bytes) : Bytes :=
  (List.range (nblocks (L 3).length (bsOf 3))).flatMap (verifiedBlock H L bsOf master)

/-- the selecting offset of block `b`: 0 for the first copy, `size` for the second -/
def chunkOf (dp : Dp) (b : Nat) : Nat := if activeBit dp.lv2bits b = some true then dp.lv3.size else 0

/-- the clamped byte count of a `read(size)` at `seek` on a view of `total` bytes -/
def readCount (total seek : Nat) (size : Int) : Nat :=
  if size < 0 ∨ (seek : Int) + size > total then total - seek else size.toNat

/-- the zero-padded block that is hashed -/
def padBlock (bsOf : Nat → Nat) (L : Nat → Bytes) (idx b : Nat) : Bytes :=
  ljustZero (slice (L idx) (b * bsOf idx) (bsOf idx)) (bsOf idx)

/-- the chain of block `b` of level `idx` up to the master hash is intact -/
def chainOK (H : Bytes → Bytes) (bsOf : Nat → Nat) (master : List Bytes) (L : Nat → Bytes) (idx b : Nat) : Prop :=
  specValid H (rdOf L) bsOf master true idx b = .ok (some true)

def PartSt.P (F : Bytes) (p : PartSt) : Bytes := slice F p.pOff p.pSize
def PartSt.bsOf (p : PartSt) : Nat → Nat := fun i => (p.tree.level i).bs

/-- every partition's verification cache is sound for the current file contents -/
def ContOK (H : Bytes → Bytes) (c : Cont) : Prop :=
  ∀ p ∈ c.parts, CacheOK H (levelRead (p.P c.F) p.tree) p.bsOf p.master p.caches

/-- states reachable from `c0` by reads, seeks and block queries, in any order and on any partition -/
inductive ReachRO (H : Bytes → Bytes) : Cont → Cont → Prop
  | refl (c0 : Cont) : ReachRO H c0 c0
  | read {c0 c c' : Cont} (pi : Nat) (n : Int) (d : Bytes) :
      ReachRO H c0 c → contRead H c pi n = .ok (d, c') → ReachRO H c0 c'
  | seek {c0 c c' : Cont} (pi : Nat) (off : Int) (wh n : Nat) :
      ReachRO H c0 c → contSeek c pi off wh = .ok (n, c') → ReachRO H c0 c'
  | blk {c0 c c' : Cont} (pi level block : Nat) (vf dv : Bool) (r : Bytes × Option Bool) :
      ReachRO H c0 c → contBlock H c pi level block vf dv = .ok (r, c') → ReachRO H c0 c'

/-- is level `idx` stored inside the DPFS level-3 view (rather than in an external window)? -/
def Tree.internal (t : Tree) (idx : Nat) : Bool := !(decide (3 ≤ idx) && t.external.isSome)

/-- two levels do not overlap inside the DPFS view -/
def Tree.apart (t : Tree) (i j : Nat) : Bool :=
  decide ((t.level i).offset + (t.level i).size ≤ (t.level j).offset ∨ (t.level j).offset + (t.level j).size ≤ (t.level i).offset)

/-- the geometry under which the write path is specified by `absWrite`: the DPFS view is defined, the hash-tree levels lie inside
    it (or in an external window that stays clear of the DPFS area) and do not overlap, every level has room for the hashes of the
    level below it, and there is a master hash for every block of level 1 -/
def geomOK (P : Bytes) (t : Tree) (master : List Bytes) : Bool :=
  decide (nblocks t.dp.lv3.size t.dp.lv3.bs ≤ 32 * t.dp.lv2bits.length) &&
  decide (t.dp.lv3.offset + t.dp.lv3.size * 2 ≤ P.length) &&
  (List.range 4).all (fun i => !t.internal i || decide ((t.level i).offset + (t.level i).size ≤ t.dp.lv3.size)) &&
  (match t.external with
    | none => true
    | some (eo, es) => decide (es = t.ivfc.lv4.size) && decide (eo + es ≤ P.length) &&
        decide (eo + es ≤ t.dp.lv3.offset ∨ t.dp.lv3.offset + t.dp.lv3.size * 2 ≤ eo)) &&
  (List.range 4).all (fun i => (List.range 4).all fun j => decide (i = j) || !t.internal i || !t.internal j || t.apart i j) &&
  (List.range 3).all (fun i => decide (nblocks (t.level (i + 1)).size (t.level (i + 1)).bs * 0x20 ≤ (t.level i).size)) &&
  decide (nblocks (t.level 0).size (t.level 0).bs ≤ master.length)

/-! ### the write path on levels as byte arrays (specification of `IVFCHashTree.write_data`) -/

/-- the hash function maps something to 32 zero bytes (then that block reads as "uninitialised", not as valid) -/
def ZeroHash (H : Bytes → Bytes) : Prop := ∃ x, H x = zeros 0x20

/-- `level_fp.seek(off); level_fp.write(data)`: clamped to the level -/
def absLevelWrite (A : Bytes) (off : Nat) (data : Bytes) : Bytes :=
  let pos := min off A.length
  overlay A pos (data.take (A.length - pos))

/-- hashes of blocks `sb .. sb+n-1` of a level -/
def blockHashes (H : Bytes → Bytes) (A : Bytes) (bs sb n : Nat) : List Bytes :=
  (List.range n).map fun i => H (ljustZero (slice A ((sb + i) * bs) bs) bs)

def setMaster (master : List Bytes) (sb : Nat) (hashes : List Bytes) : List Bytes :=
  (List.range hashes.length).foldl (fun (m : List Bytes) i => m.set (sb + i) (hashes.getD i [])) master

/-- `IVFCHashTree.write_data` on `(levels, master hashes)` -/
def absWrite (H : Bytes → Bytes) (bsOf : Nat → Nat) : (idx : Nat) → Nat → Bytes → (Nat → Bytes) × List Bytes → Except Err ((Nat → Bytes) × List Bytes)
  | 0, offset, data, (L, master) =>
    let bs := bsOf 0
    let sb := offset / bs
    let eb := max ((offset + data.length + bs - 1) / bs - 1) sb
    let A' := absLevelWrite (L 0) offset data
    let hashes := blockHashes H A' bs sb (eb + 1 - sb)
    if sb + hashes.length > master.length then .error .indexError
    else .ok (fun j => if j = 0 then A' else L j, setMaster master sb hashes)
  | up + 1, offset, data, (L, master) =>
    let bs := bsOf (up + 1)
    let sb := offset / bs
    let eb := max ((offset + data.length + bs - 1) / bs - 1) sb
    let A' := absLevelWrite (L (up + 1)) offset data
    let hashes := blockHashes H A' bs sb (eb + 1 - sb)
    absWrite H bsOf up (sb * 0x20) hashes.flatten (fun j => if j = up + 1 then A' else L j, master)



/-! ### decidable side conditions of the re-open theorems (evaluated by the driver on every generated image) -/

/-- `[a, a+n)` and `[b, b+m)` do not meet -/
def clearOf (a n b m : Nat) : Bool := decide (n = 0 ∨ m = 0 ∨ a + n ≤ b ∨ b + m ≤ a)

/-- the DPFS level-1 / level-2 table pairs lie outside the two data windows (DPFS level-3 pair, external level 4) -/
def tablesApartB (dpfs : Dpfs) (t : Tree) : Bool :=
  [(dpfs.lv1.offset, dpfs.lv1.size * 2), (dpfs.lv2.offset, dpfs.lv2.size * 2)].all fun (a, n) =>
    clearOf a n t.dp.lv3.offset (t.dp.lv3.size * 2) &&
    match t.external with
    | none => true
    | some (eo, es) => clearOf a n eo es

/-- the four fields of a descriptor lie inside its `size` bytes, behind the DIFI header, and do not overlap; whole hash list -/
def descWFB (x : PartDesc) (size : Nat) : Bool :=
  decide (x.difi.ivfcSize = 0x78) && decide (x.difi.dpfsSize = 0x50) && decide (x.difi.hashSize = 0x20 * x.master.length) &&
  x.master.all (fun h => decide (h.length = 0x20)) &&
  x.ivfc.lv1.sane && x.ivfc.lv2.sane && x.ivfc.lv3.sane && x.ivfc.lv4.sane &&
  x.dpfs.lv1.sane && x.dpfs.lv2.sane && x.dpfs.lv3.sane &&
  decide (x.difi.ivfcOffset + 0x78 ≤ size) && decide (x.difi.dpfsOffset + 0x50 ≤ size) &&
  decide (x.difi.hashOffset + 0x20 * x.master.length ≤ size) &&
  decide (0x44 ≤ x.difi.ivfcOffset) && decide (0x44 ≤ x.difi.dpfsOffset) && decide (0x44 ≤ x.difi.hashOffset) &&
  decide (x.difi.ivfcOffset + 0x78 ≤ x.difi.dpfsOffset ∨ x.difi.dpfsOffset + 0x50 ≤ x.difi.ivfcOffset) &&
  decide (x.difi.ivfcOffset + 0x78 ≤ x.difi.hashOffset ∨ x.difi.hashOffset + 0x20 * x.master.length ≤ x.difi.ivfcOffset) &&
  decide (x.difi.dpfsOffset + 0x50 ≤ x.difi.hashOffset ∨ x.difi.hashOffset + 0x20 * x.master.length ≤ x.difi.dpfsOffset)

/-- header and table below the partitions, the descriptor inside the table, descriptors and partition windows pairwise apart -/
def reopenLayoutB (c : Cont) (pi : Nat) (p : PartSt) : Bool :=
  decide (0x200 ≤ c.tableOff) && decide (c.tableOff + c.tableSize ≤ c.F.length) &&
  decide (p.descOff + p.descSize ≤ c.tableSize) && decide (c.tableOff + c.tableSize ≤ p.pOff) && decide (p.pOff ≤ c.F.length) &&
  (List.range c.parts.length).all fun j => j == pi ||
    match c.parts[j]? with
    | none => true
    | some q => decide (q.descOff + q.descSize ≤ p.descOff ∨ p.descOff + p.descSize ≤ q.descOff) &&
        decide (c.tableOff + c.tableSize ≤ q.pOff) && decide (q.pOff + q.pSize ≤ p.pOff ∨ p.pOff + p.pSize ≤ q.pOff)

/-- every partition of the container meets the side conditions of the re-open theorems -/
def regularB (c : Cont) : Bool :=
  (List.range c.parts.length).all fun j =>
    match c.parts[j]? with
    | none => true
    | some p => geomOK (p.P c.F) p.tree p.master && tablesApartB p.dpfs p.tree &&
        descWFB ⟨p.difi, p.ivfc, p.dpfs, p.master⟩ p.descSize && reopenLayoutB c j p

/-- every block of every level verifies up to the master hashes (decidable; evaluated by the driver on generated images) -/
def allValidB (H : Bytes → Bytes) (t : Tree) (master : List Bytes) (P : Bytes) : Bool :=
  let Ls := (List.range 4).map (levelBytes P t)          -- the four levels, assembled once
  let L : Nat → Bytes := fun j => Ls.getD j []
  (List.range 4).all fun lvl =>
    (List.range (nblocks (L lvl).length (t.level lvl).bs)).all fun b =>
      match specValid H (rdOf L) (fun i => (t.level i).bs) master true lvl b with
      | .ok (some true) => true
      | _ => false

end Save
end Pyctr
