/-
  Specification-level definitions for the save containers (what the theorems are stated against).
-/
import PyctrModel.Save.Container
namespace Pyctr
namespace Save

/-- number of blocks of a level -/
def nblocks (size bs : Nat) : Nat := (size + bs - 1) / bs

/-- the `bs` bytes stored for block `b` in the copy that level 2 marks active -/
def dpRawBlock (P : Bytes) (dp : Dp) (b : Nat) : Bytes :=
  slice (slice P dp.lv3.offset (dp.lv3.size * 2))
    ((if activeBit dp.lv2bits b = some true then dp.lv3.size else 0) + b * dp.lv3.bs) dp.lv3.bs

/-- the DPFS level-3 data view: block-by-block the active copy -/
def dpfsView (P : Bytes) (dp : Dp) : Bytes :=
  ((List.range (nblocks dp.lv3.size dp.lv3.bs)).flatMap (dpRawBlock P dp)).take dp.lv3.size

/-- geometry under which the view is defined: every block has a bit, the two copies lie inside the partition -/
structure DpWF (P : Bytes) (dp : Dp) : Prop where
  bits : nblocks dp.lv3.size dp.lv3.bs ≤ 32 * dp.lv2bits.length
  inside : dp.lv3.offset + dp.lv3.size * 2 ≤ P.length

/-- content of IVFC level `idx` (0-3) as the hash tree sees it -/
def levelBytes (P : Bytes) (t : Tree) (idx : Nat) : Bytes :=
  match (if 3 ≤ idx then t.external else none) with
  | some (eo, es) => slice (slice P eo es) 0 (t.level idx).size
  | none => slice (dpfsView P t.dp) (t.level idx).offset (t.level idx).size

/-- the IVFC levels lie inside the DPFS view (or, for an external level 4, inside the partition) -/
structure TreeWF (P : Bytes) (t : Tree) : Prop where
  dp : DpWF P t.dp
  inside : ∀ idx, (3 ≤ idx → t.external = none) → (t.level idx).offset + (t.level idx).size ≤ t.dp.lv3.size
  ext : ∀ eo es, t.external = some (eo, es) → es = t.ivfc.lv4.size ∧ eo + es ≤ P.length

/-- a reader over fixed level contents -/
def rdOf (L : Nat → Bytes) (idx off n : Nat) : Except Err Bytes := .ok (slice (L idx) off n)

/-- validity of a block as `_get_block_internal` defines it, without any cache.
    deep = true: the chain up to the master hash; deep = false: only the hash one level up. -/
def specValid (H : Bytes → Bytes) (rd : Nat → Nat → Nat → Except Err Bytes) (bsOf : Nat → Nat) (master : List Bytes)
    (deep : Bool) : (idx : Nat) → Nat → Except Err (Option Bool)
  | 0, block =>
    match rd 0 (block * bsOf 0) (bsOf 0) with
    | .error e => .error e
    | .ok data =>
      match master[block]? with
      | none => .error .indexError
      | some mh => .ok (some (mh == H (ljustZero data (bsOf 0))))
  | up + 1, block =>
    match rd (up + 1) (block * bsOf (up + 1)) (bsOf (up + 1)) with
    | .error e => .error e
    | .ok data =>
      let cont : Except Err (Option Bool) :=
        match rd up (block * 0x20) 0x20 with
        | .error e => .error e
        | .ok expected =>
          .ok (if expected == zeros 0x20 then none else some (expected == H (ljustZero data (bsOf (up + 1)))))
      if deep then
        match specValid H rd bsOf master true up (block * 0x20 / bsOf up) with
        | .error e => .error e
        | .ok uv => if uv == some true then cont else .ok uv
      else cont

/-- a cache is sound when every entry is what a fresh computation would return for that level and block -/
def CacheOK (H : Bytes → Bytes) (rd : Nat → Nat → Nat → Except Err Bytes) (bsOf : Nat → Nat) (master : List Bytes)
    (c : Caches) : Prop :=
  ∀ deep idx block v, idx < 4 → (block, v) ∈ c.get deep idx → specValid H rd bsOf master deep idx block = .ok v

/-- what the verified level-4 view shows: the stored block where the chain is intact, 0xDD filler of the same length elsewhere -/
def verifiedBlock (H : Bytes → Bytes) (L : Nat → Bytes) (bsOf : Nat → Nat) (master : List Bytes) (b : Nat) : Bytes :=
  let d := slice (L 3) (b * bsOf 3) (bsOf 3)
  match specValid H (rdOf L) bsOf master true 3 b with
  | .ok (some true) => d
  | _ => List.replicate d.length 0xDD

def verifiedView (H : Bytes → Bytes) (L : Nat → Bytes) (bsOf : Nat → Nat) (master : List Bytes) : Bytes :=
  (List.range (nblocks (L 3).length (bsOf 3))).flatMap (verifiedBlock H L bsOf master)

/-- the selecting offset of block `b`: 0 for the first copy, `size` for the second -/
def chunkOf (dp : Dp) (b : Nat) : Nat := if activeBit dp.lv2bits b = some true then dp.lv3.size else 0

/-- the clamped byte count of a `read(size)` at `seek` on a view of `total` bytes -/
def readCount (total seek : Nat) (size : Int) : Nat :=
  if size < 0 ∨ (seek : Int) + size > total then total - seek else size.toNat

/-- the zero-padded block that is hashed -/
def padBlock (bsOf : Nat → Nat) (L : Nat → Bytes) (idx b : Nat) : Bytes :=
  ljustZero (slice (L idx) (b * bsOf idx) (bsOf idx)) (bsOf idx)

/-- the chain of block `b` of level `idx` up to the master hash is intact -/
def chainOK (H : Bytes → Bytes) (bsOf : Nat → Nat) (master : List Bytes) (L : Nat → Bytes) (idx b : Nat) : Prop :=
  specValid H (rdOf L) bsOf master true idx b = .ok (some true)

def PartSt.P (F : Bytes) (p : PartSt) : Bytes := slice F p.pOff p.pSize
def PartSt.bsOf (p : PartSt) : Nat → Nat := fun i => (p.tree.level i).bs

/-- every partition's verification cache is sound for the current file contents -/
def ContOK (H : Bytes → Bytes) (c : Cont) : Prop :=
  ∀ p ∈ c.parts, CacheOK H (levelRead (p.P c.F) p.tree) p.bsOf p.master p.caches

/-- states reachable from `c0` by reads, seeks and block queries, in any order and on any partition -/
inductive ReachRO (H : Bytes → Bytes) : Cont → Cont → Prop
  | refl (c0 : Cont) : ReachRO H c0 c0
  | read {c0 c c' : Cont} (pi : Nat) (n : Int) (d : Bytes) :
      ReachRO H c0 c → contRead H c pi n = .ok (d, c') → ReachRO H c0 c'
  | seek {c0 c c' : Cont} (pi : Nat) (off : Int) (wh n : Nat) :
      ReachRO H c0 c → contSeek c pi off wh = .ok (n, c') → ReachRO H c0 c'
  | blk {c0 c c' : Cont} (pi level block : Nat) (vf dv : Bool) (r : Bytes × Option Bool) :
      ReachRO H c0 c → contBlock H c pi level block vf dv = .ok (r, c') → ReachRO H c0 c'

end Save
end Pyctr
