/-
  DISA / DIFF containers: open (header parse, active table choice, table hash check, partition load), the verified
  level-4 reader/writer, hash propagation (`IVFCHashTree.write_data`), descriptor/header/CMAC update.
  State is the file content plus everything the real objects keep in memory (header copy, master hashes, the DPFS
  bitmaps assembled at open time, the verification caches, the reader position).
-/
import PyctrModel.Save.Tree
namespace Pyctr
namespace Save

inductive Kind | disa | diff
  deriving Repr, DecidableEq

structure PartSt where
  index : Nat
  descOff : Nat            -- DISA: offset of the descriptor inside the table; DIFF: 0
  descSize : Nat           -- `len(partdesc)`
  pOff : Nat
  pSize : Nat
  difi : Difi
  ivfc : Ivfc
  dpfs : Dpfs
  master : List Bytes
  dp : Dp
  caches : Caches
  seek : Nat               -- position of the level-4 reader

def PartSt.tree (p : PartSt) : Tree :=
  ⟨p.ivfc, if p.difi.externalLv4 then some (p.difi.externalOffset, p.ivfc.lv4.size) else none, p.dp⟩

structure Cont where
  kind : Kind
  F : Bytes
  header : Bytes
  tableOff : Nat
  tableSize : Nat
  parts : List PartSt
  writable : Bool

def diffMagic : Bytes := [0x44, 0x49, 0x46, 0x46, 0, 0, 3, 0]
def disaMagic : Bytes := [0x44, 0x49, 0x53, 0x41, 0, 0, 4, 0]

def loadPartition (F : Bytes) (index descOff : Nat) (partdesc : Bytes) (pOff pSize : Nat) : Except Err PartSt :=
  match loadPartdesc partdesc with
  | .error e => .error e
  | .ok d =>
    .ok ⟨index, descOff, partdesc.length, pOff, pSize, d.difi, d.ivfc, d.dpfs, d.master,
      mkDp (slice F pOff pSize) d.dpfs d.difi.selector, Caches.empty, 0⟩

/-- active descriptor offset of a DIFF header -/
def diffDescOff (header : Bytes) : Nat := if le header 0x30 4 = 0 then le header 0x10 8 else le header 0x8 8

/-- active table offset of a DISA header -/
def disaTableOff (header : Bytes) : Nat := if (header.getD 0x68 0).toNat = 0 then le header 0x18 8 else le header 0x10 8

def openDiff (H : Bytes → Bytes) (F : Bytes) (writable : Bool) : Except Err Cont :=
  let header := slice F 0x100 0x100
  if slice header 0 8 ≠ diffMagic then .error (.other "InvalidPartitionContainerError")
  else if H (slice F (diffDescOff header) (le header 0x18 8)) ≠ slice header 0x34 0x20 then
    .error (.other "CorruptPartitionError")
  else
    match loadPartition F 0 0 (slice F (diffDescOff header) (le header 0x18 8)) (le header 0x20 8) (le header 0x28 8) with
    | .error e => .error e
    | .ok p => .ok ⟨.diff, F, header, diffDescOff header, le header 0x18 8, [p], writable⟩

def openDisa (H : Bytes → Bytes) (F : Bytes) (writable : Bool) : Except Err Cont :=
  let header := slice F 0x100 0x100
  if slice header 0 8 ≠ disaMagic then
    if slice header 0 0x20 = zeros 0x20 then .error (.other "UnformattedSaveError")
    else .error (.other "InvalidPartitionContainerError")
  else
    let tableOff := disaTableOff header
    let tableSize := le header 0x20 8
    let table := slice F tableOff tableSize
    if H table ≠ slice header 0x6C 0x20 then .error (.other "CorruptPartitionError")
    else
      match loadPartition F 0 (le header 0x28 8) (slice table (le header 0x28 8) (le header 0x30 8)) (le header 0x48 8)
          (le header 0x50 8) with
      | .error e => .error e
      | .ok pa =>
        if le header 0x8 4 = 2 then
          match loadPartition F 1 (le header 0x38 8) (slice table (le header 0x38 8) (le header 0x40 8)) (le header 0x58 8)
              (le header 0x60 8) with
          | .error e => .error e
          | .ok pb => .ok ⟨.disa, F, header, tableOff, tableSize, [pa, pb], writable⟩
        else .ok ⟨.disa, F, header, tableOff, tableSize, [pa], writable⟩

def openCont (H : Bytes → Bytes) (kind : Kind) (F : Bytes) (writable : Bool) : Except Err Cont :=
  match kind with
  | .diff => openDiff H F writable
  | .disa => openDisa H F writable

/-! ### writes -/

/-- `level_fp.seek(off); level_fp.write(data)` for level `idx` -/
def levelWrite (w : Win) (t : Tree) (idx : Nat) (off : Nat) (data : Bytes) : Except Err (Nat × Win) :=
  let lv := t.level idx
  let pos := min off lv.size
  let data := data.take (lv.size - pos)
  match (if 3 ≤ idx then t.external else none) with
  | some (eo, es) =>
    -- SubsectionIO(partition, eo, es): same clamping once more
    let pos' := min pos es
    let data := data.take (es - pos')
    .ok (w.write (eo + pos') data)
  | none => dpWrite w t.dp (min (lv.offset + pos) t.dp.lv3.size) data

/-- one `read(bs)` of the re-read loop: state = (position of the level file, hashes so far) -/
def rereadStep (H : Bytes → Bytes) (P : Bytes) (t : Tree) (idx : Nat) (acc : Except Err (Nat × List Bytes)) (_i : Nat) :
    Except Err (Nat × List Bytes) :=
  match acc with
  | .error e => .error e
  | .ok (pos, hs) =>
    match levelRead P t idx pos (t.level idx).bs with
    | .error e => .error e
    | .ok d => .ok (pos + d.length, hs ++ [H (ljustZero d (t.level idx).bs)])

/-- the re-read of the touched blocks: `level_fp.seek(sb * bs)` then one `read(bs)` per block, sequentially -/
def rereadBlocks (H : Bytes → Bytes) (P : Bytes) (t : Tree) (idx : Nat) (sb n : Nat) : Except Err (List Bytes) :=
  ((List.range n).foldl (rereadStep H P t idx) (.ok (min (sb * (t.level idx).bs) (t.level idx).size, []))).map (·.2)

structure WState where
  w : Win
  master : List Bytes
  caches : Caches
  masterTouched : Bool

/-- `IVFCHashTree.write_data(level, offset, data)` (recursion on the level index) -/
def writeData (H : Bytes → Bytes) (t : Tree) : (idx : Nat) → Nat → Bytes → WState → Except Err WState
  | idx, offset, data, s =>
    let lv := t.level idx
    let bs := lv.bs
    let sb := offset / bs
    let eb := max ((offset + data.length + bs - 1) / bs - 1) sb
    match levelWrite s.w t idx offset data with
    | .error e => .error e
    | .ok (_, w') =>
      let caches := (List.range (eb + 1 - sb)).foldl (fun c i => c.drop idx (sb + i)) s.caches
      match rereadBlocks H w'.bytes t idx sb (eb + 1 - sb) with
      | .error e => .error e
      | .ok hashes =>
        match idx with
        | 0 =>
          -- self._master_hashes[idx] = h  (IndexError past the end of the list)
          if sb + hashes.length > s.master.length then .error .indexError
          else
            let master := (List.range hashes.length).foldl (fun (m : List Bytes) i => m.set (sb + i) (hashes.getD i [])) s.master
            .ok ⟨w', master, caches, true⟩
        | up + 1 => writeData H t up (sb * 0x20) hashes.flatten ⟨w', s.master, caches, s.masterTouched⟩

/-- CMAC schemes of `cmac.py`: the bytes that are hashed (after the magic) for a given header -/
structure CmacScheme where
  magic : Bytes
  pre : Bytes              -- concatenated id fields that precede the header part
  sav0 : Bool              -- header part is `sha256('CTR-SAV0' + header)` (NOR0, SIGN) rather than the header itself
  key : Bytes              -- normal key of the scheme's keyslot

def sav0Magic : Bytes := [0x43, 0x54, 0x52, 0x2D, 0x53, 0x41, 0x56, 0x30]

/-- `generate_cmac(header)`; `mac` = AES-CMAC -/
def genCmac (H : Bytes → Bytes) (mac : Bytes → Bytes → Bytes) (c : CmacScheme) (header : Bytes) : Except Err Bytes :=
  if c.sav0 then
    if header.length ≠ 0x100 then .error (.other "InvalidDataError")
    else if slice header 0 4 ≠ [0x44, 0x49, 0x53, 0x41] then .error (.other "InvalidDataError")
    else .ok (mac c.key (H (c.magic ++ c.pre ++ H (sav0Magic ++ header))))
  else .ok (mac c.key (H (c.magic ++ c.pre ++ header)))

/-- container `_update_hashes(index, partdesc)` + `_update_cmac()` -/
def updateHashes (H : Bytes → Bytes) (mac : Bytes → Bytes → Bytes) (cm : Option CmacScheme) (c : Cont) (F : Bytes)
    (p : PartSt) (partdesc : Bytes) : Except Err (Bytes × Bytes) :=
  -- (the caller has already established `writable`)
  let wr (F : Bytes) (pos : Nat) (d : Bytes) : Bytes := if d.isEmpty then F else overlay F pos d
  let (F, digest) := match c.kind with
    | .diff => (wr F c.tableOff partdesc, H partdesc)
    | .disa =>
      let F := wr F (c.tableOff + p.descOff) partdesc
      (F, H (slice F c.tableOff c.tableSize))
  let hoff := match c.kind with | .diff => 0x34 | .disa => 0x6C
  let header := assign c.header hoff digest
  let F := wr F 0x100 header
  match cm with
  | none => .ok (F, header)
  | some sch =>
    match genCmac H mac sch header with
    | .error e => .error e
    | .ok m => .ok (wr F 0 m, header)

/-- `IVFCLevel4Reader.write(data)` on partition `pi` -/
def lv4Write (H : Bytes → Bytes) (mac : Bytes → Bytes → Bytes) (cm : Option CmacScheme) (c : Cont) (pi : Nat) (data : Bytes) :
    Except Err (Nat × Cont) :=
  match c.parts[pi]? with
  | none => .error .keyError
  | some p =>
    let lv4 := p.ivfc.lv4
    let data := if p.seek + data.length > lv4.size then data.take (lv4.size - p.seek) else data
    if data.isEmpty then .ok (0, c)
    else if !c.writable then .error (.other "IVFCReadOnlyError")
    else
      match writeData H p.tree 3 p.seek data ⟨⟨c.F, p.pOff, p.pSize⟩, p.master, p.caches, false⟩ with
      | .error e => .error e
      | .ok s =>
        let p' := { p with master := s.master, caches := s.caches, seek := p.seek + data.length }
        if s.masterTouched then
          match partdescToBytes ⟨p.difi, p.ivfc, p.dpfs, s.master⟩ p.descSize with
          | none => .error (.other "OverflowError")
          | some pd =>
            match updateHashes H mac cm c s.w.F p pd with
            | .error e => .error e
            | .ok (F, header) => .ok (data.length, { c with F := F, header := header, parts := c.parts.set pi p' })
        else .ok (data.length, { c with F := s.w.F, parts := c.parts.set pi p' })

/-- `IVFCLevel4Reader.read(size)` on partition `pi` -/
def contRead (H : Bytes → Bytes) (c : Cont) (pi : Nat) (size : Int) : Except Err (Bytes × Cont) :=
  match c.parts[pi]? with
  | none => .error .keyError
  | some p =>
    match lv4Read H (slice c.F p.pOff p.pSize) p.tree p.master p.seek size p.caches with
    | .error e => .error e
    | .ok (d, caches) => .ok (d, { c with parts := c.parts.set pi { p with caches := caches, seek := p.seek + d.length } })

/-- `IVFCLevel4Reader.seek` -/
def contSeek (c : Cont) (pi : Nat) (off : Int) (whence : Nat) : Except Err (Nat × Cont) :=
  match c.parts[pi]? with
  | none => .error .keyError
  | some p =>
    let lv4 := p.ivfc.lv4
    let r : Except Err Nat :=
      if whence = 0 then (if off < 0 then .error .valueError else .ok (min off.toNat lv4.size))
      else if whence = 1 then .ok ((p.seek : Int) + off).toNat
      else if whence = 2 then .ok ((lv4.size : Int) + off).toNat
      else .ok p.seek
    match r with
    | .error e => .error e
    | .ok s => .ok (s, { c with parts := c.parts.set pi { p with seek := s } })

/-- `tree.get_block(level, block, verify=, deep_verify=)` -/
def contBlock (H : Bytes → Bytes) (c : Cont) (pi level block : Nat) (verify deepV : Bool) :
    Except Err ((Bytes × Option Bool) × Cont) :=
  match c.parts[pi]? with
  | none => .error .keyError
  | some p =>
    if level = 0 ∨ level > 4 then .error .indexError
    else
      match getBlock H (slice c.F p.pOff p.pSize) p.tree p.master (level - 1) block verify deepV p.caches with
      | .error e => .error e
      | .ok (d, v, caches) => .ok ((d, v), { c with parts := c.parts.set pi { p with caches := caches } })

/-- `partition.dpfs_lv3_file.seek(off); .read(n)` -/
def contDpRead (c : Cont) (pi off : Nat) (n : Int) : Except Err Bytes :=
  match c.parts[pi]? with
  | none => .error .keyError
  | some p => dpRead (slice c.F p.pOff p.pSize) p.dp (min off p.dp.lv3.size) n

/-- `partition.dpfs_lv3_file.seek(off); .write(data)` -/
def contDpWrite (c : Cont) (pi off : Nat) (data : Bytes) : Except Err (Nat × Cont) :=
  match c.parts[pi]? with
  | none => .error .keyError
  | some p =>
    if !c.writable then .error (.other "DPFSReadOnlyError")
    else
      match dpWrite ⟨c.F, p.pOff, p.pSize⟩ p.dp (min off p.dp.lv3.size) data with
      | .error e => .error e
      | .ok (n, w) => .ok (n, { c with F := w.F })

end Save
end Pyctr
