/-
  Save partition descriptors: DIFI, IVFC, DPFS (`from_bytes` / `to_bytes`) and `load_partdesc` / `partdesc_to_bytes`.
-/
import PyctrModel.Base.AFile
namespace Pyctr
namespace Save

structure Level where
  offset : Nat
  size : Nat
  log2 : Nat
  deriving Repr, DecidableEq

def Level.bs (l : Level) : Nat := 2 ^ l.log2

structure Difi where
  ivfcOffset : Nat
  ivfcSize : Nat
  dpfsOffset : Nat
  dpfsSize : Nat
  hashOffset : Nat
  hashSize : Nat
  externalLv4 : Bool
  selector : Nat
  externalOffset : Nat
  deriving Repr, DecidableEq

structure Ivfc where
  masterHashSize : Nat
  lv1 : Level
  lv2 : Level
  lv3 : Level
  lv4 : Level
  descSize : Nat
  deriving Repr, DecidableEq

structure Dpfs where
  lv1 : Level
  lv2 : Level
  lv3 : Level
  deriving Repr, DecidableEq

def le (d : Bytes) (a n : Nat) : Nat := readLE (slice d a n)

def difiMagic : Bytes := [0x44, 0x49, 0x46, 0x49, 0, 0, 1, 0]
def ivfcMagic : Bytes := [0x49, 0x56, 0x46, 0x43, 0, 0, 2, 0]
def dpfsMagic : Bytes := [0x44, 0x50, 0x46, 0x53, 0, 0, 1, 0]

def Difi.fromBytes (d : Bytes) : Except Err Difi :=
  if slice d 0 8 ≠ difiMagic then .error (.other "InvalidHeaderError")
  else if d.length ≠ 0x44 then .error (.other "InvalidHeaderLengthError")
  else .ok ⟨le d 8 8, le d 0x10 8, le d 0x18 8, le d 0x20 8, le d 0x28 8, le d 0x30 8, d.getD 0x38 0 != 0,
            (d.getD 0x39 0).toNat, le d 0x3C 8⟩

/-- `to_bytes`; `none` = OverflowError (a field does not fit) -/
def Difi.toBytes (x : Difi) : Option Bytes :=
  if x.ivfcOffset ≥ 2 ^ 64 ∨ x.ivfcSize ≥ 2 ^ 64 ∨ x.dpfsOffset ≥ 2 ^ 64 ∨ x.dpfsSize ≥ 2 ^ 64 ∨ x.hashOffset ≥ 2 ^ 64 ∨
     x.hashSize ≥ 2 ^ 64 ∨ x.selector ≥ 256 ∨ x.externalOffset ≥ 2 ^ 64 then none
  else some (difiMagic ++ toLE 8 x.ivfcOffset ++ toLE 8 x.ivfcSize ++ toLE 8 x.dpfsOffset ++ toLE 8 x.dpfsSize ++
    toLE 8 x.hashOffset ++ toLE 8 x.hashSize ++ [if x.externalLv4 then 1 else 0] ++ [UInt8.ofNat x.selector] ++ [0, 0] ++
    toLE 8 x.externalOffset)

def levelAt (d : Bytes) (offs : Nat) : Level := ⟨le d offs 8, le d (offs + 8) 8, le d (offs + 0x10) 4⟩

def Level.toBytes (l : Level) : Bytes := toLE 8 l.offset ++ toLE 8 l.size ++ toLE 4 l.log2 ++ [0, 0, 0, 0]

def Level.fits (l : Level) : Prop := l.offset < 2 ^ 64 ∧ l.size < 2 ^ 64 ∧ l.log2 < 2 ^ 32
instance (l : Level) : Decidable l.fits := by unfold Level.fits; infer_instance

/-- the exponent check of `from_bytes`: a level whose block-size exponent exceeds 63 is rejected -/
def Level.sane (l : Level) : Bool := l.log2 ≤ 0x3F

def Ivfc.fromBytes (d : Bytes) : Except Err Ivfc :=
  if slice d 0 8 ≠ ivfcMagic then .error (.other "InvalidHeaderError")
  else if d.length ≠ 0x78 then .error (.other "InvalidHeaderLengthError")
  else if !((levelAt d 0x10).sane && (levelAt d 0x28).sane && (levelAt d 0x40).sane && (levelAt d 0x58).sane) then
    .error (.other "InvalidHeaderError")
  else .ok ⟨le d 8 8, levelAt d 0x10, levelAt d 0x28, levelAt d 0x40, levelAt d 0x58, le d 0x70 8⟩

def Ivfc.toBytes (x : Ivfc) : Option Bytes :=
  if x.masterHashSize < 2 ^ 64 ∧ x.lv1.fits ∧ x.lv2.fits ∧ x.lv3.fits ∧ x.lv4.fits ∧ x.descSize < 2 ^ 64 then
    some (ivfcMagic ++ toLE 8 x.masterHashSize ++ x.lv1.toBytes ++ x.lv2.toBytes ++ x.lv3.toBytes ++ x.lv4.toBytes ++
      toLE 8 x.descSize)
  else none

def Dpfs.fromBytes (d : Bytes) : Except Err Dpfs :=
  if slice d 0 8 ≠ dpfsMagic then .error (.other "InvalidHeaderError")
  else if d.length ≠ 0x50 then .error (.other "InvalidHeaderLengthError")
  else if !((levelAt d 0x8).sane && (levelAt d 0x20).sane && (levelAt d 0x38).sane) then .error (.other "InvalidHeaderError")
  else .ok ⟨levelAt d 0x8, levelAt d 0x20, levelAt d 0x38⟩

def Dpfs.toBytes (x : Dpfs) : Option Bytes :=
  if x.lv1.fits ∧ x.lv2.fits ∧ x.lv3.fits then
    some (dpfsMagic ++ x.lv1.toBytes ++ x.lv2.toBytes ++ x.lv3.toBytes)
  else none

structure PartDesc where
  difi : Difi
  ivfc : Ivfc
  dpfs : Dpfs
  master : List Bytes
  deriving Repr, DecidableEq

/-- `[base[x:x+0x20] for x in range(0, size, 0x20)]` -/
def splitHashes (base : Bytes) : Nat → Nat → List Bytes
  | 0, _ => []
  | n+1, x => slice base x 0x20 :: splitHashes base n (x + 0x20)

def loadPartdesc (pd : Bytes) : Except Err PartDesc :=
  match Difi.fromBytes (slice pd 0 0x44) with
  | .error e => .error e
  | .ok difi =>
    match Ivfc.fromBytes (slice pd difi.ivfcOffset difi.ivfcSize) with
    | .error e => .error e
    | .ok ivfc =>
      match Dpfs.fromBytes (slice pd difi.dpfsOffset difi.dpfsSize) with
      | .error e => .error e
      | .ok dpfs =>
        let base := slice pd difi.hashOffset difi.hashSize
        .ok ⟨difi, ivfc, dpfs, splitHashes base ((base.length + 0x1F) / 0x20) 0⟩

/-- `partdesc[a:a+len(w)] = w` on a bytearray of fixed size `d.length` (slice assignment with equal lengths, possibly
    extending at the end like Python does) -/
def assign (d : Bytes) (a : Nat) (w : Bytes) : Bytes :=
  d.take a ++ w ++ d.drop (a + w.length)

def partdescToBytes (x : PartDesc) (size : Nat) : Option Bytes :=
  match x.difi.toBytes, x.ivfc.toBytes, x.dpfs.toBytes with
  | some a, some b, some c =>
    let pd := zeros size
    let pd := assign pd 0 a
    let pd := assign pd x.difi.ivfcOffset b
    let pd := assign pd x.difi.dpfsOffset c
    some (assign pd x.difi.hashOffset x.master.flatten)
  | _, _, _ => none

end Save
end Pyctr
