/-
  C15: threads, locks and shared position-carrying objects.

  A thread is a list of events.  `seek x p` sets the position of shared object `x`; `use x` is any call whose effect
  depends on that position (read / write / tell / relative seek) and moves it by an amount the model leaves open; `acq` /
  `rel` take and release a (non-reentrant) lock.  One event = one call on a shared object = atomic (the GIL makes the
  C-level file calls atomic; see DESIGN.md for what this leaves out).
-/
namespace Pyctr
namespace Sched

inductive Ev
  | acq (l : Nat)
  | rel (l : Nat)
  | seek (x p : Nat)
  | use (x : Nat)
  deriving Repr, DecidableEq

/-- what a thread knows about itself: the locks it holds, the position it last set per object (and has not yet used up or
    lost by leaving the critical section), and the events still to run -/
structure TCfg where
  held : List Nat
  pend : List (Nat × Nat)          -- object ↦ position set by this thread in the current critical section
  todo : List Ev
  deriving Repr

def pendGet (pend : List (Nat × Nat)) (x : Nat) : Option Nat := (pend.find? (·.1 == x)).map (·.2)
def pendSet (pend : List (Nat × Nat)) (x p : Nat) : List (Nat × Nat) := (x, p) :: pend.filter (·.1 != x)
def pendDrop (pend : List (Nat × Nat)) (f : Nat → Bool) : List (Nat × Nat) := pend.filter (fun e => !f e.1)

/-- the thread-local effect of its next event (independent of the other threads) -/
def TCfg.advance (guard : Nat → Nat) (c : TCfg) : TCfg :=
  match c.todo with
  | [] => c
  | .acq l :: rest => { c with held := l :: c.held, todo := rest }
  | .rel l :: rest => { held := c.held.erase l, pend := pendDrop c.pend (fun x => guard x == l), todo := rest }
  | .seek x p :: rest => { c with pend := pendSet c.pend x p, todo := rest }
  | .use _ :: rest => { c with todo := rest }        -- the position moved; `step` records the new value

/-- **the lock discipline**, checked on a thread's program alone: every access to a shared object happens while holding the
    object's guard lock; every position-dependent call is preceded, in the same critical section, by the thread's own
    `seek`; locks are taken when not held and released when held -/
def disciplined (guard : Nat → Nat) : Nat → TCfg → Bool
  | 0, c => c.todo.isEmpty
  | n + 1, c =>
    match c.todo with
    | [] => true
    | .acq l :: _ => !c.held.contains l && disciplined guard n (c.advance guard)
    | .rel l :: _ => c.held.contains l && disciplined guard n (c.advance guard)
    | .seek x _ :: _ => c.held.contains (guard x) && disciplined guard n (c.advance guard)
    | .use x :: _ => c.held.contains (guard x) && (pendGet c.pend x).isSome && disciplined guard n (c.advance guard)

/-- **ordered acquisition**, checked on a thread's program alone: a lock is only taken while every lock already held has a
    smaller rank, and the program ends with nothing held -/
def ordered (guard : Nat → Nat) (rank : Nat → Nat) : Nat → TCfg → Bool
  | 0, c => c.todo.isEmpty && c.held.isEmpty
  | n + 1, c =>
    match c.todo with
    | [] => c.held.isEmpty
    | .acq l :: _ => c.held.all (fun h => decide (rank h < rank l)) && ordered guard rank n (c.advance guard)
    | _ :: _ => ordered guard rank n (c.advance guard)

/-- global state: object positions, lock owners, the threads -/
structure St where
  pos : Nat → Nat
  owner : Nat → Option Nat
  ths : List TCfg

/-- thread `t` runs its next event; `k` = how far a `use` moves the position.  Returns the new state and, for a `use`, the
    position it observed. -/
def step (guard : Nat → Nat) (s : St) (t k : Nat) : Option (St × Option (Nat × Nat)) :=
  match s.ths[t]? with
  | none => none
  | some c =>
    match c.todo with
    | [] => none
    | .acq l :: _ =>
      if s.owner l = none then
        some ({ s with owner := fun m => if m = l then some t else s.owner m, ths := s.ths.set t (c.advance guard) }, none)
      else none                       -- blocked
    | .rel l :: _ =>
      some ({ s with owner := fun m => if m = l then none else s.owner m, ths := s.ths.set t (c.advance guard) }, none)
    | .seek x p :: _ =>
      some ({ s with pos := fun y => if y = x then p else s.pos y, ths := s.ths.set t (c.advance guard) }, none)
    | .use x :: _ =>
      -- the call observes the position and moves it by `k`; the thread keeps knowing where the object now stands
      some ({ s with pos := fun y => if y = x then s.pos x + k else s.pos y,
                     ths := s.ths.set t { (c.advance guard) with pend := pendSet (c.advance guard).pend x (s.pos x + k) } },
            some (x, s.pos x))

end Sched
end Pyctr
