/-
  C16: the close / use-after-close logic of every reader, handle and wrapper class as an object graph.

  An object has a `closed` flag and four static fields that transcribe its class:
    * `owns`     — the objects its `close()` closes when `closefd` is set (`_file`, `_reader`, the merger's files);
    * `tracked`  — the objects its `close()` always closes (`_open_files`, nested readers, base wrappers, partitions);
    * `look`     — the object whose `closed` its I/O methods consult first (`_raise_if_file_closed`: one level, latching);
    * `through`  — the objects a `read()` calls into, in order (a position-only call — `tell` — calls nothing).
  `closeOnce` is the `if not self.closed:` guard of the reader classes.
-/
import PyctrModel.Base.AFile
namespace Pyctr
namespace Close

structure Obj where
  closed : Bool := false
  closeOnce : Bool := false
  closefd : Bool := false
  owns : List Nat := []
  tracked : List Nat := []
  look : Option Nat := none
  through : List Nat := []
  tellThrough : Bool := false        -- position calls delegate as well (pyfilesystem's RawWrapper)
  flushOnClose : Option Nat := none  -- `close()` first flushes this object (IOBase.close → flush → inner.flush)
  deriving Repr, DecidableEq, Inhabited

abbrev Heap := List Obj

inductive IoOp | read | tell
  deriving Repr, DecidableEq

/-- the one-level closed check of `_raise_if_file_closed`: is the consulted object closed? -/
def latched (H : Heap) (o : Obj) : Bool :=
  match o.look with
  | some j => (H[j]?.map Obj.closed).getD false
  | none => false

/-- the object after the closed-check of an I/O method (the check latches `closed`) -/
def afterCheck (H : Heap) (o : Obj) : Obj := if latched H o then { o with closed := true } else o

/-- an I/O call: `true` = raised ValueError.  The closed-check latches; a `read` goes on into the `through` objects. -/
def ioObj : Nat → Heap → Nat → IoOp → Bool × Heap
  | 0, H, _, _ => (false, H)
  | n + 1, H, i, op =>
    match H[i]? with
    | none => (false, H)
    | some o =>
      if (afterCheck H o).closed then (true, H.set i (afterCheck H o))
      else if op = .tell && !o.tellThrough then (false, H.set i (afterCheck H o))
      else
        o.through.foldl (fun (acc : Bool × Heap) j => if acc.1 then acc else ioObj n acc.2 j op)
          (false, H.set i (afterCheck H o))

/-- does `obj.close()` raise?  Only a wrapper that flushes a closed inner object does (pyfilesystem's RawWrapper). -/
def closeRaises (n : Nat) (H : Heap) (i : Nat) : Bool :=
  match H[i]? with
  | none => false
  | some o =>
    match o.flushOnClose with
    | some j => !o.closed && (ioObj n H j .tell).1
    | none => false

/-- the flush a flushing wrapper performs at the start of `close()`: (raised?, heap after the latching check) -/
def flushStep (n : Nat) (H : Heap) (o : Obj) : Bool × Heap :=
  match o.flushOnClose with
  | some j => if o.closed then (true, H) else ioObj n H j .tell
  | none => (false, H)

/-- `obj.close()`; fuel bounds the depth of the (acyclic) ownership graph -/
def closeObj : Nat → Heap → Nat → Heap
  | 0, H, _ => H
  | n + 1, H, i =>
    match H[i]? with
    | none => H
    | some o =>
      if o.closeOnce && o.closed then H
      else
        -- a flushing wrapper: the flush may raise (then the inner close is skipped); the flag is set either way
        let H1 := (flushStep n H o).2.set i { o with closed := true }
        if (flushStep n H o).1 then H1
        else
          o.tracked.foldl (closeObj n) (if o.closefd then o.owns.foldl (closeObj n) H1 else H1)

/-- the objects whose flag an I/O call on `i` may latch (static over-approximation: `i` and everything it reads through) -/
def ioReach : Nat → Heap → Nat → List Nat
  | 0, _, _ => []
  | n + 1, H, i =>
    match H[i]? with
    | none => []
    | some o => i :: o.through.flatMap (ioReach n H)

/-- the objects a `close()` of `i` may touch (static over-approximation): itself, what its flush reads through, what it owns
    (when `closefd`), what it tracks, recursively -/
def reach : Nat → Heap → Nat → List Nat
  | 0, _, _ => []
  | n + 1, H, i =>
    match H[i]? with
    | none => []
    | some o =>
      i :: ((match o.flushOnClose with | some j => ioReach n H j | none => []) ++
        (if o.closefd then o.owns.flatMap (reach n H) else []) ++ o.tracked.flatMap (reach n H))

/-- what `close()` of an object goes on to close: what it owns when `closefd`, and what it tracks -/
def kids (o : Obj) : List Nat := (if o.closefd then o.owns else []) ++ o.tracked

def rankedB (rk : Nat → Nat) (H : Heap) : Bool :=
  (List.range H.length).all fun i => match H[i]? with
    | some o => (kids o).all fun k => decide (rk k < rk i)
    | none => true

def noFlushB (H : Heap) : Bool := H.all fun o => o.flushOnClose.isNone

def freshB (H : Heap) : Bool := H.all fun o => !o.closeOnce || !o.closed

/-- depth of an object in the close graph (a ranking, when the graph is acyclic and the fuel suffices) -/
def depthRank : Nat → Heap → Nat → Nat
  | 0, _, _ => 0
  | n + 1, H, i =>
    match H[i]? with
    | none => 0
    | some o => 1 + ((kids o).map (depthRank n H)).foldl max 0

/-! ### the transcription: what each constructor / open method allocates -/

structure World where
  heap : Heap := []
  names : List (String × Nat) := []
  kinds : List (String × String) := []      -- reader name ↦ reader kind (for `open`)

def World.alloc (w : World) (name : String) (o : Obj) : World × Nat :=
  ({ w with heap := w.heap ++ [o], names := (name, w.heap.length) :: w.names }, w.heap.length)

def World.id? (w : World) (name : String) : Option Nat := (w.names.find? (·.1 == name)).map (·.2)

def World.track (w : World) (reader handle : Nat) : World :=
  match w.heap[reader]? with
  | some o => { w with heap := w.heap.set reader { o with tracked := o.tracked ++ [handle] } }
  | none => w

/-- a plain file object (BytesIO, OS file): raises once closed, closes nothing else -/
def rawFile : Obj := {}

/-- `SubsectionIO(inner, …)` / `CloseWrapper(inner)`: one-level look at `inner.closed`, reads through it, `close()` only sets the flag -/
def window (inner : Nat) : Obj := { look := some inner, through := [inner] }

/-- `CTRFileIO` / `TWLCTRFileIO` / `CBCFileIO(inner, closefd=cfd)` -/
def cryptoWrap (inner : Nat) (cfd : Bool) : Obj := { look := some inner, through := [inner], closefd := cfd, owns := [inner] }

/-- a `TypeReaderBase` subclass over file `f` -/
def readerObj (f : Nat) (cfd : Bool) : Obj := { closeOnce := true, closefd := cfd, owns := [f] }

inductive Src | obj (name : String) | path        -- caller's file object, or path / fs+path (the reader opens the file)
  deriving Repr

/-- `TypeReaderBase.__init__`: the file and the closefd decision; `dflt` = the class's default for the closefd argument -/
def World.openFile (w : World) (name : String) (src : Src) (cfd : Option Bool) : Option (World × Nat × Bool) :=
  match src with
  | .obj f => (w.id? f).map fun id => (w, id, cfd.getD false)
  | .path => let (w', id) := w.alloc (name ++ ".file") rawFile; some (w', id, cfd.getD true)

/-- a handle `SubsectionIO(reader._file)` registered in the reader's open files -/
def World.openWindow (w : World) (name : String) (reader file : Nat) : World × Nat :=
  let (w, h) := w.alloc name (window file)
  (w.track reader h, h)

/-- a handle `wrapper(SubsectionIO(reader._file), closefd=True)`: only the wrapper is registered -/
def World.openWrapped (w : World) (name : String) (reader file : Nat) : World × Nat :=
  let (w, s) := w.alloc (name ++ ".sub") (window file)
  let (w, h) := w.alloc name (cryptoWrap s true)
  (w.track reader h, h)

/-- `ExeFSReader(fp, closefd=False)` / `RomFSReader(fp)` nested in an NCCH: a reader over an existing handle, tracked by the parent -/
def World.nestedReader (w : World) (name : String) (parent fp : Nat) : World × Nat :=
  let (w, r) := w.alloc name (readerObj fp false)
  (w.track parent r, r)

inductive NcchFlavour | plain | encSplit | encSimple
  deriving Repr, DecidableEq

/-- `NCCHReader(file)`: reader, ExeFS handle + nested ExeFSReader, RomFS handle + nested RomFSReader -/
def NcchFlavour.kind : NcchFlavour → String
  | .plain => "ncch-plain" | .encSplit => "ncch-split" | .encSimple => "ncch-simple"

def World.setKind (w : World) (name kind : String) : World := { w with kinds := (name, kind) :: w.kinds }
def World.kind? (w : World) (name : String) : Option String := (w.kinds.find? (·.1 == name)).map (·.2)

/-- the merged ExeFS view of an NCCH whose ExeFS uses two keys: two registered windows, each under an unregistered CTR
    wrapper (closefd False), range windows on the wrappers, and the registered merger that owns the ranges -/
def World.openMerged (w : World) (name : String) (r file : Nat) : World × Nat :=
  let (w, s1) := w.openWindow (name ++ ".main_sub") r file
  let (w, c1) := w.alloc (name ++ ".main") (cryptoWrap s1 false)
  let (w, s2) := w.openWindow (name ++ ".extra_sub") r file
  let (w, c2) := w.alloc (name ++ ".extra") (cryptoWrap s2 false)
  let (w, r1) := w.alloc (name ++ ".r1") (window c1)
  let (w, r2) := w.alloc (name ++ ".r2") (window c2)
  let (w, r3) := w.alloc (name ++ ".r3") (window c1)
  let (w, m) := w.alloc name { closefd := true, owns := [r1, r2, r3], through := [r1, r2, r3] }
  (w.track r m, m)

def World.mkNcch (w : World) (name : String) (file : Nat) (cfd : Bool) (fl : NcchFlavour) : World × Nat :=
  let (w, r) := w.alloc name (readerObj file cfd)
  let w := w.setKind name fl.kind
  -- ExeFS
  let (w, efp) :=
    match fl with
    | .plain => w.openWindow (name ++ ".exefs_fp") r file
    | .encSimple => w.openWrapped (name ++ ".exefs_fp") r file
    | .encSplit =>
      -- the temporary reader's file: a registered CTR(closefd=True) handle
      let (w, _) := w.openWrapped (name ++ ".exefs_tmp_fp") r file
      w.openMerged (name ++ ".exefs_fp") r file
  let (w, _) := w.nestedReader (name ++ ".exefs") r efp
  let w := w.setKind (name ++ ".exefs") "exefs"
  -- RomFS
  let (w, rfp) := if fl = .plain then w.openWindow (name ++ ".romfs_fp") r file else w.openWrapped (name ++ ".romfs_fp") r file
  let (w, _) := w.nestedReader (name ++ ".romfs") r rfp
  let w := w.setKind (name ++ ".romfs") "romfs"
  (w, r)

/-- the file a reader was built on (first entry of `owns`) -/
def World.fileOf (w : World) (reader : Nat) : Option Nat := (w.heap[reader]?).bind fun o => o.owns.head?

/-- `kind(src, closefd=cfd)` for every reader type -/
def World.mkReader (w : World) (kind name : String) (src : Src) (cfd : Option Bool) : Option World :=
  match kind with
  | "romfs" | "exefs" | "cci" | "cia" | "nand" | "diff" | "disa" | "diff-ext" | "disa-ext" | "ncch-plain" | "ncch-split"
  | "ncch-simple" =>
    match w.openFile name src cfd with
    | none => none
    | some (w, f, c) =>
      match kind with
      | "romfs" | "exefs" =>
        let (w, _) := w.alloc name (readerObj f c)
        some (w.setKind name kind)
      | "ncch-plain" => some (w.mkNcch name f c .plain).1
      | "ncch-split" => some (w.mkNcch name f c .encSplit).1
      | "ncch-simple" => some (w.mkNcch name f c .encSimple).1
      | "cia" | "cci" =>
        let (w, r) := w.alloc name (readerObj f c)
        let w := w.setKind name kind
        -- content 0: a registered handle (CBC-wrapped for the CIA) and an NCCH reader over it, tracked by the container
        let (w, fp) := if kind = "cia" then w.openWrapped (name ++ ".c0_fp") r f else w.openWindow (name ++ ".c0_fp") r f
        let (w, n) := w.mkNcch (name ++ ".c0") fp false .plain
        some (w.track r n)
      | "nand" =>
        let (w, r) := w.alloc name (readerObj f c)
        let w := w.setKind name kind
        let (w, s) := w.alloc (name ++ ".subfile") (window f)
        let (w, e) := w.nestedReader (name ++ ".ess") r s
        let w := w.setKind (name ++ ".ess") "exefs"
        let _ := e
        -- every base wrapper sits on a window of its own (not on `_subfile`)
        let mkBase (w : World) (nm : String) : World :=
          let (w, win) := w.alloc (name ++ "." ++ nm ++ ".win") (window f)
          let (w, b) := w.alloc (name ++ "." ++ nm) (cryptoWrap win false)
          w.track r b
        some (["ctr_old", "ctr_new", "firm", "agb", "twl"].foldl mkBase w)
      | _ =>
        -- DIFF (one partition) / DISA (two)
        let (w, r) := w.alloc name (readerObj f c)
        let w := w.setKind name kind
        let mkPart (w : World) (pn : String) : World :=
          let (w, p) := w.alloc (name ++ "." ++ pn ++ ".fp") (window f)
          let (w, w3) := w.alloc (name ++ "." ++ pn ++ ".lv3win") (window p)
          let (w, d) := w.alloc (name ++ "." ++ pn ++ ".lv3") { through := [w3] }
          let (w, _) := w.alloc (name ++ "." ++ pn ++ ".level") (window d)
          -- external level 4 (`enable_external_ivfc_lv4`): the level-4 file is a window on the PARTITION window, not on level 3
          let w := if kind = "diff-ext" || kind = "disa-ext" then (w.alloc (name ++ "." ++ pn ++ ".lv4ext") (window p)).1 else w
          let (w, part) := w.alloc (name ++ "." ++ pn) { tracked := [d, p] }
          let w := w.setKind (name ++ "." ++ pn) "partition"
          w.track r part
        some ((if kind = "disa" || kind = "disa-ext" then ["p0", "p1"] else ["p0"]).foldl mkPart w)
  | "cdn" | "sdtitle" =>
    -- directory based: no file of its own; content 0 is opened from the filesystem
    let (w, r) := w.alloc name { closeOnce := true }
    let w := w.setKind name kind
    let (w, x) := w.alloc (name ++ ".c0_file") rawFile
    let (w, fp) :=
      if kind = "cdn" then
        let (w, h) := w.alloc (name ++ ".c0_fp") (cryptoWrap x true)
        (w.track r h, h)
      else (w.track r x, x)
    let (w, n) := w.mkNcch (name ++ ".c0") fp false .plain
    some (w.track r n)
  | _ => none

/-- `reader.open…(…)`: the handle kinds each reader type offers -/
def World.openHandle (w : World) (reader hk hname : String) : Option World :=
  match w.id? reader, w.kind? reader with
  | some r, some kind =>
    let f := (w.fileOf r).getD 0
    let is (k h : String) : Bool := kind == k && hk == h
    if is "romfs" "open" then
      -- FS.open wraps the registered SubsectionIO in pyfilesystem's RawWrapper (which the reader does not know)
      let (w, s) := w.openWindow (hname ++ ".raw") r f
      some (w.alloc hname { through := [s], tellThrough := true, flushOnClose := some s, closefd := true, owns := [s] }).1
    else if is "romfs" "openbin" || is "exefs" "open" || is "cci" "raw-0" || is "cia" "raw-tmd" then
      some (w.openWindow hname r f).1
    else if is "exefs" "codedec" then
      -- `_ExeFSOpenFile` over the in-memory decompressed code: consults the reader, reads nothing else; registered
      let (w, h) := w.alloc hname { look := some r }
      some (w.track r h)
    else if is "cia" "raw-0" then some (w.openWrapped hname r f).1
    else if kind == "ncch-plain" && (hk == "raw-exefs" || hk == "raw-romfs" || hk == "raw-exh" || hk == "full") then
      some (w.openWindow hname r f).1
    else if is "ncch-simple" "raw-exefs" || is "ncch-simple" "raw-romfs" || is "ncch-simple" "raw-exh" ||
        is "ncch-split" "raw-romfs" || is "ncch-split" "raw-exh" then
      some (w.openWrapped hname r f).1
    else if is "ncch-split" "raw-exefs" then some (w.openMerged hname r f).1
    else if is "ncch-split" "full" || is "ncch-simple" "full" then
      -- `_NCCHSectionFile`: consults the reader, reads the reader's file; not registered
      some (w.alloc hname { look := some r, through := [f] }).1
    else if is "cdn" "raw-0" then
      let (w, x) := w.alloc (hname ++ ".file") rawFile
      let (w, h) := w.alloc hname (cryptoWrap x true)
      some (w.track r h)
    else if is "sdtitle" "raw-0" then
      let (w, x) := w.alloc hname rawFile
      some (w.track r x)
    else if is "nand" "raw-hdr" then (w.id? (reader ++ ".subfile")).map fun s => (w.openWindow hname r s).1
    else if is "nand" "raw-0" || is "nand" "twl-0" then (w.id? (reader ++ ".twl")).map fun b => (w.openWindow hname r b).1
    else if is "nand" "ctr-0" then (w.id? (reader ++ ".ctr_old")).map fun b => (w.openWindow hname r b).1
    else if is "partition" "lv4" then
      match w.id? (reader ++ ".lv3"), w.id? (reader ++ ".level") with
      | some d, some l =>
        match w.id? (reader ++ ".lv4ext") with
        | some e => some (w.alloc hname { look := some d, through := [l, e] }).1
        | none => some (w.alloc hname { look := some d, through := [l] }).1
      | _, _ => none
    else none
  | _, _ => none

end Close
end Pyctr
