/-
  C02 — random-access AES-CBC reads equal whole-stream decryption; the wrapper never writes.
  `D` is AES-128 decryption under the keyslot's normal key (a parameter).
-/
import Proofs.CbcRefines
import Proofs.SubRefines
import Proofs.PyFileRefines
import Proofs.Run
namespace Pyctr.C02
open Pyctr
variable {σ : Type} {F : FileOps σ} {inv : σ → Prop} {abs : σ → AFile} (D : Bytes → Bytes)

/-- decrypting an aligned window chained from the preceding ciphertext block (the IV at the start) is the
    corresponding window of the whole-stream plaintext -/
theorem C02_window (IV c : Bytes) (p0 m : Nat) (hp0 : p0 % 16 = 0) (hm : m % 16 = 0)
    (hle : p0 + m ≤ c.length) (hIV : IV.length = 16) :
    cbcDecrypt D (if p0 = 0 then IV else slice c (p0 - 16) 16) (slice c p0 m) =
      .ok (slice (plainCbc D IV c) p0 m) := cbc_window D IV c p0 m hp0 hm hle hIV

/-- on an ordinary file: every read (inside the first block, starting or ending mid-block, at and past the end)
    returns the plaintext slice and leaves the position at the end of the data returned -/
theorem C02_read_spec (s : CbcIO AFile) (n : Int) (hL : s.reader.content.length % 16 = 0) (hIV : s.iv.length = 16) :
    CbcIO.read AFile.ops D s n =
      .ok (slice (plainCbc D s.iv s.reader.content) s.reader.pos (s.reader.readLen n),
           { s with reader := { s.reader with pos := s.reader.pos + s.reader.readLen n } }) :=
  cbc_read_pure D s n hL hIV

/-- over any readable inner file whose length is a multiple of 16: the wrapper reads/seeks/tells exactly like an
    ordinary file holding the whole-stream CBC plaintext, and a write raises without effect -/
theorem C02_cbc_refines (hF : IsReadable F inv abs) :
    IsReadOnly (CbcIO.ops F D) (CbcIO.invCbc inv abs) (CbcIO.absCbc D abs) := CbcIO.cbc_isReadOnly D hF

/-- the wrapper never writes: a read leaves the inner file's content as it was -/
theorem C02_no_write (hF : IsReadable F inv abs) (s : CbcIO σ) (n : Int) (h : CbcIO.invCbc inv abs s) :
    ∃ s', CbcIO.read F D s n = .ok (((CbcIO.absCbc D abs s).read n).1, s') ∧
      (abs s'.reader).content = (abs s.reader).content := by
  obtain ⟨s', a, _, _, c⟩ := CbcIO.read_refines D hF s n h; exact ⟨s', a, c⟩

theorem C02_history (hF : IsReadable F inv abs) (ops : List Op) (hro : ∀ op ∈ ops, op.isWrite = false)
    (s : CbcIO σ) (h : CbcIO.invCbc inv abs s) :
    ((CbcIO.ops F D).run s ops).1 = (AFile.ops.run (CbcIO.absCbc D abs s) ops).1 :=
  (isReadable_run (C02_cbc_refines D hF).toIsReadable ops hro s h).1

/-- plain file and windowed sub-file at a non-zero base offset -/
theorem C02_plain_file :
    IsReadOnly (CbcIO.ops PyFile.ops D) (CbcIO.invCbc (fun _ => True) PyFile.abs) (CbcIO.absCbc D PyFile.abs) :=
  C02_cbc_refines D pyfile_isFile.toIsReadable

theorem C02_windowed :
    IsReadOnly (CbcIO.ops (Sub.ops PyFile.ops) D)
      (CbcIO.invCbc (Sub.invSub (fun _ => True) PyFile.abs) (Sub.absSub PyFile.abs))
      (CbcIO.absCbc D (Sub.absSub PyFile.abs)) :=
  C02_cbc_refines D (Sub.sub_isReadable pyfile_isFile.toIsReadable)

/-- non-vacuity: reads inside block 0, starting mid-block of block 2, ending mid-block, and past the end -/
example :
    let D : Bytes → Bytes := fun b => b.map (· + 3)
    let iv : Bytes := List.replicate 16 7
    let ct : Bytes := (List.range 48).map UInt8.ofNat
    ((CbcIO.ops PyFile.ops D).run ⟨⟨ct, 0⟩, iv⟩ [.read 5, .seek 37 0, .read 4, .seek 60 0, .read 4, .tell]).1 =
      [.bytes (slice (plainCbc D iv ct) 0 5), .nat 37, .bytes (slice (plainCbc D iv ct) 37 4), .nat 60, .bytes [],
       .nat 60] := by decide

end Pyctr.C02
