namespace Pyctr.C02
end Pyctr.C02
