/-
  C18 — save containers: writes keep data, hash tree and header mutually consistent.
-/
import Proofs.SaveCont
namespace Pyctr.C18
open Pyctr Pyctr.Save

/-- a write of nothing (empty data, or at / past the end of level 4) returns 0 and changes nothing, writable or not -/
theorem C18_empty_write (H : Bytes → Bytes) (mac : Bytes → Bytes → Bytes) (cm : Option CmacScheme) (c : Cont) (pi : Nat)
    (p : PartSt) (hp : c.parts[pi]? = some p) (data : Bytes)
    (h : data = [] ∨ p.ivfc.lv4.size ≤ p.seek) : lv4Write H mac cm c pi data = .ok (0, c) := by
  unfold lv4Write
  rw [hp]
  simp only
  have : (if p.seek + data.length > p.ivfc.lv4.size then data.take (p.ivfc.lv4.size - p.seek) else data).isEmpty = true := by
    rcases h with h | h
    · subst h; simp
    · split
      · rw [show p.ivfc.lv4.size - p.seek = 0 by omega]; simp
      · rename_i hh
        have : data.length = 0 := by omega
        simp [List.length_eq_zero_iff.mp this]
  rw [if_pos this]

end Pyctr.C18
